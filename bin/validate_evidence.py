#!/usr/bin/env python3
"""Validates MANIFEST.json and every evidence file of a claimed check against the schemas."""
import json, sys, os
try:
    import jsonschema
except ImportError:
    sys.path.insert(0, '/opt/veriftools/pyvenv/lib/python3.11/site-packages')
    import jsonschema
root = os.path.dirname(os.path.dirname(os.path.abspath(__file__)))
m = json.load(open(os.path.join(root, 'MANIFEST.json')))
jsonschema.validate(m, json.load(open('/root/.vp/MANIFEST.schema.json')))
es = json.load(open('/root/.vp/EVIDENCE.schema.json'))
bad = 0
for c in m['checks']:
    f = c['evidence_file']
    try:
        e = json.load(open(f))
        jsonschema.validate(e, es)
        assert e['level'] == c['level_claimed']['category'], 'level differs from manifest'
        print('ok  ', c['property_id'], e['tier'], 'evals', e['coverage']['evaluations'], 'distinct', e['coverage']['distinct_nontrivial'], 'samples', len(e['coverage']['samples']))
    except Exception as ex:
        bad += 1
        print('BAD ', c['property_id'], f, str(ex)[:200])
sys.exit(1 if bad else 0)
