#!/usr/bin/env python3
"""Regenerates /verif/MANIFEST.json from the table below. A property is claimed only when its
check directory exists under harness/cmd/ and it is listed in CLAIMED."""
import json, os, subprocess, sys

ROOT = os.path.dirname(os.path.dirname(os.path.abspath(__file__)))

# id -> (category, technique, level text, level note, design ref)
CHECKS = {
 "C01": ("exploration", "stress workload + offline history checker over recorded write/delivery events; Go race detector",
         "Real server/client pairs over UDP, TCP, HTTP tunnel, WebSocket tunnel, plain and TLS+SRTP stream self-describing packets while readers join, pause and leave (one of them set up for a single media only), a raw reader keeps requests (also handler-refused ones) in flight during PLAY publishers (direct or tunnelled) get a PAUSE refused, and a reader behind the HTTP tunnel writes numbered RTCP feedback while its keep-alives cross it on the same tunnel (numbering checked at the server session, the two client routines left unordered for the race detector); an offline checker over the recorded event log decides identity, order, at-most-once, completeness on reliable transports and SSRC agreement. Held on the executions made, not for all schedules.",
         "Schedules are sampled (Go scheduler under -race plus injected yields), not enumerated; UDP loss is injected by a tap. Trusted: the harness' event log and CRC'd payload ids.", "DESIGN.md section 3 C01"),
 "C02": ("exploration", "exhaustive request-sequence enumeration below a depth bound against a reference RTSP state machine (online monitor), timing cases with scaled timers; race detector",
         "Every request sequence up to the depth bound over the alphabet is sent to a real Server on a fresh connection and each response / ServerSession.State() is compared with an independent RFC 2326 A.2 state-machine model; every continuation of length 1..2 of ten deep states (with handler-refused requests), requests naming a closing session from several connections and longer samples follow; expiry / non-expiry is checked with scaled timeouts, also for tunnelled peers.",
         "The oracle compares status class and state, not exact codes; timing verdicts are canary-guarded and bounded (3x timeout).", "DESIGN.md section 3 C02"),
 "C03": ("exploration", "differential round-trip monitor (decode(encode(frame)) == frame) over a systematic size sweep",
         "For each of the 15 codec pairs the real encoder and decoder are run over valid frames whose unit sizes sweep every aggregation / fragmentation threshold for many payload-size limits; the oracle is byte equality of the returned frame and 'more packets needed' before the completing packet.",
         "'Valid frame' is the harness' reading of each encoder's documented preconditions (grammars listed in the evidence).", "DESIGN.md section 3 C03"),
 "C04": ("exploration", "round-trip monitor through chunking readers and three carriers; counting reader + allocation counters for limits; panic monitor",
         "Generated sequences of requests, responses and interleaved frames are serialised by the library, fed back through readers that split the byte stream at chosen points (exhaustively for short streams), directly, through the base64 stream reader and through real HTTP / WebSocket tunnels to a live server, and compared element by element; over-limit elements must be refused having pulled / allocated a bounded amount.",
         "Messages are generated in the canonical form the marshaler emits.", "DESIGN.md section 3 C04"),
 "C05": ("exploration", "round-trip monitor Unmarshal(Marshal(d)) == d over generated descriptions; parser totality / idempotence monitor on mutated and corpus SDP",
         "Descriptions over all 22 format types with valid parameters are marshalled and re-parsed by the real code and compared on the fields the property lists; arbitrary / mutated SDP must yield a value or an error, and accepted values must be a marshal/parse fixed point.",
         "Validity of format parameters is read from each format's own unmarshal rules.", "DESIGN.md section 3 C05"),
 "C06": ("exploration", "assertion monitor on every packet returned by the real encoders over the C03 sweep",
         "Payload size <= limit, payload type, SSRC, sequence numbers +1 mod 2^16 from the configured start, marker placement and input immutability are asserted on every packet of every Encode call in the sweep.",
         "Same frame grammars as C03.", "DESIGN.md section 3 C06"),
 "C07": ("fault_enumeration", "systematic single/double packet-fault enumeration over encoded streams with a claimable-frame oracle",
         "Encoded streams of unique frames are rewritten by every single fault (drop / duplicate / swap, per packet position and whole frame) and by sampled multi-fault plans and fed to the real decoders; every frame that arrived intact after an intact predecessor must come out exactly once, in time.",
         "Faults are enumerated per frame kind and position class; combinations are sampled.", "DESIGN.md section 3 C07"),
 "C08": ("exploration", "hostile-history workload with panic monitor, retained-bytes walker (reflect) + heap-after-GC monitor, output-size and result-stability monitors",
         "Random, grammar-aware and mutated packet histories (up to tens of thousands of packets) are fed to all 15 real decoders; monitors watch for panics, non-returning calls, retained payload bytes above the format bound, oversized frames and mutation of frames already returned.",
         "Bounds are the documented maxima (or the largest frame the wire format can describe).", "DESIGN.md section 3 C08"),
 "C09": ("exploration", "round-trip / purity / repeated-parse determinism monitors over generated header values and parser inputs; exhaustive NPT millisecond sweep",
         "Generated well-formed values of every header (and MIKEY message) are marshalled and re-parsed by the real code and compared; every parser input (conflict mixes, marshalled forms, mutations, fuzz corpora, PRNG bytes) is parsed 24 times into fresh values that must all agree; panics are caught. NPT values 0..10^6 ms are swept exhaustively.",
         "Error texts are not compared ('same failure' = fails again). A 2-way map-order conflict escapes 24 parses with probability 2^-23.", "DESIGN.md section 3 C09"),
 "C10": ("exploration", "completeness / soundness monitor over generated credentials with single-field perturbations; wire-level monitor against a live server",
         "Requests signed by the library's client side are verified by the library's server side for generated users / passwords / realms / nonces / methods / URLs and every method subset; each single-field perturbation must be rejected (except the documented SETUP relaxation); 401 / connection-fate behaviour is observed on real connections, including library clients that authenticate again on a second connection (redirect of the authenticated DESCRIBE, UDP-to-TCP fallback).",
         "User names without ':' and '\"' as the property states.", "DESIGN.md section 3 C10"),
 "C11": ("exploration", "grammar-aware and byte-level mutation of RTSP conversations against a live server in a child process; liveness, canary-client, goroutine / callback / registration census monitors; race detector",
         "Mutated conversations (plus deterministic families: boundary values, handler-refused requests, one session driven from several connections, simultaneous tunnel channels, readers that stop reading / keep flooding, transports the configuration does not offer) are logged and sent to a real Server running in a child process; monitors check process survival, answer-or-close within timeouts, a concurrently served well-behaved client, and that goroutines, sessions, UDP registrations and reader slots return to baseline after hostile connections end.",
         "Only the mutation neighbourhood of the seed conversations is reached.", "DESIGN.md section 3 C11"),
 "C12": ("exploration", "scripted hostile server vs. real Client: return-of-every-call monitor with step bounds, goroutine / socket census after Close; race detector",
         "A scripted server plays correct transcripts with deviations (status, CSeq, headers, SDP, Transport, redirects, injected frames / requests, closes, silence, a server that stops reading, refused multicast answers) - and a real server behind a forwarder that resets or silences one connection of a tunnelled client - against a real Client; every API call must return, Close must leave no goroutine or socket, and calls after a failure must report it.",
         "Only the mutation neighbourhood of the base transcripts is reached.", "DESIGN.md section 3 C12"),
 "C13": ("fault_enumeration", "Close issued at every protocol step boundary under injected yields; callback-log checker, goroutine / socket census, watchdog; race detector",
         "Scenarios are cut at every protocol step and Server.Close / ServerStream.Close / Client.Close / peer disconnect issued there (also ServerConn.Close from the application), concurrently with writers and joins, plus fault scenarios (multicast listener allocation failing half way, one tunnel connection reset by the network, client source port ranges whose pairs are half busy); monitors check bounded return, no leaked goroutine / listener, balanced and ordered lifecycle callbacks and no callback after OnSessionClose.",
         "Schedules sampled; 'bounded time' judged by a generous canary-guarded watchdog.", "DESIGN.md section 3 C13"),
 "C14": ("exploration", "invariant monitor over ProcessPacket2 output relative to the full input history; exhaustive sweep over all 65536 start sequence numbers",
         "For every starting sequence number and a battery of arrival plans (swap, late, burst loss, duplicates, restarts, double wrap) the real Receiver is run and its deliveries, loss counts, Stats() and receiver reports are checked against the history.",
         "No-drop clause checked on displacement-only histories; packets preceding the first arrival are outside the claim.", "DESIGN.md section 3 C14"),
 "C15": ("exploration", "reference-model monitor (big-integer PTS accumulation, rational NTP mapping) over generated step sequences with a virtual clock",
         "The real GlobalDecoder / Sender / Receiver / ntp code is driven with generated timestamp step sequences, report instants and wall-clock values under a virtual clock and compared with an exact reference.",
         "Virtual clock injected through TimeNow fields / the verif hook.", "DESIGN.md section 3 C15"),
 "C16": ("exploration", "porcupine linearizability checking of recorded concurrent histories against a bounded-FIFO model + direct invariants; race detector; injected yields; exhaustive sequential enumeration below a length bound",
         "Concurrent producers, Start, Close and failing callbacks are run against the real ring buffer and async processor under injected yields; recorded histories are checked for linearizability to a bounded FIFO and for at-most-once / order / no-run-after-Close / wake-up / error-once invariants.",
         "Schedules are sampled; histories kept short for the NP-complete checker (timeouts = inconclusive).", "DESIGN.md section 3 C16"),
 "C17": ("exploration", "wire taps (PacketConn / TLS-inner conn wrappers) with cleartext-marker scanner, tamper injector and end-to-end delivery checker; downgrade probes; race detector",
         "Secure sessions are run end to end; taps scan every datagram / interleaved frame for application markers, flip bits in protected packets and check they are rejected, and the delivery checker confirms both sides decrypt what the other encrypts across ROC advances, for plain-profile and secure readers mixed on one stream, boundary-size RTCP, the UDP-to-TCP fallback of a secure client, and a relayed server that announces the key in the SDP only (media level, with a different session-level key).",
         "Multicast traffic is observed passively only.", "DESIGN.md section 3 C17"),
 "C18": ("exploration", "wire taps recording the size of every outbound datagram / frame paired with write return values over a size sweep around the limit",
         "Writes whose marshalled size sweeps the configured maximum are issued on every entry point, plain and SRTP; the tap asserts no datagram / frame exceeds the maximum and that refused writes transmit nothing; Start-time validation is enumerated.",
         "Sizes around the limit are enumerated, other parameters sampled.", "DESIGN.md section 3 C18"),
 "C19": ("exploration", "spoofing peers (other loopback addresses / ports / connections) with marker payloads; callback, Stats() and state monitors; race detector",
         "Valid RTP/RTCP for a live session is sent from non-negotiated addresses and ports, and stolen session ids are replayed from other addresses / connections in every state (also while the owner's PLAY / RECORD is being handled, and between two native IPv6 addresses when the host has them; a scripted server naming a media source other than its control address); monitors check nothing reaches callbacks, statistics or timeouts and the victim is undisturbed.",
         "Loopback addresses (and one further local IPv6 address when present).", "DESIGN.md section 3 C19"),
 "C20": ("exploration", "generated URLs through a real client/server pair; handler-context, SETUP-to-media and request-line monitors",
         "Generated stream URLs (escapes, look-alike segments, queries) are described, set up and played / recorded by a real Client against a real Server; handlers log Path / Query and the media reached by each SETUP (also with a back-channel media in front of the stream), request lines are scanned for credentials; redirects and refusals followed by a session rebuild or another URL are covered by a third part.",
         "URL alphabet as described in DESIGN.md.", "DESIGN.md section 3 C20"),
}

CLAIMED = [l.strip() for l in open(os.path.join(ROOT, "bin", "claimed.txt")) if l.strip() and not l.startswith("#")]
NA_REASON = "check not yet registered in this revision (machinery under construction, see DESIGN.md section 4b); no verdict is claimed"

def hooks_commits():
    try:
        out = subprocess.check_output(["git", "-C", "/repo", "log", "--format=%H %s"], text=True)
    except Exception:
        return []
    return [l.split()[0] for l in out.splitlines() if " verif hooks" in l or l.split(" ", 1)[1].startswith("verif ")]

ENV = "GOFLAGS=-mod=mod GOPROXY=off GOSUMDB=off GOTOOLCHAIN=local"
m = {
 "version": 1,
 "setup_cmd": "./bin/setup",
 "hooks": {
  "guard": "verif",
  "enable": "go build tag: go1.26 build -tags verif (bin/check builds every check binary from /repo's working tree through the replace directive in harness/go.mod)",
  "baseline_off_cmd": "cd /repo && " + ENV + " go1.26 test -json -vet=off -count=1 -timeout 25m . ./pkg/... ./internal/...",
  "source_commits": hooks_commits(),
  "add_only": True,
 },
 "engines": [
  {"name": "vlib", "path": "harness/lib/vlib", "serves_properties": sorted(CHECKS), "kind_free_text": "run / evidence / known-findings / replay support, seeded PRNG derivation, panic classification"},
  {"name": "check driver", "path": "bin/check", "serves_properties": sorted(CHECKS), "kind_free_text": "rebuilds the check binary from /repo (tag verif, -race for concurrent workloads), runs it under a watchdog, classifies process death"},
 ],
 "checks": [],
 "not_applicable": [],
 "notes": "Technique family: runtime monitoring and sanitizers. All verdicts are 'held on what was observed'; see DESIGN.md. known_findings.jsonl lists fixed and known findings.",
}
for pid in sorted(CHECKS):
    cat, tech, text, note, ref = CHECKS[pid]
    if pid in CLAIMED and os.path.isdir(os.path.join(ROOT, "harness", "cmd", pid.lower())):
        m["checks"].append({
            "property_id": pid,
            "quick_cmd": f"./bin/check {pid} quick",
            "thorough_cmd": f"./bin/check {pid} thorough",
            "evidence_file": f"/verif/evidence/{pid}.json",
            "replay_cmd_template": f"./bin/check {pid} --replay {{path}}",
            "engine": "check driver",
            "level_claimed": {"category": cat, "text": text, "design_ref": ref},
            "level_note": note,
            "technique": tech,
        })
    else:
        m["not_applicable"].append({"property_id": pid, "reason": NA_REASON})
json.dump(m, open(os.path.join(ROOT, "MANIFEST.json"), "w"), indent=1)
print("claimed:", [c["property_id"] for c in m["checks"]])
