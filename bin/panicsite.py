#!/usr/bin/env python3
"""Print lib:<func> if the crashing goroutine's innermost non-runtime frame is gortsplib (or a
dependency reached through it), harness:<func> if it is harness code."""
import sys, re
lines = open(sys.argv[1], errors='replace').read().split('\n')
start = None
for i, l in enumerate(lines):
    if l.startswith('panic:') or l.startswith('fatal error:'):
        start = i
        break
if start is None:
    print('none'); sys.exit(0)
# first goroutine block after the panic line
j = start
while j < len(lines) and not lines[j].startswith('goroutine '):
    j += 1
frames = []
j += 1
while j < len(lines) and lines[j].strip() != '':
    l = lines[j]
    if not l.startswith('\t') and '(' in l:
        frames.append(l[:l.rindex('(')])
    j += 1
first_lib = None
first_harness = None
for k, f in enumerate(frames):
    if f.startswith('runtime.') or f.startswith('panic(') or f.startswith('internal/') or f.startswith('sync.'):
        continue
    if 'github.com/bluenviron/gortsplib' in f and first_lib is None:
        first_lib = (k, f)
    if (f.startswith('verif/') or f.startswith('main.')) and first_harness is None:
        first_harness = (k, f)
if first_lib and (first_harness is None or first_lib[0] < first_harness[0]):
    print('lib:' + re.sub(r'^github.com/bluenviron/gortsplib/v5[/.]', '', first_lib[1]))
elif first_harness:
    print('harness:' + first_harness[1])
else:
    print('other:' + (frames[0] if frames else '?'))
