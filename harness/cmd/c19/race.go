package main

import (
	"fmt"
	"math/rand"
	"strings"
	"sync"
	"time"

	"github.com/bluenviron/gortsplib/v5"
	"github.com/bluenviron/gortsplib/v5/pkg/base"

	"verif/lib/rig"
)

// Part 3b: the intruder's request races with the owner's PLAY / RECORD. The owner's request is
// held inside the application handler (a slow OnPlay / OnRecord); while it is held, a second
// connection from the same address presents the session id. The server received that request
// after the owner's, so it is handled when the session already streams over the owner's
// interleaved connection: it must be answered with an error and leave the session untouched.

type startGate struct {
	entered chan struct{}
	release chan struct{}
	once    sync.Once
}

var startGates sync.Map // path -> *startGate

// holdStart is installed (before the server starts) as OnPlay and OnRecord of the control servers.
func holdStart(path string) {
	if g, ok := startGates.Load(path); ok {
		sg := g.(*startGate)
		sg.once.Do(func() { close(sg.entered) })
		select {
		case <-sg.release:
		case <-time.After(5 * time.Second):
		}
	}
}

func installStartGates(ts *rig.TestServer) {
	ts.Core.Play = func(ctx *gortsplib.ServerHandlerOnPlayCtx) (*base.Response, error) {
		holdStart(ctx.Path)
		return &base.Response{StatusCode: base.StatusOK}, nil
	}
	ts.Core.Record = func(ctx *gortsplib.ServerHandlerOnRecordCtx) (*base.Response, error) {
		holdStart(ctx.Path)
		return &base.Response{StatusCode: base.StatusOK}, nil
	}
}

func runControlRace(ts *rig.TestServer, c ctlCase) {
	evals.Add(1)
	r := rand.New(rand.NewSource(c.Seed))
	wit := map[string]any{"part": "control-race", "control": c}
	state, _ := splitState(c.State) // pre-play | pre-record, over tcp
	streaming := strings.TrimPrefix(state, "pre-")
	path := newPath("racerec")
	var st *gortsplib.ServerStream
	tracks := 2
	if streaming == "play" {
		path = newPath("raceplay")
		st = newStream(ts, path)
		defer st.Close()
		tracks = 1
	}
	v, err := negotiate(ts, "127.0.0.1", path, "tcp", state, tracks)
	if err != nil {
		run.Violation("control/victim-negotiation-failed/"+c.State, err.Error(), wit)
		return
	}
	defer v.close()
	defer forget(v.rec.owner)
	v.rec.sink.setWitness(wit)
	g := &startGate{entered: make(chan struct{}), release: make(chan struct{})}
	startGates.Store("/"+strings.TrimPrefix(path, "/"), g)
	startGates.Store(strings.TrimPrefix(path, "/"), g)
	defer startGates.Delete("/" + strings.TrimPrefix(path, "/"))
	defer startGates.Delete(strings.TrimPrefix(path, "/"))
	released := false
	defer func() {
		if !released {
			close(g.release)
		}
	}()

	startM := base.Play
	if streaming == "record" {
		startM = base.Record
	}
	t0 := time.Now()
	if err := v.p.Send(v.p.Request(startM, v.url(), base.Header{"Session": base.HeaderValue{v.sessID}}, nil)); err != nil {
		run.Inconclusive("control-race/owner-send")
		return
	}
	select {
	case <-g.entered:
	case <-time.After(5 * time.Second):
		run.Inconclusive("control-race/handler-not-entered")
		return
	}
	// the intruder: same address, another connection, while the owner's request is being handled
	p, err := rig.Dial(hostPort(ts, "127.0.0.1"), nil, "127.0.0.1")
	if err != nil {
		run.Inconclusive("control/intruder-dial")
		return
	}
	defer p.Close()
	p.Tag = newTag("i")
	m := base.Method(c.Method)
	if err := p.Send(intruderRequest(p, v, m, "127.0.0.1")); err != nil {
		run.Inconclusive("control-race/intruder-send")
		return
	}
	// give the server time to read the intruder's request while the owner's is still held
	time.Sleep(time.Duration(20+r.Intn(40)) * time.Millisecond)
	close(g.release)
	released = true
	ores, err := v.p.ReadResponse(respTimeout)
	if err != nil || ores.StatusCode != base.StatusOK {
		if lateCanary(t0) {
			run.Inconclusive("control-race/owner-response-late-canary")
			return
		}
		run.Violation("control-race/owner-start-failed/"+c.State, fmt.Sprintf("the owner's %s was not answered 200 (%v, %v)", startM, err, ores), wit)
		return
	}
	res, err := p.ReadResponse(respTimeout)
	status := 0
	if err == nil {
		status = int(res.StatusCode)
	}
	run.Count("control-race-attempts:"+c.State, 1)
	run.Count(fmt.Sprintf("control-race-status:%d", status), 1)
	run.Distinct(fmt.Sprintf("control-race|%s|%s", c.State, c.Method))
	switch {
	case err != nil:
		if err == rig.ErrTimeout && lateCanary(t0) {
			run.Inconclusive("control/intruder-response-late-canary")
			return
		}
		run.Violation(fmt.Sprintf("control-race/%s/no-error-response-during-%s", c.Method, streaming),
			fmt.Sprintf("%s with the session id from another connection, received while the owner's %s was being handled: no response (%v)", c.Method, startM, err), wit)
	case res.StatusCode >= 200 && res.StatusCode < 300:
		run.Violation(fmt.Sprintf("control-race/%s/accepted-during-%s", c.Method, streaming),
			fmt.Sprintf("%s with the session id from another connection, received while the owner's %s over an interleaved connection was being handled, was answered %d", c.Method, startM, res.StatusCode), wit)
	default:
		run.Count("control-race-attempts-refused", 1)
	}
	p.Close()
	if got := v.rec.ss.State(); got != libStateOf(streaming) {
		run.Violation("control-race/victim-state-changed/"+c.Method,
			fmt.Sprintf("after the racing %s (answered %d) the victim session is in state %v, expected %v", c.Method, status, got, libStateOf(streaming)), wit)
		return
	}
	if ok, why := victimAlive(v, st, streaming, r); !ok {
		run.Violation("control-race/victim-disturbed/"+c.Method, fmt.Sprintf("after the racing %s (answered %d): %s", c.Method, status, why), wit)
		return
	}
	run.Count("control-race-victim-health-checks-passed", 1)
}
