package main

import (
	"fmt"
	"math/rand"
	"reflect"
	"sort"
	"strings"
	"sync"
	"time"

	"github.com/bluenviron/gortsplib/v5"
	"github.com/bluenviron/gortsplib/v5/pkg/base"

	"verif/lib/rig"
)

// Part 3: control. A victim session is set up by connection A; an intruder connection presents
// the stolen session id with every method, from another address or from the victim's address.

type ctlCase struct {
	Listen string `json:"listen"` // v4 | dual
	State  string `json:"state"`  // pre-play-udp | play-udp | play-tcp | pre-record-udp | record-udp | record-tcp | pre-play-tcp | pre-record-tcp
	Method string `json:"method"`
	Origin string `json:"origin"` // other-ip | other-family | same-ip-other-conn | same-ip-conn-with-own-session
	Seed   int64  `json:"seed"`
}

var ctlMethods = []base.Method{base.Options, base.Setup, base.Play, base.Pause, base.Record, base.Teardown, base.GetParameter, base.SetParameter, base.Announce}

var ctlStates = []string{"pre-play-udp", "play-udp", "play-tcp", "pre-record-udp", "record-udp", "record-tcp", "pre-play-tcp", "pre-record-tcp"}

func splitState(s string) (state, proto string) {
	i := strings.LastIndex(s, "-")
	return s[:i], s[i+1:]
}

func libStateOf(state string) gortsplib.ServerSessionState {
	switch state {
	case "pre-play":
		return gortsplib.ServerSessionStatePrePlay
	case "play":
		return gortsplib.ServerSessionStatePlay
	case "pre-record":
		return gortsplib.ServerSessionStatePreRecord
	}
	return gortsplib.ServerSessionStateRecord
}

// mustRefuse: does the statement demand an error for this origin in this state?
func mustRefuse(c ctlCase) bool {
	state, proto := splitState(c.State)
	switch c.Origin {
	case "other-ip", "other-family", "other-ip-v6":
		return true
	default: // same address, other connection: only while the session streams over its connection
		return proto == "tcp" && (state == "play" || state == "record")
	}
}

// intruderRequest builds the request that presents the stolen session id.
func intruderRequest(p *rig.Peer, v *rawSess, m base.Method, localIP string) *base.Request {
	url := "rtsp://" + hostPort(v.ts, localIP) + v.path
	h := base.Header{"Session": base.HeaderValue{v.sessID}}
	switch m {
	case base.Setup:
		// the track the victim has not set up yet (play) / the second track (record)
		return setupRequest(p, url, 1, v.proto, v.record, rig.FreePortPair(), v.sessID)
	case base.Announce:
		h["Content-Type"] = base.HeaderValue{"application/sdp"}
		return p.Request(m, url, h, sdp)
	}
	return p.Request(m, url, h, nil)
}

type victimSnap struct {
	State     gortsplib.ServerSessionState
	Conns     []string
	Transport string
	Medias    int
	Events    []string
	ConnOpen  bool
}

func connSet(ss *gortsplib.ServerSession) []string {
	var out []string
	for _, c := range ss.Conns() {
		out = append(out, fmt.Sprintf("%p", c))
	}
	sort.Strings(out)
	return out
}

func snapVictim(v *rawSess) victimSnap {
	ss := v.rec.ss
	s := victimSnap{State: ss.State(), Conns: connSet(ss), Medias: len(ss.Medias()), Events: v.rec.eventLog(), ConnOpen: true}
	if t := ss.Transport(); t != nil {
		s.Transport = fmt.Sprintf("%+v", *t)
	}
	select {
	case <-v.rec.owner.closed:
		s.ConnOpen = false
	default:
	}
	return s
}

// victimAlive checks that the victim still works: streaming states deliver more media over the
// negotiated transport, paused states can still be started by their owner.
func victimAlive(v *rawSess, st *gortsplib.ServerStream, state string, r *rand.Rand) (bool, string) {
	const n = 5
	switch state {
	case "play":
		first := v.ctr[0]
		for k := 0; k < n; k++ {
			v.seq[0]++
			if err := st.WritePacketRTP(st.Desc.Medias[0], buildRTPPacket(v.run, 0, clLegit, 0, v.seq[0], uint32(v.seq[0])*3000, v.ctr[0], r)); err != nil {
				return false, "stream write: " + err.Error()
			}
			v.ctr[0]++
		}
		want := n
		if v.proto == "udp" {
			want = 1
		}
		if got := v.readMedia(0, v.run, first, n, 5*time.Second); got < want {
			return false, fmt.Sprintf("%d packets written to the stream after the attempt, %d received by the victim over %s", n, got, v.proto)
		}
	case "record":
		r0 := v.rec.sink.mediaCount(0)
		for k := 0; k < n; k++ {
			if err := v.sendLegitRTP(0, r); err != nil {
				return false, "victim send: " + err.Error()
			}
		}
		ok, _ := waitCond(5*time.Second, func() bool {
			return v.rec.sink.mediaCount(0) >= r0+n || (v.proto == "udp" && v.rec.sink.mediaCount(0) > r0)
		})
		if !ok {
			return false, fmt.Sprintf("%d packets sent by the victim after the attempt, %d reached the server's callback", n, v.rec.sink.mediaCount(0)-r0)
		}
	case "pre-play", "pre-record":
		m := base.Play
		if state == "pre-record" {
			m = base.Record
		}
		res, err := v.p.Do(v.p.Request(m, v.url(), base.Header{"Session": base.HeaderValue{v.sessID}}, nil), respTimeout)
		if err != nil {
			return false, fmt.Sprintf("the owner's %s got no response: %v", m, err)
		}
		if res.StatusCode != base.StatusOK {
			return false, fmt.Sprintf("the owner's %s was answered %d", m, res.StatusCode)
		}
	}
	return true, ""
}

func runControl(ts *rig.TestServer, c ctlCase) {
	evals.Add(1)
	r := rand.New(rand.NewSource(c.Seed))
	wit := map[string]any{"part": "control", "control": c}
	state, proto := splitState(c.State)
	path := newPath("rec")
	var st *gortsplib.ServerStream
	if strings.HasSuffix(state, "play") {
		path = newPath("play")
		st = newStream(ts, path)
		defer st.Close()
	}
	victimIP, intruderIP := "127.0.0.1", "127.0.0.1"
	switch c.Origin {
	case "other-ip":
		intruderIP = fmt.Sprintf("127.0.0.%d", 2+r.Intn(8))
	case "other-ip-v6":
		// two native IPv6 addresses: the loopback and a second address of this host
		victimIP, intruderIP = "::1", secondV6
	case "other-family":
		if r.Intn(2) == 0 {
			victimIP, intruderIP = "::1", "127.0.0.1"
		} else {
			intruderIP = "::1"
		}
	}
	tracks := 2
	if strings.HasSuffix(state, "play") {
		tracks = 1
	}
	v, err := negotiate(ts, victimIP, path, proto, state, tracks)
	if err != nil {
		run.Violation("control/victim-negotiation-failed/"+c.State, err.Error(), wit)
		return
	}
	defer v.close()
	defer forget(v.rec.owner)
	v.rec.sink.setWitness(wit)
	if got := v.rec.ss.State(); got != libStateOf(state) {
		run.Violation("control/victim-negotiation-failed/"+c.State, fmt.Sprintf("victim state %v after negotiation", got), wit)
		return
	}
	if ok, why := victimAlive(v, st, map[bool]string{true: state, false: ""}[state == "play" || state == "record"], r); !ok {
		run.Violation("control/victim-not-flowing-before-attempt/"+c.State, why, wit)
		return
	}
	before := snapVictim(v)

	// the intruder
	p, err := rig.Dial(hostPort(ts, intruderIP), nil, intruderIP)
	if err != nil {
		run.Inconclusive("control/intruder-dial")
		return
	}
	defer p.Close()
	p.Tag = newTag("i")
	if c.Origin == "same-ip-conn-with-own-session" {
		// the intruding connection already owns a session of its own
		ipath := newPath("own")
		ist := newStream(ts, ipath)
		defer ist.Close()
		res, err := p.Do(setupRequest(p, "rtsp://"+hostPort(ts, intruderIP)+ipath, 0, "tcp", false, 0, ""), respTimeout)
		if err != nil || res.StatusCode != base.StatusOK {
			run.Inconclusive("control/intruder-own-session")
			return
		}
	}
	m := base.Method(c.Method)
	t0 := time.Now()
	res, err := p.Do(intruderRequest(p, v, m, intruderIP), respTimeout)
	must := mustRefuse(c)
	status := 0
	if err == nil {
		status = int(res.StatusCode)
	}
	run.Count(fmt.Sprintf("control-attempts:%s:%s", c.Origin, c.State), 1)
	run.Count(fmt.Sprintf("control-status:%s:%d", c.Origin, status), 1)
	run.Distinct(fmt.Sprintf("control|%s|%s|%s|%s", c.Listen, c.State, c.Method, c.Origin))
	if !must {
		// a second connection from the session's own address may drive a non-interleaved session
		run.Count("control-attempts-not-asserted", 1)
		p.Close()
		return
	}
	if err != nil {
		if err == rig.ErrTimeout && lateCanary(t0) {
			run.Inconclusive("control/intruder-response-late-canary")
			return
		}
		run.Violation(fmt.Sprintf("control/%s/%s/no-error-response-in-%s", c.Origin, c.Method, c.State),
			fmt.Sprintf("%s with a stolen session id from %s (%s) while the victim is in %s: no response (%v); the statement demands an error status", c.Method, intruderIP, c.Origin, c.State, err), wit)
	} else if res.StatusCode >= 200 && res.StatusCode < 300 {
		run.Violation(fmt.Sprintf("control/%s/%s/accepted-in-%s", c.Origin, c.Method, c.State),
			fmt.Sprintf("%s with a stolen session id from %s (%s) was answered %d while the victim session (created from %s) is in %s", c.Method, intruderIP, c.Origin, res.StatusCode, victimIP, c.State), wit)
	} else {
		run.Count("control-attempts-refused", 1)
	}
	p.Close()

	// settle: the intruder's connection is gone
	icr := connFor(p.Tag)
	if icr == nil {
		run.Violation("control/on-request-hook-not-called", "the intruder got a response but OnRequest never saw its request", wit)
		return
	}
	select {
	case <-icr.closed:
	case <-time.After(15 * time.Second):
		if lateCanary(t0) {
			run.Inconclusive("control/intruder-conn-close-late-canary")
		} else {
			run.Violation("control/intruder-conn-not-closed", "OnConnClose of the intruder connection not delivered within 15 s after the peer closed it", wit)
		}
		return
	}
	defer forget(icr)
	iptr := fmt.Sprintf("%p", icr.conn)
	ok, concl := waitCond(2*time.Second, func() bool {
		for _, c := range connSet(v.rec.ss) {
			if c == iptr {
				return false
			}
		}
		return true
	})
	if !ok && concl {
		run.Violation("control/intruder-conn-stays-associated",
			fmt.Sprintf("%s/%s in %s: the refused intruder connection is still listed by ServerSession.Conns() of the victim after its OnConnClose", c.Origin, c.Method, c.State), wit)
	}
	after := snapVictim(v)
	run.Count("control-victim-snapshots-compared", 1)
	if !reflect.DeepEqual(before, after) {
		what := "unknown"
		switch {
		case before.State != after.State:
			what = "state"
		case !reflect.DeepEqual(before.Events, after.Events):
			what = "callback-log"
		case before.Transport != after.Transport || before.Medias != after.Medias:
			what = "transport"
		case !reflect.DeepEqual(before.Conns, after.Conns):
			what = "conns"
		case before.ConnOpen != after.ConnOpen:
			what = "owner-connection-closed"
		}
		run.Violation(fmt.Sprintf("control/victim-state-changed/%s/%s", what, c.Origin),
			fmt.Sprintf("%s with the stolen session id from %s in %s was answered %d and the victim changed: before %+v, after %+v", c.Method, c.Origin, c.State, status, before, after), wit)
		return
	}
	if ok, why := victimAlive(v, st, state, r); !ok {
		run.Violation(fmt.Sprintf("control/victim-disturbed/%s/in-%s", c.Origin, c.State),
			fmt.Sprintf("after a refused %s from %s: %s", c.Method, c.Origin, why), wit)
		return
	}
	run.Count("control-victim-health-checks-passed", 1)

	// the owner leaves: a session bound to its connection must end with it
	if proto == "tcp" {
		v.p.Close()
		tc := time.Now()
		select {
		case <-v.rec.closed:
			run.Count("control-tcp-victims-closed-with-owner", 1)
		case <-time.After(10 * time.Second):
			if lateCanary(tc) {
				run.Inconclusive("control/owner-close-late-canary")
			} else {
				run.Violation("control/session-outlives-owner-after-intrusion",
					fmt.Sprintf("%s: the victim's TCP session is still open 10 s after its owner connection was closed (after a refused %s from %s)", c.State, c.Method, c.Origin), wit)
			}
		}
	} else {
		_, _ = v.p.Do(v.p.Request(base.Teardown, v.url(), base.Header{"Session": base.HeaderValue{v.sessID}}, nil), respTimeout)
	}
	if run.WantSample() && r.Intn(8) == 0 {
		run.Sample(map[string]any{"part": "control", "case": c, "intruder_status": status, "victim_state": fmt.Sprint(after.State), "victim_conns": len(after.Conns)})
	}
}

// runStorm: several intruders hammer one streaming victim concurrently from other addresses
// (and, for interleaved victims, from the victim's own address) with random methods.
func runStorm(ts *rig.TestServer, stateName string, seed int64, intruders, reqs int) {
	evals.Add(1)
	r := rand.New(rand.NewSource(seed))
	c := ctlCase{Listen: "v4", State: stateName, Method: "*", Origin: "storm", Seed: seed}
	wit := map[string]any{"part": "control-storm", "control": c, "intruders": intruders, "requests": reqs}
	state, proto := splitState(stateName)
	path := newPath("storm")
	var st *gortsplib.ServerStream
	if state == "play" {
		st = newStream(ts, path)
		defer st.Close()
	}
	tracks := 2
	if state == "play" {
		tracks = 1
	}
	v, err := negotiate(ts, "127.0.0.1", path, proto, state, tracks)
	if err != nil {
		run.Violation("control/victim-negotiation-failed/"+stateName, err.Error(), wit)
		return
	}
	defer v.close()
	defer forget(v.rec.owner)
	v.rec.sink.setWitness(wit)
	before := snapVictim(v)
	var wg sync.WaitGroup
	for i := 0; i < intruders; i++ {
		wg.Add(1)
		ir := rand.New(rand.NewSource(seed + int64(i) + 1))
		go func(i int) {
			defer wg.Done()
			for k := 0; k < reqs; k++ {
				ip := fmt.Sprintf("127.0.0.%d", 2+ir.Intn(8))
				origin := "other-ip"
				if proto == "tcp" && ir.Intn(3) == 0 {
					ip, origin = "127.0.0.1", "same-ip-other-conn"
				}
				p, err := rig.Dial(hostPort(ts, ip), nil, ip)
				if err != nil {
					continue
				}
				m := ctlMethods[ir.Intn(len(ctlMethods))]
				res, err := p.Do(intruderRequest(p, v, m, ip), respTimeout)
				p.Close()
				run.Count("control-storm-requests", 1)
				if err == nil && res.StatusCode >= 200 && res.StatusCode < 300 {
					run.Violation(fmt.Sprintf("control/%s/%s/accepted-in-%s", origin, m, stateName),
						fmt.Sprintf("[storm] %s with a stolen session id from %s was answered %d", m, ip, res.StatusCode), wit)
				}
			}
		}(i)
	}
	// the victim keeps streaming meanwhile
	alive := true
	why := ""
	for k := 0; k < 3 && alive; k++ {
		alive, why = victimAlive(v, st, state, r)
		time.Sleep(5 * time.Millisecond)
	}
	wg.Wait()
	if alive {
		alive, why = victimAlive(v, st, state, r)
	}
	if !alive {
		run.Violation("control/victim-disturbed/storm/in-"+stateName, why, wit)
		return
	}
	// membership settles once all intruder connections are closed
	ok, concl := waitCond(5*time.Second, func() bool { return reflect.DeepEqual(connSet(v.rec.ss), before.Conns) })
	if !ok && concl {
		run.Violation("control/intruder-conn-stays-associated", fmt.Sprintf("[storm] %s: Conns() of the victim is %v, was %v", stateName, connSet(v.rec.ss), before.Conns), wit)
		return
	}
	after := snapVictim(v)
	if !reflect.DeepEqual(before, after) {
		run.Violation("control/victim-state-changed/storm", fmt.Sprintf("[storm] %s: before %+v after %+v", stateName, before, after), wit)
		return
	}
	run.Count("control-storms-survived", 1)
	run.Distinct("storm|" + stateName)
}

func controlPart() {
	rs := run.Rand("control", 0)
	opts := rig.ServerOpts{UDP: true, HandlerSet: "full", NoLog: true, OnEvent: onEvent, NoStream: true,
		ReadTimeout: longTimeout, IdleTimeout: longTimeout, SenderReportPeriod: time.Hour, ReceiverReportPeriod: time.Hour,
		PreStart: installStartGates}
	ts, err := rig.StartServer(opts)
	if err != nil {
		run.Fatal("control server: %v", err)
	}
	defer ts.Close()
	servers := map[string]*rig.TestServer{"v4": ts}
	if v6ok {
		o2 := opts
		o2.ListenIP = "::"
		ts2, err := rig.StartServer(o2)
		if err != nil {
			run.Fatal("control server (dual): %v", err)
		}
		defer ts2.Close()
		servers["dual"] = ts2
	}
	var cases []ctlCase
	states := ctlStates[:6]
	if !run.Quick() {
		states = ctlStates
	}
	reps := run.Pick(2, 36)
	for rep := 0; rep < reps; rep++ {
		for _, st := range states {
			for _, m := range ctlMethods {
				for _, o := range []string{"other-ip", "same-ip-other-conn"} {
					cases = append(cases, ctlCase{Listen: "v4", State: st, Method: string(m), Origin: o, Seed: rs.Int63()})
				}
				if v6ok && (!run.Quick() || strings.HasPrefix(st, "play") || strings.HasPrefix(st, "record")) {
					cases = append(cases, ctlCase{Listen: "dual", State: st, Method: string(m), Origin: "other-family", Seed: rs.Int63()})
				}
				if v6ok && secondV6 != "" && rep == 0 {
					cases = append(cases, ctlCase{Listen: "dual", State: st, Method: string(m), Origin: "other-ip-v6", Seed: rs.Int63()})
				}
				if st == "play-tcp" || st == "record-tcp" {
					cases = append(cases, ctlCase{Listen: "v4", State: st, Method: string(m), Origin: "same-ip-conn-with-own-session", Seed: rs.Int63()})
				}
			}
		}
	}
	rs.Shuffle(len(cases), func(i, j int) { cases[i], cases[j] = cases[j], cases[i] })
	run.Parallel(len(cases), func(_, i int) { runControl(servers[cases[i].Listen], cases[i]) }, func(i int, v any, stack string) {
		run.Fatal("harness panic in control case %+v: %v\n%s", cases[i], v, stack)
	})
	// requests from another connection that race with the owner's PLAY / RECORD
	var races []ctlCase
	for rep := 0; rep < run.Pick(2, 30); rep++ {
		for _, st := range []string{"pre-play-tcp", "pre-record-tcp"} {
			for _, m := range ctlMethods {
				races = append(races, ctlCase{Listen: "v4", State: st, Method: string(m), Origin: "same-ip-other-conn-racing-start", Seed: rs.Int63()})
			}
		}
	}
	run.Parallel(len(races), func(_, i int) { runControlRace(ts, races[i]) }, func(i int, v any, stack string) {
		run.Fatal("harness panic in control race case %+v: %v\n%s", races[i], v, stack)
	})
	var wg sync.WaitGroup
	for rep := 0; rep < run.Pick(1, 18); rep++ {
		for _, st := range []string{"play-udp", "play-tcp", "record-udp", "record-tcp"} {
			wg.Add(1)
			seed := rs.Int63()
			go func(st string) {
				defer wg.Done()
				runStorm(ts, st, seed, run.Pick(4, 8), run.Pick(15, 60))
			}(st)
		}
	}
	wg.Wait()
}
