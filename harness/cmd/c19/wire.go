package main

import (
	"errors"
	"fmt"
	"math/rand"
	"net"
	"os"
	"strconv"
	"strings"
	"time"

	"github.com/bluenviron/gortsplib/v5/pkg/base"
	"github.com/bluenviron/gortsplib/v5/pkg/headers"
	"github.com/pion/rtcp"
	"github.com/pion/rtp"

	"verif/lib/rig"
)

const respTimeout = 15 * time.Second

func sdpBody() []byte {
	d := rig.DefaultDesc()
	for i, m := range d.Medias {
		m.Control = fmt.Sprintf("trackID=%d", i)
	}
	b, err := d.Marshal()
	if err != nil {
		panic(err)
	}
	return b
}

var sdp = sdpBody()

func isV6(ip string) bool { return strings.Contains(ip, ":") }

func udpNet(ip string) string {
	if isV6(ip) {
		return "udp6"
	}
	return "udp4"
}

// loopbackFor returns the loopback address of the same family as ip (where a receiver bound to
// a wildcard or to its loopback address is reached from a socket bound to ip).
func loopbackFor(ip string) string {
	if isV6(ip) {
		return "::1"
	}
	return "127.0.0.1"
}

func bindUDP(ip string, port int) (*net.UDPConn, error) {
	return net.ListenUDP(udpNet(ip), &net.UDPAddr{IP: net.ParseIP(ip), Port: port})
}

// ---- the negotiated (legitimate) raw peer ----------------------------------------------------

// rawSess is a raw RTSP peer that negotiates one session with a TestServer and owns the
// negotiated UDP sockets.
type rawSess struct {
	ts      *rig.TestServer
	ip      string // local address
	p       *rig.Peer
	tag     string
	proto   string // udp | tcp
	record  bool
	tracks  int
	path    string
	cp      [2]int // client RTP port per media
	cpc     [2]int // client RTCP port per media (cp+1, or - every other session - a port of another pair)
	socks   [2][2]*net.UDPConn
	sessID  string
	srvPort [2]int // server RTP, RTCP port
	srvSSRC [2]uint32
	run     uint32
	ssrc    [2]uint32
	seq     [2]uint16
	rtpTS   [2]uint32
	ctr     [2]uint64
	rec     *sessRec
}

func hostPort(ts *rig.TestServer, localIP string) string {
	return net.JoinHostPort(loopbackFor(localIP), strconv.Itoa(ts.Port))
}

func (v *rawSess) url() string { return "rtsp://" + hostPort(v.ts, v.ip) + v.path }

func (v *rawSess) srvAddr(k int) *net.UDPAddr {
	return &net.UDPAddr{IP: net.ParseIP(loopbackFor(v.ip)), Port: v.srvPort[k]}
}

func (v *rawSess) close() {
	if v.p != nil {
		v.p.Close()
	}
	for m := range v.socks {
		for k := range v.socks[m] {
			if v.socks[m][k] != nil {
				v.socks[m][k].Close()
			}
		}
	}
}

func sessionOf(res *base.Response) string {
	if sh, ok := res.Header["Session"]; ok && len(sh) == 1 {
		var hs headers.Session
		if hs.Unmarshal(sh) == nil {
			return hs.Session
		}
	}
	return ""
}

// setupRequest builds a SETUP for one track.
func setupRequest(p *rig.Peer, url string, track int, proto string, record bool, clientPort int, sessID string) *base.Request {
	return setupRequest2(p, url, track, proto, record, clientPort, clientPort+1, sessID)
}

// setupRequest2: the RTCP port of the client_port pair is given explicitly (it need not be the RTP
// port plus one).
func setupRequest2(p *rig.Peer, url string, track int, proto string, record bool, clientPort, clientRTCPPort int, sessID string) *base.Request {
	var t headers.Transport
	mode := headers.TransportModePlay
	if record {
		mode = headers.TransportModeRecord
	}
	t.Mode = &mode
	d := headers.TransportDeliveryUnicast
	t.Delivery = &d
	if proto == "tcp" {
		t.Protocol = headers.TransportProtocolTCP
		t.InterleavedIDs = &[2]int{2 * track, 2*track + 1}
	} else {
		t.ClientPorts = &[2]int{clientPort, clientRTCPPort}
	}
	h := base.Header{"Transport": t.Marshal()}
	if sessID != "" {
		h["Session"] = base.HeaderValue{sessID}
	}
	return p.Request(base.Setup, fmt.Sprintf("%s/trackID=%d", url, track), h, nil)
}

// negotiate brings a fresh session into the given state: pre-play | play | pre-record | record.
func negotiate(ts *rig.TestServer, localIP, path, proto, state string, tracks int) (*rawSess, error) {
	v := &rawSess{ts: ts, ip: localIP, proto: proto, path: path, tracks: tracks, run: newRunID(),
		record: strings.HasSuffix(state, "record")}
	p, err := rig.Dial(hostPort(ts, localIP), nil, localIP)
	if err != nil {
		return nil, fmt.Errorf("dial: %w", err)
	}
	v.p = p
	v.tag = newTag("v")
	p.Tag = v.tag
	p.KeepFrames = 0
	for m := 0; m < tracks; m++ {
		v.ssrc[m] = 0x1E610000 + uint32(m)
		v.seq[m] = uint16(65000 + 300*m) // wraps early
		if proto == "udp" {
			for tries := 0; ; tries++ {
				v.cp[m] = rig.FreePortPair()
				v.cpc[m] = v.cp[m] + 1
				if v.run%2 == 1 {
					// a non-consecutive pair: the RTCP port comes from another reserved pair
					v.cpc[m] = rig.FreePortPair() + 1
				}
				a, e1 := bindUDP(localIP, v.cp[m])
				if e1 == nil {
					b, e2 := bindUDP(localIP, v.cpc[m])
					if e2 == nil {
						v.socks[m][0], v.socks[m][1] = a, b
						break
					}
					a.Close()
				}
				if tries > 20 {
					v.close()
					return nil, fmt.Errorf("cannot bind client ports on %s", localIP)
				}
			}
		}
	}
	do := func(req *base.Request) (*base.Response, error) {
		res, err := p.Do(req, respTimeout)
		if err != nil {
			return nil, fmt.Errorf("%s: %w", req.Method, err)
		}
		if res.StatusCode != base.StatusOK {
			return res, fmt.Errorf("%s: status %d", req.Method, res.StatusCode)
		}
		if id := sessionOf(res); id != "" {
			v.sessID = id
		}
		return res, nil
	}
	sessHdr := func() base.Header {
		if v.sessID == "" {
			return base.Header{}
		}
		return base.Header{"Session": base.HeaderValue{v.sessID}}
	}
	if v.record {
		h := base.Header{"Content-Type": base.HeaderValue{"application/sdp"}}
		if _, err := do(p.Request(base.Announce, v.url(), h, sdp)); err != nil {
			v.close()
			return nil, err
		}
	}
	for m := 0; m < tracks; m++ {
		res, err := do(setupRequest2(p, v.url(), m, proto, v.record, v.cp[m], v.cpc[m], v.sessID))
		if err != nil {
			v.close()
			return nil, err
		}
		var t headers.Transport
		if t.Unmarshal(res.Header["Transport"]) == nil {
			if t.ServerPorts != nil {
				v.srvPort = *t.ServerPorts
			}
			if t.SSRC != nil {
				v.srvSSRC[m] = *t.SSRC
			}
		}
	}
	switch state {
	case "play":
		if _, err := do(p.Request(base.Play, v.url(), sessHdr(), nil)); err != nil {
			v.close()
			return nil, err
		}
	case "record":
		if _, err := do(p.Request(base.Record, v.url(), sessHdr(), nil)); err != nil {
			v.close()
			return nil, err
		}
	}
	v.rec = lastSession(v.tag)
	if v.rec == nil {
		v.close()
		return nil, errors.New("OnSessionOpen was not seen for a negotiated session")
	}
	v.rec.sink.run.Store(v.run)
	return v, nil
}

// rtpBytes builds one RTP packet for media m. class 0 advances the peer's own sequence; a
// spoofed packet (class > 0) copies the SSRC and uses the sequence numbers that would come next.
func (v *rawSess) rtpBytes(m, class, k int, r *rand.Rand) []byte {
	var seq uint16
	var tsv uint32
	var ctr uint64
	if class == clLegit {
		v.seq[m]++
		v.rtpTS[m] += 3000
		seq, tsv, ctr = v.seq[m], v.rtpTS[m], v.ctr[m]
		v.ctr[m]++
	} else {
		seq, tsv, ctr = v.seq[m]+uint16(1+k), v.rtpTS[m]+uint32(3000*(1+k)), uint64(k)
	}
	return buildRTP(v.run, m, class, v.ssrc[m], seq, tsv, ctr, r)
}

func buildRTPPacket(runID uint32, m, class int, ssrc uint32, seq uint16, tsv uint32, ctr uint64, r *rand.Rand) *rtp.Packet {
	pt := uint8(96 + m)
	pl := rig.BuildPayload(rig.PacketID{Run: runID, Dir: uint8(class), Media: uint8(m), PT: pt, Ctr: ctr}, rig.MinPayload+r.Intn(160), r)
	return &rtp.Packet{Header: rtp.Header{Version: 2, PayloadType: pt, SequenceNumber: seq, Timestamp: tsv, SSRC: ssrc, Marker: r.Intn(4) == 0}, Payload: pl}
}

func buildRTP(runID uint32, m, class int, ssrc uint32, seq uint16, tsv uint32, ctr uint64, r *rand.Rand) []byte {
	b, err := buildRTPPacket(runID, m, class, ssrc, seq, tsv, ctr, r).Marshal()
	if err != nil {
		panic(err)
	}
	return b
}

// senderReport / receiverReport build valid RTCP carrying the origin class.
func senderReport(ssrc uint32, class int, rtpTS uint32) []byte {
	sr := &rtcp.SenderReport{SSRC: ssrc, NTPTime: uint64(time.Now().Unix()+2208988800) << 32, RTPTime: rtpTS, PacketCount: 7, OctetCount: legitRRSrc}
	if class != clLegit {
		sr.PacketCount = spoofMagic | uint32(class)
		sr.OctetCount = 999999
		sr.NTPTime = uint64(0xC19) << 52 // far away wall clock: would move the NTP mapping if accepted
	}
	b, err := sr.Marshal()
	if err != nil {
		panic(err)
	}
	return b
}

func receiverReport(aboutSSRC uint32, class int, lastSeq uint32) []byte {
	rr := &rtcp.ReceiverReport{SSRC: legitRRSrc, Reports: []rtcp.ReceptionReport{{SSRC: aboutSSRC, LastSequenceNumber: lastSeq}}}
	if class != clLegit {
		rr.SSRC = spoofMagic | uint32(class)
		rr.Reports[0].TotalLost = 5000 + uint32(class)
		rr.Reports[0].FractionLost = 200
	}
	b, err := rr.Marshal()
	if err != nil {
		panic(err)
	}
	return b
}

// sendLegitRTP sends the next packet of media m over the negotiated transport.
func (v *rawSess) sendLegitRTP(m int, r *rand.Rand) error {
	b := v.rtpBytes(m, clLegit, 0, r)
	if v.proto == "tcp" {
		fb, _ := base.InterleavedFrame{Channel: 2 * m, Payload: b}.Marshal()
		return v.p.WriteRaw(fb)
	}
	_, err := v.socks[m][0].WriteToUDP(b, v.srvAddr(0))
	return err
}

// sendLegitRTCP sends a sender report (recording peer) or receiver report (playing peer).
func (v *rawSess) sendLegitRTCP(m int) error {
	var b []byte
	if v.record {
		b = senderReport(v.ssrc[m], clLegit, v.rtpTS[m])
	} else {
		b = receiverReport(v.srvSSRC[m], clLegit, 0)
	}
	if v.proto == "tcp" {
		fb, _ := base.InterleavedFrame{Channel: 2*m + 1, Payload: b}.Marshal()
		return v.p.WriteRaw(fb)
	}
	_, err := v.socks[m][1].WriteToUDP(b, v.srvAddr(1))
	return err
}

// readMedia reads RTP of media m sent by the server (playing peer) until n packets with a
// valid payload of runID and a counter >= minCtr were seen or the timeout elapsed; returns how
// many were seen.
func (v *rawSess) readMedia(m int, runID uint32, minCtr uint64, n int, timeout time.Duration) int {
	deadline := time.Now().Add(timeout)
	got := 0
	take := func(b []byte) {
		var pk rtp.Packet
		if pk.Unmarshal(b) != nil {
			return
		}
		if id, ok := rig.ParsePayload(pk.Payload); ok && id.Run == runID && id.Ctr >= minCtr {
			got++
		}
	}
	if v.proto == "tcp" {
		for got < n && time.Now().Before(deadline) {
			what, err := v.p.ReadAny(time.Until(deadline))
			if err != nil {
				break
			}
			if fr, ok := what.(*base.InterleavedFrame); ok && fr.Channel == 2*m {
				take(fr.Payload)
			}
		}
		return got
	}
	buf := make([]byte, 2048)
	for got < n && time.Now().Before(deadline) {
		_ = v.socks[m][0].SetReadDeadline(deadline)
		k, _, err := v.socks[m][0].ReadFromUDP(buf)
		if err != nil {
			break
		}
		take(buf[:k])
	}
	return got
}

// ---- spoofers ------------------------------------------------------------------------------------

// spoofer is a pair of sockets bound to a non-negotiated source.
type spoofer struct {
	Class int
	IP    string
	rtp   *net.UDPConn
	rtcp  *net.UDPConn
}

func (s *spoofer) close() {
	s.rtp.Close()
	s.rtcp.Close()
}

func (s *spoofer) String() string {
	return fmt.Sprintf("%s from %s / %s", classNames[s.Class], s.rtp.LocalAddr(), s.rtcp.LocalAddr())
}

var v6ok bool

// secondV6 is a global / unique-local IPv6 address of this host other than ::1 ("" if none): with
// it two native IPv6 peers can talk to the same server.
var secondV6 string

func probeSecondV6() string {
	ifs, err := net.Interfaces()
	if err != nil {
		return ""
	}
	for _, intf := range ifs {
		if intf.Flags&net.FlagUp == 0 || intf.Flags&net.FlagLoopback != 0 {
			continue
		}
		addrs, _ := intf.Addrs()
		for _, a := range addrs {
			ipn, ok := a.(*net.IPNet)
			if !ok || ipn.IP.To4() != nil || ipn.IP.IsLinkLocalUnicast() || ipn.IP.IsLoopback() || ipn.IP.IsMulticast() {
				continue
			}
			// usable as a source address towards ::1 ?
			ln, err := net.Listen("tcp6", "[::1]:0")
			if err != nil {
				return ""
			}
			d := net.Dialer{Timeout: time.Second, LocalAddr: &net.TCPAddr{IP: ipn.IP}}
			c, err := d.Dial("tcp6", ln.Addr().String())
			ln.Close()
			if err == nil {
				c.Close()
				return ipn.IP.String()
			}
		}
	}
	return ""
}

func probeV6() bool {
	c, err := bindUDP("::1", 0)
	if err != nil {
		return false
	}
	c.Close()
	return true
}

func openSpoofer(class int, ip string, rtpPort, rtcpPort int) *spoofer {
	a, err := bindUDP(ip, rtpPort)
	if err != nil {
		run.Count("spoofer-bind-failed:"+classNames[class], 1)
		fmt.Fprintf(os.Stderr, "spoofer bind failed: %s %s:%d: %v\n", classNames[class], ip, rtpPort, err)
		return nil
	}
	b, err := bindUDP(ip, rtcpPort)
	if err != nil {
		a.Close()
		run.Count("spoofer-bind-failed:"+classNames[class], 1)
		fmt.Fprintf(os.Stderr, "spoofer bind failed: %s %s:%d: %v\n", classNames[class], ip, rtcpPort, err)
		return nil
	}
	return &spoofer{Class: class, IP: ip, rtp: a, rtcp: b}
}

// openSpoofers opens one spoofer per origin class that can reach a receiver which negotiated
// (legitIP, rtpPort / rtcpPort). reachV6: the receiver's sockets also accept IPv6 datagrams.
// otherIPs lists the additional IPv4 loopback addresses to use for the other-IP classes.
func openSpoofers(legitIP string, rtpPort, rtcpPort int, reachV6 bool, otherIPs []string) []*spoofer {
	var out []*spoofer
	add := func(s *spoofer) {
		if s != nil {
			out = append(out, s)
		}
	}
	if !isV6(legitIP) {
		for _, ip := range otherIPs {
			add(openSpoofer(clOtherIP, ip, rtpPort, rtcpPort))
		}
		if len(otherIPs) > 0 {
			add(openSpoofer(clOtherIPOtherPort, otherIPs[len(otherIPs)-1], 0, 0))
		}
		add(openSpoofer(clOtherPort, legitIP, 0, 0))
		if reachV6 && v6ok {
			add(openSpoofer(clV6Loopback, "::1", rtpPort, rtcpPort))
		}
	} else {
		// the negotiated peer is ::1: the same port numbers on IPv4 addresses, another port on ::1
		add(openSpoofer(clV4ForV6Peer, "127.0.0.1", rtpPort, rtcpPort))
		for _, ip := range otherIPs {
			add(openSpoofer(clOtherIP, ip, rtpPort, rtcpPort))
		}
		add(openSpoofer(clOtherPort, "::1", 0, 0))
	}
	return out
}

// otherIPs picks n IPv4 loopback addresses (127.0.0.1 .. 127.0.0.9) different from legitIP.
func otherIPs(r *rand.Rand, n int, legitIP string) []string {
	var out []string
	for _, i := range r.Perm(9) {
		ip := fmt.Sprintf("127.0.0.%d", 1+i)
		if ip != legitIP && len(out) < n {
			out = append(out, ip)
		}
	}
	return out
}

// ---- receive queue census ------------------------------------------------------------------------

// udpQueued returns the number of bytes waiting in the receive queues of all UDP sockets bound
// to the given local port (from /proc/net/udp, udp6); -1 if unknown.
func udpQueued(port int) int {
	q, _ := udpSockInfo(port)
	return q
}

// udpSockInfo returns queued bytes and the kernel's drop counter of the sockets bound to port.
func udpSockInfo(port int) (queued int, drops int) {
	total, seen := 0, false
	want := fmt.Sprintf(":%04X", port)
	for _, f := range []string{"/proc/net/udp", "/proc/net/udp6"} {
		b, err := os.ReadFile(f)
		if err != nil {
			continue
		}
		for _, ln := range strings.Split(string(b), "\n")[1:] {
			fs := strings.Fields(ln)
			if len(fs) < 5 || !strings.HasSuffix(fs[1], want) {
				continue
			}
			q := strings.SplitN(fs[4], ":", 2)
			if len(q) != 2 {
				continue
			}
			n, err := strconv.ParseInt(q[1], 16, 64)
			if err == nil {
				total += int(n)
				seen = true
			}
			if d, err := strconv.Atoi(fs[len(fs)-1]); err == nil {
				drops += d
			}
		}
	}
	if !seen {
		return -1, drops
	}
	return total, drops
}

// pace blocks while the receive queue of a destination port holds more than 32 KiB, so that
// floods are processed by the receiver instead of being dropped by the kernel.
func pace(ports ...int) {
	for i := 0; i < 2000; i++ {
		busy := false
		for _, p := range ports {
			if udpQueued(p) > 32<<10 {
				busy = true
			}
		}
		if !busy {
			return
		}
		time.Sleep(200 * time.Microsecond)
	}
}

// waitDrained waits until the receive queues of the given ports are empty (everything sent so
// far was taken by the reader goroutine) and gives the reader a moment to finish the datagram
// it holds. A snapshot taken too early can only hide an effect, never invent one.
func waitDrained(ports ...int) {
	deadline := time.Now().Add(2 * time.Second)
	for time.Now().Before(deadline) {
		busy := false
		for _, p := range ports {
			if q := udpQueued(p); q > 0 {
				busy = true
			} else if q < 0 {
				time.Sleep(50 * time.Millisecond)
			}
		}
		if !busy {
			break
		}
		time.Sleep(time.Millisecond)
	}
	time.Sleep(15 * time.Millisecond)
}

// waitCond polls cond; conclusive is false when the wait timed out while the canary was late.
func waitCond(maxWait time.Duration, cond func() bool) (ok, conclusive bool) {
	t0 := time.Now()
	for {
		if cond() {
			return true, true
		}
		if time.Since(t0) > maxWait {
			return false, canary.WorstSince(t0) < 250*time.Millisecond
		}
		time.Sleep(time.Millisecond)
	}
}
