package main

import (
	"bufio"
	"fmt"
	"math/rand"
	"net"
	"strconv"
	"strings"
	"sync"
	"sync/atomic"
	"time"

	"github.com/bluenviron/gortsplib/v5"
	"github.com/bluenviron/gortsplib/v5/pkg/base"
	"github.com/bluenviron/gortsplib/v5/pkg/conn"
	"github.com/bluenviron/gortsplib/v5/pkg/description"
	"github.com/bluenviron/gortsplib/v5/pkg/format"
	"github.com/bluenviron/gortsplib/v5/pkg/headers"
	"github.com/pion/rtcp"
	"github.com/pion/rtp"

	"verif/lib/rig"
)

// Part 2: client side UDP. A library client reads over UDP from a real or a scripted server;
// spoofers send valid RTP / RTCP to the client's ports.

// ---- library client wrapper --------------------------------------------------------------------

type cli struct {
	c    *gortsplib.Client
	sink *sink
	desc *description.Session

	mu     sync.Mutex
	cports [][2]int // client_port of every UDP SETUP request, in order
	sports [][2]int // server_port of every UDP SETUP response
	ssrcs  []uint32 // ssrc of every UDP SETUP response (0 = none)

	switched atomic.Bool
	waitErr  chan error
	played   time.Time
}

type cliOpts struct {
	Proto       string // udp | auto
	AnyPort     bool
	ReadTimeout time.Duration
	InitialUDP  time.Duration
	CheckPeriod time.Duration
}

func startClient(hostport, path string, o cliOpts) (*cli, error) {
	cl := &cli{sink: &sink{role: "client"}, waitErr: make(chan error, 1)}
	c := &gortsplib.Client{Scheme: "rtsp", Host: hostport, AnyPortEnable: o.AnyPort,
		ReadTimeout: o.ReadTimeout, InitialUDPReadTimeout: o.InitialUDP, UserAgent: "verif:" + newTag("c")}
	if o.Proto == "udp" {
		p := gortsplib.ProtocolUDP
		c.Protocol = &p
	}
	c.OnRequest = func(req *base.Request) {
		if req.Method != base.Setup {
			return
		}
		var t headers.Transport
		if t.Unmarshal(req.Header["Transport"]) == nil && t.ClientPorts != nil {
			cl.mu.Lock()
			cl.cports = append(cl.cports, *t.ClientPorts)
			cl.mu.Unlock()
		}
	}
	c.OnResponse = func(res *base.Response) {
		th, ok := res.Header["Transport"]
		if !ok || res.StatusCode != base.StatusOK {
			return
		}
		var t headers.Transport
		if t.Unmarshal(th) == nil && t.Protocol == headers.TransportProtocolUDP {
			cl.mu.Lock()
			var sp [2]int
			if t.ServerPorts != nil {
				sp = *t.ServerPorts
			}
			var ss uint32
			if t.SSRC != nil {
				ss = *t.SSRC
			}
			cl.sports = append(cl.sports, sp)
			cl.ssrcs = append(cl.ssrcs, ss)
			cl.mu.Unlock()
		}
	}
	c.OnTransportSwitch = func(error) { cl.switched.Store(true) }
	c.OnPacketsLost = func(uint64) {}
	c.OnDecodeError = func(error) {}
	// the client's own periodic reports stay out of the observation intervals
	c.VerifSetTimers(nil, time.Hour, time.Hour, o.CheckPeriod)
	cl.c = c
	if err := c.Start(); err != nil {
		return nil, fmt.Errorf("start: %w", err)
	}
	u, err := base.ParseURL("rtsp://" + hostport + path)
	if err != nil {
		c.Close()
		return nil, err
	}
	desc, _, err := c.Describe(u)
	if err != nil {
		c.Close()
		return nil, fmt.Errorf("describe: %w", err)
	}
	cl.desc = desc
	if err := c.SetupAll(desc.BaseURL, desc.Medias); err != nil {
		c.Close()
		return nil, fmt.Errorf("setup: %w", err)
	}
	sk := cl.sink
	c.OnPacketRTPAny(func(_ *description.Media, _ format.Format, pkt *rtp.Packet) { sk.onRTP(pkt) })
	c.OnPacketRTCPAny(func(_ *description.Media, pkt rtcp.Packet) { sk.onRTCP(pkt) })
	if _, err := c.Play(nil); err != nil {
		c.Close()
		return nil, fmt.Errorf("play: %w", err)
	}
	cl.played = time.Now()
	go func() { cl.waitErr <- c.Wait() }()
	return cl, nil
}

// ended reports whether the client terminated by itself (Wait returned).
func (cl *cli) ended() (bool, error) {
	select {
	case e := <-cl.waitErr:
		cl.waitErr <- e
		return true, e
	default:
		return false, nil
	}
}

func (cl *cli) ports(m int) (client [2]int, server [2]int, ssrc uint32, ok bool) {
	cl.mu.Lock()
	defer cl.mu.Unlock()
	if m >= len(cl.cports) || m >= len(cl.sports) {
		return client, server, 0, false
	}
	return cl.cports[m], cl.sports[m], cl.ssrcs[m], true
}

// clientDst returns where a spoofer reaches the client's (wildcard-bound) sockets.
func clientDst(sp *spoofer, cp [2]int) (*net.UDPAddr, *net.UDPAddr) {
	ip := net.ParseIP(loopbackFor(sp.IP))
	return &net.UDPAddr{IP: ip, Port: cp[0]}, &net.UDPAddr{IP: ip, Port: cp[1]}
}

// ---- real server -----------------------------------------------------------------------------------

type cliScenario struct {
	Name    string `json:"name"`
	AnyPort bool   `json:"any_port"`
	Burst   int    `json:"spoofed_rtp_per_class_and_media"`
	Rounds  int    `json:"rounds"`
	NOther  int    `json:"other_ips"`
	Seed    int64  `json:"seed"`
}

func runClientUDP(sc cliScenario) {
	// one server per scenario: spoofers bind the server's port numbers on other addresses
	ts, err := rig.StartServer(rig.ServerOpts{UDP: true, HandlerSet: "full", NoLog: true, OnEvent: onEvent, NoStream: true,
		ReadTimeout: longTimeout, IdleTimeout: longTimeout, SenderReportPeriod: time.Hour, ReceiverReportPeriod: time.Hour})
	if err != nil {
		run.Fatal("client-udp server: %v", err)
	}
	defer ts.Close()
	evals.Add(1)
	r := rand.New(rand.NewSource(sc.Seed))
	wit := map[string]any{"part": "client-udp", "client": sc}
	fail := func(key, what string, extra map[string]any) {
		w := map[string]any{"part": "client-udp", "client": sc}
		for k, v := range extra {
			w[k] = v
		}
		run.Violation(key, "["+sc.Name+"] "+what, w)
	}
	path := newPath("c")
	st := newStream(ts, path)
	defer st.Close()
	// long ReadTimeout: the server is silent on purpose for long intervals, the client must not
	// end by itself meanwhile (Stats() is not called on a closing client)
	cl, err := startClient(ts.Addr(), path, cliOpts{Proto: "udp", AnyPort: sc.AnyPort, ReadTimeout: longTimeout, InitialUDP: longTimeout})
	if err != nil {
		fail("client-udp/start-failed", err.Error(), nil)
		return
	}
	defer cl.c.Close()
	runID := newRunID()
	cl.sink.run.Store(runID)
	cl.sink.mu.Lock()
	cl.sink.wit = wit
	if sc.AnyPort {
		cl.sink.special = "client-udp/anyport/second-port-accepted"
	}
	cl.sink.mu.Unlock()

	var seq [2]uint16
	var ctr [2]uint64
	seq[0], seq[1] = 65400, 100
	legit := func(n int) bool {
		r0, c0 := cl.sink.counts()
		sent, sentC := 0, 0
		for k := 0; k < n; k++ {
			for m := 0; m < 2; m++ {
				seq[m]++
				if st.WritePacketRTP(st.Desc.Medias[m], buildRTPPacket(runID, m, clLegit, 0, seq[m], uint32(seq[m])*3000, ctr[m], r)) == nil {
					sent++
				}
				ctr[m]++
				if k%4 == 0 {
					sr := &rtcp.SenderReport{SSRC: 1, NTPTime: uint64(time.Now().Unix()+2208988800) << 32, RTPTime: uint32(seq[m]) * 3000, PacketCount: 7, OctetCount: legitRRSrc}
					if st.WritePacketRTCP(st.Desc.Medias[m], sr) == nil {
						sentC++
					}
				}
			}
			time.Sleep(150 * time.Microsecond)
		}
		waitCond(2*time.Second, func() bool {
			r1, c1 := cl.sink.counts()
			return r1-r0 >= sent && c1-c0 >= sentC
		})
		r1, c1 := cl.sink.counts()
		run.Count("client:legit-rtp-sent", int64(sent))
		run.Count("client:legit-rtp-delivered", int64(r1-r0))
		run.Count("client:legit-rtcp-sent", int64(sentC))
		run.Count("client:legit-rtcp-delivered", int64(c1-c0))
		if r1 == r0 || c1 == c0 {
			fail("client-udp/legit-flow-stopped", fmt.Sprintf("the server wrote %d RTP / %d RTCP packets; %d / %d reached the client's callbacks", sent, sentC, r1-r0, c1-c0), nil)
			return false
		}
		return true
	}
	// with AnyPortEnable the first packet's source port is latched: it must be the server's
	if !legit(20) {
		return
	}
	for round := 0; round < sc.Rounds; round++ {
		for m := 0; m < 2; m++ {
			cp, sp2, ssrc, ok := cl.ports(m)
			if !ok {
				fail("client-udp/harness-ports-unknown", "client ports not captured", nil)
				return
			}
			sps := openSpoofers("127.0.0.1", sp2[0], sp2[1], true, otherIPs(r, sc.NOther, "127.0.0.1"))
			for _, sp := range sps {
				if e, _ := cl.ended(); e {
					break
				}
				dst, dstC := clientDst(sp, cp)
				before := statsView(cl.c.Stats().Session)
				n := sendSpoof(sp, dst, dstC, sc.Burst,
					func(k int) []byte {
						return buildRTP(runID, m, sp.Class, ssrc, seq[m]+uint16(1+k), uint32(seq[m]+uint16(1+k))*3000, uint64(k), r)
					},
					func(k int) []byte { return senderReport(ssrc, sp.Class, uint32(k)) })
				run.Count("spoofed-datagrams:client:"+map[bool]string{true: "anyport:", false: ""}[sc.AnyPort]+classNames[sp.Class], int64(n))
				waitDrained(cp[0], cp[1])
				if e, _ := cl.ended(); e {
					break
				}
				after := statsView(cl.c.Stats().Session)
				run.Count("stats-snapshots-compared:client", 1)
				in, out := diffStats(before, after)
				if len(out) > 0 {
					run.Count("client:outbound-counter-drift", 1)
				}
				if len(in) > 0 {
					key := "client-udp/stats-changed/" + classNames[sp.Class]
					if sc.AnyPort && sp.Class == clOtherPort {
						key = "client-udp/anyport/second-port-accepted"
					}
					fail(key, fmt.Sprintf("Client.Stats() changed over an interval in which only a spoofer (%s) sent datagrams and the server was silent: %v", sp, in),
						map[string]any{"class": classNames[sp.Class], "diff": in, "spoofer": sp.String()})
				}
				run.Distinct(fmt.Sprintf("client-udp|real|anyport=%v|%s|m%d", sc.AnyPort, classNames[sp.Class], m))
			}
			for _, sp := range sps {
				sp.close()
			}
		}
		if !legit(10) {
			break
		}
	}
	if e, err := cl.ended(); e {
		fail("client-udp/victim-client-ended", fmt.Sprintf("the client ended by itself during the scenario: %v", err), nil)
	}
	if run.WantSample() {
		rt, rc := cl.sink.counts()
		run.Sample(map[string]any{"part": "client-udp", "scenario": sc, "legit_rtp_delivered": rt, "legit_rtcp_delivered": rc, "spoofed_delivered": cl.sink.spoofedTotal()})
	}
}

// ---- scripted server --------------------------------------------------------------------------------

// script is a minimal RTSP server that answers DESCRIBE / SETUP / PLAY and sends media only when
// told to, from sockets the harness chooses.
type script struct {
	ln            net.Listener
	port          int
	noServerPorts bool
	source        string // "source=" of the SETUP responses ("" = none)
	ann           [2][2]*net.UDPConn // announced (bound, silent) server sockets per media
	annPort       [2]int

	mu        sync.Mutex
	cports    map[int][2]int
	tcpSetups int
	conns     []net.Conn
}

func newScript(noServerPorts bool) (*script, error) {
	s := &script{noServerPorts: noServerPorts, cports: map[int][2]int{}}
	for tries := 0; ; tries++ {
		s.port = rig.FreePort()
		ln, err := net.Listen("tcp4", fmt.Sprintf("127.0.0.1:%d", s.port))
		if err == nil {
			s.ln = ln
			break
		}
		if tries > 20 {
			return nil, err
		}
	}
	for m := 0; m < 2; m++ {
		for tries := 0; ; tries++ {
			p := rig.FreePortPair()
			a, e1 := bindUDP("127.0.0.1", p)
			if e1 == nil {
				b, e2 := bindUDP("127.0.0.1", p+1)
				if e2 == nil {
					s.ann[m] = [2]*net.UDPConn{a, b}
					s.annPort[m] = p
					break
				}
				a.Close()
			}
			if tries > 20 {
				s.close()
				return nil, fmt.Errorf("script: cannot bind server ports")
			}
		}
	}
	go s.accept()
	return s, nil
}

func (s *script) close() {
	if s.ln != nil {
		s.ln.Close()
	}
	s.mu.Lock()
	for _, c := range s.conns {
		c.Close()
	}
	s.mu.Unlock()
	for m := range s.ann {
		for _, c := range s.ann[m] {
			if c != nil {
				c.Close()
			}
		}
	}
}

func (s *script) accept() {
	for {
		nc, err := s.ln.Accept()
		if err != nil {
			return
		}
		s.mu.Lock()
		s.conns = append(s.conns, nc)
		s.mu.Unlock()
		go s.serve(nc)
	}
}

func (s *script) serve(nc net.Conn) {
	defer nc.Close()
	c := conn.NewConn(bufio.NewReader(nc), nc)
	for {
		what, err := c.Read()
		if err != nil {
			return
		}
		req, ok := what.(*base.Request)
		if !ok {
			continue // interleaved RTCP of the client after a switch to TCP
		}
		res := &base.Response{StatusCode: base.StatusOK, Header: base.Header{"CSeq": req.Header["CSeq"]}}
		switch req.Method {
		case base.Options:
			res.Header["Public"] = base.HeaderValue{"DESCRIBE, SETUP, PLAY, TEARDOWN, GET_PARAMETER"}
		case base.Describe:
			res.Header["Content-Base"] = base.HeaderValue{req.URL.String() + "/"}
			res.Header["Content-Type"] = base.HeaderValue{"application/sdp"}
			res.Body = sdp
		case base.Setup:
			var t headers.Transport
			if t.Unmarshal(req.Header["Transport"]) != nil {
				res.StatusCode = base.StatusBadRequest
				break
			}
			m := 0
			if i := strings.LastIndex(req.URL.String(), "trackID="); i >= 0 {
				m, _ = strconv.Atoi(req.URL.String()[i+len("trackID="):])
			}
			var th headers.Transport
			d := headers.TransportDeliveryUnicast
			th.Delivery = &d
			if t.Protocol == headers.TransportProtocolTCP {
				th.Protocol = headers.TransportProtocolTCP
				th.InterleavedIDs = t.InterleavedIDs
				s.mu.Lock()
				s.tcpSetups++
				s.mu.Unlock()
			} else {
				th.ClientPorts = t.ClientPorts
				if s.source != "" {
					src := s.source
					th.Source2 = &src
				}
				if !s.noServerPorts && m < 2 {
					th.ServerPorts = &[2]int{s.annPort[m], s.annPort[m] + 1}
				}
				if t.ClientPorts != nil {
					s.mu.Lock()
					s.cports[m] = *t.ClientPorts
					s.mu.Unlock()
				}
			}
			res.Header["Transport"] = th.Marshal()
			res.Header["Session"] = base.HeaderValue{"C19SCRIPT0001;timeout=60"}
		case base.Play, base.GetParameter, base.Pause:
			res.Header["Session"] = base.HeaderValue{"C19SCRIPT0001;timeout=60"}
		case base.Teardown:
		default:
			res.StatusCode = base.StatusNotImplemented
		}
		_ = nc.SetWriteDeadline(time.Now().Add(5 * time.Second))
		if c.WriteResponse(res) != nil {
			return
		}
	}
}

func (s *script) addr() string { return fmt.Sprintf("127.0.0.1:%d", s.port) }

func (s *script) clientPorts(m int) ([2]int, bool) {
	s.mu.Lock()
	defer s.mu.Unlock()
	p, ok := s.cports[m]
	return p, ok
}

func (s *script) tcpSetupCount() int {
	s.mu.Lock()
	defer s.mu.Unlock()
	return s.tcpSetups
}

// ---- AnyPortEnable against a scripted server ----------------------------------------------------------

type anyPortCase struct {
	Name          string `json:"name"`
	NoServerPorts bool   `json:"no_server_ports"` // SETUP answered without server_port (else: announced ports, media sent from other ones)
	Seed          int64  `json:"seed"`
	// Source != "": not an AnyPort case - the scripted server names this address as the media
	// source in its Transport header (a multi-homed server); see runNegotiatedSource
	Source string `json:"source,omitempty"`
}

// runAnyPort asserts the documented behaviour of Client.AnyPortEnable ("enable communication
// with servers which don't provide UDP server ports or use different server ports than the
// announced ones") and of the listener ("store the port of the first packet we receive"):
// the first packet from the server's address is accepted whatever its port, later packets from
// other ports and any packet from another address are ignored.
func runAnyPort(ac anyPortCase) {
	if ac.Source != "" {
		runNegotiatedSource(ac)
		return
	}
	evals.Add(1)
	r := rand.New(rand.NewSource(ac.Seed))
	wit := map[string]any{"part": "client-anyport", "anyport": ac}
	fail := func(key, what string) { run.Violation(key, "["+ac.Name+"] "+what, wit) }
	s, err := newScript(ac.NoServerPorts)
	if err != nil {
		run.Inconclusive("script-start")
		return
	}
	defer s.close()
	cl, err := startClient(s.addr(), "/stream", cliOpts{Proto: "udp", AnyPort: true, ReadTimeout: longTimeout, InitialUDP: longTimeout})
	if err != nil {
		fail("client-udp/anyport/setup-refused", "a client with AnyPortEnable could not set up against a server that "+
			map[bool]string{true: "provides no server ports", false: "announces server ports"}[ac.NoServerPorts]+": "+err.Error())
		return
	}
	defer cl.c.Close()
	runID := newRunID()
	cl.sink.run.Store(runID)
	cl.sink.mu.Lock()
	cl.sink.wit = wit
	cl.sink.special = "client-udp/anyport/second-port-accepted"
	cl.sink.mu.Unlock()

	for m := 0; m < 2; m++ {
		cp, ok := s.clientPorts(m)
		if !ok {
			run.Inconclusive("script-no-client-ports")
			return
		}
		first := openSpoofer(clLegit, "127.0.0.1", 0, 0) // the server's real sockets: not the announced ones
		second := openSpoofer(clOtherPort, "127.0.0.1", 0, 0)
		foreign := openSpoofer(clOtherIP, otherIPs(r, 1, "127.0.0.1")[0], 0, 0)
		if first == nil || second == nil || foreign == nil {
			run.Inconclusive("anyport-sockets")
			return
		}
		dst := &net.UDPAddr{IP: net.ParseIP("127.0.0.1"), Port: cp[0]}
		dstC := &net.UDPAddr{IP: net.ParseIP("127.0.0.1"), Port: cp[1]}
		// the server's own packets are numbered consecutively; spoofers use the numbers that
		// would come next (the receiver re-orders: a gap in the legitimate numbering would hold
		// packets back by design)
		seq := uint16(1000)
		send := func(sp *spoofer, n int) {
			for k := 0; k < n; k++ {
				sq := seq + uint16(1+k)
				if sp.Class == clLegit {
					seq++
					sq = seq
				}
				_, _ = sp.rtp.WriteToUDP(buildRTP(runID, m, sp.Class, 0xABCD0000+uint32(m), sq, uint32(sq)*3000, uint64(sq), r), dst)
				_, _ = sp.rtcp.WriteToUDP(senderReport(0xABCD0000+uint32(m), sp.Class, uint32(sq)), dstC)
				run.Count("spoofed-datagrams:client:anyport-script:"+classNames[sp.Class], 2)
			}
		}
		// legitFence: the server's own socket sends; once the callbacks saw it, everything sent
		// before to the same client sockets has been processed
		legitFence := func() (rtpOK, rtcpOK bool) {
			r0, c0 := cl.sink.mediaCount(m), 0
			_, c0 = cl.sink.counts()
			for a := 0; a < 3; a++ {
				send(first, 1)
				ok, _ := waitCond(time.Second, func() bool {
					_, c1 := cl.sink.counts()
					return cl.sink.mediaCount(m) > r0 && c1 > c0
				})
				if ok {
					return true, true
				}
			}
			_, c1 := cl.sink.counts()
			return cl.sink.mediaCount(m) > r0, c1 > c0
		}
		// 1. another address first: ignored and must not latch
		send(foreign, 20)
		waitDrained(cp[0], cp[1])
		// 2. the first packet from the server's address, from ports that were never announced
		rtpOK, rtcpOK := legitFence()
		if !rtpOK || !rtcpOK {
			fail("client-udp/anyport/first-port-not-accepted", fmt.Sprintf("AnyPortEnable: media %d: packets from the server's address (unannounced source ports) were not delivered (rtp delivered: %v, rtcp delivered: %v) after datagrams from another address had been sent first", m, rtpOK, rtcpOK))
			return
		}
		// 3. a second port of the server's address: ignored (callbacks via sink.special), stats unchanged
		before := statsView(cl.c.Stats().Session)
		send(second, 30)
		send(foreign, 10)
		waitDrained(cp[0], cp[1])
		after := statsView(cl.c.Stats().Session)
		run.Count("stats-snapshots-compared:client", 1)
		if in, _ := diffStats(before, after); len(in) > 0 {
			fail("client-udp/anyport/second-port-accepted", fmt.Sprintf("AnyPortEnable: media %d: Client.Stats() changed while only a second source port / another address sent: %v", m, in))
		}
		// 4. the latched port keeps working
		if a, b := legitFence(); !a || !b {
			fail("client-udp/anyport/latched-port-lost", fmt.Sprintf("AnyPortEnable: media %d: the latched source stopped being accepted after other ports had sent (rtp %v, rtcp %v)", m, a, b))
		}
		first.close()
		second.close()
		foreign.close()
		run.Distinct(fmt.Sprintf("client-udp|anyport-script|noports=%v|m%d", ac.NoServerPorts, m))
	}
	run.Count("anyport-script-cases", 1)
}

// runNegotiatedSource: the server's Transport header names a media source that is not the address
// of the control connection. The peer the client negotiated with is then that source, for RTP and
// for RTCP: datagrams from the control connection's address (same port numbers) come from somebody
// else and must change nothing, and the negotiated source must be served.
func runNegotiatedSource(ac anyPortCase) {
	evals.Add(1)
	r := rand.New(rand.NewSource(ac.Seed))
	wit := map[string]any{"part": "client-anyport", "anyport": ac}
	fail := func(key, what string) { run.Violation(key, "["+ac.Name+"] "+what, wit) }
	s, err := newScript(false)
	if err != nil {
		run.Inconclusive("script-start")
		return
	}
	defer s.close()
	s.source = ac.Source
	// the announced port numbers are used by the senders below, on both addresses
	for m := range s.ann {
		for j, c := range s.ann[m] {
			if c != nil {
				c.Close()
				s.ann[m][j] = nil
			}
		}
	}
	cl, err := startClient(s.addr(), "/stream", cliOpts{Proto: "udp", ReadTimeout: longTimeout, InitialUDP: longTimeout})
	if err != nil {
		fail("client-udp/negotiated-source/setup-refused", "a client could not set up against a server that names another address as the media source: "+err.Error())
		return
	}
	defer cl.c.Close()
	runID := newRunID()
	cl.sink.run.Store(runID)
	cl.sink.mu.Lock()
	cl.sink.wit = wit
	cl.sink.mu.Unlock()
	for m := 0; m < 2; m++ {
		cp, ok := s.clientPorts(m)
		if !ok {
			run.Inconclusive("script-no-client-ports")
			return
		}
		legit := openSpoofer(clLegit, ac.Source, s.annPort[m], s.annPort[m]+1)
		ctrl := openSpoofer(clOtherIP, "127.0.0.1", s.annPort[m], s.annPort[m]+1)
		if legit == nil || ctrl == nil {
			run.Inconclusive("negotiated-source-sockets")
			return
		}
		dst := &net.UDPAddr{IP: net.ParseIP("127.0.0.1"), Port: cp[0]}
		dstC := &net.UDPAddr{IP: net.ParseIP("127.0.0.1"), Port: cp[1]}
		seq := uint16(2000)
		send := func(sp *spoofer, n int) {
			for k := 0; k < n; k++ {
				sq := seq + uint16(1+k)
				if sp.Class == clLegit {
					seq++
					sq = seq
				}
				_, _ = sp.rtp.WriteToUDP(buildRTP(runID, m, sp.Class, 0xABCD0000+uint32(m), sq, uint32(sq)*3000, uint64(sq), r), dst)
				_, _ = sp.rtcp.WriteToUDP(senderReport(0xABCD0000+uint32(m), sp.Class, uint32(sq)), dstC)
				run.Count("spoofed-datagrams:client:negotiated-source:"+classNames[sp.Class], 2)
			}
		}
		fence := func() (bool, bool) {
			r0 := cl.sink.mediaCount(m)
			_, c0 := cl.sink.counts()
			for a := 0; a < 3; a++ {
				send(legit, 1)
				ok, _ := waitCond(time.Second, func() bool {
					_, c1 := cl.sink.counts()
					return cl.sink.mediaCount(m) > r0 && c1 > c0
				})
				if ok {
					return true, true
				}
			}
			_, c1 := cl.sink.counts()
			return cl.sink.mediaCount(m) > r0, c1 > c0
		}
		// 1. the negotiated source is served, RTP and RTCP
		if a, b := fence(); !a || !b {
			fail("client-udp/negotiated-source/legit-not-accepted", fmt.Sprintf("media %d: datagrams from the source named in the Transport header (%s) were not delivered (rtp %v, rtcp %v)", m, ac.Source, a, b))
			return
		}
		// 2. the control connection's address is not the negotiated peer: nothing may change
		before := statsView(cl.c.Stats().Session)
		send(ctrl, 30)
		waitDrained(cp[0], cp[1])
		after := statsView(cl.c.Stats().Session)
		run.Count("stats-snapshots-compared:client", 1)
		if in, _ := diffStats(before, after); len(in) > 0 {
			fail("client-udp/negotiated-source/control-address-accepted", fmt.Sprintf("media %d: Client.Stats() changed while only the control connection's address (not the negotiated source %s) sent RTP / RTCP from the announced ports: %v", m, ac.Source, in))
		}
		// 3. and the negotiated source still works
		if a, b := fence(); !a || !b {
			fail("client-udp/negotiated-source/legit-lost", fmt.Sprintf("media %d: the negotiated source stopped being accepted after the control address had sent (rtp %v, rtcp %v)", m, a, b))
		}
		legit.close()
		ctrl.close()
		run.Distinct(fmt.Sprintf("client-udp|negotiated-source|m%d", m))
	}
	run.Count("negotiated-source-cases", 1)
}

// ---- client timeouts ----------------------------------------------------------------------------------

func clientTimingAttempt(c timingCase) bool {
	evals.Add(1)
	r := rand.New(rand.NewSource(c.Seed))
	wit := map[string]any{"part": "timing", "timing": c}
	var (
		cl     *cli
		err    error
		cports [2][2]int
		sports [2][2]int
		live   func() // legitimate traffic of the live phase (nil = none)
	)
	runID := newRunID()
	switch c.Name {
	case "client/initial-auto", "client/initial-udp":
		s, e := newScript(false)
		if e != nil {
			return false
		}
		defer s.close()
		proto := "auto"
		if c.Name == "client/initial-udp" {
			proto = "udp"
		}
		cl, err = startClient(s.addr(), "/stream", cliOpts{Proto: proto, ReadTimeout: c.Timeout, InitialUDP: c.Timeout, CheckPeriod: checkPeriod})
		if err != nil {
			// requests run under the scaled ReadTimeout: a slow start is no verdict about binding
			run.Count("timing:client-start-failed", 1)
			return false
		}
		for m := 0; m < 2; m++ {
			cports[m], _ = s.clientPorts(m)
			sports[m] = [2]int{s.annPort[m], s.annPort[m] + 1}
		}
	default: // client/steady-udp
		ts, e := rig.StartServer(rig.ServerOpts{UDP: true, HandlerSet: "full", NoLog: true, OnEvent: onEvent, SenderReportPeriod: time.Hour, ReceiverReportPeriod: time.Hour})
		if e != nil {
			return false
		}
		defer ts.Close()
		cl, err = startClient(ts.Addr(), "/stream", cliOpts{Proto: "udp", ReadTimeout: c.Timeout, InitialUDP: c.Timeout, CheckPeriod: checkPeriod})
		if err != nil {
			// requests run under the scaled ReadTimeout: a slow start is no verdict about binding
			run.Count("timing:client-start-failed", 1)
			return false
		}
		for m := 0; m < 2; m++ {
			cports[m], sports[m], _, _ = cl.ports(m)
		}
		seq := uint16(10)
		live = func() {
			seq++
			_ = ts.Stream.WritePacketRTP(ts.Stream.Desc.Medias[0], buildRTPPacket(runID, 0, clLegit, 0, seq, uint32(seq)*3000, uint64(seq), r))
		}
	}
	defer cl.c.Close()
	cl.sink.run.Store(runID)
	cl.sink.setWitness(wit)
	start := cl.played
	lastLegit := start
	ended := cl.ended
	if live != nil {
		for time.Since(start) < c.Timeout*3/2 {
			t0 := time.Now()
			live()
			lastLegit = time.Now()
			if e, _ := ended(); e {
				break
			}
			time.Sleep(4*spoofEvery - time.Since(t0))
		}
		if e, _ := ended(); e {
			run.Count("timing:live-phase-closed", 1)
			return false
		}
		if cl.sink.mediaCount(0) == 0 {
			run.Count("timing:live-phase-nothing-delivered", 1)
			return false
		}
		run.Count("timing:live-phases-held", 1)
	}
	var sps []*spoofer
	mediaOf := map[*spoofer]int{}
	for m := 0; m < 2; m++ {
		for _, sp := range openSpoofers("127.0.0.1", sports[m][0], sports[m][1], true, otherIPs(r, 2, "127.0.0.1")) {
			sps = append(sps, sp)
			mediaOf[sp] = m
		}
	}
	defer func() {
		for _, sp := range sps {
			sp.close()
		}
	}()
	stop := make(chan struct{})
	wg := spoofLoop(sps,
		func(sp *spoofer) (*net.UDPAddr, *net.UDPAddr) { return clientDst(sp, cports[mediaOf[sp]]) },
		func(sp *spoofer, k int) []byte {
			m := mediaOf[sp]
			return buildRTP(runID, m, sp.Class, 0xABCD0000+uint32(m), uint16(5000+k), uint32(k)*3000, uint64(k), r)
		},
		func(sp *spoofer, k int) []byte {
			return senderReport(0xABCD0000+uint32(mediaOf[sp]), sp.Class, uint32(k))
		},
		stop, "client")
	bound := c.Timeout + checkPeriod + slack
	fired := func() bool {
		if c.Name == "client/initial-auto" {
			return cl.switched.Load()
		}
		e, _ := ended()
		return e
	}
	for !fired() && time.Since(lastLegit) < bound+2*time.Second {
		time.Sleep(5 * time.Millisecond)
	}
	took := time.Since(lastLegit)
	ok := fired()
	close(stop)
	wg.Wait()
	if !ok || took > bound {
		if lateCanary(start) {
			return false
		}
		key := "client-udp/spoofer-kept-session-alive"
		what := fmt.Sprintf("%s (ReadTimeout %v): the server has been silent for %v (bound %v) while only spoofers kept sending valid RTP / RTCP to the client's ports; the client has not timed out", c.Name, c.Timeout, took.Round(time.Millisecond), bound)
		if live == nil {
			key = "client-udp/spoofer-blocked-initial-udp-timeout/" + strings.TrimPrefix(c.Name, "client/initial-")
			what = fmt.Sprintf("%s (InitialUDPReadTimeout %v): a server that never sends media; %v after PLAY (bound %v) the client has neither switched to TCP nor failed while spoofers kept sending valid RTP / RTCP to its ports", c.Name, c.Timeout, took.Round(time.Millisecond), bound)
		}
		run.Violation(key, what, wit)
		return true
	}
	if c.Name == "client/initial-auto" {
		run.Count("timing:client-switched-to-tcp", 1)
	} else {
		_, e := ended()
		run.Count("timing:client-ended:"+fmt.Sprintf("%T", e), 1)
	}
	run.Max("timing-expiry-ms:"+c.Name, took.Milliseconds())
	run.Distinct(fmt.Sprintf("timing|%s|%v", c.Name, c.Timeout))
	return true
}

func clientUDPPart() {
	rs := run.Rand("client-udp", 0)
	var wg sync.WaitGroup
	for _, ap := range []bool{false, true} {
		sc := cliScenario{Name: fmt.Sprintf("real-server/anyport=%v", ap), AnyPort: ap, Burst: run.Pick(500, 12000), Rounds: run.Pick(2, 6), NOther: run.Pick(2, 4), Seed: rs.Int63()}
		wg.Add(1)
		go func() {
			defer wg.Done()
			runClientUDP(sc)
		}()
	}
	for i := 0; i < run.Pick(2, 8); i++ {
		for _, np := range []bool{true, false} {
			ac := anyPortCase{Name: fmt.Sprintf("scripted/no-server-ports=%v", np), NoServerPorts: np, Seed: rs.Int63()}
			wg.Add(1)
			go func() {
				defer wg.Done()
				runAnyPort(ac)
			}()
		}
		sc := anyPortCase{Name: "scripted/source=127.0.1.1", Source: "127.0.1.1", Seed: rs.Int63()}
		wg.Add(1)
		go func() {
			defer wg.Done()
			runAnyPort(sc)
		}()
	}
	wg.Wait()
}
