package main

import (
	"fmt"
	"math/rand"
	"net"
	"sync"
	"time"

	"github.com/bluenviron/gortsplib/v5"
	"github.com/bluenviron/gortsplib/v5/pkg/base"

	"verif/lib/rig"
)

// Part 1: server side UDP. A raw peer negotiates a session over UDP from its own loopback
// address; spoofers bound to other addresses / ports send valid RTP and RTCP for that session
// to the server's RTP / RTCP ports.

type srvScenario struct {
	Name    string `json:"name"`
	Listen  string `json:"listen"`   // v4: server bound to 127.0.0.1 | dual: server bound to [::] (IPv4 peers appear IPv4-mapped)
	LegitIP string `json:"legit_ip"` // address of the negotiated peer
	Mode    string `json:"mode"`     // record | play
	Burst   int    `json:"spoofed_rtp_per_class_and_media"`
	Rounds  int    `json:"rounds"`
	NOther  int    `json:"other_ips"`
	Seed    int64  `json:"seed"`
}

const longTimeout = 10 * time.Minute

// srvRig is a server plus a fence session: a second, unrelated recording session whose
// callbacks tell when everything sent earlier to the server's two UDP sockets was processed
// (one reader goroutine per socket, FIFO socket queue).
type srvRig struct {
	ts    *rig.TestServer
	mu    sync.Mutex
	fence *rawSess
	fr    *rand.Rand
}

func startSrvRig(listen string, idx int) *srvRig {
	o := rig.ServerOpts{UDP: true, HandlerSet: "full", NoLog: true, OnEvent: onEvent, NoStream: true,
		ReadTimeout: longTimeout, IdleTimeout: longTimeout,
		// the library's own periodic reports stay out of the observation intervals
		SenderReportPeriod: time.Hour, ReceiverReportPeriod: time.Hour}
	if listen == "dual" {
		o.ListenIP = "::"
	}
	ts, err := rig.StartServer(o)
	if err != nil {
		run.Fatal("server (%s): %v", listen, err)
	}
	sr := &srvRig{ts: ts, fr: run.Rand("fence/"+listen, idx)}
	f, err := negotiate(ts, "127.0.0.1", "/fence", "udp", "record", 2)
	if err != nil {
		run.Fatal("fence session (%s): %v", listen, err)
	}
	sr.fence = f
	return sr
}

func (sr *srvRig) close() {
	sr.fence.close()
	sr.ts.Close()
}

// barrier returns once the server has processed every datagram that was sent to its RTP and
// RTCP sockets before the call; false = could not be established (inconclusive).
func (sr *srvRig) barrier() bool {
	sr.mu.Lock()
	defer sr.mu.Unlock()
	f := sr.fence
	for attempt := 0; attempt < 4; attempt++ {
		r0, c0 := f.rec.sink.counts()
		_ = f.sendLegitRTP(0, sr.fr)
		_ = f.sendLegitRTCP(0)
		ok, _ := waitCond(2*time.Second, func() bool {
			r1, c1 := f.rec.sink.counts()
			return r1 > r0 && c1 > c0
		})
		if ok {
			return true
		}
	}
	return false
}

// newStream publishes a fresh stream (default 2-media description) at path.
func newStream(ts *rig.TestServer, path string) *gortsplib.ServerStream {
	st := &gortsplib.ServerStream{Server: ts.S, Desc: rig.DefaultDesc()}
	if err := st.Initialize(); err != nil {
		run.Fatal("stream: %v", err)
	}
	ts.Publish(path, st)
	return st
}

var pathCtr int64
var pathMu sync.Mutex

func newPath(prefix string) string {
	pathMu.Lock()
	defer pathMu.Unlock()
	pathCtr++
	return fmt.Sprintf("/%s%d", prefix, pathCtr)
}

// sendSpoof sends burst valid RTP packets and burst/4 RTCP packets from one spoofer to the
// receiver's RTP / RTCP ports; forgeRTP / forgeRTCP build the datagrams. The flood is paced by
// the receiver's socket queue so that it is processed rather than dropped.
func sendSpoof(s *spoofer, dstRTP, dstRTCP *net.UDPAddr, burst int, forgeRTP, forgeRTCP func(k int) []byte) (sent int) {
	for k := 0; k < burst; k++ {
		if k%64 == 0 {
			pace(dstRTP.Port, dstRTCP.Port)
		}
		if _, err := s.rtp.WriteToUDP(forgeRTP(k), dstRTP); err == nil {
			sent++
		}
		if k%4 == 0 {
			if _, err := s.rtcp.WriteToUDP(forgeRTCP(k), dstRTCP); err == nil {
				sent++
			}
		}
	}
	return sent
}

func runServerUDP(sr *srvRig, sc srvScenario) {
	evals.Add(1)
	r := rand.New(rand.NewSource(sc.Seed))
	wit := map[string]any{"part": "server-udp", "server": sc}
	fail := func(key, what string, extra map[string]any) {
		w := map[string]any{"part": "server-udp", "server": sc}
		for k, v := range extra {
			w[k] = v
		}
		run.Violation(key, "["+sc.Name+"] "+what, w)
	}
	ts := sr.ts
	path := newPath("pub")
	var st *gortsplib.ServerStream
	if sc.Mode == "play" {
		path = newPath("s")
		st = newStream(ts, path)
		defer st.Close()
	}
	v, err := negotiate(ts, sc.LegitIP, path, "udp", sc.Mode, 2)
	if err != nil {
		fail("server-udp/negotiation-failed", err.Error(), nil)
		return
	}
	defer v.close()
	v.rec.sink.setWitness(wit)
	ss := v.rec.ss

	// legitimate traffic, then quiescence
	legit := func(n int) bool {
		r0, c0 := v.rec.sink.counts()
		sentRTP, sentRTCP := 0, 0
		for k := 0; k < n; k++ {
			for m := 0; m < 2; m++ {
				if sc.Mode == "record" {
					if v.sendLegitRTP(m, r) == nil {
						sentRTP++
					}
				}
				if k%4 == 0 && v.sendLegitRTCP(m) == nil {
					sentRTCP++
				}
			}
			time.Sleep(150 * time.Microsecond)
		}
		if !sr.barrier() {
			return false
		}
		r1, c1 := v.rec.sink.counts()
		run.Count("server:legit-rtp-sent", int64(sentRTP))
		run.Count("server:legit-rtp-delivered", int64(r1-r0))
		run.Count("server:legit-rtcp-sent", int64(sentRTCP))
		run.Count("server:legit-rtcp-delivered", int64(c1-c0))
		if (sentRTP > 0 && r1 == r0) || (sentRTCP > 0 && c1 == c0) {
			fail("server-udp/legit-flow-stopped", fmt.Sprintf("the negotiated peer sent %d RTP / %d RTCP datagrams from its negotiated sockets after spoofers had been active; %d / %d reached the callbacks", sentRTP, sentRTCP, r1-r0, c1-c0), nil)
			return false
		}
		return true
	}
	if sc.Mode == "play" {
		// give the sender side some state: a few packets written to the stream
		for k := 0; k < 5; k++ {
			_ = st.WritePacketRTP(st.Desc.Medias[0], buildRTPPacket(v.run, 0, clLegit, 1, uint16(100+k), uint32(3000*k), uint64(k), r))
		}
		v.readMedia(0, v.run, 0, 5, 500*time.Millisecond)
	}
	if !legit(20) {
		run.Inconclusive("server-udp/barrier")
		return
	}

	for round := 0; round < sc.Rounds; round++ {
		for m := 0; m < 2; m++ {
			sps := openSpoofers(sc.LegitIP, v.cp[m], v.cpc[m], sc.Listen == "dual", otherIPs(r, sc.NOther, sc.LegitIP))
			for _, sp := range sps {
				fam := loopbackFor(sp.IP)
				if isV6(fam) && sc.Listen != "dual" {
					continue
				}
				dst := &net.UDPAddr{IP: net.ParseIP(fam), Port: v.srvPort[0]}
				dstC := &net.UDPAddr{IP: net.ParseIP(fam), Port: v.srvPort[1]}
				before := statsView(ss.Stats())
				n := sendSpoof(sp, dst, dstC, sc.Burst,
					func(k int) []byte { return v.rtpBytes(m, sp.Class, k, r) },
					func(k int) []byte {
						if sc.Mode == "record" {
							return senderReport(v.ssrc[m], sp.Class, v.rtpTS[m]+uint32(k))
						}
						return receiverReport(v.srvSSRC[m], sp.Class, uint32(k))
					})
				run.Count("spoofed-datagrams:server:"+sc.Listen+":"+sc.Mode+":"+classNames[sp.Class], int64(n))
				if !sr.barrier() {
					run.Inconclusive("server-udp/barrier")
					continue
				}
				after := statsView(ss.Stats())
				run.Count("stats-snapshots-compared:server", 1)
				in, out := diffStats(before, after)
				if len(out) > 0 {
					run.Count("server:outbound-counter-drift", 1)
				}
				if len(in) > 0 {
					fail("server-udp/stats-changed/"+classNames[sp.Class],
						fmt.Sprintf("ServerSession.Stats() changed over an interval in which only a spoofer (%s) sent datagrams and the negotiated peer was silent: %v", sp, in),
						map[string]any{"class": classNames[sp.Class], "diff": in, "spoofer": sp.String()})
				}
				run.Distinct(fmt.Sprintf("server-udp|%s|%s|%s|%s|m%d", sc.Listen, sc.LegitIP, sc.Mode, classNames[sp.Class], m))
			}
			for _, sp := range sps {
				sp.close()
			}
		}
		// the negotiated peer resumes with the very sequence numbers the spoofers used
		if !legit(10) {
			break
		}
	}
	if v.rec.isClosed() {
		fail("server-udp/victim-session-closed", "the victim session was closed during the scenario: "+v.rec.closeErr, nil)
	}
	if got := ss.State(); (sc.Mode == "record" && got != gortsplib.ServerSessionStateRecord) || (sc.Mode == "play" && got != gortsplib.ServerSessionStatePlay) {
		fail("server-udp/victim-state-changed", fmt.Sprintf("victim session state became %v", got), nil)
	}
	if run.WantSample() {
		rt, rc := v.rec.sink.counts()
		run.Sample(map[string]any{"part": "server-udp", "scenario": sc, "legit_rtp_delivered": rt, "legit_rtcp_delivered": rc, "spoofed_delivered": v.rec.sink.spoofedTotal()})
	}
	// orderly end
	req := v.p.Request(base.Teardown, v.url(), base.Header{"Session": base.HeaderValue{v.sessID}}, nil)
	_, _ = v.p.Do(req, respTimeout)
	v.p.Close()
	waitCond(5*time.Second, v.rec.isClosed)
	forget(v.rec.owner)
}

func serverUDPPart() {
	rs := run.Rand("server-udp", 0)
	burst := run.Pick(400, 3000)
	rounds := run.Pick(2, 6)
	nOther := run.Pick(2, 4)
	var scs []srvScenario
	add := func(listen, ip, mode string) {
		scs = append(scs, srvScenario{Name: fmt.Sprintf("%s/%s/from-%s", listen, mode, ip), Listen: listen, LegitIP: ip, Mode: mode,
			Burst: burst, Rounds: rounds, NOther: nOther, Seed: rs.Int63()})
	}
	add("v4", "127.0.0.1", "record")
	add("v4", "127.0.0.1", "play")
	add("v4", "127.0.0.5", "record") // the negotiated peer itself on a non-default loopback address
	if v6ok {
		add("dual", "127.0.0.1", "record")
		add("dual", "127.0.0.1", "play")
		add("dual", "::1", "record")
		add("dual", "::1", "play")
	} else {
		run.Count("ipv6-loopback-unavailable", 1)
	}
	rigs := map[string]*srvRig{"v4": startSrvRig("v4", 0)}
	if v6ok {
		rigs["dual"] = startSrvRig("dual", 0)
	}
	var wg sync.WaitGroup
	for _, sc := range scs {
		wg.Add(1)
		go func(sc srvScenario) {
			defer wg.Done()
			runServerUDP(rigs[sc.Listen], sc)
		}(sc)
	}
	wg.Wait()
	for _, sr := range rigs {
		sr.close()
	}
}
