// C19: media and control are bound to the negotiated peer.
//
// Real servers and clients are put next to spoofers: sockets bound to other loopback addresses
// (127.0.0.2 .. 127.0.0.9, ::1, IPv4 peers seen as IPv4-mapped by a dual-stack server) and to
// other ports send perfectly valid RTP / RTCP for a victim session (copied SSRC, next sequence
// numbers, a marker in the payload naming the spoofer); intruder connections present a stolen
// session id with every method in every session state. Monitors: no packet callback ever sees a
// spoofer's marker; Stats() taken before and after a spoof-only interval are identical; silent
// victims still time out (scaled timers, canary-guarded); intruders get error statuses and the
// victim's State(), Conns(), transport, callback log and media flow are unchanged afterwards.
// The Go race detector watches the whole run.
package main

import (
	"sync"
	"sync/atomic"
	"time"

	"verif/lib/rig"
	"verif/lib/vlib"
)

var (
	run    *vlib.Run
	canary *rig.Canary
	evals  atomic.Int64
)

type replayCase struct {
	Part    string       `json:"part"`
	Server  *srvScenario `json:"server"`
	Client  *cliScenario `json:"client"`
	AnyPort *anyPortCase `json:"anyport"`
	Timing  *timingCase  `json:"timing"`
	Control *ctlCase     `json:"control"`
}

func replay() {
	var w replayCase
	if err := run.LoadReplay(&w); err != nil {
		run.Fatal("cannot load replay: %v", err)
	}
	for k := 0; k < 3; k++ {
		switch {
		case w.Server != nil:
			sr := startSrvRig(w.Server.Listen, k)
			runServerUDP(sr, *w.Server)
			sr.close()
		case w.Client != nil:
			runClientUDP(*w.Client)
		case w.AnyPort != nil:
			runAnyPort(*w.AnyPort)
		case w.Timing != nil:
			timingPart()
			return
		case w.Control != nil:
			o := rig.ServerOpts{UDP: true, HandlerSet: "full", NoLog: true, OnEvent: onEvent, NoStream: true,
				ReadTimeout: longTimeout, IdleTimeout: longTimeout, SenderReportPeriod: longTimeout, ReceiverReportPeriod: longTimeout}
			if w.Control.Listen == "dual" {
				o.ListenIP = "::"
			}
			ts, err := rig.StartServer(o)
			if err != nil {
				run.Fatal("server: %v", err)
			}
			if w.Control.Origin == "storm" {
				runStorm(ts, w.Control.State, w.Control.Seed, 8, 60)
			} else {
				runControl(ts, *w.Control)
			}
			ts.Close()
		default:
			// race witnesses carry the detector's report, not a scenario: re-run the part whose
			// workload attaches several connections to one session
			controlPart()
			return
		}
	}
}

func main() {
	run = vlib.Start("C19", "exploration")
	canary = rig.StartCanary()
	defer canary.Stop()
	v6ok = probeV6()
	run.Extra("ipv6_loopback_available", v6ok)
	if v6ok {
		secondV6 = probeSecondV6()
	}
	run.Extra("second_ipv6_address", secondV6)
	if secondV6 == "" {
		run.Assume("no second (non-loopback, non-link-local) IPv6 address on this host: attempts between two native IPv6 addresses are not exercised")
	}

	if run.Replay != "" {
		replay()
		run.ReportRaces()
		run.Finish(evals.Load(), "replay")
		return
	}

	// the timed cases mostly sleep: they run next to the control matrix (light), before the floods
	var wg sync.WaitGroup
	wg.Add(1)
	go func() {
		defer wg.Done()
		timingPart()
	}()
	walls := map[string]float64{}
	timed := func(name string, f func()) {
		t0 := time.Now()
		f()
		walls[name] = time.Since(t0).Seconds()
	}
	timed("control", controlPart)
	timed("timing-tail", wg.Wait)
	timed("server-udp", serverUDPPart)
	timed("client-udp", clientUDPPart)
	run.Extra("part_wall_s", walls)

	run.ReportRaces()
	run.Exhaustive(false)
	run.Assume("loopback only: other sources are other addresses of 127.0.0.0/8, ::1 and other ports; a dual-stack server shows IPv4 peers in IPv4-mapped form")
	run.Assume("a second connection from the session's own address may drive a session that is not streaming over an interleaved connection (not asserted, only counted)")
	run.Assume("Stats() equality covers every exported field of SessionStats / SessionStatsMedia / SessionStatsFormat; outbound-only counters that moved are reported as drift, not as violation (the harness keeps both directions quiet and sets the report periods to 1 h)")
	run.Assume("timeout verdicts: scaled timers (2-3 s), bound = timeout + check period + 1.5 s, inconclusive when the scheduler canary was late by more than 250 ms")
	run.Finish(evals.Load(), "scenarios = server-side UDP victims {record, play} x {IPv4 server, dual-stack server} x negotiated peer {127.0.0.1, 127.0.0.5, ::1} x spoofer origin class {other IP same port, other IP other port, same IP other port, ::1 same port, IPv4 with the ports of an IPv6 peer} x media, client-side UDP victims {real server, scripted server} x AnyPortEnable {off, on} x origin class x media, timed cases {server record / play, client initial (auto, udp) / steady} x timeout, control attempts {8 session states} x {9 methods} x {other IP, other address family, same IP other connection, same IP connection owning a session}, plus concurrent intruder storms; distinct_nontrivial = distinct (part, configuration, origin class | state x method x origin) combinations that ran to a verdict")
}
