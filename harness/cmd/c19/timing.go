package main

import (
	"fmt"
	"math/rand"
	"net"
	"sync"
	"time"

	"github.com/bluenviron/gortsplib/v5/pkg/base"

	"verif/lib/rig"
)

// Timeouts: ignored traffic must not keep a session alive. Wall-clock verdicts with scaled
// timers, canary-guarded (approach of c02/timing.go): a late scheduler makes the attempt
// inconclusive, never a violation.

const (
	checkPeriod = 200 * time.Millisecond
	slack       = 1500 * time.Millisecond
	spoofEvery  = 100 * time.Millisecond
)

type timingCase struct {
	Name    string        `json:"name"` // server/record-udp | server/play-udp | client/...
	Timeout time.Duration `json:"timeout"`
	Seed    int64         `json:"seed"`
}

func lateCanary(since time.Time) bool { return canary.WorstSince(since) > 250*time.Millisecond }

// spoofLoop lets every spoofer send one RTP and one RTCP datagram per period until stop is
// closed; returns the number sent.
func spoofLoop(sps []*spoofer, dst func(sp *spoofer) (rtpDst, rtcpDst *net.UDPAddr), forgeRTP, forgeRTCP func(sp *spoofer, k int) []byte, stop <-chan struct{}, role string) *sync.WaitGroup {
	var wg sync.WaitGroup
	wg.Add(1)
	go func() {
		defer wg.Done()
		k := 0
		for {
			select {
			case <-stop:
				return
			case <-time.After(spoofEvery):
			}
			for _, sp := range sps {
				a, b := dst(sp)
				if a == nil {
					continue
				}
				if _, err := sp.rtp.WriteToUDP(forgeRTP(sp, k), a); err == nil {
					run.Count("spoofed-datagrams:"+role+":timing:"+classNames[sp.Class], 1)
				}
				if _, err := sp.rtcp.WriteToUDP(forgeRTCP(sp, k), b); err == nil {
					run.Count("spoofed-datagrams:"+role+":timing:"+classNames[sp.Class], 1)
				}
			}
			k++
		}
	}()
	return &wg
}

// serverTimingAttempt: false = inconclusive attempt.
func serverTimingAttempt(ts *rig.TestServer, c timingCase) bool {
	evals.Add(1)
	r := rand.New(rand.NewSource(c.Seed))
	wit := map[string]any{"part": "timing", "timing": c}
	mode := "record"
	if c.Name == "server/play-udp" {
		mode = "play"
	}
	path := newPath("tpub")
	if mode == "play" {
		path = newPath("ts")
		st := newStream(ts, path)
		defer st.Close()
	}
	v, err := negotiate(ts, "127.0.0.1", path, "udp", mode, 2)
	if err != nil {
		run.Violation("server-udp/negotiation-failed", "[timing] "+err.Error(), wit)
		return true
	}
	defer v.close()
	defer forget(v.rec.owner)
	v.rec.sink.setWitness(wit)
	start := time.Now()
	lastLegit := start

	// live phase (record): the negotiated peer keeps the session alive with the very kind of
	// traffic the spoofers will send afterwards, so that "ignored" is the only difference
	if mode == "record" {
		for time.Since(start) < c.Timeout*3/2 {
			t0 := time.Now()
			for m := 0; m < 2; m++ {
				_ = v.sendLegitRTP(m, r)
				_ = v.sendLegitRTCP(m)
			}
			lastLegit = time.Now()
			if v.rec.isClosed() {
				break
			}
			time.Sleep(4*spoofEvery - time.Since(t0))
		}
		if v.rec.isClosed() {
			// a live peer expired: C02's business (or a late scheduler), not decidable here
			run.Count("timing:live-phase-closed", 1)
			return false
		}
		run.Count("timing:live-phases-held", 1)
	}

	// silent phase: only spoofers (and, for play, an intruder's keep-alives from another IP)
	var sps []*spoofer
	for m := 0; m < 2; m++ {
		sps = append(sps, openSpoofers("127.0.0.1", v.cp[m], v.cpc[m], false, otherIPs(r, 2, "127.0.0.1"))...)
	}
	defer func() {
		for _, sp := range sps {
			sp.close()
		}
	}()
	stop := make(chan struct{})
	mediaOf := map[*spoofer]int{}
	for i, sp := range sps {
		mediaOf[sp] = i * 2 / len(sps)
	}
	wg := spoofLoop(sps,
		func(*spoofer) (*net.UDPAddr, *net.UDPAddr) { return v.srvAddr(0), v.srvAddr(1) },
		func(sp *spoofer, k int) []byte { return v.rtpBytes(mediaOf[sp], sp.Class, k, r) },
		func(sp *spoofer, k int) []byte {
			if mode == "record" {
				return senderReport(v.ssrc[mediaOf[sp]], sp.Class, uint32(k))
			}
			return receiverReport(v.srvSSRC[mediaOf[sp]], sp.Class, uint32(k))
		}, stop, "server")
	var kwg sync.WaitGroup
	if mode == "play" {
		kwg.Add(1)
		go func() { // stolen-session keep-alives from another address
			defer kwg.Done()
			for {
				select {
				case <-stop:
					return
				case <-time.After(4 * spoofEvery):
				}
				p, err := rig.Dial(hostPort(ts, "127.0.0.3"), nil, "127.0.0.3")
				if err != nil {
					continue
				}
				req := p.Request(base.GetParameter, v.url(), base.Header{"Session": base.HeaderValue{v.sessID}}, nil)
				if res, err := p.Do(req, 2*time.Second); err == nil {
					run.Count(fmt.Sprintf("timing:intruder-keepalive-status-%d", res.StatusCode), 1)
				}
				p.Close()
			}
		}()
	}
	bound := c.Timeout + checkPeriod + slack
	for !v.rec.isClosed() && time.Since(lastLegit) < bound+2*time.Second {
		time.Sleep(5 * time.Millisecond)
	}
	took := time.Since(lastLegit)
	closed := v.rec.isClosed()
	close(stop)
	wg.Wait()
	kwg.Wait()
	if !closed || took > bound {
		if lateCanary(start) {
			return false
		}
		run.Violation("server-udp/spoofer-kept-session-alive",
			fmt.Sprintf("%s (timeout %v): the negotiated peer has been silent for %v (bound %v) while only spoofers%s kept sending valid RTP / RTCP; the session is still open", c.Name, c.Timeout, took.Round(time.Millisecond), bound,
				map[bool]string{true: " and an intruder presenting the session id from another address", false: ""}[mode == "play"]), wit)
		return true
	}
	run.Count("timing:silent-victims-expired", 1)
	run.Max("timing-expiry-ms:"+c.Name, took.Milliseconds())
	run.Distinct(fmt.Sprintf("timing|%s|%v", c.Name, c.Timeout))
	return true
}

func timingPart() {
	touts := []time.Duration{3 * time.Second}
	if !run.Quick() {
		touts = []time.Duration{2 * time.Second, 3 * time.Second}
	}
	rs := run.Rand("timing", 0)
	var wg sync.WaitGroup
	attempt := func(c timingCase, f func(timingCase) bool) {
		wg.Add(1)
		go func() {
			defer wg.Done()
			for a := 0; a < 3; a++ {
				if f(c) {
					return
				}
			}
			run.Inconclusive("timing/" + c.Name)
		}()
	}
	for _, t := range touts {
		ts, err := rig.StartServer(rig.ServerOpts{UDP: true, HandlerSet: "full", NoLog: true, OnEvent: onEvent, NoStream: true,
			ReadTimeout: t, IdleTimeout: t, CheckStreamPeriod: checkPeriod, SenderReportPeriod: time.Hour, ReceiverReportPeriod: time.Hour})
		if err != nil {
			run.Fatal("timing server: %v", err)
		}
		for _, n := range []string{"server/record-udp", "server/play-udp"} {
			c := timingCase{Name: n, Timeout: t, Seed: rs.Int63()}
			attempt(c, func(c timingCase) bool { return serverTimingAttempt(ts, c) })
		}
		for _, n := range []string{"client/initial-auto", "client/initial-udp", "client/steady-udp"} {
			c := timingCase{Name: n, Timeout: t, Seed: rs.Int63()}
			attempt(c, clientTimingAttempt)
		}
		defer ts.Close()
	}
	wg.Wait()
}
