// C06: packetizers respect the payload size limit and number packets gaplessly.
//
// Monitor: direct assertions on the packets returned by the real encoders over series of 1..8
// Encode calls per encoder instance:
//   - len(Payload) <= PayloadMaxSize for every encoder that splits frames (all but rtpsimpleaudio,
//     which by contract sends one packet per frame);
//   - payload type = configured (or the format's static type), SSRC = configured;
//   - sequence numbers: first = InitialSequenceNumber, then +1 mod 2^16 across all calls;
//   - marker on the last packet of every Encode call for the formats that use the marker as
//     end-of-frame flag, and on no other packet for video formats;
//   - inputs untouched: every unit lives in its own arena between two 64-byte guards, its spare
//     capacity reaching into the rear guard, the unit list has spare capacity too; bytes, guards,
//     slice headers and the spare entries are compared after every Encode and at the end of the series.
package main

import (
	"bytes"
	"fmt"
	"runtime/debug"
	"sort"
	"sync"
	"sync/atomic"
	"unsafe"

	"github.com/pion/rtp"

	"verif/lib/codecs"
	"verif/lib/vlib"
)

type witness struct {
	Format      string        `json:"format"`
	Params      codecs.Params `json:"params"`
	Max         int           `json:"max_payload"`
	// DefaultMax: the encoder is left at its default limit (PayloadMaxSize unset); Max holds the
	// documented default the packets are judged against
	DefaultMax bool `json:"default_max,omitempty"`
	Frames      [][]int       `json:"frames"` // unit sizes of each Encode call
	SeqStart    uint16        `json:"seq_start"`
	SSRC        uint32        `json:"ssrc"`
	PT          uint8         `json:"payload_type"`
	ContentSeed uint64        `json:"content_seed"`
	// diagnostics (ignored by replay)
	Call    int    `json:"failing_call,omitempty"`
	Packet  int    `json:"failing_packet,omitempty"`
	Actual  []int  `json:"actual_unit_sizes,omitempty"`
	Payload []int  `json:"packet_payload_sizes,omitempty"`
	Marks   []bool `json:"packet_markers,omitempty"`
	Seqs    []int  `json:"packet_sequence_numbers,omitempty"`
	Detail  string `json:"detail,omitempty"`
	Stack   string `json:"stack,omitempty"`
}

var (
	run   *vlib.Run
	evals atomic.Int64

	maxMu      sync.Mutex
	maxPayload = map[string]map[int]int{} // format/params -> limit -> largest payload seen
)

type stats struct {
	c      map[string]int64
	shapes map[uint64]struct{}
	tuples map[uint64]struct{}
	label  string
	maxPl  int
}

func newStats(label string) *stats {
	return &stats{c: map[string]int64{}, shapes: map[uint64]struct{}{}, tuples: map[uint64]struct{}{}, label: label}
}

func (s *stats) flush(key string, m int) {
	for k, v := range s.c {
		run.Count(k, v)
	}
	for h := range s.shapes {
		run.DistinctHash(h)
	}
	run.Count("distinct-tuples:"+s.label, int64(len(s.tuples)))
	run.Count("distinct-tuples", int64(len(s.tuples)))
	if key != "" && s.maxPl > 0 {
		maxMu.Lock()
		if maxPayload[key] == nil {
			maxPayload[key] = map[int]int{}
		}
		if s.maxPl > maxPayload[key][m] {
			maxPayload[key][m] = s.maxPl
		}
		maxMu.Unlock()
	}
}

func hashInts(h uint64, vs ...int) uint64 {
	for _, v := range vs {
		h = (h ^ uint64(v)) * 0x100000001b3
		h ^= h >> 29
	}
	return h
}

func hashStr(s string) uint64 {
	h := uint64(0xcbf29ce484222325)
	for i := 0; i < len(s); i++ {
		h = (h ^ uint64(s[i])) * 0x100000001b3
	}
	return h
}

const guard = 64

// guarded is one Encode input: every unit inside its own arena [guard | unit | guard], the unit's
// capacity extending over the rear guard; the unit list has 4 spare (nil) entries.
type guarded struct {
	ref    [][]byte // pristine copy of the content
	arenas [][]byte
	frame  [][]byte // what the encoder gets
	hdrs   [][2]uintptr
}

func guardFrame(fr [][]byte) *guarded {
	g := &guarded{ref: fr}
	g.frame = make([][]byte, len(fr), len(fr)+4)
	for i, u := range fr {
		a := make([]byte, guard+len(u)+guard)
		for k := 0; k < guard; k++ {
			a[k], a[guard+len(u)+k] = 0xA5, 0x5A
		}
		copy(a[guard:], u)
		g.arenas = append(g.arenas, a)
		g.frame[i] = a[guard : guard+len(u)] // cap reaches to the end of the rear guard
		g.hdrs = append(g.hdrs, [2]uintptr{uintptr(unsafe.Pointer(unsafe.SliceData(g.frame[i]))), uintptr(len(u))})
	}
	return g
}

// check returns "" or the kind of modification.
func (g *guarded) check() string {
	full := g.frame[:cap(g.frame)]
	for i := len(g.ref); i < len(full); i++ {
		if full[i] != nil {
			return "input-list-appended"
		}
	}
	for i, u := range g.ref {
		a := g.arenas[i]
		f := g.frame[i]
		if uintptr(unsafe.Pointer(unsafe.SliceData(f))) != g.hdrs[i][0] || uintptr(len(f)) != g.hdrs[i][1] {
			return "input-list-reordered"
		}
		if !bytes.Equal(a[guard:guard+len(u)], u) {
			return "input-modified"
		}
		for k := 0; k < guard; k++ {
			if a[k] != 0xA5 || a[guard+len(u)+k] != 0x5A {
				return "input-guard-overwritten"
			}
		}
	}
	return ""
}

// confMax is the PayloadMaxSize the encoder is configured with (0 = left at its default).
func (w *witness) confMax() int {
	if w.DefaultMax {
		return 0
	}
	return w.Max
}

// defaultLimit is the documented default payload limit of a format's encoder.
func defaultLimit(name string) int {
	if name == "rtpmpegts" {
		return 1316 // 7 x 188
	}
	return 1450
}

type failure struct {
	key, what string
	w         witness
}

func runCase(f *codecs.Format, w *witness, st *stats) {
	fl := tryCase(f, w, st)
	if fl == nil {
		return
	}
	// try to reduce the witness to the failing call alone (same key), keeping the sequence position
	if len(w.Frames) > 1 && fl.w.Call < len(w.Frames) {
		w1 := *w
		w1.Frames = [][]int{w.Frames[fl.w.Call]}
		if f1 := tryCase(f, &w1, newStats(f.Name)); f1 != nil && f1.key == fl.key {
			fl = f1
		}
	}
	run.Violation(fl.key, fl.what, fl.w)
}

func tryCase(f *codecs.Format, w *witness, st *stats) (res *failure) {
	p := w.Params
	ci, pi := 0, -1
	var pkts []*rtp.Packet
	var cur *guarded
	fail := func(class, what string) {
		ww := *w
		ww.Call, ww.Packet, ww.Detail = ci, pi, what
		if cur != nil {
			ww.Actual = codecs.Sizes(cur.ref)
		}
		for _, pk := range pkts {
			ww.Payload = append(ww.Payload, len(pk.Payload))
			ww.Marks = append(ww.Marks, pk.Marker)
			ww.Seqs = append(ww.Seqs, int(pk.SequenceNumber))
		}
		if res == nil {
			res = &failure{f.Name + "/" + class, fmt.Sprintf("%s (limit %d, params %s): %s", f.Name, w.Max, p.Label, what), ww}
		}
	}
	defer func() {
		if v := recover(); v != nil {
			stk := vlib.Stack()
			fail("panic/"+vlib.PanicSite(stk), fmt.Sprintf("Encode panics on a valid frame: %v", v))
			res.w.Stack = stk
		}
	}()
	enc, err := f.NewEncoder(p, codecs.EncConf{PayloadMaxSize: w.confMax(), SSRC: w.SSRC, InitialSequenceNumber: w.SeqStart, PayloadType: w.PT})
	if err != nil {
		fail("encoder-init-error", err.Error())
		return
	}
	wantPT := w.PT
	if f.FixedPT >= 0 {
		wantPT = uint8(f.FixedPT)
	}
	r := codecs.NewRand(w.ContentSeed)
	seq := w.SeqStart
	var inputs []*guarded
	for ci = 0; ci < len(w.Frames); ci++ {
		pi = -1
		cur = guardFrame(f.Gen(r, p, w.Frames[ci], uint64(ci+1)))
		inputs = append(inputs, cur)
		pkts, err = enc(cur.frame)
		evals.Add(1)
		st.c["encode-calls:"+f.Name]++
		if err != nil {
			fail("encode-error", "Encode of a valid frame fails: "+err.Error())
			return
		}
		if len(pkts) == 0 {
			fail("no-packets", "Encode of a valid frame returns no packets")
			return
		}
		nUnits := len(cur.ref)
		if f.Blob && f.Multi(p) {
			nUnits = len(w.Frames[ci])
		}
		class := "single"
		switch {
		case len(pkts) > 1 && nUnits > 1:
			class = "mixed"
		case len(pkts) > 1:
			class = "fragmented"
		case nUnits > 1:
			class = "aggregated"
		}
		st.c["class:"+class+":"+f.Name]++
		if class != "single" {
			h := hashInts(hashStr(f.Name+"|"+p.Label), w.Max)
			st.shapes[hashInts(hashStr(class)^h, nUnits, len(pkts))] = struct{}{}
			st.tuples[hashInts(h, w.Frames[ci]...)] = struct{}{}
		}
		if len(pkts) > 1 && uint16(seq+uint16(len(pkts)-1)) < seq {
			st.c["seq-wrap-inside-frame:"+f.Name]++
		}
		last := len(pkts) - 1
		for pi = 0; pi <= last; pi++ {
			pk := pkts[pi]
			st.c["packets:"+f.Name]++
			if n := len(pk.Payload); f.LimitBound {
				if n > w.Max {
					fail("payload-over-limit", fmt.Sprintf("packet %d/%d of call %d has a %d-byte payload, limit %d (unit sizes %v)",
						pi+1, len(pkts), ci+1, n, w.Max, codecs.Sizes(cur.ref)))
				}
				st.maxPl = max(st.maxPl, n)
			}
			if pk.PayloadType != wantPT {
				fail("wrong-pt", fmt.Sprintf("payload type %d, expected %d", pk.PayloadType, wantPT))
			}
			if pk.SSRC != w.SSRC {
				fail("wrong-ssrc", fmt.Sprintf("SSRC %#x, configured %#x", pk.SSRC, w.SSRC))
			}
			if pk.SequenceNumber != seq {
				cls := "seq-gap"
				if ci == 0 && pi == 0 {
					cls = "seq-start"
				}
				fail(cls, fmt.Sprintf("packet %d/%d of call %d has sequence number %d, expected %d (initial %d)",
					pi+1, len(pkts), ci+1, pk.SequenceNumber, seq, w.SeqStart))
				seq = pk.SequenceNumber // report once
			}
			seq++
			if f.MarkerEndsFrame {
				if pi == last && !pk.Marker {
					fail("marker-missing", fmt.Sprintf("the last packet (%d) of call %d has no marker", pi+1, ci+1))
				}
				if pi < last && pk.Marker && f.Video {
					fail("marker-misplaced", fmt.Sprintf("packet %d of %d of call %d (not the last) has the marker set", pi+1, len(pkts), ci+1))
				}
			}
			if res != nil {
				return
			}
		}
		pi = -1
		if m := cur.check(); m != "" {
			fail(m, fmt.Sprintf("Encode call %d changed its input (%s)", ci+1, m))
			return
		}
	}
	// later calls must not have touched earlier inputs either
	for i, g := range inputs {
		if m := g.check(); m != "" {
			ci = i
			cur = g
			fail(m, fmt.Sprintf("the input of Encode call %d was changed by a later call (%s)", i+1, m))
			return
		}
	}
	st.c["series:"+f.Name]++
	if len(w.Frames) > 2 && w.Max >= 16 && w.ContentSeed%89 == 0 && run.WantSample() {
		ws := *w
		ws.Frames = append([][]int(nil), w.Frames...)
		run.Sample(ws)
	}
	return nil
}

// packetCounts encodes the series with a throw-away encoder and returns the packets per call.
func packetCounts(f *codecs.Format, w *witness) (out []int) {
	defer func() { _ = recover() }()
	enc, err := f.NewEncoder(w.Params, codecs.EncConf{PayloadMaxSize: w.confMax(), SSRC: 1, InitialSequenceNumber: 0, PayloadType: 96})
	if err != nil {
		return nil
	}
	r := codecs.NewRand(w.ContentSeed)
	for ci := range w.Frames {
		pkts, err := enc(f.Gen(r, w.Params, w.Frames[ci], uint64(ci+1)))
		if err != nil {
			return out
		}
		out = append(out, len(pkts))
	}
	return out
}

// wrapInside picks an initial sequence number such that 65535 -> 0 falls between two packets of
// the call with the most packets (if any call has more than one).
func wrapInside(f *codecs.Format, w *witness, n int) uint16 {
	cnt := packetCounts(f, w)
	best, prefix, bp := -1, 0, 0
	for i, c := range cnt {
		if c > 1 && (best < 0 || c > cnt[best]) {
			best, bp = i, prefix
		}
		prefix += c
	}
	if best < 0 {
		return 65535
	}
	j := 1 + n%(cnt[best]-1) // packets of that call sent before the wrap
	return uint16(65536 - (bp+j)%65536)
}

var (
	ssrcs = [...]uint32{0, 1, 0xFFFFFFFF, 0x9dbb7812}
	pts   = [...]uint8{96, 0, 127, 97, 111}
)

type job struct {
	f *codecs.Format
	p codecs.Params
	m int
	def bool // encoder left at its default limit (m = the documented default)
}

func main() {
	run = vlib.Start("C06", "exploration")
	debug.SetGCPercent(400)
	if run.Replay != "" {
		var w witness
		if err := run.LoadReplay(&w); err != nil {
			run.Fatal("cannot load replay: %v", err)
		}
		f := codecs.ByName(w.Format)
		if f == nil {
			run.Fatal("unknown format %q", w.Format)
		}
		runCase(f, &w, newStats(f.Name))
		run.Finish(evals.Load(), "replay")
	}
	depth := codecs.QuickDepth
	if !run.Quick() {
		depth = codecs.ThoroughDepth
	}
	var jobs []job
	for _, f := range codecs.All() {
		for _, p := range f.Params {
			for _, m := range f.Limits(p) {
				jobs = append(jobs, job{f, p, m, false})
			}
			// the same sweep with the encoder left at its default limit
			if d := defaultLimit(f.Name); d >= f.MinLimit(p) {
				jobs = append(jobs, job{f, p, d, true})
			}
		}
	}
	sort.SliceStable(jobs, func(i, j int) bool { return jobs[i].m < jobs[j].m })

	// 1. systematic part: the C03 sweep plus units exceeding / equal / nearly equal to the limit,
	// chained into series of 1..8 Encode calls; initial sequence numbers, SSRCs, payload types rotate
	run.Parallel(len(jobs), func(_, i int) {
		j := jobs[i]
		f, p, m := j.f, j.p, j.m
		st := newStats(f.Name)
		defer st.flush(f.Name+"/"+p.Label, m)
		pr := run.Rand("series/"+f.Name+"/"+p.Label, m)
		n := 0
		w := witness{Format: f.Name, Params: p, Max: m, DefaultMax: j.def}
		want := 1
		flushSeries := func() {
			if len(w.Frames) == 0 {
				return
			}
			w.ContentSeed = uint64(i)<<32 | uint64(n)
			w.SSRC = ssrcs[n%len(ssrcs)]
			if n%len(ssrcs) == 3 {
				w.SSRC = pr.Uint32()
			}
			w.PT = pts[n%len(pts)]
			switch n % 7 {
			case 0:
				w.SeqStart = 0
			case 1:
				w.SeqStart = 1
			case 2:
				w.SeqStart = 65534
			case 3:
				w.SeqStart = 65535
			case 4:
				w.SeqStart = uint16(pr.Intn(65536))
			case 5:
				w.SeqStart = uint16(65536 - 1 - pr.Intn(24))
			default:
				w.SeqStart = wrapInside(f, &w, n)
				st.c["wrap-inside-frame-starts:"+f.Name]++
			}
			runCase(f, &w, st)
			n++
			w.Frames = w.Frames[:0]
			want = 1 + n%8
		}
		emit := func(sizes []int) {
			w.Frames = append(w.Frames, append([]int(nil), sizes...))
			if len(w.Frames) >= want {
				flushSeries()
			}
		}
		f.Sweep(p, m, depth, emit)
		if f.FixedUnit == 0 {
			mn := f.Fit(p, 1)
			for _, u := range []int{m - 2, m - 1, m, m + 1, m + 2, 2*m - 1, 2 * m, 2*m + 1, 3 * m, 5*m + 1} {
				if u < 1 {
					continue
				}
				u = f.Fit(p, u)
				emit([]int{u})
				if f.Multi(p) {
					emit([]int{u, mn})
					emit([]int{mn, u})
					emit([]int{u, u})
					emit([]int{mn, u, mn})
				}
			}
		}
		flushSeries()
	}, func(i int, v any, stack string) {
		run.Violation(jobs[i].f.Name+"/panic/"+vlib.PanicSite(stack), fmt.Sprintf("panic: %v", v),
			witness{Format: jobs[i].f.Name, Params: jobs[i].p, Max: jobs[i].m, Stack: stack})
	})

	// 2. sampled part
	fs := codecs.All()
	nSer := run.Pick(5000, 500000)
	const shards = 16
	run.Parallel(len(fs)*shards, func(_, i int) {
		f := fs[i/shards]
		st := newStats(f.Name)
		defer st.flush("", 0)
		r := run.Rand("sample/"+f.Name, i%shards)
		for n := 0; n < nSer/shards; n++ {
			p := f.Params[r.Intn(len(f.Params))]
			ls := f.Limits(p)
			m := ls[r.Intn(len(ls))]
			if r.Intn(3) == 0 {
				m = f.MinLimit(p) + r.Intn(2001-min(f.MinLimit(p), 2000))
			}
			w := witness{Format: f.Name, Params: p, Max: m, ContentSeed: r.Uint64(), SSRC: r.Uint32(), PT: uint8(r.Intn(128))}
			if d := defaultLimit(f.Name); r.Intn(10) == 0 && d >= f.MinLimit(p) {
				w.Max, w.DefaultMax = d, true
			}
			for k := 1 + r.Intn(8); k > 0; k-- {
				w.Frames = append(w.Frames, f.SampleSizes(r, p, m))
			}
			switch r.Intn(4) {
			case 0:
				w.SeqStart = uint16(65536 - 1 - r.Intn(60))
			case 1:
				w.SeqStart = wrapInside(f, &w, r.Intn(1000))
			default:
				w.SeqStart = uint16(r.Intn(65536))
			}
			st.c["sampled-series:"+f.Name]++
			runCase(f, &w, st)
		}
	}, func(i int, v any, stack string) {
		run.Violation(fs[i/shards].Name+"/panic/"+vlib.PanicSite(stack), fmt.Sprintf("panic: %v", v), witness{Format: fs[i/shards].Name, Stack: stack})
	})

	// evidence: largest payload seen per (format/params, limit) and how often the limit is reached exactly
	mp := map[string][][2]int{}
	tight := 0
	for k, v := range maxPayload {
		var ms []int
		for m := range v {
			ms = append(ms, m)
		}
		sort.Ints(ms)
		for _, m := range ms {
			mp[k] = append(mp[k], [2]int{m, v[m]})
			if v[m] == m {
				tight++
			}
		}
	}
	run.Extra("max_payload_observed", mp)
	run.Extra("limits_reached_exactly", tight)
	bound, markerUsers, video := []string{}, []string{}, []string{}
	for _, f := range fs {
		if f.LimitBound {
			bound = append(bound, f.Name)
		}
		if f.MarkerEndsFrame {
			markerUsers = append(markerUsers, f.Name)
		}
		if f.Video {
			video = append(video, f.Name)
		}
	}
	run.Extra("size_limit_checked_for", bound)
	run.Extra("marker_on_last_packet_checked_for", markerUsers)
	run.Extra("marker_only_on_last_packet_checked_for", video)
	run.Extra("jobs", len(jobs))
	run.Assume("rtpsimpleaudio never splits a frame (one packet per frame by contract) and is therefore not bound by the size limit (the property binds encoders that fragment)")
	run.Assume("the marker clause is evaluated for the formats that use the marker bit as end-of-frame flag; LPCM/G711, simple audio and MPEG-TS never set it " +
		"(their RTP profiles give the marker another meaning: talkspurt start / discontinuity), so 'the packet that completes a frame' has no marker to carry there")
	run.Assume("valid frames as in C03 (grammars in evidence C03.coverage.grammars)")
	run.Finish(evals.Load(),
		"systematic: per format x parameter set x payload limit (explicit limits, and the encoder left at its default limit) the C03 size sweep plus units of limit-2..limit+2, 2 and 3 limits, alone and next to minimal units, "+
			"chained into series of 1..8 Encode calls; initial sequence numbers 0, 1, 65534, 65535, PRNG, near the wrap and computed so that the wrap falls inside "+
			"the call with most packets; SSRC 0, 1, 2^32-1, PRNG; several payload types; sampled: PRNG series. evaluations = Encode calls checked. "+
			"distinct_nontrivial = distinct (format, params, limit, units per call, packets per call, class) shapes with at least one aggregated or fragmented "+
			"packet; distinct (format, params, limit, size vector) tuples in counters[distinct-tuples]")
}
