package main

import (
	"bufio"
	"bytes"
	"encoding/binary"
	"encoding/json"
	"fmt"
	"io"
	"os"
	"os/exec"
	"path/filepath"
	"runtime"
	"strconv"
	"strings"
	"sync"
)

func writeHashes(path string, hs []uint64) {
	if path == "" {
		return
	}
	f, err := os.Create(path)
	if err != nil {
		run.Fatal("cannot write %s: %v", path, err)
	}
	w := bufio.NewWriterSize(f, 1<<20)
	var b [8]byte
	for _, h := range hs {
		binary.LittleEndian.PutUint64(b[:], h)
		_, _ = w.Write(b[:])
	}
	if err := w.Flush(); err != nil {
		run.Fatal("cannot write %s: %v", path, err)
	}
	_ = f.Close()
}

// childEvidence is what the parent reads back from a shard's evidence file.
type childEvidence struct {
	Coverage struct {
		Counters      map[string]int64 `json:"counters"`
		Maxima        map[string]int64 `json:"maxima"`
		Evaluations   int64            `json:"evaluations"`
		Samples       []any            `json:"samples"`
		KnownMatched  []string         `json:"known_findings_matched"`
		ViolationKeys []struct {
			Key    string `json:"key"`
			What   string `json:"what"`
			Count  int    `json:"count"`
			Replay string `json:"replay"`
		} `json:"violation_keys"`
	} `json:"coverage"`
}

// parent starts one single-P child process per core, then merges their counters, distinct-history
// hashes, samples and violations into this process' Run, which writes the evidence and the verdict.
func parent() {
	n := runtime.GOMAXPROCS(0)
	exe, err := os.Executable()
	if err != nil {
		run.Fatal("os.Executable: %v", err)
	}
	tmp, err := os.MkdirTemp("", "c14-shards-")
	if err != nil {
		run.Fatal("MkdirTemp: %v", err)
	}
	cleanup := func() { _ = os.RemoveAll(tmp) } // explicit: Finish / Fatal leave through os.Exit
	fatal := func(format string, a ...any) {
		cleanup()
		run.Fatal(format, a...)
	}
	type res struct {
		code int
		out  bytes.Buffer
	}
	results := make([]res, n)
	var wg sync.WaitGroup
	for i := 0; i < n; i++ {
		wg.Add(1)
		go func(i int) {
			defer wg.Done()
			cmd := exec.Command(exe, "-tier", run.Tier, "-seed", strconv.FormatInt(run.Seed, 10), "-root", run.Root,
				"-out", filepath.Join(tmp, fmt.Sprintf("ev-%d.json", i)), "-hashes", filepath.Join(tmp, fmt.Sprintf("h-%d.bin", i)),
				"-shard", strconv.Itoa(i), "-shards", strconv.Itoa(n))
			cmd.Env = append(os.Environ(), "GOMAXPROCS=1")
			cmd.Stdout = &results[i].out // VIOLATION / SUMMARY lines of the shards are not verdict lines of the check
			cmd.Stderr = os.Stderr       // a crash dump of a shard must reach the driver's log
			if err := cmd.Run(); err != nil {
				results[i].code = -1
				if ee, ok := err.(*exec.ExitError); ok {
					results[i].code = ee.ExitCode()
				}
			}
		}(i)
	}
	wg.Wait()

	var evaluations int64
	for i := range results {
		r := &results[i]
		b, err := os.ReadFile(filepath.Join(tmp, fmt.Sprintf("ev-%d.json", i)))
		if r.code != 0 && r.code != 1 || err != nil {
			// harness failure or death of a shard (an uncaught panic / fatal error in library code is on stderr,
			// where the driver classifies it)
			fmt.Printf("shard %d: exit code %d\n%s\n", i, r.code, r.out.String())
			fatal("shard %d of %d exited with code %d", i, n, r.code)
		}
		var ev childEvidence
		dec := json.NewDecoder(bytes.NewReader(b))
		dec.UseNumber() // samples carry 64-bit seeds
		if err := dec.Decode(&ev); err != nil {
			fatal("shard %d: bad evidence: %v", i, err)
		}
		evaluations += ev.Coverage.Evaluations
		for k, v := range ev.Coverage.Counters {
			if why, ok := strings.CutPrefix(k, "inconclusive:"); ok {
				for ; v > 0; v-- {
					run.Inconclusive(why)
				}
				continue
			}
			run.Count(k, v)
		}
		for k, v := range ev.Coverage.Maxima {
			run.Max(k, v)
		}
		for _, s := range ev.Coverage.Samples {
			if i%4 == 0 && run.WantSample() { // samples from different parts of the start-value range
				run.Sample(s)
				break
			}
		}
		for _, k := range ev.Coverage.KnownMatched {
			if j := strings.LastIndex(k, " x"); j > 0 {
				k = k[:j]
			}
			run.Violation(k, "", nil)
		}
		for _, v := range ev.Coverage.ViolationKeys {
			var wit struct {
				Case json.RawMessage `json:"case"`
			}
			if wb, err := os.ReadFile(v.Replay); err == nil {
				_ = json.Unmarshal(wb, &wit)
			}
			for c := 0; c < max(1, min(v.Count, 1_000_000)); c++ {
				run.Violation(v.Key, v.What, wit.Case)
			}
		}
		f, err := os.Open(filepath.Join(tmp, fmt.Sprintf("h-%d.bin", i)))
		if err != nil {
			if r.code == 0 {
				fatal("shard %d: no hash file: %v", i, err)
			}
			continue // a shard that aborted on a hang does not write one
		}
		rd := bufio.NewReaderSize(f, 1<<20)
		var hb [8]byte
		for {
			if _, err := io.ReadFull(rd, hb[:]); err != nil {
				break
			}
			run.DistinctHash(binary.LittleEndian.Uint64(hb[:]))
		}
		_ = f.Close()
	}

	cleanup()

	nCov := run.Get("start-values-covered")
	run.Extra("start_values_covered", nCov)
	run.Extra("buffer_sizes", bufSizes)
	run.Extra("buffer_sizes_per_start_value", run.Pick(3, len(bufSizes)))
	run.Extra("shards", fmt.Sprintf("%d child processes with GOMAXPROCS=1", n))
	run.Extra("exhaustive_subspace", "start sequence number: all 65536 values, each with the complete plan battery for its buffer sizes")
	run.Exhaustive(nCov == 65536)
	if run.Violations() == 0 && (run.Get("no-drop-histories") == 0 || run.Get("restarts-followed") == 0 || run.Get("reports-compared") == 0 ||
		run.Get("calls-reporting-loss") == 0 || run.Get("wraps-crossed") == 0 || nCov != 65536) {
		run.Fatal("a monitor clause observed nothing (no-drop=%d restarts=%d reports=%d loss=%d wraps=%d starts=%d)", run.Get("no-drop-histories"),
			run.Get("restarts-followed"), run.Get("reports-compared"), run.Get("calls-reporting-loss"), run.Get("wraps-crossed"), nCov)
	}
	run.Assume("no-drop clause: packets whose sequence number precedes the very first arrival are outside the claim (the receiver cannot know of them)")
	run.Assume("no-drop clause is asserted only in displacement-only histories (one packet moved by d < BufferSize with >= 2*BufferSize in-order packets on both sides, or all displacements <= d with 2d < BufferSize); eligibility is computed from the arrival sequence")
	run.Assume("a detected restart = the arriving packet delivered alone as the (BufferSize+1)-th consecutive arrival that is not ahead of the last delivery; forward distance exactly 32768 is accepted both as ahead and as behind")
	run.Assume("extended highest sequence number: wraps are counted over forward deliveries; a restart delivery (or, in reliable mode, a backward step) may or may not be counted as a cycle")
	run.Assume("fraction lost is not compared for a report interval with more than 2^24-1 losses (reachable only in reliable mode with repeated / decreasing sequence numbers)")
	run.Assume("buffer sizes are powers of two 1..512; OnPacketsLost integration is checked by C01")
	run.Finish(evaluations,
		"systematic: every start sequence number 0..65535 x buffer sizes x a battery of plans (in order, single packet moved later/earlier by d, late by B-1/B/B+1, "+
			"loss bursts 1..B+2 with and without flush, duplicates near/far/of a buffered packet/scattered/runs of B..2B+3, restarts of 10 kinds incl. start-1 and start+32768+-1 and mid-hole, "+
			"bounded shuffles, PRNG mixes, reliable mode with gaps / arbitrary / decreasing numbers) whose parameters rotate with the start value; two-wrap in-order runs; PRNG-sampled mixes. "+
			"distinct_nontrivial = distinct (mode, buffer size, start, plan, parameters) histories that delivered >= 2 packets and contain a fault or a wrap")
}
