// C14: RTP receiver - ordered, de-duplicated delivery and exact loss accounting.
//
// The real rtpreceiver.Receiver is fed arrival histories (an ordered stream disturbed by bounded
// displacement, loss bursts, duplication and sender restarts) and an invariant monitor relates
// everything that comes out of ProcessPacket2 / Stats() / the receiver report (VerifReport hook) to
// the whole input history. The monitor does not re-implement the reorder algorithm: it only knows
// what was fed in and what was delivered so far.
//
// Monitor (see DESIGN.md C14, **O**):
//   - delivered packets are inputs (pointer-identical), each at most once
//   - unreliable mode: every delivery is ahead of the previous one (forward distance 1..32767 mod
//     2^16; the antipode 32768 is accepted either way), except a "detected restart": the arriving
//     packet itself, delivered alone, as the (BufferSize+1)-th consecutive arrival that is not
//     ahead of the last delivery
//   - the lost count returned by a call == sequence numbers skipped between the consecutive
//     deliveries of that call (restart deliveries: 0)
//   - Stats().Received / .Lost / .LastSequenceNumber and the report (extended highest sequence
//     number, cumulative lost, fraction lost) agree with the delivery history
//   - restart clause: BufferSize+1 consecutive not-ahead arrivals => the last one is delivered
//   - no-drop clause, ONLY in displacement-only histories (a permutation of a gap-free stream in
//     which either one packet is moved by d < BufferSize with >= 2*BufferSize in-order packets on
//     both sides, or every packet is displaced by at most d with 2d < BufferSize): every packet
//     not preceding the first arrival is delivered, and no loss is ever reported. Eligibility is
//     decided from the arrival sequence itself, not from the plan name.
package main

import (
	"flag"
	"fmt"
	"sync/atomic"
	"time"

	"github.com/pion/rtcp"
	"github.com/pion/rtp"

	"github.com/bluenviron/gortsplib/v5/pkg/rtpreceiver"

	"verif/lib/vlib"
)

var bufSizes = []int{1, 2, 4, 8, 16, 32, 64, 128, 256, 512}

// ---------------------------------------------------------------------------------------------
// small deterministic PRNG (splitmix64): seeding a math/rand source per history would dominate
// the cost of a 200-packet history.

type rng uint64

func (r *rng) next() uint64 {
	*r += 0x9E3779B97F4A7C15
	z := uint64(*r)
	z = (z ^ (z >> 30)) * 0xBF58476D1CE4E5B9
	z = (z ^ (z >> 27)) * 0x94D049BB133111EB
	return z ^ (z >> 31)
}

func (r *rng) intn(n int) int {
	if n <= 1 {
		return 0
	}
	return int(r.next() % uint64(n))
}

func mix(vs ...uint64) uint64 {
	h := uint64(0x243F6A8885A308D3)
	for _, v := range vs {
		r := rng(h ^ v) // the (non-linear) output is chained, not the additive state
		h = r.next()
	}
	return h
}

func strHash(s string) uint64 {
	h := uint64(14695981039346656037)
	for i := 0; i < len(s); i++ {
		h = (h ^ uint64(s[i])) * 1099511628211
	}
	return h
}

// ---------------------------------------------------------------------------------------------
// history description = witness

type spec struct {
	Mode  string `json:"mode"` // "unreliable" | "reliable"
	B     int    `json:"buffer_size"`
	Start uint16 `json:"start_seq"`
	Plan  string `json:"plan"`
	P1    int    `json:"p1"`
	P2    int    `json:"p2"`
	RSeed uint64 `json:"rseed"` // seeds the plan's own PRNG and the choice of check points
	// explicit arrival sequence: offsets relative to start_seq (seq = start_seq + offset mod 2^16).
	// When present (replay of a short history) it takes precedence over the plan.
	Offsets  []int64  `json:"arrival_offsets,omitempty"`
	Arrivals []uint16 `json:"arrival_seqs,omitempty"` // informational (derived)
	At       int      `json:"violation_at_arrival,omitempty"`
}

func (sp *spec) unreliable() bool { return sp.Mode == "unreliable" }

// build produces the arrival offsets of a plan into dst (reused between histories).
func build(sp *spec, dst []int64) []int64 {
	if sp.Offsets != nil {
		return append(dst[:0], sp.Offsets...)
	}
	o := dst[:0]
	r := rng(sp.RSeed)
	B := sp.B
	pad := func() int { return r.intn(8) }
	seq := func(from int64, n int) {
		for i := 0; i < n; i++ {
			o = append(o, from+int64(i))
		}
	}
	p1, p2 := sp.P1, sp.P2
	switch sp.Plan {
	case "inorder", "long": // p1 packets in order
		seq(0, p1)
	case "move-later", "late": // packet k arrives p1 positions late
		k := 2*B + pad()
		seq(0, k)
		seq(int64(k)+1, p1)
		o = append(o, int64(k))
		seq(int64(k+p1)+1, 2*B+pad())
	case "move-earlier": // packet k+p1 arrives p1 positions early
		k := 2*B + pad()
		seq(0, k)
		o = append(o, int64(k+p1))
		seq(int64(k), p1)
		seq(int64(k+p1)+1, 2*B+pad())
	case "burst": // p1 packets lost; p2=1: enough packets follow to force the flush, p2=0: fewer than B follow
		k := B + pad()
		seq(0, k)
		after := 2*B + 2 + pad()
		if p2 == 0 {
			after = r.intn(B)
		}
		seq(int64(k+p1), after)
	case "burst-late": // burst of p1 lost packets whose first packet shows up after p2 further packets
		k := B + pad()
		seq(0, k)
		seq(int64(k+p1), p2)
		o = append(o, int64(k))
		seq(int64(k+p1+p2), B+2+pad())
	case "dup-near": // p1 packets each immediately followed by a copy
		k := B + pad()
		seq(0, k)
		for i := 0; i < p1; i++ {
			o = append(o, int64(k+i), int64(k+i))
		}
		seq(int64(k+p1), B+pad())
	case "dup-far": // a copy of packet k-1 arrives after p1 further packets
		k := B + pad() + 1
		seq(0, k+p1)
		o = append(o, int64(k-1))
		seq(int64(k+p1), B+pad())
	case "dup-buffered": // hole at k, p1 (<B) packets wait in the buffer, one of them is duplicated, hole filled
		k := B + pad()
		seq(0, k)
		seq(int64(k)+1, p1)
		o = append(o, int64(k+1+r.intn(p1)))
		o = append(o, int64(k))
		seq(int64(k+1+p1), B+pad())
	case "dup-scattered": // p1 copies of old packets, never two in a row
		k := B + pad() + 1
		seq(0, k)
		for i := 0; i < p1; i++ {
			o = append(o, int64(k+i))
			o = append(o, int64(k+i-r.intn(k)))
		}
		seq(int64(k+p1), B+pad())
	case "dup-run": // p1 consecutive copies of old packets (B+1 of them are a detected restart); p2=0 same packet, 1 random old ones
		k := B + pad() + 1
		seq(0, k)
		for i := 0; i < p1; i++ {
			if p2 == 0 {
				o = append(o, int64(k-1))
			} else {
				o = append(o, int64(k-1-r.intn(k)))
			}
		}
		seq(int64(k), B+2+pad())
	case "restart": // p2 packets, then the sender jumps (kind p1) and continues in order
		k := p2
		seq(0, k)
		last := int64(k - 1)
		var t int64
		switch p1 {
		case 0:
			t = -int64(1 + r.intn(40000))
		case 1:
			t = -1 // start-1
		case 2:
			t = 32767 // start+32768-1
		case 3:
			t = 32768
		case 4:
			t = 32769
		case 5:
			t = last - int64(r.intn(B+2)) // a few packets back
		case 6:
			t = last + 32768 // antipode of the last packet
		case 7:
			t = last + 32769 // just behind the antipode
		case 8:
			t = last + 32767 // farthest point still ahead
		default:
			t = int64(r.intn(65536))
		}
		m := 2*B + 4 + pad()
		seq(t, m)
		if r.intn(2) == 0 { // a copy of an old packet right after the restart was followed
			o = append(o, t+int64(r.intn(m)))
			seq(t+int64(m), 3+pad())
		}
	case "restart-hole": // the sender restarts while p1 packets wait behind a hole
		k := B + pad()
		seq(0, k)
		seq(int64(k)+1, p1)
		t := int64(-1)
		if p2 == 0 {
			t = -int64(1 + r.intn(30000))
		}
		seq(t, 2*B+4+pad())
	case "shuffle": // every packet displaced by at most p1; p2=1: after an in-order prefix, 0: from the first packet
		prefix := 0
		if p2 == 1 {
			prefix = B + pad()
			seq(0, prefix)
		}
		n := 3*B + 16 + pad()
		base := len(o)
		seq(int64(prefix), n)
		boundedShuffle(o[base:], p1, &r)
		seq(int64(prefix+n), pad())
	case "mixed":
		o = mixed(o, B, &r)
	case "rel-forward": // reliable: increasing sequence numbers with gaps
		n := 64 + r.intn(200)
		off := int64(0)
		for i := 0; i < n; i++ {
			o = append(o, off)
			switch s := r.intn(10); {
			case s < 7:
				off++
			case s == 7:
				off += int64(2 + r.intn(B+2))
			case s == 8:
				off += int64(1 + r.intn(32767))
			default:
				off += int64(1 + r.intn(300))
			}
		}
	case "rel-arbitrary": // reliable: arbitrary sequence numbers
		n := 32 + r.intn(300)
		off := int64(0)
		for i := 0; i < n; i++ {
			o = append(o, off)
			switch r.intn(8) {
			case 0, 1, 2, 3:
				off++
			case 4: // same number again
			case 5:
				off -= int64(1 + r.intn(100))
			case 6:
				off = int64(r.intn(65536))
			default:
				off += int64(1 + r.intn(40000))
			}
		}
	case "rel-backsteps": // reliable: repeated / decreasing numbers, cumulative lost exceeds 2^24
		n := 300 + r.intn(100)
		off := int64(0)
		for i := 0; i < n; i++ {
			o = append(o, off)
			off -= int64(r.intn(2))
		}
	default:
		panic("harness: unknown plan " + sp.Plan)
	}
	return o
}

// boundedShuffle permutes a so that no element moves by more than d positions.
func boundedShuffle(a []int64, d int, r *rng) {
	if d <= 0 {
		return
	}
	if d <= 8 {
		// sort by key i + U[0,d] (stable): element i ends within [i-d, i+d]
		keys := make([]int64, len(a))
		for i := range a {
			keys[i] = int64(i + r.intn(d+1))
		}
		for i := 1; i < len(a); i++ {
			for j := i; j > 0 && keys[j-1] > keys[j]; j-- {
				keys[j-1], keys[j] = keys[j], keys[j-1]
				a[j-1], a[j] = a[j], a[j-1]
			}
		}
		return
	}
	// Fisher-Yates inside blocks of d+1 elements, first block of random length
	i := r.intn(d + 1)
	shuffle := func(s []int64) {
		for k := len(s) - 1; k > 0; k-- {
			j := r.intn(k + 1)
			s[k], s[j] = s[j], s[k]
		}
	}
	shuffle(a[:min(i, len(a))])
	for ; i < len(a); i += d + 1 {
		shuffle(a[i:min(i+d+1, len(a))])
	}
}

// mixed: ordered stream + restarts + loss bursts + single moves + local shuffle + duplicates.
func mixed(o []int64, B int, r *rng) []int64 {
	n0 := 2*B + 24 + r.intn(2*B+40)
	nres := 0
	if r.intn(3) == 0 {
		nres = 1 + r.intn(2)
	}
	var resAt [2]int
	for i := 0; i < nres; i++ {
		resAt[i] = 1 + r.intn(n0-1)
	}
	off := int64(0)
	for i := 0; i < n0; i++ {
		for k := 0; k < nres; k++ {
			if resAt[k] == i {
				switch r.intn(5) {
				case 0:
					off -= int64(1 + r.intn(40000))
				case 1:
					off -= int64(1 + r.intn(B+2))
				case 2:
					off = int64(r.intn(4)) - 2 // back to the start value
				case 3:
					off += int64(32760 + r.intn(16))
				default:
					off = int64(r.intn(65536))
				}
			}
		}
		o = append(o, off)
		off++
	}
	del := func(pos, ln int) {
		if pos+ln > len(o) {
			ln = len(o) - pos
		}
		o = append(o[:pos], o[pos+ln:]...)
	}
	ins := func(pos int, v int64) {
		o = append(o, 0)
		copy(o[pos+1:], o[pos:])
		o[pos] = v
	}
	for nb := r.intn(3); nb > 0 && len(o) > 4; nb-- { // loss bursts
		ln := 1 + r.intn(4)
		if r.intn(2) == 0 {
			ln = 1 + r.intn(B+2)
		}
		del(1+r.intn(len(o)-1), ln)
	}
	for nm := r.intn(4); nm > 0 && len(o) > 4; nm-- { // single packets moved
		i := r.intn(len(o))
		x := 1 + r.intn(2*B+1)
		if r.intn(2) == 0 {
			x = 1 + r.intn(B)
		}
		j := i + x
		if r.intn(2) == 0 {
			j = i - x
		}
		j = max(0, min(len(o)-1, j))
		v := o[i]
		del(i, 1)
		ins(j, v)
	}
	if r.intn(2) == 0 && len(o) > 8 { // local shuffle
		d := 1 + r.intn(min(B, 8))
		a := r.intn(len(o) - 4)
		b := min(len(o), a+4+r.intn(6*d+8))
		boundedShuffle(o[a:b], d, r)
	}
	for nd := r.intn(4); nd > 0 && len(o) > 0; nd-- { // duplicates
		i := r.intn(len(o))
		j := min(len(o), i+1+r.intn(3*B+2))
		ins(j, o[i])
	}
	return o
}

// noDropEligible decides from the arrival offsets alone whether the history is displacement-only
// in the sense of the no-drop clause. It returns the offset of the first arrival (packets with a
// smaller offset are outside the claim).
func noDropEligible(o []int64, B int, scratch *[]bool) (bool, int64) {
	n := len(o)
	if n == 0 {
		return false, 0
	}
	lo := o[0]
	for _, v := range o {
		if v < lo {
			lo = v
		}
	}
	if cap(*scratch) < n {
		*scratch = make([]bool, n)
	}
	seen := (*scratch)[:n]
	clear(seen)
	maxD := 0
	for i, v := range o {
		x := v - lo
		if x >= int64(n) || seen[x] {
			return false, 0 // loss, duplicate or restart
		}
		seen[x] = true
		d := i - int(x)
		if d < 0 {
			d = -d
		}
		if d > maxD {
			maxD = d
		}
	}
	if 2*maxD < B {
		return true, o[0] // (b) every displacement <= d, 2d < B (includes the undisturbed stream)
	}
	// (a) exactly one packet moved by d < B, >= 2B in-order packets before and after
	a, b := 0, n-1
	for a < n && o[a]-lo == int64(a) {
		a++
	}
	for b >= 0 && o[b]-lo == int64(b) {
		b--
	}
	d := b - a
	if a >= n || d < 1 || d >= B || a < 2*B || n-1-b < 2*B {
		return false, 0
	}
	later, earlier := o[b]-lo == int64(a), o[a]-lo == int64(b)
	for i := a; i < b && later; i++ {
		later = o[i]-lo == int64(i+1)
	}
	for i := a + 1; i <= b && earlier; i++ {
		earlier = o[i]-lo == int64(i-1)
	}
	return later || earlier, o[0]
}

// ---------------------------------------------------------------------------------------------
// worker state + monitor

type worker struct {
	pk      []rtp.Packet
	del     []bool
	offs    []int64
	scratch []bool
	stamp   [65536]uint32 // sequence number -> epoch in which it was last delivered
	epoch   uint32
	cnt     map[string]int64
	hashes  []uint64 // distinct non-trivial histories (hash of mode, buffer size, start, plan, parameters)
}

func newWorker() *worker { return &worker{cnt: map[string]int64{}} }

func (w *worker) flush() {
	for k, v := range w.cnt {
		run.Count(k, v)
	}
	clear(w.cnt)
}

var (
	run      *vlib.Run
	evals    atomic.Int64
	baseTime = time.Unix(1_700_000_000, 0)
)

const explicitLimit = 1200 // histories up to this length carry their arrival sequence in the witness

func (w *worker) violate(sp *spec, offs []int64, at int, key, what string) {
	wit := *sp
	wit.At = at
	if len(offs) <= explicitLimit {
		wit.Offsets = append([]int64{}, offs...)
		wit.Arrivals = make([]uint16, len(offs))
		for i, o := range offs {
			wit.Arrivals[i] = sp.Start + uint16(o)
		}
	}
	run.Violation(key, fmt.Sprintf("%s (mode=%s BufferSize=%d start=%d plan=%s(%d,%d), at arrival #%d)",
		what, sp.Mode, sp.B, sp.Start, sp.Plan, sp.P1, sp.P2, at), wit)
}

// runHistory feeds one history to a fresh Receiver and checks the invariants. It stops at the
// first violation of the history (the monitor state is not meaningful afterwards).
func (w *worker) runHistory(sp *spec) {
	w.offs = build(sp, w.offs)
	offs := w.offs
	n := len(offs)
	B := sp.B
	unrel := sp.unreliable()
	if cap(w.pk) < n {
		w.pk = make([]rtp.Packet, n+n/4)
		w.del = make([]bool, n+n/4)
	}
	pk, del := w.pk[:n], w.del[:n]
	clear(del)
	for i := range pk {
		pk[i].Version = 2
		pk[i].SSRC = 0xCAFE0001
		pk[i].SequenceNumber = sp.Start + uint16(offs[i])
		pk[i].Timestamp = uint32(i) // arrival index: lets the monitor map a delivered pointer back to its input
	}
	elig, firstOff := false, int64(0)
	if unrel {
		elig, firstOff = noDropEligible(offs, B, &w.scratch)
	}

	rr := &rtpreceiver.Receiver{
		ClockRate:            90000,
		LocalSSRC:            0x0BADBEEF,
		UnrealiableTransport: unrel,
		BufferSize:           B,
		Period:               24 * time.Hour, // the ticker never fires; reports are requested through VerifReport
		TimeNow:              func() time.Time { return baseTime },
		WritePacketRTCP:      func(rtcp.Packet) {},
	}
	if err := rr.Initialize(); err != nil {
		run.Fatal("Receiver.Initialize: %v", err)
	}
	defer rr.Close()

	w.epoch++
	var (
		haveL             bool
		L                 uint16
		negRun            int
		nDelivered        uint64
		sumLost           uint64 // sum of the lost values returned
		cycles            uint16 // wraps counted from the delivery history
		cycAmbig          uint16 // deliveries that were not forward steps (restart / reliable backward): wrap count ambiguous
		sinceRecv         uint64
		sinceLost         uint64
		wraps, flushes    int64
		restarts, reports int64
		statsChecks       int64
	)
	ck := rng(sp.RSeed ^ 0xC0FFEE1234)

	checkStats := func(at int) bool {
		st := rr.Stats()
		if !haveL {
			return true
		}
		statsChecks++
		switch {
		case st == nil:
			w.violate(sp, offs, at, "stats/nil", "Stats() is nil after packets were delivered")
		case st.Received != nDelivered:
			w.violate(sp, offs, at, "stats/Received", fmt.Sprintf("Stats().Received=%d but %d packets were delivered", st.Received, nDelivered))
		case st.Lost != sumLost:
			w.violate(sp, offs, at, "stats/Lost", fmt.Sprintf("Stats().Lost=%d but the lost counts returned add up to %d", st.Lost, sumLost))
		case st.LastSequenceNumber != L:
			w.violate(sp, offs, at, "stats/LastSequenceNumber", fmt.Sprintf("Stats().LastSequenceNumber=%d but the last delivered packet has %d", st.LastSequenceNumber, L))
		default:
			return true
		}
		return false
	}
	checkReport := func(at int) bool {
		p := rr.VerifReport()
		if !haveL {
			return true // nothing delivered yet: no claim
		}
		rep, _ := p.(*rtcp.ReceiverReport)
		if rep == nil || len(rep.Reports) != 1 {
			w.violate(sp, offs, at, "report/missing", "no receiver report with one reception report although packets were delivered")
			return false
		}
		reports++
		x := rep.Reports[0]
		hi, lo := uint16(x.LastSequenceNumber>>16), uint16(x.LastSequenceNumber)
		if lo != L || uint16(hi-cycles) > cycAmbig {
			w.violate(sp, offs, at, "report/extended-highest", fmt.Sprintf(
				"extended highest sequence number = %d cycles + %d, delivery history: %d wrap(s) (+%d ambiguous) and last delivered %d",
				hi, lo, cycles, cycAmbig, L))
			return false
		}
		cycles, cycAmbig = hi, 0
		if want := uint32(min(sumLost, 0xFFFFFF)); x.TotalLost != want {
			w.violate(sp, offs, at, "report/total-lost", fmt.Sprintf("report TotalLost=%d, history says %d", x.TotalLost, want))
			return false
		}
		if sinceLost <= 0xFFFFFF { // beyond 2^24-1 losses in one interval the field arithmetic saturates: outside the claim
			want := uint8(0)
			if sinceRecv+sinceLost != 0 {
				want = uint8(sinceLost * 256 / (sinceRecv + sinceLost))
			}
			if x.FractionLost != want {
				w.violate(sp, offs, at, "report/fraction-lost", fmt.Sprintf(
					"report FractionLost=%d, history since the previous report: %d lost / %d delivered => %d", x.FractionLost, sinceLost, sinceRecv, want))
				return false
			}
		} else {
			w.cnt["reports-fraction-not-compared(interval-lost>2^24)"]++
		}
		sinceRecv, sinceLost = 0, 0
		return true
	}

	ok := true
	fail := func(at int, key, what string) {
		w.violate(sp, offs, at, key, what)
		ok = false
	}
	for i := 0; i < n && ok; i++ {
		p := &pk[i]
		// classify the arrival against the last delivery (0 = ahead, 1 = antipode, 2 = not ahead)
		cls := 0
		if haveL {
			switch fd := p.SequenceNumber - L; {
			case fd == 32768:
				cls = 1
			case fd == 0 || fd > 32768:
				cls = 2
			}
		}
		pkts, lost := rr.ProcessPacket2(p, baseTime.Add(time.Duration(i)*time.Millisecond), true)
		if unrel && haveL {
			if cls == 2 || (cls == 1 && len(pkts) == 0) {
				negRun++
			} else {
				negRun = 0
			}
		}
		var wantLost uint64
		for j, q := range pkts {
			idx := -1
			if q != nil && int(q.Timestamp) < n && &pk[q.Timestamp] == q {
				idx = int(q.Timestamp)
			}
			if idx < 0 || idx > i {
				fail(i, sp.Mode+"/not-an-input", "a delivered packet is not (pointer-identical to) one of the packets fed so far")
				break
			}
			if del[idx] {
				fail(i, sp.Mode+"/duplicate-delivered", fmt.Sprintf("input #%d (seq %d) was delivered twice", idx, q.SequenceNumber))
				break
			}
			del[idx] = true
			if haveL {
				fd := q.SequenceNumber - L
				switch {
				case fd >= 1 && fd <= 32768: // forward step
					wantLost += uint64(fd - 1)
					if q.SequenceNumber < L {
						cycles++
						wraps++
					}
				case !unrel: // reliable: everything is passed on; the skipped count is taken mod 2^16
					wantLost += uint64(uint16(fd - 1))
					cycAmbig++
				case j == 0 && q == p && len(pkts) == 1 && negRun >= B+1: // detected restart
					restarts++
					cycAmbig++
					negRun = 0
					w.epoch++
				default:
					key, what := "unreliable/out-of-order", "delivered a packet that is behind the previously delivered one"
					if fd == 0 || w.stamp[q.SequenceNumber] == w.epoch {
						key, what = "unreliable/duplicate-delivered", "delivered a sequence number that had already been delivered"
					}
					fail(i, key, fmt.Sprintf("%s: seq %d after %d, %d consecutive not-ahead arrivals (restart needs %d)",
						what, q.SequenceNumber, L, negRun, B+1))
				}
				if !ok {
					break
				}
			}
			w.stamp[q.SequenceNumber] = w.epoch
			L, haveL = q.SequenceNumber, true
			nDelivered++
			sinceRecv++
		}
		if !ok {
			break
		}
		sumLost += lost
		sinceLost += lost
		if lost != wantLost {
			key := "lost-mismatch"
			if !unrel {
				key = "reliable/lost-mismatch"
			}
			fail(i, key, fmt.Sprintf("the call returned lost=%d, the sequence numbers skipped between the deliveries of this call are %d", lost, wantLost))
			break
		}
		if lost > 0 {
			flushes++
			if elig {
				fail(i, "unreliable/dropped-within-window", fmt.Sprintf("lost=%d reported in a loss-free history whose only fault is bounded displacement", lost))
				break
			}
		}
		if unrel && negRun >= B+1 {
			fail(i, "restart/not-followed", fmt.Sprintf("%d consecutive arrivals were not ahead of the last delivery (%d) and none was delivered", negRun, L))
			break
		}
		if c := ck.next(); c&15 == 0 {
			if ok = checkStats(i); ok && c&48 == 0 {
				ok = checkReport(i)
			}
		}
	}
	if ok {
		// end of history: statistics, final report, no-drop clause
		if ok = checkStats(n) && checkReport(n); ok && elig {
			for i := range del {
				if !del[i] && offs[i] >= firstOff {
					fail(i, "unreliable/dropped-within-window", fmt.Sprintf(
						"input #%d (seq %d) was never delivered although the only fault of the history is displacement within the window", i, pk[i].SequenceNumber))
					break
				}
			}
		}
	}

	evals.Add(1)
	c := w.cnt
	c["histories"]++
	c["histories:"+sp.Mode]++
	c["plan:"+sp.Plan]++
	c["packets-in"] += int64(n)
	c["packets-out"] += int64(nDelivered)
	c["wraps-crossed"] += wraps
	c["calls-reporting-loss"] += flushes
	c["lost-reported"] += int64(sumLost)
	c["restarts-followed"] += restarts
	c["reports-compared"] += reports
	c["stats-compared"] += statsChecks
	if elig {
		c["no-drop-histories"]++
		c["no-drop:"+sp.Plan]++
		c["no-drop-packets"] += int64(n)
	}
	if ok && nDelivered >= 2 && (sp.Plan != "inorder" || wraps > 0) {
		m := uint64(0)
		if unrel {
			m = 1
		}
		h := mix(m, uint64(B), uint64(sp.Start), strHash(sp.Plan), uint64(sp.P1), uint64(sp.P2))
		if sp.Plan == "mixed" || !unrel { // PRNG plans: the arrival sequence is a function of the plan seed
			h = mix(h, sp.RSeed)
		}
		w.hashes = append(w.hashes, h)
	}
	if ok && sp.Plan == "mixed" && run.WantSample() {
		s := *sp
		if n <= 200 {
			s.Offsets = append([]int64{}, offs...)
		}
		run.Sample(map[string]any{"history": s, "packets_in": n, "packets_out": nDelivered, "lost_reported": sumLost,
			"restarts_followed": restarts, "reports_compared": reports, "no_drop_clause_applied": elig})
	}
}

// ---------------------------------------------------------------------------------------------
// batteries

type planSel struct {
	plan     string
	p1, p2   int
	reliable bool
}

// battery returns the plans run for one (start value, buffer size). The parameters rotate with sel
// so that over the 65536 start values every distance / burst length / restart kind is covered.
func battery(B int, sel uint64, thorough bool, out []planSel) []planSel {
	out = out[:0]
	r := rng(sel)
	add := func(plan string, p1, p2 int) { out = append(out, planSel{plan, p1, p2, false}) }
	rel := func(plan string) { out = append(out, planSel{plan, 0, 0, true}) }
	move := func() {
		if B < 2 {
			add("inorder", 8+r.intn(64), 0)
			return
		}
		d := 1 + r.intn(B-1)
		if r.intn(2) == 0 {
			add("move-later", d, 0)
		} else {
			add("move-earlier", d, 0)
		}
	}
	dup := func(k int) {
		switch k {
		case 0:
			add("dup-near", 1+r.intn(B+2), 0)
		case 1:
			add("dup-far", r.intn(3*B), 0)
		case 2:
			if B >= 2 {
				add("dup-buffered", 1+r.intn(B-1), 0)
			} else {
				add("dup-near", 1, 0)
			}
		case 3:
			add("dup-scattered", B+1+r.intn(4), 0)
		case 4:
			add("dup-run", B, r.intn(2))
		case 5:
			add("dup-run", B+1, r.intn(2))
		default:
			add("dup-run", B+2+r.intn(B+2), r.intn(2))
		}
	}
	shuffle := func() {
		if dm := (B - 1) / 2; dm >= 1 {
			add("shuffle", 1+r.intn(dm), r.intn(2))
		} else {
			add("dup-scattered", B+1+r.intn(4), 0)
		}
	}
	restartHole := func() {
		if B >= 2 {
			add("restart-hole", 1+r.intn(B-1), r.intn(2))
		} else {
			add("dup-run", B+1, r.intn(2))
		}
	}
	if !thorough {
		move()
		add("late", max(1, B-1+r.intn(3)), 0)
		add("burst", 1+r.intn(B+2), 1)
		if r.intn(2) == 0 {
			add("burst", 1+r.intn(B+2), 0)
		} else {
			add("burst-late", 1+r.intn(B+2), 1+r.intn(B+2))
		}
		dup(r.intn(7))
		add("restart", r.intn(10), 1+r.intn(2*B+2))
		shuffle()
		add("mixed", 0, 0)
		add("mixed", 0, 0)
		if r.intn(2) == 0 {
			restartHole()
		} else {
			add("dup-run", B+1, r.intn(2))
		}
		rel("rel-forward")
		if r.intn(8) == 0 {
			rel("rel-backsteps")
		} else {
			rel("rel-arbitrary")
		}
		return out
	}
	add("inorder", 2*B+8+r.intn(64), 0)
	for i := 0; i < 6; i++ {
		move()
	}
	for d := B - 1; d <= B+1; d++ {
		add("late", max(1, d), 0)
	}
	for _, k := range []int{1, 2, max(1, B-1), B, B + 1, B + 2, 1 + r.intn(B+2), 1 + r.intn(B+2)} {
		add("burst", k, 1)
	}
	add("burst", 1+r.intn(B+2), 0)
	add("burst", 1+r.intn(B+2), 0)
	for i := 0; i < 3; i++ {
		add("burst-late", 1+r.intn(B+2), 1+r.intn(B+2))
	}
	for k := 0; k < 7; k++ {
		dup(k)
	}
	for k := 0; k < 10; k++ {
		add("restart", k, 1+r.intn(2*B+2))
	}
	restartHole()
	restartHole()
	for i := 0; i < 3; i++ {
		shuffle()
	}
	for i := 0; i < 5; i++ {
		add("mixed", 0, 0)
	}
	rel("rel-forward")
	rel("rel-forward")
	rel("rel-arbitrary")
	rel("rel-backsteps")
	return out
}

func mkSpec(ps planSel, B int, start uint16, rseed uint64) spec {
	mode := "unreliable"
	if ps.reliable {
		mode = "reliable"
	}
	return spec{Mode: mode, B: B, Start: start, Plan: ps.plan, P1: ps.p1, P2: ps.p2, RSeed: rseed}
}

// ---------------------------------------------------------------------------------------------
// hang watchdog: ProcessPacket2 contains loops over the ring; a defect there can spin forever while
// holding the receiver's mutex. Each worker publishes the history it is running; a history that
// does not finish within hangAfter is re-run once in a fresh goroutine and reported as a violation
// only if that attempt does not finish either (BUILDING.md rule 3).

const hangAfter = 30 * time.Second

type slot struct {
	cur   atomic.Pointer[spec]
	since atomic.Int64
}

var slots []slot

func enter(worker int, sp *spec) {
	slots[worker].since.Store(time.Now().UnixNano())
	slots[worker].cur.Store(sp)
}

func leave(worker int) { slots[worker].cur.Store(nil) }

// guard runs one history on worker slot k; a panic inside the library becomes a violation whose
// witness is exactly that history.
func (w *worker) guard(k int, sp *spec) {
	enter(k, sp)
	defer leave(k)
	defer func() {
		if v := recover(); v != nil {
			st := vlib.Stack()
			run.Violation(vlib.PanicSite(st)+"/panic", fmt.Sprintf("panic: %v (mode=%s BufferSize=%d start=%d plan=%s(%d,%d))",
				v, sp.Mode, sp.B, sp.Start, sp.Plan, sp.P1, sp.P2), *sp)
		}
	}()
	w.runHistory(sp)
}

func runGuarded(sp spec) bool {
	done := make(chan struct{})
	go func() {
		defer close(done)
		defer func() {
			if v := recover(); v != nil {
				st := vlib.Stack()
				run.Violation(vlib.PanicSite(st)+"/panic", fmt.Sprintf("panic: %v", v), sp)
			}
		}()
		newWorker().runHistory(&sp)
	}()
	select {
	case <-done:
		return true
	case <-time.After(hangAfter):
		return false
	}
}

func watchdog(stop chan struct{}) {
	t := time.NewTicker(time.Second)
	defer t.Stop()
	for {
		select {
		case <-stop:
			return
		case <-t.C:
		}
		now := time.Now().UnixNano()
		for i := range slots {
			sp := slots[i].cur.Load()
			if sp == nil || now-slots[i].since.Load() < int64(hangAfter) {
				continue
			}
			if slots[i].cur.Load() != sp {
				continue
			}
			if runGuarded(*sp) {
				run.Inconclusive("history slower than the hang watchdog")
				slots[i].since.Store(time.Now().UnixNano())
				continue
			}
			run.Violation(sp.Mode+"/process-packet-hang", fmt.Sprintf(
				"ProcessPacket2 does not return (twice, in independent attempts, %v each): mode=%s BufferSize=%d start=%d plan=%s(%d,%d)",
				hangAfter, sp.Mode, sp.B, sp.Start, sp.Plan, sp.P1, sp.P2), *sp)
			run.Finish(evals.Load(), "aborted: a call into the receiver does not return")
		}
	}
}

// ---------------------------------------------------------------------------------------------

func main() {
	shard := flag.Int("shard", -1, "child mode: index of this shard")
	shards := flag.Int("shards", 1, "child mode: number of shards")
	hashOut := flag.String("hashes", "", "child mode: file receiving the hashes of the distinct non-trivial histories")
	run = vlib.Start("C14", "exploration")
	switch {
	case run.Replay != "":
		var sp spec
		if err := run.LoadReplay(&sp); err != nil {
			run.Fatal("cannot load replay: %v", err)
		}
		if !runGuarded(sp) && !runGuarded(sp) {
			run.Violation(sp.Mode+"/process-packet-hang", "ProcessPacket2 does not return", sp)
		}
		run.Finish(evals.Load(), "replay")
	case *shard >= 0:
		child(*shard, *shards, *hashOut)
	default:
		parent()
	}
}

// child runs the jobs of one shard on a single P. Creating and closing a Receiver (goroutine +
// ticker + two channel hand-offs) costs ~1 us on one P but ~6 us of wall time per receiver when 16
// Ps do it concurrently inside one process (scheduler contention), which is why the work is
// sharded over single-P child processes rather than over goroutines.
func child(shard, shards int, hashOut string) {
	thorough := !run.Quick()
	slots = make([]slot, 1)
	stop := make(chan struct{})
	go watchdog(stop)
	w := newWorker()
	mine := func(job int) bool { return job%shards == shard }

	// 1. systematic: every start value 0..65535
	nSizes := run.Pick(3, len(bufSizes))
	const startsPerJob = 64
	var plans []planSel
	for job := 0; job < 65536/startsPerJob; job++ {
		if !mine(job) {
			continue
		}
		for s := job * startsPerJob; s < (job+1)*startsPerJob; s++ {
			start := uint16(s)
			for j := 0; j < nSizes; j++ {
				bi := j
				if !thorough {
					bi = (s + 3*j + s/10) % len(bufSizes)
				}
				B := bufSizes[bi]
				plans = battery(B, mix(uint64(run.Seed), uint64(s), uint64(B)), thorough, plans)
				for pi, ps := range plans {
					sp := mkSpec(ps, B, start, mix(uint64(run.Seed), uint64(s), uint64(B), uint64(pi)))
					w.guard(0, &sp)
				}
			}
			w.cnt["start-values-covered"]++
		}
	}

	// 2. two full wraps in order (131072+ packets), a subset of start values and buffer sizes
	nLong := run.Pick(64, 1024)
	for i := 0; i < nLong; i++ {
		if !mine(i) {
			continue
		}
		start := uint16(i * (65536 / nLong))
		if i%2 == 1 {
			start += uint16(mix(uint64(run.Seed), uint64(i)) % uint64(65536/nLong))
		}
		B := bufSizes[i%len(bufSizes)]
		sp := mkSpec(planSel{"long", 140000, 0, i%8 == 7}, B, start, mix(uint64(run.Seed), 77, uint64(i)))
		w.guard(0, &sp)
	}

	// 3. sampled: PRNG histories (mixed faults; reliable mode with arbitrary numbers)
	nSampled := run.Pick(400_000, 12_000_000)
	const perJob = 2000
	for job := 0; job < nSampled/perJob; job++ {
		if !mine(job) {
			continue
		}
		r := rng(mix(uint64(run.Seed), 1234, uint64(job)))
		for i := 0; i < perJob; i++ {
			B := bufSizes[r.intn(len(bufSizes))]
			start := uint16(r.next())
			if r.intn(4) == 0 {
				start = uint16(65536 - 1 - r.intn(3*B+64)) // the wrap falls inside the history
			}
			ps := planSel{"mixed", 0, 0, false}
			switch r.intn(8) {
			case 0:
				ps = planSel{"rel-arbitrary", 0, 0, true}
			case 1:
				ps = planSel{"rel-forward", 0, 0, true}
			case 2:
				if dm := (B - 1) / 2; dm >= 1 {
					ps = planSel{"shuffle", 1 + r.intn(dm), r.intn(2), false}
				}
			}
			sp := mkSpec(ps, B, start, r.next())
			w.guard(0, &sp)
		}
	}
	close(stop)
	w.flush()
	writeHashes(hashOut, w.hashes)
	for _, h := range w.hashes {
		run.DistinctHash(h)
	}
	run.Finish(evals.Load(), fmt.Sprintf("shard %d of %d", shard, shards))
}
