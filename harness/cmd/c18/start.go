package main

import (
	"fmt"

	"github.com/bluenviron/gortsplib/v5"

	"verif/lib/vlib"
)

// Start-time validation: every WriteQueueSize 0..4096 and MaxPacketSize 1..3000 on
// Client.Start and Server.Start; accepted iff power of two (0 = default) resp. <= 1472.

type noHandler struct{}

func startWith(side, field string, v int) error {
	if side == "server" {
		s := &gortsplib.Server{RTSPAddress: "127.0.0.1:0", Handler: &noHandler{}}
		if field == "WriteQueueSize" {
			s.WriteQueueSize = v
		} else {
			s.MaxPacketSize = v
		}
		err := s.Start()
		if err == nil {
			s.Close()
		}
		return err
	}
	c := &gortsplib.Client{Scheme: "rtsp", Host: "127.0.0.1:9"}
	if field == "WriteQueueSize" {
		c.WriteQueueSize = v
	} else {
		c.MaxPacketSize = v
	}
	err := c.Start()
	if err == nil {
		c.Close()
	}
	return err
}

func checkStart(side, field string, v int) {
	evals.Add(1)
	var valid bool
	var slug string
	if field == "WriteQueueSize" {
		valid = v == 0 || v&(v-1) == 0
		slug = "write-queue-size"
	} else {
		valid = v <= 1472
		slug = "max-packet-size"
	}
	err := startWith(side, field, v)
	wit := map[string]any{"start": map[string]any{"Side": side, "Field": field, "Value": v}}
	switch {
	case valid && err != nil:
		run.Violation("start/"+side+"/"+slug+"-refused", fmt.Sprintf("%s.Start refused the valid %s %d: %v", side, field, v, err), wit)
	case !valid && err == nil:
		run.Violation("start/"+side+"/"+slug+"-accepted", fmt.Sprintf("%s.Start accepted the invalid %s %d", side, field, v), wit)
	}
	run.Count(fmt.Sprintf("start:%s|%s|%s", side, field, map[bool]string{true: "accepted", false: "refused"}[err == nil]), 1)
	if v == 1472 || v == 1473 || (field == "WriteQueueSize" && (v == 0 || v == 1 || v == 4096 || v == 4095)) {
		run.Distinct(fmt.Sprintf("start|%s|%s|%d", side, field, v))
	}
}

func startValidation() {
	type job struct {
		side, field string
		v           int
	}
	var jobs []job
	for _, side := range []string{"server", "client"} {
		for v := 0; v <= 4096; v++ {
			jobs = append(jobs, job{side, "WriteQueueSize", v})
		}
		for v := 1; v <= 3000; v++ {
			jobs = append(jobs, job{side, "MaxPacketSize", v})
		}
	}
	run.Parallel(len(jobs), func(_, i int) { checkStart(jobs[i].side, jobs[i].field, jobs[i].v) }, func(i int, v any, stack string) {
		run.Violation("start/panic/"+vlib.PanicSite(stack), fmt.Sprintf("Start panicked with %s=%d: %v", jobs[i].field, jobs[i].v, v),
			map[string]any{"start": map[string]any{"Side": jobs[i].side, "Field": jobs[i].field, "Value": jobs[i].v}})
	})
}
