package main

import (
	"bufio"
	"crypto/tls"
	"fmt"
	"net"
	"strings"
	"sync/atomic"
	"time"

	"github.com/bluenviron/gortsplib/v5"
	"github.com/bluenviron/gortsplib/v5/pkg/base"
	"github.com/bluenviron/gortsplib/v5/pkg/conn"
	"github.com/bluenviron/gortsplib/v5/pkg/headers"
	"github.com/bluenviron/gortsplib/v5/pkg/mikey"
	"github.com/pion/rtcp"
	"github.com/pion/rtp"

	"verif/lib/rig"
	"verif/lib/taps"
)

// Axis mode: a scripted RTSPS server answers the first SETUP with "463 Key Management Failure";
// the client then manages the keys itself and adds a 4-byte MKI to every SRTP / SRTCP packet.
// The statement ("SRTP overhead included") makes no exception for the MKI: the oracle accounts
// for tag + MKI.

type axisServer struct {
	ln      net.Listener
	udp     [2]*net.UDPConn
	mkiSeen atomic.Int32 // length of the SPI in the KeyMgmt header of the accepted SETUP
	setups  atomic.Int32
}

func startAxisServer() (*axisServer, error) {
	as := &axisServer{}
	ln, err := tls.Listen("tcp", "127.0.0.1:0", &tls.Config{Certificates: []tls.Certificate{rig.ServerCert()}})
	if err != nil {
		return nil, err
	}
	as.ln = ln
	for {
		p := rig.FreePortPair()
		a, err1 := net.ListenUDP("udp4", &net.UDPAddr{IP: net.ParseIP("127.0.0.1"), Port: p})
		if err1 != nil {
			continue
		}
		b, err2 := net.ListenUDP("udp4", &net.UDPAddr{IP: net.ParseIP("127.0.0.1"), Port: p + 1})
		if err2 != nil {
			a.Close()
			continue
		}
		as.udp = [2]*net.UDPConn{a, b}
		break
	}
	for _, u := range as.udp {
		go func(u *net.UDPConn) { // discard whatever the client sends
			buf := make([]byte, 4096)
			for {
				if _, _, err := u.ReadFromUDP(buf); err != nil {
					return
				}
			}
		}(u)
	}
	go as.serve()
	return as, nil
}

func (as *axisServer) close() {
	as.ln.Close()
	as.udp[0].Close()
	as.udp[1].Close()
}

func (as *axisServer) serve() {
	for {
		nc, err := as.ln.Accept()
		if err != nil {
			return
		}
		go as.handle(nc)
	}
}

func (as *axisServer) handle(nc net.Conn) {
	defer nc.Close()
	c := conn.NewConn(bufio.NewReader(nc), nc)
	for {
		_ = nc.SetReadDeadline(time.Now().Add(60 * time.Second))
		what, err := c.Read()
		if err != nil {
			return
		}
		req, ok := what.(*base.Request)
		if !ok {
			continue // interleaved frames of a TCP publisher
		}
		res := &base.Response{StatusCode: base.StatusOK, Header: base.Header{"CSeq": req.Header["CSeq"]}}
		switch req.Method {
		case base.Options:
			res.Header["Public"] = base.HeaderValue{"ANNOUNCE, SETUP, RECORD, TEARDOWN, GET_PARAMETER"}
		case base.Setup:
			if as.setups.Add(1) == 1 {
				res.StatusCode, res.StatusMessage = base.StatusKeyManagementFailure, "Key Management Failure"
				break
			}
			var in headers.Transport
			if err := in.Unmarshal(req.Header["Transport"]); err != nil {
				res.StatusCode = base.StatusBadRequest
				break
			}
			var km headers.KeyMgmt
			if km.Unmarshal(req.Header["KeyMgmt"]) == nil {
				for _, pl := range km.MikeyMessage.Payloads {
					if k, ok := pl.(*mikey.PayloadKEMAC); ok && len(k.SubPayloads) == 1 {
						as.mkiSeen.Store(int32(len(k.SubPayloads[0].SPI)))
					}
				}
			}
			out := headers.Transport{Profile: in.Profile, Protocol: in.Protocol, Delivery: in.Delivery, Mode: in.Mode}
			if in.Protocol == headers.TransportProtocolTCP {
				out.InterleavedIDs = in.InterleavedIDs
			} else {
				out.ClientPorts = in.ClientPorts
				out.ServerPorts = &[2]int{as.udp[0].LocalAddr().(*net.UDPAddr).Port, as.udp[1].LocalAddr().(*net.UDPAddr).Port}
			}
			res.Header["Transport"] = out.Marshal()
			res.Header["Session"] = base.HeaderValue{"axis12345"}
		case base.Teardown:
			_ = c.WriteResponse(res)
			return
		}
		if err := c.WriteResponse(res); err != nil {
			return
		}
	}
}

func runAxis(cfg config) {
	as, err := startAxisServer()
	if err != nil {
		run.Fatal("axis: %v", err)
	}
	defer as.close()
	mon := newWireMon(cfg.Max)
	sc := newSweepCtx(cfg, mon)
	sc.ohRTP, sc.ohRTCP = srtpOverhead+mkiLength, srtcpOverhead+mkiLength
	sc.rtpKey = func(_ *writer, _, verdict string) string { return "client-axis-mki/" + verdict }
	sc.rtcpKey = func(_ *writer, _, verdict string) string { return "client-axis-mki/rtcp/" + verdict }
	proto := gortsplib.ProtocolUDP
	if cfg.Proto == "tcp" {
		proto = gortsplib.ProtocolTCP
	}
	addr := as.ln.Addr().String()
	c := &gortsplib.Client{
		Scheme: "rtsps", Host: addr, Protocol: &proto, MaxPacketSize: cfg.Max,
		TLSConfig:      &tls.Config{InsecureSkipVerify: true},
		ListenPacket:   taps.ListenPacket(mon.udpHooks("udp")),
		DialTLSContext: taps.DialTLSContext(mon.streamHooks("tcp"), nil),
	}
	fastTimersClient(c)
	desc := rig.MakeDesc([]int{2})
	if err := c.StartRecording("rtsps://"+addr+"/axis", desc); err != nil {
		if strings.Contains(err.Error(), "463") || strings.Contains(strings.ToLower(err.Error()), "key management") {
			run.Inconclusive("axis mode not entered: " + err.Error())
			return
		}
		sc.violation("client-axis-mki/start-failed", err.Error(), nil)
		return
	}
	defer c.Close()
	if as.mkiSeen.Load() != mkiLength {
		run.Inconclusive(fmt.Sprintf("axis mode not entered (SPI length %d in the accepted SETUP)", as.mkiSeen.Load()))
		return
	}
	run.Count("axis-mode-entered", 1)
	m := desc.Medias[0]
	sc.sweep(&writer{entry: "client-axis-mki", paths: []string{cfg.Proto}, pts: []uint8{96, 97},
		rtp:  func(p *rtp.Packet) error { return c.WritePacketRTP(m, p) },
		rtcp: func(p rtcp.Packet) error { return c.WritePacketRTCP(m, p) }}, 0)
	time.Sleep(200 * time.Millisecond)
	sc.finish("client-axis-mki")
}
