// C18: outbound packets never exceed the configured maximum size.
//
// Taps on every socket the library opens (UDP: wrapper of the PacketConn returned by
// ListenPacket; TCP: a wrapper inside TLS that parses interleaved frames out of the outbound
// byte stream; multicast: a passive group member) record the size of every outbound RTP / RTCP
// packet. A sweep writes packets whose marshalled size runs through max-40 .. max+40 at every
// write entry point; each write call is paired with its return value and with what the taps
// saw: a packet whose size + SRTP overhead exceeds the maximum must be refused and must not
// appear on the wire, a packet at or below the boundary must be accepted and appear with the
// expected size, and nothing on the wire may ever be larger than the configured maximum.
package main

import (
	"encoding/binary"
	"fmt"
	"net"
	"strings"
	"sync"
	"sync/atomic"
	"time"

	"github.com/bluenviron/gortsplib/v5"
	"github.com/bluenviron/gortsplib/v5/pkg/base"
	"github.com/bluenviron/gortsplib/v5/pkg/description"
	"github.com/bluenviron/gortsplib/v5/pkg/format"
	"github.com/bluenviron/gortsplib/v5/pkg/headers"
	"github.com/pion/rtcp"
	"github.com/pion/rtp"

	"verif/lib/rig"
	"verif/lib/taps"
	"verif/lib/vlib"
)

const (
	srtpOverhead  = 10 // HMAC-SHA1-80 tag
	srtcpOverhead = 14 // tag + SRTCP index
	mkiLength     = 4
)

var (
	run   *vlib.Run
	evals atomic.Int64
	idCtr atomic.Uint32
)

func newID() uint32 { return uint32(idTag)<<24 | (idCtr.Add(1) & 0xFFFFFF) }

// config is one rig: an entry point family, a security mode and a maximum.
type config struct {
	Entry  string `json:"entry"`  // server | client | client-backchannel | server-stream-mcast | client-axis-mki
	Proto  string `json:"proto"`  // transport of the writing client (client entries); "" for server
	Secure bool   `json:"secure"` // RTSPS + SRTP
	Max    int    `json:"max"`
	Dense  bool   `json:"dense"` // every shape at every size (thorough)
	Reps   int    `json:"reps"`  // additional passes with PRNG shapes (thorough)
	Seed   int64  `json:"seed"`
}

func (c config) name() string {
	s := c.Entry
	if c.Proto != "" {
		s += "-" + c.Proto
	}
	if c.Secure {
		s += "+srtp"
	}
	return fmt.Sprintf("%s/max%d", s, c.Max)
}

// ---- wire monitor -------------------------------------------------------------------------

type over struct {
	Path string `json:"path"`
	RTCP bool   `json:"rtcp"`
	Size int    `json:"size"`
	ID   uint32 `json:"id"`
}

// wireMon records what left one side (the side whose configured maximum is max).
type wireMon struct {
	max  int
	mu   sync.Mutex
	seen map[string]map[uint32][]int // path -> id -> sizes on the wire
	over []over
	n    map[string]int64 // path/kind -> packets
	big  map[string]int   // path/kind -> largest size
	auto int64            // packets without a sweep id (automatic reports, hole punching)
}

func newWireMon(max int) *wireMon {
	return &wireMon{max: max, seen: map[string]map[uint32][]int{}, n: map[string]int64{}, big: map[string]int{}}
}

func kindOf(isRTCP bool) string {
	if isRTCP {
		return "rtcp"
	}
	return "rtp"
}

func (m *wireMon) packet(path string, isRTCP bool, b []byte) {
	var id uint32
	if len(b) >= 8 {
		id = binary.BigEndian.Uint32(b[4:8])
	}
	k := path + "/" + kindOf(isRTCP)
	m.mu.Lock()
	m.n[k]++
	if len(b) > m.big[k] {
		m.big[k] = len(b)
	}
	if isID(id) {
		if m.seen[path] == nil {
			m.seen[path] = map[uint32][]int{}
		}
		m.seen[path][id] = append(m.seen[path][id], len(b))
	} else {
		m.auto++
	}
	if len(b) > m.max && len(m.over) < 64 {
		m.over = append(m.over, over{path, isRTCP, len(b), id})
	}
	m.mu.Unlock()
}

func (m *wireMon) sizes(path string, id uint32) []int {
	m.mu.Lock()
	defer m.mu.Unlock()
	return append([]int(nil), m.seen[path][id]...)
}

func (m *wireMon) udpHooks(path string) *taps.UDPHooks {
	return &taps.UDPHooks{OnWrite: func(localPort int, b []byte, _ *net.UDPAddr) {
		m.packet(path, localPort%2 == 1, b) // RTP ports are even, RTCP ports odd (client and server)
	}}
}

func (m *wireMon) streamHooks(path string) *taps.StreamHooks {
	return &taps.StreamHooks{OnFrameOut: func(_ *taps.Conn, ch int, p []byte) { m.packet(path, ch%2 == 1, p) }}
}

// waitSeen waits until id was seen on every path (FIFO queues: everything written before it
// has then passed the tap as well).
func (m *wireMon) waitSeen(paths []string, id uint32, d time.Duration) bool {
	deadline := time.Now().Add(d)
	for {
		ok := true
		m.mu.Lock()
		for _, p := range paths {
			if len(m.seen[p][id]) == 0 {
				ok = false
			}
		}
		m.mu.Unlock()
		if ok {
			return true
		}
		if time.Now().After(deadline) {
			return false
		}
		time.Sleep(100 * time.Microsecond)
	}
}

// ---- sweep --------------------------------------------------------------------------------

type writeRec struct {
	ID       uint32 `json:"id"`
	RTCP     bool   `json:"rtcp"`
	Kind     string `json:"kind"`
	Plain    int    `json:"plain_size"`
	Overhead int    `json:"overhead"`
	Err      string `json:"err"`
}

type writer struct {
	entry string   // key prefix, e.g. "server-stream"
	paths []string // where an accepted packet must appear
	lossy bool     // observation point can lose packets (passive multicast member)
	rtp   func(*rtp.Packet) error
	rtcp  func(rtcp.Packet) error
	pts   []uint8
}

type sweepCtx struct {
	cfg     config
	mon     *wireMon
	seq     map[uint8]uint16
	ohRTP   int // overhead a correct implementation accounts for
	ohRTCP  int
	rtpKey  func(w *writer, path, verdict string) string
	rtcpKey func(w *writer, path, verdict string) string
}

func defaultKey(kind string) func(w *writer, path, verdict string) string {
	return func(w *writer, path, verdict string) string { return w.entry + "/" + path + "/" + kind + "/" + verdict }
}

func newSweepCtx(cfg config, mon *wireMon) *sweepCtx {
	sc := &sweepCtx{cfg: cfg, mon: mon, seq: map[uint8]uint16{}, rtpKey: defaultKey("rtp"), rtcpKey: defaultKey("rtcp")}
	if cfg.Secure {
		sc.ohRTP, sc.ohRTCP = srtpOverhead, srtcpOverhead
	}
	return sc
}

func (sc *sweepCtx) violation(key, what string, extra map[string]any) {
	w := map[string]any{"config": sc.cfg}
	for k, v := range extra {
		w[k] = v
	}
	run.Violation(key, fmt.Sprintf("[%s] %s", sc.cfg.name(), what), w)
}

// sweep writes the RTP and RTCP size sweep through w and evaluates it.
func (sc *sweepCtx) sweep(w *writer, idx int) {
	r := run.Rand("sweep:"+sc.cfg.name()+":"+w.entry, idx)
	max := sc.cfg.Max
	var recs []writeRec
	var lastOK uint32
	flush := func() {
		if lastOK != 0 && !sc.mon.waitSeen(w.paths, lastOK, 3*time.Second) && !w.lossy {
			// decided below per write (accepted-write-not-transmitted)
			run.Count("flush-timeouts", 1)
		}
		lastOK = 0
	}
	do := func(call func() error) { // the record of this write is the last one of recs
		rec := &recs[len(recs)-1]
		if err := call(); err != nil {
			rec.Err = err.Error()
		} else if rec.Plain+rec.Overhead <= max {
			lastOK = rec.ID
		}
		if len(recs)%24 == 0 {
			flush()
		}
	}
	// RTP, systematic part: every size of the window; near the two thresholds (max and
	// max - overhead) every shape, elsewhere two shapes per size (thorough: every shape)
	rot := r.Intn(len(rtpShapes))
	for size := max - 40; size <= max+40; size++ {
		near := abs(size+sc.ohRTP-max) <= 2 || abs(size-max) <= 2
		for si, sh := range rtpShapes {
			if !sc.cfg.Dense && !near && si != (size+idx+rot)%len(rtpShapes) && si != (size*7+3+rot)%len(rtpShapes) {
				continue
			}
			pt := w.pts[(size+si)%len(w.pts)]
			sc.seq[pt]++
			id := newID()
			p := buildRTP(sh, size, id, sc.seq[pt], pt, r)
			if p == nil {
				run.Count("shape-does-not-fit", 1)
				continue
			}
			recs = append(recs, writeRec{ID: id, Kind: sh.Name, Plain: size, Overhead: sc.ohRTP})
			do(func() error { return w.rtp(p) })
		}
	}
	// RTP, sampled part (thorough): PRNG shapes
	for rep := 0; rep < sc.cfg.Reps; rep++ {
		for size := max - 40; size <= max+40; size++ {
			sh := shape{Name: "prng", CSRC: r.Intn(16), Ext: r.Intn(4)}
			if r.Intn(2) == 0 {
				sh.Pad = 1 + r.Intn(255)
			}
			pt := w.pts[r.Intn(len(w.pts))]
			sc.seq[pt]++
			id := newID()
			p := buildRTP(sh, size, id, sc.seq[pt], pt, r)
			if p == nil {
				sh = shape{Name: "prng", CSRC: r.Intn(3)}
				if p = buildRTP(sh, size, id, sc.seq[pt], pt, r); p == nil {
					continue
				}
			}
			recs = append(recs, writeRec{ID: id, Kind: fmt.Sprintf("prng(csrc%d,ext%d,pad%d)", sh.CSRC, sh.Ext, sh.Pad), Plain: size, Overhead: sc.ohRTP})
			do(func() error { return w.rtp(p) })
		}
	}
	// RTCP (structured kinds exist at multiples of 4 only; the report counts are PRNG)
	for rep := 0; rep <= sc.cfg.Reps; rep++ {
		for size := max - 40; size <= max+40; size++ {
			for ki, kind := range rtcpKinds {
				id := newID()
				p := buildRTCP(kind, size, id, r)
				if p == nil {
					continue
				}
				near := abs(size+sc.ohRTCP-max) <= 4 || abs(size-max) <= 4
				if !sc.cfg.Dense && !near && kind == "raw" && (size+ki)%2 == 0 {
					continue
				}
				recs = append(recs, writeRec{ID: id, RTCP: true, Kind: kind, Plain: size, Overhead: sc.ohRTCP})
				do(func() error { return w.rtcp(p) })
			}
		}
	}
	flush()
	// a final accepted packet closes the sweep: once it was seen, every earlier packet that was
	// queued (also wrongly) has passed the taps
	pt := w.pts[0]
	sc.seq[pt]++
	fin := newID()
	// if it never arrives the session ended under the sweep (e.g. a timeout of the peer): writes
	// to an ended session fail or return nil without sending, so only the clauses about what
	// *was* seen on the wire can be decided for this sweep
	alive := true
	if err := w.rtp(buildRTP(rtpShapes[0], 24, fin, sc.seq[pt], pt, r)); err != nil {
		alive = false
		run.Inconclusive("closing packet of a sweep refused: " + vlib.Trunc(err.Error(), 40))
	} else if !sc.mon.waitSeen(w.paths, fin, 5*time.Second) && !w.lossy {
		alive = false
		run.Inconclusive("closing packet of a sweep never reached the tap (session ended?)")
	}
	sc.evaluate(w, recs, alive)
}

func abs(v int) int {
	if v < 0 {
		return -v
	}
	return v
}

func (sc *sweepCtx) evaluate(w *writer, recs []writeRec, alive bool) {
	max := sc.cfg.Max
	for _, rec := range recs {
		evals.Add(1)
		keyf := sc.rtpKey
		if rec.RTCP {
			keyf = sc.rtcpKey
		}
		expect := rec.Plain + rec.Overhead
		should := expect <= max
		accepted := rec.Err == ""
		cls := fmt.Sprintf("%s|%s|%v|%s", w.entry, kindOf(rec.RTCP), sc.cfg.Secure, map[bool]string{true: "accepted", false: "refused"}[accepted])
		run.Count("writes:"+cls, 1)
		if queueFull(rec.Err) {
			run.Inconclusive("write queue full during the sweep")
			continue
		}
		switch d := expect - max; {
		case d == 0:
			run.Count("boundary-exact:"+w.entry+"|"+kindOf(rec.RTCP)+map[bool]string{true: "|srtp", false: ""}[sc.cfg.Secure], 1)
		case d == 1:
			run.Count("boundary-plus-one:"+w.entry+"|"+kindOf(rec.RTCP)+map[bool]string{true: "|srtp", false: ""}[sc.cfg.Secure], 1)
		}
		run.Distinct(fmt.Sprintf("%s|%s|%v|%d|%s|%d", w.entry, strings.Join(w.paths, "+"), sc.cfg.Secure, max, rec.Kind, rec.Plain-max))
		wit := map[string]any{"write": rec, "expected_wire_size": expect}
		overOnWire := false
		for _, path := range w.paths {
			sizes := sc.mon.sizes(path, rec.ID)
			for _, s := range sizes {
				if s > max {
					overOnWire = true
					sc.violation(keyf(w, path, overLimit(path)), fmt.Sprintf("%s packet (%s, plain size %d) left as %d bytes on %s, configured maximum %d",
						kindOf(rec.RTCP), rec.Kind, rec.Plain, s, path, max), wit)
				}
			}
			switch {
			case !should && len(sizes) > 0 && !accepted:
				sc.violation(keyf(w, path, "refused-write-transmitted"), fmt.Sprintf("%s write (%s, plain size %d + overhead %d > %d) returned %q but the packet appeared on %s (%v bytes)",
					kindOf(rec.RTCP), rec.Kind, rec.Plain, rec.Overhead, max, rec.Err, path, sizes), wit)
			case should && accepted && len(sizes) == 0:
				if w.lossy || !alive {
					run.Count("accepted-write-not-observed(lossy-or-ended)", 1)
				} else {
					sc.violation(keyf(w, path, "accepted-write-not-transmitted"), fmt.Sprintf("%s write (%s, plain size %d) returned nil but never appeared on %s",
						kindOf(rec.RTCP), rec.Kind, rec.Plain, path), wit)
				}
			case should && accepted && (len(sizes) != 1 || sizes[0] != expect):
				sc.violation(keyf(w, path, "wire-size-mismatch"), fmt.Sprintf("%s write (%s, plain size %d, overhead %d) appeared on %s as %v bytes, expected one packet of %d",
					kindOf(rec.RTCP), rec.Kind, rec.Plain, rec.Overhead, path, sizes, expect), wit)
			case should && accepted:
				run.Count("wire-size-confirmed:"+path, 1)
			}
		}
		switch {
		case !alive:
		case !should && accepted && !overOnWire:
			sc.violation(keyf(w, w.paths[0], "oversize-write-accepted"), fmt.Sprintf("%s write (%s, plain size %d + overhead %d > %d) returned nil",
				kindOf(rec.RTCP), rec.Kind, rec.Plain, rec.Overhead, max), wit)
		case should && !accepted:
			sc.violation(keyf(w, w.paths[0], "valid-write-refused"), fmt.Sprintf("%s write (%s, plain size %d + overhead %d <= %d) returned %q",
				kindOf(rec.RTCP), rec.Kind, rec.Plain, rec.Overhead, max, rec.Err), wit)
		}
	}
}

func overLimit(path string) string {
	if path == "tcp" {
		return "frame-over-limit"
	}
	return "datagram-over-limit"
}

func queueFull(e string) bool { return strings.Contains(e, "queue is full") }

// finish reports what the monitor saw beyond the matched sweep packets.
func (sc *sweepCtx) finish(side string) {
	m := sc.mon
	m.mu.Lock()
	defer m.mu.Unlock()
	for k, n := range m.n {
		run.Count("wire-packets:"+side+"/"+k, n)
		run.Max("largest-wire-size:"+side+"/"+k, int64(m.big[k]))
		run.Max("largest-wire-size-minus-configured-maximum:"+side+"/"+k, int64(m.big[k]-m.max))
	}
	run.Count("wire-packets-without-sweep-id(auto-rtcp,hole-punch)", m.auto)
	for _, o := range m.over {
		if isID(o.ID) {
			continue // reported per write
		}
		run.Violation(sc.cfg.Entry+"/"+o.Path+"/"+kindOf(o.RTCP)+"/auto-"+overLimit(o.Path),
			fmt.Sprintf("[%s] a %s packet not written by the application (automatic report) left as %d bytes on %s, maximum %d", sc.cfg.name(), kindOf(o.RTCP), o.Size, o.Path, m.max),
			map[string]any{"config": sc.cfg, "packet": o})
	}
}

// ---- rigs ---------------------------------------------------------------------------------

func oneMediaDesc(backChannel bool) *description.Session {
	d := rig.MakeDesc([]int{2})
	if backChannel {
		f := &format.Generic{PayloadTyp: 110, RTPMa: "private/8000"}
		_ = f.Init()
		d.Medias = append(d.Medias, &description.Media{Type: description.MediaTypeAudio, IsBackChannel: true, Formats: []format.Format{f}})
	}
	return d
}

type sessTracker struct {
	mu      sync.Mutex
	connTag map[*gortsplib.ServerConn]string
	sess    map[string]*gortsplib.ServerSession
}

func (t *sessTracker) onEvent(e rig.Event) {
	t.mu.Lock()
	defer t.mu.Unlock()
	switch e.Kind {
	case "request":
		if e.Tag != "" && e.Conn != nil {
			t.connTag[e.Conn] = e.Tag
		}
	case "play", "record":
		if tag, ok := t.connTag[e.Conn]; ok && e.Sess != nil {
			t.sess[tag] = e.Sess
		}
	}
}

func (t *sessTracker) get(name string) *gortsplib.ServerSession {
	t.mu.Lock()
	defer t.mu.Unlock()
	return t.sess["verif:"+name]
}

func fastTimersServer(s *gortsplib.Server) {
	s.VerifSetTimers(nil, 150*time.Millisecond, 150*time.Millisecond, 0)
}

func fastTimersClient(c *gortsplib.Client) {
	c.VerifSetTimers(nil, 150*time.Millisecond, 150*time.Millisecond, 0)
}

// runServer: ServerStream.WritePacketRTP/RTCP to a UDP and a TCP reader, then
// ServerSession.WritePacketRTP/RTCP to each of the two sessions.
func runServer(cfg config) {
	mon := newWireMon(cfg.Max)
	sc := newSweepCtx(cfg, mon)
	tr := &sessTracker{connTag: map[*gortsplib.ServerConn]string{}, sess: map[string]*gortsplib.ServerSession{}}
	desc := oneMediaDesc(false)
	ts, err := rig.StartServer(rig.ServerOpts{
		UDP: true, TLS: cfg.Secure, HandlerSet: "full", NoLog: true, MaxPacketSize: cfg.Max, Desc: desc, OnEvent: tr.onEvent,
		Mutate: func(s *gortsplib.Server) {
			s.ListenPacket = taps.ListenPacket(mon.udpHooks("udp"))
			s.Listen = taps.Listen(mon.streamHooks("tcp"))
			s.TLSListen = taps.TLSListen(mon.streamHooks("tcp"))
			fastTimersServer(s)
		},
	})
	if err != nil {
		rigFailed(cfg, err)
		return
	}
	defer ts.Close()
	// readers keep the default maximum (1472): their own outbound packets (receiver reports)
	// are checked against it by a monitor of their own
	rmon := newWireMon(1472)
	for _, proto := range []string{"udp", "tcp"} {
		pc, err := rig.NewPlayClient(ts, rig.ClientOpts{Name: "rd-" + proto, Proto: proto, HeldEvery: 1000, Mutate: func(c *gortsplib.Client) {
			c.ListenPacket = taps.ListenPacket(rmon.udpHooks("udp"))
			c.DialContext = taps.DialContext(rmon.streamHooks("tcp"))
			c.DialTLSContext = taps.DialTLSContext(rmon.streamHooks("tcp"), nil)
			fastTimersClient(c)
		}})
		if err != nil {
			run.Fatal("client: %v", err)
		}
		if err := pc.Start(); err != nil {
			sc.violation("server/"+proto+"/reader-start-failed", err.Error(), nil)
			return
		}
		defer pc.Close()
		requireProfile(cfg, pc.C)
	}
	// other readers of the same stream come and go before the sweep, ending in every state
	// (set up only, paused, playing): the limit that protects the readers still playing must
	// not depend on how the others left
	for _, proto := range []string{"udp", "tcp"} {
		for _, how := range []string{"setup-only", "paused", "playing"} {
			tc, err := rig.NewPlayClient(ts, rig.ClientOpts{Name: "transient-" + proto + "-" + how, Proto: proto, HeldEvery: 1000, Mutate: fastTimersClient})
			if err != nil {
				run.Fatal("client: %v", err)
			}
			if err := tc.C.Start(); err != nil {
				continue
			}
			if d, _, err := tc.C.Describe(tc.URL); err == nil && tc.C.SetupAll(d.BaseURL, d.Medias) == nil {
				if how != "setup-only" {
					if _, err := tc.C.Play(nil); err == nil && how == "paused" {
						_, _ = tc.C.Pause()
					}
				}
				run.Count("transient-readers:"+how, 1)
			}
			tc.C.Close()
		}
	}
	time.Sleep(150 * time.Millisecond)
	m := desc.Medias[0]
	pts := []uint8{96, 97}
	sc.sweep(&writer{entry: "server-stream", paths: []string{"udp", "tcp"}, pts: pts,
		rtp:  func(p *rtp.Packet) error { return ts.Stream.WritePacketRTP(m, p) },
		rtcp: func(p rtcp.Packet) error { return ts.Stream.WritePacketRTCP(m, p) }}, 0)
	for i, proto := range []string{"udp", "tcp"} {
		ss := tr.get("rd-" + proto)
		if ss == nil {
			run.Fatal("%s: session of reader %s not found", cfg.name(), proto)
		}
		sc.sweep(&writer{entry: "server-session", paths: []string{proto}, pts: pts,
			rtp:  func(p *rtp.Packet) error { return ss.WritePacketRTP(m, p) },
			rtcp: func(p rtcp.Packet) error { return ss.WritePacketRTCP(m, p) }}, 1+i)
	}
	time.Sleep(200 * time.Millisecond) // let a few automatic reports pass the taps
	sc.finish("server")
	(&sweepCtx{cfg: config{Entry: "reader-client", Max: 1472, Secure: cfg.Secure}, mon: rmon}).finish("reader-client")
}

// runMcast: ServerStream.WritePacketRTP/RTCP to a multicast reader; sizes are observed by a
// passive member of the group (the library's multicast sockets bypass ListenPacket on Linux).
func runMcast(cfg config) bool {
	if rig.MulticastIP() == "" {
		return false
	}
	mon := newWireMon(cfg.Max)
	sc := newSweepCtx(cfg, mon)
	desc := oneMediaDesc(false)
	ts, err := rig.StartServer(rig.ServerOpts{
		UDP: true, Multicast: true, TLS: cfg.Secure, HandlerSet: "full", NoLog: true, MaxPacketSize: cfg.Max, Desc: desc,
		Mutate: fastTimersServer,
	})
	if err != nil {
		rigFailed(cfg, err)
		return true
	}
	defer ts.Close()
	var gmu sync.Mutex
	var group string
	var ports [2]int
	pc, err := rig.NewPlayClient(ts, rig.ClientOpts{Name: "rd-mcast", Proto: "mcast", HeldEvery: 1000, Mutate: func(c *gortsplib.Client) {
		prev := c.OnResponse
		c.OnResponse = func(res *base.Response) {
			prev(res)
			var t headers.Transport
			if th, ok := res.Header["Transport"]; ok && t.Unmarshal(th) == nil && t.Destination2 != nil && t.Ports != nil {
				gmu.Lock()
				group, ports = *t.Destination2, *t.Ports
				gmu.Unlock()
			}
		}
		fastTimersClient(c)
	}})
	if err != nil {
		run.Fatal("client: %v", err)
	}
	if err := pc.Start(); err != nil {
		sc.violation("server-stream/mcast/reader-start-failed", err.Error(), nil)
		return true
	}
	defer pc.Close()
	gmu.Lock()
	g, ps := group, ports
	gmu.Unlock()
	if g == "" {
		run.Fatal("%s: multicast group not announced", cfg.name())
	}
	intf := mcastInterface()
	var socks []*net.UDPConn
	for i, port := range ps {
		uc, err := net.ListenMulticastUDP("udp4", intf, &net.UDPAddr{IP: net.ParseIP(g), Port: port})
		if err != nil {
			run.Fatal("%s: passive group member: %v", cfg.name(), err)
		}
		_ = uc.SetReadBuffer(4 << 20)
		socks = append(socks, uc)
		go func(uc *net.UDPConn, isRTCP bool) {
			buf := make([]byte, 4096)
			for {
				n, _, err := uc.ReadFromUDP(buf)
				if err != nil {
					return
				}
				mon.packet("mcast", isRTCP, buf[:n])
			}
		}(uc, i == 1)
	}
	defer func() {
		for _, s := range socks {
			s.Close()
		}
	}()
	m := desc.Medias[0]
	sc.sweep(&writer{entry: "server-stream", paths: []string{"mcast"}, lossy: true, pts: []uint8{96, 97},
		rtp:  func(p *rtp.Packet) error { return ts.Stream.WritePacketRTP(m, p) },
		rtcp: func(p rtcp.Packet) error { return ts.Stream.WritePacketRTCP(m, p) }}, 0)
	time.Sleep(100 * time.Millisecond)
	sc.finish("server")
	return true
}

func mcastInterface() *net.Interface {
	ip := rig.MulticastIP()
	ifs, _ := net.Interfaces()
	for i := range ifs {
		addrs, _ := ifs[i].Addrs()
		for _, a := range addrs {
			if n, ok := a.(*net.IPNet); ok && n.IP.String() == ip {
				return &ifs[i]
			}
		}
	}
	return nil
}

// runClient: Client.WritePacketRTP/RTCP of a publisher (record) or of a playing client with a
// back channel.
func runClient(cfg config) {
	mon := newWireMon(cfg.Max)
	sc := newSweepCtx(cfg, mon)
	back := cfg.Entry == "client-backchannel"
	desc := oneMediaDesc(back)
	ts, err := rig.StartServer(rig.ServerOpts{UDP: true, TLS: cfg.Secure, HandlerSet: "full", NoLog: true, Desc: desc, NoStream: !back, Mutate: fastTimersServer})
	if err != nil {
		rigFailed(cfg, err)
		return
	}
	defer ts.Close()
	mutate := func(c *gortsplib.Client) {
		c.ListenPacket = taps.ListenPacket(mon.udpHooks("udp"))
		c.DialContext = taps.DialContext(mon.streamHooks("tcp"))
		c.DialTLSContext = taps.DialTLSContext(mon.streamHooks("tcp"), nil)
		c.RequestBackChannels = back
		fastTimersClient(c)
	}
	var c *gortsplib.Client
	var m *description.Media
	var pts []uint8
	if back {
		// nothing is written to the stream here: without a long read timeout the playing client
		// would give up after 10 s without inbound packets
		pc, err := rig.NewPlayClient(ts, rig.ClientOpts{Name: "bc", Proto: cfg.Proto, MaxPacketSize: cfg.Max, HeldEvery: 1000, Mutate: mutate, ReadTimeout: 20 * time.Minute})
		if err != nil {
			run.Fatal("client: %v", err)
		}
		if err := pc.Start(); err != nil {
			sc.violation("client-backchannel/"+cfg.Proto+"/start-failed", err.Error(), nil)
			return
		}
		defer pc.Close()
		for _, dm := range pc.Desc.Medias {
			if dm.IsBackChannel {
				m = dm
			}
		}
		if m == nil {
			run.Fatal("%s: description without back channel", cfg.name())
		}
		c, pts = pc.C, []uint8{110}
	} else {
		pdesc := rig.MakeDesc([]int{2})
		if cfg.Secure {
			// over TCP the publisher encrypts only when the announced medias ask for SAVP
			for _, pm := range pdesc.Medias {
				pm.Profile = headers.TransportProfileSAVP
			}
		}
		pub, err := rig.StartPublisher(ts, pdesc, rig.ClientOpts{Name: "pub", Proto: cfg.Proto, MaxPacketSize: cfg.Max, Path: "/pub", Mutate: mutate})
		if err != nil {
			sc.violation("client/"+cfg.Proto+"/start-failed", err.Error(), nil)
			return
		}
		defer pub.C.Close()
		c, m, pts = pub.C, pub.Desc.Medias[0], []uint8{96, 97}
	}
	requireProfile(cfg, c)
	sc.sweep(&writer{entry: cfg.Entry, paths: []string{cfg.Proto}, pts: pts,
		rtp:  func(p *rtp.Packet) error { return c.WritePacketRTP(m, p) },
		rtcp: func(p rtcp.Packet) error { return c.WritePacketRTCP(m, p) }}, 0)
	time.Sleep(200 * time.Millisecond)
	if !back {
		// the same limit holds while the client has no write queue: after PAUSE (pre-record) an
		// oversized write must still be refused (it may not be silently accepted and dropped)
		r := run.Rand("client-paused/"+cfg.name(), 0)
		if _, err := c.Pause(); err == nil {
			for _, over := range []int{1, 4, 28, 600, 2000} {
				for _, sh := range []shape{rtpShapes[0], rtpShapes[7]} {
					pk := buildRTP(sh, cfg.Max+over, newID(), uint16(over), pts[0], r)
					if pk == nil {
						continue
					}
					run.Count("client-paused-oversized-writes", 1)
					if werr := c.WritePacketRTP(m, pk); werr == nil {
						sc.violation("client/"+cfg.Proto+"/rtp/oversized-write-accepted-while-paused",
							fmt.Sprintf("client paused (pre-record): WritePacketRTP of a %d-byte packet (maximum %d) returned nil", cfg.Max+over, cfg.Max), map[string]any{"size": cfg.Max + over, "shape": sh.Name})
					}
				}
			}
		} else {
			run.Count("client-pause-failed", 1)
		}
	}
	sc.finish("client")
}

// rigFailed: a server that cannot be started is no verdict about the sweep (if Start refuses a
// valid configuration the start-time validation reports it).
func rigFailed(cfg config, err error) {
	run.Inconclusive("rig " + cfg.Entry + " could not start: " + vlib.Trunc(err.Error(), 60))
}

// requireProfile makes sure the session negotiated the profile the oracle's overhead assumes.
func requireProfile(cfg config, c *gortsplib.Client) {
	t := c.Transport()
	if t == nil || t.Session == nil {
		run.Fatal("%s: no negotiated transport", cfg.name())
	}
	if sec := t.Session.Profile == headers.TransportProfileSAVP; sec != cfg.Secure {
		run.Fatal("%s: negotiated profile %v does not match the configuration", cfg.name(), t.Session.Profile)
	}
}

// ---- driver -------------------------------------------------------------------------------

var maxima = []int{64, 100, 576, 1000, 1200, 1472}

func configs() []config {
	var out []config
	r := run.Rand("configs", 0)
	dense := !run.Quick()
	for _, max := range maxima {
		for _, sec := range []bool{false, true} {
			out = append(out, config{Entry: "server", Secure: sec, Max: max})
			for _, proto := range []string{"udp", "tcp"} {
				out = append(out, config{Entry: "client", Proto: proto, Secure: sec, Max: max})
				out = append(out, config{Entry: "client-backchannel", Proto: proto, Secure: sec, Max: max})
			}
			out = append(out, config{Entry: "server-stream-mcast", Secure: sec, Max: max})
		}
		out = append(out, config{Entry: "client-axis-mki", Proto: "udp", Secure: true, Max: max})
	}
	for i := range out {
		out[i].Dense = dense
		out[i].Reps = run.Pick(0, 120)
		out[i].Seed = r.Int63()
	}
	return out
}

func runConfig(cfg config) {
	switch cfg.Entry {
	case "server":
		runServer(cfg)
	case "server-stream-mcast":
		if !runMcast(cfg) {
			run.Count("multicast-skipped(no-interface)", 1)
		}
	case "client", "client-backchannel":
		runClient(cfg)
	case "client-axis-mki":
		runAxis(cfg)
	}
	run.Count("rigs:"+cfg.Entry+map[bool]string{true: "+srtp", false: ""}[cfg.Secure], 1)
}

func main() {
	run = vlib.Start("C18", "exploration")
	var cfgs []config
	if run.Replay != "" {
		var w struct {
			Config *config `json:"config"`
			Start  *struct {
				Side, Field string
				Value       int
			} `json:"start"`
		}
		if err := run.LoadReplay(&w); err != nil {
			run.Fatal("replay: %v", err)
		}
		if w.Start != nil {
			checkStart(w.Start.Side, w.Start.Field, w.Start.Value)
			run.Finish(1, "replay")
		}
		if w.Config == nil {
			run.Fatal("replay: witness without config")
		}
		cfgs = []config{*w.Config}
	} else {
		cfgs = configs()
		startValidation()
	}
	sem := make(chan struct{}, 6)
	var wg sync.WaitGroup
	for _, cfg := range cfgs {
		wg.Add(1)
		sem <- struct{}{}
		go func(cfg config) {
			defer wg.Done()
			defer func() { <-sem }()
			runConfig(cfg)
		}(cfg)
	}
	wg.Wait()
	run.ReportRaces()
	if run.WantSample() {
		run.Sample(map[string]any{"configs": len(cfgs), "first": cfgs[0], "rtp_shapes": rtpShapes, "rtcp_kinds": rtcpKinds})
	}
	run.Assume("a packet is identified on the wire by the 32 bits at offset 4 (RTP timestamp / RTCP sender SSRC), which SRTP and SRTCP leave in clear")
	run.Assume("multicast sizes are observed by a passive group member (lossy observation point: an accepted packet that is not seen there is counted, not reported)")
	run.Finish(evals.Load(), "writes = entry point {ServerStream -> udp+tcp readers, ServerStream -> multicast, ServerSession udp / tcp, Client record udp / tcp, Client back channel udp / tcp, Client in Axis (MKI) mode} x {plain, RTSPS+SRTP} x maximum {64,100,576,1000,1200,1472} x RTP marshalled size max-40..max+40 x shape (CSRC / extension / padding) and RTCP kind {rr, sr, app, compound, raw} x size; plus Start() validation of every WriteQueueSize 0..4096 and MaxPacketSize 1..3000 on Client and Server; distinct_nontrivial = distinct (entry, paths, security, maximum, shape or kind, size - maximum)")
}
