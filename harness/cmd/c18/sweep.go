package main

import (
	"encoding/binary"
	"fmt"
	"math/rand"

	"github.com/pion/rtcp"
	"github.com/pion/rtp"
)

// Every swept packet carries a 32-bit identifier in bytes 4..8 of its marshalled form: the
// RTP timestamp, resp. the sender SSRC of the (first) RTCP packet. These bytes stay in clear
// under SRTP / SRTCP, so the taps identify a packet on the wire in plain and secure sessions
// alike. Identifiers have the top byte idTag; automatic reports / hole-punching packets of the
// library carry random / zero values there and are size-checked but not matched.
const idTag = 0xC1

func isID(v uint32) bool { return v>>24 == idTag }

// shape describes how the bytes of an RTP packet of a given marshalled size are distributed.
type shape struct {
	Name string `json:"name"`
	CSRC int    `json:"csrc"`
	Ext  int    `json:"ext"` // 0 none, 1 one-byte profile (2 elements), 2 two-byte profile, 3 private profile (8 raw bytes)
	Pad  int    `json:"pad"`
}

var rtpShapes = []shape{
	{Name: "bare"},
	{Name: "csrc2", CSRC: 2},
	{Name: "csrc15", CSRC: 15},
	{Name: "ext-onebyte", Ext: 1},
	{Name: "ext-twobyte", Ext: 2},
	{Name: "ext-private", Ext: 3},
	{Name: "pad1", Pad: 1},
	{Name: "pad7", Pad: 7},
	{Name: "pad255", Pad: 255},
	{Name: "csrc3+ext+pad4", CSRC: 3, Ext: 1, Pad: 4},
	{Name: "csrc1+ext2+pad12", CSRC: 1, Ext: 2, Pad: 12},
}

// buildRTP returns a packet whose marshalled size is exactly size (nil when the shape does not
// fit into size).
func buildRTP(sh shape, size int, id uint32, seq uint16, pt uint8, r *rand.Rand) *rtp.Packet {
	p := &rtp.Packet{Header: rtp.Header{
		Version: 2, PayloadType: pt, SequenceNumber: seq, Timestamp: id, SSRC: r.Uint32(), Marker: r.Intn(2) == 0,
	}}
	for i := 0; i < sh.CSRC; i++ {
		p.Header.CSRC = append(p.Header.CSRC, r.Uint32())
	}
	switch sh.Ext {
	case 1:
		p.Header.Extension, p.Header.ExtensionProfile = true, 0xBEDE
		_ = p.Header.SetExtension(1, []byte{0xAA})
		_ = p.Header.SetExtension(2, []byte{1, 2, 3, 4, 5})
	case 2:
		p.Header.Extension, p.Header.ExtensionProfile = true, 0x1000
		_ = p.Header.SetExtension(1, []byte{9, 8, 7})
	case 3:
		p.Header.Extension, p.Header.ExtensionProfile = true, 0x9999
		_ = p.Header.SetExtension(0, []byte{1, 2, 3, 4, 5, 6, 7, 8})
	}
	if sh.Pad > 0 {
		p.Header.Padding = true
		p.Header.PaddingSize = byte(sh.Pad)
		p.PaddingSize = byte(sh.Pad)
	}
	n := size - p.MarshalSize()
	if n < 0 {
		return nil
	}
	p.Payload = make([]byte, n)
	for i := range p.Payload {
		p.Payload[i] = byte(r.Intn(256))
	}
	if p.MarshalSize() != size {
		panic(fmt.Sprintf("c18: shape %s: size %d != %d", sh.Name, p.MarshalSize(), size))
	}
	return p
}

// rawRTCP is an RTCP "packet" of arbitrary length (also lengths that are not a multiple of 4).
type rawRTCP []byte

func (r rawRTCP) DestinationSSRC() []uint32 { return nil }
func (r rawRTCP) Marshal() ([]byte, error)  { return append([]byte(nil), r...), nil }
func (r rawRTCP) Unmarshal(_ []byte) error  { return nil }
func (r rawRTCP) MarshalSize() int          { return len(r) }

var rtcpKinds = []string{"rr", "sr", "app", "compound", "raw"}

func filler(n int, r *rand.Rand) []byte {
	b := make([]byte, n)
	for i := range b {
		b[i] = byte(r.Intn(256))
	}
	return b
}

func reports(n int, r *rand.Rand) []rtcp.ReceptionReport {
	var out []rtcp.ReceptionReport
	for i := 0; i < n; i++ {
		out = append(out, rtcp.ReceptionReport{SSRC: r.Uint32(), FractionLost: uint8(r.Intn(256)), TotalLost: uint32(r.Intn(1 << 20)),
			LastSequenceNumber: r.Uint32(), Jitter: r.Uint32(), LastSenderReport: r.Uint32(), Delay: r.Uint32()})
	}
	return out
}

// buildRTCP returns an RTCP packet of the given kind whose marshalled size is exactly size, or
// nil when that kind cannot have this size (structured kinds are multiples of 4 with a minimum).
func buildRTCP(kind string, size int, id uint32, r *rand.Rand) rtcp.Packet {
	var p rtcp.Packet
	switch kind {
	case "raw":
		if size < 8 {
			return nil
		}
		b := filler(size, r)
		b[0], b[1] = 0x80, 204
		binary.BigEndian.PutUint16(b[2:], uint16(size/4-1))
		binary.BigEndian.PutUint32(b[4:], id)
		return rawRTCP(b)
	case "rr", "sr":
		base := 8
		if kind == "sr" {
			base = 28
		}
		if size%4 != 0 || size < base {
			return nil
		}
		nrep := r.Intn(4)
		for nrep > 0 && base+24*nrep > size {
			nrep--
		}
		ext := filler(size-base-24*nrep, r)
		if kind == "rr" {
			p = &rtcp.ReceiverReport{SSRC: id, Reports: reports(nrep, r), ProfileExtensions: ext}
		} else {
			p = &rtcp.SenderReport{SSRC: id, NTPTime: r.Uint64(), RTPTime: r.Uint32(), PacketCount: r.Uint32(), OctetCount: r.Uint32(),
				Reports: reports(nrep, r), ProfileExtensions: ext}
		}
	case "app":
		if size%4 != 0 || size < 12 {
			return nil
		}
		p = &rtcp.ApplicationDefined{SubType: uint8(r.Intn(32)), SSRC: id, Name: "VRIF", Data: filler(size-12, r)}
	case "compound":
		if size%4 != 0 {
			return nil
		}
		rr := &rtcp.ReceiverReport{SSRC: id, Reports: reports(r.Intn(2), r)}
		sd := &rtcp.SourceDescription{Chunks: []rtcp.SourceDescriptionChunk{{Source: id, Items: []rtcp.SourceDescriptionItem{{Type: rtcp.SDESCNAME, Text: "verif-c18"}}}}}
		app := &rtcp.ApplicationDefined{SSRC: id, Name: "VRIF"}
		base := rr.MarshalSize() + sd.MarshalSize() + 12
		if size < base {
			rr.Reports = nil
			base = rr.MarshalSize() + sd.MarshalSize() + 12
			if size < base {
				return nil
			}
		}
		app.Data = filler(size-base, r)
		cp := rtcp.CompoundPacket{rr, sd, app}
		p = &cp
	}
	b, err := p.Marshal()
	if err != nil || len(b) != size {
		panic(fmt.Sprintf("c18: rtcp kind %s size %d: marshalled %d err %v", kind, size, len(b), err))
	}
	return p
}
