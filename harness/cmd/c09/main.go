// C09: RTSP header codecs round-trip and parse deterministically.
//
// Monitors (all over real executions of pkg/headers and pkg/mikey):
//   - round trip: Unmarshal(Marshal(v)) == v for generated well-formed values
//   - purity: Marshal(v) is byte-identical when repeated (also after unrelated work)
//   - determinism: every parser input is parsed N times into fresh values; all results agree
//   - totality: no panic on any input
package main

import (
	"fmt"
	"math/rand"
	"os"
	"path/filepath"
	"reflect"
	"sort"
	"strings"
	"sync/atomic"
	"time"

	"github.com/bluenviron/gortsplib/v5/pkg/base"
	"github.com/bluenviron/gortsplib/v5/pkg/headers"
	"github.com/bluenviron/gortsplib/v5/pkg/mikey"

	"verif/lib/vlib"
)

const parsesPerInput = 24

type kind struct {
	name string
	// gen produces a well-formed value (pointer to the header struct) and a class label
	gen func(r *rand.Rand) (any, string)
	// marshal the value produced by gen
	marshal func(v any) (base.HeaderValue, error)
	// parse into a fresh value
	parse func(hv base.HeaderValue) (any, error)
}

const (
	tokenChars = "abcdefghijklmnopqrstuvwxyzABCDEFGHIJKLMNOPQRSTUVWXYZ0123456789-_.+"
	hexChars   = "0123456789abcdef"
	// printable text allowed inside a quoted string (no '"')
	quotedChars = "abcdefghijklmnopqrstuvwxyzABCDEFGHIJKLMNOPQRSTUVWXYZ0123456789 !#$%&'()*+,-./:;<=>?@[]^_`{|}~"
)

func ptr[T any](v T) *T { return &v }

func genHost(r *rand.Rand) string {
	switch r.Intn(4) {
	case 0:
		return fmt.Sprintf("%d.%d.%d.%d", r.Intn(256), r.Intn(256), r.Intn(256), r.Intn(256))
	case 1:
		return fmt.Sprintf("%x:%x::%x", r.Intn(65536), r.Intn(65536), r.Intn(65536))
	case 2:
		return vlib.RandString(r, 1+r.Intn(12), "abcdefghijklmnopqrstuvwxyz0123456789") + ".example.com"
	default:
		return "239." + fmt.Sprintf("%d.%d.%d", r.Intn(256), r.Intn(256), r.Intn(256))
	}
}

func genPortPair(r *rand.Rand, maxv int) *[2]int {
	switch r.Intn(4) {
	case 0:
		a := r.Intn(maxv)
		return &[2]int{a, a + 1}
	case 1:
		return &[2]int{0, 1}
	case 2:
		return &[2]int{maxv - 1, maxv}
	default:
		return &[2]int{r.Intn(maxv + 1), r.Intn(maxv + 1)}
	}
}

func genSSRC(r *rand.Rand) uint32 {
	switch r.Intn(6) {
	case 0:
		return 0
	case 1:
		return 0xFFFFFFFF
	case 2:
		return uint32(r.Intn(256)) // leading zero nibbles
	case 3:
		return uint32(r.Intn(1 << 16))
	case 4:
		return uint32(r.Intn(1<<20)) << 4
	default:
		return r.Uint32()
	}
}

func genTransport(r *rand.Rand) headers.Transport {
	var t headers.Transport
	t.Profile = headers.TransportProfile(r.Intn(2))
	t.Protocol = headers.TransportProtocol(r.Intn(2))
	if r.Intn(4) != 0 {
		t.Delivery = ptr(headers.TransportDelivery(r.Intn(2)))
	}
	if r.Intn(3) == 0 {
		t.Source2 = ptr(genHost(r))
	}
	if r.Intn(3) == 0 {
		t.Destination2 = ptr(genHost(r))
	}
	if r.Intn(2) == 0 {
		t.InterleavedIDs = genPortPair(r, 255)
	}
	if r.Intn(4) == 0 {
		t.TTL = ptr(uint(r.Intn(256)))
		if r.Intn(8) == 0 {
			t.TTL = ptr(uint(r.Uint32()))
		}
	}
	if r.Intn(3) == 0 {
		t.Ports = genPortPair(r, 65535)
	}
	if r.Intn(2) == 0 {
		t.ClientPorts = genPortPair(r, 65535)
	}
	if r.Intn(2) == 0 {
		t.ServerPorts = genPortPair(r, 65535)
	}
	if r.Intn(2) == 0 {
		t.SSRC = ptr(genSSRC(r))
	}
	if r.Intn(2) == 0 {
		t.Mode = ptr(headers.TransportMode(r.Intn(2)))
	}
	return t
}

func genSessionID(r *rand.Rand) string {
	switch r.Intn(4) {
	case 0:
		return vlib.RandString(r, 1+r.Intn(40), tokenChars)
	case 1:
		return vlib.RandString(r, 32, hexChars)
	case 2:
		return fmt.Sprintf("%d", r.Uint32())
	default:
		return vlib.RandString(r, 1+r.Intn(8), "0123456789ABCDEF")
	}
}

func genMs(r *rand.Rand) time.Duration {
	switch r.Intn(6) {
	case 0:
		return time.Duration(r.Intn(1000)) * time.Millisecond
	case 1:
		return time.Duration(r.Intn(100000)) * time.Millisecond
	case 2:
		return time.Duration(r.Intn(86400000)) * time.Millisecond
	case 3:
		return time.Duration(r.Int63n(30*86400000)) * time.Millisecond
	case 4:
		return time.Duration(r.Intn(100000)) * time.Second
	default:
		return time.Duration(r.Int63n(100*3600*1000)) * time.Millisecond
	}
}

func genUTC(r *rand.Rand, ms bool) time.Time {
	sec := r.Int63n(4102444800) // 1970..2100
	t := time.Unix(sec, 0).UTC()
	if ms {
		t = t.Add(time.Duration(r.Intn(1000)) * time.Millisecond)
	}
	return t
}

func genSMPTETime(r *rand.Rand) headers.RangeSMPTETime {
	var t headers.RangeSMPTETime
	t.Time = time.Duration(r.Intn(360000)) * time.Second
	switch r.Intn(3) {
	case 1:
		t.Frame = uint(1 + r.Intn(60))
	case 2:
		t.Frame = uint(r.Intn(60))
		t.Subframe = uint(1 + r.Intn(99))
	}
	return t
}

func genRange(r *rand.Rand) (headers.Range, string) {
	var h headers.Range
	var class string
	switch r.Intn(4) {
	case 0:
		v := &headers.RangeSMPTE{Start: genSMPTETime(r)}
		if r.Intn(2) == 0 {
			e := genSMPTETime(r)
			v.End = &e
		}
		h.Value = v
		class = "smpte"
	case 1, 2:
		v := &headers.RangeNPT{Start: genMs(r)}
		if r.Intn(2) == 0 {
			v.End = ptr(genMs(r))
		}
		h.Value = v
		class = "npt"
	default:
		ms := r.Intn(3) == 0
		v := &headers.RangeUTC{Start: genUTC(r, ms)}
		if r.Intn(2) == 0 {
			v.End = ptr(genUTC(r, ms))
		}
		h.Value = v
		class = "clock"
		if ms {
			class = "clock-ms"
		}
	}
	if r.Intn(4) == 0 {
		h.Time = ptr(genUTC(r, false))
		class += "+time"
	}
	return h, class
}

func genURL(r *rand.Rand) string {
	s := "rtsp://" + genHost(r)
	if strings.Contains(s, ":") && strings.Count(s, ":") > 1 {
		s = "rtsp://[" + strings.TrimPrefix(s, "rtsp://") + "]"
	}
	if r.Intn(2) == 0 {
		s += fmt.Sprintf(":%d", 1+r.Intn(65535))
	}
	n := 1 + r.Intn(3)
	for i := 0; i < n; i++ {
		s += "/" + vlib.RandString(r, 1+r.Intn(8), "abcdefghijklmnopqrstuvwxyz0123456789_=")
	}
	if r.Intn(3) == 0 {
		s += "?" + vlib.RandString(r, 1+r.Intn(6), "abcxyz") + "=" + vlib.RandString(r, 1+r.Intn(6), "abcxyz019")
	}
	if r.Intn(2) == 0 {
		s += fmt.Sprintf("/trackID=%d", r.Intn(8))
	}
	return s
}

func genRTPInfo(r *rand.Rand) headers.RTPInfo {
	n := 1 + r.Intn(8)
	h := make(headers.RTPInfo, n)
	for i := range h {
		e := &headers.RTPInfoEntry{URL: genURL(r)}
		if r.Intn(3) != 0 {
			v := uint16(r.Intn(65536))
			if r.Intn(8) == 0 {
				v = 65535
			}
			e.SequenceNumber = &v
		}
		if r.Intn(3) != 0 {
			v := r.Uint32()
			if r.Intn(8) == 0 {
				v = 0xFFFFFFFF
			}
			e.Timestamp = &v
		}
		h[i] = e
	}
	return h
}

func genQuoted(r *rand.Rand, minLen int) string {
	return vlib.RandString(r, minLen+r.Intn(24), quotedChars)
}

func genUser(r *rand.Rand) string {
	// user names: printable without ':' and '"'
	return vlib.RandString(r, 1+r.Intn(16), strings.ReplaceAll(quotedChars, ":", ""))
}

func genAuthenticate(r *rand.Rand) (headers.Authenticate, string) {
	var h headers.Authenticate
	if r.Intn(3) == 0 {
		h.Method = headers.AuthMethodBasic
		h.Realm = genQuoted(r, 0)
		return h, "basic"
	}
	h.Method = headers.AuthMethodDigest
	h.Realm = genQuoted(r, 0)
	h.Nonce = vlib.RandString(r, 1+r.Intn(40), hexChars)
	if r.Intn(3) == 0 {
		h.Nonce = genQuoted(r, 1)
	}
	if r.Intn(3) == 0 {
		h.Opaque = ptr(genQuoted(r, 0))
	}
	if r.Intn(3) == 0 {
		h.Stale = ptr([]string{"FALSE", "TRUE", "false", "true"}[r.Intn(4)])
	}
	if r.Intn(2) == 0 {
		h.Algorithm = ptr(headers.AuthAlgorithm(r.Intn(2)))
	}
	return h, "digest"
}

func genAuthorization(r *rand.Rand) (headers.Authorization, string) {
	var h headers.Authorization
	if r.Intn(2) == 0 {
		h.Method = headers.AuthMethodBasic
		h.Username = genUser(r)
		class := "basic"
		switch r.Intn(4) {
		case 0:
			h.BasicPass = ""
		case 1:
			// any printable text including ':' and '"'
			h.BasicPass = vlib.RandString(r, 1+r.Intn(20), quotedChars+"\"")
		case 2:
			h.BasicPass = vlib.RandString(r, 1+r.Intn(8), tokenChars) + ":" + vlib.RandString(r, r.Intn(8), tokenChars)
		default:
			h.BasicPass = vlib.RandString(r, 1+r.Intn(20), tokenChars)
		}
		if strings.Contains(h.BasicPass, ":") {
			class = "basic-colon-in-password"
		}
		return h, class
	}
	h.Method = headers.AuthMethodDigest
	h.Username = genUser(r)
	h.Realm = genQuoted(r, 0)
	h.Nonce = vlib.RandString(r, 1+r.Intn(40), hexChars)
	h.URI = genURL(r)
	h.Response = vlib.RandString(r, []int{32, 64}[r.Intn(2)], hexChars)
	if r.Intn(3) == 0 {
		h.Opaque = ptr(genQuoted(r, 0))
	}
	if r.Intn(2) == 0 {
		h.Algorithm = ptr(headers.AuthAlgorithm(r.Intn(2)))
	}
	return h, "digest"
}

func genMikey(r *rand.Rand) *mikey.Message {
	m := &mikey.Message{}
	m.Header.Version = 1
	m.Header.CSBID = r.Uint32()
	n := r.Intn(9)
	for i := 0; i < n; i++ {
		m.Header.CSIDMapInfo = append(m.Header.CSIDMapInfo, mikey.SRTPIDEntry{
			PolicyNo: uint8(r.Intn(256)), SSRC: genSSRC(r), ROC: genSSRC(r),
		})
	}
	np := r.Intn(6)
	for i := 0; i < np; i++ {
		switch r.Intn(4) {
		case 0:
			m.Payloads = append(m.Payloads, &mikey.PayloadT{TSType: 0, TSValue: r.Uint64()})
		case 1:
			m.Payloads = append(m.Payloads, &mikey.PayloadRAND{Data: vlib.RandBytes(r, 16+r.Intn(240))})
		case 2:
			sp := &mikey.PayloadSP{PolicyNo: uint8(r.Intn(256))}
			k := r.Intn(14)
			for j := 0; j < k; j++ {
				sp.PolicyParams = append(sp.PolicyParams, mikey.PayloadSPPolicyParam{
					Type:  mikey.PayloadSPPolicyParamType(r.Intn(13)),
					Value: vlib.RandBytes(r, []int{0, 1, 1, 1, 2, 4, 255}[r.Intn(7)]),
				})
			}
			m.Payloads = append(m.Payloads, sp)
		default:
			ke := &mikey.PayloadKEMAC{}
			k := 1 + r.Intn(3)
			for j := 0; j < k; j++ {
				sub := &mikey.SubPayloadKeyData{Type: mikey.SubPayloadKeyDataTypeTEK}
				sub.KeyData = vlib.RandBytes(r, []int{0, 16, 30, 46, 300}[r.Intn(5)])
				if r.Intn(2) == 0 {
					sub.KV = mikey.SubPayloadKeyDataKVSPI
					sub.SPI = vlib.RandBytes(r, []int{0, 1, 4, 255}[r.Intn(4)])
				}
				ke.SubPayloads = append(ke.SubPayloads, sub)
			}
			m.Payloads = append(m.Payloads, ke)
		}
	}
	return m
}

func kinds() []*kind {
	return []*kind{
		{
			name: "Transport",
			gen: func(r *rand.Rand) (any, string) {
				t := genTransport(r)
				return &t, fmt.Sprintf("p%d/%d", t.Profile, t.Protocol)
			},
			marshal: func(v any) (base.HeaderValue, error) { return v.(*headers.Transport).Marshal(), nil },
			parse: func(hv base.HeaderValue) (any, error) {
				var h headers.Transport
				err := h.Unmarshal(hv)
				return &h, err
			},
		},
		{
			name: "Transports",
			gen: func(r *rand.Rand) (any, string) {
				n := 1 + r.Intn(4)
				ts := make(headers.Transports, n)
				for i := range ts {
					ts[i] = genTransport(r)
				}
				return &ts, fmt.Sprintf("n%d", n)
			},
			marshal: func(v any) (base.HeaderValue, error) { return v.(*headers.Transports).Marshal(), nil },
			parse: func(hv base.HeaderValue) (any, error) {
				var h headers.Transports
				err := h.Unmarshal(hv)
				return &h, err
			},
		},
		{
			name: "Session",
			gen: func(r *rand.Rand) (any, string) {
				h := headers.Session{Session: genSessionID(r)}
				c := "plain"
				if r.Intn(2) == 0 {
					c = "timeout"
					h.Timeout = ptr(uint([]uint32{0, 1, 60, uint32(r.Intn(100000)), 0xFFFFFFFF, r.Uint32()}[r.Intn(6)]))
				}
				return &h, c
			},
			marshal: func(v any) (base.HeaderValue, error) { return v.(*headers.Session).Marshal(), nil },
			parse: func(hv base.HeaderValue) (any, error) {
				var h headers.Session
				err := h.Unmarshal(hv)
				return &h, err
			},
		},
		{
			name: "Range",
			gen: func(r *rand.Rand) (any, string) {
				h, c := genRange(r)
				return &h, c
			},
			marshal: func(v any) (base.HeaderValue, error) { return v.(*headers.Range).Marshal(), nil },
			parse: func(hv base.HeaderValue) (any, error) {
				var h headers.Range
				err := h.Unmarshal(hv)
				return &h, err
			},
		},
		{
			name: "RTPInfo",
			gen: func(r *rand.Rand) (any, string) {
				h := genRTPInfo(r)
				return &h, fmt.Sprintf("n%d", len(h))
			},
			marshal: func(v any) (base.HeaderValue, error) { return v.(*headers.RTPInfo).Marshal(), nil },
			parse: func(hv base.HeaderValue) (any, error) {
				var h headers.RTPInfo
				err := h.Unmarshal(hv)
				return &h, err
			},
		},
		{
			name: "Authenticate",
			gen: func(r *rand.Rand) (any, string) {
				h, c := genAuthenticate(r)
				return &h, c
			},
			marshal: func(v any) (base.HeaderValue, error) { return v.(*headers.Authenticate).Marshal(), nil },
			parse: func(hv base.HeaderValue) (any, error) {
				var h headers.Authenticate
				err := h.Unmarshal(hv)
				return &h, err
			},
		},
		{
			name: "Authorization",
			gen: func(r *rand.Rand) (any, string) {
				h, c := genAuthorization(r)
				return &h, c
			},
			marshal: func(v any) (base.HeaderValue, error) { return v.(*headers.Authorization).Marshal(), nil },
			parse: func(hv base.HeaderValue) (any, error) {
				var h headers.Authorization
				err := h.Unmarshal(hv)
				return &h, err
			},
		},
		{
			name: "KeyMgmt",
			gen: func(r *rand.Rand) (any, string) {
				h := headers.KeyMgmt{URL: genURL(r), MikeyMessage: genMikey(r)}
				return &h, fmt.Sprintf("pl%d", len(h.MikeyMessage.Payloads))
			},
			marshal: func(v any) (base.HeaderValue, error) { return v.(*headers.KeyMgmt).Marshal() },
			parse: func(hv base.HeaderValue) (any, error) {
				var h headers.KeyMgmt
				err := h.Unmarshal(hv)
				return &h, err
			},
		},
	}
}

// diffPath returns the path of the first differing exported field (for finding keys).
func diffPath(a, b reflect.Value, path string) string {
	if !a.IsValid() || !b.IsValid() || a.Type() != b.Type() {
		return path
	}
	switch a.Kind() {
	case reflect.Ptr, reflect.Interface:
		if a.IsNil() || b.IsNil() {
			return path
		}
		return diffPath(a.Elem(), b.Elem(), path)
	case reflect.Struct:
		if a.Type() == reflect.TypeOf(time.Time{}) {
			return path
		}
		t := a.Type()
		for i := 0; i < a.NumField(); i++ {
			if t.Field(i).PkgPath != "" {
				continue
			}
			if !vlib.DeepEqualNorm(a.Field(i).Interface(), b.Field(i).Interface()) {
				return diffPath(a.Field(i), b.Field(i), path+"."+t.Field(i).Name)
			}
		}
		return path
	case reflect.Slice:
		if a.Len() != b.Len() {
			return path + ".len"
		}
		for i := 0; i < a.Len(); i++ {
			if !vlib.DeepEqualNorm(a.Index(i).Interface(), b.Index(i).Interface()) {
				return diffPath(a.Index(i), b.Index(i), path+"[]")
			}
		}
	}
	return path
}

type witness struct {
	Header   string   `json:"header"`
	Input    []string `json:"input,omitempty"`
	Value    string   `json:"value,omitempty"`
	Got      string   `json:"got,omitempty"`
	Other    string   `json:"other,omitempty"`
	Class    string   `json:"class,omitempty"`
	Stack    string   `json:"stack,omitempty"`
	Parses   int      `json:"parses,omitempty"`
	MsSweep  bool     `json:"ms_sweep,omitempty"`
	MikeyHex string   `json:"mikey_hex,omitempty"`
}

var run *vlib.Run
var evals atomic.Int64

func safeParse(k *kind, hv base.HeaderValue) (v any, err error, panicked string) {
	defer func() {
		if p := recover(); p != nil {
			panicked = fmt.Sprintf("%v", p)
			st := vlib.Stack()
			run.Violation(k.name+"/panic/"+vlib.PanicSite(st), fmt.Sprintf("%s.Unmarshal panics: %v", k.name, p),
				witness{Header: k.name, Input: hv, Stack: st})
		}
	}()
	v, err = k.parse(hv)
	return
}

// checkValue: round trip + purity for one well-formed value.
func checkValue(k *kind, v any, class string) {
	evals.Add(1)
	run.Count("values:"+k.name, 1)
	m1, err := k.marshal(v)
	if err != nil {
		run.Violation(k.name+"/marshal-error", fmt.Sprintf("%s.Marshal fails on a well-formed value: %v", k.name, err),
			witness{Header: k.name, Value: vlib.Dump(v), Class: class})
		return
	}
	m2, _ := k.marshal(v)
	if !reflect.DeepEqual(m1, m2) {
		run.Violation(k.name+"/marshal-impure", k.name+".Marshal returns different bytes for the same value",
			witness{Header: k.name, Value: vlib.Dump(v), Input: m1, Other: strings.Join(m2, "|")})
	}
	got, perr, pan := safeParse(k, m1)
	if pan != "" {
		return
	}
	if perr != nil {
		run.Violation(k.name+"/roundtrip/parse-error/"+classKey(class),
			fmt.Sprintf("%s: marshalled form of a well-formed value is rejected: %v", k.name, perr),
			witness{Header: k.name, Value: vlib.Dump(v), Input: m1, Class: class})
		return
	}
	if !vlib.DeepEqualNorm(v, got) {
		p := diffPath(reflect.ValueOf(v), reflect.ValueOf(got), "")
		run.Violation(k.name+"/roundtrip"+p+"/"+classKey(class),
			fmt.Sprintf("%s: Unmarshal(Marshal(v)) != v at %s", k.name, p),
			witness{Header: k.name, Value: vlib.Dump(v), Got: vlib.Dump(got), Input: m1, Class: class})
		return
	}
	run.Distinct(k.name + "|" + strings.Join(m1, "|"))
	if run.WantSample() {
		run.Sample(map[string]any{"header": k.name, "marshalled": m1, "class": class})
	}
}

// classKey keeps only class labels that name a failing input class (not sizes).
func classKey(c string) string {
	switch {
	case strings.HasPrefix(c, "basic"), strings.HasPrefix(c, "digest"),
		strings.HasPrefix(c, "npt"), strings.HasPrefix(c, "smpte"), strings.HasPrefix(c, "clock"):
		return strings.TrimSuffix(c, "+time")
	}
	return "any"
}

// checkInput: determinism + totality for one parser input.
func checkInput(k *kind, hv base.HeaderValue, src string) {
	evals.Add(1)
	run.Count("inputs:"+k.name, 1)
	run.Count("inputs-src:"+src, 1)
	first, ferr, pan := safeParse(k, hv)
	if pan != "" {
		return
	}
	if ferr == nil {
		run.Count("inputs-accepted", 1)
	}
	for i := 1; i < parsesPerInput; i++ {
		got, err, pan := safeParse(k, hv)
		if pan != "" {
			return
		}
		if (err == nil) != (ferr == nil) {
			run.Violation(k.name+"/nondeterministic/error-vs-value",
				fmt.Sprintf("%s: the same input parses successfully once and fails once", k.name),
				witness{Header: k.name, Input: hv, Got: fmt.Sprint(ferr), Other: fmt.Sprint(err), Parses: i + 1})
			return
		}
		if err == nil && !vlib.DeepEqualNorm(first, got) {
			p := diffPath(reflect.ValueOf(first), reflect.ValueOf(got), "")
			run.Violation(k.name+"/nondeterministic"+p,
				fmt.Sprintf("%s: the same input parses to different values (field %s) across repeated parses", k.name, p),
				witness{Header: k.name, Input: hv, Got: vlib.Dump(first), Other: vlib.Dump(got), Parses: i + 1})
			return
		}
	}
	if ferr == nil && src == "conflict" {
		run.Distinct("conflict|" + k.name + "|" + strings.Join(hv, "|"))
	}
}

// conflictInputs builds strings in which several keys set the same field, keys are duplicated
// or appear in both cases.
func conflictInputs(r *rand.Rand, kname string) string {
	pick := func(xs []string) string { return xs[r.Intn(len(xs))] }
	switch kname {
	case "Transport", "Transports":
		profiles := []string{"RTP/AVP", "RTP/AVP/UDP", "RTP/AVP/TCP", "RTP/SAVP", "RTP/SAVP/UDP", "RTP/SAVP/TCP"}
		others := []string{
			"unicast", "multicast", "mode=play", "mode=record", "mode=\"PLAY\"", "Mode=record", "interleaved=0-1", "interleaved=2-3",
			"client_port=1000-1001", "client_port=2000", "server_port=3000-3001", "port=1-2", "ttl=1", "ttl=127", "ssrc=0A0B0C0D", "ssrc=1",
			"SSRC=FFFFFFFF", "source=1.2.3.4", "destination=5.6.7.8", "destination=", "UNICAST", "foo=bar", "foo",
		}
		n := 2 + r.Intn(6)
		parts := make([]string, n)
		for i := range parts {
			if r.Intn(3) == 0 {
				parts[i] = pick(profiles)
			} else {
				parts[i] = pick(others)
			}
		}
		if r.Intn(4) != 0 {
			parts[0] = pick(profiles)
		}
		s := strings.Join(parts, ";")
		if kname == "Transports" && r.Intn(2) == 0 {
			s += "," + pick(profiles) + ";" + pick(others) + ";" + pick(others)
		}
		return s
	case "Range":
		specs := []string{"npt=1-", "npt=0-2.5", "npt=00:01:02.5-", "smpte=0:00:01-", "smpte=0:10:20:05.03-0:10:21",
			"clock=19961108T142300Z-19961108T143520Z", "clock=20200101T000000Z-", "time=19970123T143720Z", "time=20200101T000000Z", "NPT=3-", "foo=1"}
		n := 1 + r.Intn(4)
		parts := make([]string, n)
		for i := range parts {
			parts[i] = pick(specs)
		}
		return strings.Join(parts, ";")
	case "Session":
		parts := []string{genSessionID(r)}
		for i := r.Intn(4); i > 0; i-- {
			parts = append(parts, pick([]string{"timeout=60", "timeout=1", "Timeout=5", " timeout=9", "foo=1", "timeout=x", "timeout"}))
		}
		return strings.Join(parts, ";")
	case "RTPInfo":
		n := 1 + r.Intn(3)
		es := make([]string, n)
		for i := range es {
			k := 1 + r.Intn(5)
			ps := make([]string, k)
			for j := range ps {
				ps[j] = pick([]string{"url=rtsp://a/b", "url=rtsp://c/d/trackID=1", "seq=1", "seq=65535", "rtptime=7", "rtptime=4294967295", "URL=x", "seq=x", "foo"})
			}
			es[i] = strings.Join(ps, ";")
		}
		return strings.Join(es, pick([]string{",", ", "}))
	case "Authenticate":
		m := pick([]string{"Digest", "Basic", "Digest", "digest"})
		k := 1 + r.Intn(6)
		ps := make([]string, k)
		for j := range ps {
			ps[j] = pick([]string{`realm="a"`, `realm="b"`, `Realm="c"`, `nonce="1"`, `nonce="2"`, `opaque="o"`, `stale="FALSE"`, `algorithm="MD5"`,
				`algorithm="SHA-256"`, `algorithm=md5`, `algorithm="x"`, `foo`, `realm=noquotes`})
		}
		return m + " " + strings.Join(ps, pick([]string{", ", ","}))
	case "Authorization":
		if r.Intn(4) == 0 {
			return "Basic " + pick([]string{"dXNlcjpwYXNz", "dXNlcjpwYTpzcw==", "dXNlcg==", "Og==", "!!!", ""})
		}
		k := 1 + r.Intn(8)
		ps := make([]string, k)
		for j := range ps {
			ps[j] = pick([]string{`username="u"`, `username="v"`, `realm="a"`, `realm="b"`, `nonce="1"`, `nonce="2"`, `uri="rtsp://h/p"`, `uri="x"`,
				`response="00"`, `response="11"`, `opaque="o"`, `algorithm="MD5"`, `algorithm="SHA-256"`, `algorithm="bad"`, `Username="w"`, `foo`})
		}
		return "Digest " + strings.Join(ps, pick([]string{", ", ","}))
	case "KeyMgmt":
		k := 1 + r.Intn(5)
		ps := make([]string, k)
		mk, _ := genMikeyB64(r)
		for j := range ps {
			ps[j] = pick([]string{"prot=mikey", "prot=other", `uri="rtsp://a/b"`, `uri=""`, `data="` + mk + `"`, `data="AAAA"`, `data="!"`, "foo", `URI="x"`})
		}
		return strings.Join(ps, ";")
	}
	return ""
}

func genMikeyB64(r *rand.Rand) (string, error) {
	h := headers.KeyMgmt{URL: "u", MikeyMessage: genMikey(r)}
	hv, err := h.Marshal()
	if err != nil {
		return "", err
	}
	s := hv[0]
	i := strings.Index(s, `data="`)
	return strings.TrimSuffix(s[i+6:], `"`), nil
}

func mutate(r *rand.Rand, s string) string {
	b := []byte(s)
	n := 1 + r.Intn(3)
	for i := 0; i < n; i++ {
		switch r.Intn(8) {
		case 0: // delete a byte
			if len(b) > 0 {
				p := r.Intn(len(b))
				b = append(b[:p:p], b[p+1:]...)
			}
		case 1: // insert a structural byte
			p := r.Intn(len(b) + 1)
			c := `;,="-: /.`[r.Intn(9)]
			b = append(b[:p:p], append([]byte{c}, b[p:]...)...)
		case 2: // flip a byte
			if len(b) > 0 {
				b[r.Intn(len(b))] = byte(r.Intn(256))
			}
		case 3: // truncate
			if len(b) > 0 {
				b = b[:r.Intn(len(b))]
			}
		case 4: // duplicate a segment
			if len(b) > 1 {
				p := r.Intn(len(b))
				q := p + r.Intn(len(b)-p)
				seg := append([]byte{}, b[p:q]...)
				b = append(b[:q:q], append(seg, b[q:]...)...)
			}
		case 5: // numeric extreme
			ext := []string{"4294967296", "99999999999999999999", "-1", "65536", "0", "1e999", "NaN", "0x10", "+5", "1.7976931348623157e308"}
			p := r.Intn(len(b) + 1)
			b = append(b[:p:p], append([]byte(ext[r.Intn(len(ext))]), b[p:]...)...)
		case 6: // swap two parts around a separator
			parts := strings.Split(string(b), ";")
			if len(parts) > 1 {
				i, j := r.Intn(len(parts)), r.Intn(len(parts))
				parts[i], parts[j] = parts[j], parts[i]
				b = []byte(strings.Join(parts, ";"))
			}
		case 7: // change case
			if r.Intn(2) == 0 {
				b = []byte(strings.ToUpper(string(b)))
			} else {
				b = []byte(strings.ToLower(string(b)))
			}
		}
	}
	return string(b)
}

func corpus() []string {
	var out []string
	for _, dir := range []string{"/repo/pkg/headers/testdata", "/repo/pkg/mikey/testdata"} {
		_ = filepath.Walk(dir, func(p string, info os.FileInfo, err error) error {
			if err != nil || info.IsDir() || info.Size() > 1<<16 {
				return nil
			}
			b, err := os.ReadFile(p)
			if err == nil {
				// go fuzz corpus format: second line is string("...") or []byte("...")
				for _, ln := range strings.Split(string(b), "\n") {
					ln = strings.TrimSpace(ln)
					for _, pre := range []string{"string(", "[]byte("} {
						if strings.HasPrefix(ln, pre) && strings.HasSuffix(ln, ")") {
							q := ln[len(pre) : len(ln)-1]
							var s string
							if _, err := fmt.Sscanf(q, "%q", &s); err == nil {
								out = append(out, s)
							}
						}
					}
				}
			}
			return nil
		})
	}
	return out
}

func mikeyDirect(r *rand.Rand) {
	// MIKEY messages on their own (not through KeyMgmt): round trip, purity, determinism on bytes.
	m := genMikey(r)
	evals.Add(1)
	run.Count("values:mikey.Message", 1)
	b1, err := m.Marshal()
	if err != nil {
		run.Violation("mikey/marshal-error", fmt.Sprintf("mikey.Message.Marshal fails on a well-formed message: %v", err), witness{Header: "mikey", Value: vlib.Dump(m)})
		return
	}
	b2, _ := m.Marshal()
	if string(b1) != string(b2) {
		run.Violation("mikey/marshal-impure", "mikey.Message.Marshal differs between calls", witness{Header: "mikey", Value: vlib.Dump(m)})
	}
	var got mikey.Message
	if err := got.Unmarshal(b1); err != nil {
		run.Violation("mikey/roundtrip/parse-error", fmt.Sprintf("mikey: marshalled message rejected: %v", err),
			witness{Header: "mikey", Value: vlib.Dump(m), MikeyHex: fmt.Sprintf("%x", b1)})
		return
	}
	if !vlib.DeepEqualNorm(m, &got) {
		p := diffPath(reflect.ValueOf(m), reflect.ValueOf(&got), "")
		run.Violation("mikey/roundtrip"+p, "mikey: Unmarshal(Marshal(m)) != m at "+p,
			witness{Header: "mikey", Value: vlib.Dump(m), Got: vlib.Dump(&got), MikeyHex: fmt.Sprintf("%x", b1)})
		return
	}
	run.Distinct(fmt.Sprintf("mikey|%x", b1))
	// hostile bytes: mutations of the valid encoding + PRNG bytes
	for i := 0; i < 6; i++ {
		var in []byte
		if i < 4 {
			in = []byte(mutate(r, string(b1)))
		} else {
			in = vlib.RandBytes(r, r.Intn(80))
			if len(in) > 3 {
				in[0], in[1], in[3] = 1, 0, 0
			}
		}
		mikeyBytes(in)
	}
}

func mikeyBytes(in []byte) {
	evals.Add(1)
	run.Count("inputs:mikey.Message", 1)
	defer func() {
		if p := recover(); p != nil {
			st := vlib.Stack()
			run.Violation("mikey/panic/"+vlib.PanicSite(st), fmt.Sprintf("mikey.Message.Unmarshal panics: %v", p),
				witness{Header: "mikey", MikeyHex: fmt.Sprintf("%x", in), Stack: st})
		}
	}()
	var first mikey.Message
	ferr := first.Unmarshal(in)
	for i := 0; i < 3; i++ {
		var g mikey.Message
		err := g.Unmarshal(in)
		if (err == nil) != (ferr == nil) || (err == nil && !vlib.DeepEqualNorm(&first, &g)) {
			run.Violation("mikey/nondeterministic", "mikey.Message.Unmarshal: same bytes, different result",
				witness{Header: "mikey", MikeyHex: fmt.Sprintf("%x", in)})
			return
		}
	}
	if ferr == nil {
		// an accepted message must be re-marshallable without panic
		_, _ = first.Marshal()
	}
}

func replay(ks []*kind) {
	var w witness
	if err := run.LoadReplay(&w); err != nil {
		run.Fatal("cannot load replay: %v", err)
	}
	if w.Header == "mikey" {
		var b []byte
		fmt.Sscanf(w.MikeyHex, "%x", &b)
		mikeyBytes(b)
		run.Finish(1, "replay")
	}
	for _, k := range ks {
		if k.name != w.Header {
			continue
		}
		if w.MsSweep {
			nptSweep(k, 0, 1000001)
		}
		if len(w.Input) > 0 {
			checkInput(k, w.Input, "replay")
			// if it is the marshalled form of a value, the round trip is re-checked through the
			// parse -> marshal -> parse fixed point
			if v, err, _ := safeParse(k, w.Input); err == nil {
				checkValue(k, v, w.Class)
			}
		}
	}
	run.Finish(evals.Load(), "replay")
}

// nptSweep checks every millisecond value in [from, to) as an NPT start time.
func nptSweep(k *kind, from, to int) {
	bad := 0
	firstBad := -1
	for ms := from; ms < to; ms++ {
		d := time.Duration(ms) * time.Millisecond
		h := headers.Range{Value: &headers.RangeNPT{Start: d}}
		hv := h.Marshal()
		var g headers.Range
		err := g.Unmarshal(hv)
		ok := err == nil
		if ok {
			n, isNPT := g.Value.(*headers.RangeNPT)
			ok = isNPT && n.Start == d && n.End == nil
		}
		if !ok {
			bad++
			if firstBad < 0 {
				firstBad = ms
			}
		}
	}
	evals.Add(int64(to - from))
	run.Count("npt-ms-sweep-values", int64(to-from))
	run.Count("npt-ms-sweep-mismatches", int64(bad))
	if bad > 0 {
		d := time.Duration(firstBad) * time.Millisecond
		h := headers.Range{Value: &headers.RangeNPT{Start: d}}
		var g headers.Range
		_ = g.Unmarshal(h.Marshal())
		run.Violation("Range/roundtrip.Value.Start/npt",
			fmt.Sprintf("Range NPT: %d of the millisecond values in [%d,%d) ms do not round-trip (first: %v -> %q -> %s)",
				bad, from, to, d, h.Marshal()[0], vlib.Dump(g.Value)),
			witness{Header: "Range", Input: h.Marshal(), Class: "npt", MsSweep: true})
	}
}

func main() {
	run = vlib.Start("C09", "exploration")
	ks := kinds()
	if run.Replay != "" {
		replay(ks)
		return
	}
	byName := map[string]*kind{}
	for _, k := range ks {
		byName[k.name] = k
	}

	nValues := run.Pick(60000, 2000000)  // per header kind
	nInputs := run.Pick(12000, 400000)   // per header kind and source
	nMikey := run.Pick(30000, 1000000)
	const shards = 64

	// 1. systematic: every millisecond 0..10^6 ms as NPT (exhaustive sub-space)
	run.Parallel(shards, func(_, i int) {
		per := (1000001 + shards - 1) / shards
		lo, hi := i*per, (i+1)*per
		if hi > 1000001 {
			hi = 1000001
		}
		if lo < hi {
			nptSweep(byName["Range"], lo, hi)
		}
	}, nil)
	run.Extra("npt_ms_sweep", "every millisecond value 0..1000000 ms as npt start: exhaustive")

	// 2. sampled well-formed values per header: round trip + purity
	type job struct {
		k     *kind
		shard int
	}
	var jobs []job
	for _, k := range ks {
		for s := 0; s < shards; s++ {
			jobs = append(jobs, job{k, s})
		}
	}
	run.Parallel(len(jobs), func(_, i int) {
		j := jobs[i]
		r := run.Rand("values/"+j.k.name, j.shard)
		for n := 0; n < nValues/shards; n++ {
			v, class := j.k.gen(r)
			checkValue(j.k, v, class)
		}
	}, func(i int, v any, stack string) {
		run.Violation(jobs[i].k.name+"/panic/"+vlib.PanicSite(stack), fmt.Sprintf("panic: %v", v), witness{Header: jobs[i].k.name, Stack: stack})
	})

	// 3. MIKEY messages directly
	run.Parallel(shards, func(_, i int) {
		r := run.Rand("mikey", i)
		for n := 0; n < nMikey/shards; n++ {
			mikeyDirect(r)
		}
	}, func(i int, v any, stack string) {
		run.Violation("mikey/panic/"+vlib.PanicSite(stack), fmt.Sprintf("panic: %v", v), witness{Header: "mikey", Stack: stack})
	})

	// 4. parser inputs: determinism + totality
	corp := corpus()
	run.Count("corpus-strings", int64(len(corp)))
	run.Parallel(len(jobs), func(_, i int) {
		j := jobs[i]
		k := j.k
		r := run.Rand("inputs/"+k.name, j.shard)
		per := nInputs / shards
		for n := 0; n < per; n++ { // conflict mixes
			checkInput(k, base.HeaderValue{conflictInputs(r, k.name)}, "conflict")
		}
		for n := 0; n < per; n++ { // marshalled forms and their mutations
			v, _ := k.gen(r)
			hv, err := k.marshal(v)
			if err != nil || len(hv) == 0 {
				continue
			}
			if n%4 == 0 {
				checkInput(k, hv, "marshalled")
			} else {
				checkInput(k, base.HeaderValue{mutate(r, hv[0])}, "mutated")
			}
		}
		for n := 0; n < per/4; n++ { // PRNG strings and corpus
			switch {
			case len(corp) > 0 && n%2 == 0:
				s := corp[r.Intn(len(corp))]
				if r.Intn(2) == 0 {
					s = mutate(r, s)
				}
				checkInput(k, base.HeaderValue{s}, "corpus")
			default:
				checkInput(k, base.HeaderValue{string(vlib.RandBytes(r, r.Intn(64)))}, "prng")
			}
		}
		// header-value multiplicity
		checkInput(k, base.HeaderValue{}, "empty")
		checkInput(k, base.HeaderValue{"a", "b"}, "multi")
	}, func(i int, v any, stack string) {
		run.Violation(jobs[i].k.name+"/panic/"+vlib.PanicSite(stack), fmt.Sprintf("panic: %v", v), witness{Header: jobs[i].k.name, Stack: stack})
	})

	names := []string{}
	for _, k := range ks {
		names = append(names, k.name)
	}
	sort.Strings(names)
	run.Extra("headers", names)
	run.Extra("parses_per_input", parsesPerInput)
	run.Assume("well-formed values: SMPTE times in whole seconds (the grammar has frames, not fractions); UTC times with second or millisecond resolution; NPT with millisecond resolution; quoted strings without '\"'; user names without ':'")
	run.Assume("'same failure' is read as 'fails again' - error texts are not compared")
	run.Finish(evals.Load(),
		"values: PRNG-generated well-formed header values per header grammar (+ exhaustive NPT millisecond sweep 0..10^6 ms); "+
			"inputs: conflict mixes (several keys setting one field), marshalled forms, byte/field mutations, repository fuzz corpora, PRNG bytes, each parsed "+
			fmt.Sprint(parsesPerInput)+" times. distinct_nontrivial = distinct marshalled strings that round-tripped + distinct accepted conflict-mix inputs")
}
