package main

// Part (iv): totality. Arbitrary and mutated bytes into conn.Conn.Read, base.Request.Unmarshal,
// base.Response.Unmarshal, base.InterleavedFrame.Unmarshal and the base64 stream reader: a value
// or an error, never a panic.

import (
	"bufio"
	"fmt"
	"io"
	"math/rand"
	"os"
	"path/filepath"
	"strconv"
	"strings"

	"github.com/bluenviron/gortsplib/v5/pkg/base"
	"github.com/bluenviron/gortsplib/v5/pkg/conn"
	"github.com/bluenviron/gortsplib/v5/pkg/verifhooks"

	"verif/lib/vlib"
)

type fuzzWitness struct {
	Part     string `json:"part"`
	Target   string `json:"target"`
	InputB64 string `json:"input_b64"`
	Cuts     []int  `json:"cuts,omitempty"`
	Ones     bool   `json:"one_byte_reads,omitempty"`
	Stack    string `json:"stack,omitempty"`
}

var fuzzTargets = []string{"conn.Read", "base.Request.Unmarshal", "base.Response.Unmarshal", "base.InterleavedFrame.Unmarshal", "base64+conn.Read"}

// fuzzOne feeds one input to one target; returns the number of values the target produced.
func fuzzOne(target string, in []byte, p *partition) (values int) {
	evals.Add(1)
	defer func() {
		if pv := recover(); pv != nil {
			st := vlib.Stack()
			run.Violation(target+"/panic/"+vlib.PanicSite(st), fmt.Sprintf("%s panics on %d input bytes: %v", target, len(in), pv),
				fuzzWitness{Part: "fuzz", Target: target, InputB64: b64(in), Cuts: p.cuts, Ones: p.ones, Stack: st})
		}
	}()
	var rd io.Reader = newChunkReader(in, p)
	if target == "base64+conn.Read" {
		rd = verifhooks.NewBase64StreamReader(rd)
	}
	br := bufio.NewReader(rd)
	switch target {
	case "conn.Read", "base64+conn.Read":
		c := conn.NewConn(br, nil)
		for i := 0; i < 4096; i++ {
			if _, err := c.Read(); err != nil {
				break
			}
			values++
		}
	case "base.Request.Unmarshal":
		var req base.Request
		if req.Unmarshal(br) == nil {
			values++
		}
	case "base.Response.Unmarshal":
		var res base.Response
		if res.Unmarshal(br) == nil {
			values++
		}
	default:
		var f base.InterleavedFrame
		if f.Unmarshal(br) == nil {
			values++
		}
	}
	return
}

func mutateBytes(r *rand.Rand, in []byte) []byte {
	b := append([]byte{}, in...)
	n := 1 + r.Intn(4)
	for i := 0; i < n; i++ {
		switch r.Intn(9) {
		case 0:
			if len(b) > 0 {
				p := r.Intn(len(b))
				b = append(b[:p:p], b[p+1:]...)
			}
		case 1:
			p := r.Intn(len(b) + 1)
			c := "\r\n :$R/=0"[r.Intn(9)]
			b = append(b[:p:p], append([]byte{c}, b[p:]...)...)
		case 2:
			if len(b) > 0 {
				b[r.Intn(len(b))] = byte(r.Intn(256))
			}
		case 3:
			if len(b) > 0 {
				b = b[:r.Intn(len(b))]
			}
		case 4:
			if len(b) > 1 {
				p := r.Intn(len(b))
				q := p + r.Intn(min(len(b)-p, 64))
				seg := append([]byte{}, b[p:q]...)
				b = append(b[:q:q], append(seg, b[q:]...)...)
			}
		case 5: // numeric extreme in place of a number
			ext := []string{"4294967296", "99999999999999999999", "-1", "65536", "0", "131072", "131073", "9223372036854775808", "+5", "1e9"}
			s := string(b)
			if i := strings.Index(s, "Content-Length: "); i >= 0 && r.Intn(2) == 0 {
				j := i + 16
				k := j
				for k < len(s) && s[k] >= '0' && s[k] <= '9' {
					k++
				}
				b = []byte(s[:j] + ext[r.Intn(len(ext))] + s[k:])
			} else {
				p := r.Intn(len(b) + 1)
				b = append(b[:p:p], append([]byte(ext[r.Intn(len(ext))]), b[p:]...)...)
			}
		case 6: // bit flip
			if len(b) > 0 {
				b[r.Intn(len(b))] ^= 1 << uint(r.Intn(8))
			}
		case 7: // drop a CR or an LF
			s := string(b)
			if i := strings.IndexAny(s, "\r\n"); i >= 0 {
				all := []int{}
				for j := range b {
					if b[j] == '\r' || b[j] == '\n' {
						all = append(all, j)
					}
				}
				p := all[r.Intn(len(all))]
				b = append(b[:p:p], b[p+1:]...)
			}
		case 8: // splice with PRNG bytes
			p := r.Intn(len(b) + 1)
			b = append(b[:p:p], append(vlib.RandBytes(r, 1+r.Intn(12)), b[p:]...)...)
		}
	}
	return b
}

var fuzzPrefixes = []string{
	"", "$", "$\x00", "$\x01\xff\xff", "RT", "RTSP/1.0 ", "RTSP/1.0 200", "RTSP/1.0 200 OK\r\n", "OPTIONS ", "OP", "DESCRIBE rtsp://", "SETUP rtsp://h/ RTSP/1.0\r\n",
	"GET_PARAMETER rtsp://[", "PLAY * RTSP/1.0\r\nContent-Length: ", "RE", "TEARDOWN rtsp://a@b%", "ANNOUNCE rtsp://h/p RTSP/1.0\r\nContent-Length: 5\r\n\r\n",
}

// repository fuzz corpora (go test fuzz v1 files)
func loadCorpus() [][]byte {
	var out [][]byte
	_ = filepath.Walk("/repo/pkg/base/testdata/fuzz", func(p string, info os.FileInfo, err error) error {
		if err != nil || info.IsDir() || info.Size() > 1<<16 {
			return nil
		}
		b, err := os.ReadFile(p)
		if err != nil {
			return nil
		}
		for _, ln := range strings.Split(string(b), "\n") {
			ln = strings.TrimSpace(ln)
			for _, pre := range []string{"[]byte(", "string("} {
				if strings.HasPrefix(ln, pre) && strings.HasSuffix(ln, ")") {
					if s, err := strconv.Unquote(ln[len(pre) : len(ln)-1]); err == nil {
						out = append(out, []byte(s))
					}
				}
			}
		}
		return nil
	})
	return out
}

func fuzzPartition(r *rand.Rand, n int) *partition {
	switch r.Intn(4) {
	case 0:
		return &partition{Mode: "whole"}
	case 1:
		return &partition{Mode: "1-byte", ones: true}
	default:
		return &partition{Mode: "prng", cuts: prngCuts(r, n, r.Intn(3)), eof: r.Intn(3) == 0}
	}
}

// runFuzzShard: n inputs derived from (seed, "fuzz", shard).
func runFuzzShard(shard, n int, corpus [][]byte) {
	r := run.Rand("fuzz", shard)
	var produced, inputs int64
	srcCount := map[string]int64{}
	for i := 0; i < n; i++ {
		var in []byte
		var src string
		switch k := r.Intn(10); {
		case k < 4: // mutated valid stream
			els := genSequence(r, profShort)
			d, e := serialise(els)
			if r.Intn(4) == 0 {
				in, src = mutateBytes(r, e.data), "mutated-base64-stream"
			} else {
				in, src = mutateBytes(r, d.data), "mutated-stream"
			}
		case k < 6:
			in, src = append([]byte(fuzzPrefixes[r.Intn(len(fuzzPrefixes))]), vlib.RandBytes(r, r.Intn(96))...), "prefix+prng"
		case k < 7:
			in, src = trickyBytes(r, 1+r.Intn(200)), "syntax-tokens"
		case k < 8 && len(corpus) > 0:
			in, src = corpus[r.Intn(len(corpus))], "repository-corpus"
			if r.Intn(2) == 0 {
				in, src = mutateBytes(r, in), "mutated-repository-corpus"
			}
		case k < 9: // header block with many / long lines
			var sb strings.Builder
			sb.WriteString([]string{"OPTIONS * RTSP/1.0\r\n", "RTSP/1.0 200 OK\r\n"}[r.Intn(2)])
			for j := r.Intn(300); j > 0; j-- {
				sb.WriteString(vlib.RandString(r, 1+r.Intn(6), "AbC-xyz") + ":" + strings.Repeat(" ", r.Intn(3)) + vlib.RandString(r, r.Intn(12), "abc ,;=\"") + "\r\n")
			}
			if r.Intn(2) == 0 {
				sb.WriteString("\r\n")
			}
			in, src = mutateBytes(r, []byte(sb.String())), "many-header-lines"
		default:
			in, src = vlib.RandBytes(r, r.Intn(64)), "prng"
		}
		srcCount[src]++
		// every input goes to conn.Read and to one more target
		p := fuzzPartition(r, len(in))
		produced += int64(fuzzOne("conn.Read", in, p))
		t := fuzzTargets[1+r.Intn(len(fuzzTargets)-1)]
		produced += int64(fuzzOne(t, in, fuzzPartition(r, len(in))))
		inputs += 2
		if i%64 == 0 {
			run.DistinctHash(streamHash("fuzz", in))
		}
	}
	run.Count("fuzz-inputs", inputs)
	run.Count("fuzz-values-produced", produced)
	for k, v := range srcCount {
		run.Count("fuzz-source:"+k, v)
	}
}
