// C04: RTSP framing round-trips for any chunking and any byte carrier.
//
// Monitors (over real executions of pkg/base, pkg/conn, internal/base64streamreader, and of a real
// Server / Client for the tunnels):
//
//	(i)   round trip, direct carrier: generated sequences of requests / responses / interleaved
//	      frames written with conn.Conn.Write* are read back with conn.Conn.Read through a reader
//	      that delivers the bytes in a chosen partition; compared field by field
//	(ii)  the same through base64 (one padded block per write, as the HTTP tunnel client does) and
//	      the base64 stream reader, partitions inside quanta and padding
//	(iii) limits: one over-limit element from an endless source -> error, bytes pulled and bytes
//	      allocated bounded by the limits (sequential phase, deterministic counters)
//	(iv)  totality: arbitrary / mutated bytes -> value or error, never a panic
//	(v)   live: HTTP tunnel and WebSocket tunnel end to end against a real Server (raw peers with
//	      arbitrary segmentation + the library's own Client)
package main

import (
	"encoding/base64"
	"fmt"
	"os"
	"runtime"
	"runtime/debug"
	"strings"
	"sync/atomic"
	"time"

	"verif/lib/vlib"
)

var (
	run   *vlib.Run
	evals atomic.Int64
)

// replayWitness is the union of the witnesses of all parts (selected by Part).
type replayWitness struct {
	Part     string `json:"part"`
	Seed     int64  `json:"seed"`
	Role     string `json:"role"`
	Idx      int    `json:"idx"`
	Carrier  string `json:"carrier"`
	Class    string `json:"class"`
	Variant  string `json:"variant"`
	Via      string `json:"via"`
	Target   string `json:"target"`
	InputB64 string `json:"input_b64"`
	Cuts     []int  `json:"cuts"`
	Ones     bool   `json:"one_byte_reads"`
}

func replay() {
	var w replayWitness
	if err := run.LoadReplay(&w); err != nil {
		run.Fatal("cannot load replay: %v", err)
	}
	if w.Seed != 0 {
		run.Seed = w.Seed // sequences are functions of (seed, role, idx)
	}
	id := caseID{Part: w.Part, Seed: run.Seed, Role: w.Role, Idx: w.Idx}
	switch w.Part {
	case "roundtrip":
		runSequence(id)
	case "sweep":
		runSweep(id)
	case "limits":
		runLimits(&probeWitness{Class: w.Class, Variant: w.Variant, Via: w.Via})
	case "fuzz":
		in, err := base64.StdEncoding.DecodeString(w.InputB64)
		if err != nil {
			run.Fatal("bad witness: %v", err)
		}
		fuzzOne(w.Target, in, &partition{Mode: "replay", cuts: w.Cuts, ones: w.Ones})
	case "live":
		runLive([]liveJob{{carrier: w.Carrier, id: id}})
	case "live-all":
		runLive(liveJobs(run.Seed))
	default:
		run.Fatal("unknown witness part %q", w.Part)
	}
	run.Finish(max(evals.Load(), 1), "replay")
}

// liveJobs: the tunnel sessions of a run, a function of (seed, tier).
func liveJobs(seed int64) []liveJob {
	nRaw := run.Pick(36, 1700)   // raw sessions per tunnel kind, ~28 requests each
	nClient := run.Pick(12, 300) // library-client sessions per tunnel kind
	var jobs []liveJob
	for i := 0; i < nRaw; i++ {
		jobs = append(jobs, liveJob{"tunnel-http", caseID{Part: "live", Seed: seed, Role: "live/http", Idx: i}})
		jobs = append(jobs, liveJob{"tunnel-ws", caseID{Part: "live", Seed: seed, Role: "live/ws", Idx: i}})
		if i < nClient {
			jobs = append(jobs, liveJob{"client-tunnel-http", caseID{Part: "live", Seed: seed, Role: "live/client-http", Idx: i}})
			jobs = append(jobs, liveJob{"client-tunnel-ws", caseID{Part: "live", Seed: seed, Role: "live/client-ws", Idx: i}})
		}
	}
	return jobs
}

func main() {
	run = vlib.Start("C04", "exploration")
	if run.Replay != "" {
		replay()
		return
	}
	seed := run.Seed
	t0 := time.Now()
	phase := func(name string) { // progress note in the run log (not part of any verdict)
		fmt.Printf("note: phase %s done at %.1fs\n", name, time.Since(t0).Seconds())
	}

	// C04_PARTS=limits,live,sweep,roundtrip,fuzz restricts the run (development aid; default all)
	want := func(part string) bool {
		v := os.Getenv("C04_PARTS")
		return v == "" || strings.Contains(","+v+",", ","+part+",")
	}

	// (iii) limits first: alone in the process, so that TotalAlloc deltas belong to the probe
	if want("limits") {
		runLimits(nil)
	}
	phase("limits")

	// the parsers under test allocate heavily (the base64 reader 1 KiB per source read): with the
	// default pacing the collector runs thousands of times per second on a tiny live heap and the
	// 16 workers mostly wait for it. A never-touched ballast makes a cycle start only after about
	// 1 GiB of new allocations.
	ballast := make([]byte, 1<<30)
	defer runtime.KeepAlive(ballast)
	debug.SetGCPercent(100)

	// (v) live tunnels (network-bound; run before the CPU-bound phases so that no session
	// competes with 16 busy parsers)
	jobs := liveJobs(seed)
	if want("live") {
		runLive(jobs)
	}
	phase("live")

	// (i)+(ii) exhaustive split sweep of short streams
	nSweep := run.Pick(300, 6000)
	if !want("sweep") {
		nSweep = 0
	}
	run.Parallel(nSweep, func(_, i int) {
		runSweep(caseID{Part: "sweep", Seed: seed, Role: "sweep", Idx: i})
	}, func(i int, v any, stack string) {
		run.Violation("conn.Read/panic/"+vlib.PanicSite(stack), fmt.Sprintf("panic: %v", v), rtWitness{caseID: caseID{Part: "sweep", Seed: seed, Role: "sweep", Idx: i}, Stack: stack})
	})
	run.Extra("split_sweep", fmt.Sprintf("every single split point of each of the %d short streams on both carriers, and every pair of split points of the streams of at most %d bytes: exhaustive over split positions", nSweep, pairSweepMax))
	run.Extra("split_sweep_exhaustive", true)
	phase("sweep")

	// (i)+(ii) sampled sequences
	nSeq := run.Pick(20000, 500000)
	if !want("roundtrip") {
		nSeq = 0
	}
	const batch = 50
	run.Parallel(nSeq/batch, func(_, b int) {
		for k := 0; k < batch; k++ {
			runSequence(caseID{Part: "roundtrip", Seed: seed, Role: "roundtrip", Idx: b*batch + k})
		}
	}, func(b int, v any, stack string) {
		run.Violation("conn.Read/panic/"+vlib.PanicSite(stack), fmt.Sprintf("panic: %v", v), rtWitness{caseID: caseID{Part: "roundtrip", Seed: seed, Role: "roundtrip", Idx: b * batch}, Stack: stack})
	})

	phase("roundtrip")

	// (iv) totality
	nFuzz := run.Pick(400000, 12000000)
	if !want("fuzz") {
		nFuzz = 0
	}
	const shards = 256
	corpus := loadCorpus()
	run.Count("repository-corpus-inputs", int64(len(corpus)))
	run.Parallel(shards, func(_, s int) {
		runFuzzShard(s, nFuzz/shards, corpus)
	}, func(s int, v any, stack string) {
		run.Violation("fuzz/panic/"+vlib.PanicSite(stack), fmt.Sprintf("panic: %v", v), fuzzWitness{Part: "fuzz", Stack: stack})
	})

	phase("fuzz")

	if want("live") && (run.Get("tunnel-requests:tunnel-http") == 0 || run.Get("tunnel-requests:tunnel-ws") == 0) {
		run.Inconclusive("no-tunnel-request-observed")
	}
	run.Assume("canonical form: header keys in the casing base.Header normalises to, values without leading spaces and without CR / LF / NUL, URL a fixed point of ParseURL(x).String() without user-info, Content-Length only as implied by the body, methods = the ten methods conn.Conn.Read dispatches on")
	run.Assume("token lengths up to the longest the readers accept (key 511, value 2047, URL 2047 bytes: the limit constants count the delimiter); over-limit = constant + 1 or endless")
	run.Assume("live part: requests a server keeps a connection open for (one CSeq, no Session header); responses compared with what OnResponse observed plus the Content-Length / default status message added by the marshaler")
	run.Finish(evals.Load(),
		"sequences of 1..20 canonical elements (requests with every method / IPv4, IPv6, host-name URLs with ports and queries, responses, interleaved frames; 0..255 header lines with multi-values, bodies 0..128 KiB, frames 0..65535 bytes on channels 0..255, payloads that look like RTSP syntax) from (seed, role, index); "+
			"each read back under whole / 1-byte / PRNG / structural partitions (request line, CRLF, header-body boundary, frame header; base64 quanta and padding) on the direct and the base64 carrier; short streams under every split point; "+
			"over-limit probes from an endless counting source; PRNG / mutated / corpus bytes for totality; tunnel sessions against a live server. "+
			"evaluations = (stream, partition) read-backs + limit probes + fuzz inputs + tunnel sessions. "+
			"distinct_nontrivial = distinct byte streams (per carrier) whose every partition read back identically + distinct limit probes that behaved + distinct tunnel sessions that matched + a 1/64 sample of distinct fuzz inputs")
}
