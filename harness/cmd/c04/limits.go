package main

// Part (iii): over-limit elements from a source that can supply bytes forever. The parser must
// return an error having pulled at most <bytes needed to see the limit exceeded> + one bufio
// buffer from the source, and runtime.MemStats.TotalAlloc may grow only by an amount bounded by
// the limits. Both are deterministic counters. This part runs alone (no other goroutine of the
// harness is active), each probe three times; the smallest allocation figure is used.

import (
	"bufio"
	"fmt"
	"runtime"
	"strings"

	"github.com/bluenviron/gortsplib/v5/pkg/base"
	"github.com/bluenviron/gortsplib/v5/pkg/conn"

	"verif/lib/vlib"
)

type probe struct {
	Class   string `json:"class"`   // header-count | header-key | header-value | url | method | body | ...
	Variant string `json:"variant"` // what exactly is over the limit
	Via     string `json:"via"`     // conn.Read | Request.Unmarshal | Response.Unmarshal
	prefix  []byte
	filler  []byte
	// decision = number of bytes from the start of the stream the parser has to see to know that
	// the limit is exceeded
	decision   int
	allocBound uint64
	overLimit  bool // false: element exactly at the limit, expected to be accepted (counted only)
	listed     bool // limit named by the property statement; the other probes are observations only
}

type probeWitness struct {
	Part      string `json:"part"`
	Class     string `json:"class"`
	Variant   string `json:"variant"`
	Via       string `json:"via"`
	PrefixB64 string `json:"prefix_b64"`
	PrefixLen int    `json:"prefix_len"`
	FillerB64 string `json:"filler_b64"`
	Decision  int    `json:"decision_offset"`
	Pulled    int64  `json:"bytes_pulled"`
	PullBound int64  `json:"pull_bound"`
	Alloc     uint64 `json:"bytes_allocated"`
	AllocMax  uint64 `json:"alloc_bound"`
	Result    string `json:"result"`
}

const (
	allocSlack   = 64 * 1024
	probeHardCap = 8 << 20
)

var frameFiller = []byte{'$', 0, 0, 0}

func reqLine(method, url string) string { return method + " " + url + " RTSP/1.0\r\n" }

func buildProbes() []probe {
	var ps []probe
	add := func(p probe) {
		if !p.overLimit && p.Class != "body" {
			p.decision = len(p.prefix) // the whole (finite) element
		}
		if p.allocBound == 0 {
			// refused elements: everything allocated is proportional to what had to be looked at
			p.allocBound = allocSlack + 8*uint64(p.decision)
		}
		ps = append(ps, p)
	}
	heads := []struct{ via, first string }{
		{"conn.Read", reqLine("DESCRIBE", "rtsp://10.0.0.1:8554/stream")},
		{"conn.Read", "RTSP/1.0 200 OK\r\n"},
		{"Request.Unmarshal", reqLine("SET_PARAMETER", "rtsp://[::1]/s")},
		{"Response.Unmarshal", "RTSP/1.0 404 Not Found\r\n"},
	}
	for _, h := range heads {
		fl := len(h.first)
		// header count: 256 header lines
		line := "H: v\r\n"
		add(probe{Class: "header-count", Variant: "endless header lines", Via: h.via, prefix: []byte(h.first), filler: []byte(line),
			decision: fl + limHeaderCount*len(line) + 1, overLimit: true, listed: true})
		add(probe{Class: "header-count", Variant: "exactly 256 header lines", Via: h.via,
			prefix: []byte(h.first + strings.Repeat(line, limHeaderCount+1) + "\r\n"), filler: frameFiller,
			decision: fl + limHeaderCount*len(line) + 1, overLimit: true, listed: true})
		var many strings.Builder
		for i := 0; i < limHeaderCount+1; i++ {
			fmt.Fprintf(&many, "X-K%d: %d\r\n", i, i)
		}
		add(probe{Class: "header-count", Variant: "256 distinct keys", Via: h.via, prefix: []byte(h.first + many.String() + "\r\n"), filler: frameFiller,
			decision: fl + many.Len(), overLimit: true, listed: true})
		add(probe{Class: "header-count", Variant: "at limit: 255 header lines", Via: h.via,
			prefix: []byte(h.first + strings.Repeat(line, limHeaderCount) + "\r\n"), filler: frameFiller,
			decision: fl + limHeaderCount*len(line) + 2, allocBound: allocSlack + 8*uint64(fl+limHeaderCount*len(line))})
		// key length
		add(probe{Class: "header-key", Variant: "endless key", Via: h.via, prefix: []byte(h.first), filler: []byte("K"),
			decision: fl + limKeyLen + 1, overLimit: true, listed: true})
		add(probe{Class: "header-key", Variant: "513-byte key", Via: h.via,
			prefix: []byte(h.first + strings.Repeat("K", limKeyLen+1) + ": v\r\n\r\n"), filler: frameFiller,
			decision: fl + limKeyLen + 1, overLimit: true, listed: true})
		add(probe{Class: "header-key", Variant: "at limit: 511-byte key", Via: h.via,
			prefix: []byte(h.first + "K" + strings.Repeat("k", maxKeyAccepted-1) + ": v\r\n\r\n"), filler: frameFiller,
			decision: fl + limKeyLen + 8})
		// value length
		add(probe{Class: "header-value", Variant: "endless value", Via: h.via, prefix: []byte(h.first + "Key: "), filler: []byte("v"),
			decision: fl + 5 + limValueLen + 1, overLimit: true, listed: true})
		add(probe{Class: "header-value", Variant: "2049-byte value", Via: h.via,
			prefix: []byte(h.first + "Key: " + strings.Repeat("v", limValueLen+1) + "\r\n\r\n"), filler: frameFiller,
			decision: fl + 5 + limValueLen + 1, overLimit: true, listed: true})
		add(probe{Class: "header-value", Variant: "endless run of spaces before the value", Via: h.via, prefix: []byte(h.first + "Key:"), filler: []byte(" "),
			decision: fl + 4 + limValueLen + 1, overLimit: true})
		add(probe{Class: "header-value", Variant: "at limit: 2047-byte value", Via: h.via,
			prefix: []byte(h.first + "Key: " + strings.Repeat("v", maxValueAccepted) + "\r\n\r\n"), filler: frameFiller,
			decision: fl + 5 + limValueLen + 4})
		// body length
		for _, cl := range []string{
			fmt.Sprint(limBody + 1), fmt.Sprint(limBody + bufioSize), "1048576", "2147483647", "2147483648", "4294967296", "1099511627776",
			"4611686018427387904", "9223372036854775807", "9223372036854775808", "18446744073709551615", "18446744073709551616",
			"99999999999999999999999999",
		} {
			head := h.first + "Content-Length: " + cl + "\r\n\r\n"
			add(probe{Class: "body", Variant: "Content-Length " + cl, Via: h.via, prefix: []byte(head), filler: []byte("x"),
				decision: len(head), overLimit: true, listed: true})
		}
		head := h.first + "Content-Length: " + fmt.Sprint(limBody) + "\r\n\r\n"
		add(probe{Class: "body", Variant: "at limit: Content-Length 131072", Via: h.via, prefix: []byte(head), filler: []byte("x"),
			decision: len(head) + limBody, allocBound: limBody + allocSlack})
	}
	// request line
	for _, via := range []string{"conn.Read", "Request.Unmarshal"} {
		add(probe{Class: "url", Variant: "endless URL", Via: via, prefix: []byte("DESCRIBE rtsp://h/"), filler: []byte("a"),
			decision: 9 + limURLLen + 1, overLimit: true, listed: true})
		add(probe{Class: "url", Variant: "2049-byte URL", Via: via,
			prefix: []byte(reqLine("DESCRIBE", "rtsp://h/"+strings.Repeat("a", limURLLen+1-9)) + "\r\n"), filler: frameFiller,
			decision: 9 + limURLLen + 1, overLimit: true, listed: true})
		add(probe{Class: "url", Variant: "at limit: 2047-byte URL", Via: via,
			prefix: []byte(reqLine("DESCRIBE", "rtsp://h/"+strings.Repeat("a", maxURLAccepted-9)) + "\r\n"), filler: frameFiller,
			decision: 9 + limURLLen + 16})
		add(probe{Class: "method", Variant: "endless method", Via: via, prefix: []byte("OPTIONS"), filler: []byte("S"),
			decision: limMethodLen + 1, overLimit: true, listed: true})
		add(probe{Class: "method", Variant: "65-byte method", Via: via,
			prefix: []byte(reqLine("OPTIONS"+strings.Repeat("S", limMethodLen+1-7), "rtsp://h/") + "\r\n"), filler: frameFiller,
			decision: limMethodLen + 1, overLimit: true, listed: true})
		add(probe{Class: "method", Variant: "at limit: 63-byte method", Via: via,
			prefix: []byte(reqLine("OPTIONS"+strings.Repeat("S", limMethodLen-1-7), "rtsp://h/") + "\r\n"), filler: frameFiller,
			decision: limMethodLen + 40})
		add(probe{Class: "protocol", Variant: "endless protocol token", Via: via, prefix: []byte("OPTIONS rtsp://h/ RTSP/1.0"), filler: []byte("0"),
			decision: 18 + limProtoLen + 1, overLimit: true})
	}
	for _, via := range []string{"conn.Read", "Response.Unmarshal"} {
		add(probe{Class: "response-protocol", Variant: "endless protocol token", Via: via, prefix: []byte("RTSP/1.0"), filler: []byte("0"),
			decision: 256, overLimit: true})
		add(probe{Class: "status-code", Variant: "endless status code", Via: via, prefix: []byte("RTSP/1.0 2"), filler: []byte("0"),
			decision: 9 + 5, overLimit: true})
		add(probe{Class: "status-message", Variant: "endless status message", Via: via, prefix: []byte("RTSP/1.0 200 "), filler: []byte("O"),
			decision: 13 + 256, overLimit: true})
	}
	return ps
}

// execProbe runs the parser once on the probe; returns what happened.
func execProbe(p *probe) (pulled int64, alloc uint64, err error, panicked string) {
	src := &countingReader{prefix: p.prefix, filler: p.filler, hardCap: probeHardCap}
	br := bufio.NewReaderSize(src, bufioSize)
	c := conn.NewConn(br, nil)
	var req base.Request
	var res base.Response
	var m0, m1 runtime.MemStats
	func() {
		defer func() {
			if pv := recover(); pv != nil {
				panicked = fmt.Sprintf("%v\n%s", pv, vlib.Stack())
			}
		}()
		runtime.ReadMemStats(&m0)
		switch p.Via {
		case "conn.Read":
			_, err = c.Read()
		case "Request.Unmarshal":
			err = req.Unmarshal(br)
		default:
			err = res.Unmarshal(br)
		}
		runtime.ReadMemStats(&m1)
	}()
	return src.pulled, m1.TotalAlloc - m0.TotalAlloc, err, panicked
}

func runProbe(p *probe) {
	evals.Add(1)
	var pulled int64
	var alloc uint64 = ^uint64(0)
	var err error
	for rep := 0; rep < 3; rep++ {
		pl, al, e, pan := execProbe(p)
		if pan != "" {
			run.Violation(p.Via+"/panic/"+vlib.PanicSite(pan), "limit probe panics: "+vlib.Trunc(pan, 200), mkProbeWitness(p, pl, al, "panic"))
			return
		}
		if rep > 0 && (pl != pulled || (e == nil) != (err == nil)) {
			run.Fatal("limit probe %s/%s is not deterministic (pulled %d vs %d)", p.Class, p.Variant, pl, pulled)
		}
		pulled, err = pl, e
		if al < alloc {
			alloc = al
		}
	}
	pullBound := int64(p.decision + bufioSize)
	result := "refused: " + fmt.Sprint(err)
	if err == nil {
		result = "accepted"
	}
	w := mkProbeWitness(p, pulled, alloc, result)
	w.PullBound, w.AllocMax = pullBound, p.allocBound
	if !p.overLimit {
		// element exactly at the limit: acceptance is observed and counted, its cost is bounded
		if err == nil {
			run.Count("limit-probes:at-limit-accepted", 1)
			run.Distinct("probe|" + p.Class + "|" + p.Variant + "|" + p.Via)
		} else {
			run.Count("limit-probes:at-limit-refused:"+p.Class, 1)
		}
		run.Max("at-limit-probe-bytes-allocated:"+p.Class, int64(alloc))
		if err == nil && (pulled > pullBound || alloc > p.allocBound) {
			run.Violation("limits/"+p.Class+"/at-limit-cost", fmt.Sprintf("%s at the limit (%s, via %s) pulled %d bytes (bound %d) and allocated %d bytes (bound %d)",
				p.Class, p.Variant, p.Via, pulled, pullBound, alloc, p.allocBound), w)
		}
		return
	}
	if !p.listed {
		// tokens without a limit named in the property statement: observed and counted, no verdict
		if err != nil && pulled <= pullBound && alloc <= p.allocBound {
			run.Count("unlisted-token-probes:refused-within-bound", 1)
		} else {
			run.Count("unlisted-token-probes:not-refused-within-bound:"+p.Class, 1)
			observations = append(observations, fmt.Sprintf("%s (%s) via %s: %s after pulling %d bytes, %d bytes allocated", p.Class, p.Variant, p.Via, result, pulled, alloc))
		}
		return
	}
	run.Count("limit-probes:over-limit:"+p.Class, 1)
	run.Max("over-limit-probe-bytes-pulled-beyond-decision-point", pulled-int64(p.decision))
	run.Max("over-limit-probe-bytes-allocated", int64(alloc))
	run.Max("over-limit-bytes-pulled:"+p.Class, pulled)
	run.Max("over-limit-bytes-allocated:"+p.Class, int64(alloc))
	class := p.Class
	ok := true
	if err == nil {
		ok = false
		run.Violation("limits/"+class+"/accepted", fmt.Sprintf("over-limit element accepted: %s (%s) via %s", p.Class, p.Variant, p.Via), w)
	}
	if pulled > pullBound {
		ok = false
		run.Violation("limits/"+class+"/overread", fmt.Sprintf("%s (%s) via %s: %d bytes pulled from the source before the call returned (%s); the limit is exceeded at offset %d, bound %d",
			p.Class, p.Variant, p.Via, pulled, result, p.decision, pullBound), w)
	}
	if alloc > p.allocBound {
		ok = false
		run.Violation("limits/"+class+"/overalloc", fmt.Sprintf("%s (%s) via %s: %d bytes allocated during the call (%s), bound %d",
			p.Class, p.Variant, p.Via, alloc, result, p.allocBound), w)
	}
	if ok {
		run.Distinct("probe|" + p.Class + "|" + p.Variant + "|" + p.Via)
		if p.Class == "body" && p.Via == "conn.Read" && run.WantSample() && strings.Contains(p.Variant, "9223372036854775808") {
			run.Sample(map[string]any{"part": "limits", "class": p.Class, "variant": p.Variant, "via": p.Via, "result": result,
				"bytes_pulled": pulled, "pull_bound": pullBound, "bytes_allocated": alloc, "alloc_bound": p.allocBound})
		}
	}
}

func mkProbeWitness(p *probe, pulled int64, alloc uint64, result string) probeWitness {
	pre := p.prefix
	if len(pre) > 8192 {
		pre = pre[:8192]
	}
	return probeWitness{Part: "limits", Class: p.Class, Variant: p.Variant, Via: p.Via, PrefixB64: b64(pre), PrefixLen: len(p.prefix),
		FillerB64: b64(p.filler), Decision: p.decision, Pulled: pulled, Alloc: alloc, Result: result}
}

// runLimits runs all probes sequentially. sel filters by (class, variant, via) on replay.
func runLimits(sel *probeWitness) {
	for _, p := range buildProbes() {
		if sel != nil && (p.Class != sel.Class || p.Variant != sel.Variant || p.Via != sel.Via) {
			continue
		}
		p := p
		runProbe(&p)
	}
	if len(observations) > 0 {
		run.Extra("observations_outside_the_statement", observations)
	}
	run.Extra("limits_checked", map[string]any{
		"header_count": limHeaderCount, "key_len": limKeyLen, "value_len": limValueLen, "url_len": limURLLen, "method_len": limMethodLen,
		"body": limBody, "bufio_size": bufioSize, "pull_bound": "offset at which the limit is exceeded + 4096",
		"alloc_bound_refused": "64 KiB + 8 x that offset", "alloc_bound_body_at_limit": "128 KiB + 64 KiB",
	})
}

// observations: behaviour outside the property statement that is worth a line in the evidence
var observations []string
