package main

// Parts (i) and (ii): write a generated sequence with conn.Conn.Write*, read it back with
// conn.Conn.Read through a chunking reader (directly, or base64 -> base64streamreader), compare
// element by element.

import (
	"bufio"
	"crypto/sha256"
	"fmt"
	"hash/fnv"
	"io"
	"math/rand"
	"sort"

	"github.com/bluenviron/gortsplib/v5/pkg/base"
	"github.com/bluenviron/gortsplib/v5/pkg/conn"
	"github.com/bluenviron/gortsplib/v5/pkg/verifhooks"

	"verif/lib/vlib"
)

// caseID names a generated sequence: it is re-generated from (seed, role, idx) on replay.
type caseID struct {
	Part string `json:"part"`
	Seed int64  `json:"seed"`
	Role string `json:"role"`
	Idx  int    `json:"idx"`
}

type rtWitness struct {
	caseID
	Carrier   string         `json:"carrier"`
	Partition map[string]any `json:"partition"`
	Elements  []string       `json:"elements"`
	Failing   int            `json:"failing_element"`
	Expected  string         `json:"expected,omitempty"`
	Got       string         `json:"got,omitempty"`
	StreamLen int            `json:"stream_len"`
	StreamB64 string         `json:"stream_b64,omitempty"` // the bytes handed to the reader (base64 of them)
	StreamSHA string         `json:"stream_sha256,omitempty"`
	Stack     string         `json:"stack,omitempty"`
}

func headerDiff(exp map[string][]string, got base.Header) string {
	keys := make([]string, 0, len(exp))
	for k := range exp {
		keys = append(keys, k)
	}
	sort.Strings(keys)
	for _, k := range keys {
		g, ok := got[k]
		if !ok {
			return fmt.Sprintf("key %q missing", k)
		}
		e := exp[k]
		if len(e) != len(g) {
			return fmt.Sprintf("key %q: %d values expected, %d read", k, len(e), len(g))
		}
		for i := range e {
			if e[i] != g[i] {
				return fmt.Sprintf("key %q value %d: expected %q, read %q", k, i, vlib.Trunc(e[i], 120), vlib.Trunc(g[i], 120))
			}
		}
	}
	for k := range got {
		if _, ok := exp[k]; !ok {
			return fmt.Sprintf("unexpected key %q = %q", k, got[k])
		}
	}
	return ""
}

func bytesDiff(exp, got []byte) string {
	if len(exp) != len(got) {
		return fmt.Sprintf("length %d expected, %d read", len(exp), len(got))
	}
	for i := range exp {
		if exp[i] != got[i] {
			return fmt.Sprintf("first difference at offset %d of %d (expected 0x%02x, read 0x%02x)", i, len(exp), exp[i], got[i])
		}
	}
	return ""
}

// compareElem returns ("", "") if v is e; otherwise the failure class and a description.
func compareElem(e *elem, v any) (string, string) {
	switch g := v.(type) {
	case *base.Request:
		if e.Kind != kindRequest {
			return "read-as-request", "read a request"
		}
		if string(g.Method) != e.Method {
			return "method-differs", fmt.Sprintf("method %q expected, %q read", e.Method, g.Method)
		}
		gu := ""
		if g.URL != nil {
			gu = g.URL.String()
		}
		if gu != e.URL {
			return "url-differs", fmt.Sprintf("URL %q expected, %q read", vlib.Trunc(e.URL, 200), vlib.Trunc(gu, 200))
		}
		if d := headerDiff(e.expectedHeader(), g.Header); d != "" {
			return "header-differs", d
		}
		if d := bytesDiff(e.Body, g.Body); d != "" {
			return "body-differs", "body: " + d
		}
	case *base.Response:
		if e.Kind != kindResponse {
			return "read-as-response", "read a response"
		}
		if int(g.StatusCode) != e.Status {
			return "status-differs", fmt.Sprintf("status %d expected, %d read", e.Status, g.StatusCode)
		}
		if g.StatusMessage != e.Message {
			return "message-differs", fmt.Sprintf("status message %q expected, %q read", e.Message, g.StatusMessage)
		}
		if d := headerDiff(e.expectedHeader(), g.Header); d != "" {
			return "header-differs", d
		}
		if d := bytesDiff(e.Body, g.Body); d != "" {
			return "body-differs", "body: " + d
		}
	case *base.InterleavedFrame:
		if e.Kind != kindFrame {
			return "read-as-frame", "read an interleaved frame"
		}
		if g.Channel != e.Channel {
			return "channel-differs", fmt.Sprintf("channel %d expected, %d read", e.Channel, g.Channel)
		}
		if d := bytesDiff(e.Payload, g.Payload); d != "" {
			return "payload-differs", "payload: " + d
		}
	default:
		return "unknown-type", fmt.Sprintf("conn.Read returned %T", v)
	}
	return "", ""
}

type readResult struct {
	class   string // "" = whole sequence read back identically
	what    string
	failing int
	stack   string
	site    string
}

// readBack reads len(els) elements from rd with conn.Conn.Read and compares them; then one more
// Read must fail (no phantom element after the end of the stream).
func readBack(rd io.Reader, els []elem, keep *[]any) (res readResult) {
	res.failing = -1
	defer func() {
		if p := recover(); p != nil {
			res.stack = vlib.Stack()
			res.site = vlib.PanicSite(res.stack)
			res.class = "panic"
			res.what = fmt.Sprintf("panic: %v", p)
		}
	}()
	c := conn.NewConn(bufio.NewReader(rd), nil)
	for i := range els {
		res.failing = i
		v, err := c.Read()
		if err != nil {
			res.class, res.what = "read-error", fmt.Sprintf("conn.Read fails on element %d (%s): %v", i, els[i].describe(), err)
			return
		}
		if cl, what := compareElem(&els[i], v); cl != "" {
			res.class, res.what = cl, fmt.Sprintf("element %d (%s): %s", i, els[i].describe(), what)
			return
		}
		if keep != nil {
			// the frame object is reused by the next Read (conn.go: "reuse interleaved frames"):
			// what is kept is re-checked at the end, frames as a copy taken now
			if f, ok := v.(*base.InterleavedFrame); ok {
				*keep = append(*keep, &base.InterleavedFrame{Channel: f.Channel, Payload: append([]byte{}, f.Payload...)})
			} else {
				*keep = append(*keep, v)
			}
		}
	}
	res.failing = len(els)
	if v, err := c.Read(); err == nil {
		res.class, res.what = "extra-element", fmt.Sprintf("after the %d written elements conn.Read returns another %T instead of an error", len(els), v)
		return
	}
	res.failing = -1
	return
}

func carrierReader(st *stream, p *partition) (io.Reader, *chunkReader) {
	cr := newChunkReader(st.data, p)
	if st.carrier == carrierBase64 {
		return verifhooks.NewBase64StreamReader(cr), cr
	}
	return cr, cr
}

func streamHash(carrier string, data []byte) uint64 {
	h := fnv.New64a()
	h.Write([]byte(carrier))
	h.Write(data)
	return h.Sum64()
}

func reportRT(id caseID, els []elem, st *stream, p *partition, res readResult) {
	kind := "stream"
	if res.failing >= 0 && res.failing < len(els) {
		kind = kindNames[els[res.failing].Kind]
	}
	w := rtWitness{caseID: id, Carrier: st.carrier, Partition: p.witness(), Failing: res.failing, StreamLen: len(st.data), Stack: res.stack}
	for i := range els {
		if i < 24 {
			w.Elements = append(w.Elements, els[i].describe())
		}
	}
	if len(st.data) <= 96*1024 {
		w.StreamB64 = b64(st.data)
	} else {
		w.StreamB64 = b64(st.data[:4096])
		w.StreamSHA = fmt.Sprintf("%x", sha256.Sum256(st.data))
	}
	w.Got = res.what
	key := st.carrier + "/" + kind + "/" + res.class
	if res.class == "panic" {
		key = "conn.Read/panic/" + res.site
	}
	run.Violation(key, fmt.Sprintf("%s carrier, partition %s: %s", st.carrier, p.Mode, res.what), w)
}

// checkStream reads one stream back under one partition.
func checkStream(id caseID, els []elem, st *stream, p *partition, recheck, quiet bool) bool {
	evals.Add(1)
	rd, cr := carrierReader(st, p)
	var kept []any
	var keep *[]any
	if recheck {
		keep = &kept
	}
	res := readBack(rd, els, keep)
	if !quiet {
		run.Count("partitions:"+st.carrier+":"+p.Mode, 1)
		run.Count("source-reads:"+st.carrier, int64(cr.reads))
	}
	if res.class != "" {
		reportRT(id, els, st, p, res)
		return false
	}
	if recheck {
		// values handed out earlier must still be what they were when they were returned
		for i, v := range kept {
			if cl, what := compareElem(&els[i], v); cl != "" {
				reportRT(id, els, st, p, readResult{class: "changed-after-later-read/" + cl, failing: i,
					what: fmt.Sprintf("element %d was returned correctly but differs after the following reads: %s", i, what)})
				return false
			}
		}
	}
	return true
}

// base64BytesCheck: the decoder alone, read with PRNG-sized destination buffers, must deliver
// exactly the concatenation of the written blocks.
func base64BytesCheck(id caseID, els []elem, st *stream, p *partition, r *rand.Rand) {
	evals.Add(1)
	run.Count("partitions:base64-decoder-only:"+p.Mode, 1)
	rd := verifhooks.NewBase64StreamReader(newChunkReader(st.data, p))
	out := make([]byte, 0, len(st.raw))
	buf := make([]byte, 1+r.Intn(5000))
	var rerr error
	func() {
		defer func() {
			if pv := recover(); pv != nil {
				stack := vlib.Stack()
				reportRT(id, els, st, p, readResult{class: "panic", site: vlib.PanicSite(stack), stack: stack, what: fmt.Sprintf("panic: %v", pv), failing: -1})
				rerr = fmt.Errorf("panic")
			}
		}()
		for {
			n, err := rd.Read(buf[:1+r.Intn(len(buf))])
			out = append(out, buf[:n]...)
			if err != nil {
				rerr = err
				return
			}
			if len(out) > len(st.raw)+8 {
				return
			}
		}
	}()
	if rerr != nil && rerr != io.EOF {
		if rerr.Error() != "panic" {
			reportRT(id, els, st, p, readResult{class: "decode-error", failing: -1, what: fmt.Sprintf("base64 stream reader fails after %d of %d decoded bytes: %v", len(out), len(st.raw), rerr)})
		}
		return
	}
	if d := bytesDiff(st.raw, out); d != "" {
		reportRT(id, els, st, p, readResult{class: "bytes-differ", failing: -1, what: "decoded byte stream: " + d})
	}
}

func countRoundTripped(els []elem, carrier string) {
	var n [3]int64
	for i := range els {
		n[els[i].Kind]++
	}
	for k := 0; k < 3; k++ {
		if n[k] > 0 {
			run.Count("roundtripped:"+carrier+":"+kindNames[k], n[k])
		}
	}
}

func noteSizes(els []elem) {
	for i := range els {
		e := &els[i]
		switch e.Kind {
		case kindFrame:
			run.Max("frame-payload-bytes", int64(len(e.Payload)))
			if len(e.Payload) == 65535 {
				run.Count("boundary:frame-65535", 1)
			}
		default:
			run.Max("body-bytes", int64(len(e.Body)))
			lines := headerLines(e.expectedHeader())
			run.Max("header-lines", int64(lines))
			if len(e.Body) == limBody {
				run.Count("boundary:body-128KiB", 1)
			}
			if lines == limHeaderCount {
				run.Count("boundary:header-lines-255", 1)
			}
			if len(e.URL) == maxURLAccepted {
				run.Count("boundary:url-2047", 1)
			}
			for k, vs := range e.Header {
				if len(k) == maxKeyAccepted {
					run.Count("boundary:key-511", 1)
				}
				if len(vs) > 1 {
					run.Count("multi-value-keys", 1)
				}
				for _, v := range vs {
					if len(v) == maxValueAccepted {
						run.Count("boundary:value-2047", 1)
					}
				}
			}
		}
	}
}

// runSequence: one generated sequence, both carriers, several partitions each.
func runSequence(id caseID) {
	r := run.Rand(id.Role, id.Idx)
	els := genSequence(r, profNormal)
	direct, enc := serialise(els)
	noteSizes(els)
	run.Count("sequences", 1)
	run.Count("elements-generated", int64(len(els)))
	run.Max("stream-bytes", int64(len(direct.data)))

	for _, st := range []*stream{direct, enc} {
		n := len(st.data)
		var parts []*partition
		if st.carrier == carrierDirect {
			parts = append(parts, &partition{Mode: "whole"})
		}
		// 1-byte reads: always for streams of moderate size, 1 time in 8 for the rare huge ones.
		// The base64 stream reader allocates 1 KiB per source read, so on that carrier the
		// partitions with very many reads are kept for the smaller streams (1 in 16 otherwise).
		b64c := st.carrier == carrierBase64
		switch {
		case !b64c && (n <= 1<<15 || r.Intn(8) == 0), b64c && (n <= 3000 || (n <= 1<<16 && r.Intn(16) == 0)):
			parts = append(parts, &partition{Mode: "1-byte", ones: true})
		}
		style := r.Intn(4)
		if b64c && n > 8192 && style == 0 {
			style = 1 + r.Intn(3)
		}
		parts = append(parts, &partition{Mode: "prng", cuts: prngCuts(r, n, style)})
		if r.Intn(2) == 0 {
			parts = append(parts, &partition{Mode: "structural-all", cuts: st.structs})
		} else {
			parts = append(parts, &partition{Mode: "structural-subset+prng", cuts: mergeCuts(subset(r, st.structs, 10+r.Intn(60)), prngCuts(r, n, 2+r.Intn(2)))})
		}
		ok := true
		for i, p := range parts {
			p.eof = r.Intn(4) == 0
			run.Count("cut-points:"+st.carrier, int64(len(p.cuts)))
			if !checkStream(id, els, st, p, i == 0, false) {
				ok = false
			}
		}
		if st.carrier == carrierBase64 {
			base64BytesCheck(id, els, st, parts[len(parts)-1], r)
		}
		if ok {
			countRoundTripped(els, st.carrier)
			run.DistinctHash(streamHash(st.carrier, st.data))
		}
	}
	if run.WantSample() {
		ds := make([]string, 0, len(els))
		for i := range els {
			ds = append(ds, els[i].describe())
		}
		run.Sample(map[string]any{"part": "roundtrip", "role": id.Role, "idx": id.Idx, "elements": ds,
			"direct_bytes": len(direct.data), "base64_bytes": len(enc.data), "head": string(direct.data[:min(len(direct.data), 160)])})
	}
}

// runSweep: a short stream, every single split point (and every pair of split points for very
// short ones), on both carriers. Exhaustive over the split positions of that stream.
func runSweep(id caseID) {
	r := run.Rand(id.Role, id.Idx)
	els := genSequence(r, profShort)
	direct, enc := serialise(els)
	run.Count("sweep-streams", 1)
	for _, st := range []*stream{direct, enc} {
		n := len(st.data)
		ok := true
		for k := 1; k < n; k++ {
			p := &partition{Mode: "single-split", cuts: []int{k}, eof: k%2 == 0}
			if !checkStream(id, els, st, p, false, true) {
				ok = false
				break
			}
		}
		run.Count("partitions:"+st.carrier+":single-split", int64(n-1))
		run.Count("sweep-split-points:"+st.carrier, int64(n-1))
		if ok && n <= pairSweepMax {
			for a := 1; a < n && ok; a++ {
				for b := a + 1; b < n; b++ {
					p := &partition{Mode: "split-pair", cuts: []int{a, b}}
					if !checkStream(id, els, st, p, false, true) {
						ok = false
						break
					}
				}
			}
			run.Count("partitions:"+st.carrier+":split-pair", int64((n-1)*(n-2)/2))
			run.Count("sweep-split-pairs:"+st.carrier, int64((n-1)*(n-2)/2))
			run.Count("sweep-streams-with-all-pairs:"+st.carrier, 1)
		}
		if ok {
			countRoundTripped(els, st.carrier+"-sweep")
			run.DistinctHash(streamHash("sweep/"+st.carrier, st.data))
		}
		run.Max("sweep-stream-bytes:"+st.carrier, int64(n))
	}
}

const pairSweepMax = 140
