package main

// Generators of canonical RTSP elements (requests, responses, interleaved frames).
//
// "Canonical" = the form the marshaler emits, so that read(write(x)) == x is what the property
// asks for: header keys in the casing base.Header normalises to, values without leading spaces
// and without CR, URL a fixed point of ParseURL(x).String() without user-info, Content-Length
// implied by the body (never generated explicitly), status message non-empty or the default of
// the status code.

import (
	"fmt"
	"math/rand"
	"strings"

	"github.com/bluenviron/gortsplib/v5/pkg/base"

	"verif/lib/vlib"
)

const (
	kindRequest  = 0
	kindResponse = 1
	kindFrame    = 2
)

var kindNames = [3]string{"request", "response", "frame"}

// documented limits (constants of /repo/pkg/base: header.go, request.go, body.go). The token
// readers count the delimiter, so the longest accepted token is one byte shorter than the
// constant; generated elements stay at or below these effective maxima.
const (
	limHeaderCount   = 255        // headerMaxEntryCount
	limKeyLen        = 512        // headerMaxKeyLength
	limValueLen      = 2048       // headerMaxValueLength
	limMethodLen     = 64         // requestMaxMethodLength
	limURLLen        = 2048       // requestMaxURLLength
	limProtoLen      = 64         // requestMaxProtocolLength
	limBody          = 128 * 1024 // rtspMaxBodySize
	maxKeyAccepted   = limKeyLen - 1
	maxValueAccepted = limValueLen - 1
	maxURLAccepted   = limURLLen - 1
	maxMsgAccepted   = 254
	bufioSize        = 4096 // bufio.NewReader default, as used by client.go / server_conn_reader.go
)

// the ten methods of base (conn.Conn.Read dispatches on their first two bytes)
var methods = []string{
	"ANNOUNCE", "DESCRIBE", "GET_PARAMETER", "OPTIONS", "PAUSE", "PLAY", "RECORD", "SETUP", "SET_PARAMETER", "TEARDOWN",
}

type elem struct {
	Kind    int
	Method  string
	URL     string // "" = no URL ("*")
	Status  int
	Message string // as expected on read-back
	GenMsg  string // as given to the marshaler ("" = let it pick the default)
	Header  map[string][]string
	Body    []byte
	Channel int
	Payload []byte
}

// profile bounds the sizes of generated elements.
type profile struct {
	maxElems    int
	maxHeaders  int // total header lines
	maxBody     int
	maxPayload  int
	bigRare     bool // rare boundary-size elements (limit-sized body / frame / header count / token lengths)
	bigPerMille int
}

var (
	profNormal = profile{maxElems: 20, maxHeaders: 24, maxBody: 4096, maxPayload: 2048, bigRare: true, bigPerMille: 12}
	profShort  = profile{maxElems: 3, maxHeaders: 2, maxBody: 12, maxPayload: 10}
	profLive   = profile{maxElems: 30, maxHeaders: 16, maxBody: 3000, maxPayload: 0, bigRare: true, bigPerMille: 8}
)

func fastBytes(r *rand.Rand, n int) []byte {
	b := make([]byte, n)
	r.Read(b)
	return b
}

// trickyBytes: content that looks like RTSP syntax (frame magic, status lines, method names,
// CRLFs, Content-Length lines) mixed with PRNG bytes.
func trickyBytes(r *rand.Rand, n int) []byte {
	toks := []string{
		"$", "$$$$", "$\x00\x00\x04", "RTSP/1.0", "RTSP/1.0 200 OK\r\n", "RTSP/1.0 200 OK\r\nCSeq: 1\r\n\r\n", "\r\n", "\r\n\r\n", "\r", "\n",
		"OPTIONS * RTSP/1.0\r\n\r\n", "Content-Length: 99999\r\n", "Content-Length: 0\r\n\r\n", "RT", "RE", "=", "==", " ",
	}
	for _, m := range methods {
		toks = append(toks, m, m+" rtsp://h/p RTSP/1.0\r\n")
	}
	out := make([]byte, 0, n+32)
	for len(out) < n {
		if r.Intn(3) == 0 {
			out = append(out, fastBytes(r, 1+r.Intn(8))...)
		} else {
			out = append(out, toks[r.Intn(len(toks))]...)
		}
	}
	return out[:n]
}

func genContent(r *rand.Rand, n int) []byte {
	if n == 0 {
		return nil
	}
	switch r.Intn(5) {
	case 0:
		return trickyBytes(r, n)
	case 1:
		b := make([]byte, n)
		c := []byte{'$', '\r', '\n', 'R', 0, 0xff, '='}[r.Intn(7)]
		for i := range b {
			b[i] = c
		}
		return b
	case 2:
		// SDP-like text
		var sb strings.Builder
		for sb.Len() < n {
			fmt.Fprintf(&sb, "a=control:rtsp://10.0.0.%d/s/trackID=%d\r\nm=video 0 RTP/AVP %d\r\n", r.Intn(256), r.Intn(9), 96+r.Intn(30))
		}
		return []byte(sb.String()[:n])
	default:
		return fastBytes(r, n)
	}
}

const (
	hostChars  = "abcdefghijklmnopqrstuvwxyz0123456789"
	pathChars  = "abcdefghijklmnopqrstuvwxyzABCDEFGHIJKLMNOPQRSTUVWXYZ0123456789-._~!$&'()*+,;=:@"
	queryChars = "abcdefghijklmnopqrstuvwxyzABCDEFGHIJKLMNOPQRSTUVWXYZ0123456789-._~!$'()*,;:@/?"
)

var escapes = []string{"%20", "%2F", "%41", "%C3%A9", "%25", "%3F", "%7e", "%2f"}

func genHostPort(r *rand.Rand) string {
	var h string
	switch r.Intn(8) {
	case 0, 1:
		h = fmt.Sprintf("%d.%d.%d.%d", r.Intn(256), r.Intn(256), r.Intn(256), r.Intn(256))
	case 2:
		h = fmt.Sprintf("[%x:%x::%x]", r.Intn(65536), r.Intn(65536), r.Intn(65536))
	case 3:
		h = []string{"[::1]", "[::]", "[2001:db8:0:1:2:3:4:5]", "[::ffff:10.1.2.3]", "[fe80::1%25eth0]", "[fe80::a%25en1]"}[r.Intn(6)]
	case 4:
		h = "localhost"
	default:
		n := 1 + r.Intn(3)
		ls := make([]string, n)
		for i := range ls {
			ls[i] = vlib.RandString(r, 1+r.Intn(10), hostChars)
			if r.Intn(4) == 0 {
				ls[i] += "-" + vlib.RandString(r, 1+r.Intn(4), hostChars)
			}
		}
		h = strings.Join(ls, ".")
	}
	switch r.Intn(4) {
	case 0:
		h += ":554"
	case 1:
		h += fmt.Sprintf(":%d", 1+r.Intn(65535))
	case 2:
		h += ":8554"
	}
	return h
}

func genPathSeg(r *rand.Rand) string {
	switch r.Intn(6) {
	case 0:
		return fmt.Sprintf("trackID=%d", r.Intn(10))
	case 1:
		return vlib.RandString(r, 1+r.Intn(6), pathChars) + escapes[r.Intn(len(escapes))] + vlib.RandString(r, r.Intn(4), pathChars)
	case 2:
		return vlib.RandString(r, 1+r.Intn(12), pathChars)
	default:
		return vlib.RandString(r, 1+r.Intn(10), "abcdefghijklmnopqrstuvwxyz0123456789_")
	}
}

// genURLCandidate builds a URL string; whether it is in the domain of the property (fixed point
// of ParseURL(x).String(), no user-info) is decided by genURL.
func genURLCandidate(r *rand.Rand, padTo int) string {
	s := []string{"rtsp://", "rtsp://", "rtsp://", "rtsps://"}[r.Intn(4)] + genHostPort(r)
	switch r.Intn(6) {
	case 0: // no path
	case 1:
		s += "/"
	default:
		n := 1 + r.Intn(4)
		for i := 0; i < n; i++ {
			s += "/" + genPathSeg(r)
		}
		if r.Intn(5) == 0 {
			s += "/"
		}
	}
	if padTo > 0 {
		if !strings.Contains(s[7:], "/") {
			s += "/"
		}
		for len(s) < padTo {
			s += "a"
		}
		return s[:padTo]
	}
	switch r.Intn(6) {
	case 0:
		s += "?"
	case 1, 2:
		n := 1 + r.Intn(3)
		q := make([]string, n)
		for i := range q {
			q[i] = vlib.RandString(r, 1+r.Intn(6), "abcdefghijklmnopqrstuvwxyz") + "=" + vlib.RandString(r, r.Intn(8), queryChars)
			if r.Intn(5) == 0 {
				q[i] += escapes[r.Intn(len(escapes))]
			}
		}
		s += "?" + strings.Join(q, "&")
		if r.Intn(4) == 0 {
			s += fmt.Sprintf("/trackID=%d", r.Intn(4))
		}
	}
	return s
}

func urlInDomain(s string) bool {
	if len(s) > maxURLAccepted || strings.ContainsAny(s, " \r\n") {
		return false
	}
	u, err := base.ParseURL(s)
	return err == nil && u.User == nil && u.String() == s
}

func genURL(r *rand.Rand, big bool) string {
	for try := 0; try < 20; try++ {
		pad := 0
		if big {
			pad = []int{maxURLAccepted, maxURLAccepted - 1, 1024, 300}[r.Intn(4)]
		}
		s := genURLCandidate(r, pad)
		if urlInDomain(s) {
			return s
		}
		run.Count("gen:url-candidates-outside-domain", 1)
	}
	return "rtsp://localhost:8554/stream"
}

var stdKeys = []string{
	"CSeq", "Session", "Transport", "RTP-Info", "WWW-Authenticate", "KeyMgmt", "Content-Type", "Content-Base", "Content-Encoding",
	"Range", "User-Agent", "Server", "Public", "Require", "Accept", "Authorization", "Date", "Cache-Control", "Location",
	"Scale", "Speed", "Blocksize", "Bandwidth", "X-Custom", "X-Sessioncookie", "Proxy-Require", "Via", "Expires", "Last-Modified",
}

const keyChars = "abcdefghijklmnopqrstuvwxyzABCDEFGHIJKLMNOPQRSTUVWXYZ0123456789-------_.!#$%&'*+^`|~"

// canonKey puts a token into the casing base.Header normalises to, by construction (first letter
// and letters after '-' upper case, all other letters lower case; four special spellings).
func canonKey(k string) string {
	b := []byte(k)
	up := true
	for i, c := range b {
		switch {
		case c >= 'a' && c <= 'z':
			if up {
				b[i] = c - 32
			}
		case c >= 'A' && c <= 'Z':
			if !up {
				b[i] = c + 32
			}
		}
		up = c == '-'
	}
	switch strings.ToLower(string(b)) {
	case "rtp-info":
		return "RTP-Info"
	case "www-authenticate":
		return "WWW-Authenticate"
	case "cseq":
		return "CSeq"
	case "keymgmt":
		return "KeyMgmt"
	}
	return string(b)
}

func genKey(r *rand.Rand, big bool) string {
	for {
		var k string
		switch {
		case big:
			k = canonKey(vlib.RandString(r, []int{maxKeyAccepted, maxKeyAccepted - 1, 256, 100}[r.Intn(4)], keyChars))
		case r.Intn(3) != 0:
			k = stdKeys[r.Intn(len(stdKeys))]
		default:
			k = canonKey(vlib.RandString(r, 1+r.Intn(24), keyChars))
		}
		if k != "Content-Length" {
			return k
		}
	}
}

func genValue(r *rand.Rand, big bool) string {
	n := 0
	switch {
	case big:
		n = []int{maxValueAccepted, maxValueAccepted - 1, 1024, 500}[r.Intn(4)]
	case r.Intn(12) == 0:
		n = 0
	case r.Intn(10) == 0:
		n = 40 + r.Intn(300)
	default:
		n = 1 + r.Intn(40)
	}
	b := make([]byte, n)
	hi := r.Intn(6) == 0
	for i := range b {
		switch {
		case hi && r.Intn(4) == 0:
			b[i] = byte(0x80 + r.Intn(0x80))
		case r.Intn(40) == 0:
			b[i] = '\t'
		default:
			b[i] = byte(0x20 + r.Intn(0x5f))
		}
	}
	if n > 0 && b[0] == ' ' {
		b[0] = 'v' // leading spaces are skipped by the reader: not canonical
	}
	if n > 4 && r.Intn(10) == 0 {
		copy(b[1:], []string{"$$$", "RTSP", "$24", ": ", "A: b"}[r.Intn(5)])
	}
	return string(b)
}

// genHeader generates header lines (key, value) with multi-values; lines counts every value.
func genHeader(r *rand.Rand, lines int, bigTokens bool) map[string][]string {
	h := map[string][]string{}
	for n := 0; n < lines; {
		k := genKey(r, bigTokens && r.Intn(3) == 0)
		m := 1
		if r.Intn(5) == 0 {
			m = 2 + r.Intn(3)
		}
		for j := 0; j < m && n < lines; j++ {
			h[k] = append(h[k], genValue(r, bigTokens && r.Intn(3) == 0))
			n++
		}
	}
	return h
}

func headerLines(h map[string][]string) int {
	n := 0
	for _, v := range h {
		n += len(v)
	}
	return n
}

func genMessageParts(r *rand.Rand, p profile) (map[string][]string, []byte) {
	big := p.bigRare && r.Intn(1000) < p.bigPerMille
	lines := 0
	if p.maxHeaders > 0 {
		switch r.Intn(4) {
		case 0:
			lines = r.Intn(3)
		default:
			lines = r.Intn(p.maxHeaders + 1)
		}
	}
	bigTokens := false
	bodyLen := 0
	if p.maxBody > 0 {
		switch r.Intn(5) {
		case 0, 1:
		case 2:
			bodyLen = 1 + r.Intn(32)
		default:
			bodyLen = 1 + r.Intn(p.maxBody)
		}
	}
	if big {
		switch r.Intn(6) {
		case 0:
			lines = []int{limHeaderCount - 1, limHeaderCount - 1, limHeaderCount - 2, 100 + r.Intn(150)}[r.Intn(4)]
			if r.Intn(2) == 0 {
				bodyLen = 0
				if lines == limHeaderCount-1 {
					lines = limHeaderCount // no Content-Length line needed
				}
			} else if bodyLen == 0 {
				bodyLen = 1
			}
		case 1:
			bigTokens = true
			if lines == 0 {
				lines = 1 + r.Intn(4)
			}
		case 2:
			bodyLen = []int{limBody, limBody, limBody - 1, 65536, 65535, 100000}[r.Intn(6)]
		default:
			bodyLen = 4096 + r.Intn(limBody-4096+1)
		}
	}
	return genHeader(r, lines, bigTokens), genContent(r, bodyLen)
}

func genRequest(r *rand.Rand, p profile) elem {
	e := elem{Kind: kindRequest, Method: methods[r.Intn(len(methods))]}
	if e.Method == "OPTIONS" && r.Intn(4) == 0 {
		e.URL = ""
	} else {
		e.URL = genURL(r, p.bigRare && r.Intn(1000) < p.bigPerMille)
	}
	e.Header, e.Body = genMessageParts(r, p)
	return e
}

var commonStatus = []int{100, 200, 200, 200, 301, 302, 400, 401, 404, 454, 455, 461, 463, 500, 501, 551, 553}

func genResponse(r *rand.Rand, p profile) elem {
	e := elem{Kind: kindResponse}
	switch r.Intn(6) {
	case 0:
		e.Status = r.Intn(1000)
	case 1:
		e.Status = 100 + r.Intn(500)
	default:
		e.Status = commonStatus[r.Intn(len(commonStatus))]
	}
	def, known := base.StatusMessages[base.StatusCode(e.Status)]
	switch r.Intn(6) {
	case 0: // let the marshaler choose: the default of a known code, empty otherwise
		e.GenMsg = ""
		e.Message = def
	case 1:
		n := 1 + r.Intn(30)
		if p.bigRare && r.Intn(100) == 0 {
			n = maxMsgAccepted - r.Intn(2)
		}
		b := make([]byte, n)
		for i := range b {
			b[i] = byte(0x20 + r.Intn(0x5f))
		}
		e.GenMsg = string(b)
		e.Message = e.GenMsg
	default:
		if known {
			e.GenMsg = def
		} else {
			e.GenMsg = "Status " + fmt.Sprint(e.Status)
		}
		e.Message = e.GenMsg
	}
	e.Header, e.Body = genMessageParts(r, p)
	return e
}

func genFrame(r *rand.Rand, p profile) elem {
	e := elem{Kind: kindFrame, Channel: r.Intn(256)}
	switch r.Intn(8) {
	case 0:
		e.Channel = 0
	case 1:
		e.Channel = 255
	case 2:
		e.Channel = '$'
	}
	n := 0
	if p.maxPayload > 0 {
		switch r.Intn(6) {
		case 0:
		case 1:
			n = 1 + r.Intn(16)
		default:
			n = 1 + r.Intn(p.maxPayload)
		}
	}
	if p.bigRare && r.Intn(1000) < p.bigPerMille*2 {
		n = []int{65535, 65535, 65534, 32768, 1 + r.Intn(65535)}[r.Intn(5)]
	}
	e.Payload = genContent(r, n)
	if e.Payload == nil {
		e.Payload = []byte{}
	}
	return e
}

func genElem(r *rand.Rand, p profile) elem {
	switch r.Intn(3) {
	case 0:
		return genRequest(r, p)
	case 1:
		return genResponse(r, p)
	default:
		return genFrame(r, p)
	}
}

func genSequence(r *rand.Rand, p profile) []elem {
	n := 1 + r.Intn(p.maxElems)
	out := make([]elem, n)
	for i := range out {
		out[i] = genElem(r, p)
	}
	return out
}

// expectedHeader is what the reader must return: the generated lines plus the Content-Length the
// marshaler adds for a non-empty body.
func (e *elem) expectedHeader() map[string][]string {
	h := make(map[string][]string, len(e.Header)+1)
	for k, v := range e.Header {
		h[k] = v
	}
	if len(e.Body) != 0 {
		h["Content-Length"] = []string{fmt.Sprint(len(e.Body))}
	}
	return h
}

func (e *elem) libHeader() base.Header {
	h := make(base.Header, len(e.Header)+1)
	for k, v := range e.Header {
		h[k] = append(base.HeaderValue(nil), v...)
	}
	return h
}

func (e *elem) libRequest() *base.Request {
	req := &base.Request{Method: base.Method(e.Method), Header: e.libHeader(), Body: e.Body}
	if e.URL != "" {
		u, err := base.ParseURL(e.URL)
		if err != nil {
			run.Fatal("generator produced an unparsable URL %q: %v", e.URL, err)
		}
		req.URL = u
	}
	return req
}

func (e *elem) libResponse() *base.Response {
	return &base.Response{StatusCode: base.StatusCode(e.Status), StatusMessage: e.GenMsg, Header: e.libHeader(), Body: e.Body}
}

func (e *elem) describe() string {
	switch e.Kind {
	case kindRequest:
		return fmt.Sprintf("request %s %q headers=%d body=%d", e.Method, vlib.Trunc(e.URL, 80), headerLines(e.Header), len(e.Body))
	case kindResponse:
		return fmt.Sprintf("response %d %q headers=%d body=%d", e.Status, vlib.Trunc(e.Message, 40), headerLines(e.Header), len(e.Body))
	default:
		return fmt.Sprintf("frame channel=%d payload=%d", e.Channel, len(e.Payload))
	}
}
