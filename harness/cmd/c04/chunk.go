package main

// Byte carriers and partitions: serialisation through conn.Conn.Write* (directly or through a
// writer that does what clientTunnelHTTP.Write does: one padded base64 block per Write), the
// chunking reader that hands the stream out in a chosen partition, and the counting reader of
// the limit probes.

import (
	"bytes"
	"encoding/base64"
	"io"
	"math/rand"
	"sort"

	"github.com/bluenviron/gortsplib/v5/pkg/base"
	"github.com/bluenviron/gortsplib/v5/pkg/conn"
)

const (
	carrierDirect = "direct"
	carrierBase64 = "base64"
)

// recWriter records element boundaries (one Write per element, as conn.Conn.Write* does) and
// keeps the stream in both carriers: raw, and what clientTunnelHTTP.Write (client_tunnel_http.go)
// puts on the POST channel: writeChan.Write([]byte(base64.StdEncoding.EncodeToString(p))) - one
// padded base64 block per Write.
type recWriter struct {
	raw     []byte
	rawEnds []int
	enc     []byte
	encEnds []int
	writes  int
}

func (w *recWriter) Write(p []byte) (int, error) {
	w.raw = append(w.raw, p...)
	w.rawEnds = append(w.rawEnds, len(w.raw))
	w.enc = append(w.enc, base64.StdEncoding.EncodeToString(p)...)
	w.encEnds = append(w.encEnds, len(w.enc))
	w.writes++
	return len(p), nil
}

type stream struct {
	carrier string
	data    []byte
	ends    []int // end offset of every element in data
	raw     []byte
	rawEnds []int
	structs []int // structural cut candidates (offsets in data)
}

// writeElems serialises the sequence with the library's writers.
func writeElems(els []elem, w io.Writer) {
	c := conn.NewConn(nil, w)
	var fbuf []byte
	for i := range els {
		e := &els[i]
		var err error
		switch e.Kind {
		case kindRequest:
			err = c.WriteRequest(e.libRequest())
		case kindResponse:
			err = c.WriteResponse(e.libResponse())
		default:
			if cap(fbuf) < 4+len(e.Payload) {
				fbuf = make([]byte, 4+len(e.Payload))
			}
			err = c.WriteInterleavedFrame(&base.InterleavedFrame{Channel: e.Channel, Payload: e.Payload}, fbuf[:4+len(e.Payload)])
		}
		if err != nil {
			run.Fatal("writer failed: %v", err)
		}
	}
}

// serialise returns the sequence on both carriers.
func serialise(els []elem) (direct, b64s *stream) {
	w := &recWriter{}
	writeElems(els, w)
	if w.writes != len(els) {
		run.Fatal("writer made %d writes for %d elements", w.writes, len(els))
	}
	direct = &stream{carrier: carrierDirect, data: w.raw, ends: w.rawEnds, raw: w.raw, rawEnds: w.rawEnds}
	b64s = &stream{carrier: carrierBase64, data: w.enc, ends: w.encEnds, raw: w.raw, rawEnds: w.rawEnds}
	direct.structs = structuralCuts(els, direct)
	b64s.structs = structuralCuts(els, b64s)
	return
}

// structuralCuts lists the offsets at which a read boundary is most likely to matter: inside the
// 2-byte dispatch peek and the 4-byte frame header, around every space of the first line, inside
// and around every CRLF of the head, between head and body, before the last byte. For the base64
// carrier the raw offsets are mapped into the quantum that carries them (all three inner
// positions of that quantum) and the positions around the padding of every block are added.
func structuralCuts(els []elem, st *stream) []int {
	var rawCuts [][]int // per element, relative to its start
	start := 0
	for i := range els {
		e := &els[i]
		end := st.rawEnds[i]
		b := st.raw[start:end]
		var cs []int
		add := func(o int) {
			if o > 0 && o < len(b) {
				cs = append(cs, o)
			}
		}
		for o := 1; o <= 5; o++ {
			add(o)
		}
		add(len(b) - 1)
		if e.Kind != kindFrame {
			head := len(b) - len(e.Body)
			firstLine := true
			for p := 0; p < head; p++ {
				switch b[p] {
				case '\r':
					add(p)
					add(p + 1)
					add(p + 2)
					firstLine = false
				case ' ', ':':
					if firstLine || b[p] == ':' {
						add(p)
						add(p + 1)
					}
				}
				if len(cs) > 4000 {
					break
				}
			}
			add(head - 1)
			add(head)
			add(head + 1)
		}
		rawCuts = append(rawCuts, cs)
		start = end
	}
	var out []int
	if st.carrier == carrierDirect {
		start = 0
		for i, cs := range rawCuts {
			if start > 0 {
				out = append(out, start)
			}
			for _, o := range cs {
				out = append(out, start+o)
			}
			start = st.rawEnds[i]
		}
	} else {
		start = 0
		for i, cs := range rawCuts {
			end := st.ends[i]
			for _, o := range cs {
				q := start + (o/3)*4
				out = append(out, q, q+1, q+2, q+3)
			}
			for d := -5; d <= 3; d++ {
				out = append(out, end+d)
			}
			start = end
		}
	}
	sort.Ints(out)
	res := out[:0]
	prev := 0
	for _, o := range out {
		if o > prev && o < len(st.data) {
			res = append(res, o)
			prev = o
		}
	}
	return res
}

// partition: the stream is delivered in reads that never cross a cut; ones = 1-byte reads.
type partition struct {
	Mode string `json:"mode"`
	ones bool
	cuts []int
	eof  bool // deliver io.EOF together with the last bytes
}

func (p *partition) witness() map[string]any {
	m := map[string]any{"mode": p.Mode, "cuts": len(p.cuts), "eof_with_last_bytes": p.eof}
	if len(p.cuts) <= 64 {
		m["cut_offsets"] = p.cuts
	} else {
		m["first_cut_offsets"] = p.cuts[:64]
	}
	return m
}

type chunkReader struct {
	data  []byte
	pos   int
	p     *partition
	ci    int
	reads int
}

func newChunkReader(data []byte, p *partition) *chunkReader {
	return &chunkReader{data: data, p: p}
}

func (c *chunkReader) Read(b []byte) (int, error) {
	if c.pos >= len(c.data) {
		return 0, io.EOF
	}
	if len(b) == 0 {
		return 0, nil
	}
	end := len(c.data)
	if c.p.ones {
		end = c.pos + 1
	} else {
		for c.ci < len(c.p.cuts) && c.p.cuts[c.ci] <= c.pos {
			c.ci++
		}
		if c.ci < len(c.p.cuts) {
			end = c.p.cuts[c.ci]
		}
	}
	n := copy(b, c.data[c.pos:end])
	c.pos += n
	c.reads++
	if c.p.eof && c.pos == len(c.data) {
		return n, io.EOF
	}
	return n, nil
}

func prngCuts(r *rand.Rand, n int, style int) []int {
	var maxChunk int
	switch style {
	case 0:
		maxChunk = 4
	case 1:
		maxChunk = 64
	case 2:
		maxChunk = 1500
	default:
		maxChunk = 9000
	}
	if n > 1<<16 && maxChunk < 64 {
		maxChunk = 64 // keep the cut list of big streams small; 1-byte reads are a mode of their own
	}
	var cuts []int
	for pos := 0; ; {
		step := 1 + r.Intn(maxChunk)
		if style >= 2 && r.Intn(4) == 0 {
			step = 1 + r.Intn(4)
		}
		pos += step
		if pos >= n {
			break
		}
		cuts = append(cuts, pos)
	}
	return cuts
}

func subset(r *rand.Rand, cuts []int, keepPerCent int) []int {
	out := make([]int, 0, len(cuts)*keepPerCent/100+1)
	for _, c := range cuts {
		if r.Intn(100) < keepPerCent {
			out = append(out, c)
		}
	}
	return out
}

func mergeCuts(a, b []int) []int {
	out := append(append([]int{}, a...), b...)
	sort.Ints(out)
	res := out[:0]
	prev := -1
	for _, o := range out {
		if o != prev {
			res = append(res, o)
			prev = o
		}
	}
	return res
}

// countingReader supplies prefix followed by filler repeated forever and counts what was pulled.
// hardCap turns an endless consumer into an error instead of a hang.
type countingReader struct {
	prefix  []byte
	filler  []byte
	pos     int64
	pulled  int64
	hardCap int64
}

func (c *countingReader) Read(b []byte) (int, error) {
	if c.pulled >= c.hardCap {
		return 0, io.ErrUnexpectedEOF
	}
	n := 0
	for n < len(b) {
		if c.pos < int64(len(c.prefix)) {
			k := copy(b[n:], c.prefix[c.pos:])
			n += k
			c.pos += int64(k)
			continue
		}
		off := int((c.pos - int64(len(c.prefix))) % int64(len(c.filler)))
		k := copy(b[n:], c.filler[off:])
		n += k
		c.pos += int64(k)
	}
	c.pulled += int64(n)
	return n, nil
}

func b64(b []byte) string { return base64.StdEncoding.EncodeToString(b) }

func sameBytes(a, b []byte) bool { return bytes.Equal(a, b) }
