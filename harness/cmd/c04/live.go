package main

// Part (v): the same generated requests through the real tunnels of a real gortsplib.Server:
//   - HTTP tunnel: a raw peer does the GET + POST handshake (x-sessioncookie), sends the requests
//     base64-encoded (one padded block per request, as clientTunnelHTTP.Write does) over the POST
//     channel in arbitrary TCP segments and decodes the responses from the GET channel;
//   - WebSocket tunnel: gorilla/websocket peer, subprotocol rtsp.onvif.org, the byte stream is cut
//     into arbitrary chunks, one binary message per chunk;
//   - a real gortsplib.Client in both tunnel modes (OPTIONS + DESCRIBE).
// Oracle: the server's OnRequest hook observes exactly the generated sequence; what the peer
// decodes equals what OnResponse observed (plus the Content-Length / default status message the
// marshaler adds).

import (
	"bufio"
	"context"
	"fmt"
	"io"
	"math/rand"
	"net"
	"net/http"
	"runtime"
	"sort"
	"strings"
	"sync"
	"time"

	"github.com/gorilla/websocket"

	"github.com/bluenviron/gortsplib/v5"
	"github.com/bluenviron/gortsplib/v5/pkg/base"
	"github.com/bluenviron/gortsplib/v5/pkg/conn"

	"verif/lib/vlib"
)

const (
	liveTimeout = 40 * time.Second
	testSDP     = "v=0\r\no=- 0 0 IN IP4 127.0.0.1\r\ns=Stream\r\nc=IN IP4 0.0.0.0\r\nt=0 0\r\n" +
		"m=video 0 RTP/AVP 96\r\na=rtpmap:96 H264/90000\r\na=fmtp:96 packetization-mode=1\r\na=control:trackID=0\r\n"
)

type liveState struct {
	mu     sync.Mutex
	cur    map[*gortsplib.ServerConn]string // peer of the connection (learnt from its requests)
	reqs   map[string][]*base.Request
	ress   map[string][]*base.Response
	closes map[string][]string
	byAddr map[string][]string // close errors by the peer's socket address (diagnostics of failures)
	stray  []string            // requests that name no known peer
}

func newLiveState() *liveState {
	return &liveState{cur: map[*gortsplib.ServerConn]string{}, reqs: map[string][]*base.Request{}, ress: map[string][]*base.Response{}, closes: map[string][]string{}, byAddr: map[string][]string{}}
}

func cloneHeader(h base.Header) base.Header {
	out := make(base.Header, len(h))
	for k, v := range h {
		out[k] = append(base.HeaderValue(nil), v...)
	}
	return out
}

func peerOf(req *base.Request) string {
	if v, ok := req.Header["X-Peer"]; ok && len(v) == 1 {
		return v[0]
	}
	if req.URL != nil && strings.HasPrefix(req.URL.Path, "/cl-") {
		p := req.URL.Path[1:]
		if i := strings.IndexByte(p, '/'); i > 0 {
			p = p[:i]
		}
		return p
	}
	return ""
}

// liveHandler is the gortsplib.ServerHandler; all state is behind st.mu (callbacks run on the
// connections' goroutines).
type liveHandler struct {
	st *liveState
}

func (h *liveHandler) OnRequest(sc *gortsplib.ServerConn, req *base.Request) {
	cp := &base.Request{Method: req.Method, Header: cloneHeader(req.Header), Body: append([]byte(nil), req.Body...)}
	if req.URL != nil {
		cp.URL = req.URL.Clone()
	}
	peer := peerOf(req)
	h.st.mu.Lock()
	defer h.st.mu.Unlock()
	if peer == "" {
		u := "*"
		if req.URL != nil {
			u = req.URL.String()
		}
		h.st.stray = append(h.st.stray, fmt.Sprintf("%s %s", req.Method, vlib.Trunc(u, 100)))
		peer = h.st.cur[sc] // attribute it to the connection's peer, where it will show up as a difference
	}
	h.st.cur[sc] = peer
	h.st.reqs[peer] = append(h.st.reqs[peer], cp)
}

func (h *liveHandler) OnResponse(sc *gortsplib.ServerConn, res *base.Response) {
	cp := &base.Response{StatusCode: res.StatusCode, StatusMessage: res.StatusMessage, Header: cloneHeader(res.Header), Body: append([]byte(nil), res.Body...)}
	h.st.mu.Lock()
	defer h.st.mu.Unlock()
	peer := h.st.cur[sc]
	h.st.ress[peer] = append(h.st.ress[peer], cp)
}

func (h *liveHandler) OnConnClose(ctx *gortsplib.ServerHandlerOnConnCloseCtx) {
	addr := ""
	if nc := ctx.Conn.NetConn(); nc != nil {
		func() {
			defer func() { _ = recover() }() // some tunnel conns do not implement RemoteAddr
			addr = nc.RemoteAddr().String()
		}()
	}
	h.st.mu.Lock()
	defer h.st.mu.Unlock()
	if addr != "" {
		h.st.byAddr[addr] = append(h.st.byAddr[addr], fmt.Sprint(ctx.Error))
	}
	if peer, ok := h.st.cur[ctx.Conn]; ok {
		h.st.closes[peer] = append(h.st.closes[peer], fmt.Sprint(ctx.Error))
		delete(h.st.cur, ctx.Conn)
	}
}

func capHeader(h map[string][]string, maxLines int, drop ...string) {
	for _, k := range drop {
		delete(h, k)
	}
	keys := make([]string, 0, len(h))
	for k := range h {
		keys = append(keys, k)
	}
	sort.Strings(keys)
	for _, k := range keys {
		if headerLines(h) <= maxLines {
			return
		}
		delete(h, k)
	}
}

// responseFor: what the handlers answer; a function of (seed, peer, CSeq) only.
func responseFor(req *base.Request, describe bool) *base.Response {
	peer := peerOf(req)
	cseq := 0
	if v := req.Header["CSeq"]; len(v) == 1 {
		fmt.Sscan(v[0], &cseq)
	}
	r := run.Rand("live-response/"+peer, cseq)
	if strings.HasPrefix(peer, "cl-") {
		// the library's own client: DESCRIBE answered with a valid SDP or with an error + body
		if cseq%2 == 0 || !describe {
			return &base.Response{StatusCode: base.StatusOK, Header: base.Header{"X-Note": base.HeaderValue{genValue(r, false)}}, Body: []byte(testSDP)}
		}
		return &base.Response{StatusCode: base.StatusNotFound, Header: base.Header{"X-Note": base.HeaderValue{genValue(r, false)}}, Body: genContent(r, 1+r.Intn(3000))}
	}
	e := genResponse(r, profLive)
	capHeader(e.Header, 240)
	res := e.libResponse()
	if describe && res.StatusCode == base.StatusOK && len(res.Body) == 0 {
		res.Body = []byte("v=0\r\n") // the server insists on a body (or a stream) for DESCRIBE 200
	}
	return res
}

func (h *liveHandler) OnDescribe(ctx *gortsplib.ServerHandlerOnDescribeCtx) (*base.Response, *gortsplib.ServerStream, error) {
	return responseFor(ctx.Request, true), nil, nil
}

func (h *liveHandler) OnGetParameter(ctx *gortsplib.ServerHandlerOnGetParameterCtx) (*base.Response, error) {
	return responseFor(ctx.Request, false), nil
}

func (h *liveHandler) OnSetParameter(ctx *gortsplib.ServerHandlerOnSetParameterCtx) (*base.Response, error) {
	return responseFor(ctx.Request, false), nil
}

type liveWitness struct {
	caseID
	Carrier   string         `json:"carrier"`
	Partition map[string]any `json:"partition,omitempty"`
	Requests  []string       `json:"requests"`
	Detail    string         `json:"detail"`
	StreamB64 string         `json:"stream_b64,omitempty"`
}

// genLiveRequests: requests a server keeps the connection open for: exactly one CSeq, no Session
// header, a URL unless OPTIONS.
func genLiveRequests(r *rand.Rand, peer string, n int) []elem {
	els := make([]elem, n)
	cseq := 1 + r.Intn(1000)
	for i := range els {
		e := genRequest(r, profLive)
		if r.Intn(3) != 0 {
			e.Method = []string{"OPTIONS", "DESCRIBE", "GET_PARAMETER", "SET_PARAMETER"}[r.Intn(4)]
		}
		// the server answers DESCRIBE 200 with Content-Base = URL + "/": keep that value within the
		// header-value limit, or the response is (rightly) refused by the reader
		if (e.URL == "" && e.Method != "OPTIONS") || len(e.URL) > maxValueAccepted-8 {
			e.URL = genURL(r, false)
		}
		capHeader(e.Header, 250, "CSeq", "Session", "X-Peer")
		e.Header["CSeq"] = []string{fmt.Sprint(cseq)}
		e.Header["X-Peer"] = []string{peer}
		cseq += 1 + r.Intn(3)
		els[i] = e
	}
	return els
}

func chunksOf(data []byte, p *partition) [][]byte {
	var out [][]byte
	if p.ones {
		for i := range data {
			out = append(out, data[i:i+1])
		}
		return out
	}
	pos := 0
	for _, c := range p.cuts {
		if c > pos && c < len(data) {
			out = append(out, data[pos:c])
			pos = c
		}
	}
	return append(out, data[pos:])
}

func livePartition(r *rand.Rand, st *stream) *partition {
	n := len(st.data)
	switch k := r.Intn(8); {
	case k == 0 && n <= 48*1024:
		return &partition{Mode: "1-byte", ones: true}
	case k <= 2:
		return &partition{Mode: "structural-all", cuts: st.structs}
	case k == 3:
		return &partition{Mode: "structural-subset+prng", cuts: mergeCuts(subset(r, st.structs, 30), prngCuts(r, n, 2))}
	default:
		return &partition{Mode: "prng", cuts: prngCuts(r, n, r.Intn(4))}
	}
}

// pace makes the chunks leave as separate segments now and then (not a deciding clock).
func pace(r *rand.Rand, sleeps *int) {
	switch k := r.Intn(24); {
	case k == 0 && *sleeps < 400:
		*sleeps++
		time.Sleep(time.Duration(20+r.Intn(200)) * time.Microsecond)
	case k < 6:
		runtime.Gosched()
	}
}

type liveOutcome struct {
	decoded   []any
	readErr   error
	timedOut  bool
	setupErr  error
	chunks    int
	partition *partition
	stream    *stream
	addrs     []string // local socket addresses of the peer
}

func tcpDial(addr string) (net.Conn, error) {
	c, err := net.DialTimeout("tcp", addr, 10*time.Second)
	if err != nil {
		return nil, err
	}
	c.(*net.TCPConn).SetNoDelay(true) //nolint:errcheck
	return c, nil
}

// readResponses decodes n responses with conn.Conn.Read.
func readResponses(br *bufio.Reader, n int, out *liveOutcome, done chan struct{}) {
	defer close(done)
	c := conn.NewConn(br, nil)
	for i := 0; i < n; i++ {
		v, err := c.Read()
		if err != nil {
			out.readErr = err
			return
		}
		out.decoded = append(out.decoded, v)
	}
}

func httpTunnelExchange(addr, peer string, els []elem, r *rand.Rand) (out liveOutcome) {
	_, enc := serialise(els)
	out.stream = enc
	out.partition = livePartition(r, enc)
	chunks := chunksOf(enc.data, out.partition)
	out.chunks = len(chunks)
	cookie := fmt.Sprintf("verif%s%08x", peer, r.Uint32())

	getc, err := tcpDial(addr)
	if err != nil {
		out.setupErr = err
		return
	}
	defer getc.Close()
	out.addrs = append(out.addrs, getc.LocalAddr().String())
	getc.SetDeadline(time.Now().Add(liveTimeout + 20*time.Second)) //nolint:errcheck
	_, err = getc.Write([]byte("GET /" + peer + " HTTP/1.1\r\nHost: " + addr + "\r\nX-Sessioncookie: " + cookie +
		"\r\nAccept: application/x-rtsp-tunnelled\r\nContent-Length: 30000\r\n\r\n"))
	if err != nil {
		out.setupErr = err
		return
	}
	gbr := bufio.NewReader(getc)
	hres, err := http.ReadResponse(gbr, nil)
	if err != nil {
		out.setupErr = fmt.Errorf("GET channel: %w", err)
		return
	}
	hres.Body.Close()
	if hres.StatusCode != 200 {
		out.setupErr = fmt.Errorf("GET channel: HTTP status %d", hres.StatusCode)
		return
	}

	postc, err := tcpDial(addr)
	if err != nil {
		out.setupErr = err
		return
	}
	defer postc.Close()
	out.addrs = append(out.addrs, postc.LocalAddr().String())
	postc.SetDeadline(time.Now().Add(liveTimeout + 20*time.Second)) //nolint:errcheck
	post := []byte("POST /" + peer + " HTTP/1.1\r\nHost: " + addr + "\r\nX-Sessioncookie: " + cookie +
		"\r\nContent-Type: application/x-rtsp-tunnelled\r\nContent-Length: 30000\r\n\r\n")
	first := 0
	if r.Intn(2) == 0 && len(chunks) > 0 {
		// the first encoded bytes travel in the same segment as the POST header
		post = append(post, chunks[0]...)
		first = 1
	}
	if _, err = postc.Write(post); err != nil {
		out.setupErr = err
		return
	}
	go io.Copy(io.Discard, postc) //nolint:errcheck // the HTTP reply on the POST channel is not needed

	done := make(chan struct{})
	go readResponses(gbr, len(els), &out, done)
	sleeps := 0
	for _, ch := range chunks[first:] {
		if _, err = postc.Write(ch); err != nil {
			break // the reader side tells what happened
		}
		pace(r, &sleeps)
	}
	select {
	case <-done:
	case <-time.After(liveTimeout):
		out.timedOut = true
		getc.Close()
		postc.Close()
		<-done
	}
	return
}

type wsByteReader struct {
	wc  *websocket.Conn
	buf []byte
}

func (w *wsByteReader) Read(p []byte) (int, error) {
	for len(w.buf) == 0 {
		mt, b, err := w.wc.ReadMessage()
		if err != nil {
			return 0, err
		}
		if mt != websocket.BinaryMessage {
			return 0, fmt.Errorf("unexpected WebSocket message type %d", mt)
		}
		w.buf = b
	}
	n := copy(p, w.buf)
	w.buf = w.buf[n:]
	return n, nil
}

func wsTunnelExchange(addr, peer string, els []elem, r *rand.Rand, perElement bool) (out liveOutcome) {
	direct, _ := serialise(els)
	out.stream = direct
	out.partition = livePartition(r, direct)
	if perElement {
		// what the library's own WebSocket client does: one RTSP message per WebSocket message
		out.partition = &partition{Mode: "message-per-element", cuts: direct.ends}
	}
	chunks := chunksOf(direct.data, out.partition)
	out.chunks = len(chunks)
	// the handshake is completed by Dial before any further byte is sent (an upgrade request
	// followed by buffered bytes crashes the server: known defect of another property)
	d := websocket.Dialer{Subprotocols: []string{"rtsp.onvif.org"}, HandshakeTimeout: 10 * time.Second,
		NetDial: func(_, a string) (net.Conn, error) { return tcpDial(a) }}
	wc, _, err := d.Dial("ws://"+addr+"/", nil) //nolint:bodyclose
	if err != nil {
		out.setupErr = err
		return
	}
	defer wc.Close()
	out.addrs = append(out.addrs, wc.LocalAddr().String())
	wc.SetReadDeadline(time.Now().Add(liveTimeout + 20*time.Second))  //nolint:errcheck
	wc.SetWriteDeadline(time.Now().Add(liveTimeout + 20*time.Second)) //nolint:errcheck
	done := make(chan struct{})
	go readResponses(bufio.NewReader(&wsByteReader{wc: wc}), len(els), &out, done)
	sleeps := 0
	for _, ch := range chunks {
		if err = wc.WriteMessage(websocket.BinaryMessage, ch); err != nil {
			break
		}
		pace(r, &sleeps)
	}
	select {
	case <-done:
	case <-time.After(liveTimeout):
		out.timedOut = true
		wc.Close()
		<-done
	}
	return
}

func (st *liveState) take(peer string) (reqs []*base.Request, ress []*base.Response, closes []string) {
	st.mu.Lock()
	defer st.mu.Unlock()
	reqs, ress, closes = st.reqs[peer], st.ress[peer], st.closes[peer]
	delete(st.reqs, peer)
	delete(st.ress, peer)
	delete(st.closes, peer)
	return
}

const errNoGET = "did not found a corresponding HTTP GET request"

// reportHandshakeRace: the server answered the GET channel with 200 and then refused the POST
// channel that the peer opened afterwards.
func reportHandshakeRace(id caseID, carrier, closeErrs string) {
	run.Count("http-tunnel-handshake-refused:"+carrier, 1)
	run.Violation("tunnel-http-handshake/post-refused-get-not-registered",
		"HTTP tunnel: the POST channel, opened after the 200 reply on the GET channel was received, is refused by the server (GET channel not registered yet)"+closeErrs,
		liveWitness{caseID: id, Carrier: carrier, Detail: "GET answered with 200, then POST with the same x-sessioncookie refused" + closeErrs})
}

func (st *liveState) observed(peer string) int {
	st.mu.Lock()
	defer st.mu.Unlock()
	return len(st.reqs[peer])
}

// closeErrors: what OnConnClose reported for the given peer sockets (diagnostics only; waits a
// moment for the callbacks, which run after the sockets are closed).
func (st *liveState) closeErrors(addrs []string) string {
	var parts []string
	for try := 0; try < 20; try++ {
		parts = parts[:0]
		st.mu.Lock()
		for _, a := range addrs {
			if e, ok := st.byAddr[a]; ok {
				parts = append(parts, a+": "+strings.Join(e, ", "))
			}
		}
		st.mu.Unlock()
		if len(parts) == len(addrs) {
			break
		}
		time.Sleep(25 * time.Millisecond)
	}
	if len(parts) == 0 {
		return ""
	}
	return "; OnConnClose errors by peer socket: " + strings.Join(parts, " ; ")
}

// observedResponseAsElem: what a reader must decode for a response object seen by OnResponse.
func observedResponseAsElem(o *base.Response) elem {
	e := elem{Kind: kindResponse, Status: int(o.StatusCode), Message: o.StatusMessage, Header: map[string][]string{}, Body: o.Body}
	if e.Message == "" {
		e.Message = base.StatusMessages[o.StatusCode]
	}
	for k, v := range o.Header {
		e.Header[k] = v
	}
	return e
}

// judge compares what the server observed and what the peer decoded with what was generated.
func judge(id caseID, carrier string, els []elem, out *liveOutcome, st *liveState, peer string) bool {
	reqs, ress, closes := st.take(peer)
	w := liveWitness{caseID: id, Carrier: carrier}
	if out.partition != nil {
		w.Partition = out.partition.witness()
	}
	for i := range els {
		if i < 40 {
			w.Requests = append(w.Requests, els[i].describe())
		}
	}
	if out.stream != nil && len(out.stream.data) <= 64*1024 {
		w.StreamB64 = b64(out.stream.data)
	}
	fail := func(key, what string) bool {
		w.Detail = what
		if len(closes) > 0 {
			w.Detail += "; server closed the connection with: " + strings.Join(closes, " | ")
		}
		w.Detail += st.closeErrors(out.addrs)
		run.Violation(carrier+"/"+key, carrier+": "+w.Detail, w)
		return false
	}
	ok := true
	n := min(len(reqs), len(els))
	for i := 0; i < n; i++ {
		if cl, what := compareElem(&els[i], reqs[i]); cl != "" {
			ok = fail("request/"+cl, fmt.Sprintf("request %d of %d as observed by OnRequest differs from what was sent (%s): %s", i, len(els), els[i].describe(), what))
			break
		}
	}
	if ok && len(reqs) != len(els) {
		ok = fail("request-sequence-differs", fmt.Sprintf("%d requests sent, OnRequest observed %d (the first %d identical); reader: err=%v timeout=%v", len(els), len(reqs), n, out.readErr, out.timedOut))
	}
	if !ok {
		return false
	}
	if len(ress) != len(els) {
		return fail("response-sequence-differs", fmt.Sprintf("%d requests, OnResponse observed %d responses", len(els), len(ress)))
	}
	for i, v := range out.decoded {
		e := observedResponseAsElem(ress[i])
		if cl, what := compareElem(&e, v); cl != "" {
			return fail("response/"+cl, fmt.Sprintf("response %d as decoded by the peer differs from what OnResponse observed (%s): %s", i, e.describe(), what))
		}
		if got := v.(*base.Response).Header["CSeq"]; len(got) != 1 || got[0] != els[i].Header["CSeq"][0] {
			return fail("response/cseq-differs", fmt.Sprintf("response %d carries CSeq %v, request had %v", i, got, els[i].Header["CSeq"]))
		}
	}
	if len(out.decoded) != len(els) {
		return fail("response-sequence-differs", fmt.Sprintf("%d responses written by the server, the peer decoded %d: err=%v timeout=%v", len(ress), len(out.decoded), out.readErr, out.timedOut))
	}
	return true
}

// runLiveRaw: one raw-peer session (carrier "tunnel-http" or "tunnel-ws").
func runLiveRaw(addr string, st *liveState, id caseID, carrier string) {
	peer := fmt.Sprintf("%s-%d", map[string]string{"tunnel-http": "h", "tunnel-ws": "w"}[carrier], id.Idx)
	var out liveOutcome
	var els []elem
	timeouts := 0
	for attempt := 0; attempt < 5; attempt++ {
		r := run.Rand(id.Role, id.Idx)
		els = genLiveRequests(r, peer, 8+r.Intn(40))
		// every third session: one request with a body of exactly the maximum size, one of the
		// maximum minus 16, and (WebSocket) one RTSP message per WebSocket message
		perElement := id.Idx%3 == 0
		if perElement {
			for k, sz := range []int{limBody, limBody - 16} {
				e := &els[(1+k*3)%len(els)]
				e.Method = "SET_PARAMETER"
				if e.URL == "" {
					e.URL = genURL(r, false)
				}
				e.Body = vlib.RandBytes(r, sz)
				e.Header["Content-Type"] = []string{"text/parameters"}
				delete(e.Header, "Content-Length")
			}
		}
		if carrier == "tunnel-http" {
			out = httpTunnelExchange(addr, peer, els, r)
		} else {
			out = wsTunnelExchange(addr, peer, els, r, perElement)
		}
		if out.setupErr != nil {
			st.take(peer)
			run.Inconclusive("live-handshake-failed")
			fmt.Printf("note: %s handshake failed: %v\n", carrier, out.setupErr)
			return
		}
		// The tunnel itself was never established (the server refused the POST channel): that is
		// a failure of the handshake, reported under a key of its own; the framing of this
		// session is then examined on fresh connections.
		if carrier == "tunnel-http" && len(out.decoded) == 0 && st.observed(peer) == 0 {
			if ce := st.closeErrors(out.addrs); strings.Contains(ce, errNoGET) {
				reportHandshakeRace(id, carrier, ce)
				st.take(peer)
				continue
			}
		}
		if out.timedOut && timeouts == 0 {
			// a session that does not complete is re-run once on fresh connections before it counts
			timeouts++
			st.take(peer)
			run.Count("live-timeouts-retried", 1)
			continue
		}
		break
	}
	evals.Add(1)
	run.Count("tunnel-sessions:"+carrier, 1)
	run.Count("partitions:"+carrier+":"+out.partition.Mode, 1)
	run.Count("tunnel-chunks-written:"+carrier, int64(out.chunks))
	if judge(id, carrier, els, &out, st, peer) {
		run.Count("tunnel-requests:"+carrier, int64(len(els)))
		run.Count("roundtripped:"+carrier+":request", int64(len(els)))
		run.Count("roundtripped:"+carrier+":response", int64(len(els)))
		run.DistinctHash(streamHash(carrier, out.stream.data))
		for i := range els {
			run.Max("tunnel-request-body-bytes", int64(len(els[i].Body)))
		}
	}
}

// runLiveClient: the library's own client as the peer.
func runLiveClient(addr string, st *liveState, id caseID, carrier string) {
	r := run.Rand(id.Role, id.Idx)
	tunnel := gortsplib.TunnelHTTP
	tag := "cl-h"
	if carrier == "client-tunnel-ws" {
		tunnel = gortsplib.TunnelWebSocket
		tag = "cl-w"
	}
	peer := fmt.Sprintf("%s%d", tag, id.Idx)
	// the first sessions of every run use a fixed list of path shapes (systematic part), the rest
	// PRNG paths
	seg := genPathSeg(r)
	if id.Idx < len(clientPaths) {
		seg = clientPaths[id.Idx]
	}
	raw := "rtsp://" + addr + "/" + peer + "/" + seg
	if r.Intn(2) == 0 {
		raw += "?" + vlib.RandString(r, 1+r.Intn(5), "abcxyz") + "=" + vlib.RandString(r, 1+r.Intn(8), "abcxyz0189")
	}
	if !urlInDomain(raw) {
		raw = "rtsp://" + addr + "/" + peer + "/stream"
	}
	u, _ := base.ParseURL(raw)
	evals.Add(1)
	w := liveWitness{caseID: id, Carrier: carrier, Requests: []string{"OPTIONS " + raw, "DESCRIBE " + raw}}
	fail := func(key, what string) {
		_, _, closes := st.take(peer)
		w.Detail = what
		if len(closes) > 0 {
			w.Detail += "; server closed the connection with: " + strings.Join(closes, " | ")
		}
		run.Violation(carrier+"/"+key, carrier+": "+w.Detail, w)
	}
	var ores *base.Response
	var c *gortsplib.Client
	for attempt := 0; ; attempt++ {
		var amu sync.Mutex
		var addrs []string
		c = &gortsplib.Client{Scheme: u.Scheme, Host: u.Host, Tunnel: tunnel, ReadTimeout: liveTimeout, WriteTimeout: liveTimeout,
			DialContext: func(ctx context.Context, network, address string) (net.Conn, error) {
				nc, err := (&net.Dialer{}).DialContext(ctx, network, address)
				if err == nil {
					amu.Lock()
					addrs = append(addrs, nc.LocalAddr().String())
					amu.Unlock()
				}
				return nc, err
			}}
		if err := c.Start(); err != nil {
			run.Inconclusive("live-client-start-failed")
			return
		}
		var err error
		ores, err = c.Options(u)
		if err == nil {
			break
		}
		c.Close()
		amu.Lock()
		ce := st.closeErrors(addrs)
		amu.Unlock()
		switch {
		case strings.Contains(ce, errNoGET) && attempt < 4:
			reportHandshakeRace(id, carrier, ce)
			st.take(peer)
			continue
		case strings.Contains(ce, "malformed HTTP") || strings.Contains(ce, "invalid URL escape") || strings.Contains(ce, "invalid URI"):
			fail("handshake/request-target-rejected", fmt.Sprintf("Client.Options(%s) fails: %v: the HTTP request line of the tunnel handshake is rejected by the server%s", raw, err, ce))
		default:
			fail("options-failed", fmt.Sprintf("Client.Options(%s) fails: %v%s", raw, err, ce))
		}
		return
	}
	defer c.Close()
	_, dres, derr := c.Describe(u)
	if dres == nil {
		fail("describe-failed", fmt.Sprintf("Client.Describe(%s) returns no response: %v", raw, derr))
		return
	}
	reqs, ress, _ := st.take(peer)
	if len(reqs) != 2 || len(ress) != 2 {
		fail("request-sequence-differs", fmt.Sprintf("client sent OPTIONS and DESCRIBE; OnRequest observed %d requests, OnResponse %d responses", len(reqs), len(ress)))
		return
	}
	for i, m := range []base.Method{base.Options, base.Describe} {
		q := reqs[i]
		gu := ""
		if q.URL != nil {
			gu = q.URL.String()
		}
		switch {
		case q.Method != m:
			fail("request/method-differs", fmt.Sprintf("request %d: method %s expected, OnRequest observed %s", i, m, q.Method))
			return
		case gu != raw:
			fail("request/url-differs", fmt.Sprintf("request %d: URL %q expected, OnRequest observed %q", i, raw, gu))
			return
		case len(q.Header["CSeq"]) != 1 || q.Header["CSeq"][0] != fmt.Sprint(i+1):
			fail("request/header-differs", fmt.Sprintf("request %d: CSeq %d expected, OnRequest observed %v", i, i+1, q.Header["CSeq"]))
			return
		case len(q.Body) != 0:
			fail("request/body-differs", fmt.Sprintf("request %d: empty body expected, OnRequest observed %d bytes", i, len(q.Body)))
			return
		}
		if i == 1 && (len(q.Header["Accept"]) != 1 || q.Header["Accept"][0] != "application/sdp") {
			fail("request/header-differs", fmt.Sprintf("DESCRIBE: Accept application/sdp expected, OnRequest observed %v", q.Header["Accept"]))
			return
		}
	}
	for i, got := range []*base.Response{ores, dres} {
		e := observedResponseAsElem(ress[i])
		if cl, what := compareElem(&e, got); cl != "" {
			fail("response/"+cl, fmt.Sprintf("response %d returned by the client differs from what OnResponse observed (%s): %s", i, e.describe(), what))
			return
		}
	}
	run.Count("tunnel-sessions:"+carrier, 1)
	run.Count("tunnel-requests:"+carrier, 2)
	run.Count("roundtripped:"+carrier+":request", 2)
	run.Count("roundtripped:"+carrier+":response", 2)
	if derr == nil {
		run.Count("client-describe-200-sdp-parsed:"+carrier, 1)
	}
	run.Distinct(carrier + "|" + raw)
}

// path shapes every run sends through the library's client (all are fixed points of
// ParseURL(x).String())
var clientPaths = []string{"stream", "with%20space", "a%2Fb", "pct%25sign", "q%3Fmark", "caf%C3%A9", "semi;colon=1,2", "trackID=0/sub", "a+b&c", "tilde~!$'()*"}

type liveJob struct {
	carrier string
	id      caseID
}

// runLive starts one server and runs the sessions against it.
func runLive(jobs []liveJob) {
	st := newLiveState()
	s := &gortsplib.Server{Handler: &liveHandler{st: st}, RTSPAddress: "127.0.0.1:0", ReadTimeout: liveTimeout, WriteTimeout: liveTimeout}
	if err := s.Start(); err != nil {
		run.Fatal("cannot start the server: %v", err)
	}
	defer s.Close()
	addr := s.NetListener().Addr().String()
	run.Parallel(len(jobs), func(_, i int) {
		j := jobs[i]
		switch j.carrier {
		case "tunnel-http", "tunnel-ws":
			runLiveRaw(addr, st, j.id, j.carrier)
		default:
			runLiveClient(addr, st, j.id, j.carrier)
		}
	}, func(i int, v any, stack string) {
		run.Violation(jobs[i].carrier+"/panic/"+vlib.PanicSite(stack), fmt.Sprintf("panic: %v", v), liveWitness{caseID: jobs[i].id, Carrier: jobs[i].carrier, Detail: stack})
	})
	st.mu.Lock()
	stray := append([]string{}, st.stray...)
	st.mu.Unlock()
	if len(stray) > 0 {
		run.Violation("tunnel/request-sequence-differs/unattributable-request", fmt.Sprintf("the server observed %d requests that no peer sent, e.g. %s", len(stray), stray[0]),
			liveWitness{caseID: caseID{Part: "live-all", Seed: run.Seed}, Carrier: "tunnel", Detail: strings.Join(stray[:min(len(stray), 10)], " | ")})
	}
}
