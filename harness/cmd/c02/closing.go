package main

import (
	"fmt"

	"github.com/bluenviron/gortsplib/v5/pkg/base"
	"github.com/bluenviron/gortsplib/v5/pkg/headers"

	"verif/lib/rig"
)

func sessionID(res *base.Response) string {
	if sh, ok := res.Header["Session"]; ok && len(sh) == 1 {
		var hs headers.Session
		if hs.Unmarshal(sh) == nil {
			return hs.Session
		}
	}
	return ""
}

// Requests that name a session which is just being closed: connection A creates the session,
// `extra` further connections attach themselves to it with an in-session request, then TEARDOWN
// and a second request carrying the same Session id leave back to back - on the same connection
// (pipelined) or on a connection that never touched the session. Whatever state the server is in
// when it reads the second request, it owes exactly one response with the request's CSeq.
type closingCase struct {
	Extra    int    `json:"attached_connections"`
	Second   string `json:"second_request"`
	Where    string `json:"second_request_on"` // same-connection | fresh-connection | attached-connection
	Trial    int    `json:"trial"`
	Config   config `json:"config"`
	Pipeline bool   `json:"pipeline"`
}

func runClosingCase(ts *rig.TestServer, cfg config, c closingCase) {
	evals.Add(1)
	run.Count("closing-session-cases:"+c.Where, 1)
	c.Config = cfg
	dial := func() *rig.Peer {
		p, err := rig.Dial(ts.Addr(), ts.TLSCfg, "")
		if err != nil {
			return nil
		}
		return p
	}
	a := dial()
	if a == nil {
		run.Inconclusive("dial-failed")
		return
	}
	defer a.Close()
	url := ts.URL("/stream")
	res, err := a.Do(a.Request(base.Setup, url+"/trackID=0", base.Header{"Transport": base.HeaderValue{"RTP/AVP/TCP;unicast;interleaved=0-1"}}, nil), respTimeout)
	if err != nil || res.StatusCode != base.StatusOK {
		run.Inconclusive("closing-session/setup-failed")
		return
	}
	sess := sessionID(res)
	if sess == "" {
		run.Inconclusive("closing-session/no-session-id")
		return
	}
	sh := func() base.Header { return base.Header{"Session": base.HeaderValue{sess}} }
	var attached []*rig.Peer
	for i := 0; i < c.Extra; i++ {
		p := dial()
		if p == nil {
			run.Inconclusive("dial-failed")
			return
		}
		defer p.Close()
		if r2, err := p.Do(p.Request(base.GetParameter, url, sh(), nil), respTimeout); err != nil || r2.StatusCode != base.StatusOK {
			run.Inconclusive("closing-session/attach-failed")
			return
		}
		attached = append(attached, p)
	}
	target := a
	switch c.Where {
	case "fresh-connection":
		target = dial()
		if target == nil {
			run.Inconclusive("dial-failed")
			return
		}
		defer target.Close()
	case "attached-connection":
		if len(attached) == 0 {
			return
		}
		target = attached[0]
	}
	td := a.Request(base.Teardown, url, sh(), nil)
	second := target.Request(base.Method(c.Second), url, sh(), nil)
	tb, _ := td.Marshal()
	sb, _ := second.Marshal()
	if target == a {
		if err := a.WriteRaw(append(tb, sb...)); err != nil {
			run.Inconclusive("closing-session/write-failed")
			return
		}
	} else {
		if err := a.WriteRaw(tb); err != nil {
			run.Inconclusive("closing-session/write-failed")
			return
		}
		if err := target.WriteRaw(sb); err != nil {
			run.Inconclusive("closing-session/write-failed")
			return
		}
	}
	r1, err := a.ReadResponse(respTimeout)
	if err != nil && rig.IsClosedErr(err) && c.Second == "TEARDOWN" && target != a {
		// two TEARDOWNs of one session race on two connections: the one handled first ends the
		// session, which closes every connection attached to it - the other request may never be read
		run.Count("closing-session/connection-closed-by-the-other-teardown", 1)
		return
	}
	if err != nil || len(r1.Header["CSeq"]) != 1 || r1.Header["CSeq"][0] != td.Header["CSeq"][0] {
		run.Violation("closing-session/teardown-not-answered", fmt.Sprintf("TEARDOWN of a session with %d further connections: %v %v", c.Extra, err, r1), c)
		return
	}
	r2, err := target.ReadResponse(respTimeout)
	if err != nil {
		// a connection that the closing session itself closes may end without an answer only if it
		// was attached to the session; the request still has to be answered or the connection closed
		if rig.IsClosedErr(err) && c.Where != "fresh-connection" {
			run.Count("closing-session/connection-closed-with-session", 1)
			return
		}
		run.Violation("closing-session/request-never-answered/"+c.Where,
			fmt.Sprintf("%s with the id of a session whose TEARDOWN was sent just before (%d further connections attached), on a %s: no response within %v (%v)", c.Second, c.Extra, c.Where, respTimeout, err), c)
		return
	}
	if got := r2.Header["CSeq"]; len(got) != 1 || got[0] != second.Header["CSeq"][0] {
		run.Violation("closing-session/order-or-cseq", fmt.Sprintf("response to the request after TEARDOWN has CSeq %v, want %s", got, second.Header["CSeq"][0]), c)
		return
	}
	run.Count(fmt.Sprintf("closing-session-second-status:%d", r2.StatusCode), 1)
	run.Distinct(fmt.Sprintf("closing|%s|%d|%s|%s", cfg.Name, c.Extra, c.Second, c.Where))
}

func closingCases(reps int) []closingCase {
	var out []closingCase
	for t := 0; t < reps; t++ {
		for _, extra := range []int{0, 2, 5} {
			for _, m := range []string{"GET_PARAMETER", "OPTIONS", "PLAY", "SETUP", "TEARDOWN"} {
				for _, w := range []string{"same-connection", "fresh-connection", "attached-connection"} {
					if w == "attached-connection" && extra == 0 {
						continue
					}
					out = append(out, closingCase{Extra: extra, Second: m, Where: w, Trial: t, Pipeline: w == "same-connection"})
				}
			}
		}
	}
	return out
}
