package main

import (
	"fmt"
	"net"
	"sync"
	"time"

	"github.com/bluenviron/gortsplib/v5"
	"github.com/bluenviron/gortsplib/v5/pkg/base"
	"github.com/pion/rtcp"
	"github.com/pion/rtp"

	"verif/lib/rig"
)

// Timing cases: the "never expired while live / closed within timeout + one check period when
// silent" clause, restated as bounded progress with scaled timers. Verdicts are wall-clock
// based and therefore canary-guarded: a late scheduler makes the case inconclusive.

type timingCase struct {
	Name    string
	Proto   string // tcp | udp
	Record  bool
	Live    string // what the peer keeps doing during the live phase: "" (silent from the start) | keepalive | rtcp | media
	Timeout time.Duration
}

type timingWitness struct {
	Config config `json:"config"`
	Case   string `json:"case"`
	Detail string `json:"detail"`
}

var portMu sync.Mutex

const (
	checkPeriod = 200 * time.Millisecond
	slack       = 1500 * time.Millisecond
	livePeriod  = 400 * time.Millisecond
)

func runTimingCases(replay bool) {
	touts := []time.Duration{3 * time.Second}
	if !run.Quick() {
		touts = []time.Duration{2 * time.Second, 3 * time.Second}
	}
	var cases []timingCase
	for _, t := range touts {
		cases = append(cases,
			timingCase{"tcp-play-silent", "tcp", false, "", t},
			timingCase{"udp-play-silent", "udp", false, "", t},
			timingCase{"udp-play-keepalive-only", "udp", false, "keepalive", t},
			timingCase{"udp-play-rtcp-only", "udp", false, "rtcp", t},
			timingCase{"tcp-play-keepalive", "tcp", false, "keepalive", t},
			timingCase{"udp-play-keepalive-options-only", "udp", false, "keepalive-options", t},
			timingCase{"udp-record-media", "udp", true, "media", t},
			timingCase{"udp-record-silent", "udp", true, "", t},
			timingCase{"tcp-record-silent", "tcp", true, "", t},
			timingCase{"tcp-record-media", "tcp", true, "media", t},
		)
	}
	var wg sync.WaitGroup
	for _, t := range touts {
		ts, err := rig.StartServer(rig.ServerOpts{UDP: true, HandlerSet: "full", ReadTimeout: t, IdleTimeout: t, CheckStreamPeriod: checkPeriod, NoLog: true, OnEvent: onEvent})
		if err != nil {
			run.Fatal("timing server: %v", err)
		}
		var cwg sync.WaitGroup
		for _, c := range cases {
			if c.Timeout != t {
				continue
			}
			cwg.Add(1)
			go func(c timingCase) {
				defer cwg.Done()
				for attempt := 0; attempt < 3; attempt++ {
					if timingAttempt(ts, c) {
						return
					}
				}
				run.Inconclusive("timing/" + c.Name)
			}(c)
		}
		// tunnelled live peers (library client, RTCP inside the tunnel)
		for _, tc := range []struct {
			name string
			tun  gortsplib.Tunnel
		}{{"tunnel-http-play-rtcp", gortsplib.TunnelHTTP}, {"tunnel-ws-play-rtcp", gortsplib.TunnelWebSocket}} {
			cwg.Add(1)
			go func(name string, tun gortsplib.Tunnel) {
				defer cwg.Done()
				for attempt := 0; attempt < 3; attempt++ {
					if tunnelLiveAttempt(ts, tun, name, t) {
						return
					}
				}
				run.Inconclusive("timing/" + name)
			}(tc.name, tc.tun)
		}
		wg.Add(1)
		go func() {
			defer wg.Done()
			cwg.Wait()
			ts.Close()
		}()
	}
	wg.Wait()
}

// timingAttempt returns false when the attempt was inconclusive (late canary / own schedule missed).
func timingAttempt(ts *rig.TestServer, c timingCase) bool {
	evals.Add(1)
	cfg := config{Name: fmt.Sprintf("timing/%s/%v", c.Name, c.Timeout), UDP: true, HandlerSet: "full"}
	wit := func(d string) timingWitness { return timingWitness{Config: cfg, Case: c.Name, Detail: d} }
	p, err := rig.Dial(ts.Addr(), nil, "")
	if err != nil {
		return false
	}
	defer p.Close()
	p.Tag = newTag()
	// four consecutive ports (two medias), reserved atomically so that concurrent cases never
	// share a client port - the server attributes datagrams by (address, port)
	portMu.Lock()
	clientPort := rig.FreePortPair()
	for tries := 0; rig.FreePortPair() != clientPort+2 && tries < 100; tries++ {
		clientPort = rig.FreePortPair()
	}
	portMu.Unlock()
	var rtpConn, rtcpConn *net.UDPConn
	if c.Proto == "udp" {
		rtpConn, err = net.ListenUDP("udp", &net.UDPAddr{IP: net.ParseIP("127.0.0.1"), Port: clientPort})
		if err != nil {
			return false
		}
		defer rtpConn.Close()
		rtcpConn, err = net.ListenUDP("udp", &net.UDPAddr{IP: net.ParseIP("127.0.0.1"), Port: clientPort + 1})
		if err != nil {
			return false
		}
		defer rtcpConn.Close()
	}
	// negotiate
	var seq []sym
	find := func(n string) sym {
		for _, s := range alphabet {
			if s.Name == n {
				return s
			}
		}
		panic(n)
	}
	mode := "play"
	if c.Record {
		mode = "rec"
		seq = append(seq, find("ANNOUNCE"))
	}
	seq = append(seq, find("SETUP0-"+mode+"-"+c.Proto))
	if c.Record {
		seq = append(seq, find("SETUP1-"+mode+"-"+c.Proto))
		seq = append(seq, find("RECORD"))
	} else {
		seq = append(seq, find("PLAY"))
	}
	sessID := ""
	var serverPorts *[2]int
	for _, s := range seq {
		req := buildRequest(p, ts, s, sessID, clientPort)
		res, err := p.Do(req, respTimeout)
		if err != nil || res.StatusCode != base.StatusOK {
			run.Violation("timing/negotiation-failed/"+c.Name, fmt.Sprintf("%s: %s failed: %v %v", c.Name, s.Name, res, err), wit(s.Name))
			return true
		}
		if sh, ok := res.Header["Session"]; ok {
			sessID = sh[0]
			if i := indexByte(sessID, ';'); i >= 0 {
				sessID = sessID[:i]
			}
		}
		if th, ok := res.Header["Transport"]; ok && c.Proto == "udp" && serverPorts == nil {
			var t transportLite
			t.parse(th[0])
			serverPorts = t.serverPorts
		}
	}
	start := time.Now()
	cm := monFor(p.Tag)
	if cm == nil {
		run.Fatal("timing: monitor for tag %s not found", p.Tag)
	}
	cm.mu.Lock()
	if len(cm.sessions) == 0 {
		cm.mu.Unlock()
		run.Violation("timing/no-session/"+c.Name, "negotiation succeeded but OnSessionOpen never seen", wit("no session"))
		return true
	}
	ss := cm.sessions[len(cm.sessions)-1]
	cm.mu.Unlock()
	closedCount := func() int {
		cm.mu.Lock()
		defer cm.mu.Unlock()
		return cm.sessClosed[ss]
	}
	closeErr := func() string {
		cm.mu.Lock()
		defer cm.mu.Unlock()
		return cm.sessCloseErr[ss]
	}

	lastTraffic := start
	if c.Live != "" {
		// live phase: 3x the timeout
		liveFor := 3 * c.Timeout
		seqn := uint16(0)
		missed := false
		for time.Since(start) < liveFor {
			t0 := time.Now()
			switch c.Live {
			case "keepalive", "keepalive-options":
				// both keep-alive styles of real clients: GET_PARAMETER and OPTIONS with the session id
				meth := base.GetParameter
				if c.Live == "keepalive-options" {
					meth = base.Options
				}
				req := p.Request(meth, ts.URL("/stream"), base.Header{"Session": base.HeaderValue{sessID}}, nil)
				if res, err := p.Do(req, respTimeout); err != nil || res.StatusCode != base.StatusOK {
					if closedCount() > 0 {
						break
					}
					run.Violation("timing/keepalive-refused/"+c.Name, fmt.Sprintf("keep-alive failed: %v %v", res, err), wit("keepalive"))
					return true
				}
			case "rtcp":
				rr := &rtcp.ReceiverReport{SSRC: 0x1234, Reports: []rtcp.ReceptionReport{{SSRC: 1}}}
				b, _ := rr.Marshal()
				_, _ = rtcpConn.WriteToUDP(b, &net.UDPAddr{IP: net.ParseIP("127.0.0.1"), Port: serverPorts[1]})
			case "media":
				seqn++
				pk := &rtp.Packet{Header: rtp.Header{Version: 2, PayloadType: 96, SequenceNumber: seqn, Timestamp: uint32(seqn) * 3000, SSRC: 0x5678}, Payload: []byte{1, 2, 3, 4}}
				b, _ := pk.Marshal()
				if c.Proto == "udp" {
					_, _ = rtpConn.WriteToUDP(b, &net.UDPAddr{IP: net.ParseIP("127.0.0.1"), Port: serverPorts[0]})
				} else {
					fr := base.InterleavedFrame{Channel: 0, Payload: b}
					fb, _ := fr.Marshal()
					_ = p.WriteRaw(fb)
				}
			}
			lastTraffic = time.Now()
			if closedCount() > 0 {
				break
			}
			time.Sleep(livePeriod - time.Since(t0))
			if time.Since(t0) > 2*livePeriod {
				missed = true // the harness failed to keep its own schedule
			}
		}
		if closedCount() > 0 {
			if missed || canary.WorstSince(start) > 250*time.Millisecond {
				return false
			}
			run.Violation("timing/live-peer-expired/"+c.Name,
				fmt.Sprintf("%s (timeout %v): session of a peer that kept sending %s every %v was closed after %v (close error: %s)", c.Name, c.Timeout, c.Live, livePeriod, time.Since(start).Round(time.Millisecond), closeErr()), wit("expired while live: "+closeErr()))
			return true
		}
		if got := ss.State(); (c.Record && got != gortsplib.ServerSessionStateRecord) || (!c.Record && got != gortsplib.ServerSessionStatePlay) {
			run.Violation("timing/live-peer-state-changed/"+c.Name, fmt.Sprintf("state became %v during the live phase", got), wit("state"))
			return true
		}
		run.Count("timing-live-phases-held", 1)
	}
	// silent phase: everything stops; the session must be closed within timeout + check period + slack
	bound := c.Timeout + checkPeriod + slack
	for closedCount() == 0 && time.Since(lastTraffic) < bound+2*time.Second {
		time.Sleep(5 * time.Millisecond)
	}
	took := time.Since(lastTraffic)
	if closedCount() == 0 || took > bound {
		if canary.WorstSince(start) > 250*time.Millisecond {
			return false
		}
		run.Violation("timing/silent-peer-not-expired/"+c.Name,
			fmt.Sprintf("%s (timeout %v): session of a silent peer still open %v after its last traffic (bound %v)", c.Name, c.Timeout, took.Round(time.Millisecond), bound), wit("not expired"))
		return true
	}
	run.Count("timing-silent-phases-expired", 1)
	run.Max("timing-expiry-ms:"+c.Name, took.Milliseconds())
	run.Distinct("timing|" + cfg.Name)
	return true
}

func indexByte(s string, c byte) int {
	for i := 0; i < len(s); i++ {
		if s[i] == c {
			return i
		}
	}
	return -1
}

// transportLite extracts server_port from a Transport header (harness-side parser so that the
// timing rig does not depend on the code under test for its own bookkeeping).
type transportLite struct{ serverPorts *[2]int }

func (t *transportLite) parse(v string) {
	for _, part := range splitSemi(v) {
		var a, b int
		if n, _ := fmt.Sscanf(part, "server_port=%d-%d", &a, &b); n == 2 {
			t.serverPorts = &[2]int{a, b}
		}
	}
}

func splitSemi(s string) []string {
	var out []string
	cur := ""
	for i := 0; i < len(s); i++ {
		if s[i] == ';' {
			out = append(out, cur)
			cur = ""
		} else {
			cur += string(s[i])
		}
	}
	return append(out, cur)
}

// tunnelLiveAttempt: a library client playing through the HTTP or WebSocket tunnel that keeps
// following the protocol (RTCP receiver reports every 200 ms inside the tunnel, media flowing
// towards it) must not be expired: it is held for three idle timeouts. Returns false when the
// attempt was inconclusive.
func tunnelLiveAttempt(ts *rig.TestServer, tunnel gortsplib.Tunnel, name string, timeout time.Duration) bool {
	evals.Add(1)
	cfg := config{Name: fmt.Sprintf("timing/%s/%v", name, timeout), UDP: true, HandlerSet: "full"}
	pc, err := rig.NewPlayClient(ts, rig.ClientOpts{Name: name, Proto: "tcp", Tunnel: tunnel, ReadTimeout: 20 * time.Second, WriteTimeout: 20 * time.Second, HeldEvery: 1000,
		Mutate: func(c *gortsplib.Client) { c.VerifSetTimers(nil, 0, 200*time.Millisecond, 0) }})
	if err != nil {
		return false
	}
	start := time.Now()
	if err := pc.Start(); err != nil {
		if canary.WorstSince(start) > 250*time.Millisecond {
			return false
		}
		run.Violation("timing/negotiation-failed/"+name, fmt.Sprintf("%s: a library client could not start playing through the tunnel: %v", name, err), timingWitness{Config: cfg, Case: name, Detail: err.Error()})
		return true
	}
	defer pc.Close()
	stop := make(chan struct{})
	var wg sync.WaitGroup
	wg.Add(1)
	go func() {
		defer wg.Done()
		m := ts.Stream.Desc.Medias[0]
		for k := 0; ; k++ {
			select {
			case <-stop:
				return
			case <-time.After(50 * time.Millisecond):
			}
			_ = ts.Stream.WritePacketRTP(m, &rtp.Packet{Header: rtp.Header{Version: 2, PayloadType: m.Formats[0].PayloadType(), SequenceNumber: uint16(k), Timestamp: uint32(k) * 3000, SSRC: 7}, Payload: []byte("tunnel-live")})
		}
	}()
	defer func() { close(stop); wg.Wait() }()
	for time.Since(start) < 3*timeout {
		if err := pc.Died(); err != nil {
			if canary.WorstSince(start) > 250*time.Millisecond {
				return false
			}
			run.Violation("timing/live-peer-expired/"+name,
				fmt.Sprintf("%s (idle timeout %v): the session of a library client playing through the tunnel, sending RTCP reports every 200 ms, ended after %v: %v", name, timeout, time.Since(start).Round(time.Millisecond), err),
				timingWitness{Config: cfg, Case: name, Detail: "expired while live: " + err.Error()})
			return true
		}
		time.Sleep(50 * time.Millisecond)
	}
	n0 := pc.Rd.Delivered()
	time.Sleep(500 * time.Millisecond)
	if pc.Rd.Delivered() == n0 && pc.Died() == nil {
		if canary.WorstSince(start) > 250*time.Millisecond {
			return false
		}
		run.Violation("timing/live-peer-starved/"+name, fmt.Sprintf("%s: no media reached the tunnelled client during the last 500 ms of its live phase", name), timingWitness{Config: cfg, Case: name, Detail: "no media"})
		return true
	}
	run.Count("timing-live-phases-held", 1)
	run.Distinct("timing|" + cfg.Name)
	return true
}
