// C02: server sessions follow the RTSP state machine; one response per request.
//
// Every request sequence up to a depth bound (and sampled longer ones) is sent to a real
// gortsplib.Server on a fresh connection; after each response the status class, the CSeq echo
// and ServerSession.State() are compared with an independent reference model of the RFC 2326
// A.2 state machine. Lifecycle callbacks are checked per connection / session. Timing cases
// (expiry / non-expiry) run with scaled timers in parallel.
package main

import (
	"fmt"
	"math/rand"
	"strings"
	"sync"
	"sync/atomic"
	"time"

	"github.com/bluenviron/gortsplib/v5"
	"github.com/bluenviron/gortsplib/v5/pkg/base"
	"github.com/bluenviron/gortsplib/v5/pkg/headers"

	"verif/lib/rig"
	"verif/lib/vlib"
)

// ---- alphabet -----------------------------------------------------------------------------

type sym struct {
	Name   string
	Method base.Method
	Track  int
	Record bool   // SETUP mode=record
	Proto  string // SETUP: "tcp" | "udp" | "mcast"
	Refuse int    // != 0: the application handler is asked to refuse the request with this status (no error)
}

var alphabet = []sym{
	{Name: "OPTIONS", Method: base.Options},
	{Name: "DESCRIBE", Method: base.Describe},
	{Name: "ANNOUNCE", Method: base.Announce},
	{Name: "SETUP0-play-tcp", Method: base.Setup, Track: 0, Proto: "tcp"},
	{Name: "SETUP1-play-tcp", Method: base.Setup, Track: 1, Proto: "tcp"},
	{Name: "SETUP0-play-udp", Method: base.Setup, Track: 0, Proto: "udp"},
	{Name: "SETUP1-play-udp", Method: base.Setup, Track: 1, Proto: "udp"},
	{Name: "SETUP0-rec-tcp", Method: base.Setup, Track: 0, Record: true, Proto: "tcp"},
	{Name: "SETUP1-rec-tcp", Method: base.Setup, Track: 1, Record: true, Proto: "tcp"},
	{Name: "SETUP0-rec-udp", Method: base.Setup, Track: 0, Record: true, Proto: "udp"},
	{Name: "SETUP1-rec-udp", Method: base.Setup, Track: 1, Record: true, Proto: "udp"},
	{Name: "PLAY", Method: base.Play},
	{Name: "RECORD", Method: base.Record},
	{Name: "PAUSE", Method: base.Pause},
	{Name: "TEARDOWN", Method: base.Teardown},
	{Name: "GET_PARAMETER", Method: base.GetParameter},
}

// symbols used only in the sampled part
var extraSyms = []sym{
	{Name: "SET_PARAMETER", Method: base.SetParameter},
	{Name: "SETUP0-play-mcast", Method: base.Setup, Track: 0, Proto: "mcast"},
	{Name: "SETUP1-play-mcast", Method: base.Setup, Track: 1, Proto: "mcast"},
	// track id = number of medias: a media that does not exist (boundary of the track lookup)
	{Name: "SETUP2-play-tcp", Method: base.Setup, Track: 2, Proto: "tcp"},
	{Name: "SETUP2-rec-tcp", Method: base.Setup, Track: 2, Record: true, Proto: "tcp"},
	// requests that the application handler refuses with an error status and no error: the
	// connection and the session stay, the state must not change
	{Name: "PLAY-refused", Method: base.Play, Refuse: 403},
	{Name: "RECORD-refused", Method: base.Record, Refuse: 403},
	{Name: "PAUSE-refused", Method: base.Pause, Refuse: 503},
	{Name: "SETUP1-play-tcp-refused", Method: base.Setup, Track: 1, Proto: "tcp", Refuse: 404},
	{Name: "SETUP1-rec-tcp-refused", Method: base.Setup, Track: 1, Record: true, Proto: "tcp", Refuse: 404},
	{Name: "ANNOUNCE-refused", Method: base.Announce, Refuse: 403},
	{Name: "DESCRIBE-refused", Method: base.Describe, Refuse: 404},
}

// refusedFirst is the index (in symOf numbering) of the first handler-refused symbol.
var refusedFirst = len(alphabet) + 5

type sessVar int

const (
	sessRight  sessVar = iota // the id the server announced, when known; otherwise absent
	sessAbsent                // never send a Session header
	sessWrong                 // an id the server never issued
)

type step struct {
	Sym  int     `json:"sym"` // index into alphabet (>= len(alphabet): extraSyms)
	Sess sessVar `json:"sess"`
}

func symOf(i int) sym {
	if i < len(alphabet) {
		return alphabet[i]
	}
	return extraSyms[i-len(alphabet)]
}

// ---- reference model (RFC 2326 A.2, server side) ---------------------------------------------

const (
	stNone = iota // no session
	stInitial
	stPrePlay
	stPlay
	stPreRecord
	stRecord
	stClosed
)

var stNames = []string{"none", "initial", "pre-play", "play", "pre-record", "record", "closed"}

type config struct {
	Name       string `json:"name"`
	UDP        bool   `json:"udp"`
	Multicast  bool   `json:"multicast"`
	TLS        bool   `json:"tls"`
	HandlerSet string `json:"handlers"`
}

type model struct {
	cfg    config
	state  int
	proto  string  // transport of the session ("" = none yet)
	tracks [2]bool // set-up tracks
}

type expect int

const (
	mustOK expect = iota
	mustFail
	either // documented leniency / not fixed by the statement: accept both, follow the outcome
)

// predict returns what the statement demands for request s in the current model state and the
// state reached if the request succeeds.
func (m *model) predict(s sym, sv sessVar, sessionKnown bool) (expect, int) {
	if s.Refuse != 0 {
		// refused by the library or by the application handler: an error status either way, and
		// the state stays what it was
		return mustFail, m.state
	}
	has := func(meth base.Method) bool { return rig.Implements(m.cfg.HandlerSet, meth) }
	inSession := m.state != stNone && m.state != stClosed

	// Session header rules
	if sv == sessWrong {
		switch s.Method {
		case base.Describe:
			return either, m.state // DESCRIBE is not session-bound
		case base.Setup, base.Announce:
			if !inSession {
				// the library documents that the id is optional here (retries after 301) and
				// treats an unknown id as absent; RFC 2326 would answer 454. Not fixed by the
				// statement: follow the outcome.
				e, ns := m.predict(s, sessAbsent, sessionKnown)
				if e == mustOK {
					return either, ns
				}
				return e, ns
			}
		}
		return mustFail, m.state
	}
	headerSent := sv == sessRight && sessionKnown && inSession

	switch s.Method {
	case base.Options:
		return mustOK, m.state

	case base.Describe:
		if has(base.Describe) {
			return mustOK, m.state
		}
		return mustFail, m.state

	case base.GetParameter:
		if !has(base.GetParameter) {
			// without an application handler the library answers in-session keep-alives itself
			// and 501 otherwise: both are state-preserving and allowed ("handlers not implemented")
			return either, m.state
		}
		return mustOK, m.state

	case base.SetParameter:
		if has(base.SetParameter) {
			return mustOK, m.state
		}
		return mustFail, m.state

	case base.Announce:
		if !has(base.Announce) {
			return mustFail, m.state
		}
		if m.state == stNone || m.state == stInitial {
			return mustOK, stPreRecord
		}
		return mustFail, m.state

	case base.Setup:
		if !has(base.Setup) || s.Track >= len(m.tracks) {
			return mustFail, m.state
		}
		offered := true
		switch s.Proto {
		case "udp":
			offered = m.cfg.UDP && !m.cfg.TLS // plain UDP is refused over RTSPS
		case "mcast":
			offered = m.cfg.Multicast && !m.cfg.TLS
		}
		switch m.state {
		case stNone, stInitial, stPrePlay:
			if s.Record || !offered {
				// mode=record without ANNOUNCE; transport not offered
				return mustFail, m.state
			}
			if m.proto != "" && m.proto != s.Proto {
				return mustFail, m.state
			}
			if m.tracks[s.Track] {
				return mustFail, m.state
			}
			return mustOK, stPrePlay
		case stPreRecord:
			if !s.Record || !offered || s.Proto == "mcast" {
				return mustFail, m.state
			}
			if m.proto != "" && m.proto != s.Proto {
				return mustFail, m.state
			}
			if m.tracks[s.Track] {
				return mustFail, m.state
			}
			return mustOK, stPreRecord
		case stPlay:
			// RFC 2326 allows changing transport parameters while playing, the library refuses:
			// documented leniency, state-preserving either way
			return mustFail, m.state
		default:
			return mustFail, m.state
		}

	case base.Play:
		if !has(base.Play) || !headerSent {
			return mustFail, m.state
		}
		switch m.state {
		case stPrePlay:
			return mustOK, stPlay
		case stPlay:
			return either, stPlay // PLAY while playing: accepted by the library, state unchanged
		}
		return mustFail, m.state

	case base.Record:
		if !has(base.Record) || !headerSent {
			return mustFail, m.state
		}
		if m.state == stPreRecord && m.tracks[0] && m.tracks[1] {
			return mustOK, stRecord
		}
		return mustFail, m.state

	case base.Pause:
		if !has(base.Pause) || !headerSent {
			return mustFail, m.state
		}
		switch m.state {
		case stPlay:
			return mustOK, stPrePlay
		case stRecord:
			return mustOK, stPreRecord
		case stPrePlay, stPreRecord:
			return either, m.state // PAUSE while paused: state-preserving leniency
		}
		return mustFail, m.state

	case base.Teardown:
		if !headerSent {
			return mustFail, m.state
		}
		return mustOK, stClosed
	}
	return mustFail, m.state
}

func (m *model) apply(s sym, ns int) {
	if s.Method == base.Setup && (ns == stPrePlay || ns == stPreRecord) {
		m.proto = s.Proto
		m.tracks[s.Track] = true
	}
	if s.Method == base.Announce {
		m.proto = ""
		m.tracks = [2]bool{}
	}
	m.state = ns
}

func libState(s gortsplib.ServerSessionState) int {
	switch s {
	case gortsplib.ServerSessionStateInitial:
		return stInitial
	case gortsplib.ServerSessionStatePrePlay:
		return stPrePlay
	case gortsplib.ServerSessionStatePlay:
		return stPlay
	case gortsplib.ServerSessionStatePreRecord:
		return stPreRecord
	case gortsplib.ServerSessionStateRecord:
		return stRecord
	}
	return -1
}

// ---- per-connection monitor --------------------------------------------------------------

type connMon struct {
	conn         *gortsplib.ServerConn
	mu           sync.Mutex
	connOpen     int
	connClose    int
	sessions     []*gortsplib.ServerSession
	sessClosed   map[*gortsplib.ServerSession]int
	sessCloseErr map[*gortsplib.ServerSession]string
	closedCh     chan struct{} // closed when conn-close was seen
	requests     int
	responses    int
}

var (
	run     *vlib.Run
	canary  *rig.Canary
	evals   atomic.Int64
	monitor sync.Map // remote addr string -> *connMon ; session -> *connMon
	portCtr atomic.Int64
)

// Monitors are identified by the *ServerConn (created at conn-open). The peer finds its own
// monitor through its local address exactly once (take), so that a later connection re-using
// the same ephemeral port gets a fresh monitor.
var (
	byTag  sync.Map // X-Verif tag -> *connMon
	tagCtr atomic.Int64
)

func newTag() string { return fmt.Sprintf("t%d", tagCtr.Add(1)) }

// monFor returns the monitor of the connection on which a request carrying the tag was seen
// (the request event precedes the response, so it exists once a response has been read).
func monFor(tag string) *connMon {
	if v, ok := byTag.Load(tag); ok {
		return v.(*connMon)
	}
	return nil
}

func onEvent(e rig.Event) {
	switch e.Kind {
	case "conn-open", "conn-close", "session-open", "request", "response":
		if e.Conn == nil {
			return
		}
		var cm *connMon
		if e.Kind == "conn-open" {
			cm = &connMon{conn: e.Conn, sessClosed: map[*gortsplib.ServerSession]int{}, closedCh: make(chan struct{})}
			monitor.Store(e.Conn, cm)
		} else {
			v, ok := monitor.Load(e.Conn)
			if !ok {
				return
			}
			cm = v.(*connMon)
		}
		cm.mu.Lock()
		switch e.Kind {
		case "conn-open":
			cm.connOpen++
		case "conn-close":
			cm.connClose++
			if cm.connClose == 1 {
				close(cm.closedCh)
			}
		case "session-open":
			cm.sessions = append(cm.sessions, e.Sess)
			monitor.Store(e.Sess, cm)
		case "request":
			cm.requests++
			if e.Tag != "" {
				byTag.LoadOrStore(e.Tag, cm)
			}
		case "response":
			cm.responses++
		}
		cm.mu.Unlock()
	case "session-close":
		if v, ok := monitor.Load(e.Sess); ok {
			cm := v.(*connMon)
			cm.mu.Lock()
			cm.sessClosed[e.Sess]++
			if cm.sessCloseErr == nil {
				cm.sessCloseErr = map[*gortsplib.ServerSession]string{}
			}
			cm.sessCloseErr[e.Sess] = e.Err
			cm.mu.Unlock()
		}
	}
}

// ---- running one sequence ------------------------------------------------------------------

type seqWitness struct {
	Config   config   `json:"config"`
	Steps    []step   `json:"steps"`
	Names    []string `json:"names"`
	Pipeline bool     `json:"pipeline,omitempty"`
	At       int      `json:"at"`
	Detail   string   `json:"detail"`
}

const respTimeout = 15 * time.Second

func announceBody() []byte {
	d := rig.DefaultDesc()
	for i, m := range d.Medias {
		m.Control = fmt.Sprintf("trackID=%d", i)
	}
	b, err := d.Marshal()
	if err != nil {
		panic(err)
	}
	return b
}

var sdpBody = announceBody()

func buildRequest(p *rig.Peer, ts *rig.TestServer, s sym, sessID string, clientPort int) *base.Request {
	h := base.Header{}
	if sessID != "" {
		h["Session"] = base.HeaderValue{sessID}
	}
	if s.Refuse != 0 {
		h["X-Verif-Refuse"] = base.HeaderValue{fmt.Sprint(s.Refuse)}
	}
	playURL := ts.URL("/stream")
	recURL := ts.URL("/pub")
	switch s.Method {
	case base.Options, base.Describe, base.Play, base.Pause, base.Teardown, base.GetParameter, base.SetParameter, base.Record:
		u := playURL
		if s.Method == base.Record {
			u = recURL
		}
		return p.Request(s.Method, u, h, nil)
	case base.Announce:
		h["Content-Type"] = base.HeaderValue{"application/sdp"}
		return p.Request(base.Announce, recURL, h, sdpBody)
	case base.Setup:
		var t headers.Transport
		mode := headers.TransportModePlay
		if s.Record {
			mode = headers.TransportModeRecord
		}
		t.Mode = &mode
		switch s.Proto {
		case "tcp":
			t.Protocol = headers.TransportProtocolTCP
			d := headers.TransportDeliveryUnicast
			t.Delivery = &d
			t.InterleavedIDs = &[2]int{2 * s.Track, 2*s.Track + 1}
		case "udp":
			d := headers.TransportDeliveryUnicast
			t.Delivery = &d
			t.ClientPorts = &[2]int{clientPort + 2*s.Track, clientPort + 2*s.Track + 1}
		case "mcast":
			d := headers.TransportDeliveryMulticast
			t.Delivery = &d
		}
		h["Transport"] = t.Marshal()
		u := playURL
		if s.Record {
			u = recURL
		}
		return p.Request(base.Setup, fmt.Sprintf("%s/trackID=%d", u, s.Track), h, nil)
	}
	panic("unreachable")
}

func names(steps []step) []string {
	out := make([]string, len(steps))
	for i, st := range steps {
		out[i] = symOf(st.Sym).Name
		switch st.Sess {
		case sessAbsent:
			out[i] += "[no-session-hdr]"
		case sessWrong:
			out[i] += "[wrong-session-hdr]"
		}
	}
	return out
}

// waitCond polls cond until true or until maxWait elapsed; late canary => inconclusive.
func waitCond(maxWait time.Duration, cond func() bool) (ok bool, conclusive bool) {
	t0 := time.Now()
	deadline := t0.Add(maxWait)
	for {
		if cond() {
			return true, true
		}
		if time.Now().After(deadline) {
			return false, canary.WorstSince(t0) < 250*time.Millisecond
		}
		time.Sleep(2 * time.Millisecond)
	}
}

func clsName(code base.StatusCode) string {
	if code >= 200 && code < 300 {
		return "2xx"
	}
	return "error"
}

// runSequence drives one sequence on a fresh connection and checks it against the model.
func runSequence(ts *rig.TestServer, cfg config, steps []step) {
	evals.Add(1)
	run.Count("sequences", 1)
	w := func(at int, detail string) seqWitness {
		return seqWitness{Config: cfg, Steps: steps, Names: names(steps), At: at, Detail: detail}
	}
	p, err := rig.Dial(ts.Addr(), ts.TLSCfg, "")
	if err != nil {
		run.Inconclusive("dial-failed")
		return
	}
	defer p.Close()
	if ts.TLSCfg != nil {
		// force the handshake so that LocalAddr is final and errors surface here
		_ = p.NC.SetDeadline(time.Now().Add(10 * time.Second))
	}
	p.Tag = newTag()
	var cm *connMon // known once the first response has been read
	m := &model{cfg: cfg, state: stNone}
	sessID := ""
	clientPort := 30000 + int(portCtr.Add(1)%7000)*4
	connOpen := true
	lastWasError := false
	sent := 0

	for i, st := range steps {
		s := symOf(st.Sym)
		hdr := ""
		switch st.Sess {
		case sessRight:
			if m.state != stNone && m.state != stClosed {
				hdr = sessID
			}
		case sessWrong:
			hdr = "0000wrong0000"
		}
		exp, ns := m.predict(s, st.Sess, sessID != "")
		req := buildRequest(p, ts, s, hdr, clientPort)
		wantCSeq := req.Header["CSeq"][0]
		stateKey := fmt.Sprintf("%s|%s|%d|%s", cfg.Name, stNames[m.state], st.Sym, []string{"r", "a", "w"}[st.Sess])
		run.Distinct("sr|" + stateKey)

		tReq := time.Now()
		res, err := p.Do(req, respTimeout)
		sent++
		run.Count("requests", 1)
		if err != nil {
			if err == rig.ErrTimeout {
				if canary.WorstSince(tReq) < 250*time.Millisecond {
					run.Violation(fmt.Sprintf("no-response/hang/%s/in-%s", s.Method, stNames[m.state]),
						fmt.Sprintf("%s in state %s got neither a response nor a close within %v", s.Name, stNames[m.state], respTimeout), w(i, "timeout"))
				} else {
					run.Inconclusive("response-timeout-late-canary")
				}
				return
			}
			// connection ended without a response
			if lastWasError {
				// the library ends the connection after most error responses: the sequence ends here
				connOpen = false
				sent--
				run.Count("sequences-ended-by-close-after-error", 1)
				break
			}
			run.Violation(fmt.Sprintf("no-response/closed/%s/in-%s", s.Method, stNames[m.state]),
				fmt.Sprintf("%s in state %s: the connection ended without a response although the previous exchange succeeded (%v)", s.Name, stNames[m.state], err), w(i, err.Error()))
			return
		}
		run.Count("responses", 1)
		// CSeq echo / order
		if got := res.Header["CSeq"]; len(got) != 1 || got[0] != wantCSeq {
			run.Violation("cseq-mismatch/"+string(s.Method), fmt.Sprintf("response CSeq %v for request CSeq %s", got, wantCSeq), w(i, "cseq"))
			return
		}
		ok2xx := res.StatusCode >= 200 && res.StatusCode < 300
		if sh, ok := res.Header["Session"]; ok && len(sh) == 1 {
			var hs headers.Session
			if hs.Unmarshal(sh) == nil {
				sessID = hs.Session
			}
		}
		switch exp {
		case mustOK:
			if !ok2xx {
				run.Violation(fmt.Sprintf("legal-request-refused/%s/in-%s", s.Name, stNames[m.state]),
					fmt.Sprintf("%s is legal in state %s (config %s) but was answered %d", s.Name, stNames[m.state], cfg.Name, res.StatusCode), w(i, fmt.Sprint(res.StatusCode)))
				return
			}
			m.apply(s, ns)
		case mustFail:
			if ok2xx {
				run.Violation(fmt.Sprintf("illegal-request-accepted/%s/in-%s", s.Name, stNames[m.state]),
					fmt.Sprintf("%s is illegal in state %s (config %s, session header %d) but was answered %d", s.Name, stNames[m.state], cfg.Name, st.Sess, res.StatusCode), w(i, fmt.Sprint(res.StatusCode)))
				return
			}
			run.Count("illegal-requests-refused", 1)
		case either:
			run.Count("lenient-cases", 1)
			if ok2xx {
				m.apply(s, ns)
			}
		}
		lastWasError = !ok2xx

		// session state reported by the API
		if cm == nil {
			if cm = monFor(p.Tag); cm == nil {
				run.Violation("on-request-hook-not-called", "a response was received but the server's OnRequest hook never saw the request", w(i, "hook"))
				return
			}
		}
		cm.mu.Lock()
		var ss *gortsplib.ServerSession // the connection's current (not yet closed) session
		if n := len(cm.sessions); n > 0 {
			ss = cm.sessions[n-1]
			if m.state == stNone && cm.sessClosed[ss] > 0 {
				ss = nil // the previous, already ended session
			}
		}
		nsess := len(cm.sessions)
		cm.mu.Unlock()
		switch m.state {
		case stNone:
			// a refused SETUP/ANNOUNCE may have created a session object in state initial
			if ss != nil {
				if got := libState(ss.State()); got != stInitial {
					run.Violation("state-mismatch/none", fmt.Sprintf("model: no session established, API session state %s", stNames[got]), w(i, "state"))
					return
				}
				m.state = stInitial
			}
		case stClosed:
			// checked at the end (close notification)
		default:
			if ss == nil {
				run.Violation("state-mismatch/no-session-object", fmt.Sprintf("model state %s but OnSessionOpen was never delivered", stNames[m.state]), w(i, "no session"))
				return
			}
			if got := libState(ss.State()); got != m.state {
				run.Violation(fmt.Sprintf("state-mismatch/%s-after-%s", stNames[m.state], s.Method),
					fmt.Sprintf("after %s (answered %d, %s) the model state is %s but ServerSession.State() is %s", s.Name, res.StatusCode, clsName(res.StatusCode), stNames[m.state], stNames[got]), w(i, "state"))
				return
			}
			run.Count("state-comparisons", 1)
		}
		_ = nsess
		if m.state == stClosed {
			// session torn down: following requests start from no session
			tornDown := ss
			ok, concl := waitCond(10*time.Second, func() bool {
				cm.mu.Lock()
				defer cm.mu.Unlock()
				return cm.sessClosed[tornDown] >= 1
			})
			if !ok {
				if concl {
					run.Violation("session-not-closed-after-teardown", "OnSessionClose not delivered within 10 s after a successful TEARDOWN", w(i, "teardown"))
					return
				}
				run.Inconclusive("teardown-close-late-canary")
				return
			}
			m = &model{cfg: cfg, state: stNone}
			sessID = ""
		}
	}

	// final probe: one more request must get exactly its own response (an extra or missing
	// response earlier in the sequence would shift the CSeq)
	if connOpen {
		req := p.Request(base.Options, ts.URL("/stream"), nil, nil)
		res, err := p.Do(req, respTimeout)
		switch {
		case err != nil && lastWasError:
			connOpen = false
		case err != nil:
			run.Violation("no-response/final-probe", fmt.Sprintf("final OPTIONS probe got no response: %v", err), w(len(steps), "probe"))
			return
		default:
			if got := res.Header["CSeq"]; len(got) != 1 || got[0] != req.Header["CSeq"][0] {
				run.Violation("cseq-mismatch/final-probe", fmt.Sprintf("final probe: response CSeq %v for request %v (an earlier request got 0 or 2 responses)", got, req.Header["CSeq"]), w(len(steps), "probe"))
				return
			}
			sent++
		}
	}
	p.Close()
	if cm == nil {
		return
	}

	// connection close notification
	tClose := time.Now()
	select {
	case <-cm.closedCh:
	case <-time.After(15 * time.Second):
		if canary.WorstSince(tClose) < 250*time.Millisecond {
			run.Violation("conn-close-not-delivered", "OnConnClose not delivered within 15 s after the peer closed the connection", w(len(steps), "conn-close"))
		} else {
			run.Inconclusive("conn-close-late-canary")
		}
		return
	}

	// one response per request as seen by the server's own hooks
	cm.mu.Lock()
	reqs, resps := cm.requests, cm.responses
	sessions := append([]*gortsplib.ServerSession(nil), cm.sessions...)
	cm.mu.Unlock()
	if reqs != resps {
		run.Violation("responses-not-equal-requests", fmt.Sprintf("server hooks saw %d requests and %d responses on the connection", reqs, resps), w(len(steps), "hooks"))
		return
	}

	// session end rule
	streamingUDP := (m.state == stPlay || m.state == stRecord) && (m.proto == "udp" || m.proto == "mcast")
	for idx, ss := range sessions {
		last := idx == len(sessions)-1
		if last && streamingUDP {
			// must survive the loss of its connection
			time.Sleep(20 * time.Millisecond)
			cm.mu.Lock()
			closed := cm.sessClosed[ss]
			cm.mu.Unlock()
			if closed != 0 {
				run.Violation("udp-session-closed-with-connection", fmt.Sprintf("session streaming over %s was closed when its connection went away", m.proto), w(len(steps), "udp-session"))
				return
			}
			run.Count("udp-sessions-surviving-connection", 1)
			// end it with TEARDOWN from another connection of the same address
			p2, err := rig.Dial(ts.Addr(), ts.TLSCfg, "")
			if err != nil {
				run.Inconclusive("dial-failed")
				return
			}
			r2 := p2.Request(base.Teardown, ts.URL("/stream"), base.Header{"Session": base.HeaderValue{sessID}}, nil)
			res, err := p2.Do(r2, respTimeout)
			p2.Close()
			if err != nil || res.StatusCode != base.StatusOK {
				run.Violation("teardown-from-second-connection-refused", fmt.Sprintf("TEARDOWN of a UDP session from a second connection of the same address: %v %v", res, err), w(len(steps), "teardown2"))
				return
			}
		}
		ok, concl := waitCond(10*time.Second, func() bool {
			cm.mu.Lock()
			defer cm.mu.Unlock()
			return cm.sessClosed[ss] >= 1
		})
		if !ok {
			if concl {
				run.Violation("session-not-closed/in-"+stNames[m.state], fmt.Sprintf("session (model state %s, transport %q) still open 10 s after its last connection went away", stNames[m.state], m.proto), w(len(steps), "session-leak"))
			} else {
				run.Inconclusive("session-close-late-canary")
			}
			return
		}
	}
	// exactly once
	time.Sleep(time.Millisecond)
	cm.mu.Lock()
	for _, ss := range sessions {
		if cm.sessClosed[ss] != 1 {
			n := cm.sessClosed[ss]
			cm.mu.Unlock()
			run.Violation("session-closed-more-than-once", fmt.Sprintf("OnSessionClose delivered %d times for one session", n), w(len(steps), "close-count"))
			return
		}
	}
	co, cc := cm.connOpen, cm.connClose
	cm.mu.Unlock()
	if co != 1 || cc != 1 {
		run.Violation("conn-callbacks-unbalanced", fmt.Sprintf("OnConnOpen x%d, OnConnClose x%d for one connection", co, cc), w(len(steps), "conn-callbacks"))
		return
	}
	run.Count("sessions-opened-and-closed-once", int64(len(sessions)))
	monitor.Delete(cm.conn)
	for _, ss := range sessions {
		monitor.Delete(ss)
	}
	if run.WantSample() && len(steps) >= 3 && m.state != stNone {
		run.Sample(map[string]any{"config": cfg.Name, "sequence": names(steps), "final_model_state": stNames[m.state], "requests_sent": sent})
	}
}

// runPipelined writes k model-legal requests in one write and checks k responses in order.
func runPipelined(ts *rig.TestServer, cfg config, steps []step) {
	evals.Add(1)
	run.Count("pipelined-batches", 1)
	p, err := rig.Dial(ts.Addr(), ts.TLSCfg, "")
	if err != nil {
		run.Inconclusive("dial-failed")
		return
	}
	defer p.Close()
	clientPort := 30000 + int(portCtr.Add(1)%7000)*4
	var buf []byte
	var want []string
	for _, st := range steps {
		// pipelined requests cannot know the session id: only requests that need none are used
		req := buildRequest(p, ts, symOf(st.Sym), "", clientPort)
		b, _ := req.Marshal()
		buf = append(buf, b...)
		want = append(want, req.Header["CSeq"][0])
	}
	if err := p.WriteRaw(buf); err != nil {
		run.Inconclusive("pipelined-write-failed")
		return
	}
	w := seqWitness{Config: cfg, Steps: steps, Names: names(steps), Pipeline: true}
	for i, c := range want {
		res, err := p.ReadResponse(respTimeout)
		if err != nil {
			w.At = i
			run.Violation("pipelined/missing-response", fmt.Sprintf("pipelined batch of %d requests: response %d missing (%v)", len(want), i, err), w)
			return
		}
		if got := res.Header["CSeq"]; len(got) != 1 || got[0] != c {
			w.At = i
			run.Violation("pipelined/order-or-cseq", fmt.Sprintf("pipelined batch: response %d has CSeq %v, want %s", i, got, c), w)
			return
		}
		if res.StatusCode < 200 || res.StatusCode >= 300 {
			w.At = i
			run.Violation("pipelined/legal-request-refused", fmt.Sprintf("pipelined batch: %s answered %d", symOf(steps[i].Sym).Name, res.StatusCode), w)
			return
		}
		run.Count("pipelined-responses", 1)
	}
	run.Distinct("pipe|" + cfg.Name + "|" + strings.Join(names(steps), ","))
}

// ---- generation ------------------------------------------------------------------------------

func allSequences(n, depth int) [][]step {
	var out [][]step
	var rec func(prefix []step)
	rec = func(prefix []step) {
		if len(prefix) > 0 {
			out = append(out, append([]step(nil), prefix...))
		}
		if len(prefix) == depth {
			return
		}
		for i := 0; i < n; i++ {
			rec(append(prefix, step{Sym: i}))
		}
	}
	rec(nil)
	return out
}

// sampleSequence builds a longer sequence; half of the steps are steered towards legal
// continuations according to the model so that deep states are reached.
func sampleSequence(r *rand.Rand, cfg config, length int) []step {
	m := &model{cfg: cfg, state: stNone}
	total := len(alphabet) + len(extraSyms)
	var out []step
	for len(out) < length {
		var st step
		for tries := 0; ; tries++ {
			st = step{Sym: r.Intn(total)}
			switch r.Intn(12) {
			case 0:
				st.Sess = sessAbsent
			case 1:
				st.Sess = sessWrong
			}
			exp, _ := m.predict(symOf(st.Sym), st.Sess, m.state != stNone)
			if exp != mustFail || tries > 6 || r.Intn(4) == 0 {
				break
			}
		}
		exp, ns := m.predict(symOf(st.Sym), st.Sess, m.state != stNone)
		out = append(out, st)
		if exp == mustFail && r.Intn(3) != 0 {
			// most refusals end the connection; usually stop here
			break
		}
		if exp != mustFail {
			m.apply(symOf(st.Sym), ns)
			if m.state == stClosed {
				m = &model{cfg: cfg, state: stNone}
			}
		}
	}
	return out
}

func legalPipelines() [][]step {
	idx := func(name string) int {
		for i, s := range alphabet {
			if s.Name == name {
				return i
			}
		}
		panic(name)
	}
	mk := func(ns ...string) []step {
		var o []step
		for _, n := range ns {
			o = append(o, step{Sym: idx(n), Sess: sessAbsent})
		}
		return o
	}
	return [][]step{
		mk("OPTIONS", "DESCRIBE", "OPTIONS", "GET_PARAMETER"),
		mk("OPTIONS", "DESCRIBE", "SETUP0-play-tcp", "SETUP1-play-tcp", "OPTIONS"),
		mk("DESCRIBE", "SETUP1-play-tcp", "GET_PARAMETER", "SETUP0-play-tcp"),
		mk("ANNOUNCE", "SETUP0-rec-tcp", "SETUP1-rec-tcp", "OPTIONS"),
		mk("OPTIONS", "OPTIONS", "OPTIONS", "OPTIONS", "OPTIONS", "OPTIONS", "OPTIONS", "OPTIONS"),
		mk("DESCRIBE", "SETUP0-play-udp", "SETUP1-play-udp", "DESCRIBE"),
		mk("ANNOUNCE", "SETUP1-rec-udp", "SETUP0-rec-udp"),
	}
}

// deepSequences returns, for every canonical legal prefix that reaches a deep state (playing,
// paused, recording, paused recording, over TCP and UDP), all continuations of length 1..depth
// over the alphabet: the exhaustive part cannot reach these states below its depth bound.
func deepSequences(depth int) [][]step {
	idx := func(name string) int {
		for i, s := range alphabet {
			if s.Name == name {
				return i
			}
		}
		panic(name)
	}
	mk := func(ns ...string) []step {
		var o []step
		for _, n := range ns {
			o = append(o, step{Sym: idx(n)})
		}
		return o
	}
	prefixes := [][]step{
		mk("SETUP0-play-tcp", "SETUP1-play-tcp"),
		mk("SETUP0-play-tcp", "SETUP1-play-tcp", "PLAY"),
		mk("SETUP0-play-tcp", "SETUP1-play-tcp", "PLAY", "PAUSE"),
		mk("SETUP1-play-udp", "PLAY"),
		mk("SETUP0-play-udp", "SETUP1-play-udp", "PLAY", "PAUSE"),
		mk("ANNOUNCE", "SETUP0-rec-tcp", "SETUP1-rec-tcp"),
		mk("ANNOUNCE", "SETUP0-rec-tcp", "SETUP1-rec-tcp", "RECORD"),
		mk("ANNOUNCE", "SETUP0-rec-tcp", "SETUP1-rec-tcp", "RECORD", "PAUSE"),
		mk("ANNOUNCE", "SETUP0-rec-udp", "SETUP1-rec-udp", "RECORD"),
		mk("ANNOUNCE", "SETUP0-rec-udp", "SETUP1-rec-udp", "RECORD", "PAUSE"),
	}
	// continuations over the alphabet plus the handler-refused symbols
	idxs := make([]int, 0, len(alphabet)+8)
	for i := range alphabet {
		idxs = append(idxs, i)
	}
	for i := refusedFirst; i < len(alphabet)+len(extraSyms); i++ {
		idxs = append(idxs, i)
	}
	var sufs [][]step
	var rec func(prefix []step)
	rec = func(prefix []step) {
		if len(prefix) > 0 {
			sufs = append(sufs, append([]step(nil), prefix...))
		}
		if len(prefix) == depth {
			return
		}
		for _, i := range idxs {
			rec(append(prefix, step{Sym: i}))
		}
	}
	rec(nil)
	var out [][]step
	for _, suf := range sufs {
		for _, p := range prefixes {
			out = append(out, append(append([]step{}, p...), suf...))
		}
	}
	return out
}

func startServer(cfg config) *rig.TestServer {
	ts, err := rig.StartServer(rig.ServerOpts{UDP: cfg.UDP, Multicast: cfg.Multicast, TLS: cfg.TLS, HandlerSet: cfg.HandlerSet, NoLog: true, OnEvent: onEvent})
	if err != nil {
		run.Fatal("cannot start server %s: %v", cfg.Name, err)
	}
	// the record path is published nowhere: OnSetup returns nil stream for recorders
	return ts
}

func runBatch(cfg config, seqs [][]step, pipelines [][]step) {
	ts := startServer(cfg)
	base0 := len(rig.LibGoroutines())
	run.Parallel(len(seqs), func(_, i int) { runSequence(ts, cfg, seqs[i]) }, func(i int, v any, stack string) {
		run.Violation("harness-side-panic/"+vlib.PanicSite(stack), fmt.Sprint(v), seqWitness{Config: cfg, Steps: seqs[i], Names: names(seqs[i]), Detail: stack})
	})
	// pipelined batches only use requests a permissive handler set accepts
	if cfg.HandlerSet == "full" || cfg.HandlerSet == "std" {
		run.Parallel(len(pipelines), func(_, i int) {
			ok := true
			m := &model{cfg: cfg, state: stNone}
			for _, st := range pipelines[i] {
				e, ns := m.predict(symOf(st.Sym), sessAbsent, false)
				if e != mustOK {
					ok = false
					break
				}
				m.apply(symOf(st.Sym), ns)
			}
			if ok {
				runPipelined(ts, cfg, pipelines[i])
			}
		}, nil)
	}
	// quiescence: all connections of this batch are closed
	co, cc := ts.Core.ConnOpen.Load(), ts.Core.ConnClose.Load()
	ok, concl := waitCond(15*time.Second, func() bool {
		co, cc = ts.Core.ConnOpen.Load(), ts.Core.ConnClose.Load()
		return co == cc
	})
	if !ok && concl {
		run.Violation("conn-callbacks-unbalanced/batch", fmt.Sprintf("config %s: %d OnConnOpen vs %d OnConnClose at quiescence", cfg.Name, co, cc), cfg)
	}
	ts.Close()
	so, sc := ts.Core.SessOpen.Load(), ts.Core.SessClose.Load()
	if so != sc {
		run.Violation("session-callbacks-unbalanced/batch", fmt.Sprintf("config %s: %d OnSessionOpen vs %d OnSessionClose after Server.Close", cfg.Name, so, sc), cfg)
	}
	run.Count("sessions-opened", so)
	run.Count("connections", co)
	left := rig.WaitLibGoroutines(base0-1, 5*time.Second)
	_ = left
}

func main() {
	run = vlib.Start("C02", "exploration")
	canary = rig.StartCanary()
	defer canary.Stop()

	full := config{Name: "full/udp+tcp", UDP: true, HandlerSet: "full"}

	if run.Replay != "" {
		var w seqWitness
		if err := run.LoadReplay(&w); err != nil {
			run.Fatal("cannot load replay: %v", err)
		}
		if w.Config.Name == "" {
			w.Config = full
		}
		if strings.HasPrefix(w.Config.Name, "timing/") {
			runTimingCases(true)
		} else {
			for k := 0; k < 5; k++ {
				if w.Pipeline {
					runBatch(w.Config, nil, [][]step{w.Steps})
				} else {
					runBatch(w.Config, [][]step{w.Steps}, nil)
				}
			}
		}
		run.ReportRaces()
		run.Finish(evals.Load(), "replay")
		return
	}

	// timing cases run concurrently with the enumeration (they mostly sleep)
	var twg sync.WaitGroup
	twg.Add(1)
	go func() {
		defer twg.Done()
		runTimingCases(false)
	}()

	// 1. exhaustive enumeration below the depth bound on the full configuration
	depth := run.Pick(3, 4)
	seqs := allSequences(len(alphabet), depth)
	run.Extra("exhaustive_depth", depth)
	run.Extra("alphabet", func() []string {
		var o []string
		for _, s := range alphabet {
			o = append(o, s.Name)
		}
		return o
	}())
	run.Count("enumerated-sequences", int64(len(seqs)))
	runBatch(full, seqs, legalPipelines())

	// 1c. requests naming a session that is being closed (several connections)
	{
		ts := startServer(full)
		cc := closingCases(run.Pick(3, 25))
		run.Parallel(len(cc), func(_, i int) { runClosingCase(ts, full, cc[i]) }, func(i int, v any, stack string) {
			run.Violation("harness-side-panic/"+vlib.PanicSite(stack), fmt.Sprint(v), cc[i])
		})
		ts.Close()
	}

	// 1b. every continuation of length 1..2 (thorough: 3) of each canonical deep state
	deep := deepSequences(run.Pick(2, 3))
	run.Count("deep-state-continuations", int64(len(deep)))
	runBatch(full, deep, nil)

	// 2. other configurations: handler subsets and transport / TLS settings, sampled + depth-2 exhaustive
	var cfgs []config
	for _, hs := range []string{"std", "no-record", "no-play", "no-pause", "describe-only", "none"} {
		cfgs = append(cfgs, config{Name: hs + "/udp+tcp", UDP: true, HandlerSet: hs})
	}
	cfgs = append(cfgs,
		config{Name: "full/tcp-only", HandlerSet: "full"},
		config{Name: "full/udp+mcast", UDP: true, Multicast: true, HandlerSet: "full"},
		config{Name: "full/tls", TLS: true, HandlerSet: "full"},
		config{Name: "std/tls+udp", TLS: true, UDP: true, HandlerSet: "std"},
	)
	if run.Quick() {
		cfgs = []config{cfgs[1], cfgs[2], cfgs[4], cfgs[6], cfgs[7], cfgs[8]}
	}
	nSample := run.Pick(400, 6000)
	for ci, cfg := range cfgs {
		r := run.Rand("sampled/"+cfg.Name, ci)
		ss := allSequences(len(alphabet), 2)
		for k := 0; k < nSample; k++ {
			ss = append(ss, sampleSequence(r, cfg, 5+r.Intn(8)))
		}
		runBatch(cfg, ss, legalPipelines())
	}
	// 3. long sampled sequences (with Session-header variants and extra symbols) on the full configuration
	{
		r := run.Rand("sampled-long", 0)
		var ss [][]step
		for k := 0; k < run.Pick(1500, 30000); k++ {
			ss = append(ss, sampleSequence(r, full, 5+r.Intn(8)))
		}
		cfgm := config{Name: "full/udp+mcast", UDP: true, Multicast: true, HandlerSet: "full"}
		runBatch(cfgm, ss, nil)
	}

	twg.Wait()
	run.ReportRaces()
	run.Exhaustive(false)
	run.Extra("exhaustive_part", fmt.Sprintf("all %d sequences of length 1..%d over the %d-symbol alphabet on configuration %s", len(seqs), depth, len(alphabet), full.Name))
	run.Assume("status class (2xx vs error) and ServerSession.State() are compared, not exact status codes; connection fate after an error response is not predicted")
	run.Assume("documented state-preserving leniencies accepted either way: PLAY while playing, PAUSE while paused, unknown Session id on SETUP/ANNOUNCE without session treated as absent, DESCRIBE with unknown Session id")
	run.Finish(evals.Load(), "request sequences over a 16-symbol alphabet (+3 sampled-only symbols, 3 Session-header variants) on fresh connections to a real Server, exhaustive up to the depth bound on the full configuration (plus every continuation of length 1..2, thorough 3, of ten canonical deep states) and depth 2 on the others, model-steered samples of length 5..12 beyond; distinct_nontrivial = distinct (configuration, model state, request, session-header variant) combinations exercised + distinct pipelined batches + timing cases")
}
