package main

import (
	"fmt"
	"math/rand"
	"os"
	"time"

	"github.com/bluenviron/gortsplib/v5"
	"github.com/pion/rtp"

	"verif/lib/rig"
)

func main() {
	proto := os.Args[1]
	tls := os.Args[2] == "tls"
	ts, err := rig.StartServer(rig.ServerOpts{UDP: true, TLS: tls, HandlerSet: "full", OnEvent: func(e rig.Event) {
		if e.Kind == "conn-close" || e.Kind == "session-close" || e.Kind == "request" {
			fmt.Println(time.Now().Format("15:04:05"), e.Kind, e.Method, e.Err)
		}
	}, NoLog: true})
	if err != nil {
		panic(err)
	}
	pc, _ := rig.NewPlayClient(ts, rig.ClientOpts{Name: "x", Proto: proto, ReadTimeout: 20 * time.Minute, Mutate: func(c *gortsplib.Client) {}})
	if err := pc.Start(); err != nil {
		panic(err)
	}
	r := rand.New(rand.NewSource(1))
	tr := rig.NewTraffic(2, rig.FlowPairs(rig.DefaultDesc()), r, false)
	start := time.Now()
	for time.Since(start) < 150*time.Second {
		p, idx := tr.Flows[0].Next(r, 100, false)
		tr.Flows[0].Done(idx, ts.Stream.WritePacketRTP(ts.Stream.Desc.Medias[0], p))
		_ = rtp.Packet{}
		time.Sleep(5 * time.Millisecond)
		if pc.Died() != nil {
			fmt.Println("DIED after", time.Since(start), pc.Died())
			break
		}
	}
	fmt.Println("delivered", pc.Rd.Delivered(), "died", pc.Died())
	pc.Close()
	ts.Close()
}
