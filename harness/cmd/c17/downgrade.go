package main

import (
	"bufio"
	"crypto/tls"
	"fmt"
	"net"
	"strings"
	"sync"
	"sync/atomic"
	"time"

	"github.com/bluenviron/gortsplib/v5"
	"github.com/bluenviron/gortsplib/v5/pkg/base"
	"github.com/bluenviron/gortsplib/v5/pkg/conn"
	"github.com/bluenviron/gortsplib/v5/pkg/description"

	"verif/lib/rig"
	"verif/lib/taps"
)

// (d) downgrade probes.

// captureKeyMgmt runs one legitimate secure SETUP and returns the KeyMgmt header a real client
// sent (a well-formed MIKEY message), so that the raw probes below are refused because of the
// admission rule and not because of a malformed header.
func captureKeyMgmt() string {
	var mu sync.Mutex
	km := ""
	ts, err := rig.StartServer(rig.ServerOpts{UDP: true, TLS: true, HandlerSet: "full", NoLog: true})
	if err != nil {
		run.Fatal("downgrade: server: %v", err)
	}
	defer ts.Close()
	hooks := &taps.StreamHooks{OnMsgOut: func(_ *taps.Conn, msg []byte) {
		for _, ln := range strings.Split(string(msg), "\r\n") {
			if strings.HasPrefix(ln, "KeyMgmt:") {
				mu.Lock()
				if km == "" {
					km = strings.TrimSpace(strings.TrimPrefix(ln, "KeyMgmt:"))
				}
				mu.Unlock()
			}
		}
	}}
	pc, err := rig.NewPlayClient(ts, rig.ClientOpts{Name: "km", Proto: "udp", Mutate: func(c *gortsplib.Client) {
		c.DialTLSContext = taps.DialTLSContext(hooks, nil)
	}})
	if err != nil {
		run.Fatal("downgrade: client: %v", err)
	}
	if err := pc.Start(); err != nil {
		run.Fatal("downgrade: legitimate secure session failed: %v", err)
	}
	pc.Close()
	mu.Lock()
	defer mu.Unlock()
	if km == "" {
		run.Fatal("downgrade: no KeyMgmt header captured from a legitimate secure SETUP")
	}
	return km
}

type probe struct {
	Name      string `json:"name"`
	TLS       bool   `json:"tls_server"`
	Record    bool   `json:"record"`
	Transport string `json:"transport_header"`
	KeyMgmt   bool   `json:"with_keymgmt"`
	Key       string `json:"key"`
}

func runProbe(p probe, keyMgmt string) {
	evals.Add(1)
	ts, err := rig.StartServer(rig.ServerOpts{UDP: true, Multicast: strings.Contains(p.Transport, "multicast") && rig.MulticastIP() != "", TLS: p.TLS, HandlerSet: "full", NoLog: true})
	if err != nil {
		run.Fatal("downgrade: server: %v", err)
	}
	defer ts.Close()
	var cfg *tls.Config
	if p.TLS {
		cfg = ts.TLSCfg
	}
	peer, err := rig.Dial(ts.Addr(), cfg, "")
	if err != nil {
		run.Fatal("downgrade: dial: %v", err)
	}
	defer peer.Close()
	url := ts.URL("/stream")
	hdr := base.Header{"Transport": base.HeaderValue{p.Transport}}
	if p.KeyMgmt {
		hdr["KeyMgmt"] = base.HeaderValue{keyMgmt}
	}
	if p.Record {
		url = ts.URL("/rec")
		sdp := "v=0\r\no=- 0 0 IN IP4 127.0.0.1\r\ns=x\r\nc=IN IP4 0.0.0.0\r\nt=0 0\r\nm=video 0 RTP/AVP 96\r\na=rtpmap:96 private/90000\r\na=control:trackID=0\r\n"
		res, err := peer.Do(peer.Request(base.Announce, url, base.Header{"Content-Type": base.HeaderValue{"application/sdp"}}, []byte(sdp)), 5*time.Second)
		if err != nil || res.StatusCode != base.StatusOK {
			run.Count("downgrade:announce-not-accepted:"+p.Name, 1)
		}
	} else {
		res, err := peer.Do(peer.Request(base.Describe, url, base.Header{"Accept": base.HeaderValue{"application/sdp"}}, nil), 5*time.Second)
		if err != nil || res.StatusCode != base.StatusOK {
			run.Fatal("downgrade: DESCRIBE failed on probe %s: %v", p.Name, err)
		}
	}
	res, err := peer.Do(peer.Request(base.Setup, url+"/trackID=0", hdr, nil), 5*time.Second)
	status := "connection-closed"
	if err == nil {
		status = fmt.Sprint(int(res.StatusCode))
	}
	run.Count("downgrade:"+p.Name+":status="+status, 1)
	run.Distinct("probe|" + p.Name)
	if err == nil && res.StatusCode == base.StatusOK {
		run.Violation(p.Key, fmt.Sprintf("SETUP with Transport %q on a %s server was answered with 200 (Transport: %v)", p.Transport,
			map[bool]string{true: "TLS (rtsps)", false: "plain (rtsp)"}[p.TLS], res.Header["Transport"]), map[string]any{"probe": p})
	}
}

func probes() []probe {
	var out []probe
	for _, rec := range []bool{false, true} {
		mode, sfx := "", ""
		if rec {
			mode, sfx = ";mode=record", "-record"
		}
		for _, km := range []bool{true, false} {
			k := map[bool]string{true: "+keymgmt", false: ""}[km]
			out = append(out,
				probe{Name: "savp-udp-over-plain-rtsp" + sfx + k, Record: rec, KeyMgmt: km, Transport: "RTP/SAVP;unicast;client_port=40000-40001" + mode, Key: "downgrade/savp-over-plain-rtsp/accepted"},
				probe{Name: "savp-tcp-over-plain-rtsp" + sfx + k, Record: rec, KeyMgmt: km, Transport: "RTP/SAVP/TCP;unicast;interleaved=0-1" + mode, Key: "downgrade/savp-over-plain-rtsp/accepted"},
			)
		}
		out = append(out,
			probe{Name: "avp-udp-over-rtsps" + sfx, TLS: true, Record: rec, Transport: "RTP/AVP;unicast;client_port=40000-40001" + mode, Key: "downgrade/plain-udp-over-rtsps/accepted"},
			probe{Name: "avp-udp-explicit-over-rtsps" + sfx, TLS: true, Record: rec, Transport: "RTP/AVP/UDP;unicast;client_port=40000-40001" + mode, Key: "downgrade/plain-udp-over-rtsps/accepted"},
		)
	}
	out = append(out,
		probe{Name: "savp-mcast-over-plain-rtsp", KeyMgmt: true, Transport: "RTP/SAVP;multicast", Key: "downgrade/savp-over-plain-rtsp/accepted"},
		probe{Name: "avp-mcast-over-rtsps", TLS: true, Transport: "RTP/AVP;multicast", Key: "downgrade/plain-udp-over-rtsps/accepted"},
		// a list of transports: the server picks the first admissible one - none is
		probe{Name: "savp-list-over-plain-rtsp", KeyMgmt: true, Transport: "RTP/SAVP;unicast;client_port=40000-40001,RTP/SAVP/TCP;unicast;interleaved=0-1", Key: "downgrade/savp-over-plain-rtsp/accepted"},
	)
	return out
}

// redirect: a real Client asks a scripted rtsps server for a description; the server answers
// with a redirect to an rtsp:// URL (a plain listener that counts what reaches it).
func runRedirect(code base.StatusCode, back bool) {
	evals.Add(1)
	var plainConns, plainReqs atomic.Int32
	pl, err := net.Listen("tcp", "127.0.0.1:0")
	if err != nil {
		run.Fatal("redirect: %v", err)
	}
	defer pl.Close()
	sdp := "v=0\r\no=- 0 0 IN IP4 127.0.0.1\r\ns=x\r\nc=IN IP4 0.0.0.0\r\nt=0 0\r\nm=video 0 RTP/AVP 96\r\na=rtpmap:96 private/90000\r\na=control:trackID=0\r\n"
	serve := func(ln net.Listener, secure bool) {
		for {
			nc, err := ln.Accept()
			if err != nil {
				return
			}
			if !secure {
				plainConns.Add(1)
			}
			go func() {
				defer nc.Close()
				c := conn.NewConn(bufio.NewReader(nc), nc)
				for {
					_ = nc.SetReadDeadline(time.Now().Add(10 * time.Second))
					req, err := c.ReadRequest()
					if err != nil {
						return
					}
					res := &base.Response{StatusCode: base.StatusOK, Header: base.Header{"CSeq": req.Header["CSeq"]}}
					if !secure {
						plainReqs.Add(1)
					}
					switch {
					case req.Method == base.Options:
						res.Header["Public"] = base.HeaderValue{"DESCRIBE, SETUP, PLAY, TEARDOWN"}
					case req.Method == base.Describe && secure:
						res.StatusCode = code
						res.Header["Location"] = base.HeaderValue{"rtsp://" + pl.Addr().String() + "/stream"}
					case req.Method == base.Describe:
						res.Header["Content-Type"] = base.HeaderValue{"application/sdp"}
						res.Header["Content-Base"] = base.HeaderValue{"rtsp://" + pl.Addr().String() + "/stream/"}
						res.Body = []byte(sdp)
					}
					if c.WriteResponse(res) != nil {
						return
					}
				}
			}()
		}
	}
	sl, err := tls.Listen("tcp", "127.0.0.1:0", &tls.Config{Certificates: []tls.Certificate{rig.ServerCert()}})
	if err != nil {
		run.Fatal("redirect: %v", err)
	}
	defer sl.Close()
	go serve(pl, false)
	go serve(sl, true)

	c := &gortsplib.Client{Scheme: "rtsps", Host: sl.Addr().String(), TLSConfig: &tls.Config{InsecureSkipVerify: true}, RequestBackChannels: back, ReadTimeout: 3 * time.Second}
	if err := c.Start(); err != nil {
		run.Fatal("redirect: client start: %v", err)
	}
	defer c.Close()
	u, _ := base.ParseURL("rtsps://" + sl.Addr().String() + "/stream")
	type result struct {
		d   *description.Session
		err error
	}
	ch := make(chan result, 1)
	go func() {
		d, _, err := c.Describe(u)
		ch <- result{d, err}
	}()
	var res result
	select {
	case res = <-ch:
	case <-time.After(20 * time.Second):
		run.Inconclusive("Describe against the redirecting server did not return in 20 s")
		return
	}
	name := fmt.Sprintf("redirect-%d", int(code))
	run.Distinct("probe|" + name + fmt.Sprint(back))
	run.Count(fmt.Sprintf("downgrade:%s:describe-error=%v", name, res.err != nil), 1)
	run.Count("downgrade:"+name+":requests-that-reached-the-plain-target", int64(plainReqs.Load()))
	if res.err == nil || plainConns.Load() > 0 {
		run.Violation("downgrade/redirect-rtsps-to-rtsp/followed",
			fmt.Sprintf("a client talking rtsps was redirected (%d) to an rtsp:// URL: Describe returned err=%v, the plain target saw %d connections / %d requests",
				int(code), res.err, plainConns.Load(), plainReqs.Load()), map[string]any{"redirect": int(code), "back_channels": back})
	}
}
