// C17: secure sessions - media encrypted and authenticated end to end, no downgrade.
//
// Real servers and clients talk RTSPS + SRTP while taps on every socket (UDP: wrapper of the
// PacketConn; TCP: inside TLS, parsing interleaved frames; multicast: passive group member)
// (a) search every outbound packet for byte patterns the application wrote (cleartext monitor),
// (b) rig.Check decides that what one side encrypted is delivered intact on the other side,
// across sequence-number wraps (roll-over counter advances), for late joiners (non-zero ROC in
// MIKEY), 1..3 formats per media, play / record / back channel, (c) a receiver-side tap alters
// single bits / bytes of protected packets, which must then not reach the application, and
// (d) raw peers and a scripted redirecting server probe the downgrade rules.
package main

import (
	"fmt"
	"os"
	"strings"
	"sync"
	"sync/atomic"

	"github.com/bluenviron/gortsplib/v5/pkg/base"

	"verif/lib/rig"
	"verif/lib/vlib"
)

var (
	run    *vlib.Run
	evals  atomic.Int64
	canary *rig.Canary
)

func scenarios() []scenario {
	var out []scenario
	r := run.Rand("scenarios", 0)
	add := func(sc scenario) {
		sc.Seed = r.Int63()
		if !sc.Tamper && !sc.Plain {
			sc.Short = run.Pick(4000, 70000)
		}
		t := ""
		if sc.Tamper {
			t = "tamper-"
			if sc.Cold {
				t = "tamper-cold-"
			}
		}
		if sc.Plain {
			t = "plain-"
		}
		if sc.PlainPeers > 0 {
			t = "mixed-"
		}
		sc.Name = fmt.Sprintf("%s%s-%s-%d", t, sc.Kind, sc.Transport, len(out))
		out = append(out, sc)
	}
	long := run.Pick(70000, 200000) // packets of flow 0: 2 resp. 4 wraps (the other flows: 1 resp. 2 wraps)
	formats := [][]int{{2, 1}, {3}, {1, 1}, {1}, {2}, {1, 2}}
	pick := func() []int { return formats[r.Intn(len(formats))] }
	joiners := func() []int { // after the 1st, 2nd (and later) wrap of flow 0
		if run.Quick() {
			return []int{3000 + r.Intn(20000), 66500 + r.Intn(2000)}
		}
		return []int{3000 + r.Intn(20000), 66500 + r.Intn(2000), 133000 + r.Intn(30000)}
	}
	// positive control of the cleartext monitor
	add(scenario{Kind: "play", Transport: "tcp", Plain: true, Formats: []int{1}, Packets: 1500})
	add(scenario{Kind: "play", Transport: "udp", Plain: true, Formats: []int{1}, Packets: 1500})
	// (a) + (b); quick: two long conversations (second wrap of flow 0, late joiners with ROC 1 and 2), the others stop after the first wrap
	short := run.Pick(6000, long)
	add(scenario{Kind: "play", Transport: "udp", Formats: []int{2, 1}, Packets: long, Joiners: joiners()})
	add(scenario{Kind: "play", Transport: "tcp", Formats: []int{3}, Packets: long, Joiners: joiners()})
	add(scenario{Kind: "record", Transport: "tcp", Formats: pick(), Packets: short})
	add(scenario{Kind: "backchannel", Transport: "udp", Formats: []int{1}, Packets: short})
	add(scenario{Kind: "record", Transport: "udp", Formats: pick(), Packets: short})
	add(scenario{Kind: "backchannel", Transport: "tcp", Formats: []int{1}, Packets: short})
	if rig.MulticastIP() != "" {
		add(scenario{Kind: "play", Transport: "mcast", Formats: []int{1, 1}, Packets: short, Joiners: []int{3000}})
	} else {
		run.Count("multicast-skipped(no-interface)", 1)
	}
	if !run.Quick() {
		for _, tr := range []string{"udp", "tcp"} {
			for i := 0; i < 1; i++ {
				add(scenario{Kind: "play", Transport: tr, Formats: pick(), Packets: long, Joiners: joiners()})
				add(scenario{Kind: "record", Transport: tr, Formats: pick(), Packets: long})
			}
		}
	}
	// (c) tamper: short flows (the sequence number identifies the packet: no second wrap)
	tp := run.Pick(5000, 50000)
	for _, tr := range []string{"udp", "tcp"} {
		add(scenario{Kind: "play", Transport: tr, Tamper: true, Formats: []int{2}, Packets: tp})
		add(scenario{Kind: "record", Transport: tr, Tamper: true, Formats: []int{1, 1}, Packets: tp})
		// from the very first packet (the first packet of every format arrives with an altered SSRC)
		add(scenario{Kind: "play", Transport: tr, Tamper: true, Cold: true, Formats: []int{2}, Packets: 1500})
		add(scenario{Kind: "record", Transport: tr, Tamper: true, Cold: true, Formats: []int{1, 1}, Packets: 1500})
		if !run.Quick() {
			add(scenario{Kind: "backchannel", Transport: tr, Tamper: true, Formats: []int{1}, Packets: tp})
			add(scenario{Kind: "play", Transport: tr, Tamper: true, Formats: []int{3}, Packets: tp})
		}
	}
	// (e) mixed profiles on one RTSPS stream: secure readers (udp / tcp / multicast) next to raw
	// readers that negotiated RTP/AVP/TCP inside TLS; RTP through ServerStream.WritePacketRTP, RTCP
	// APP packets through ServerStream.WritePacketRTCP of every media. Appended last: the seeds and
	// names of the scenarios above do not depend on them.
	// every flow wraps once (it starts 60..400 packets before the wrap); the long conversations
	// above cover further wraps
	mp := run.Pick(2500, 20000)
	mj := func() []int { return []int{mp/2 + r.Intn(mp/4)} } // a secure late joiner after the wrap, next to the plain peers
	add(scenario{Kind: "play", Transport: "udp", Extra: []string{"tcp"}, PlainPeers: 2, Formats: []int{2, 1}, Packets: mp, Joiners: mj()})
	add(scenario{Kind: "play", Transport: "tcp", Extra: []string{"udp"}, PlainPeers: 1, Formats: []int{1, 1}, Packets: mp, Joiners: mj()})
	if rig.MulticastIP() != "" {
		add(scenario{Kind: "play", Transport: "mcast", Extra: []string{"udp", "tcp"}, PlainPeers: 1, Formats: []int{1, 1}, Packets: mp})
	}
	if !run.Quick() {
		add(scenario{Kind: "play", Transport: "udp", PlainPeers: 3, Formats: pick(), Packets: mp, Joiners: mj()})
		add(scenario{Kind: "play", Transport: "tcp", PlainPeers: 3, Formats: pick(), Packets: mp, Joiners: mj()})
		add(scenario{Kind: "play", Transport: "udp", Extra: []string{"tcp", "tcp", "udp"}, PlainPeers: 4, Formats: []int{3}, Packets: mp})
	}
	return out
}

func main() {
	run = vlib.Start("C17", "exploration")
	canary = rig.StartCanary()
	var scs []scenario
	var prs []probe
	redirects := true
	if run.Replay != "" {
		var w struct {
			Scenario *scenario `json:"scenario"`
			Probe    *probe    `json:"probe"`
			Redirect int       `json:"redirect"`
		}
		if err := run.LoadReplay(&w); err != nil {
			run.Fatal("replay: %v", err)
		}
		redirects = w.Redirect != 0
		if w.Scenario != nil {
			scs = []scenario{*w.Scenario}
		}
		if w.Probe != nil {
			prs = []probe{*w.Probe}
		}
	} else {
		scs = scenarios()
		prs = probes()
	}

	if only := os.Getenv("VERIF_C17_ONLY"); only != "" { // development aid: run matching scenarios only
		var keep []scenario
		for _, sc := range scs {
			if strings.Contains(sc.Name, only) {
				keep = append(keep, sc)
			}
		}
		scs, prs, redirects = keep, nil, false
	}

	if skip := os.Getenv("VERIF_C17_SKIP"); skip != "" { // development aid (A/B timing): leave matching scenarios out
		var keep []scenario
		for _, sc := range scs {
			if !strings.Contains(sc.Name, skip) {
				keep = append(keep, sc)
			}
		}
		scs = keep
	}

	// (d) downgrade probes first (cheap)
	if len(prs) > 0 {
		km := captureKeyMgmt()
		for _, p := range prs {
			runProbe(p, km)
		}
	}
	if redirects {
		for _, code := range []base.StatusCode{base.StatusMovedPermanently, base.StatusFound, base.StatusSeeOther, base.StatusUseProxy} {
			runRedirect(code, false)
		}
		runRedirect(base.StatusFound, true)
		runFallback(false)
		runFallback(true)
		runKeyPrecedence()
	}

	// execution order: the mixed-profile scenarios (defined last, so that the names and seeds of
	// the others stay what they were) start right after the two long conversations that decide
	// the wall time, not after everything else
	if len(scs) > 4 {
		var ord, mixed []scenario
		for _, sc := range scs {
			if sc.PlainPeers > 0 {
				mixed = append(mixed, sc)
			} else {
				ord = append(ord, sc)
			}
		}
		if len(ord) >= 4 {
			scs = append(append(append([]scenario(nil), ord[:4]...), mixed...), ord[4:]...)
		}
	}

	// scenarios, a few at a time (each one is concurrent inside)
	sem := make(chan struct{}, 6)
	var wg sync.WaitGroup
	for _, sc := range scs {
		wg.Add(1)
		sem <- struct{}{}
		go func(sc scenario) {
			defer wg.Done()
			defer func() { <-sem }()
			runScenario(sc)
		}(sc)
	}
	wg.Wait()
	run.Extra("worst_scheduler_lateness_ms", canary.Worst().Milliseconds())
	run.ReportRaces()
	run.Assume("a reader's SETUP (roll-over counter snapshot in MIKEY) and the first packet it receives lie on the same side of a sequence-number wrap: writers hold back the ~96 packets before a wrap while a reader joins (RFC 3711 / MIKEY signal the ROC once; a receiver cannot synchronise otherwise)")
	run.Assume("UDP: in-order subsequence; every receiver must still receive sentinel packets after the load (a receiver whose SRTP context lost synchronisation would not); tamper scenarios on UDP require the packets directly after an altered one to arrive (<= 10% missing) and at least half of the untampered packets overall; on TCP every untampered packet")
	run.Assume("cleartext needles: 32-byte PRNG marker inside every RTP payload >= 57 bytes, the 8-byte 'VRF1'+run prefix of every payload, 32-byte marker of RTCP APP packets; a plain (non-TLS) control session proves the monitor finds them")
	run.Assume("mixed scenarios: a reader that negotiated RTP/AVP/TCP inside the TLS connection of an RTSPS server is served in clear by design (outside the statement); the frames the server writes to such a peer are exempt from the cleartext monitor (and must carry the written packets in clear, in order), every other datagram / frame of the same stream is not")
	run.Finish(evals.Load(), "scenarios = {play, record, back channel} x {udp, tcp, multicast(play)} under RTSPS+SRTP with 1..3 formats per media, flows of consecutive sequence numbers starting a few hundred before 65535 and long enough to wrap 2 (quick) / 4 (thorough) times, late joiners after 1..n wraps, RTCP APP packets; mixed-profile scenarios = one RTSPS stream played at the same time by secure library readers over {udp + tcp, tcp + udp, multicast + udp + tcp} and by 1..4 raw peers that SETUP every media with RTP/AVP/TCP;interleaved inside TLS (one from the start, the others joining under load), RTP and RTCP APP packets of every media, all monitors of the secure readers unchanged; tamper scenarios alter 1/6 of the inbound SRTP packets and 1/3 of the SRTCP APP packets at a PRNG position of each class (header seq / header other / payload / auth tag; SRTCP header / payload / index / tag), one bit or one byte; downgrade probes = raw SETUPs (SAVP on plain server with and without KeyMgmt, AVP UDP / multicast on TLS server, play and record) and a client redirected from rtsps to rtsp (301/302/303/305); distinct_nontrivial = distinct (kind, transport, formats, joiners) scenarios + distinct probes")
}
