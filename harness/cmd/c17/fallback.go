package main

import (
	"fmt"
	"net"
	"strings"
	"sync"
	"time"

	"github.com/bluenviron/gortsplib/v5"
	"github.com/bluenviron/gortsplib/v5/pkg/headers"
	"github.com/pion/rtp"

	"verif/lib/rig"
)

// (d') downgrade by fault: a secure client (rtsps, transport chosen automatically) negotiates
// SRTP over UDP, but no datagram ever reaches it (the client's sockets are replaced by ones that
// discard everything). After its initial UDP timeout it sets the session up again over TCP: the
// second negotiation must still use the secure profile, on both sides.

type blackhole struct{ *net.UDPConn }

func (b blackhole) ReadFrom(p []byte) (int, net.Addr, error) {
	for {
		if _, _, err := b.UDPConn.ReadFrom(p); err != nil {
			return 0, nil, err
		}
	}
}

func runFallback(back bool) {
	evals.Add(1)
	var mu sync.Mutex
	var setups []string
	ts, err := rig.StartServer(rig.ServerOpts{UDP: true, TLS: true, HandlerSet: "full", NoLog: true,
		OnEvent: func(e rig.Event) {
			if e.Kind == "setup" {
				mu.Lock()
				setups = append(setups, e.Info)
				mu.Unlock()
			}
		}})
	if err != nil {
		run.Fatal("fallback: server: %v", err)
	}
	defer ts.Close()
	pc, err := rig.NewPlayClient(ts, rig.ClientOpts{Name: "fallback", Proto: "auto", ReadTimeout: 10 * time.Second, WriteTimeout: 10 * time.Second,
		Mutate: func(c *gortsplib.Client) {
			c.InitialUDPReadTimeout = 400 * time.Millisecond
			c.RequestBackChannels = back
			c.ListenPacket = func(network, address string) (net.PacketConn, error) {
				pc, err := net.ListenPacket(network, address)
				if err != nil {
					return nil, err
				}
				uc, ok := pc.(*net.UDPConn)
				if !ok {
					return pc, nil
				}
				return blackhole{uc}, nil
			}
		}})
	if err != nil {
		run.Fatal("fallback: client: %v", err)
	}
	if err := pc.Start(); err != nil {
		run.Inconclusive("fallback: secure session over UDP could not be started: " + err.Error())
		return
	}
	defer pc.Close()
	// keep the stream busy so that the TCP session, once there, receives something
	stop := make(chan struct{})
	var wg sync.WaitGroup
	wg.Add(1)
	go func() {
		defer wg.Done()
		m := ts.Stream.Desc.Medias[0]
		for i := 0; ; i++ {
			select {
			case <-stop:
				return
			case <-time.After(5 * time.Millisecond):
			}
			_ = ts.Stream.WritePacketRTP(m, &rtp.Packet{Header: rtp.Header{Version: 2, PayloadType: m.Formats[0].PayloadType(), SequenceNumber: uint16(i), Timestamp: uint32(i) * 3000, SSRC: 1},
				Payload: []byte(fmt.Sprintf("fallback-marker-%06d", i))})
		}
	}()
	deadline := time.Now().Add(15 * time.Second)
	for !pc.Switched.Load() && time.Now().Before(deadline) && pc.Died() == nil {
		time.Sleep(20 * time.Millisecond)
	}
	// let the new session deliver a little
	for k := 0; k < 200 && pc.Rd.Delivered() == 0 && pc.Died() == nil; k++ {
		time.Sleep(10 * time.Millisecond)
	}
	close(stop)
	wg.Wait()
	run.Distinct(fmt.Sprintf("fallback|%v", back))
	if !pc.Switched.Load() {
		run.Inconclusive("fallback: the client never switched transport")
		return
	}
	run.Count("downgrade:udp-timeout-fallback:switched", 1)
	mu.Lock()
	seen := append([]string(nil), setups...)
	mu.Unlock()
	wit := map[string]any{"server_setups": seen, "back_channels": back}
	for i, s := range seen {
		if !strings.HasSuffix(s, "/"+fmt.Sprint(headers.TransportProfileSAVP)) { // rig logs "<protocol>/<profile>"
			run.Violation("downgrade/udp-timeout-fallback/insecure-setup",
				fmt.Sprintf("after its UDP timeout a secure (rtsps) client set the session up again without the secure profile: SETUP %d of %d reached the server as %s", i+1, len(seen), s), wit)
			return
		}
	}
	if t := pc.C.Transport(); t != nil && t.Session != nil && t.Session.Profile != headers.TransportProfileSAVP {
		run.Violation("downgrade/udp-timeout-fallback/insecure-client-transport",
			fmt.Sprintf("after its UDP timeout the client reports transport profile %v on an rtsps session", t.Session.Profile), wit)
		return
	}
	run.Count("downgrade:udp-timeout-fallback:secure-setups-after-switch", int64(len(seen)))
}
