package main

import (
	"bytes"
	"encoding/binary"
	"fmt"
	"strings"

	"verif/lib/rig"
)

func shortWhere(w string) string { // "server/udp" -> "udp"
	if i := strings.IndexByte(w, '/'); i >= 0 {
		return w[i+1:]
	}
	return w
}

var needleVerdict = map[string]string{
	"rtp-marker":         "rtp-marker-visible",
	"rtp-payload-prefix": "rtp-payload-visible",
	"rtcp-app-marker":    "rtcp-marker-visible",
}

func (sr *scenRun) evaluate(eps []*endpoint, reliable bool) {
	sc := sr.sc
	tag := sc.Kind + "/" + sc.Transport
	if sc.Tamper {
		tag = "tamper-" + tag
		if sc.Cold {
			tag = "tamper-from-first-packet-" + sc.Kind + "/" + sc.Transport
		}
	}
	if sc.Plain {
		tag = "control-plain-" + tag
	}
	if sc.PlainPeers > 0 {
		tag = fmt.Sprintf("mixed-profiles-%s+%s+%dxplain-tcp", tag, strings.Join(sc.Extra, "+"), sc.PlainPeers)
		// the mixed scenarios are only worth something if the plain-profile readers were really
		// served (in clear) while the secure ones were
		run.Count("mixed:frames-to-plain-profile-peers(exempt-from-cleartext-monitor)", sr.clear.exempt.Load())
		run.Count("mixed:frames-to-plain-profile-peers-with-needle", sr.clear.exemptHits.Load())
		if sr.clear.exempt.Load() == 0 {
			run.Fatal("scenario %s: the server tap saw no frame going to a plain-profile peer", sc.Name)
		}
	}
	run.Count("scenarios:"+tag, 1)
	run.Distinct(fmt.Sprintf("sc|%s|%v|%d", tag, sc.Formats, len(sc.Joiners)))

	// ---- (a) cleartext
	var scanned int64
	for w, n := range sr.clear.scanned {
		scanned += n.Load()
		if !sc.Plain {
			run.Count("cleartext:scanned:"+w, n.Load())
		}
	}
	sr.clear.mu.Lock()
	firsts := map[string]string{}
	for k, v := range sr.clear.first {
		firsts[k] = v
	}
	sr.clear.mu.Unlock()
	if sc.Plain {
		// positive control: on a plain session the needles must be found, else the monitor is blind
		run.Count("control:plain-packets-scanned", scanned)
		run.Count("control:plain-needle-hits", sr.clear.hits.Load())
		for _, n := range []string{"rtp-marker", "rtp-payload-prefix", "rtcp-app-marker"} {
			found := false
			for k := range firsts {
				if strings.HasSuffix(k, "|"+n) {
					found = true
				}
			}
			if !found {
				run.Fatal("cleartext monitor did not find needle %s on the plain control session %s", n, sc.Name)
			}
		}
	} else {
		run.Count("cleartext:needle-searches", scanned*int64(len(sr.clear.needles)))
		for k, head := range firsts {
			parts := strings.SplitN(k, "|", 2)
			sr.fail("cleartext/"+shortWhere(parts[0])+"/"+needleVerdict[parts[1]],
				fmt.Sprintf("a %s sent by the application is visible in clear in a packet leaving the %s (%s)", parts[1], parts[0], head),
				map[string]any{"where": parts[0], "needle": parts[1]})
		}
		if scanned == 0 {
			run.Fatal("scenario %s: no outbound packet passed the taps", sc.Name)
		}
	}

	// ---- (b) interoperation: delivery oracle per receiving endpoint
	tamperedRTP := map[tkey]string{}
	tamperedAPP := map[uint32]string{}
	if sr.tam != nil {
		sr.tam.mu.Lock()
		for k, v := range sr.tam.rtp {
			tamperedRTP[k] = v
		}
		for k, v := range sr.tam.rtcp {
			tamperedAPP[k] = v
		}
		for k, n := range sr.tam.nRTP {
			run.Count("tamper:"+sc.Transport+":rtp:"+k, int64(n))
		}
		for k, n := range sr.tam.nRTCP {
			run.Count("tamper:"+sc.Transport+":rtcp:"+k, int64(n))
		}
		run.Count("tamper:"+sc.Transport+":rtp:left-intact", int64(sr.tam.passRTP))
		sr.tam.mu.Unlock()
	}
	var wraps int32
	for _, s := range sr.senders {
		wraps += s.wraps.Load()
		run.Max("sequence-wraps-per-flow", int64(s.wraps.Load()))
	}
	run.Count("roc-advances-on-sender:"+sc.Kind+"/"+sc.Transport, int64(wraps))

	for _, e := range eps {
		if e.pc != nil && e.pc.Desc == nil {
			continue
		}
		if sc.Kind == "backchannel" && e.pc != nil {
			continue // the client is the sender here; the server ingest is the receiver
		}
		fs, st := rig.Check(sr.traffic, e.rd)
		if e.plain != nil {
			// plain-profile peer: the frames it read must carry the written packets, in clear
			run.Count("mixed:deliveries-to-plain-profile-peers", int64(st.Deliveries))
			run.Count("mixed:frames-read-by-plain-profile-peers", e.plain.frames.Load())
			if n := e.plain.bad.Load(); n > 0 {
				b1, _ := e.plain.bad1.Load().(string)
				sr.fail("interop/plain-tcp/play/frame-not-rtp-or-rtcp", fmt.Sprintf("endpoint %s negotiated RTP/AVP/TCP inside TLS and received %d frames that are neither RTP nor RTCP packets (first: %s)", e.name, n, b1), nil)
			}
		} else {
			run.Count("deliveries:"+tag, int64(st.Deliveries))
		}
		run.Count("must-deliver-checked", int64(st.MustDeliver))
		run.Count("endpoints-checked", 1)
		// (an endpoint whose session was ended by a watchdog of the library while the machine was
		// stalled is inconclusive as a whole - see sessionEnded - and not judged for liveness)
		if st.Deliveries == 0 && !sc.Tamper && !e.undecided.Load() {
			sr.fail("interop/"+e.proto+"/"+sc.Kind+"/nothing-delivered", fmt.Sprintf("endpoint %s received no packet at all", e.name), nil)
		}
		for _, f := range fs {
			if sc.Tamper && (strings.HasPrefix(f.Key, "missing-packets") || f.Key == "delivered-packet-not-written") {
				continue // decided by the tamper oracle below
			}
			key := "interop/" + f.Key
			if e.plain != nil {
				key = "interop/plain-tcp/" + f.Key // a reader served in clear: not the secure path
			}
			sr.fail(key, fmt.Sprintf("endpoint %s (%s %s): %s", e.name, sc.Kind, e.proto, f.What), f.Detail)
		}
		dec := e.decErr.Load()
		d1, _ := e.decFirst.Load().(string)
		if e.serverSide() {
			dec = sr.srvDec.Load()
			d1, _ = sr.srvDec1.Load().(string)
		}
		run.Count("decode-errors:"+tag, dec)

		// deliveries after sequence-number wraps (the receiver's roll-over counter followed)
		sr.emuDeliveries(e)

		// RTCP APP packets: what arrives must be what was sent
		e.appMu.Lock()
		apps := map[uint32][]byte{}
		for k, v := range e.apps {
			apps[k] = v
		}
		dups := e.appDup
		e.appMu.Unlock()
		run.Count("rtcp-app-delivered:"+tag, int64(len(apps)))
		if dups > 0 {
			sr.fail("interop/rtcp-app-duplicated", fmt.Sprintf("endpoint %s: %d RTCP APP packets delivered twice", e.name, dups), nil)
		}
		sr.appMu.Lock()
		for id, data := range apps {
			sent, ok := sr.appSent[id]
			cls, tampered := tamperedAPP[id]
			switch {
			case tampered:
				sr.fail("tamper/"+sc.Transport+"/"+cls+"/delivered", fmt.Sprintf("endpoint %s: an SRTCP packet altered in transit (%s) was delivered to OnPacketRTCP", e.name, cls), map[string]any{"app_id": id})
			case !ok || !bytes.Equal(sent, data):
				key := "interop/rtcp-app-altered"
				if e.plain != nil {
					key = "interop/plain-tcp/rtcp-app-altered"
				}
				if sc.Tamper {
					key = "tamper/" + sc.Transport + "/rtcp-altered-packet-delivered"
					if len(data) >= 36 {
						if c2, ok2 := tamperedAPP[binary.BigEndian.Uint32(data[32:])]; ok2 {
							key = "tamper/" + sc.Transport + "/" + c2 + "/delivered"
						}
					}
				}
				sr.fail(key, fmt.Sprintf("endpoint %s: an RTCP APP packet was delivered with content that was never sent", e.name), map[string]any{"app_id": id})
			}
		}
		// only the APP packets written after this endpoint had joined count (a late joiner whose
		// start outlasts the rest of the load sees sentinel RTP packets only)
		nSent := int(sr.appCtr.Load()) - int(e.appAt)
		sr.appMu.Unlock()
		if !sc.Tamper && nSent > 20 && len(apps) == 0 && !e.undecided.Load() {
			sr.fail("interop/"+e.proto+"/"+sc.Kind+"/rtcp-app-never-delivered", fmt.Sprintf("endpoint %s: none of %d RTCP APP packets arrived", e.name, nSent), nil)
		}

		if !sc.Tamper {
			if dec > 0 && !sc.Plain && e.plain == nil {
				sr.fail("interop/"+e.proto+"/"+sc.Kind+"/decode-error-without-tampering",
					fmt.Sprintf("endpoint %s (joined at packet %d of flow 0): %d decode errors on an untampered secure session (first: %s)", e.name, e.rocAt, dec, d1),
					map[string]any{"endpoint": e.name, "first_error": d1})
			}
			continue
		}

		// ---- (c) tamper oracle
		sr.tamperOracle(e, tamperedRTP, tamperedAPP, apps, dec, reliable)
	}
	// what the server itself could not decode (receiver reports of readers, publisher traffic)
	run.Count("server-decode-errors:"+tag, sr.srvDec.Load())
	// (multicast is excluded: reader and server share one IP address here, so the server's multicast
	// RTCP socket also receives its own looped-back reports and attributes them to the reader)
	hasMcast := false
	for _, e := range eps {
		hasMcast = hasMcast || e.proto == "mcast"
	}
	if n := sr.srvDec.Load(); n > 0 && !sc.Tamper && !sc.Plain && sc.Kind == "play" && !hasMcast {
		d1, _ := sr.srvDec1.Load().(string)
		sr.fail("interop/"+sc.Transport+"/play/server-decode-error-without-tampering",
			fmt.Sprintf("the server signalled %d decode errors for packets sent by its readers on an untampered secure session (first: %s)", n, d1), map[string]any{"kinds": sr.srvEP.decodeErrorKinds()})
	}
	if run.WantSample() {
		run.Sample(map[string]any{"scenario": sc, "outbound_packets_scanned": scanned, "sequence_wraps": wraps, "endpoints": len(eps)})
	}
}

// emuDeliveries counts the deliveries per roll-over counter value of the sender.
func (sr *scenRun) emuDeliveries(e *endpoint) {
	for _, s := range sr.senders {
		if v, ok := e.rd.LastSeen(s.f.Media, s.f.PT); ok {
			run.Count(fmt.Sprintf("flows-delivered-up-to-roc=%d", s.roc(int(v)+1)), 1)
		}
	}
}

func (sr *scenRun) tamperOracle(e *endpoint, tRTP map[tkey]string, tAPP map[uint32]string, apps map[uint32][]byte, dec int64, reliable bool) {
	sc := sr.sc
	byPT := map[uint8]*sender{}
	for _, s := range sr.senders {
		byPT[s.f.PT] = s
	}
	delivered := map[uint8]map[int]bool{}
	first, last := map[uint8]int{}, map[uint8]int{}
	e.logMu.Lock()
	log := append([]tdel(nil), e.log...)
	e.logMu.Unlock()
	for _, d := range log {
		s := byPT[d.PT]
		if s == nil {
			sr.fail("tamper/"+sc.Transport+"/altered-packet-delivered", "a packet with an unknown payload type was delivered", nil)
			continue
		}
		ctr := int(uint16(d.Seq - s.start))
		cls, tampered := tRTP[tkey{d.PT, d.Seq}]
		switch {
		case !d.Parsed:
			// content altered; find the class through the sequence number when it still matches
			if !tampered {
				cls = "unattributed"
			}
			sr.fail("tamper/"+sc.Transport+"/"+cls+"/delivered", fmt.Sprintf("endpoint %s: a packet whose payload is not a written one (altered in transit, %s) reached OnPacketRTP (seq %d)", e.name, cls, d.Seq),
				map[string]any{"seq": d.Seq, "pt": d.PT})
			continue
		case tampered && int(d.Ctr) == ctr:
			sr.fail("tamper/"+sc.Transport+"/"+cls+"/delivered", fmt.Sprintf("endpoint %s: packet %d of format %d was altered in transit (%s) and still reached OnPacketRTP", e.name, ctr, d.PT, cls),
				map[string]any{"seq": d.Seq, "pt": d.PT, "ctr": ctr})
		}
		c := int(d.Ctr)
		if delivered[d.PT] == nil {
			delivered[d.PT] = map[int]bool{}
			first[d.PT] = c
		}
		delivered[d.PT][c] = true
		if c > last[d.PT] {
			last[d.PT] = c
		}
	}
	// untampered neighbours: everything between the first and the last delivered packet that was
	// not altered must have arrived (TCP: all; UDP: all but a small loss allowance)
	untampered, lost, afterTamper, afterTamperLost := 0, 0, 0, 0
	for pt, s := range byPT {
		if delivered[pt] == nil {
			continue
		}
		for c := first[pt]; c <= last[pt]; c++ {
			if _, t := tRTP[tkey{pt, s.seqOf(c)}]; t {
				continue
			}
			untampered++
			_, prevT := tRTP[tkey{pt, s.seqOf(c - 1)}]
			if prevT {
				afterTamper++
			}
			if !delivered[pt][c] {
				lost++
				if prevT {
					afterTamperLost++
				}
			}
		}
	}
	run.Count("tamper:"+sc.Transport+":untampered-neighbours-checked", int64(untampered))
	run.Count("tamper:"+sc.Transport+":untampered-neighbours-lost", int64(lost))
	run.Count("tamper:"+sc.Transport+":packets-right-after-a-tampered-one", int64(afterTamper))
	// TCP: nothing may be missing. UDP may lose packets anywhere (legal); what an altered packet
	// must not do is take its successors with it: the packets directly after an altered one must
	// arrive (at most 10 % of them missing), and the receiver must not lose most of the stream.
	bad := int64(lost) > e.qfull.Load() // TCP: only signalled losses (write queue full)
	run.Count("tamper:"+sc.Transport+":signalled-losses", e.qfull.Load())
	if !reliable {
		bad = afterTamperLost > 3+afterTamper/10 || lost > untampered/2
		run.Count("tamper:udp:packets-right-after-a-tampered-one-lost", int64(afterTamperLost))
	}
	if bad {
		sr.fail("tamper/"+sc.Transport+"/"+sr.coldTag()+"untampered-neighbour-lost",
			fmt.Sprintf("endpoint %s: %d of %d untampered packets between the first and last delivered one are missing (%d of the %d packets directly after a tampered one)", e.name, lost, untampered, afterTamperLost, afterTamper), nil)
	}
	// every altered packet must have raised a decode error
	nT := int64(len(tRTP) + len(tAPP))
	run.Count("tamper:"+sc.Transport+":altered-total", nT)
	run.Count("tamper:"+sc.Transport+":decode-errors", dec)
	if nT == 0 {
		run.Fatal("scenario %s: the tamper tap altered nothing", sc.Name)
	}
	if dec < nT {
		sr.fail("tamper/"+sc.Transport+"/altered-packet-without-decode-error", fmt.Sprintf("endpoint %s: %d packets were altered in transit but only %d decode errors were signalled", e.name, nT, dec), nil)
	}
}
