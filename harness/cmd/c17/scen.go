package main

import (
	"bytes"
	"encoding/binary"
	"errors"
	"fmt"
	"hash/crc32"
	"math/rand"
	"net"
	"strings"
	"sync"
	"sync/atomic"
	"time"

	"github.com/bluenviron/gortsplib/v5"
	"github.com/bluenviron/gortsplib/v5/pkg/base"
	"github.com/bluenviron/gortsplib/v5/pkg/description"
	"github.com/bluenviron/gortsplib/v5/pkg/format"
	"github.com/bluenviron/gortsplib/v5/pkg/headers"
	"github.com/pion/rtcp"
	"github.com/pion/rtp"

	"verif/lib/rig"
	"verif/lib/taps"
)

// scenario is one secure (or control) conversation.
type scenario struct {
	Name      string `json:"name"`
	Kind      string `json:"kind"`      // play | record | backchannel
	Transport string `json:"transport"` // udp | tcp | mcast
	Plain     bool   `json:"plain"`     // positive control of the cleartext monitor: no TLS, no SRTP
	Formats   []int  `json:"formats_per_media"`
	Packets   int    `json:"packets_per_flow"`
	Short     int    `json:"packets_other_flows"` // > 0: only flow 0 is long, the others stop here (every flow still wraps once)
	Joiners   []int  `json:"joiners_at"`          // play: late readers join when flow 0 has written this many packets
	Tamper    bool   `json:"tamper"`              // receiver-side tap alters a fraction of the protected packets
	Cold      bool   `json:"cold"`                // tamper from the very first packet: the first packet of every format gets its SSRC altered
	Seed      int64  `json:"seed"`
	// mixed profiles on one RTSPS stream (play): next to the secure readers of Transport, secure
	// library readers over the Extra transports and PlainPeers raw readers that negotiate
	// RTP/AVP/TCP inside the TLS connection (see mix.go) play the same stream at the same time
	Extra      []string `json:"extra_secure_readers,omitempty"`
	PlainPeers int      `json:"plain_profile_peers,omitempty"`
}

// ---- cleartext monitor --------------------------------------------------------------------

// clearMon searches every outbound datagram / interleaved frame payload for the needles:
// the 32-byte marker embedded in RTP payloads, the 8-byte "VRF1"+run prefix every payload starts
// with, and the 32-byte marker of RTCP APP packets.
type clearMon struct {
	needles [][]byte
	names   []string
	scanned map[string]*atomic.Int64
	hits    atomic.Int64
	mu      sync.Mutex
	first   map[string]string // needle/where -> hex of the packet head
	// frames the server wrote to plain-profile peers (not subject to the monitor) and how many
	// of them contain a needle (evidence that those readers really are served in clear)
	exempt, exemptHits atomic.Int64
}

// exemptFrame accounts a frame sent to a reader that negotiated the plain profile.
func (m *clearMon) exemptFrame(b []byte) {
	m.exempt.Add(1)
	for _, n := range m.needles {
		if bytes.Contains(b, n) {
			m.exemptHits.Add(1)
			return
		}
	}
}

func newClearMon() *clearMon {
	m := &clearMon{scanned: map[string]*atomic.Int64{}, first: map[string]string{}}
	for _, w := range []string{"server/udp", "server/tcp", "client/udp", "client/tcp", "server/mcast"} {
		m.scanned[w] = &atomic.Int64{}
	}
	return m
}

func (m *clearMon) add(name string, needle []byte) {
	m.names = append(m.names, name)
	m.needles = append(m.needles, needle)
}

func (m *clearMon) scan(where string, b []byte) {
	m.scanned[where].Add(1)
	for i, n := range m.needles {
		if bytes.Contains(b, n) {
			m.hits.Add(1)
			k := where + "|" + m.names[i]
			m.mu.Lock()
			if _, ok := m.first[k]; !ok {
				h := b
				if len(h) > 48 {
					h = h[:48]
				}
				m.first[k] = fmt.Sprintf("%d bytes: %x...", len(b), h)
			}
			m.mu.Unlock()
		}
	}
}

// ---- tamper -------------------------------------------------------------------------------

var rtpClasses = []string{"rtp-header-seq", "rtp-header-other", "payload", "auth-tag"}
var rtcpClasses = []string{"rtcp-header", "rtcp-payload", "srtcp-index", "auth-tag"}

type tkey struct {
	pt  uint8
	seq uint16
}

// tamperer alters inbound protected packets on the receiver side before the library sees them.
type tamperer struct {
	mu      sync.Mutex
	r       *rand.Rand
	armed   bool
	rtp     map[tkey]string   // (payload type, sequence number before the change) -> class/mode
	rtcp    map[uint32]string // APP id -> class/mode
	nRTP    map[string]int
	nRTCP   map[string]int
	passRTP int
	cold    bool           // alter the SSRC of the first packet of every payload type
	first   map[uint8]bool // payload types whose first packet was seen
}

func newTamperer(seed int64) *tamperer {
	return &tamperer{r: rand.New(rand.NewSource(seed)), rtp: map[tkey]string{}, rtcp: map[uint32]string{}, nRTP: map[string]int{}, nRTCP: map[string]int{}, first: map[uint8]bool{}}
}

func (t *tamperer) arm(on bool) {
	t.mu.Lock()
	t.armed = on
	t.mu.Unlock()
}

// flip changes one bit or one whole byte of b[lo:hi].
func (t *tamperer) flip(b []byte, lo, hi int) string {
	i := lo + t.r.Intn(hi-lo)
	if t.r.Intn(2) == 0 {
		b[i] ^= 1 << uint(t.r.Intn(8))
		return "bitflip"
	}
	b[i] ^= byte(1 + t.r.Intn(255))
	return "byteflip"
}

// packet is called with an inbound SRTP (isRTCP false) or SRTCP packet; it may alter it in place.
func (t *tamperer) packet(isRTCP bool, b []byte) {
	t.mu.Lock()
	defer t.mu.Unlock()
	if !t.armed {
		return
	}
	if !isRTCP {
		if len(b) < 12+1+10 || b[0]>>6 != 2 {
			return
		}
		hl := 12 + 4*int(b[0]&0x0F)
		if b[0]&0x10 != 0 && len(b) >= hl+4 {
			hl += 4 + 4*int(binary.BigEndian.Uint16(b[hl+2:]))
		}
		if len(b) < hl+1+10 {
			return
		}
		k := tkey{b[1] & 0x7F, binary.BigEndian.Uint16(b[2:])}
		if t.cold && !t.first[k.pt] {
			t.first[k.pt] = true
			mode := t.flip(b, 8, 12)
			t.rtp[k] = "rtp-header-ssrc-of-first-packet-" + mode
			t.nRTP["rtp-header-ssrc-of-first-packet-"+mode]++
			return
		}
		if t.r.Intn(6) != 0 {
			t.passRTP++
			return
		}
		cls := rtpClasses[t.r.Intn(len(rtpClasses))]
		var mode string
		switch cls {
		case "rtp-header-seq":
			mode = t.flip(b, 2, 4)
		case "rtp-header-other":
			if t.r.Intn(2) == 0 {
				mode = t.flip(b, 0, 2)
			} else {
				mode = t.flip(b, 4, 12)
			}
		case "payload":
			mode = t.flip(b, hl, len(b)-10)
		case "auth-tag":
			mode = t.flip(b, len(b)-10, len(b))
		}
		t.rtp[k] = cls + "-" + mode
		t.nRTP[cls+"-"+mode]++
		return
	}
	// SRTCP: header(8) | encrypted | E+index(4) | tag(10); only the application's APP packets
	// (PT 204, id in the SSRC field) are altered, automatic reports are left alone
	if len(b) < 8+4+4+10 || b[1] != 204 {
		return
	}
	id := binary.BigEndian.Uint32(b[4:])
	if id>>24 != appIDTag || t.r.Intn(3) != 0 {
		return
	}
	cls := rtcpClasses[t.r.Intn(len(rtcpClasses))]
	var mode string
	switch cls {
	case "rtcp-header":
		mode = t.flip(b, 0, 8)
	case "rtcp-payload":
		mode = t.flip(b, 8, len(b)-14)
	case "srtcp-index":
		mode = t.flip(b, len(b)-14, len(b)-10)
	case "auth-tag":
		mode = t.flip(b, len(b)-10, len(b))
	}
	t.rtcp[id] = cls + "-" + mode
	t.nRTCP[cls+"-"+mode]++
}

// ---- senders ------------------------------------------------------------------------------

const appIDTag = 0xC7

// sender writes the marked packets of one flow with consecutive sequence numbers.
type sender struct {
	f      *rig.Flow
	start  uint16       // sequence number of packet 0
	ctr    int          // written by the flow's writer goroutine only
	ctrA   atomic.Int64 // copy of ctr for other goroutines
	marker []byte
	wraps  atomic.Int32
}

func (s *sender) seqOf(ctr int) uint16 { return s.start + uint16(ctr) }

// toWrap returns how many packets will be written before the sequence number wraps to 0.
func (s *sender) toWrap() int { return 65535 - int(s.seqOf(s.ctr-1)) }

// build creates packet number s.ctr: rig's self-describing payload with the scenario marker in
// the filler (CRC recomputed), occasionally CSRCs / a header extension.
func (s *sender) build(r *rand.Rand, maxPayload int) *rtp.Packet {
	size := rig.MinPayload + r.Intn(maxPayload-rig.MinPayload+1)
	if r.Intn(3) != 0 && size < 21+len(s.marker)+4 {
		size = 21 + len(s.marker) + 4 + r.Intn(16)
	}
	pl := rig.BuildPayload(rig.PacketID{Run: s.f.Run, Dir: s.f.Dir, Media: uint8(s.f.Media), PT: s.f.PT, Ctr: uint64(s.ctr)}, size, r)
	if size >= 21+len(s.marker)+4 {
		copy(pl[21:], s.marker)
		binary.BigEndian.PutUint32(pl[size-4:], crc32.ChecksumIEEE(pl[:size-4]))
	}
	p := &rtp.Packet{Header: rtp.Header{Version: 2, Marker: r.Intn(3) == 0, PayloadType: s.f.PT, SequenceNumber: s.seqOf(s.ctr), Timestamp: uint32(s.ctr) * 90, SSRC: 0x0BADF00D}, Payload: pl}
	switch r.Intn(16) {
	case 0:
		p.Header.CSRC = []uint32{r.Uint32(), r.Uint32()}
	case 1:
		p.Header.Extension, p.Header.ExtensionProfile = true, 0x1000
		_ = p.Header.SetExtension(0, []byte{1, 2, 3, 4})
	}
	if p.SequenceNumber == 0 && s.ctr > 0 {
		s.wraps.Add(1)
	}
	s.ctr++
	s.ctrA.Store(int64(s.ctr))
	return p
}

// roc returns the roll-over counter of the packet before packet number ctr.
func (s *sender) roc(ctr int) int {
	if ctr == 0 {
		return 0
	}
	return (int(s.start) + ctr - 1) / 65536
}

// ---- scenario -----------------------------------------------------------------------------

type endpoint struct { // one receiving endpoint
	name      string
	proto     string // udp | tcp | mcast | plain-tcp (names the transport in violation keys)
	rd        *rig.Reader
	pc        *rig.PlayClient // library client (nil: server-side ingest or plain-profile peer)
	plain     *plainPeer      // raw reader with the plain profile inside TLS (mixed scenarios)
	decErr    atomic.Int64
	decFirst  atomic.Value
	decMu     sync.Mutex
	decKinds  map[string]int // message (digits stripped) -> count
	appMu     sync.Mutex
	apps      map[uint32][]byte // delivered APP packets: id (SSRC field) -> data
	appDup    int
	rocAt     int         // packets of flow 0 written when this endpoint joined
	appAt     uint32      // RTCP APP packets written when this endpoint's PLAY / RECORD had completed
	undecided atomic.Bool // its session ended by a wall-clock watchdog on a stalled machine (inconclusive)
	undrained atomic.Bool // still working through a backlog when the drain gave up (no tail demanded)
	playing   atomic.Bool
	closing   atomic.Bool
	stalled   atomic.Int32 // pacing gave up waiting for this endpoint that many times
	qfull     atomic.Int64 // write-queue-full signals attributed to this endpoint (signalled losses)
	keepLog   bool         // tamper scenarios: keep (pt, seq, counter) of every delivery
	logMu     sync.Mutex
	log       []tdel
}

type tdel struct {
	PT     uint8
	Seq    uint16
	Parsed bool
	Ctr    uint64
}

// onRTP is the packet callback of every receiving endpoint.
func (e *endpoint) onRTP(media int, pt uint8, pkt *rtp.Packet) {
	e.rd.OnPacket(media, pt, pkt)
	if e.keepLog {
		id, ok := rig.ParsePayload(pkt.Payload)
		e.logMu.Lock()
		e.log = append(e.log, tdel{pt, pkt.SequenceNumber, ok, id.Ctr})
		e.logMu.Unlock()
	}
}

// start is rig.PlayClient.Start with the RTCP callback and the endpoint's own packet callback
// installed before PLAY (callbacks must not be changed while packets flow).
func (e *endpoint) start() error {
	pc := e.pc
	if err := pc.C.Start(); err != nil {
		return fmt.Errorf("start: %w", err)
	}
	desc, _, err := pc.C.Describe(pc.URL)
	if err != nil {
		pc.C.Close()
		return fmt.Errorf("describe: %w", err)
	}
	pc.Desc = desc
	if err := pc.C.SetupAll(desc.BaseURL, desc.Medias); err != nil {
		pc.C.Close()
		return fmt.Errorf("setup: %w", err)
	}
	idx := map[*description.Media]int{}
	for i, m := range desc.Medias {
		idx[m] = i
	}
	pc.C.OnPacketRTPAny(func(m *description.Media, f format.Format, pkt *rtp.Packet) { e.onRTP(idx[m], f.PayloadType(), pkt) })
	pc.C.OnPacketRTCPAny(func(_ *description.Media, p rtcp.Packet) { e.onRTCP(p) })
	pc.Rd.WindowPreOpen()
	if _, err := pc.C.Play(nil); err != nil {
		pc.Rd.WindowAbort()
		pc.C.Close()
		return fmt.Errorf("play: %w", err)
	}
	pc.Rd.WindowOpen()
	go func() {
		if err := pc.C.Wait(); err != nil && !e.closing.Load() {
			pc.Rd.WindowClose("died")
			pc.WaitErr.Store(err)
		}
	}()
	return nil
}

func (e *endpoint) close() {
	if e.pc != nil && !e.closing.Swap(true) {
		e.pc.Rd.WindowClose("close")
		e.pc.C.Close()
	}
	if e.plain != nil && !e.closing.Swap(true) {
		e.rd.WindowClose("close")
		e.plain.p.Close()
	}
}

// serverSide: the receiving end is the server itself (record / back channel ingest).
func (e *endpoint) serverSide() bool { return e.pc == nil && e.plain == nil }

// died returns the error that ended the endpoint's session while nobody asked for it.
func (e *endpoint) died() error {
	if e.pc != nil {
		return e.pc.Died()
	}
	if e.plain != nil {
		if s, _ := e.plain.dead.Load().(string); s != "" {
			return errors.New(s)
		}
	}
	return nil
}

func (e *endpoint) onDecodeError(err error) {
	if e.decErr.Add(1) == 1 {
		e.decFirst.Store(err.Error())
	}
	k := strings.Map(func(c rune) rune {
		if c >= '0' && c <= '9' {
			return -1
		}
		return c
	}, err.Error())
	e.decMu.Lock()
	if e.decKinds == nil {
		e.decKinds = map[string]int{}
	}
	e.decKinds[k]++
	e.decMu.Unlock()
}

func (e *endpoint) decodeErrorKinds() map[string]int {
	e.decMu.Lock()
	defer e.decMu.Unlock()
	out := map[string]int{}
	for k, v := range e.decKinds {
		out[k] = v
	}
	return out
}

func (e *endpoint) onRTCP(p rtcp.Packet) {
	app, ok := p.(*rtcp.ApplicationDefined)
	if !ok || app.Name != "VC17" {
		return
	}
	e.appMu.Lock()
	if _, dup := e.apps[app.SSRC]; dup {
		e.appDup++
	}
	e.apps[app.SSRC] = append([]byte(nil), app.Data...)
	e.appMu.Unlock()
}

type scenRun struct {
	sc      scenario
	started time.Time
	clear   *clearMon
	tam     *tamperer
	ts      *rig.TestServer
	traffic *rig.Traffic
	senders []*sender
	gate    sync.RWMutex // held exclusively while a reader joins (see writeFlow)
	emu     sync.Mutex
	eps     []*endpoint
	appMu   sync.Mutex
	appSent map[uint32][]byte
	appCtr  atomic.Uint32
	rtcpMk  []byte
	srvDec  atomic.Int64 // decode errors reported by the server
	srvDec1 atomic.Value
	srvEP   endpoint // histogram of the server's decode errors
	clMu    sync.Mutex
	closes  []string     // reasons of the server's connection / session closes
	sendErr atomic.Value // first error returned by a write during the drain (the sender ended)
	tagMu   sync.Mutex
	connTag map[*gortsplib.ServerConn]string
	sessTag map[*gortsplib.ServerSession]string
	// mixed scenarios: remote addresses of the server connections that belong to plain-profile
	// peers (registered by the peer before its first request) and the verdict per tapped connection
	plainAddrs sync.Map // "ip:port" -> true
	plainConns sync.Map // taps.Conn.ID -> bool
}

// toPlainPeer reports whether a server-side connection belongs to a reader that negotiated the
// plain profile inside TLS: what the server writes there is outside the cleartext clause.
func (sr *scenRun) toPlainPeer(c *taps.Conn) bool {
	if sr.sc.PlainPeers == 0 {
		return false
	}
	if v, ok := sr.plainConns.Load(c.ID); ok {
		return v.(bool)
	}
	_, is := sr.plainAddrs.Load(c.RemoteAddr().String())
	sr.plainConns.Store(c.ID, is)
	return is
}

func (sr *scenRun) fail(key, what string, extra map[string]any) {
	sr.clMu.Lock()
	w := map[string]any{"scenario": sr.sc, "server_closes": append([]string(nil), sr.closes...)}
	sr.clMu.Unlock()
	for k, v := range extra {
		w[k] = v
	}
	run.Violation(key, fmt.Sprintf("[%s] %s", sr.sc.Name, what), w)
}

// signalled attributes a write-queue-full error returned to the writing client to the
// receiving endpoint (a signalled loss, legal for the delivery oracle).
func (sr *scenRun) signalled(e *endpoint, err error) error {
	if err != nil && strings.Contains(err.Error(), "queue is full") {
		e.rd.QueueFull()
		e.qfull.Add(1)
		run.Count("write-queue-full-signals", 1)
	}
	return err
}

// sessionEnded: a session that ends by itself under an untampered load. When the reason is one
// of the library's wall-clock watchdogs and the scheduler canary saw the machine stall, the
// case is inconclusive; otherwise it is reported.
func (sr *scenRun) sessionEnded(proto, who, reason string) (inconclusive bool) {
	sr.clMu.Lock()
	closes := strings.Join(sr.closes, "; ")
	sr.clMu.Unlock()
	late := canary.WorstSince(sr.started)
	if (strings.Contains(reason+closes, "timeout") || strings.Contains(reason+closes, "timed out")) && late > 250*time.Millisecond {
		run.Inconclusive("session ended by a wall-clock watchdog while the machine was stalled")
		run.Count("stalled-machine:session-ended:"+proto+":"+vlibTrunc(who[:strings.IndexByte(who+" ", ' ')]+": "+reason), 1)
		return true
	}
	sr.fail("interop/"+proto+"/"+sr.sc.Kind+"/session-ended-by-error",
		fmt.Sprintf("%s ended during the load: %s (server: %s; worst scheduler lateness %v)", who, reason, closes, late), nil)
	return false
}

func vlibTrunc(s string) string {
	if len(s) > 40 {
		return s[:40]
	}
	return s
}

func (sr *scenRun) coldTag() string {
	if sr.sc.Cold {
		return "first-packet/"
	}
	return ""
}

// hooks for one side ("server" | "client"); tamperIn: alter what this side receives
func (sr *scenRun) udpHooks(side string, tamperIn bool) *taps.UDPHooks {
	h := &taps.UDPHooks{OnWrite: func(_ int, b []byte, _ *net.UDPAddr) { sr.clear.scan(side+"/udp", b) }}
	if tamperIn && sr.tam != nil {
		h.OnRead = func(localPort int, b []byte, n int, _ *net.UDPAddr) int {
			sr.tam.packet(localPort%2 == 1, b[:n])
			return n
		}
	}
	return h
}

func (sr *scenRun) streamHooks(side string, tamperIn bool) *taps.StreamHooks {
	h := &taps.StreamHooks{OnFrameOut: func(c *taps.Conn, _ int, p []byte) {
		if side == "server" && sr.toPlainPeer(c) {
			sr.clear.exemptFrame(p)
			return
		}
		sr.clear.scan(side+"/tcp", p)
	}}
	if tamperIn && sr.tam != nil {
		h.OnFrameIn = func(_ *taps.Conn, ch int, p []byte) { sr.tam.packet(ch%2 == 1, p) }
	}
	return h
}

func (sr *scenRun) clientMutate(ep *endpoint, tamperIn bool, extra func(*gortsplib.Client)) func(*gortsplib.Client) {
	return func(c *gortsplib.Client) {
		c.UDPReadBufferSize = 4 << 20
		c.ListenPacket = taps.ListenPacket(sr.udpHooks("client", tamperIn))
		sh := sr.streamHooks("client", tamperIn)
		c.DialContext = taps.DialContext(sh)
		c.DialTLSContext = taps.DialTLSContext(sh, nil)
		if ep != nil {
			c.OnDecodeError = ep.onDecodeError
		}
		// the client's wall-clock watchdogs are not what this property is about: far away. (Their
		// first check - 1 s after PLAY on multicast, InitialUDPReadTimeout on UDP with an explicit
		// protocol - compares against a last-packet time of 0 and ends a reader that has not
		// received anything YET with "UDP timeout", whatever ReadTimeout says: a reader that waits
		// for the others to be set up before the load starts would die on a loaded machine.)
		c.InitialUDPReadTimeout = 10 * time.Minute
		c.VerifSetTimers(nil, 200*time.Millisecond, 200*time.Millisecond, 10*time.Minute)
		if extra != nil {
			extra(c)
		}
	}
}

// app builds the next RTCP APP packet: the id travels in the (clear) SSRC field and again,
// after the 32-byte marker, in the (encrypted) data.
func (sr *scenRun) app(r *rand.Rand) *rtcp.ApplicationDefined {
	id := uint32(appIDTag)<<24 | (sr.appCtr.Add(1) & 0xFFFFFF)
	data := make([]byte, 0, 40)
	data = append(data, sr.rtcpMk...)
	data = binary.BigEndian.AppendUint32(data, id)
	for i := r.Intn(3); i > 0; i-- {
		data = binary.BigEndian.AppendUint32(data, r.Uint32())
	}
	if n := sr.appCtr.Load(); n%8 == 5 {
		// every eighth packet sits at the size limit: a plain RTCP size of 1444..1472 in steps of
		// four around "maximum packet size minus the SRTCP overhead"; the writer either refuses it
		// or every reader gets it intact
		want := 1444 + 4*int((n/8)%8) - 12
		for len(data) < want {
			data = binary.BigEndian.AppendUint32(data, r.Uint32())
		}
	}
	sr.appMu.Lock()
	sr.appSent[id] = data
	sr.appMu.Unlock()
	return &rtcp.ApplicationDefined{SubType: 1, SSRC: id, Name: "VC17", Data: data}
}

func (sr *scenRun) activeReaders() []*endpoint {
	sr.emu.Lock()
	defer sr.emu.Unlock()
	var out []*endpoint
	for _, e := range sr.eps {
		if e.playing.Load() {
			out = append(out, e)
		}
	}
	return out
}

// writeFlow writes n packets of one flow. Every 32 packets it waits until the active readers
// are at most 256 packets behind (flow control instead of wall-clock pacing). The packets
// around a sequence-number wrap are written under the read side of the join gate: a reader's
// SETUP (roll-over counter snapshot in MIKEY) and its first packet then lie on the same side of
// the wrap - the protocol cannot synchronise a receiver otherwise (RFC 3711: the ROC is
// signalled once).
func (sr *scenRun) writeFlow(s *sender, n int, r *rand.Rand, write func(*rtp.Packet) error, writeRTCP func(rtcp.Packet) error) {
	for i := 0; i < n; i++ {
		zone := s.toWrap() <= 96
		if zone {
			sr.gate.RLock()
		}
		p := s.build(r, 160)
		idx := s.f.Forward(p)
		err := write(p)
		s.f.Done(idx, err)
		if zone {
			sr.gate.RUnlock()
		}
		if writeRTCP != nil && i%16 == 5 {
			_ = writeRTCP(sr.app(r))
		}
		if i%32 == 31 {
			sr.pace(s, 192)
		}
	}
}

func (sr *scenRun) pace(s *sender, lag int) {
	deadline := time.Now().Add(time.Second)
	for {
		var behind *endpoint
		for _, e := range sr.activeReaders() {
			if e.stalled.Load() >= 3 {
				continue // does not follow any more (decided by the drain / delivery oracles)
			}
			if v, seen := e.rd.LastSeen(s.f.Media, s.f.PT); seen && int(v)+lag < s.ctr {
				behind = e
			}
		}
		if behind == nil {
			return
		}
		if time.Now().After(deadline) {
			behind.stalled.Add(1)
			run.Count("pacing-timeouts", 1)
			return
		}
		time.Sleep(250 * time.Microsecond)
	}
}

// drain writes sentinel packets until every endpoint saw one. The verdict is not a wall-clock
// bound: sentinels are written in rounds of perRound, and an endpoint that has not seen one is
// given another round as long as any delivery reached it during the round (a slow consumer working
// through its backlog on a loaded machine), up to 12 rounds. It returns the endpoints that received
// nothing at all during a whole round (stuck) and the ones still progressing at the end (slow).
func (sr *scenRun) drain(s *sender, r *rand.Rand, write func(*rtp.Packet) error, eps []*endpoint, perRound int) (stuck, slow []*endpoint) {
	first := s.ctr
	defer s.f.MarkSentinelFrom(first)
	pending := func() []*endpoint {
		var out []*endpoint
		for _, e := range eps {
			if v, ok := e.rd.LastSeen(s.f.Media, s.f.PT); !ok || int(v) < first {
				out = append(out, e)
			}
		}
		return out
	}
	for round := 0; round < 12; round++ {
		before := map[*endpoint]int{}
		for _, e := range eps {
			before[e] = e.rd.Delivered()
		}
		for i := 0; i < perRound; i++ {
			p := s.build(r, 60)
			idx := s.f.Forward(p)
			err := write(p)
			s.f.Done(idx, err)
			if err != nil && !strings.Contains(err.Error(), "queue is full") {
				sr.sendErr.CompareAndSwap(nil, err.Error())
			}
			time.Sleep(time.Millisecond)
			if len(pending()) == 0 {
				return nil, nil
			}
		}
		if round > 0 {
			run.Count("drain-rounds-beyond-the-first", 1)
		}
		moving := false
		pend := pending()
		for _, e := range pend {
			if e.rd.Delivered() > before[e] {
				moving = true
			}
		}
		if !moving {
			return pend, nil
		}
	}
	return nil, pending()
}

func descWithBack(formats []int, back bool) *description.Session {
	d := rig.MakeDesc(formats)
	if back {
		f := &format.Generic{PayloadTyp: 110, RTPMa: "private/8000"}
		_ = f.Init()
		f2 := &format.Generic{PayloadTyp: 111, RTPMa: "private/16000"}
		_ = f2.Init()
		d.Medias = append(d.Medias, &description.Media{Type: description.MediaTypeAudio, IsBackChannel: true, Formats: []format.Format{f, f2}})
	}
	return d
}

func runScenario(sc scenario) {
	evals.Add(1)
	r := rand.New(rand.NewSource(sc.Seed))
	sr := &scenRun{sc: sc, started: time.Now(), clear: newClearMon(), appSent: map[uint32][]byte{},
		connTag: map[*gortsplib.ServerConn]string{}, sessTag: map[*gortsplib.ServerSession]string{}}
	if sc.Tamper {
		sr.tam = newTamperer(sc.Seed ^ 0x7A)
		sr.tam.cold = sc.Cold
	}
	reliable := sc.Transport == "tcp"
	back := sc.Kind == "backchannel"
	desc := descWithBack(sc.Formats, back)

	// --- server
	var (
		pubMu    sync.Mutex
		pubMedia []*description.Media
		ingest   *endpoint
	)
	if sc.Kind != "play" {
		ingest = &endpoint{name: "server-ingest", proto: sc.Transport, rd: rig.NewReader("server-ingest", reliable, 5), apps: map[uint32][]byte{}, keepLog: sc.Tamper}
	}
	opts := rig.ServerOpts{
		UDP: true, Multicast: sc.Transport == "mcast", TLS: !sc.Plain, HandlerSet: "full", NoLog: true, Desc: desc, NoStream: sc.Kind == "record",
		// the library's wall-clock watchdogs are not what this property is about: far away
		ReadTimeout: 5 * time.Minute, WriteTimeout: 5 * time.Minute, IdleTimeout: 20 * time.Minute,
		WriteQueueSize: 1024, SenderReportPeriod: 200 * time.Millisecond, ReceiverReportPeriod: 200 * time.Millisecond,
		OnEvent: func(e rig.Event) {
			switch e.Kind {
			case "request":
				if e.Tag != "" && e.Conn != nil {
					sr.tagMu.Lock()
					sr.connTag[e.Conn] = e.Tag
					sr.tagMu.Unlock()
				}
			case "setup", "play":
				sr.tagMu.Lock()
				if t, ok := sr.connTag[e.Conn]; ok && e.Sess != nil {
					sr.sessTag[e.Sess] = t
				}
				sr.tagMu.Unlock()
			case "stream-write-error":
				// a full write queue of one reader: a signalled loss, attributed to that reader
				run.Count("stream-write-errors:"+vlibTrunc(e.Err), 1)
				if strings.Contains(e.Err, "queue is full") {
					sr.tagMu.Lock()
					t := sr.sessTag[e.Sess]
					sr.tagMu.Unlock()
					sr.emu.Lock()
					for _, ep := range sr.eps {
						if "verif:"+ep.name == t {
							ep.rd.QueueFull()
							ep.qfull.Add(1)
						}
					}
					sr.emu.Unlock()
				}
			case "decode-error":
				if sr.srvDec.Add(1) == 1 {
					sr.srvDec1.Store(e.Err)
				}
				sr.srvEP.onDecodeError(errors.New(e.Err))
			case "conn-close", "session-close":
				sr.clMu.Lock()
				if len(sr.closes) < 20 {
					sr.closes = append(sr.closes, e.Kind+": "+e.Err)
				}
				sr.clMu.Unlock()
			}
		},
		Mutate: func(s *gortsplib.Server) {
			s.UDPReadBufferSize = 4 << 20
			s.ListenPacket = taps.ListenPacket(sr.udpHooks("server", sc.Kind != "play"))
			sh := sr.streamHooks("server", sc.Kind != "play")
			s.Listen = taps.Listen(sh)
			s.TLSListen = taps.TLSListen(sh)
		},
	}
	ts, err := rig.StartServer(opts)
	if err != nil {
		run.Fatal("scenario %s: server: %v", sc.Name, err)
	}
	sr.ts = ts
	defer ts.Close()
	mediaIndex := func(medias []*description.Media, m *description.Media) int {
		for i, mm := range medias {
			if mm == m {
				return i
			}
		}
		return -1
	}
	switch sc.Kind {
	case "record":
		ts.Core.Announce = func(ctx *gortsplib.ServerHandlerOnAnnounceCtx) (*base.Response, error) {
			pubMu.Lock()
			pubMedia = ctx.Description.Medias
			pubMu.Unlock()
			return &base.Response{StatusCode: base.StatusOK}, nil
		}
		ts.Core.OnRecordPacket = func(_ *gortsplib.ServerSession, m *description.Media, f format.Format, pkt *rtp.Packet) {
			pubMu.Lock()
			ms := pubMedia
			pubMu.Unlock()
			ingest.onRTP(mediaIndex(ms, m), f.PayloadType(), pkt)
		}
		ts.Core.Record = func(ctx *gortsplib.ServerHandlerOnRecordCtx) (*base.Response, error) {
			ctx.Session.OnPacketRTCPAny(func(_ *description.Media, p rtcp.Packet) { ingest.onRTCP(p) })
			return &base.Response{StatusCode: base.StatusOK}, nil
		}
	case "backchannel":
		ts.Core.Play = func(ctx *gortsplib.ServerHandlerOnPlayCtx) (*base.Response, error) {
			ctx.Session.OnPacketRTPAny(func(m *description.Media, f format.Format, pkt *rtp.Packet) {
				ingest.onRTP(mediaIndex(desc.Medias, m), f.PayloadType(), pkt)
			})
			ctx.Session.OnPacketRTCPAny(func(_ *description.Media, p rtcp.Packet) { ingest.onRTCP(p) })
			return &base.Response{StatusCode: base.StatusOK}, nil
		}
	}

	// --- traffic: flows of the direction under test
	var pairs [][2]int
	switch sc.Kind {
	case "backchannel":
		bi := len(desc.Medias) - 1
		pairs = [][2]int{{bi, 110}, {bi, 111}}
	default:
		pairs = rig.FlowPairs(rig.MakeDesc(sc.Formats))
	}
	sr.traffic = rig.NewTraffic(2, pairs, r, false)
	marker := make([]byte, 32)
	sr.rtcpMk = make([]byte, 32)
	for i := range marker {
		marker[i], sr.rtcpMk[i] = byte(r.Intn(256)), byte(r.Intn(256))
	}
	prefix := binary.BigEndian.AppendUint32([]byte("VRF1"), sr.traffic.Run)
	sr.clear.add("rtp-marker", marker)
	sr.clear.add("rtp-payload-prefix", prefix)
	sr.clear.add("rtcp-app-marker", sr.rtcpMk)
	for i, f := range sr.traffic.Flows {
		sr.senders = append(sr.senders, &sender{f: f, marker: marker, start: uint16(65536 - 60 - 40*i - r.Intn(300))})
	}

	// --- passive multicast member
	var mcSocks []*net.UDPConn
	defer func() {
		for _, s := range mcSocks {
			s.Close()
		}
	}()
	var mcMu sync.Mutex
	mcSeen := map[string]bool{}
	joinGroup := func(res *base.Response) {
		var t headers.Transport
		th, ok := res.Header["Transport"]
		if !ok || t.Unmarshal(th) != nil || t.Destination2 == nil || t.Ports == nil {
			return
		}
		mcMu.Lock()
		defer mcMu.Unlock()
		for _, port := range t.Ports {
			k := fmt.Sprintf("%s:%d", *t.Destination2, port)
			if mcSeen[k] {
				continue
			}
			mcSeen[k] = true
			uc, err := net.ListenMulticastUDP("udp4", mcastInterface(), &net.UDPAddr{IP: net.ParseIP(*t.Destination2), Port: port})
			if err != nil {
				run.Fatal("passive group member: %v", err)
			}
			_ = uc.SetReadBuffer(4 << 20)
			mcSocks = append(mcSocks, uc)
			go func() {
				buf := make([]byte, 4096)
				for {
					n, _, err := uc.ReadFromUDP(buf)
					if err != nil {
						return
					}
					sr.clear.scan("server/mcast", buf[:n])
				}
			}()
		}
	}

	// --- endpoints
	newReaderOn := func(i int, proto string) *endpoint {
		ep := &endpoint{name: fmt.Sprintf("%s-r%d", sc.Name, i), proto: proto, apps: map[uint32][]byte{}, keepLog: sc.Tamper}
		o := rig.ClientOpts{Name: ep.name, Proto: proto, HeldEvery: 97, ReadTimeout: 20 * time.Minute, WriteTimeout: 5 * time.Minute, WriteQueueSize: 1024}
		o.Mutate = sr.clientMutate(ep, sc.Kind == "play", func(c *gortsplib.Client) {
			c.RequestBackChannels = back
			if proto == "mcast" {
				prev := c.OnResponse
				c.OnResponse = func(res *base.Response) { prev(res); joinGroup(res) }
			}
		})
		pc, err := rig.NewPlayClient(ts, o)
		if err != nil {
			run.Fatal("client: %v", err)
		}
		ep.pc, ep.rd = pc, pc.Rd
		sr.gate.Lock() // no sequence number wraps while the roll-over counters are snapshotted
		ep.rocAt = int(sr.senders[0].ctrA.Load())
		err = ep.start()
		sr.gate.Unlock()
		if err != nil {
			sr.fail("interop/"+proto+"/reader-start-failed", fmt.Sprintf("reader %d could not start: %v", i, err), nil)
			return nil
		}
		if !sc.Plain {
			if t := pc.C.Transport(); t == nil || t.Session == nil || t.Session.Profile != headers.TransportProfileSAVP {
				sr.fail("interop/"+proto+"/profile-not-savp", "an rtsps session negotiated a non-secure media profile", nil)
			}
		}
		ep.appAt = sr.appCtr.Load()
		ep.playing.Store(true)
		sr.emu.Lock()
		sr.eps = append(sr.eps, ep)
		sr.emu.Unlock()
		return ep
	}
	newReader := func(i int) *endpoint { return newReaderOn(i, sc.Transport) }

	var write func(s *sender) func(*rtp.Packet) error
	var writeRTCP func(rtcp.Packet) error
	var pub *rig.PubClient
	var bcReader *endpoint
	switch sc.Kind {
	case "play":
		write = func(s *sender) func(*rtp.Packet) error {
			m := desc.Medias[s.f.Media]
			return func(p *rtp.Packet) error { return ts.Stream.WritePacketRTP(m, p) }
		}
		m0 := desc.Medias[0]
		writeRTCP = func(p rtcp.Packet) error { return ts.Stream.WritePacketRTCP(m0, p) }
		if sc.PlainPeers > 0 {
			// mixed scenarios: ServerStream.WritePacketRTCP of every media in turn (one writer goroutine)
			nRTCP := 0
			writeRTCP = func(p rtcp.Packet) error {
				nRTCP++
				return ts.Stream.WritePacketRTCP(desc.Medias[nRTCP%len(desc.Medias)], p)
			}
			// the first plain-profile peer is there from the start (the others join under load)
			if sr.newPlainPeer(0, desc) == nil {
				return
			}
		}
		nInit := 2
		if sc.Transport == "mcast" || sc.Tamper {
			nInit = 1
		}
		for i := 0; i < nInit; i++ {
			newReader(i)
		}
		for i, proto := range sc.Extra {
			newReaderOn(20+i, proto)
		}
	case "record":
		pdesc := rig.MakeDesc(sc.Formats)
		if !sc.Plain {
			for _, pm := range pdesc.Medias {
				pm.Profile = headers.TransportProfileSAVP
			}
		}
		pub, err = rig.StartPublisher(ts, pdesc, rig.ClientOpts{Name: "pub", Proto: sc.Transport, Path: "/pub", WriteQueueSize: 1024, ReadTimeout: 20 * time.Minute, WriteTimeout: 5 * time.Minute, Mutate: sr.clientMutate(nil, false, nil)})
		if err != nil {
			sr.fail("interop/"+sc.Transport+"/publisher-start-failed", err.Error(), nil)
			return
		}
		defer pub.C.Close()
		if !sc.Plain {
			if t := pub.C.Transport(); t == nil || t.Session == nil || t.Session.Profile != headers.TransportProfileSAVP {
				sr.fail("interop/"+sc.Transport+"/profile-not-savp", "an rtsps publisher negotiated a non-secure media profile", nil)
			}
		}
		ingest.rd.WindowOpen()
		ingest.playing.Store(true)
		sr.eps = append(sr.eps, ingest)
		write = func(s *sender) func(*rtp.Packet) error {
			m := pub.Desc.Medias[s.f.Media]
			return func(p *rtp.Packet) error { return sr.signalled(ingest, pub.C.WritePacketRTP(m, p)) }
		}
		pm0 := pub.Desc.Medias[0]
		writeRTCP = func(p rtcp.Packet) error { return pub.C.WritePacketRTCP(pm0, p) }
	case "backchannel":
		bcReader = newReader(0)
		if bcReader == nil {
			return
		}
		bcReader.playing.Store(false) // it is the sender of the flows under test
		var bm *description.Media
		for _, dm := range bcReader.pc.Desc.Medias {
			if dm.IsBackChannel {
				bm = dm
			}
		}
		if bm == nil {
			run.Fatal("%s: no back channel in the description", sc.Name)
		}
		ingest.rd.WindowOpen()
		ingest.playing.Store(true)
		sr.emu.Lock()
		sr.eps = append(sr.eps, ingest)
		sr.emu.Unlock()
		c := bcReader.pc.C
		write = func(*sender) func(*rtp.Packet) error {
			return func(p *rtp.Packet) error { return sr.signalled(ingest, c.WritePacketRTP(bm, p)) }
		}
		writeRTCP = func(p rtcp.Packet) error { return c.WritePacketRTCP(bm, p) }
	}
	if sr.tam != nil && sc.Cold {
		sr.tam.arm(true)
	}

	// --- load
	var wg sync.WaitGroup
	for i, s := range sr.senders {
		wg.Add(1)
		go func(i int, s *sender) {
			defer wg.Done()
			wr := rand.New(rand.NewSource(sc.Seed*131 + int64(i)))
			var wrtcp func(rtcp.Packet) error
			if i == 0 {
				wrtcp = writeRTCP
			}
			n := sc.Packets
			if i > 0 && sc.Short > 0 && sc.Short < n {
				n = sc.Short
			}
			sr.writeFlow(s, n, wr, write(s), wrtcp)
		}(i, s)
	}
	if sr.tam != nil && !sc.Cold {
		// warm start: the tap begins to alter packets once every flow has delivered some
		wg.Add(1)
		go func() {
			defer wg.Done()
			for {
				ready := true
				for _, s := range sr.senders {
					for _, e := range sr.activeReaders() {
						if v, ok := e.rd.LastSeen(s.f.Media, s.f.PT); !ok || v < 50 {
							ready = false
						}
					}
				}
				if ready || int(sr.senders[0].ctrA.Load()) >= sc.Packets/2 {
					sr.tam.arm(true)
					return
				}
				time.Sleep(time.Millisecond)
			}
		}()
	}
	if sc.Kind == "play" {
		// late joiners: after flow 0 has written the given number of packets (i.e. after one or
		// more wraps: non-zero roll-over counters in the MIKEY message they receive)
		wg.Add(1)
		go func() {
			defer wg.Done()
			for k, at := range sc.Joiners {
				for {
					c := int(sr.senders[0].ctrA.Load())
					if c >= at || c >= sc.Packets {
						break
					}
					time.Sleep(2 * time.Millisecond)
				}
				if ep := newReader(10 + k); ep != nil {
					run.Count(fmt.Sprintf("late-joiners-with-starting-roc=%d", sr.senders[0].roc(ep.rocAt)), 1)
				}
			}
		}()
	}
	if sc.PlainPeers > 1 {
		// the other plain-profile peers join while the secure readers are being served
		wg.Add(1)
		go func() {
			defer wg.Done()
			for k := 1; k < sc.PlainPeers; k++ {
				for int(sr.senders[0].ctrA.Load()) < k*sc.Packets/(sc.PlainPeers+1) {
					time.Sleep(2 * time.Millisecond)
				}
				sr.newPlainPeer(k, desc)
			}
		}()
	}
	wg.Wait()
	if sr.tam != nil {
		sr.tam.arm(false)
	}

	// --- drain (every endpoint that is still receiving, UDP included: a receiver whose SRTP
	// context lost synchronisation never sees a sentinel)
	var drainEps []*endpoint
	for _, e := range sr.activeReaders() {
		if err := e.died(); err != nil {
			e.undecided.Store(sr.sessionEnded(e.proto, "reader "+e.name, err.Error()))
			continue
		}
		drainEps = append(drainEps, e)
	}
	for i, s := range sr.senders {
		dr := rand.New(rand.NewSource(sc.Seed*17 + int64(i)))
		stuckEps, slowEps := sr.drain(s, dr, write(s), drainEps, 1500)
		for _, e := range slowEps {
			run.Inconclusive("drain-still-progressing-after-12-rounds")
			e.undrained.Store(true)
		}
		for _, e := range stuckEps {
			d1, _ := e.decFirst.Load().(string)
			if se, _ := sr.sendErr.Load().(string); se != "" {
				// the sending side ended (writes fail): not a verdict about the receiver
				sr.sessionEnded(sc.Transport, "sender", se)
				continue
			}
			key := "interop/" + e.proto + "/" + sc.Kind + "/receiver-stopped-receiving"
			if sc.Tamper {
				side := "client"
				if e.pc == nil {
					side = "server"
				}
				key = "tamper/" + sc.Transport + "/" + sr.coldTag() + side + "-receiver-blocked-after-altered-packet"
			}
			sr.fail(key,
				fmt.Sprintf("endpoint %s (joined at packet %d) received nothing at all during a whole round of 1500 sentinel packets of media %d format %d after the load; decode errors so far: %d (first: %s)",
					e.name, e.rocAt, s.f.Media, s.f.PT, e.decErr.Load()+sr.srvDec.Load(), d1),
				map[string]any{"endpoint": e.name, "decode_error_kinds_client": e.decodeErrorKinds(), "decode_error_kinds_server": sr.srvEP.decodeErrorKinds()})
		}
	}
	for _, e := range drainEps {
		if e.undrained.Load() {
			e.rd.WindowClose("close") // not drained: what is still on its way is not demanded
		} else {
			e.rd.WindowClose("drain")
		}
	}
	time.Sleep(30 * time.Millisecond)

	// --- shut down
	sr.emu.Lock()
	eps := append([]*endpoint(nil), sr.eps...)
	sr.emu.Unlock()
	for _, e := range eps {
		e.close()
	}
	if bcReader != nil {
		bcReader.close()
	}
	if pub != nil {
		pub.C.Close()
	}
	ts.Close()
	sr.evaluate(eps, reliable)
}

func mcastInterface() *net.Interface {
	ip := rig.MulticastIP()
	ifs, _ := net.Interfaces()
	for i := range ifs {
		addrs, _ := ifs[i].Addrs()
		for _, a := range addrs {
			if n, ok := a.(*net.IPNet); ok && n.IP.String() == ip {
				return &ifs[i]
			}
		}
	}
	return nil
}
