package main

import (
	"bufio"
	"crypto/tls"
	"fmt"
	"net"
	"strings"
	"sync"
	"time"

	"github.com/bluenviron/gortsplib/v5"
	"github.com/bluenviron/gortsplib/v5/pkg/base"
	"github.com/bluenviron/gortsplib/v5/pkg/conn"
	"github.com/pion/rtp"

	"verif/lib/rig"
)

// (e) key-management precedence. A TLS-terminating relay sits between a library client and a
// library server and turns the server into one that announces its keys the way other servers do:
// the SETUP response carries no KeyMgmt header, and the SDP carries, besides the media-level
// a=key-mgmt lines, a session-level a=key-mgmt with ANOTHER (well-formed) key. RFC 4567: the
// media-level key overrides the session-level one - the client must decrypt what the server
// encrypts with the media-level key.

func relayRTSP(down, up net.Conn, decoy string, wg *sync.WaitGroup) {
	defer wg.Done()
	cd := conn.NewConn(bufio.NewReader(down), down)
	cu := conn.NewConn(bufio.NewReader(up), up)
	var inner sync.WaitGroup
	inner.Add(2)
	go func() { // client -> server, unchanged
		defer inner.Done()
		defer up.Close()
		buf := make([]byte, 2048)
		for {
			what, err := cd.Read()
			if err != nil {
				return
			}
			switch v := what.(type) {
			case *base.Request:
				if cu.WriteRequest(v) != nil {
					return
				}
			case *base.InterleavedFrame:
				if cu.WriteInterleavedFrame(v, buf) != nil {
					return
				}
			}
		}
	}()
	go func() { // server -> client, rewritten
		defer inner.Done()
		defer down.Close()
		buf := make([]byte, 4096)
		for {
			what, err := cu.Read()
			if err != nil {
				return
			}
			switch v := what.(type) {
			case *base.Response:
				delete(v.Header, "KeyMgmt")
				if ct := v.Header["Content-Type"]; len(ct) == 1 && strings.HasPrefix(ct[0], "application/sdp") && decoy != "" {
					// session-level attribute: before the first media section
					sdp := string(v.Body)
					if i := strings.Index(sdp, "\r\nm="); i >= 0 {
						sdp = sdp[:i] + "\r\na=key-mgmt:" + decoy + sdp[i:]
						v.Body = []byte(sdp)
						delete(v.Header, "Content-Length")
					}
				}
				if cd.WriteResponse(v) != nil {
					return
				}
			case *base.InterleavedFrame:
				if cd.WriteInterleavedFrame(v, buf) != nil {
					return
				}
			}
		}
	}()
	inner.Wait()
}

func runKeyPrecedence() {
	evals.Add(1)
	ts, err := rig.StartServer(rig.ServerOpts{UDP: true, TLS: true, HandlerSet: "full", NoLog: true})
	if err != nil {
		run.Fatal("key-precedence: server: %v", err)
	}
	defer ts.Close()
	// a second stream provides a well-formed key-management value that is not the first stream's
	other := &gortsplib.ServerStream{Server: ts.S, Desc: rig.DefaultDesc()}
	if err := other.Initialize(); err != nil {
		run.Fatal("key-precedence: stream: %v", err)
	}
	defer other.Close()
	ts.Publish("/other", other)
	decoy := ""
	if p, err := rig.Dial(ts.Addr(), ts.TLSCfg, ""); err == nil {
		if res, err := p.Do(p.Request(base.Describe, ts.URL("/other"), nil, nil), 5*time.Second); err == nil {
			for _, ln := range strings.Split(string(res.Body), "\r\n") {
				if strings.HasPrefix(ln, "a=key-mgmt:") && decoy == "" {
					decoy = strings.TrimPrefix(ln, "a=key-mgmt:")
				}
			}
		}
		p.Close()
	}
	if decoy == "" {
		run.Inconclusive("key-precedence: no key-mgmt attribute obtained from the second stream")
		return
	}
	ln, err := tls.Listen("tcp", "127.0.0.1:0", &tls.Config{Certificates: []tls.Certificate{rig.ServerCert()}})
	if err != nil {
		run.Fatal("key-precedence: relay: %v", err)
	}
	var wg sync.WaitGroup
	go func() {
		for {
			down, err := ln.Accept()
			if err != nil {
				return
			}
			up, err := tls.Dial("tcp", ts.Addr(), &tls.Config{InsecureSkipVerify: true})
			if err != nil {
				down.Close()
				continue
			}
			wg.Add(1)
			go relayRTSP(down, up, decoy, &wg)
		}
	}()
	defer func() { ln.Close(); wg.Wait() }()

	pc, err := rig.NewPlayClient(ts, rig.ClientOpts{Name: "keyprec", Proto: "tcp", URLOverride: "rtsps://" + ln.Addr().String() + "/stream",
		ReadTimeout: 10 * time.Second, WriteTimeout: 10 * time.Second, HeldEvery: 1000})
	if err != nil {
		run.Fatal("key-precedence: client: %v", err)
	}
	var dmu sync.Mutex
	decodeErrs := 0
	firstErr := ""
	pc.C.OnDecodeError = func(err error) {
		dmu.Lock()
		decodeErrs++
		if firstErr == "" {
			firstErr = err.Error()
		}
		dmu.Unlock()
	}
	if err := pc.Start(); err != nil {
		run.Inconclusive("key-precedence: the session through the relay could not be started: " + err.Error())
		return
	}
	defer pc.Close()
	m := ts.Stream.Desc.Medias[0]
	for k := 0; k < 300 && pc.Rd.Delivered() < 10 && pc.Died() == nil; k++ {
		_ = ts.Stream.WritePacketRTP(m, &rtp.Packet{Header: rtp.Header{Version: 2, PayloadType: m.Formats[0].PayloadType(), SequenceNumber: uint16(100 + k), Timestamp: uint32(k) * 3000, SSRC: 1},
			Payload: []byte(fmt.Sprintf("key-precedence-%04d", k))})
		time.Sleep(5 * time.Millisecond)
	}
	dmu.Lock()
	de, fe := decodeErrs, firstErr
	dmu.Unlock()
	run.Distinct("key-precedence")
	run.Count("key-precedence:packets-delivered", int64(pc.Rd.Delivered()))
	if pc.Rd.Delivered() == 0 {
		run.Violation("interop/key-mgmt-precedence/media-level-key-not-used",
			fmt.Sprintf("server announcing a session-level key-mgmt besides the media-level ones and no KeyMgmt in the SETUP response: the client delivered nothing of 300 packets encrypted with the media-level key (%d decode errors, first: %s; client error: %v)", de, fe, pc.Died()),
			map[string]any{"decode_errors": de, "first_error": fe})
	}
}
