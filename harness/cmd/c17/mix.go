package main

import (
	"crypto/tls"
	"errors"
	"fmt"
	"net"
	"sync/atomic"
	"time"

	"github.com/bluenviron/gortsplib/v5/pkg/base"
	"github.com/bluenviron/gortsplib/v5/pkg/description"
	"github.com/bluenviron/gortsplib/v5/pkg/headers"
	"github.com/pion/rtcp"
	"github.com/pion/rtp"

	"verif/lib/rig"
)

// Mixed profiles on one RTSPS stream.
//
// An RTSPS server admits RTP/AVP/TCP (interleaved inside the TLS connection) next to RTP/SAVP.
// A reader that asks for it is served in clear - that is outside the property - but it shares
// the stream's reader set (and the per-packet fan-out in ServerStream.WritePacketRTP / RTCP) with
// the secure readers. What the secure readers are sent must not depend on who else is reading:
// the monitors of the secure readers (cleartext scanner on their datagrams / frames, rig.Check,
// decode-error accounting) run unchanged while raw plain-profile peers play the same stream.
//
// plainPeer is such a reader: a raw TLS peer that SETUPs every media with
// RTP/AVP/TCP;unicast;interleaved=2i-2i+1, PLAYs and keeps reading. Its frames are parsed as plain
// RTP / RTCP and fed to the same delivery oracle (reliable transport: every packet written after
// PLAY, in order, with the written content; RTCP APP packets as sent).
type plainPeer struct {
	p      *rig.Peer
	dead   atomic.Value // string: error that ended the read loop although nobody closed the peer
	frames atomic.Int64
	bad    atomic.Int64 // frames that are neither RTP nor RTCP
	bad1   atomic.Value // string: first such frame
}

const plainStepTimeout = 60 * time.Second // generous watchdog per request (inconclusive when it fires)

// isTimeout: a wall-clock limit of the harness (rig.Peer deadlines, the watchdog above) fired.
func isTimeout(err error) bool {
	var ne net.Error
	return err != nil && (errors.Is(err, rig.ErrTimeout) || (errors.As(err, &ne) && ne.Timeout()))
}

// newPlainPeer connects plain-profile peer i, registers it as a receiving endpoint and returns
// it once the PLAY response arrived (nil: could not be started, already reported).
func (sr *scenRun) newPlainPeer(i int, desc *description.Session) *endpoint {
	ep := &endpoint{name: fmt.Sprintf("%s-p%d", sr.sc.Name, i), proto: "plain-tcp", apps: map[uint32][]byte{}}
	ep.rd = rig.NewReader(ep.name, true, 97)
	ep.rocAt = int(sr.senders[0].ctrA.Load())
	p, err := rig.Dial(sr.ts.Addr(), sr.ts.TLSCfg, "")
	if err != nil {
		if isTimeout(err) {
			run.Inconclusive("plain-profile peer: dial did not complete within the watchdog")
			return nil
		}
		run.Fatal("%s: plain-profile peer: dial: %v", sr.sc.Name, err)
	}
	p.Tag = "verif:" + ep.name
	// before the first request: the server-side tap recognises the connection by this address
	sr.plainAddrs.Store(p.NC.LocalAddr().String(), true)
	ep.plain = &plainPeer{p: p}
	// the TLS handshake now, under its own generous watchdog: left to the first request it would
	// run under the 5 s write deadline of rig.Peer, which a busy machine does not always meet
	// (afterwards the requests are a few hundred bytes into an empty socket buffer)
	if tc, ok := p.NC.(*tls.Conn); ok {
		_ = tc.SetDeadline(time.Now().Add(plainStepTimeout))
		err := tc.Handshake()
		_ = tc.SetDeadline(time.Time{})
		if err != nil {
			p.Close()
			if isTimeout(err) {
				run.Inconclusive("plain-profile peer: TLS handshake did not complete within the watchdog")
				return nil
			}
			run.Fatal("%s: plain-profile peer: TLS handshake: %v", sr.sc.Name, err)
		}
	}

	// a step that does not complete in time is inconclusive. Any other failure: the server is
	// expected to admit the plain profile inside TLS; when it does not, the mixed scenarios
	// cannot be built (nothing to decide)
	do := func(step string, req *base.Request) *base.Response {
		res, err := p.Do(req, plainStepTimeout)
		switch {
		case isTimeout(err):
			run.Inconclusive("plain-profile peer: " + step + " did not complete within the watchdog")
			p.Close()
			return nil
		case err != nil:
			run.Fatal("%s: plain-profile peer: %s: %v", sr.sc.Name, step, err)
		case res.StatusCode != base.StatusOK:
			run.Fatal("%s: plain-profile peer: %s answered with %d %s (RTP/AVP/TCP inside TLS is expected to be admitted)", sr.sc.Name, step, int(res.StatusCode), res.StatusMessage)
		}
		return res
	}
	url := sr.ts.URL("/stream")
	if do("DESCRIBE", p.Request(base.Describe, url, base.Header{"Accept": base.HeaderValue{"application/sdp"}}, nil)) == nil {
		return nil
	}
	session := ""
	for m, dm := range desc.Medias {
		hdr := base.Header{"Transport": base.HeaderValue{fmt.Sprintf("RTP/AVP/TCP;unicast;interleaved=%d-%d", 2*m, 2*m+1)}}
		if session != "" {
			hdr["Session"] = base.HeaderValue{session}
		}
		res := do("SETUP", p.Request(base.Setup, fmt.Sprintf("%s/trackID=%d", url, m), hdr, nil))
		if res == nil {
			return nil
		}
		var th headers.Transport
		var sh headers.Session
		if err := th.Unmarshal(res.Header["Transport"]); err != nil {
			run.Fatal("%s: plain-profile peer: Transport of the SETUP response: %v", sr.sc.Name, err)
		}
		if err := sh.Unmarshal(res.Header["Session"]); err != nil {
			run.Fatal("%s: plain-profile peer: Session of the SETUP response: %v", sr.sc.Name, err)
		}
		session = sh.Session
		if th.Profile != headers.TransportProfileAVP || th.Protocol != headers.TransportProtocolTCP ||
			th.InterleavedIDs == nil || *th.InterleavedIDs != [2]int{2 * m, 2*m + 1} {
			run.Fatal("%s: plain-profile peer: SETUP asked for RTP/AVP/TCP;interleaved=%d-%d, the server answered %v", sr.sc.Name, 2*m, 2*m+1, res.Header["Transport"])
		}
		if th.SSRC != nil && len(dm.Formats) == 1 {
			ep.rd.AnnSSRC[m] = *th.SSRC // no reader goroutine yet
		}
	}

	ep.rd.WindowPreOpen()
	if err := p.Send(p.Request(base.Play, url, base.Header{"Session": base.HeaderValue{session}}, nil)); err != nil {
		ep.rd.WindowAbort()
		p.Close()
		if isTimeout(err) {
			run.Inconclusive("plain-profile peer: PLAY did not complete within the watchdog")
			return nil
		}
		run.Fatal("%s: plain-profile peer: PLAY: %v", sr.sc.Name, err)
	}
	played := make(chan error, 1)
	go ep.plain.readLoop(ep, played)
	select {
	case err := <-played:
		if err != nil {
			run.Fatal("%s: plain-profile peer: PLAY: %v", sr.sc.Name, err)
		}
	case <-time.After(plainStepTimeout):
		run.Inconclusive("plain-profile peer: no response to PLAY within the watchdog")
		ep.closing.Store(true)
		p.Close()
		return nil
	}
	run.Count("mixed:plain-profile-peers-playing", 1)
	ep.appAt = sr.appCtr.Load()
	ep.playing.Store(true)
	sr.emu.Lock()
	sr.eps = append(sr.eps, ep)
	sr.emu.Unlock()
	return ep
}

// readLoop reads everything the server sends after PLAY was written: the PLAY response (the
// window of the delivery oracle opens when it arrives; the server starts the writer of a TCP
// session after the response) and then interleaved frames until the connection ends.
func (pp *plainPeer) readLoop(ep *endpoint, played chan<- error) {
	first := true
	for {
		// no deadline in practice (a deadline in the middle of a frame would corrupt the stream);
		// closing the connection ends the loop
		what, err := pp.p.ReadAny(6 * time.Hour)
		if err != nil {
			if first {
				played <- err
				return
			}
			if !ep.closing.Load() {
				ep.rd.WindowClose("died")
				pp.dead.Store(err.Error())
			}
			return
		}
		switch v := what.(type) {
		case *base.Response:
			if !first {
				continue
			}
			first = false
			if v.StatusCode != base.StatusOK {
				played <- fmt.Errorf("answered with %d %s", int(v.StatusCode), v.StatusMessage)
				return
			}
			ep.rd.WindowOpen()
			played <- nil
		case *base.InterleavedFrame:
			pp.frames.Add(1)
			var perr error
			if v.Channel%2 == 0 {
				pkt := &rtp.Packet{}
				if perr = pkt.Unmarshal(v.Payload); perr == nil {
					ep.onRTP(v.Channel/2, pkt.PayloadType, pkt)
				}
			} else {
				var pkts []rtcp.Packet
				if pkts, perr = rtcp.Unmarshal(v.Payload); perr == nil {
					for _, rp := range pkts {
						ep.onRTCP(rp)
					}
				}
			}
			if perr != nil && pp.bad.Add(1) == 1 {
				h := v.Payload
				if len(h) > 32 {
					h = h[:32]
				}
				pp.bad1.Store(fmt.Sprintf("channel %d, %d bytes %x...: %v", v.Channel, len(v.Payload), h, perr))
			}
		}
	}
}
