// C01: end-to-end media delivery preserves packets, order and identity.
//
// Real servers, publishers and reading clients stream self-describing packets over every
// transport; every write and every delivery is stamped with one logical clock; an offline
// checker (rig.Check) decides identity, attribution, order, at-most-once, completeness on
// TCP-based transports (contiguous run, holes only with a queue-full signal) and SSRC agreement.
// The Go race detector and injected yields widen and watch the schedules.
package main

import (
	"fmt"
	"math/rand"
	"os"
	"runtime"
	"strings"
	"sync"
	"sync/atomic"
	"time"

	"github.com/bluenviron/gortsplib/v5"
	"github.com/bluenviron/gortsplib/v5/pkg/base"
	"github.com/bluenviron/gortsplib/v5/pkg/description"
	"github.com/bluenviron/gortsplib/v5/pkg/format"
	"github.com/pion/rtp"

	"verif/lib/rig"
	"verif/lib/vlib"
)

type scenario struct {
	Name      string `json:"name"`
	Transport string `json:"transport"` // udp | mcast | tcp | http | ws
	TLS       bool   `json:"tls"`
	Topology  string `json:"topology"` // A: server stream -> readers ; B: publisher -> server -> readers
	PubProto  string `json:"pub_proto,omitempty"`
	Formats   []int  `json:"formats_per_media"`
	Readers   int    `json:"readers"`
	Packets   int    `json:"packets_per_flow"`
	Churn     int    `json:"churn_events"`
	SmallQ    bool   `json:"small_queue"` // WriteQueueSize 8 + slow readers: exercise the signalled-loss path
	Seed      int64  `json:"seed"`
	YieldPm   int    `json:"yield_permil"`
}

var (
	run   *vlib.Run
	evals atomic.Int64
)

// generous I/O timeouts: a saturated machine must not end sessions (a real deadlock still shows
// as a drain that never completes)
const ioTimeout = 60 * time.Second

func (s scenario) clientOpts(name string, slow time.Duration) rig.ClientOpts {
	o := rig.ClientOpts{Name: name, SlowCallback: slow, HeldEvery: 7, ReadTimeout: ioTimeout, WriteTimeout: ioTimeout}
	switch s.Transport {
	case "udp", "mcast", "tcp":
		o.Proto = s.Transport
	case "http":
		o.Proto = "tcp"
		o.Tunnel = gortsplib.TunnelHTTP
	case "ws":
		o.Proto = "tcp"
		o.Tunnel = gortsplib.TunnelWebSocket
	}
	return o
}

type readerCtl struct {
	pc      *rig.PlayClient
	name    string
	playing bool
	closed  bool
	slow    bool
}

// sessionTags resolves OnStreamWriteError(session) to the reader that owns the session.
type sessionTags struct {
	mu      sync.Mutex
	connTag map[*gortsplib.ServerConn]string
	sessTag map[*gortsplib.ServerSession]string
	readers map[string]*rig.Reader
	qfull   map[string]int
	closes  []string // errors of the last connection / session closes (diagnostics)

	unattributed int // stream write errors of sessions that no reader owns
}

func (st *sessionTags) onEvent(e rig.Event) {
	st.mu.Lock()
	defer st.mu.Unlock()
	switch e.Kind {
	case "conn-close", "session-close":
		if len(st.closes) < 40 {
			st.closes = append(st.closes, e.Kind+": "+e.Err)
		}
	case "request":
		if e.Tag != "" && e.Conn != nil {
			st.connTag[e.Conn] = e.Tag
		}
	case "setup", "play":
		if e.Sess != nil && e.Conn != nil {
			if t, ok := st.connTag[e.Conn]; ok {
				st.sessTag[e.Sess] = t
			}
		}
	case "stream-write-error":
		if t, ok := st.sessTag[e.Sess]; ok {
			st.qfull[t]++
			if rd := st.readers[t]; rd != nil && strings.Contains(e.Err, "queue is full") {
				rd.QueueFull()
			}
		} else {
			st.unattributed++
		}
	}
}

// snapshot describes, for diagnostics only, the server sessions that belong to a reader.
func (st *sessionTags) snapshot(tag string) []map[string]any {
	st.mu.Lock()
	var ss []*gortsplib.ServerSession
	for s, t := range st.sessTag {
		if t == tag {
			ss = append(ss, s)
		}
	}
	st.mu.Unlock()
	var out []map[string]any
	for _, s := range ss {
		m := map[string]any{"state": s.State().String()}
		if x := s.Stats(); x != nil {
			m["outbound_rtp_packets"], m["outbound_bytes"] = x.OutboundRTPPackets, x.OutboundBytes
		}
		out = append(out, m)
	}
	return out
}

func runScenario(sc scenario) {
	evals.Add(1)
	canary := rig.StartCanary()
	defer canary.Stop()
	scStart := time.Now()
	r := rand.New(rand.NewSource(sc.Seed))
	desc := rig.MakeDesc(sc.Formats)
	tags := &sessionTags{connTag: map[*gortsplib.ServerConn]string{}, sessTag: map[*gortsplib.ServerSession]string{},
		readers: map[string]*rig.Reader{}, qfull: map[string]int{}}

	opts := rig.ServerOpts{
		UDP: true, Multicast: sc.Transport == "mcast", TLS: sc.TLS, HandlerSet: "full", NoLog: true,
		OnEvent: tags.onEvent, Desc: desc, ReadTimeout: ioTimeout, WriteTimeout: ioTimeout,
	}
	if sc.SmallQ {
		opts.WriteQueueSize = 8
	}
	var refusePause atomic.Bool
	var (
		t1, t2   *rig.Traffic // hop 1 (publisher -> server), hop 2 / topology A (server stream -> readers)
		ingest   *rig.Reader
		pubMu    sync.Mutex
		pubSt    *gortsplib.ServerStream
		pubMedia []*description.Media
	)
	maxPayload := 1300
	// arbitrary sequence numbers only on reliable transports without SRTP (SRTP derives its
	// packet index from consecutive sequence numbers by design, RFC 3711)
	t2 = rig.NewTraffic(2, rig.FlowPairs(desc), r, sc.Transport != "udp" && sc.Transport != "mcast" && !sc.TLS && sc.PubProto != "udp")
	// packets reach the configured maximum packet size (1472 by default, minus the 10 bytes of
	// SRTP overhead on secure sessions) exactly
	for _, f := range t2.Flows {
		f.MaxPacket = 1472
		if sc.TLS {
			f.MaxPacket -= 10
		}
	}
	streamPath := "/stream"
	var pub *rig.PubClient
	if sc.Topology == "B" {
		opts.NoStream = true
		streamPath = "/pub"
		t1 = t2 // same payload identities on both hops; t2 holds the forward log
		t2 = &rig.Traffic{Run: t1.Run}
		for _, f := range t1.Flows {
			t2.Flows = append(t2.Flows, &rig.Flow{Run: f.Run, Dir: f.Dir, Media: f.Media, PT: f.PT})
		}
		fwd := t2
		ingest = rig.NewReader("server-ingest", sc.PubProto != "udp", 5)
		if sc.PubProto == "http" || sc.PubProto == "ws" {
			// a publisher behind a tunnel: a short idle timeout makes the server announce a session
			// timeout of 1 s, so the client's keep-alives (written by its main routine) keep crossing
			// the frames written by its writer routine on the same tunnel
			opts.IdleTimeout = 6 * time.Second
		}
		// handler overrides are installed before the server starts
		opts.PreStart = func(ts *rig.TestServer) {
			ts.Core.Pause = func(_ *gortsplib.ServerHandlerOnPauseCtx) (*base.Response, error) {
				if refusePause.Load() {
					return &base.Response{StatusCode: base.StatusMethodNotValidInThisState}, nil
				}
				return &base.Response{StatusCode: base.StatusOK}, nil
			}
			ts.Core.Announce = func(ctx *gortsplib.ServerHandlerOnAnnounceCtx) (*base.Response, error) {
				st := &gortsplib.ServerStream{Server: ts.S, Desc: ctx.Description}
				if err := st.Initialize(); err != nil {
					return &base.Response{StatusCode: base.StatusBadRequest}, err
				}
				pubMu.Lock()
				pubSt = st
				pubMedia = ctx.Description.Medias
				pubMu.Unlock()
				ts.Publish("pub", st)
				return &base.Response{StatusCode: base.StatusOK}, nil
			}
			ts.Core.OnRecordPacket = func(_ *gortsplib.ServerSession, m *description.Media, f format.Format, pkt *rtp.Packet) {
				pubMu.Lock()
				st := pubSt
				medias := pubMedia
				pubMu.Unlock()
				mi := -1
				for i, mm := range medias {
					if mm == m {
						mi = i
					}
				}
				ingest.OnPacket(mi, f.PayloadType(), pkt)
				if fl := fwd.Flow(mi, f.PayloadType()); fl != nil && st != nil {
					if idx := fl.Forward(pkt); idx >= 0 {
						err := st.WritePacketRTP(m, pkt)
						fl.Done(idx, err)
					}
				}
			}
		}
	}
	ts, err := rig.StartServer(opts)
	if err != nil {
		run.Fatal("scenario %s: server: %v", sc.Name, err)
	}
	wit := func(extra map[string]any) map[string]any {
		m := map[string]any{"scenario": sc}
		for k, v := range extra {
			m[k] = v
		}
		return m
	}
	fail := func(key, what string, extra map[string]any) {
		run.Violation(sc.Transport+"/"+key, fmt.Sprintf("[%s] %s", sc.Name, what), wit(extra))
	}

	if sc.Topology == "B" {
		po := rig.ClientOpts{Name: "publisher", Proto: sc.PubProto, Path: "/pub", ReadTimeout: ioTimeout, WriteTimeout: ioTimeout}
		switch sc.PubProto {
		case "http":
			po.Proto, po.Tunnel = "tcp", gortsplib.TunnelHTTP
		case "ws":
			po.Proto, po.Tunnel = "tcp", gortsplib.TunnelWebSocket
		}
		pub, err = rig.StartPublisher(ts, desc, po)
		if err != nil {
			ts.Close()
			fail("publisher-start-failed", err.Error(), nil)
			return
		}
		// a PAUSE that the application refuses: the publisher stays in RECORD and whatever it writes
		// afterwards must still arrive (nothing is written while the request is in flight)
		refusePause.Store(true)
		if _, err := pub.C.Pause(); err == nil {
			fail("publisher-pause-not-refused", "the refused PAUSE of the publisher returned no error", nil)
		}
		refusePause.Store(false)
		run.Count("publisher-pauses-refused-before-load", 1)
		ingest.WindowOpen()
	}

	write := func(f *rig.Flow) func(*rtp.Packet) error {
		if sc.Topology == "B" {
			m := pub.Desc.Medias[f.Media]
			return func(p *rtp.Packet) error {
				err := pub.C.WritePacketRTP(m, p)
				if err != nil && strings.Contains(err.Error(), "queue is full") {
					ingest.QueueFull()
				}
				return err
			}
		}
		m := desc.Medias[f.Media]
		return func(p *rtp.Packet) error { return ts.Stream.WritePacketRTP(m, p) }
	}
	src := t2
	if sc.Topology == "B" {
		src = t1
	}

	// readers
	var rmu sync.Mutex
	var readers []*readerCtl
	newReader := func(i int) *readerCtl {
		slow := sc.SmallQ && i%2 == 1
		var sl time.Duration
		if slow {
			sl = 300 * time.Microsecond
		}
		o := sc.clientOpts(fmt.Sprintf("%s-r%d", sc.Name, i), sl)
		o.Path = streamPath
		pc, err := rig.NewPlayClient(ts, o)
		if err != nil {
			run.Fatal("client: %v", err)
		}
		rc := &readerCtl{pc: pc, name: o.Name, slow: slow}
		tags.mu.Lock()
		tags.readers["verif:"+o.Name] = pc.Rd
		tags.mu.Unlock()
		if err := pc.Start(); err != nil {
			tags.mu.Lock()
			cl := append([]string(nil), tags.closes...)
			tags.mu.Unlock()
			fail("reader-start-failed", fmt.Sprintf("reader %d could not start: %v", i, err), map[string]any{"server_closes": cl})
			rc.closed = true
			return rc
		}
		rc.playing = true
		return rc
	}

	// writers: one goroutine per flow
	stop := make(chan struct{})
	var wwg sync.WaitGroup
	gap := 200 * time.Microsecond
	if sc.SmallQ {
		gap = 20 * time.Microsecond
	}

	startWriters := func() {
		for i, f := range src.Flows {
			wwg.Add(1)
			go func(i int, f *rig.Flow) {
				defer wwg.Done()
				wr := rand.New(rand.NewSource(sc.Seed*1000 + int64(i)))
				rig.WriteLoop(f, wr, sc.Packets, maxPayload, gap, write(f), stop)
			}(i, f)
		}
	}

	// SRTP: a reader that joins (SETUP carries a snapshot of the roll-over counters) while a
	// flow is about to wrap its sequence number cannot synchronise - a limitation of the
	// MIKEY / RFC 3711 signalling, examined by C17, not a delivery defect. In secure scenarios
	// all flows wrap close to packet 400 and readers do not join shortly before that point.
	if sc.TLS {
		for i, f := range src.Flows {
			f.SetSeq(uint16(65535 - 400 - 5*i))
		}
	}
	joinSafe := func() bool {
		if !sc.TLS {
			return true
		}
		for _, f := range src.Flows {
			if d := f.ToWrap(); d >= 0 && d <= 450 {
				return false
			}
		}
		return true
	}

	// first readers join before the load starts, the others while it runs (churn)
	initial := (sc.Readers + 1) / 2
	for i := 0; i < initial; i++ {
		readers = append(readers, newReader(i))
	}
	// one bystander sets up only the last media of a multi-media stream: packets of the other
	// medias are not for it, and its presence must not cost the other readers anything. Its own
	// deliveries are not checked (it is not drained either).
	var bystander *rig.PlayClient
	if len(sc.Formats) >= 2 && sc.Transport != "mcast" {
		o := sc.clientOpts(sc.Name+"-partial", 0)
		o.Path = streamPath
		o.OnlyMedias = []int{len(sc.Formats) - 1}
		if pc, err := rig.NewPlayClient(ts, o); err == nil {
			if err := pc.Start(); err == nil {
				bystander = pc
				run.Count("partial-readers-alongside", 1)
			}
		}
	}
	defer func() {
		if bystander != nil {
			bystander.Close()
		}
	}()
	// interleaved TCP: one more reader is a raw peer that keeps sending in-session requests while
	// the media flows (responses and frames share its connection)
	var chatty *chattyReader
	if sc.Transport == "tcp" && !sc.SmallQ && !sc.TLS {
		name := sc.Name + "-chatty"
		cr, err := startChatty(ts, sc, desc, streamPath, name)
		if err != nil {
			fail("reader-start-failed", "chatty raw reader could not start: "+err.Error(), nil)
		} else {
			chatty = cr
			tags.mu.Lock()
			tags.readers["verif:"+name] = cr.Rd
			tags.mu.Unlock()
		}
	}
	startWriters()
	nextReader := initial
	churnDone := make(chan struct{})
	go func() {
		defer close(churnDone)
		cr := rand.New(rand.NewSource(sc.Seed + 77))
		for ev := 0; ev < sc.Churn; ev++ {
			time.Sleep(time.Duration(2+cr.Intn(12)) * time.Millisecond)
			rmu.Lock()
			switch k := cr.Intn(4); {
			case k == 0 && nextReader < sc.Readers && joinSafe():
				i := nextReader
				nextReader++
				rmu.Unlock()
				rc := newReader(i)
				rmu.Lock()
				readers = append(readers, rc)
				run.Count("churn-joins", 1)
			case k == 1:
				if rc := readers[cr.Intn(len(readers))]; rc.playing && !rc.closed && sc.Transport != "mcast" {
					if err := rc.pc.Pause(); err == nil {
						rc.playing = false
						run.Count("churn-pauses", 1)
					}
				}
			case k == 2:
				if rc := readers[cr.Intn(len(readers))]; !rc.playing && !rc.closed {
					if err := rc.pc.Resume(); err == nil {
						rc.playing = true
						run.Count("churn-resumes", 1)
					}
				}
			case k == 3 && len(readers) > 1:
				if rc := readers[cr.Intn(len(readers))]; !rc.closed && cr.Intn(2) == 0 {
					rc.pc.Close()
					rc.closed = true
					rc.playing = false
					run.Count("churn-leaves", 1)
				}
			}
			rmu.Unlock()
		}
	}()
	var diagStop chan struct{}
	if os.Getenv("VERIF_C01_DIAG") != "" && ingest != nil {
		// development aid: dump all goroutines when the ingest makes no progress for 5 s
		diagStop = make(chan struct{})
		go func() {
			last, lastT := ingest.Delivered(), time.Now()
			var hist []string
			for {
				select {
				case <-diagStop:
					return
				case <-time.After(200 * time.Millisecond):
				}
				hist = append(hist, fmt.Sprintf("%s ingest=%d", time.Now().Format("15:04:05.000"), ingest.Delivered()))
				if pub != nil && pub.Died() != nil {
					buf := make([]byte, 8<<20)
					buf = buf[:runtime.Stack(buf, true)]
					_ = os.WriteFile(fmt.Sprintf("/tmp/c01_diag_died_%s_%d.txt", sc.Name, time.Now().UnixNano()), append([]byte(strings.Join(hist, "\n")+"\n\n"), buf...), 0o644)
					return
				}
				if n := ingest.Delivered(); n-last > 20 {
					last, lastT = n, time.Now()
				} else if time.Since(lastT) > 3*time.Second {
					buf := make([]byte, 8<<20)
					buf = buf[:runtime.Stack(buf, true)]
					_ = os.WriteFile(fmt.Sprintf("/tmp/c01_diag_%s_%d.txt", sc.Name, time.Now().UnixNano()), buf, 0o644)
					return
				}
			}
		}()
	}
	wwg.Wait()
	if diagStop != nil {
		close(diagStop)
	}
	<-churnDone
	for nextReader < sc.Readers { // late joiners that churn did not start
		readers = append(readers, newReader(nextReader))
		nextReader++
	}

	// drain: sentinels until every reader that is still playing over a reliable transport saw one
	var drainRds []*rig.Reader
	rmu.Lock()
	for _, rc := range readers {
		if err := rc.pc.Died(); err != nil && !rc.closed {
			run.Count("readers-ended-by-error", 1)
			run.Count("reader-end-error:"+vlib.Trunc(err.Error(), 60), 1)
			continue
		}
		if rc.playing && !rc.closed && rc.pc.Rd.Reliable {
			drainRds = append(drainRds, rc.pc.Rd)
		}
	}
	rmu.Unlock()
	if chatty != nil {
		if err := chatty.died(); err != nil {
			tags.mu.Lock()
			cl := append([]string(nil), tags.closes...)
			tags.mu.Unlock()
			timedOut := false
			for _, c := range cl {
				if strings.Contains(c, "timeout") || strings.Contains(c, "deadline") {
					timedOut = true
				}
			}
			if timedOut || canary.WorstSince(scStart) > 500*time.Millisecond {
				// the server gave up writing to a peer that did not read fast enough (its
				// WriteTimeout), or the machine starved this process: not a verdict on the stream
				run.Inconclusive("chatty-reader-ended-by-server-timeout-or-starvation")
			} else {
				fail("chatty-reader/connection-ended", fmt.Sprintf("the raw reader's connection ended during the load: %v (%d requests sent, %d answered)", err, chatty.sent.Load(), chatty.answered.Load()),
					map[string]any{"server_closes": cl})
			}
		} else {
			drainRds = append(drainRds, chatty.Rd)
		}
	}
	pubDied := false
	if pub != nil {
		if err := pub.Died(); err != nil {
			// a publisher whose session ended cannot feed anybody: no drain, tails are free
			pubDied = true
			run.Count("publishers-ended-by-error", 1)
			run.Count("publisher-end-error:"+vlib.Trunc(err.Error(), 80), 1)
			ingest.WindowClose("died")
			drainRds = nil
			tags.mu.Lock()
			cl := append([]string(nil), tags.closes...)
			tags.mu.Unlock()
			if strings.Contains(err.Error(), "timeout") || strings.Contains(err.Error(), "timed out") {
				run.Inconclusive("publisher-io-timeout")
			} else {
				fail("publisher-ended-by-error", fmt.Sprintf("the publishing client's session ended during the load: %v", err), map[string]any{"server_closes": cl})
			}
		}
	}
	if ingest != nil && ingest.Reliable && !pubDied {
		// hop 1 is drained through the same sentinels
		drainRds = append(drainRds, ingest)
	}
	undrained := map[*rig.Reader]bool{}
	if len(drainRds) > 0 {
		for i, f := range src.Flows {
			dr := rand.New(rand.NewSource(sc.Seed*7 + int64(i)))
			first := f.Written()
			if sc.Topology == "B" {
				// before the first sentinel is written: sentinels still on their way through hop 1
				// when the drain completes are forwarded later and must not count as load
				t2.Flow(f.Media, f.PT).MarkSentinelFrom(first)
			}
			drainStart := time.Now()
			stuck, slow, rounds := rig.DrainProgress(f, dr, 200, write(f), drainRds, 3000, 2*time.Millisecond, 12)
			run.Max("drain-rounds-needed", int64(rounds))
			if rounds > 1 {
				run.Count("drains-that-needed-more-than-one-round", 1)
			}
			for _, rd := range slow {
				// still working through a backlog after 12 rounds: no verdict, and no tail demanded
				run.Inconclusive("drain-still-progressing-after-12-rounds")
				undrained[rd] = true
			}
			if len(stuck) > 0 && canary.WorstSince(drainStart) > 500*time.Millisecond {
				// the machine did not schedule a 5 ms timer for more than half a second during the
				// drain: "no delivery during a whole round" says nothing
				run.Inconclusive("drain-without-progress-on-a-starved-machine")
				for _, rd := range stuck {
					undrained[rd] = true
				}
				stuck = nil
			}
			for _, rd := range stuck {
				fail("missing-packets/drain-never-completed",
					fmt.Sprintf("reader %s received nothing at all while %d sentinel packets were written to media %d format %d after the load stopped (%d rounds; no sentinel ever arrived)", rd.Name, 3000, f.Media, f.PT, rounds),
					map[string]any{"reader": rd.Name, "rounds": rounds, "server_sessions": tags.snapshot("verif:" + rd.Name)})
			}
		}
		for _, rd := range drainRds {
			if undrained[rd] {
				rd.WindowClose("close") // not drained: what is still on its way is not demanded
			} else {
				rd.WindowClose("drain")
			}
		}
	}

	// diagnostics for the offline check (taken while everything is still up; not part of any verdict)
	diag := map[string]map[string]any{}
	rmu.Lock()
	for _, rc := range readers {
		if rc.closed || rc.pc.C == nil {
			continue
		}
		d := map[string]any{"server_sessions": tags.snapshot("verif:" + rc.name), "playing": rc.playing}
		if err := rc.pc.Died(); err != nil {
			d["client_error"] = err.Error()
		} else if x := rc.pc.C.Stats(); x != nil {
			d["client_inbound_rtp_packets"], d["client_inbound_bytes"] = x.Session.InboundRTPPackets, x.Session.InboundBytes
		}
		d["client_packets_lost_reported"], d["client_decode_errors"] = rc.pc.LostReported.Load(), rc.pc.DecodeErrs.Load()
		if v := rc.pc.FirstDecodeErr.Load(); v != nil {
			d["client_first_decode_error"] = v
		}
		diag[rc.name] = d
	}
	rmu.Unlock()
	tags.mu.Lock()
	run.Count("stream-write-errors-of-unowned-sessions", int64(tags.unattributed))
	tags.mu.Unlock()

	// shut down
	rmu.Lock()
	for _, rc := range readers {
		if !rc.closed {
			rc.pc.Close()
			rc.closed = true
		}
	}
	rmu.Unlock()
	if chatty != nil {
		chatty.Close()
		run.Count("chatty-requests-sent", chatty.sent.Load())
		run.Count("chatty-requests-answered", chatty.answered.Load())
		run.Count("chatty-plays-refused-by-handler", chatty.refused.Load())
		if v := chatty.mismatch.Load(); v != nil {
			fail("chatty-reader/stream-desynchronised", "raw reader sending in-session requests during PLAY: "+v.(string), nil)
		}
		fs, st := rig.Check(t2, chatty.Rd)
		account(sc, st, chatty.Rd)
		for _, f := range fs {
			fail(f.Key, fmt.Sprintf("reader %s: %s", chatty.name, f.What), f.Detail)
		}
	}
	if bystander != nil {
		bystander.Close()
	}
	if pub != nil {
		pub.C.Close()
	}
	ts.Close()

	// offline check
	for _, rc := range readers {
		if rc.pc.Desc == nil {
			continue
		}
		fs, st := rig.Check(t2, rc.pc.Rd)
		account(sc, st, rc.pc.Rd)
		for _, f := range fs {
			if d := diag[rc.name]; d != nil && f.Detail != nil {
				f.Detail["diag"] = d
			}
			fail(f.Key, fmt.Sprintf("reader %s: %s", rc.name, f.What), f.Detail)
		}
	}
	if ingest != nil {
		fs, st := rig.Check(t1, ingest)
		account(sc, st, ingest)
		for _, f := range fs {
			fail("ingest/"+f.Key, "server ingest: "+f.What, f.Detail)
		}
	}
	var written int64
	for _, f := range src.Flows {
		written += int64(f.Written())
	}
	run.Count("packets-written:"+sc.Transport, written)
	run.Count("scenarios:"+sc.Transport+map[bool]string{true: "+tls", false: ""}[sc.TLS]+"/"+sc.Topology, 1)
	tags.mu.Lock()
	for _, n := range tags.qfull {
		run.Count("queue-full-signals", int64(n))
	}
	tags.mu.Unlock()
	run.Distinct(fmt.Sprintf("sc|%s|%v|%s|%v|%d|%v", sc.Transport, sc.TLS, sc.Topology, sc.Formats, sc.Readers, sc.SmallQ))
	if run.WantSample() {
		run.Sample(map[string]any{"scenario": sc, "packets_written": written})
	}
}

func account(sc scenario, st rig.CheckStats, rd *rig.Reader) {
	run.Count("deliveries:"+sc.Transport, int64(st.Deliveries))
	run.Count("must-deliver-checked", int64(st.MustDeliver))
	run.Count("holes-covered-by-signals", int64(st.Holes))
	run.Count("held-packets-rehashed", int64(st.Held))
	run.Count("ssrc-comparisons", int64(st.SSRCCompared))
	run.Count("reader-windows", int64(st.Windows))
	run.Count("readers-checked", 1)
	if st.Deliveries > 0 {
		run.Count("readers-with-deliveries", 1)
	}
}

func scenarios() []scenario {
	var out []scenario
	r := run.Rand("scenarios", 0)
	pk := run.Pick(1500, 20000)
	add := func(tr string, tls bool, topo, pubProto string, smallQ bool) {
		nm := 1 + r.Intn(3)
		fm := make([]int, nm)
		for i := range fm {
			fm[i] = 1 + r.Intn(2)
		}
		sc := scenario{
			Transport: tr, TLS: tls, Topology: topo, PubProto: pubProto, Formats: fm,
			Readers: run.Pick(2+r.Intn(4), 4+r.Intn(10)), Packets: pk, Churn: run.Pick(8, 40), SmallQ: smallQ,
			Seed: r.Int63(), YieldPm: []int{0, 20, 50}[r.Intn(3)],
		}
		sc.Name = fmt.Sprintf("%s%s-%s%s-%d", tr, map[bool]string{true: "+tls", false: ""}[tls], topo, map[bool]string{true: "-smallq", false: ""}[smallQ], len(out))
		out = append(out, sc)
	}
	for _, tr := range []string{"tcp", "udp", "http", "ws", "mcast"} {
		add(tr, false, "A", "", false)
	}
	add("tcp", false, "A", "", true) // signalled loss path
	add("tcp", false, "B", "tcp", false)
	add("udp", false, "B", "udp", false)
	add("tcp", true, "A", "", false)
	add("udp", true, "A", "", false)
	add("tcp", true, "B", "tcp", false)
	add("http", false, "B", "tcp", false)
	add("ws", true, "A", "", false)
	add("http", true, "A", "", false)
	add("ws", false, "B", "tcp", false)
	add("udp", true, "B", "udp", false)
	add("mcast", false, "B", "tcp", false)
	add("http", false, "A", "", true)
	// publishers behind the HTTP / WebSocket tunnel, long enough for a few keep-alives
	add("tcp", false, "B", "http", false)
	out[len(out)-1].Packets = max(pk, 9000)
	add("tcp", false, "B", "ws", false)
	out[len(out)-1].Packets = max(pk, 9000)
	if !run.Quick() {
		for _, tr := range []string{"tcp", "udp", "http", "ws", "mcast"} {
			for _, tls := range []bool{false, true} {
				if tls && (tr == "mcast") {
					continue
				}
				add(tr, tls, "A", "", false)
				add(tr, tls, "B", map[bool]string{true: "udp", false: "tcp"}[tr == "udp"], false)
			}
		}
		add("ws", false, "A", "", true)
		add("http", false, "A", "", true)
		add("tcp", true, "A", "", true)
	}
	return out
}

func main() {
	run = vlib.Start("C01", "exploration")
	y := rig.InstallYielder(run.Seed, 0, 300)
	defer y.Uninstall()

	var scs []scenario
	if run.Replay != "" && strings.HasPrefix(run.ReplayKey(), "tunnel-crossing/") {
		// replay of a tunnel-crossing witness: that case only, a few times
		for i := 0; i < 3; i++ {
			crossingCase("http", gortsplib.TunnelHTTP, 3)
		}
	} else if run.Replay != "" {
		var w struct {
			Scenario scenario `json:"scenario"`
		}
		if err := run.LoadReplay(&w); err != nil {
			run.Fatal("replay: %v", err)
		}
		for i := 0; i < 5; i++ {
			scs = append(scs, w.Scenario)
		}
	} else {
		scs = scenarios()
	}
	// scenarios run a few at a time (each one is already concurrent inside)
	par := 3
	sem := make(chan struct{}, par)
	var wg sync.WaitGroup
	orders := map[uint64]bool{}
	var omu sync.Mutex
	for _, sc := range scs {
		wg.Add(1)
		sem <- struct{}{}
		go func(sc scenario) {
			defer wg.Done()
			defer func() { <-sem }()
			y.Set(sc.YieldPm, 300)
			runScenario(sc)
			omu.Lock()
			orders[y.OrderHash()] = true
			omu.Unlock()
		}(sc)
	}
	wg.Wait()
	if run.Replay == "" {
		// after the scenarios, on a quiet process: publishers whose keep-alives cross their frames
		y.Set(0, 300)
		n := int64(run.Pick(3, 12))
		// (the WebSocket variant is not run yet: see DESIGN section 6, open lead)
		crossingCase("http", gortsplib.TunnelHTTP, n)
	}
	run.Extra("yield_points_hit", y.Hits())
	run.Extra("distinct_yield_orderings", len(orders))
	run.ReportRaces()
	run.Assume("completeness on reliable transports is checked as a contiguous run per play window: head = first packet whose write call was stamped after Play() returned, holes <= write-queue-full signals for that reader, tail free when the reader itself paused / closed, complete when the stream was drained with sentinel packets")
	run.Assume("UDP / multicast: in-order subsequence, at most once")
	run.Finish(evals.Load(), "scenarios = transport {tcp, udp, http tunnel, websocket tunnel, multicast} x {plain, TLS+SRTP} x topology {A: server stream -> readers, B: publisher -> server session -> server stream -> readers} with PRNG descriptions (1..3 medias x 1..2 formats), reader churn (join / pause / resume / leave), optional small write queue with slow readers; distinct_nontrivial = distinct (transport, tls, topology, formats, readers, small-queue) scenarios that ran")
}
