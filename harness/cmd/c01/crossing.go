package main

// Tunnel crossing: a reader behind the HTTP (or WebSocket) tunnel that sends RTCP feedback (picture
// loss indications, through the client's writer routine) as fast as it can while its keep-alives
// (main routine - the server announces a session timeout of 1 s, so one per second) cross them on
// the same tunnel. A recording client over TCP sends no keep-alives, so the crossing exists for
// readers only. The producer does nothing but write, so that no lock of the harness orders the two
// routines under the race detector. Every indication carries a counter in its media SSRC; the
// server session's RTCP callback checks the counters with plain variables (one reader routine per
// session) and atomics only. The case ends by count - after the server has seen `wantKA`
// keep-alives in the play state - never by a deadline; the generous wall-clock cap only makes it
// inconclusive.

import (
	"fmt"
	"runtime"
	"strings"
	"sync/atomic"
	"time"

	"github.com/bluenviron/gortsplib/v5"
	"github.com/bluenviron/gortsplib/v5/pkg/base"
	"github.com/bluenviron/gortsplib/v5/pkg/description"
	"github.com/pion/rtcp"

	"verif/lib/rig"
)

func crossingCase(name string, tunnel gortsplib.Tunnel, wantKA int64) {
	var playing atomic.Bool
	var keepAlives atomic.Int64
	var received, bad atomic.Int64
	var firstBad atomic.Value
	next := uint32(0) // touched by the session's reader routine only

	ts, err := rig.StartServer(rig.ServerOpts{
		NoLog:       true,
		IdleTimeout: 6 * time.Second,
		OnEvent: func(e rig.Event) {
			if e.Kind == "request" && playing.Load() &&
				(e.Method == base.Options || e.Method == base.GetParameter) {
				keepAlives.Add(1)
			}
		},
		PreStart: func(ts *rig.TestServer) {
			ts.Core.Play = func(ctx *gortsplib.ServerHandlerOnPlayCtx) (*base.Response, error) {
				ctx.Session.OnPacketRTCPAny(func(_ *description.Media, pkt rtcp.Packet) {
					pli, ok := pkt.(*rtcp.PictureLossIndication)
					if !ok || pli.SenderSSRC != 0x5eed {
						return // receiver reports of the client itself
					}
					received.Add(1)
					if pli.MediaSSRC != next {
						if bad.Add(1) == 1 {
							firstBad.Store(fmt.Sprintf("expected indication %d, got %d", next, pli.MediaSSRC))
						}
						if pli.MediaSSRC > next {
							next = pli.MediaSSRC + 1
						}
						return
					}
					next++
				})
				playing.Store(true)
				return &base.Response{StatusCode: base.StatusOK}, nil
			}
		},
	})
	if err != nil {
		run.Inconclusive("tunnel-crossing/" + name + ": server: " + err.Error())
		return
	}
	defer ts.Close()

	pc, err := rig.NewPlayClient(ts, rig.ClientOpts{Name: "cross-" + name, Proto: "tcp", Tunnel: tunnel})
	if err == nil {
		err = pc.Start()
	}
	if err != nil {
		run.Inconclusive("tunnel-crossing/" + name + ": reader: " + err.Error())
		return
	}
	defer pc.Close()
	medi := pc.Desc.Medias[0]

	var written uint32
	var queueFull int64
	start := time.Now()
	wallCap := 60 * time.Second
	for keepAlives.Load() < wantKA && bad.Load() == 0 && pc.Died() == nil && time.Since(start) < wallCap {
		for k := 0; k < 64; k++ {
			werr := pc.C.WritePacketRTCP(medi, &rtcp.PictureLossIndication{SenderSSRC: 0x5eed, MediaSSRC: written})
			if werr != nil {
				queueFull++
				runtime.Gosched()
				continue // the same indication again: the sequence stays gapless
			}
			written++
		}
		runtime.Gosched()
	}
	died := pc.Died()
	run.Count("tunnel_crossing_rtcp_written", int64(written))
	run.Count("tunnel_crossing_rtcp_checked", received.Load())
	run.Count("tunnel_crossing_keepalives_crossed", keepAlives.Load())
	run.Count("tunnel_crossing_queue_full_retries", queueFull)

	witness := map[string]any{"case": name, "written": written, "received": received.Load(),
		"keepalives": keepAlives.Load(), "first_bad": firstBad.Load(), "reader_error": fmt.Sprint(died)}
	switch {
	case bad.Load() > 0:
		run.Violation("tunnel-crossing/"+name+"/frame-garbled-or-missing",
			"an RTCP packet written by a tunnelled reader while its keep-alives cross the frames reached the server out of order or not at all: "+fmt.Sprint(firstBad.Load()), witness)
	case died != nil && keepAlives.Load() > 0 && !strings.Contains(died.Error(), "timed out") && !strings.Contains(died.Error(), "timeout"):
		// the unchanged code never loses the reader here; a garbled tunnel block makes the server
		// drop the connection before any altered packet is delivered
		run.Violation("tunnel-crossing/"+name+"/reader-lost-after-keepalive",
			"a tunnelled reader was disconnected after one of its keep-alives crossed its frames: "+died.Error(), witness)
	case keepAlives.Load() < wantKA:
		run.Inconclusive(fmt.Sprintf("tunnel-crossing/%s: %d of %d keep-alives seen (reader error: %v)", name, keepAlives.Load(), wantKA, died))
	default:
		run.Distinct("tunnel-crossing/" + name)
	}
}
