package main

import (
	"crypto/tls"
	"fmt"
	"sync"
	"sync/atomic"
	"time"

	"github.com/bluenviron/gortsplib/v5/pkg/base"
	"github.com/bluenviron/gortsplib/v5/pkg/description"
	"github.com/bluenviron/gortsplib/v5/pkg/headers"
	"github.com/pion/rtp"

	"verif/lib/rig"
)

// chattyReader is a raw reader over interleaved TCP that keeps sending in-session requests
// (OPTIONS / GET_PARAMETER with its Session id) while the media flows: responses and interleaved
// frames then share the connection at a high rate, written by two different goroutines of the
// server. Its deliveries go through the same rig.Reader / rig.Check as every other reader, and
// every request must get its own response (CSeq echoed, in order).
type chattyReader struct {
	name string
	p    *rig.Peer
	Rd   *rig.Reader
	url  string
	sess string

	wmu       sync.Mutex // serialises writes of the two sender paths (requests are written whole)
	stop      chan struct{}
	done      chan struct{}
	sent      atomic.Int64
	answered  atomic.Int64
	mismatch  atomic.Value // string: first CSeq / status mismatch
	readErr   atomic.Value // error that ended the read loop before stop
	expectMu  sync.Mutex
	expecting []expected // the requests in flight, in order
	refused   atomic.Int64
}

type expected struct {
	cseq   int
	status base.StatusCode
}

func startChatty(ts *rig.TestServer, sc scenario, desc *description.Session, path, name string) (*chattyReader, error) {
	var tcfg *tls.Config
	if sc.TLS {
		tcfg = &tls.Config{InsecureSkipVerify: true}
	}
	p, err := rig.Dial(ts.Addr(), tcfg, "")
	if err != nil {
		return nil, err
	}
	_ = p.NC.SetWriteDeadline(time.Now().Add(ioTimeout))
	p.Tag = "verif:" + name
	cr := &chattyReader{name: name, p: p, Rd: rig.NewReader(name, true, 7), url: ts.URL(path), stop: make(chan struct{}), done: make(chan struct{})}
	fail := func(step string, err error) (*chattyReader, error) {
		p.Close()
		return nil, fmt.Errorf("%s: %v", step, err)
	}
	res, err := p.Do(p.Request(base.Describe, cr.url, base.Header{"Accept": base.HeaderValue{"application/sdp"}}, nil), ioTimeout)
	if err != nil || res.StatusCode != base.StatusOK {
		return fail("DESCRIBE", fmt.Errorf("%v %v", err, res))
	}
	for i := range desc.Medias {
		h := base.Header{"Transport": base.HeaderValue{fmt.Sprintf("RTP/AVP/TCP;unicast;interleaved=%d-%d", 2*i, 2*i+1)}}
		if cr.sess != "" {
			h["Session"] = base.HeaderValue{cr.sess}
		}
		res, err := p.Do(p.Request(base.Setup, fmt.Sprintf("%s/trackID=%d", cr.url, i), h, nil), ioTimeout)
		if err != nil || res.StatusCode != base.StatusOK {
			return fail("SETUP", fmt.Errorf("%v %v", err, res))
		}
		var sx headers.Session
		if sx.Unmarshal(res.Header["Session"]) == nil {
			cr.sess = sx.Session
		}
		var t headers.Transport
		if t.Unmarshal(res.Header["Transport"]) == nil && t.SSRC != nil {
			cr.Rd.AnnounceSSRC(i, *t.SSRC)
		}
	}
	cr.Rd.WindowPreOpen()
	res, err = p.Do(p.Request(base.Play, cr.url, base.Header{"Session": base.HeaderValue{cr.sess}}, nil), ioTimeout)
	if err != nil || res.StatusCode != base.StatusOK {
		cr.Rd.WindowAbort()
		return fail("PLAY", fmt.Errorf("%v %v", err, res))
	}
	// frames that arrived before the PLAY response was read were skipped by Do: they were written
	// before PLAY completed from the reader's point of view, so the window opens here
	cr.Rd.WindowOpen()
	pts := map[int][]uint8{}
	for i, m := range desc.Medias {
		for _, f := range m.Formats {
			pts[i] = append(pts[i], f.PayloadType())
		}
	}
	go cr.readLoop()
	go cr.chatLoop()
	return cr, nil
}

func (cr *chattyReader) readLoop() {
	defer close(cr.done)
	for {
		what, err := cr.p.ReadAny(ioTimeout)
		if err != nil {
			select {
			case <-cr.stop:
			default:
				cr.readErr.Store(err)
				cr.Rd.WindowClose("died")
			}
			return
		}
		switch v := what.(type) {
		case *base.InterleavedFrame:
			if v.Channel%2 != 0 {
				continue // RTCP
			}
			var pkt rtp.Packet
			if err := pkt.Unmarshal(v.Payload); err != nil {
				if cr.mismatch.Load() == nil {
					cr.mismatch.Store(fmt.Sprintf("interleaved frame on channel %d (%d bytes) is not an RTP packet: %v", v.Channel, len(v.Payload), err))
				}
				continue
			}
			cr.Rd.OnPacket(v.Channel/2, pkt.PayloadType, &pkt)
		case *base.Response:
			cr.expectMu.Lock()
			want := expected{cseq: -1}
			if len(cr.expecting) > 0 {
				want = cr.expecting[0]
				cr.expecting = cr.expecting[1:]
			}
			cr.expectMu.Unlock()
			got := ""
			if c := v.Header["CSeq"]; len(c) == 1 {
				got = c[0]
			}
			if (want.cseq < 0 || got != fmt.Sprint(want.cseq) || v.StatusCode != want.status) && cr.mismatch.Load() == nil {
				cr.mismatch.Store(fmt.Sprintf("response with status %d and CSeq %q, the oldest unanswered request has CSeq %d and must be answered %d", v.StatusCode, got, want.cseq, want.status))
			}
			cr.answered.Add(1)
		}
	}
}

func (cr *chattyReader) chatLoop() {
	for k := 0; ; k++ {
		select {
		case <-cr.stop:
			return
		case <-cr.done:
			return
		case <-time.After(150 * time.Microsecond):
		}
		// at most 8 requests in flight
		cr.expectMu.Lock()
		inflight := len(cr.expecting)
		cr.expectMu.Unlock()
		if inflight >= 8 {
			continue
		}
		m := base.Options
		if k%2 == 1 {
			m = base.GetParameter
		}
		h := base.Header{"Session": base.HeaderValue{cr.sess}}
		want := base.StatusOK
		if k%40 == 25 {
			// a PLAY while playing that the application handler refuses (error status, no error):
			// the session keeps playing and its media keeps flowing
			m = base.Play
			h["X-Verif-Refuse"] = base.HeaderValue{"403"}
			want = base.StatusForbidden
			cr.refused.Add(1)
		}
		req := cr.p.Request(m, cr.url, h, nil)
		var cs int
		fmt.Sscan(req.Header["CSeq"][0], &cs)
		cr.expectMu.Lock()
		cr.expecting = append(cr.expecting, expected{cs, want})
		cr.expectMu.Unlock()
		cr.wmu.Lock()
		_ = cr.p.NC.SetWriteDeadline(time.Now().Add(ioTimeout))
		err := cr.p.Send(req)
		cr.wmu.Unlock()
		if err != nil {
			return
		}
		cr.sent.Add(1)
	}
}

// Close stops the chatter and closes the connection (the play window is closed first).
func (cr *chattyReader) Close() {
	cr.Rd.WindowClose("close")
	close(cr.stop)
	cr.p.Close()
	<-cr.done
}

func (cr *chattyReader) died() error {
	if v := cr.readErr.Load(); v != nil {
		return v.(error)
	}
	return nil
}
