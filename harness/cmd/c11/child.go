package main

import (
	"bufio"
	"encoding/json"
	"fmt"
	"math/rand"
	"net"
	"os"
	"strings"
	"sync"
	"time"

	"github.com/bluenviron/gortsplib/v5"
	"github.com/pion/rtp"

	"verif/lib/rig"
)

// The server under attack runs in a child process: a panic or fatal error in any library
// goroutine kills the child only, and the parent - which logged every conversation before
// sending it - names the killer.

type childCfg struct {
	Name       string `json:"name"`
	UDP        bool   `json:"udp"`
	Multicast  bool   `json:"multicast"`
	TLS        bool   `json:"tls"`
	HandlerSet string `json:"handlers"`
	Seed       int64  `json:"seed"`
}

type censusReply struct {
	Goroutines []string `json:"goroutines"`
	ConnOpen   int64    `json:"conn_open"`
	ConnClose  int64    `json:"conn_close"`
	SessOpen   int64    `json:"sess_open"`
	SessClose  int64    `json:"sess_close"`
	UDPRTP     int      `json:"udp_rtp"`
	UDPRTCP    int      `json:"udp_rtcp"`
	Readers    int      `json:"readers"`
	Active     int      `json:"active"`
	McastRd    int      `json:"mcast_readers"`
	Sockets    int      `json:"sockets"`
	Written    int      `json:"written"`
}

const (
	childReadTimeout = 2 * time.Second
	childIdleTimeout = 2 * time.Second
)

type smallBufListener struct{ net.Listener }

func (l smallBufListener) Accept() (net.Conn, error) {
	c, err := l.Listener.Accept()
	if tc, ok := c.(*net.TCPConn); ok && err == nil {
		_ = tc.SetWriteBuffer(8192)
	}
	return c, err
}

func runChild(cfgJSON string) {
	var cfg childCfg
	if err := json.Unmarshal([]byte(cfgJSON), &cfg); err != nil {
		fmt.Println("CHILD-ERROR bad config:", err)
		os.Exit(3)
	}
	desc := rig.MakeDesc([]int{1, 1})
	ts, err := rig.StartServer(rig.ServerOpts{
		UDP: cfg.UDP, Multicast: cfg.Multicast, TLS: cfg.TLS, HandlerSet: cfg.HandlerSet, NoLog: true, Desc: desc,
		ReadTimeout: childReadTimeout, WriteTimeout: childReadTimeout, IdleTimeout: childIdleTimeout,
		CheckStreamPeriod: 200 * time.Millisecond, WriteQueueSize: 64,
		// small kernel send buffers on accepted connections: a peer that stops reading makes the
		// server's writer block after some tens of kilobytes instead of megabytes
		Mutate: func(s *gortsplib.Server) {
			s.Listen = func(network, address string) (net.Listener, error) {
				l, err := net.Listen(network, address)
				if err != nil {
					return nil, err
				}
				return smallBufListener{l}, nil
			}
		},
	})
	if err != nil {
		fmt.Println("CHILD-ERROR start:", err)
		os.Exit(3)
	}
	// a writer streams self-describing packets for the whole life of the child
	stop := make(chan struct{})
	var wg sync.WaitGroup
	tr := rig.NewTraffic(2, rig.FlowPairs(desc), rand.New(rand.NewSource(cfg.Seed)), false)
	for i, f := range tr.Flows {
		wg.Add(1)
		go func(i int, f *rig.Flow) {
			defer wg.Done()
			wr := rand.New(rand.NewSource(cfg.Seed + int64(i) + 1))
			m := desc.Medias[f.Media]
			rig.WriteLoop(f, wr, 1<<30, 400, 500*time.Microsecond, func(p *rtp.Packet) error { return ts.Stream.WritePacketRTP(m, p) }, stop)
		}(i, f)
	}
	udpPort := 0
	if cfg.UDP {
		fmt.Sscanf(ts.S.UDPRTPAddress[strings.LastIndex(ts.S.UDPRTPAddress, ":")+1:], "%d", &udpPort)
	}
	fmt.Printf("READY %s %d %d\n", ts.Opts.ListenIP, ts.Port, udpPort)

	in := bufio.NewScanner(os.Stdin)
	for in.Scan() {
		switch strings.TrimSpace(in.Text()) {
		case "census":
			var rep censusReply
			rep.Goroutines = rig.LibGoroutines()
			rep.ConnOpen, rep.ConnClose = ts.Core.ConnOpen.Load(), ts.Core.ConnClose.Load()
			rep.SessOpen, rep.SessClose = ts.Core.SessOpen.Load(), ts.Core.SessClose.Load()
			rep.UDPRTP, rep.UDPRTCP = ts.S.VerifUDPClients()
			rep.Readers, rep.Active, rep.McastRd = ts.Stream.VerifReaders()
			rep.Sockets = rig.Sockets()
			for _, f := range tr.Flows {
				rep.Written += f.Written()
			}
			b, _ := json.Marshal(rep)
			fmt.Printf("CENSUS %s\n", b)
		case "quit":
			close(stop)
			wg.Wait()
			ts.Close()
			left := rig.WaitLibGoroutines(0, 5*time.Second)
			b, _ := json.Marshal(left)
			fmt.Printf("BYE %s\n", b)
			os.Exit(0)
		}
	}
	// parent went away
	os.Exit(0)
}
