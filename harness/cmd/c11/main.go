// C11: the server survives hostile control connections and cleans up after them.
//
// The server runs in a child process (child.go). The parent derives hostile conversations from
// valid ones by grammar-aware and byte-level mutation (gen.go), logs each one before sending
// it, and monitors: process survival, answer-or-close within the timeouts on every hostile
// connection, a well-behaved library client served correctly all along, and - at quiescent
// points - that goroutines, sessions, UDP registrations, stream reader slots and sockets of the
// child are back to their baseline. The child is built with the race detector as well.
package main

import (
	"bufio"
	"bytes"
	"crypto/tls"
	"encoding/base64"
	"encoding/json"
	"fmt"
	"net"
	"os"
	"os/exec"
	"path/filepath"
	"regexp"
	"sort"
	"strings"
	"sync"
	"sync/atomic"
	"time"

	"github.com/bluenviron/gortsplib/v5/pkg/base"

	"verif/lib/rig"
	"verif/lib/vlib"
)

var (
	run    *vlib.Run
	canary *rig.Canary
	evals  atomic.Int64
)

type child struct {
	cfg     childCfg
	cmd     *exec.Cmd
	stdin   *bufio.Writer
	lines   chan string
	host    string
	port    int
	udpPort int
	errPath string
	dead    chan struct{}
	mu      sync.Mutex
}

func spawnChild(cfg childCfg) (*child, error) {
	b, _ := json.Marshal(cfg)
	cmd := exec.Command(os.Args[0])
	cmd.Env = append(os.Environ(), "VERIF_C11_CHILD="+string(b))
	in, _ := cmd.StdinPipe()
	out, _ := cmd.StdoutPipe()
	errPath := filepath.Join(run.Root, ".logs", fmt.Sprintf("C11.child.%s.%d.stderr", strings.ReplaceAll(cfg.Name, "/", "_"), time.Now().UnixNano()))
	ef, err := os.Create(errPath)
	if err != nil {
		return nil, err
	}
	cmd.Stderr = ef
	if err := cmd.Start(); err != nil {
		return nil, err
	}
	c := &child{cfg: cfg, cmd: cmd, stdin: bufio.NewWriter(in), lines: make(chan string, 16), errPath: errPath, dead: make(chan struct{})}
	go func() {
		sc := bufio.NewScanner(out)
		sc.Buffer(make([]byte, 1<<20), 1<<24)
		for sc.Scan() {
			c.lines <- sc.Text()
		}
		_ = cmd.Wait()
		ef.Close()
		close(c.dead)
	}()
	select {
	case ln := <-c.lines:
		if _, err := fmt.Sscanf(ln, "READY %s %d %d", &c.host, &c.port, &c.udpPort); err != nil {
			return nil, fmt.Errorf("child said %q", ln)
		}
	case <-c.dead:
		return nil, fmt.Errorf("child died at start (see %s)", errPath)
	case <-time.After(60 * time.Second):
		return nil, fmt.Errorf("child did not become ready")
	}
	return c, nil
}

func (c *child) alive() bool {
	select {
	case <-c.dead:
		return false
	default:
		return true
	}
}

func (c *child) census() (*censusReply, bool) {
	c.mu.Lock()
	defer c.mu.Unlock()
	if !c.alive() {
		return nil, false
	}
	fmt.Fprintln(c.stdin, "census")
	c.stdin.Flush()
	select {
	case ln := <-c.lines:
		var rep censusReply
		if !strings.HasPrefix(ln, "CENSUS ") || json.Unmarshal([]byte(ln[7:]), &rep) != nil {
			return nil, false
		}
		return &rep, true
	case <-c.dead:
		return nil, false
	case <-time.After(30 * time.Second):
		return nil, false
	}
}

func (c *child) quit() []string {
	c.mu.Lock()
	defer c.mu.Unlock()
	if !c.alive() {
		return nil
	}
	fmt.Fprintln(c.stdin, "quit")
	c.stdin.Flush()
	var left []string
	select {
	case ln := <-c.lines:
		if strings.HasPrefix(ln, "BYE ") {
			_ = json.Unmarshal([]byte(ln[4:]), &left)
		}
	case <-c.dead:
	case <-time.After(60 * time.Second):
		_ = c.cmd.Process.Kill()
	}
	select {
	case <-c.dead:
	case <-time.After(20 * time.Second):
		_ = c.cmd.Process.Kill()
	}
	return left
}

func (c *child) addr() string { return fmt.Sprintf("%s:%d", c.host, c.port) }

func (c *child) base() string {
	if c.cfg.TLS {
		return "rtsps://" + c.addr()
	}
	return "rtsp://" + c.addr()
}

// ---- executing one conversation ------------------------------------------------------------

var (
	reSession = regexp.MustCompile(`(?i)\r\nSession: *([^;\r\n]+)`)
	reStatus  = regexp.MustCompile(`RTSP/1\.0 (\d{3})`)
)

type outcome struct {
	Sent       int
	Responses  int
	Statuses   map[string]int
	Closed     bool
	LastKind   string
	DialFailed bool
}

type inbound struct {
	mu     sync.Mutex
	buf    []byte
	closed bool
	at     time.Time
}

func render(s step, subst *strings.Replacer, cseq int) []byte {
	switch s.Kind {
	case "raw":
		b, _ := base64.StdEncoding.DecodeString(s.Raw)
		return []byte(subst.Replace(string(b)))
	case "frame":
		pl, _ := base64.StdEncoding.DecodeString(s.Raw)
		return append([]byte{'$', byte(s.Chan), byte(len(pl) >> 8), byte(len(pl))}, pl...)
	case "req":
		var b bytes.Buffer
		fmt.Fprintf(&b, "%s %s %s\r\n", s.Method, subst.Replace(s.URL), s.Proto)
		if !s.NoCSeq {
			cs := fmt.Sprint(cseq)
			if s.CSeq != "" {
				cs = s.CSeq
			}
			fmt.Fprintf(&b, "CSeq: %s\r\n", cs)
		}
		hasCL := false
		for _, h := range s.Header {
			if strings.EqualFold(h[0], "Content-Length") {
				hasCL = true
			}
			fmt.Fprintf(&b, "%s: %s\r\n", h[0], subst.Replace(h[1]))
		}
		if s.Body != "" && !hasCL {
			fmt.Fprintf(&b, "Content-Length: %d\r\n", len(s.Body))
		}
		b.WriteString("\r\n")
		b.WriteString(s.Body)
		return b.Bytes()
	}
	return nil
}

// closeBound is how long after its last byte a silent hostile connection may stay open: idle /
// read timeout of the child (2 s) + the library's fixed 5 s wait of a tunnel GET channel for its
// POST channel + 13 s slack (the child runs under the race detector next to 40 hostile
// connections; a connection that is never closed is also caught by the quiescent census).
const closeBound = childIdleTimeout + 5*time.Second + 13*time.Second

func runConversation(ch *child, cv conversation) (out outcome) {
	out.Statuses = map[string]int{}
	d := net.Dialer{Timeout: 5 * time.Second}
	nc, err := d.Dial("tcp", ch.addr())
	if err != nil {
		out.DialFailed = true
		return
	}
	if ch.cfg.TLS {
		nc = tls.Client(nc, &tls.Config{InsecureSkipVerify: true})
	}
	defer nc.Close()
	in := &inbound{}
	rdDone := make(chan struct{})
	go func() {
		defer close(rdDone)
		buf := make([]byte, 16384)
		for {
			n, err := nc.Read(buf)
			in.mu.Lock()
			if n > 0 && len(in.buf) < 1<<20 {
				in.buf = append(in.buf, buf[:n]...)
			}
			if err != nil {
				in.closed = true
				in.at = time.Now()
				in.mu.Unlock()
				return
			}
			in.mu.Unlock()
		}
	}()
	cport := 40000 + (cv.ID%5000)*4
	sess := ""
	budget := cv.TruncateAt
	cseq := 0
	flip := -1
	lastSend := time.Now()
	var pending []byte
	for si, s := range cv.Steps {
		if s.Kind == "bitflip" {
			flip = s.Chan
			continue
		}
		subst := strings.NewReplacer("{base}", ch.base(), "{sess}", sess, "{cport}", fmt.Sprint(cport), "{cport1}", fmt.Sprint(cport+1),
			"{cport2}", fmt.Sprint(cport+2), "{cport3}", fmt.Sprint(cport+3), "{cookie}", fmt.Sprintf("cookie%d", cv.ID))
		cseq++
		b := render(s, subst, cseq)
		if flip >= 0 && len(b) > 0 {
			b[flip%len(b)] ^= 1 << uint(flip%8)
			flip = -1
		}
		if budget >= 0 {
			if budget == 0 {
				break
			}
			if len(b) > budget {
				b = b[:budget]
			}
			budget -= len(b)
		}
		in.mu.Lock()
		closed := in.closed
		before := len(reStatus.FindAllIndex(in.buf, -1))
		in.mu.Unlock()
		if closed {
			break // the server ended the connection: nothing more can be sent
		}
		out.LastKind = s.Kind
		if s.Kind == "req" {
			out.LastKind = "req:" + s.Method
		}
		// steps that do not wait for a response are coalesced with what follows into one
		// write (so that e.g. bytes following a tunnel handshake arrive in the same segment)
		pending = append(pending, b...)
		if !s.Wait && si != len(cv.Steps)-1 && (budget < 0 || budget > 0) {
			continue
		}
		_ = nc.SetWriteDeadline(time.Now().Add(3 * time.Second))
		n, err := nc.Write(pending)
		pending = nil
		out.Sent += n
		lastSend = time.Now()
		if err != nil {
			break
		}
		if s.Wait {
			deadline := time.Now().Add(400 * time.Millisecond)
			for time.Now().Before(deadline) {
				in.mu.Lock()
				now := len(reStatus.FindAllIndex(in.buf, -1))
				cl := in.closed
				if m := reSession.FindAllSubmatch(in.buf, -1); len(m) > 0 {
					sess = strings.TrimSpace(string(m[len(m)-1][1]))
				}
				in.mu.Unlock()
				if now > before || cl {
					break
				}
				time.Sleep(500 * time.Microsecond)
			}
		}
	}
	if len(pending) > 0 {
		_ = nc.SetWriteDeadline(time.Now().Add(3 * time.Second))
		n, _ := nc.Write(pending)
		out.Sent += n
		lastSend = time.Now()
	}
	// silence: the server must answer or close within its timeouts
	deadline := lastSend.Add(closeBound)
	for {
		in.mu.Lock()
		cl := in.closed
		in.mu.Unlock()
		if cl || time.Now().After(deadline) {
			break
		}
		time.Sleep(2 * time.Millisecond)
	}
	in.mu.Lock()
	out.Closed = in.closed
	for _, m := range reStatus.FindAllSubmatch(in.buf, -1) {
		out.Statuses[string(m[1])]++
		out.Responses++
	}
	in.mu.Unlock()
	if !out.Closed && canary.WorstSince(lastSend) > 250*time.Millisecond {
		out.Closed = true // inconclusive: do not judge
		run.Inconclusive("close-bound-late-canary")
	}
	nc.Close()
	<-rdDone
	return
}

func lastClass(cv conversation, o outcome) string {
	if o.Sent < 4 {
		return "fewer-than-4-bytes"
	}
	switch {
	case strings.HasPrefix(cv.Seed, "http"), strings.HasPrefix(cv.Seed, "ws"):
		return cv.Seed
	}
	for _, m := range cv.Muts {
		if m == "almost-tunnel" || m == "truncate" {
			return m
		}
	}
	return "after-" + o.LastKind
}

// ---- the well-behaved client ------------------------------------------------------------------

type canaryClient struct {
	gate       sync.RWMutex
	iterations atomic.Int64
	packets    atomic.Int64
	prevFailed atomic.Bool
	stop       chan struct{}
	wg         sync.WaitGroup
}

func startCanaryClient(ch *child) *canaryClient {
	cc := &canaryClient{stop: make(chan struct{})}
	cc.wg.Add(1)
	go func() {
		defer cc.wg.Done()
		for i := 0; ; i++ {
			select {
			case <-cc.stop:
				return
			default:
			}
			cc.gate.RLock()
			cc.once(ch, i)
			cc.gate.RUnlock()
			time.Sleep(5 * time.Millisecond)
		}
	}()
	return cc
}

func (cc *canaryClient) once(ch *child, i int) {
	if !ch.alive() {
		return
	}
	ts := &rig.TestServer{Opts: rig.ServerOpts{ListenIP: ch.host, TLS: ch.cfg.TLS}, Port: ch.port}
	proto := []string{"tcp", "udp"}[i%2]
	if ch.cfg.TLS || !ch.cfg.UDP {
		proto = "tcp"
	}
	t0 := time.Now()
	pc, err := rig.NewPlayClient(ts, rig.ClientOpts{Name: "canary", Proto: proto, ReadTimeout: 5 * time.Second, WriteTimeout: 5 * time.Second, HeldEvery: 1000})
	if err != nil {
		return
	}
	w := map[string]any{"config": ch.cfg, "iteration": i, "proto": proto}
	// a failed iteration is a violation only if the next one fails as well and the machine was
	// not stalled (the server runs under the race detector next to 40 hostile connections)
	failed := func(key, what string) {
		time.Sleep(500 * time.Millisecond) // a dying server process is reported as such, not here
		if !ch.alive() || canary.WorstSince(t0) > 250*time.Millisecond {
			cc.prevFailed.Store(false)
			return
		}
		if cc.prevFailed.Swap(true) {
			run.Violation(key+"/"+ch.cfg.Name, what, w)
		} else {
			run.Count("well-behaved-client-single-failures", 1)
		}
	}
	hs := ch.cfg.HandlerSet
	if !(rig.Implements(hs, base.Describe) && rig.Implements(hs, base.Setup) && rig.Implements(hs, base.Play)) {
		// this server cannot be played from: the well-behaved peer does what the handler set allows
		// (OPTIONS, DESCRIBE when implemented) and expects the documented answers
		var tcfg *tls.Config
		if ch.cfg.TLS {
			tcfg = &tls.Config{InsecureSkipVerify: true}
		}
		p, err := rig.Dial(ch.addr(), tcfg, "")
		if err != nil {
			failed("well-behaved-client/not-served", fmt.Sprintf("a well-behaved peer could not connect twice in a row while hostile connections were open: %v", err))
			return
		}
		defer p.Close()
		res, err := p.Do(p.Request(base.Options, ch.base()+"/stream", nil, nil), 5*time.Second)
		if err != nil || res.StatusCode != base.StatusOK {
			failed("well-behaved-client/not-served", fmt.Sprintf("OPTIONS of a well-behaved peer was not answered 200 twice in a row while hostile connections were open: %v %v", err, res))
			return
		}
		if rig.Implements(hs, base.Describe) {
			res, err = p.Do(p.Request(base.Describe, ch.base()+"/stream", nil, nil), 5*time.Second)
			if err != nil || res.StatusCode != base.StatusOK {
				failed("well-behaved-client/not-served", fmt.Sprintf("DESCRIBE of a well-behaved peer was not answered 200 twice in a row while hostile connections were open: %v %v", err, res))
				return
			}
		}
		cc.prevFailed.Store(false)
		cc.iterations.Add(1)
		return
	}
	if err := pc.Start(); err != nil {
		failed("well-behaved-client/not-served", fmt.Sprintf("a well-behaved client could not start playing twice in a row while hostile connections were open: %v", err))
		return
	}
	deadline := time.Now().Add(20 * time.Second)
	for pc.Rd.Delivered() < 20 && time.Now().Before(deadline) && ch.alive() {
		time.Sleep(2 * time.Millisecond)
	}
	n := pc.Rd.Delivered()
	died := pc.Died()
	pc.Close()
	if n < 20 {
		failed("well-behaved-client/no-media", fmt.Sprintf("a well-behaved client received %d packets in 20 s twice in a row while hostile connections were open (client error: %v)", n, died))
		return
	}
	cc.prevFailed.Store(false)
	// identity / order of what it received (self-describing payloads, no write log needed)
	if bad := pc.Rd.SelfCheck(); bad != "" {
		run.Violation("well-behaved-client/corrupted-delivery", "a well-behaved client received wrong media: "+bad, w)
	}
	cc.iterations.Add(1)
	cc.packets.Add(int64(n))
}

func (cc *canaryClient) close() { close(cc.stop); cc.wg.Wait() }

// ---- census comparison -------------------------------------------------------------------------

func censusDiff(base, cur *censusReply) []string {
	var d []string
	if cur.ConnOpen != cur.ConnClose {
		d = append(d, fmt.Sprintf("connection-callbacks-unbalanced: %d OnConnOpen vs %d OnConnClose", cur.ConnOpen, cur.ConnClose))
	}
	if cur.SessOpen != cur.SessClose {
		d = append(d, fmt.Sprintf("session-not-closed: %d OnSessionOpen vs %d OnSessionClose", cur.SessOpen, cur.SessClose))
	}
	if cur.UDPRTP != 0 || cur.UDPRTCP != 0 {
		d = append(d, fmt.Sprintf("udp-registration: %d RTP / %d RTCP peers still registered", cur.UDPRTP, cur.UDPRTCP))
	}
	if cur.Readers != 0 || cur.Active != 0 || cur.McastRd != 0 {
		d = append(d, fmt.Sprintf("reader-slot: %d readers, %d active, %d multicast still attached to the stream", cur.Readers, cur.Active, cur.McastRd))
	}
	if cur.Sockets > base.Sockets {
		d = append(d, fmt.Sprintf("socket: %d descriptors above the baseline", cur.Sockets-base.Sockets))
	}
	bm := map[string]int{}
	for _, g := range base.Goroutines {
		bm[g]++
	}
	cm := map[string]int{}
	for _, g := range cur.Goroutines {
		cm[g]++
	}
	var names []string
	for g, n := range cm {
		if n > bm[g] {
			names = append(names, g)
		}
	}
	sort.Strings(names)
	for _, g := range names {
		fn := g
		if i := strings.Index(fn, " <- "); i > 0 {
			fn = fn[:i]
		}
		d = append(d, "goroutine/"+fn+": "+fmt.Sprintf("%d more than at baseline (%s)", cm[g]-bm[g], g))
	}
	return d
}

// ---- one configuration ----------------------------------------------------------------------

func runConfig(cfg childCfg, nConv int, replay []conversation) {
	ch, err := spawnChild(cfg)
	if err != nil {
		run.Fatal("config %s: %v", cfg.Name, err)
	}
	cc := startCanaryClient(ch)
	// baseline after the well-behaved client has completed a first iteration
	for i := 0; i < 2000 && cc.iterations.Load() == 0 && ch.alive(); i++ {
		time.Sleep(5 * time.Millisecond)
	}
	cc.gate.Lock()
	time.Sleep(300 * time.Millisecond)
	base, ok := ch.census()
	cc.gate.Unlock()
	if !ok {
		run.Fatal("config %s: no baseline census", cfg.Name)
	}
	sd := seeds(cfg)
	var names []string
	for k := range sd {
		names = append(names, k)
	}
	sort.Strings(names)
	r := run.Rand("conv/"+cfg.Name, 0)
	logPath := filepath.Join(run.Root, ".logs", "C11.conversations."+strings.ReplaceAll(cfg.Name, "/", "_")+".jsonl")
	logf, _ := os.Create(logPath)
	defer logf.Close()
	var logMu sync.Mutex
	var inflight sync.Map

	const batch = 160
	const par = 40
	id := 0
	for done := 0; done < nConv && ch.alive(); done += batch {
		var convs []conversation
		for k := 0; k < batch && done+k < nConv; k++ {
			if replay != nil {
				cv := replay[(done+k)%len(replay)]
				cv.ID = id
				convs = append(convs, cv)
			} else {
				name := names[r.Intn(len(names))]
				convs = append(convs, mutate(r, id, name, sd[name], sd))
			}
			id++
		}
		if done == 0 && replay == nil {
			// the deterministic boundary family goes first
			for _, cv := range append(boundaryConversations(sd), refusedConversations(sd)...) {
				cv.ID = id
				id++
				convs = append(convs, cv)
			}
			// and the deterministic multi-connection family (one session driven from two connections)
			for _, cv := range append(append(linkedConversations(cfg), tunnelConversations(cfg)...), stalledConversations(cfg)...) {
				cv.ID = id
				id++
				convs = append(convs, cv)
			}
		}
		sem := make(chan struct{}, par)
		var wg sync.WaitGroup
		for _, cv := range convs {
			wg.Add(1)
			sem <- struct{}{}
			go func(cv conversation) {
				defer wg.Done()
				defer func() { <-sem }()
				if !ch.alive() {
					return
				}
				// log before sending: a dead child names its killer
				b, _ := json.Marshal(cv)
				logMu.Lock()
				logf.Write(append(b, '\n'))
				logMu.Unlock()
				inflight.Store(cv.ID, cv)
				var o outcome
				if cv.Multi {
					o = runMulti(ch, cv)
				} else {
					o = runConversation(ch, cv)
				}
				if !ch.alive() {
					return // keep it in flight: it is a suspect
				}
				inflight.Delete(cv.ID)
				evals.Add(1)
				run.Count("conversations:"+cv.Seed, 1)
				for _, m := range cv.Muts {
					run.Count("mutator:"+strings.SplitN(m, ":", 2)[0], 1)
				}
				for s, n := range o.Statuses {
					run.Count("status:"+s, int64(n))
				}
				if o.DialFailed {
					run.Count("dial-failed", 1)
					return
				}
				if o.Closed {
					run.Count("closed-by-server", 1)
				} else if o2 := runConversation(ch, cv); o2.Closed || o2.DialFailed {
					// confirmed by a second attempt before it counts: the same bytes, sent again to
					// the same server, were answered / closed in time. The first observation cannot
					// be told from a starved server process (the canary only watches this one).
					run.Inconclusive("liveness-not-confirmed-on-second-attempt")
					run.Count("liveness-candidates-not-confirmed", 1)
				} else {
					run.Violation("liveness/connection-neither-answered-nor-closed/"+lastClass(cv, o),
						fmt.Sprintf("[%s] a hostile connection (seed %s, mutations %v, %d bytes sent, last step %s) was still open %v after its last byte", cfg.Name, cv.Seed, cv.Muts, o.Sent, o.LastKind, closeBound),
						map[string]any{"config": cfg, "conversations": []conversation{cv}})
				}
				run.Distinct(fmt.Sprintf("%s|%s|%v|%v", cfg.Name, cv.Seed, cv.Muts, o.Statuses))
				if run.WantSample() && len(cv.Muts) > 0 && o.Responses > 1 {
					run.Sample(map[string]any{"config": cfg.Name, "seed": cv.Seed, "mutations": cv.Muts, "statuses": o.Statuses, "bytes_sent": o.Sent})
				}
			}(cv)
		}
		wg.Wait()
		if !ch.alive() {
			break
		}
		// quiescent point: every hostile connection of the batch is closed, the well-behaved
		// client is held back: the child must return to its baseline
		cc.gate.Lock()
		var diff []string
		t0 := time.Now()
		for {
			cur, ok := ch.census()
			if !ok {
				break
			}
			diff = censusDiff(base, cur)
			// what is tied to a connection is released when the server's own timeouts (idle 2 s,
			// read / write 2 s, tunnel pairing 5 s) have run; the child runs under the race detector on
			// a machine that may be saturated, so the census waits well beyond their sum - a real leak
			// stays for ever and is still there at the end of the wait
			if len(diff) == 0 || time.Since(t0) > 45*time.Second {
				break
			}
			time.Sleep(100 * time.Millisecond)
		}
		if len(diff) == 0 && time.Since(t0) > 12*time.Second {
			run.Count("quiescent-censuses-clean-only-after-12s", 1)
		}
		cc.gate.Unlock()
		if len(diff) > 0 && ch.alive() {
			for _, d := range diff {
				key := d
				if i := strings.Index(key, ":"); i > 0 {
					key = key[:i]
				}
				run.Violation("cleanup/"+key, fmt.Sprintf("[%s] after all hostile connections of a batch ended: %s", cfg.Name, d), map[string]any{"config": cfg, "conversations": convs})
			}
			break // the baseline is lost for the following batches
		}
		run.Count("quiescent-censuses-clean", 1)
	}
	cc.close()
	run.Count("well-behaved-client-iterations", cc.iterations.Load())
	run.Count("well-behaved-client-packets", cc.packets.Load())
	if !ch.alive() {
		var suspects []conversation
		inflight.Range(func(_, v any) bool { suspects = append(suspects, v.(conversation)); return true })
		b, _ := os.ReadFile(ch.errPath)
		site, first := deathSite(string(b))
		run.Violation("server-death/"+site, fmt.Sprintf("[%s] the server process died: %s", cfg.Name, first),
			map[string]any{"config": cfg, "conversations": suspects, "stderr": tail(string(b), 6000)})
		return
	}
	left := ch.quit()
	if len(left) > 0 {
		run.Violation("cleanup/goroutines-after-server-close", fmt.Sprintf("[%s] %d library goroutines left after Server.Close: %v", cfg.Name, len(left), left), map[string]any{"config": cfg})
	}
}

func tail(s string, n int) string {
	if len(s) > n {
		return s[:n]
	}
	return s
}

// deathSite extracts the innermost gortsplib frame of the crashing goroutine from the child's
// stderr.
func deathSite(stderr string) (string, string) {
	lines := strings.Split(stderr, "\n")
	first := ""
	start := -1
	for i, l := range lines {
		if strings.HasPrefix(l, "panic:") || strings.HasPrefix(l, "fatal error:") {
			first = l
			start = i
			break
		}
	}
	if start < 0 {
		return "unknown", "no panic line in the child's stderr"
	}
	for _, l := range lines[start:] {
		if strings.HasPrefix(l, "github.com/bluenviron/gortsplib") {
			s := l
			if i := strings.LastIndex(s, "("); i > 0 {
				s = s[:i]
			}
			s = strings.TrimPrefix(strings.TrimPrefix(s, "github.com/bluenviron/gortsplib/v5/"), "github.com/bluenviron/gortsplib/v5.")
			return s, first
		}
		if strings.HasPrefix(l, "goroutine ") && strings.Contains(l, "[") && !strings.Contains(l, "running") && start >= 0 && l != lines[start] {
			// next goroutine block: stop at the end of the crashing one
			if strings.Contains(stderr[:strings.Index(stderr, l)], "[running]") {
				break
			}
		}
	}
	return "unknown", first
}

func main() {
	if c := os.Getenv("VERIF_C11_CHILD"); c != "" {
		runChild(c)
		return
	}
	run = vlib.Start("C11", "exploration")
	canary = rig.StartCanary()
	defer canary.Stop()

	cfgs := []childCfg{
		{Name: "full/udp+tcp", UDP: true, HandlerSet: "full"},
		{Name: "full/tls", TLS: true, HandlerSet: "full"},
		{Name: "std/udp+mcast", UDP: true, Multicast: true, HandlerSet: "std"},
	}
	if !run.Quick() {
		cfgs = append(cfgs,
			childCfg{Name: "none/udp+tcp", UDP: true, HandlerSet: "none"},
			childCfg{Name: "no-record/tcp-only", HandlerSet: "no-record"},
			childCfg{Name: "no-play/udp+tcp", UDP: true, HandlerSet: "no-play"},
			childCfg{Name: "describe-only/tls", TLS: true, HandlerSet: "describe-only"},
		)
	}
	if run.Replay != "" {
		var w struct {
			Config        childCfg       `json:"config"`
			Conversations []conversation `json:"conversations"`
		}
		if err := run.LoadReplay(&w); err != nil || len(w.Conversations) == 0 {
			run.Fatal("replay: %v", err)
		}
		w.Config.Seed = run.Seed
		runConfig(w.Config, 3*len(w.Conversations), w.Conversations)
		run.ReportRaces()
		run.Finish(evals.Load(), "replay")
		return
	}
	per := run.Pick(320, 12000)
	if v := os.Getenv("VERIF_C11_PER"); v != "" { // development aid: smaller thorough runs
		fmt.Sscan(v, &per)
	}
	for i := range cfgs {
		cfgs[i].Seed = run.Seed*100 + int64(i)
		runConfig(cfgs[i], per, nil)
	}
	run.ReportRaces()
	run.Assume("'answers or closes within its timeouts': a hostile connection must be closed by the server within idle/read timeout (2 s) + the fixed 5 s tunnel pairing wait + 13 s slack after its last byte (canary-guarded)")
	run.Assume("cleanup is judged at quiescent points: all hostile connections of a batch closed, the well-behaved client held back; goroutines, callbacks, UDP registrations, stream reader slots and sockets of the server process must equal the baseline within 45 s")
	run.Finish(evals.Load(), "hostile conversations = valid conversations (play / record over TCP, UDP, multicast; secure setup; HTTP and WebSocket tunnel handshakes; garbage) with 0..3 mutations out of 26 grammar-aware and byte-level mutators, sent on up to 40 simultaneous connections to a server in a child process, per server configuration, preceded by a deterministic boundary family (track ids, interleaved pairs) and a deterministic multi-connection family (one session driven from two connections that leave in either order); distinct_nontrivial = distinct (configuration, seed, mutation list, status histogram) conversations completed")
}
