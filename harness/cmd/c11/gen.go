package main

import (
	"encoding/base64"
	"fmt"
	"math/rand"
	"strings"
)

// A conversation is a list of steps a hostile peer performs on one control connection.
// Placeholders: {base} = scheme://host:port, {sess} = session id learnt from responses,
// {cport} / {cport1} = a client port pair.
type step struct {
	Kind   string      `json:"kind"` // req | raw | frame
	Method string      `json:"method,omitempty"`
	URL    string      `json:"url,omitempty"`
	Proto  string      `json:"proto,omitempty"`
	Header [][2]string `json:"header,omitempty"`
	Body   string      `json:"body,omitempty"`
	Raw    string      `json:"raw,omitempty"` // base64 for raw / frame payloads
	Chan   int         `json:"chan,omitempty"`
	Wait   bool        `json:"wait,omitempty"` // wait (briefly) for a response before going on
	NoCSeq bool        `json:"no_cseq,omitempty"`
	CSeq   string      `json:"cseq,omitempty"` // override
	Conn   int         `json:"conn,omitempty"` // multi-connection conversations: connection index (kind closeconn closes it)
}

type conversation struct {
	ID    int      `json:"id"`
	Seed  string   `json:"seed"`
	Muts  []string `json:"mutations"`
	Steps []step   `json:"steps"`
	// TruncateAt >= 0: only that many bytes of the rendered stream are sent, then silence
	TruncateAt int `json:"truncate_at"`
	// Multi: the steps are spread over several control connections (multi.go)
	Multi bool `json:"multi,omitempty"`
}

const sdpTwo = "v=0\r\no=- 0 0 IN IP4 127.0.0.1\r\ns=x\r\nc=IN IP4 0.0.0.0\r\nt=0 0\r\n" +
	"m=video 0 RTP/AVP 96\r\na=rtpmap:96 private/90000\r\na=control:trackID=0\r\n" +
	"m=audio 0 RTP/AVP 97\r\na=rtpmap:97 private/48000\r\na=control:trackID=1\r\n"

func req(m, url string, wait bool, hdr ...string) step {
	s := step{Kind: "req", Method: m, URL: url, Proto: "RTSP/1.0", Wait: wait}
	for i := 0; i+1 < len(hdr); i += 2 {
		s.Header = append(s.Header, [2]string{hdr[i], hdr[i+1]})
	}
	return s
}

func frame(ch int, payload []byte) step {
	return step{Kind: "frame", Chan: ch, Raw: base64.StdEncoding.EncodeToString(payload)}
}

func raw(b string) step { return step{Kind: "raw", Raw: base64.StdEncoding.EncodeToString([]byte(b))} }

func rtpBytes(pt byte, seq int) []byte {
	b := []byte{0x80, pt, byte(seq >> 8), byte(seq), 0, 0, 0, 1, 0, 0, 0, 2}
	return append(b, []byte("hostile-payload")...)
}

func rtcpRR() []byte {
	return []byte{0x80, 201, 0, 1, 0, 0, 0, 1}
}

// seeds returns the valid conversations hostile ones are derived from.
func seeds(cfg childCfg) map[string][]step {
	tcpT := func(i int, mode string) string {
		return fmt.Sprintf("RTP/AVP/TCP;unicast;interleaved=%d-%d%s", 2*i, 2*i+1, mode)
	}
	udpT := func(i int, mode string) string {
		if i == 0 {
			return "RTP/AVP;unicast;client_port={cport}-{cport1}" + mode
		}
		return "RTP/AVP;unicast;client_port={cport2}-{cport3}" + mode
	}
	s := map[string][]step{}
	s["play-tcp"] = []step{
		req("OPTIONS", "{base}/stream", true),
		req("DESCRIBE", "{base}/stream", true, "Accept", "application/sdp"),
		req("SETUP", "{base}/stream/trackID=0", true, "Transport", tcpT(0, "")),
		req("SETUP", "{base}/stream/trackID=1", true, "Transport", tcpT(1, ""), "Session", "{sess}"),
		req("PLAY", "{base}/stream", true, "Session", "{sess}", "Range", "npt=0-"),
		frame(1, rtcpRR()),
		req("GET_PARAMETER", "{base}/stream", true, "Session", "{sess}"),
		req("PAUSE", "{base}/stream", true, "Session", "{sess}"),
		req("TEARDOWN", "{base}/stream", true, "Session", "{sess}"),
	}
	s["record-tcp"] = []step{
		func() step {
			st := req("ANNOUNCE", "{base}/pub", true, "Content-Type", "application/sdp")
			st.Body = sdpTwo
			return st
		}(),
		req("SETUP", "{base}/pub/trackID=0", true, "Transport", tcpT(0, ";mode=record")),
		req("SETUP", "{base}/pub/trackID=1", true, "Transport", tcpT(1, ";mode=record"), "Session", "{sess}"),
		req("RECORD", "{base}/pub", true, "Session", "{sess}"),
		frame(0, rtpBytes(96, 1)),
		frame(0, rtpBytes(96, 2)),
		frame(2, rtpBytes(97, 1)),
		frame(1, rtcpRR()),
		req("TEARDOWN", "{base}/pub", true, "Session", "{sess}"),
	}
	if cfg.UDP && !cfg.TLS {
		s["play-udp"] = []step{
			req("DESCRIBE", "{base}/stream", true),
			req("SETUP", "{base}/stream/trackID=0", true, "Transport", udpT(0, "")),
			req("SETUP", "{base}/stream/trackID=1", true, "Transport", udpT(1, ""), "Session", "{sess}"),
			req("PLAY", "{base}/stream", true, "Session", "{sess}"),
			req("TEARDOWN", "{base}/stream", true, "Session", "{sess}"),
		}
		s["play-udp-abandon"] = s["play-udp"][:4]
		s["record-udp"] = []step{
			func() step {
				st := req("ANNOUNCE", "{base}/pub", true, "Content-Type", "application/sdp")
				st.Body = sdpTwo
				return st
			}(),
			req("SETUP", "{base}/pub/trackID=0", true, "Transport", udpT(0, ";mode=record")),
			req("SETUP", "{base}/pub/trackID=1", true, "Transport", udpT(1, ";mode=record"), "Session", "{sess}"),
			req("RECORD", "{base}/pub", true, "Session", "{sess}"),
		}
	}
	if !cfg.TLS {
		// also on servers without multicast (with or without UDP): the request has to be
		// answered - refused - like any other transport the server does not offer
		s["play-mcast"] = []step{
			req("DESCRIBE", "{base}/stream", true),
			req("SETUP", "{base}/stream/trackID=0", true, "Transport", "RTP/AVP;multicast"),
			req("SETUP", "{base}/stream/trackID=1", true, "Transport", "RTP/AVP;multicast", "Session", "{sess}"),
			req("PLAY", "{base}/stream", true, "Session", "{sess}"),
		}
	}
	if cfg.TLS {
		s["play-savp"] = []step{
			req("DESCRIBE", "{base}/stream", true),
			req("SETUP", "{base}/stream/trackID=0", true, "Transport", "RTP/SAVP/TCP;unicast;interleaved=0-1", "KeyMgmt", `prot=mikey;uri="{base}/stream/trackID=0";data="AQAFAAAAAAABAAAAAAAAAAAAAAoAAAAAAAAAAAAAAAAA"`),
			req("PLAY", "{base}/stream", true, "Session", "{sess}"),
		}
	}
	s["http-get"] = []step{raw("GET /stream HTTP/1.1\r\nHost: x\r\nX-Sessioncookie: {cookie}\r\nAccept: application/x-rtsp-tunnelled\r\nPragma: no-cache\r\nCache-Control: no-cache\r\n\r\n")}
	s["http-post"] = []step{raw("POST /stream HTTP/1.1\r\nHost: x\r\nX-Sessioncookie: {cookie}\r\nContent-Type: application/x-rtsp-tunnelled\r\nPragma: no-cache\r\nContent-Length: 32767\r\n\r\n")}
	s["http-other"] = []step{raw("GET /index.html HTTP/1.1\r\nHost: x\r\n\r\n")}
	s["ws"] = []step{raw("GET /stream HTTP/1.1\r\nHost: x\r\nConnection: Upgrade\r\nUpgrade: websocket\r\nSec-WebSocket-Version: 13\r\nSec-WebSocket-Key: dGhlIHNhbXBsZSBub25jZQ==\r\nSec-WebSocket-Protocol: rtsp.onvif.org\r\n\r\n")}
	s["garbage"] = []step{raw("\x00\x01\x02")}
	return s
}

var extremes = []string{"0", "-1", "1", "65535", "65536", "4294967295", "4294967296", "18446744073709551616", "99999999999999999999999",
	"", " ", "NaN", "0x10", "1e9", "-0", "00000000000000000001", "\t5", "5 5"}

func pick(r *rand.Rand, xs []string) string { return xs[r.Intn(len(xs))] }

// mutate derives a hostile conversation from a seed.
func mutate(r *rand.Rand, id int, seedName string, base []step, all map[string][]step) conversation {
	c := conversation{ID: id, Seed: seedName, TruncateAt: -1}
	for _, s := range base {
		s.Header = append([][2]string(nil), s.Header...)
		c.Steps = append(c.Steps, s)
	}
	n := 1 + r.Intn(3)
	if r.Intn(10) == 0 {
		n = 0 // some conversations stay valid
		c.Muts = append(c.Muts, "none")
	}
	reqIdx := func() int {
		var idx []int
		for i, s := range c.Steps {
			if s.Kind == "req" {
				idx = append(idx, i)
			}
		}
		if len(idx) == 0 {
			return -1
		}
		return idx[r.Intn(len(idx))]
	}
	for k := 0; k < n; k++ {
		i := reqIdx()
		m := r.Intn(26)
		if i < 0 && m < 18 {
			m = 18 + r.Intn(8)
		}
		switch m {
		case 0: // delete a header
			if s := &c.Steps[i]; len(s.Header) > 0 {
				j := r.Intn(len(s.Header))
				c.Muts = append(c.Muts, "del-header:"+s.Header[j][0])
				s.Header = append(s.Header[:j], s.Header[j+1:]...)
			} else {
				c.Steps[i].NoCSeq = true
				c.Muts = append(c.Muts, "del-cseq")
			}
		case 1: // duplicate a header
			if s := &c.Steps[i]; len(s.Header) > 0 {
				j := r.Intn(len(s.Header))
				s.Header = append(s.Header, s.Header[j])
				c.Muts = append(c.Muts, "dup-header:"+s.Header[j][0])
			}
		case 2: // CSeq extremes / missing
			if r.Intn(3) == 0 {
				c.Steps[i].NoCSeq = true
			} else {
				c.Steps[i].CSeq = pick(r, extremes)
			}
			c.Muts = append(c.Muts, "cseq")
		case 3: // Content-Length lies
			c.Steps[i].Header = append(c.Steps[i].Header, [2]string{"Content-Length", pick(r, append(extremes, "131073", "131072", "10"))})
			c.Muts = append(c.Muts, "content-length")
		case 4: // Transport field mutations
			for j := range c.Steps[i].Header {
				if c.Steps[i].Header[j][0] == "Transport" {
					c.Steps[i].Header[j][1] = mutTransport(r, c.Steps[i].Header[j][1])
				}
			}
			c.Muts = append(c.Muts, "transport")
		case 5: // Session id unknown / garbage / of nobody
			sv := pick(r, []string{"00000000000000000000000000000000", "x", "", "{sess}x", strings.Repeat("A", 3000), "{sess};timeout=" + pick(r, extremes)})
			found := false
			for j := range c.Steps[i].Header {
				if c.Steps[i].Header[j][0] == "Session" {
					c.Steps[i].Header[j][1] = sv
					found = true
				}
			}
			if !found {
				c.Steps[i].Header = append(c.Steps[i].Header, [2]string{"Session", sv})
			}
			c.Muts = append(c.Muts, "session")
		case 6: // method games
			c.Steps[i].Method = pick(r, []string{"FOO", "play", "", "SETUP", "PLAY", "RECORD", "PAUSE", "ANNOUNCE", "TEARDOWN", "REDIRECT", strings.Repeat("M", 65), "GET", "POST", "DESCRIBE"})
			c.Muts = append(c.Muts, "method")
		case 7: // URL games
			c.Steps[i].URL = pick(r, []string{"*", "", "rtsp://", "{base}", "{base}/", "{base}//", "{base}/stream/", "{base}/stream/trackID=", "{base}/stream/trackID=99", "{base}/stream/trackID=-1", "{base}/stream/trackID=2", "{base}/stream/trackID=3", "{base}/stream/trackID=1", "{base}/stream/trackID=02",
				"{base}/stream/trackID=4294967296", "{base}/pub/trackID=2",
				"{base}/stream/trackID=0/trackID=1", "{base}/%zz", "{base}/stream?a=b/", "{base}/stream?trackID=1", "http://x/", "rtsp://other:1/stream", "{base}/" + strings.Repeat("u", 2100), "{base}/nothere", "{base}/pub/trackID=7", "/stream", "rtsp://[::1/stream"})
			c.Muts = append(c.Muts, "url")
		case 8: // protocol token
			c.Steps[i].Proto = pick(r, []string{"RTSP/2.0", "HTTP/1.1", "RTSP/1.0 ", "", "RTSP", strings.Repeat("P", 70)})
			c.Muts = append(c.Muts, "proto")
		case 9: // body / SDP mutations
			c.Steps[i].Body = mutSDP(r, c.Steps[i].Body)
			c.Muts = append(c.Muts, "body")
		case 10: // Content-Type
			c.Steps[i].Header = append([][2]string{{"Content-Type", pick(r, []string{"text/plain", "", "application/sdp; charset=utf-8", "application/SDP"})}}, c.Steps[i].Header...)
			c.Muts = append(c.Muts, "content-type")
		case 11: // KeyMgmt games
			c.Steps[i].Header = append(c.Steps[i].Header, [2]string{"KeyMgmt", pick(r, []string{"prot=mikey;uri=\"x\";data=\"AAAA\"", "prot=mikey", "garbage", "prot=mikey;uri=\"x\";data=\"" + base64.StdEncoding.EncodeToString(randBytes(r, 1+r.Intn(200))) + "\"",
				"prot=mikey;uri=\"x\";data=\"AQAFAP////8B/////////////wA=\""})})
			// and ask for the secure profile
			for j := range c.Steps[i].Header {
				if c.Steps[i].Header[j][0] == "Transport" && r.Intn(2) == 0 {
					c.Steps[i].Header[j][1] = strings.Replace(c.Steps[i].Header[j][1], "RTP/AVP", "RTP/SAVP", 1)
				}
			}
			c.Muts = append(c.Muts, "keymgmt")
		case 12: // huge / many headers
			cnt := []int{10, 254, 255, 256, 400}[r.Intn(5)]
			for j := 0; j < cnt; j++ {
				c.Steps[i].Header = append(c.Steps[i].Header, [2]string{fmt.Sprintf("X-H%d", j), "v"})
			}
			c.Muts = append(c.Muts, fmt.Sprintf("many-headers:%d", cnt))
		case 13: // oversized header key / value
			if r.Intn(2) == 0 {
				c.Steps[i].Header = append(c.Steps[i].Header, [2]string{strings.Repeat("K", 513), "v"})
			} else {
				c.Steps[i].Header = append(c.Steps[i].Header, [2]string{"X-Big", strings.Repeat("v", 2049)})
			}
			c.Muts = append(c.Muts, "oversized-header")
		case 14: // reorder: swap two steps
			j := r.Intn(len(c.Steps))
			c.Steps[i], c.Steps[j] = c.Steps[j], c.Steps[i]
			c.Muts = append(c.Muts, "swap-steps")
		case 15: // duplicate a step
			c.Steps = append(c.Steps[:i+1], append([]step{c.Steps[i]}, c.Steps[i+1:]...)...)
			c.Muts = append(c.Muts, "dup-step")
		case 16: // drop a step
			c.Steps = append(c.Steps[:i], c.Steps[i+1:]...)
			c.Muts = append(c.Muts, "drop-step")
		case 17: // do not wait for responses (pipeline everything)
			for j := range c.Steps {
				c.Steps[j].Wait = false
			}
			c.Muts = append(c.Muts, "pipeline")
		case 18: // interleaved frame in any state, any channel
			p := r.Intn(len(c.Steps) + 1)
			var pl []byte
			switch r.Intn(4) {
			case 0:
				pl = rtpBytes(byte(96+r.Intn(3)), r.Intn(65536))
			case 1:
				pl = rtcpRR()
			case 2:
				pl = randBytes(r, r.Intn(1600))
			default:
				pl = nil
			}
			c.Steps = append(c.Steps[:p], append([]step{frame([]int{0, 1, 2, 3, 4, 200, 255}[r.Intn(7)], pl)}, c.Steps[p:]...)...)
			c.Muts = append(c.Muts, "inject-frame")
		case 19: // a response sent to the server
			p := r.Intn(len(c.Steps) + 1)
			c.Steps = append(c.Steps[:p], append([]step{raw("RTSP/1.0 200 OK\r\nCSeq: 1\r\n\r\n")}, c.Steps[p:]...)...)
			c.Muts = append(c.Muts, "inject-response")
		case 20: // splice another seed's conversation in
			names := make([]string, 0, len(all))
			for k := range all {
				names = append(names, k)
			}
			sortStrings(names)
			other := all[names[r.Intn(len(names))]]
			p := r.Intn(len(c.Steps) + 1)
			c.Steps = append(c.Steps[:p], append(append([]step(nil), other[:1+r.Intn(len(other))]...), c.Steps[p:]...)...)
			c.Muts = append(c.Muts, "splice")
		case 21: // truncation somewhere, then silence
			c.TruncateAt = r.Intn(400)
			if r.Intn(3) == 0 {
				c.TruncateAt = r.Intn(6)
			}
			c.Muts = append(c.Muts, "truncate")
		case 22: // raw garbage step
			p := r.Intn(len(c.Steps) + 1)
			c.Steps = append(c.Steps[:p], append([]step{{Kind: "raw", Raw: base64.StdEncoding.EncodeToString(randBytes(r, 1+r.Intn(300)))}}, c.Steps[p:]...)...)
			c.Muts = append(c.Muts, "inject-garbage")
		case 23: // tunnel handshake followed immediately by extra bytes
			c.Steps = append(c.Steps, raw(pick(r, []string{"OPTIONS * RTSP/1.0\r\nCSeq: 1\r\n\r\n", "\x82\x05hello", "T1BUSU9OUyAqIFJUU1AvMS4wDQpDU2VxOiAxDQoNCg==", "\r\n\r\n", "garbage"})))
			c.Muts = append(c.Muts, "extra-bytes-after")
		case 24: // bit flip in the rendered stream is done at render time
			p := r.Intn(len(c.Steps))
			c.Steps = append(c.Steps[:p], append([]step{{Kind: "bitflip", Chan: r.Intn(1 << 20)}}, c.Steps[p:]...)...)
			c.Muts = append(c.Muts, "bitflip")
		case 25: // almost-tunnel HTTP requests
			c.Steps = append([]step{raw(pick(r, []string{
				"GET /stream HTTP/1.1\r\nAccept: application/x-rtsp-tunnelled\r\n\r\n",
				"POST /stream HTTP/1.1\r\nX-Sessioncookie: {cookie}\r\nContent-Type: application/x-rtsp-tunnelled\r\n\r\n",
				"GET /stream HTTP/1.1\r\nConnection: Upgrade\r\nUpgrade: websocket\r\nSec-WebSocket-Protocol: rtsp.onvif.org\r\n\r\n",
				"GET /stream HTTP/1.1\r\nConnection: Upgrade\r\nUpgrade: websocket\r\nSec-WebSocket-Version: 12\r\nSec-WebSocket-Key: x\r\nSec-WebSocket-Protocol: rtsp.onvif.org\r\n\r\n",
				"GET ", "POST", "GET / HTTP/1.1\r\n", "GET / HTTP/9.9\r\n\r\n", "POST /x HTTP/1.1\r\nContent-Length: 5\r\n\r\nab",
			}))}, c.Steps...)
			c.Muts = append(c.Muts, "almost-tunnel")
		}
	}
	return c
}

// boundaryConversations is a small deterministic family run in every configuration: every SETUP
// of every seed with boundary track identifiers (the number of medias, one beyond, huge, empty,
// non-numeric) and boundary interleaved channel pairs.
func boundaryConversations(all map[string][]step) []conversation {
	var out []conversation
	names := make([]string, 0, len(all))
	for k := range all {
		names = append(names, k)
	}
	sortStrings(names)
	for _, name := range names {
		base := all[name]
		for i, s := range base {
			if s.Kind != "req" || s.Method != "SETUP" {
				continue
			}
			cut := strings.LastIndex(s.URL, "/trackID=")
			if cut < 0 {
				continue
			}
			for _, tid := range []string{"2", "3", "1", "0", "", "x", "-1", "2147483647", "2147483648", "18446744073709551616", "02", "2/"} {
				c := conversation{Seed: name, Muts: []string{"boundary-track:" + tid}, TruncateAt: -1}
				for j, st := range base {
					st.Header = append([][2]string(nil), st.Header...)
					if j == i {
						st.URL = s.URL[:cut] + "/trackID=" + tid
					}
					c.Steps = append(c.Steps, st)
				}
				out = append(out, c)
			}
			for _, il := range []string{"254-255", "255-256", "0-0", "1-0", "2-3"} {
				c := conversation{Seed: name, Muts: []string{"boundary-interleaved:" + il}, TruncateAt: -1}
				for j, st := range base {
					st.Header = append([][2]string(nil), st.Header...)
					if j == i {
						for k := range st.Header {
							if st.Header[k][0] == "Transport" && strings.Contains(st.Header[k][1], "interleaved=") {
								st.Header[k][1] = "RTP/AVP/TCP;unicast;interleaved=" + il
								if strings.Contains(s.Header[k][1], "mode=record") {
									st.Header[k][1] += ";mode=record"
								}
							}
						}
					}
					c.Steps = append(c.Steps, st)
				}
				out = append(out, c)
			}
		}
	}
	return out
}

// refusedConversations: every request of every valid conversation once refused by the application
// handler (error status, no error - the connection and the session stay), and once repeated with
// the repetition refused (e.g. a second PLAY while playing that the application rejects); the rest
// of the conversation follows as if nothing had happened.
func refusedConversations(all map[string][]step) []conversation {
	var out []conversation
	names := make([]string, 0, len(all))
	for k := range all {
		names = append(names, k)
	}
	sortStrings(names)
	for _, name := range names {
		base := all[name]
		for i, s := range base {
			if s.Kind != "req" {
				continue
			}
			switch s.Method {
			case "DESCRIBE", "ANNOUNCE", "SETUP", "PLAY", "RECORD", "PAUSE":
			default:
				continue
			}
			for _, mode := range []string{"refused", "repeated-refused"} {
				for _, code := range []string{"403", "503"} {
					c := conversation{Seed: name, Muts: []string{"handler-" + mode + ":" + s.Method + ":" + code}, TruncateAt: -1}
					for j, st := range base {
						st.Header = append([][2]string(nil), st.Header...)
						if j == i {
							if mode == "repeated-refused" {
								c.Steps = append(c.Steps, st)
								st.Header = append([][2]string(nil), st.Header...)
								if st.Method == "SETUP" || st.Method == "ANNOUNCE" {
									// the repetition needs the session id the first one returned
									hasSess := false
									for _, h := range st.Header {
										if h[0] == "Session" {
											hasSess = true
										}
									}
									if !hasSess {
										st.Header = append(st.Header, [2]string{"Session", "{sess}"})
									}
								}
							}
							st.Header = append(st.Header, [2]string{"X-Verif-Refuse", code})
						}
						c.Steps = append(c.Steps, st)
					}
					out = append(out, c)
				}
			}
		}
	}
	return out
}

func mutTransport(r *rand.Rand, t string) string {
	switch r.Intn(12) {
	case 0:
		return strings.Replace(t, "RTP/AVP", "RTP/SAVP", 1)
	case 1:
		return strings.Replace(t, "unicast", "multicast", 1)
	case 2:
		return t + ";mode=" + pick(r, []string{"record", "play", "receive", "bogus", "\"PLAY\""})
	case 3:
		return "RTP/AVP;unicast;client_port=" + pick(r, extremes) + "-" + pick(r, extremes)
	case 4:
		return "RTP/AVP/TCP;unicast;interleaved=" + pick(r, append(extremes, "254", "255", "256")) + "-" + pick(r, append(extremes, "255", "0"))
	case 5:
		return "RTP/AVP;unicast" // no client ports
	case 6:
		return "RTP/AVP/TCP;unicast" // no interleaved ids
	case 7:
		return t + ";ssrc=" + pick(r, []string{"zz", "123456789", "", "FFFFFFFF"}) + ";ttl=" + pick(r, extremes)
	case 8:
		return t + "," + t
	case 9:
		return "RTP/AVP;unicast;client_port={cport}-{cport1},RTP/AVP/TCP;unicast;interleaved=0-1"
	case 10:
		return pick(r, []string{"", ";", "RTP", "RTP/AVP/SCTP;unicast", "unicast;client_port=1-2", strings.Repeat("RTP/AVP;", 300)})
	default:
		return "RTP/AVP/TCP;unicast;interleaved=0-1" // the same channel pair again
	}
}

func mutSDP(r *rand.Rand, b string) string {
	if b == "" {
		b = sdpTwo
	}
	switch r.Intn(10) {
	case 0:
		return b[:r.Intn(len(b))]
	case 1:
		return "v=0\r\no=- 0 0 IN IP4 127.0.0.1\r\ns=x\r\nt=0 0\r\n" // zero medias
	case 2:
		return b + strings.Repeat("m=video 0 RTP/AVP 96\r\na=rtpmap:96 private/90000\r\na=control:trackID=9\r\n", 200)
	case 3:
		return strings.Replace(b, "a=control:trackID=1", "a=control:trackID=0", 1) // duplicate control
	case 4:
		return strings.Replace(b, "RTP/AVP 96", "RTP/AVP 96 97 98 99 300", 1)
	case 5:
		return strings.Replace(b, "private/90000", "H264/90000\r\na=fmtp:96 packetization-mode=0", 1)
	case 6:
		return strings.Replace(b, "m=audio", "a=sendonly\r\nm=audio", 1) + "a=sendonly\r\n"
	case 7:
		return strings.Replace(b, "RTP/AVP", "RTP/SAVP", -1)
	case 8:
		return string(randBytes(r, r.Intn(500)))
	default:
		lines := strings.Split(b, "\r\n")
		i, j := r.Intn(len(lines)), r.Intn(len(lines))
		lines[i], lines[j] = lines[j], lines[i]
		return strings.Join(lines, "\r\n")
	}
}

func randBytes(r *rand.Rand, n int) []byte {
	b := make([]byte, n)
	for i := range b {
		b[i] = byte(r.Intn(256))
	}
	return b
}

func sortStrings(a []string) {
	for i := 1; i < len(a); i++ {
		for j := i; j > 0 && a[j] < a[j-1]; j-- {
			a[j], a[j-1] = a[j-1], a[j]
		}
	}
}
