package main

import (
	"crypto/tls"
	"fmt"
	"net"
	"strings"
	"sync/atomic"
	"time"
)

// Multi-connection hostile conversations: a peer that drives ONE session from several control
// connections (steps carry the index of the connection they are sent on, and connections are
// closed in a scripted order). Nothing is judged per connection here; what the property demands
// of them - the server survives, the well-behaved client is served, and once all of these
// connections have ended everything tied to them is released - is observed by the process
// monitor, the canary client and the quiescent census of the batch.

type mconn struct {
	nc     net.Conn
	raw    net.Conn // the TCP connection underneath (nc may be a TLS wrapper)
	in     *inbound
	noread atomic.Bool // the peer stops reading: the server's send buffer fills up
}

func dialM(ch *child) (*mconn, error) {
	d := net.Dialer{Timeout: 5 * time.Second}
	nc, err := d.Dial("tcp", ch.addr())
	if err != nil {
		return nil, err
	}
	raw := nc
	if ch.cfg.TLS {
		nc = tls.Client(nc, &tls.Config{InsecureSkipVerify: true})
	}
	m := &mconn{nc: nc, raw: raw, in: &inbound{}}
	go func() {
		buf := make([]byte, 16384)
		for {
			for m.noread.Load() {
				m.in.mu.Lock()
				cl := m.in.closed
				m.in.mu.Unlock()
				if cl {
					return
				}
				time.Sleep(5 * time.Millisecond)
			}
			n, err := nc.Read(buf)
			m.in.mu.Lock()
			if n > 0 && len(m.in.buf) < 1<<20 {
				m.in.buf = append(m.in.buf, buf[:n]...)
			}
			if err != nil {
				m.in.closed = true
				m.in.mu.Unlock()
				return
			}
			m.in.mu.Unlock()
		}
	}()
	return m, nil
}

func runMulti(ch *child, cv conversation) (out outcome) {
	out.Statuses = map[string]int{}
	out.Closed = true // no per-connection liveness verdict for this family
	conns := map[int]*mconn{}
	defer func() {
		for _, m := range conns {
			m.in.mu.Lock()
			m.in.closed = true // releases a reader that was told not to read
			m.in.mu.Unlock()
			m.nc.Close()
		}
	}()
	cport := 40000 + (cv.ID%5000)*4
	sess := ""
	cseq := 0
	for _, s := range cv.Steps {
		if s.Kind == "closeconn" {
			if m := conns[s.Conn]; m != nil {
				m.nc.Close()
				delete(conns, s.Conn)
				// let the server notice before the next scripted event: the order of departures matters
				time.Sleep(150 * time.Millisecond)
			}
			continue
		}
		m := conns[s.Conn]
		if m == nil {
			var err error
			m, err = dialM(ch)
			if err != nil {
				out.DialFailed = true
				return
			}
			conns[s.Conn] = m
		}
		if s.Kind == "dial" {
			continue // the connection is opened ahead of time so that later writes leave back to back
		}
		if s.Kind == "noread" {
			// stop reading (and shrink the receive buffer so that the server's writer blocks soon)
			if tc, ok := m.raw.(*net.TCPConn); ok {
				_ = tc.SetReadBuffer(2048)
			}
			m.noread.Store(true)
			continue
		}
		if s.Kind == "sleep" {
			time.Sleep(time.Duration(s.Chan) * time.Millisecond)
			continue
		}
		if s.Kind == "flood" {
			// interleaved frames keep arriving for s.Chan ms (whatever the server does meanwhile)
			one := render(frame(1, rtcpRR()), nil, 0) // receiver reports: valid inbound traffic of a playing reader
			var fr []byte
			for k := 0; k < 200; k++ {
				fr = append(fr, one...)
			}
			end := time.Now().Add(time.Duration(s.Chan) * time.Millisecond)
			for time.Now().Before(end) {
				// as fast as the server takes them: its reader always has a backlog
				_ = m.nc.SetWriteDeadline(time.Now().Add(200 * time.Millisecond))
				if _, err := m.nc.Write(fr); err != nil {
					time.Sleep(5 * time.Millisecond)
				}
				out.Sent += len(fr)
			}
			continue
		}
		subst := strings.NewReplacer("{base}", ch.base(), "{sess}", sess, "{cport}", fmt.Sprint(cport), "{cport1}", fmt.Sprint(cport+1),
			"{cport2}", fmt.Sprint(cport+2), "{cport3}", fmt.Sprint(cport+3), "{cookie}", fmt.Sprintf("cookie%d", cv.ID))
		cseq++
		b := render(s, subst, cseq)
		m.in.mu.Lock()
		closed := m.in.closed
		before := len(reStatus.FindAllIndex(m.in.buf, -1))
		m.in.mu.Unlock()
		if closed {
			continue // this connection was ended by the server; the others go on
		}
		out.LastKind = s.Kind
		_ = m.nc.SetWriteDeadline(time.Now().Add(3 * time.Second))
		n, err := m.nc.Write(b)
		out.Sent += n
		if err != nil || !s.Wait {
			continue
		}
		deadline := time.Now().Add(400 * time.Millisecond)
		for time.Now().Before(deadline) {
			m.in.mu.Lock()
			now := len(reStatus.FindAllIndex(m.in.buf, -1))
			cl := m.in.closed
			if mm := reSession.FindAllSubmatch(m.in.buf, -1); len(mm) > 0 {
				sess = strings.TrimSpace(string(mm[len(mm)-1][1]))
			}
			m.in.mu.Unlock()
			if now > before || cl {
				break
			}
			time.Sleep(500 * time.Microsecond)
		}
	}
	for _, m := range conns {
		m.in.mu.Lock()
		for _, st := range reStatus.FindAllSubmatch(m.in.buf, -1) {
			out.Statuses[string(st[1])]++
			out.Responses++
		}
		m.in.mu.Unlock()
	}
	return
}

// tunnelConversations: HTTP-tunnel handshakes spread over several connections - one GET channel
// and several POST channels carrying the same session cookie at (nearly) the same time, POST before
// GET, duplicated GETs. Repeated, because the interesting interleavings are a matter of microseconds.
func tunnelConversations(cfg childCfg) []conversation {
	get := func(c int) step {
		s := raw("GET /stream HTTP/1.1\r\nHost: x\r\nX-Sessioncookie: {cookie}\r\nAccept: application/x-rtsp-tunnelled\r\nPragma: no-cache\r\nCache-Control: no-cache\r\n\r\n")
		s.Conn = c
		return s
	}
	post := func(c int) step {
		s := raw("POST /stream HTTP/1.1\r\nHost: x\r\nX-Sessioncookie: {cookie}\r\nContent-Type: application/x-rtsp-tunnelled\r\nPragma: no-cache\r\nContent-Length: 32767\r\n\r\nT1BUSU9OUyAqIFJUU1AvMS4wDQpDU2VxOiAxDQoNCg==")
		s.Conn = c
		return s
	}
	dial := func(c int) step { return step{Kind: "dial", Conn: c} }
	var out []conversation
	add := func(name string, st []step, n int) {
		for k := 0; k < n; k++ {
			out = append(out, conversation{Seed: "tunnel-multi", Multi: true, TruncateAt: -1, Steps: st, Muts: []string{"tunnel:" + name}})
		}
	}
	for _, posts := range []int{2, 4, 8} {
		var st []step
		for c := 0; c <= posts; c++ {
			st = append(st, dial(c))
		}
		g := get(0)
		g.Wait = true
		st = append(st, g)
		for c := 1; c <= posts; c++ {
			st = append(st, post(c))
		}
		add(fmt.Sprintf("get+%d-posts", posts), st, 10)
		// the same without waiting for the answer to the GET
		st2 := append([]step{}, st...)
		st2[posts+1].Wait = false
		add(fmt.Sprintf("get+%d-posts-nowait", posts), st2, 6)
	}
	add("post-before-get", []step{dial(0), dial(1), post(1), get(0)}, 4)
	add("two-gets-one-post", []step{dial(0), dial(1), dial(2), get(0), get(1), post(2)}, 4)
	add("two-gets-two-posts", []step{dial(0), dial(1), dial(2), dial(3), get(0), get(1), post(2), post(3)}, 4)
	_ = cfg
	return out
}

// stalledConversations: a TCP reader that stops reading while the stream is being written (the
// server's writer blocks in a write bounded by its write timeout) and then sends a request that
// makes the session tear its writer down - PAUSE, TEARDOWN, a second PLAY - or just waits; in
// every case the server has to come back to its baseline once the peer is gone.
func stalledConversations(cfg childCfg) []conversation {
	var out []conversation
	tr := func(i int) string { return fmt.Sprintf("RTP/AVP/TCP;unicast;interleaved=%d-%d", 2*i, 2*i+1) }
	for _, action := range []string{"PAUSE", "TEARDOWN", "PLAY", "GET_PARAMETER", "none"} {
		for _, fill := range []int{400, 1500} {
			st := []step{
				req("SETUP", "{base}/stream/trackID=0", true, "Transport", tr(0)),
				req("SETUP", "{base}/stream/trackID=1", true, "Transport", tr(1), "Session", "{sess}"),
				req("PLAY", "{base}/stream", true, "Session", "{sess}"),
				{Kind: "noread"},
				{Kind: "sleep", Chan: fill},
			}
			if action != "none" {
				st = append(st, req(action, "{base}/stream", false, "Session", "{sess}"))
			}
			// longer than the server's write timeout: the blocked write fails while the request is handled
			quiet := append(append([]step{}, st...), step{Kind: "sleep", Chan: 3200}, step{Kind: "closeconn"})
			out = append(out, conversation{Seed: "stalled-reader", Multi: true, TruncateAt: -1, Steps: quiet,
				Muts: []string{"stalled:" + action, fmt.Sprintf("fill-ms:%d", fill)}})
			// the same, with interleaved frames still arriving when the server gives the session up
			busy := append(append([]step{}, st...), step{Kind: "flood", Chan: 3200}, step{Kind: "closeconn"})
			out = append(out, conversation{Seed: "stalled-reader", Multi: true, TruncateAt: -1, Steps: busy,
				Muts: []string{"stalled+flooding:" + action, fmt.Sprintf("fill-ms:%d", fill)}})
		}
	}
	_ = cfg
	return out
}

// linkedConversations is the deterministic multi-connection family: connection A creates a
// session, connection B attaches itself to it with an in-session request (before or after the
// session starts streaming), either of them starts it, and the two leave in either order.
func linkedConversations(cfg childCfg) []conversation {
	on := func(c int, s step) step { s.Conn = c; return s }
	closeC := func(c int) step { return step{Kind: "closeconn", Conn: c} }
	protos := []string{"tcp"}
	if cfg.UDP && !cfg.TLS {
		protos = append(protos, "udp")
	}
	var out []conversation
	for _, proto := range protos {
		tr := func(i int, mode string) string {
			if proto == "tcp" {
				return fmt.Sprintf("RTP/AVP/TCP;unicast;interleaved=%d-%d%s", 2*i, 2*i+1, mode)
			}
			if i == 0 {
				return "RTP/AVP;unicast;client_port={cport}-{cport1}" + mode
			}
			return "RTP/AVP;unicast;client_port={cport2}-{cport3}" + mode
		}
		for _, dir := range []string{"play", "record"} {
			path, mode, start := "{base}/stream", "", "PLAY"
			if dir == "record" {
				path, mode, start = "{base}/pub", ";mode=record", "RECORD"
			}
			for _, action := range []string{"OPTIONS", "GET_PARAMETER", "SETUP1", "PAUSE", "TEARDOWN", "none"} {
				for _, when := range []string{"before", "after"} {
					if action == "SETUP1" && when == "after" {
						continue
					}
					for starter := 0; starter < 2; starter++ {
						if action == "none" && starter == 0 {
							continue // without B this is a single-connection conversation
						}
						for _, order := range [][]int{{0, 1}, {1, 0}} {
							var st []step
							if dir == "record" {
								a := req("ANNOUNCE", path, true, "Content-Type", "application/sdp")
								a.Body = sdpTwo
								st = append(st, on(0, a))
							}
							st = append(st, on(0, req("SETUP", path+"/trackID=0", true, "Transport", tr(0, mode))))
							link := func() {
								switch action {
								case "none":
								case "SETUP1":
									st = append(st, on(1, req("SETUP", path+"/trackID=1", true, "Transport", tr(1, mode), "Session", "{sess}")))
								default:
									st = append(st, on(1, req(action, path, true, "Session", "{sess}")))
								}
							}
							if when == "before" {
								link()
							}
							if action != "SETUP1" {
								st = append(st, on(0, req("SETUP", path+"/trackID=1", true, "Transport", tr(1, mode), "Session", "{sess}")))
							}
							st = append(st, on(starter, req(start, path, true, "Session", "{sess}")))
							if when == "after" {
								link()
							}
							st = append(st, closeC(order[0]), closeC(order[1]))
							out = append(out, conversation{Seed: "linked-" + dir + "-" + proto, Multi: true, TruncateAt: -1, Steps: st,
								Muts: []string{"link:" + action + "-" + when, fmt.Sprintf("starter:%c", 'A'+starter), fmt.Sprintf("leaves-first:%c", 'A'+order[0])}})
						}
					}
				}
			}
		}
	}
	return out
}
