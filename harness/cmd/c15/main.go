// C15: Timestamps - 64-bit PTS continuation and NTP mapping.
//
// Four clauses, all decided by running the real code against an exact integer / rational reference:
//
//	(a) pts   rtptime.GlobalDecoder: PTS(b)-PTS(a) == sum of the signed 32-bit steps between a and b.
//	          Decode returns int64 ticks of the track's clock rate; there is no rounding on this path,
//	          so the comparison is exact. The reference is the generator's own list of intended steps
//	          (|step| < 2^31), not a re-computation from the 32-bit values.
//	(b) place a track that starts later is placed at leadPTS*rate2/rate1 + elapsed*rate2 where leadPTS
//	          and the instant are those of the leading track's last packet with PTS == DTS (the decoder's
//	          synchronisation points). The API returns integer ticks and rescales the two terms
//	          separately, each truncated towards zero, so the result may differ from the exact
//	          rational value by less than 2 ticks of the new track's clock: that is the tolerance.
//	(c) ntp   Sender.VerifReport() at a chosen virtual instant -> Receiver.ProcessSenderReport ->
//	          Receiver.PacketNTP(ts) is within one clock tick + 2 ns ("NTP rounding") of the instant the
//	          writer's affine clock associates with ts, for earlier / later / wrapped timestamps.
//	(d) codec |Decode(Encode(t)) - t| <= 1 ns for 1970-01-01 .. 2036-02-07T06:28:15.999999999Z and
//	          |Encode(Decode(v)) - v| < 1 ns (= 4.29.. units of 2^-32 s, i.e. <= 4 units).
//
// rtptime has a package-level clock (VerifSetTimeNow). It is set once to a function reading one
// atomic virtual clock. Only clause (b) depends on the values of that clock, so (b) runs on a single
// goroutine which is the only writer of the clock; clause (a), whose result does not depend on the
// clock value, and (c)/(d), which do not use rtptime, run in parallel to it.
package main

import (
	"fmt"
	"math/big"
	"sync/atomic"
	"time"

	"github.com/pion/rtcp"
	"github.com/pion/rtp"

	"github.com/bluenviron/gortsplib/v5/pkg/ntp"
	"github.com/bluenviron/gortsplib/v5/pkg/rtpreceiver"
	"github.com/bluenviron/gortsplib/v5/pkg/rtpsender"
	"github.com/bluenviron/gortsplib/v5/pkg/rtptime"

	"verif/lib/vlib"
)

// ---------------------------------------------------------------------------------------------

type rng uint64

func (r *rng) next() uint64 {
	*r += 0x9E3779B97F4A7C15
	z := uint64(*r)
	z = (z ^ (z >> 30)) * 0xBF58476D1CE4E5B9
	z = (z ^ (z >> 27)) * 0x94D049BB133111EB
	return z ^ (z >> 31)
}

func (r *rng) intn(n int) int {
	if n <= 1 {
		return 0
	}
	return int(r.next() % uint64(n))
}

func (r *rng) int63n(n int64) int64 {
	if n <= 1 {
		return 0
	}
	return int64(r.next() % uint64(n))
}

func mix(vs ...uint64) uint64 {
	h := uint64(0x13198A2E03707344)
	for _, v := range vs {
		r := rng(h ^ v)
		h = r.next()
	}
	return h
}

var (
	run    *vlib.Run
	evals  atomic.Int64
	gclock atomic.Int64 // virtual clock of package rtptime (ns since the Unix epoch)
)

// acc collects counters / maxima locally (one per job) so that the hot paths do not contend on the
// Run's mutex.
type acc struct {
	cnt map[string]int64
	max map[string]int64
}

func newAcc() *acc { return &acc{cnt: map[string]int64{}, max: map[string]int64{}} }

func (a *acc) count(k string, n int64) { a.cnt[k] += n }

func (a *acc) maxv(k string, v int64) {
	if cur, ok := a.max[k]; !ok || v > cur {
		a.max[k] = v
	}
}

func (a *acc) flush() {
	for k, v := range a.cnt {
		run.Count(k, v)
	}
	for k, v := range a.max {
		run.Max(k, v)
	}
	clear(a.cnt)
	clear(a.max)
}

var stdRates = []int{8000, 11025, 16000, 22050, 44100, 48000, 90000}

func pickRate(r *rng) int {
	switch r.intn(10) {
	case 0, 1, 2, 3, 4, 5:
		return stdRates[r.intn(len(stdRates))]
	case 6:
		return 1 + r.intn(1000)
	case 7:
		return 1 + r.intn(1<<20)
	case 8:
		return []int{1, 2, 3, 1000, 1000000, 1 << 30, 1<<31 - 1, 1<<31 - 2}[r.intn(8)]
	default:
		return 1 + int(r.next()%(1<<31-1)) // 1..2^31-1
	}
}

func pickTS0(r *rng) uint32 {
	switch r.intn(10) {
	case 0:
		return 0
	case 1:
		return 1 << 31
	case 2:
		return 1<<32 - 1
	case 3:
		return 1<<31 - 1
	case 4:
		return 1<<32 - 1 - uint32(r.intn(100000))
	case 5:
		return uint32(r.intn(100000))
	default:
		return uint32(r.next())
	}
}

type track struct {
	rate int
	eq   bool
}

func (t *track) ClockRate() int                { return t.rate }
func (t *track) PTSEqualsDTS(*rtp.Packet) bool { return t.eq }

// witness / replay description: every case is a pure function of (clause, seed, long).
type caseSpec struct {
	Clause string         `json:"clause"` // pts | place | ntp | codec
	Seed   uint64         `json:"case_seed"`
	Long   bool           `json:"long,omitempty"`
	Value  uint64         `json:"value,omitempty"` // codec: Unix nanoseconds (dir=0) or NTP value (dir=1)
	Dir    int            `json:"dir,omitempty"`
	Detail map[string]any `json:"detail,omitempty"` // the concrete numbers of the failing observation
}

// ---------------------------------------------------------------------------------------------
// (a) PTS differences

const maxStep = 1<<31 - 1

type stepGen struct {
	pattern int
	c       int64
	i       int
}

var patternNames = []string{"forward-const", "b-frames", "alternate-max", "uniform", "forward-big", "backward-const", "small-random", "boundary"}

func newStepGen(r *rng) stepGen {
	g := stepGen{pattern: r.intn(len(patternNames))}
	switch r.intn(4) {
	case 0:
		g.c = []int64{1, 160, 960, 1024, 3000, 3600, 90000}[r.intn(7)]
	case 1:
		g.c = 1 + r.int63n(1<<20)
	case 2:
		g.c = 1 + r.int63n(maxStep)
	default:
		g.c = 1 + r.int63n(5000)
	}
	return g
}

// next returns the next step and whether the packet carries PTS == DTS.
func (g *stepGen) next(r *rng) (int64, bool) {
	g.i++
	switch g.pattern {
	case 0:
		return g.c, true
	case 1: // decode order I P B B P B B ...: presentation positions 0 3 1 2 6 4 5 ...
		d := g.c%100000 + 1
		switch g.i % 3 {
		case 1:
			if g.i == 1 {
				return 3 * d, true
			}
			return 4 * d, true
		case 2:
			return -2 * d, false
		default:
			return d, false
		}
	case 2:
		if g.i%2 == 1 {
			return maxStep, r.intn(2) == 0
		}
		return -maxStep, r.intn(2) == 0
	case 3:
		return r.int63n(2*maxStep+1) - maxStep, r.intn(3) != 0
	case 4:
		return maxStep - r.int63n(1<<30), true
	case 5:
		return -g.c, r.intn(2) == 0
	case 6:
		return r.int63n(2001) - 1000, r.intn(3) != 0
	default:
		return []int64{maxStep, -maxStep, maxStep - 1, -maxStep + 1, 1, -1, 0, 1 << 30, -(1 << 30)}[r.intn(9)], r.intn(2) == 0
	}
}

type trackA struct {
	tr      track
	ts0     uint32
	gen     stepGen
	x       int64 // intended position: sum of all steps so far
	n       int
	started bool
	basePTS int64
	baseX   int64
	wraps   int64
	back    bool
}

func caseA(seed uint64, long bool, a *acc) {
	r := rng(seed)
	dec := &rtptime.GlobalDecoder{}
	dec.Initialize()
	nTracks := 1 + r.intn(3)
	if long {
		nTracks = 1 + r.intn(2)
	}
	tracks := make([]*trackA, nTracks)
	for i := range tracks {
		tracks[i] = &trackA{tr: track{rate: pickRate(&r)}, ts0: pickTS0(&r), gen: newStepGen(&r)}
	}
	n := 8 + r.intn(120)
	if run.WantSample() {
		rates := []int{}
		for _, t := range tracks {
			rates = append(rates, t.tr.rate)
		}
		run.Sample(map[string]any{"clause": "pts-continuation", "seed": seed, "tracks": nTracks, "clock_rates": rates, "first_timestamp": tracks[0].ts0, "long": long})
	}
	if long {
		n = 100000
		for _, t := range tracks { // steps that cross 2^32 hundreds / thousands of times
			t.gen.pattern = []int{3, 4, 0, 2}[r.intn(4)]
			if t.gen.pattern == 0 {
				t.gen.c = 1<<28 + r.int63n(1<<30)
			}
		}
	}
	var pkt rtp.Packet
	var wraps, decodes int64
	anyBack := false
	for i := 0; i < n; i++ {
		t := tracks[r.intn(nTracks)]
		eq := true
		if t.n > 0 {
			var s int64
			s, eq = t.gen.next(&r)
			before := (int64(t.ts0) + t.x) >> 32
			t.x += s
			if (int64(t.ts0)+t.x)>>32 != before {
				t.wraps++
			}
			if s < 0 {
				t.back = true
			}
		} else if r.intn(4) == 0 {
			eq = false // a track cannot start on such a packet
		}
		t.n++
		t.tr.eq = eq
		pkt.Timestamp = uint32(int64(t.ts0) + t.x)
		pts, ok := dec.Decode(&t.tr, &pkt)
		decodes++
		switch {
		case !t.started:
			if ok {
				t.started, t.basePTS, t.baseX = true, pts, t.x
			}
		case !ok:
			run.Violation("pts/no-value", fmt.Sprintf("GlobalDecoder.Decode returns no PTS for a packet of a started track (clock rate %d, step #%d)", t.tr.rate, t.n),
				caseSpec{Clause: "pts", Seed: seed, Long: long})
			return
		case pts-t.basePTS != t.x-t.baseX:
			run.Violation("pts/diff-mismatch", fmt.Sprintf(
				"PTS difference %d != accumulated signed steps %d (clock rate %d, initial timestamp %d, pattern %s, packet #%d of the track, timestamp %d)",
				pts-t.basePTS, t.x-t.baseX, t.tr.rate, t.ts0, patternNames[t.gen.pattern], t.n, pkt.Timestamp),
				caseSpec{Clause: "pts", Seed: seed, Long: long, Detail: map[string]any{
					"clock_rate": t.tr.rate, "initial_timestamp": t.ts0, "pattern": patternNames[t.gen.pattern], "packet_index": t.n,
					"got_difference": pts - t.basePTS, "want_difference": t.x - t.baseX}})
			return
		}
	}
	for _, t := range tracks {
		wraps += t.wraps
		anyBack = anyBack || t.back
	}
	a.count("evals", 1)
	a.count("pts/sequences", 1)
	a.count("pts/tracks", int64(nTracks))
	a.count("pts/decodes", decodes)
	a.count("pts/wraps-crossed", wraps)
	a.maxv("pts/max-wraps-in-one-sequence", wraps)
	if wraps > 0 || anyBack {
		run.DistinctHash(mix(1, seed))
	}
}

// ---------------------------------------------------------------------------------------------
// (b) placement of a later track; runs on ONE goroutine, the only writer of gclock

var bigE9 = big.NewInt(1_000_000_000)

func pickElapsed(r *rng) int64 {
	switch r.intn(10) {
	case 0:
		return 0
	case 1:
		return 1 + r.int63n(1000)
	case 2:
		return r.int63n(int64(time.Second))
	case 3:
		return int64(time.Second) * (1 + r.int63n(60))
	case 4:
		return int64(time.Hour) + r.int63n(int64(time.Hour))
	case 5:
		return 30*int64(time.Hour) + r.int63n(int64(time.Hour)) // > 2^63 / (1e9 * 90000) ns
	case 6:
		return 24 * int64(time.Hour) * (1 + r.int63n(30))
	default:
		return r.int63n(10 * int64(time.Second))
	}
}

func caseB(seed uint64, a *acc) {
	r := rng(seed)
	r1 := pickRate(&r)
	dec := &rtptime.GlobalDecoder{}
	dec.Initialize()
	gclock.Store(1_600_000_000_000_000_000 + r.int63n(1<<58))
	lead := &track{rate: r1, eq: true}
	gen := newStepGen(&r)
	ts := pickTS0(&r)
	var pkt rtp.Packet
	var pStar, tStar int64 // PTS / instant of the lead's last synchronisation point
	var base, x int64
	spec := caseSpec{Clause: "place", Seed: seed}

	leadPacket := func(first bool) bool {
		eq := true
		if !first {
			var s int64
			s, eq = gen.next(&r)
			x += s
			ts += uint32(s)
			gclock.Add(pickElapsed(&r) / 16)
		}
		lead.eq = eq
		pkt.Timestamp = ts
		pts, ok := dec.Decode(lead, &pkt)
		if !ok {
			run.Violation("pts/no-value", "Decode returns no PTS for the leading track", spec)
			return false
		}
		if first {
			base = pts
		} else if pts-base != x {
			run.Violation("pts/diff-mismatch", fmt.Sprintf("leading track: PTS difference %d != accumulated steps %d", pts-base, x), spec)
			return false
		}
		if eq {
			pStar, tStar = pts, gclock.Load()
		}
		return true
	}
	if !leadPacket(true) {
		return
	}
	nLater := 1 + r.intn(3)
	for k := 0; k < nLater; k++ {
		for j := r.intn(5); j > 0; j-- {
			if !leadPacket(false) {
				return
			}
		}
		gclock.Add(pickElapsed(&r))
		r2 := pickRate(&r)
		tr := &track{rate: r2, eq: true}
		if r.intn(6) == 0 { // first a packet on which the track cannot start, then time passes
			tr.eq = false
			pkt.Timestamp = uint32(r.next())
			_, _ = dec.Decode(tr, &pkt)
			tr.eq = true
			gclock.Add(pickElapsed(&r) / 4)
		}
		ts2 := pickTS0(&r)
		pkt.Timestamp = ts2
		got, ok := dec.Decode(tr, &pkt)
		elapsed := gclock.Load() - tStar
		// exact value = pStar*r2/r1 + elapsed*r2/1e9 = num/den
		num := new(big.Int).Mul(big.NewInt(pStar), big.NewInt(int64(r2)))
		num.Mul(num, bigE9)
		e := new(big.Int).Mul(big.NewInt(elapsed), big.NewInt(int64(r2)))
		e.Mul(e, big.NewInt(int64(r1)))
		num.Add(num, e)
		den := new(big.Int).Mul(big.NewInt(int64(r1)), bigE9)
		if q := new(big.Int).Quo(num, den); q.BitLen() > 60 {
			a.count("place/skipped-exact-value-beyond-2^60-ticks", 1)
			continue
		}
		a.count("evals", 1)
		a.count("place/later-tracks", 1)
		detail := func() map[string]any {
			return map[string]any{"lead_clock_rate": r1, "lead_pts_at_sync_point": pStar, "elapsed_ns_since_sync_point": elapsed,
				"new_clock_rate": r2, "got_pts": got, "exact_pts": new(big.Rat).SetFrac(num, den).FloatString(3)}
		}
		if !ok {
			spec.Detail = detail()
			run.Violation("pts/second-track-no-value", "Decode returns no PTS for the first packet (PTS == DTS) of a later track", spec)
			return
		}
		diff := new(big.Int).Mul(big.NewInt(got), den)
		diff.Sub(diff, num).Abs(diff)
		milli := new(big.Int).Mul(diff, big.NewInt(1000))
		milli.Quo(milli, den)
		if milli.IsInt64() {
			a.maxv("place/max-error-milliticks (tolerance 2000)", milli.Int64())
			if milli.Int64() >= 1000 {
				a.count("place/error-between-1-and-2-ticks", 1)
			}
		}
		if diff.Cmp(new(big.Int).Lsh(den, 1)) >= 0 { // >= 2 ticks
			spec.Detail = detail()
			run.Violation("pts/second-track-placement", fmt.Sprintf(
				"later track (clock rate %d) placed at PTS %d; leading track (clock rate %d) was at PTS %d, %d ns before => exact position %s",
				r2, got, r1, pStar, elapsed, spec.Detail["exact_pts"]), spec)
			return
		}
		if k == 0 {
			run.DistinctHash(mix(2, seed))
		}
		// the later track then continues exactly (clause a)
		g2 := newStepGen(&r)
		var x2 int64
		for j := r.intn(4); j > 0; j-- {
			s, eq := g2.next(&r)
			x2 += s
			tr.eq = eq
			pkt.Timestamp = ts2 + uint32(x2)
			p, ok := dec.Decode(tr, &pkt)
			if !ok || p-got != x2 {
				run.Violation("pts/diff-mismatch", fmt.Sprintf("later track: PTS difference %d != accumulated steps %d", p-got, x2), spec)
				return
			}
		}
	}
}

// ---------------------------------------------------------------------------------------------
// (c) sender report -> receiver -> PacketNTP

func gcd(a, b int64) int64 {
	for b != 0 {
		a, b = b, a%b
	}
	return a
}

const maxNTPUnix = 2085978496 // 2036-02-07T06:28:16Z: first second not representable in NTP era 0

func caseC(seed uint64, a *acc) {
	r := rng(seed)
	rate := pickRate(&r)
	var clk atomic.Int64 // virtual system clock shared by Sender and Receiver (the Sender's own goroutine reads it too)
	now := func() time.Time { return time.Unix(0, clk.Load()) }
	clk.Store(int64(time.Hour) + r.int63n(int64(maxNTPUnix-100*86400)*1e9))

	// The writer's clock is affine: media position x (ticks, 64 bit) <-> instant n0 + x/rate.
	// Packets given to the Sender sit on positions where that instant is a whole nanosecond.
	q := int64(1e9) / gcd(1e9, int64(rate)) // ns granularity: x = k*q*rate/1e9 is an integer
	ticksPerQ := q * int64(rate) / 1e9
	n0 := int64(86400e9) + r.int63n(int64(maxNTPUnix-60*86400)*1e9-int64(86400e9)) // 1970-01-02 .. ~2035-12
	ts0 := pickTS0(&r)
	spec := caseSpec{Clause: "ntp", Seed: seed}
	if run.WantSample() {
		run.Sample(map[string]any{"clause": "ntp-mapping", "seed": seed, "clock_rate": rate, "writer_epoch_unix_ns": n0, "first_timestamp": ts0})
	}

	rs := &rtpsender.Sender{ClockRate: rate, Period: 24 * time.Hour, TimeNow: now, WritePacketRTCP: func(rtcp.Packet) {}}
	rs.Initialize()
	defer rs.Close()
	rr := &rtpreceiver.Receiver{ClockRate: rate, LocalSSRC: 1, Period: 24 * time.Hour, TimeNow: now, WritePacketRTCP: func(rtcp.Packet) {}}
	if err := rr.Initialize(); err != nil {
		run.Fatal("Receiver.Initialize: %v", err)
	}
	defer rr.Close()

	bigRate := big.NewInt(int64(rate))
	tol := new(big.Int).Add(bigE9, big.NewInt(2*int64(rate))) // (1 tick + 2 ns) * rate, in ns*rate
	// exactTimesRate: (n0 + x/rate seconds) * rate, in ns*rate
	exactTimesRate := func(x int64) *big.Int {
		v := new(big.Int).Mul(big.NewInt(n0), bigRate)
		return v.Add(v, new(big.Int).Mul(big.NewInt(x), bigE9))
	}
	var k int64 // position of the last packet in units of q
	var pkt rtp.Packet
	pkt.SSRC = 0xABCD
	seqn := uint16(r.next())
	rounds := 1 + r.intn(4)
	for rd := 0; rd < rounds; rd++ {
		// the writer sends some packets
		var xLast int64
		for j := 1 + r.intn(4); j > 0; j-- {
			switch r.intn(4) {
			case 0:
				k += 1 + r.int63n(1000)
			case 1:
				k += 1 + r.int63n(max(1, int64(time.Hour)/q))
			default:
				k += 1 + r.int63n(max(1, int64(time.Second)/q))
			}
			if k*q > int64(50*86400e9) {
				break
			}
			xLast = k * ticksPerQ
			pkt.SequenceNumber = seqn
			seqn++
			pkt.Timestamp = ts0 + uint32(xLast)
			clk.Add(r.int63n(int64(50 * time.Millisecond)))
			rs.ProcessPacket(&pkt, time.Unix(0, n0+k*q), true)
			if r.intn(3) == 0 { // a B-frame-like packet: earlier presentation time, does not move the sender's reference
				back := 1 + r.int63n(3000)
				p2 := rtp.Packet{Header: rtp.Header{SequenceNumber: seqn, Timestamp: pkt.Timestamp - uint32(back), SSRC: pkt.SSRC}}
				seqn++
				rs.ProcessPacket(&p2, time.Unix(0, n0+k*q).Add(-time.Duration(back)*time.Second/time.Duration(rate)), false)
			}
			rr.ProcessPacket2(&pkt, now(), true)
		}
		if xLast == 0 {
			break
		}
		// the report is produced some virtual time after the last packet (the "report period")
		var delay int64
		switch r.intn(6) {
		case 0:
			delay = int64(time.Millisecond)
		case 1:
			delay = int64(time.Hour)
		case 2:
			delay = r.int63n(int64(time.Hour))
		case 3:
			delay = 10 * int64(time.Second)
		case 4:
			delay = int64(time.Millisecond) * (1 + r.int63n(1000)) // exact products delay*rate: floor at an integer boundary
		default:
			delay = r.int63n(int64(20 * time.Second))
		}
		clk.Add(delay)
		sr, _ := rs.VerifReport().(*rtcp.SenderReport)
		if sr == nil {
			run.Violation("ntp/no-sender-report", "Sender.VerifReport() returned no sender report after packets were sent", spec)
			return
		}
		// position of the report on the 64-bit media timeline: x_last + delay*rate (real-valued);
		// the 32-bit value in the report selects the integer position next to it
		adv := new(big.Int).Mul(big.NewInt(delay), bigRate)
		adv.Quo(adv, bigE9)
		if !adv.IsInt64() || adv.Int64() > 1<<44 {
			continue
		}
		if adv.Int64() >= 1<<32 {
			a.count("ntp/reports-with-rtp-advance>=2^32", 1)
		}
		xNominal := xLast + adv.Int64()
		xSR := xNominal + int64(int32(sr.RTPTime-(ts0+uint32(xNominal))))
		if r.intn(8) == 0 {
			clk.Add(r.int63n(int64(time.Second))) // network delay before the receiver sees the report
		}
		rr.ProcessSenderReport(sr, now())
		a.count("ntp/sender-reports", 1)

		query := func(delta int64, class string) bool {
			xq := xSR + delta
			tsq := ts0 + uint32(xq)
			got, ok := rr.PacketNTP(tsq)
			a.count("evals", 1)
			a.count(class, 1)
			if !ok {
				run.Violation("ntp/packet-ntp-unavailable", "PacketNTP returns no value after a sender report was processed", spec)
				return false
			}
			diff := new(big.Int).Mul(big.NewInt(got.UnixNano()), bigRate)
			diff.Sub(diff, exactTimesRate(xq)).Abs(diff)
			// error beyond one tick, in picoseconds (negative: within one tick)
			ex := new(big.Int).Sub(diff, bigE9)
			ex.Mul(ex, big.NewInt(1000)).Quo(ex, bigRate)
			if ex.IsInt64() {
				a.maxv("ntp/max-error-beyond-one-tick-ps (tolerance 2000)", ex.Int64())
			}
			if diff.Cmp(tol) > 0 {
				want := new(big.Rat).SetFrac(exactTimesRate(xq), bigRate)
				spec.Detail = map[string]any{"clock_rate": rate, "timestamp": tsq, "class": class, "ticks_from_report": delta,
					"report_rtp": sr.RTPTime, "report_ntp": sr.NTPTime, "report_delay_ns": delay,
					"got_unix_ns": got.UnixNano(), "want_unix_ns": want.FloatString(3)}
				run.Violation("ntp/packet-ntp-off", fmt.Sprintf(
					"PacketNTP(%d) = %d ns, the writer's clock maps that timestamp to %s ns: off by more than one tick (%.3f ns) + 2 ns (clock rate %d, %s, %d ticks from the report)",
					tsq, got.UnixNano(), want.FloatString(3), 1e9/float64(rate), rate, class, delta), spec)
				return false
			}
			return true
		}
		lim := int64(1<<31 - 2)
		oks := query(0, "ntp/queries:at-report") && (xSR-xLast > lim || query(xLast-xSR, "ntp/queries:last-packet")) &&
			query(-r.int63n(lim), "ntp/queries:earlier") && query(r.int63n(lim), "ntp/queries:later") &&
			query(-r.int63n(min(lim, int64(rate)*20+2)), "ntp/queries:earlier-near") && query(r.int63n(min(lim, int64(rate)*20+2)), "ntp/queries:later-near") &&
			query(lim, "ntp/queries:latest") && query(-lim, "ntp/queries:earliest")
		if !oks {
			return
		}
		// a timestamp on the other side of the 32-bit wrap, when one is within reach
		for _, d := range []int64{int64(-uint32(ts0+uint32(xSR))) + r.int63n(1000), -int64(ts0+uint32(xSR)) - 1 - r.int63n(1000)} {
			if d >= -lim && d <= lim {
				if !query(d, "ntp/queries:across-32bit-wrap") {
					return
				}
			}
		}
		// Stats().LastNTP is the same mapping applied to the last packet with PTS == DTS
		// (only while that packet is within the 2^31-tick window of the report)
		if st := rr.Stats(); st != nil && !st.LastNTP.IsZero() && xSR-xLast <= lim {
			a.count("ntp/stats-last-ntp-compared", 1)
			diff := new(big.Int).Mul(big.NewInt(st.LastNTP.UnixNano()), bigRate)
			diff.Sub(diff, exactTimesRate(xLast)).Abs(diff)
			if diff.Cmp(tol) > 0 {
				run.Violation("ntp/stats-last-ntp-off", fmt.Sprintf("Stats().LastNTP = %d ns for the last packet, the writer associated %d ns (clock rate %d)",
					st.LastNTP.UnixNano(), n0+k*q, rate), spec)
				return
			}
		}
		if rd == 0 {
			run.DistinctHash(mix(3, seed))
		}
	}
}

// ---------------------------------------------------------------------------------------------
// (d) NTP codec

const lastNs = int64(maxNTPUnix)*1e9 - 1 // 2036-02-07T06:28:15.999999999Z

func codecInstant(ns int64) bool {
	t := time.Unix(0, ns)
	back := ntp.Decode(ntp.Encode(t))
	if d := back.UnixNano() - ns; d < -1 || d > 1 {
		run.Violation("ntp/encode-decode", fmt.Sprintf("Decode(Encode(%s)) = %s: %d ns apart", t.UTC().Format(time.RFC3339Nano), back.UTC().Format(time.RFC3339Nano), d),
			caseSpec{Clause: "codec", Value: uint64(ns), Dir: 0})
		return false
	}
	return true
}

// codecValue checks Encode(Decode(v)) against v: less than one nanosecond = 2^32/1e9 = 4.29.. units.
func codecValue(v uint64) bool {
	w := ntp.Encode(ntp.Decode(v))
	d := int64(w - v)
	if d < -4 || d > 4 {
		run.Violation("ntp/decode-encode", fmt.Sprintf("Encode(Decode(%#x)) = %#x: %d units of 2^-32 s apart (one nanosecond is 4.29 units)", v, w, d),
			caseSpec{Clause: "codec", Value: v, Dir: 1})
		return false
	}
	return true
}

type codecStats struct {
	instants, values, offByOne int64
	maxNs, maxUnits            int64
}

func (c *codecStats) instant(ns int64) bool {
	c.instants++
	back := ntp.Decode(ntp.Encode(time.Unix(0, ns))).UnixNano()
	d := back - ns
	if d < 0 {
		d = -d
	}
	if d > c.maxNs {
		c.maxNs = d
	}
	if d == 1 {
		c.offByOne++
	}
	if d > 1 {
		return codecInstant(ns)
	}
	return true
}

func (c *codecStats) value(v uint64) bool {
	c.values++
	d := int64(ntp.Encode(ntp.Decode(v)) - v)
	if d < 0 {
		d = -d
	}
	if d > c.maxUnits {
		c.maxUnits = d
	}
	if d > 4 {
		return codecValue(v)
	}
	return true
}

func (c *codecStats) flush() {
	evals.Add(c.instants + c.values)
	if c.instants == 0 && c.values == 0 {
		return
	}
	run.Count("codec/instants", c.instants)
	run.Count("codec/instants-decoded-1ns-early-or-late", c.offByOne)
	run.Count("codec/ntp-values", c.values)
	run.Max("codec/max-|Decode(Encode(t))-t|-ns (tolerance 1)", c.maxNs)
	run.Max("codec/max-|Encode(Decode(v))-v|-units (tolerance 4)", c.maxUnits)
}

// ---------------------------------------------------------------------------------------------

func replay() {
	var cs caseSpec
	if err := run.LoadReplay(&cs); err != nil {
		run.Fatal("cannot load replay: %v", err)
	}
	a := newAcc()
	defer a.flush()
	switch cs.Clause {
	case "pts":
		caseA(cs.Seed, cs.Long, a)
	case "place":
		caseB(cs.Seed, a)
	case "ntp":
		caseC(cs.Seed, a)
	case "codec":
		if cs.Dir == 0 {
			codecInstant(int64(cs.Value))
		} else {
			codecValue(cs.Value)
		}
		evals.Add(1)
	default:
		run.Fatal("unknown clause %q", cs.Clause)
	}
	a.flush()
	run.Finish(evals.Load()+run.Get("evals"), "replay")
}

func panicHandler(clause string) func(i int, v any, stack string) {
	return func(i int, v any, stack string) {
		run.Violation(vlib.PanicSite(stack)+"/panic", fmt.Sprintf("clause %s, job %d: panic: %v", clause, i, v), map[string]any{"clause": clause, "job": i, "stack": stack})
	}
}

func main() {
	run = vlib.Start("C15", "exploration")
	rtptime.VerifSetTimeNow(func() time.Time { return time.Unix(0, gclock.Load()) })
	gclock.Store(1_600_000_000_000_000_000)
	if run.Replay != "" {
		replay()
		return
	}
	seed := uint64(run.Seed)
	t0 := time.Now() // phase durations are informational only (evidence), never part of a verdict
	phases := map[string]float64{}
	lap := func(name string) { phases[name] = time.Since(t0).Seconds() }

	// (b) on its own goroutine, the only writer of the rtptime clock
	nB := run.Pick(1_000_000, 24_000_000)
	bDone := make(chan struct{})
	go func() {
		defer close(bDone)
		defer func() {
			if v := recover(); v != nil {
				st := vlib.Stack()
				run.Violation(vlib.PanicSite(st)+"/panic", fmt.Sprintf("clause place: panic: %v", v), map[string]any{"clause": "place", "stack": st})
			}
		}()
		a := newAcc()
		defer a.flush()
		for i := 0; i < nB && run.Violations() == 0; i++ {
			caseB(mix(seed, 0xB, uint64(i)), a)
		}
	}()

	// (a)
	const shard = 4096
	nA := run.Pick(2_000_000, 48_000_000)
	run.Parallel(nA/shard, func(_, job int) {
		a := newAcc()
		defer a.flush()
		for i := 0; i < shard; i++ {
			caseA(mix(seed, 0xA, uint64(job), uint64(i)), false, a)
		}
	}, panicHandler("pts"))
	lap("pts-done-at")
	nLong := run.Pick(64, 2048)
	run.Parallel(nLong, func(_, job int) {
		a := newAcc()
		defer a.flush()
		caseA(mix(seed, 0xA1, uint64(job)), true, a)
	}, panicHandler("pts-long"))

	lap("pts-long-done-at")
	// (c)
	nC := run.Pick(300_000, 12_000_000)
	run.Parallel(nC/1000, func(_, job int) {
		a := newAcc()
		defer a.flush()
		for i := 0; i < 1000 && run.Violations() == 0; i++ {
			caseC(mix(seed, 0xC, uint64(job), uint64(i)), a)
		}
	}, panicHandler("ntp"))

	lap("ntp-done-at")
	// (d) systematic part
	// d1: the nanoseconds around every second boundary of the first / last 2000 seconds of the range and of
	//     seconds spread over the whole range; d2: every nanosecond of (a part of) one second
	run.Parallel(64, func(_, job int) {
		var c codecStats
		defer c.flush()
		for i := 0; i < 2000; i++ {
			var sec int64
			switch job % 4 {
			case 0:
				sec = int64(job/4*2000 + i) // from 1970-01-01
			case 1:
				sec = maxNTPUnix - int64(job/4*2000+i) // down from 2036-02-07T06:28:16
			default:
				sec = int64(mix(seed, 0xD1, uint64(job), uint64(i)) % maxNTPUnix)
			}
			for d := int64(-3); d <= 3; d++ {
				if ns := sec*1e9 + d; ns >= 0 && ns <= lastNs {
					if !c.instant(ns) {
						return
					}
				}
			}
		}
	}, panicHandler("codec"))
	// the fractional part of Encode depends only on the nanosecond within the second, the integer part only
	// on the second: all 10^9 fractions at one second (thorough) / 2*10^7 of them (quick) + sampled seconds
	nFrac := int64(run.Pick(20_000_000, 1_000_000_000))
	const fracJobs = 1000
	run.Parallel(fracJobs, func(_, job int) {
		var c codecStats
		defer c.flush()
		sec := int64(mix(seed, 0xD2)%uint64(maxNTPUnix)) * 1e9
		per := nFrac / fracJobs
		lo := int64(job) * per
		if nFrac < 1e9 && job%2 == 1 { // quick: half of the budget at the end of the second
			lo = 1e9 - int64(job+1)*per
		}
		ntpSecs := uint64(sec/1e9+2208988800) << 32
		for ns := lo; ns < lo+per; ns++ {
			if !c.instant(sec + ns) {
				return
			}
			// the other direction: the smallest and the largest NTP fraction that Decode maps to this
			// nanosecond (Decode is monotonic, so these are the extremes of Encode(Decode(v)) - v)
			fmin := (uint64(ns)<<32 + 999_999_999) / 1_000_000_000
			fmax := (uint64(ns+1)<<32+999_999_999)/1_000_000_000 - 1
			if !c.value(ntpSecs|fmin) || !c.value(ntpSecs|fmax) {
				return
			}
		}
	}, panicHandler("codec"))
	if nFrac == 1e9 {
		run.Extra("codec_exhaustive_subspace", "all 10^9 nanosecond fractions of one second, and for each the smallest and largest NTP fraction decoding to it (the NTP fraction depends only on the nanosecond within the second)")
	}
	// sampled instants over the whole range and sampled NTP values
	nD := run.Pick(5_000_000, 500_000_000)
	run.Parallel(nD/100_000, func(_, job int) {
		var c codecStats
		defer c.flush()
		r := rng(mix(seed, 0xD3, uint64(job)))
		for i := 0; i < 100_000; i++ {
			if !c.instant(r.int63n(lastNs + 1)) {
				return
			}
			if i%4 == 0 {
				secs := uint64(2208988800) + r.next()%uint64(maxNTPUnix)
				frac := r.next() & 0xFFFFFFFF
				switch r.intn(8) {
				case 0:
					frac = uint64(r.intn(16))
				case 1:
					frac = 0xFFFFFFFF - uint64(r.intn(16))
				}
				if !c.value(secs<<32 | frac) {
					return
				}
			}
		}
	}, panicHandler("codec"))

	lap("codec-done-at")
	<-bDone
	lap("place-done-at")
	run.Extra("phase_end_wall_s", phases)

	if run.Violations() == 0 && (run.Get("pts/wraps-crossed") == 0 || run.Get("place/later-tracks") == 0 ||
		run.Get("ntp/sender-reports") == 0 || run.Get("codec/instants") == 0) {
		run.Fatal("a clause observed nothing")
	}
	run.Extra("clock_rates", fmt.Sprintf("%v + PRNG values 1..2^31-1", stdRates))
	run.Assume("(a) Decode returns int64 ticks of the track's clock rate and accumulates int64(int32(ts-prev)): no rounding on this path, differences are compared exactly; |sum of steps| < 2^51")
	run.Assume("(b) the statement gives no numeric tolerance; the API returns integer ticks and rescales leadPTS*rate2/rate1 and elapsed*rate2/1e9 separately, each truncated towards zero (multiplyAndDivide), so < 2 ticks of the new track's clock from the exact rational value is the inherent rounding and is the tolerance used; the measured maximum is in maxima")
	run.Assume("(b) 'the leading track's timeline' is anchored at the leading track's last packet with PTS == DTS (the decoder's synchronisation point) and advances with the virtual clock; cases whose exact value exceeds 2^60 ticks are not compared")
	run.Assume("(c) writer clock is affine: timestamp x <-> n0 + x/rate; packets handed to the Sender sit where that instant is a whole nanosecond; Sender and Receiver share one virtual TimeNow; tolerance = one tick (1e9/rate ns, exact rational) + 2 ns, evaluated in exact integer arithmetic; queried timestamps lie within +-(2^31-2) ticks of the report's RTP time")
	run.Assume("(c) RTP advance between last packet and report may exceed 2^32 ticks for very high clock rates; the float64->uint32 conversion in the sender then relies on the platform's wrap-around behaviour (amd64)")
	run.Assume("(d) instants 1970-01-01T00:00:00Z .. 2036-02-07T06:28:15.999999999Z (NTP era 0 with non-negative Unix time); 'within a nanosecond' for NTP values = at most 4 units of 2^-32 s")
	run.Finish(evals.Load()+run.Get("evals"),
		"(a) PRNG step sequences (8 patterns: constant, B-frame reordering, +-(2^31-1) alternation, uniform, big forward, backward, small random, boundary values) over 1..3 interleaved tracks, "+
			"clock rates {8000..90000} + PRNG 1..2^31-1, initial timestamps incl. 0, 2^31, 2^32-1, plus 10^5-step sequences crossing 2^32 thousands of times; "+
			"(b) leading track + 1..3 later tracks with virtual elapsed times 0..30 days; (c) sender/receiver pairs on a virtual clock, 1..4 reports each, 8..10 queried timestamps per report "+
			"(earlier/later/near/extreme/across the 32-bit wrap); (d) second boundaries +-3 ns, a contiguous nanosecond sweep of one second, sampled instants and NTP values. "+
			"distinct_nontrivial = distinct (a) sequences with a wrap or a backward step + (b) placed later tracks + (c) compared reports; (d) instants are counted in counters only")
}
