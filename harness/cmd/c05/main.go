// C05: stream descriptions survive the SDP round trip.
//
// Monitors (all over real executions of pkg/description, pkg/format, pkg/sdpunmarshaler):
//   - round trip: for generated valid descriptions d, parse(d.Marshal()) equals d on the fields the
//     statement lists (compare.go), where parse = sdpunmarshaler.Unmarshal + Session.Unmarshal2
//   - totality: parse never panics, on any input (inputs.go)
//   - idempotence: for every accepted text t with d = parse(t): d.Marshal() succeeds without panic
//     and parse(d.Marshal()) equals d (same comparison)
package main

import (
	"encoding/base64"
	"fmt"
	"math/rand"
	"sort"
	"strings"
	"sync/atomic"

	"github.com/bluenviron/gortsplib/v5/pkg/description"
	"github.com/bluenviron/gortsplib/v5/pkg/format"
	"github.com/bluenviron/gortsplib/v5/pkg/sdpunmarshaler"

	"verif/lib/vlib"
)

var (
	run   *vlib.Run
	evals atomic.Int64
)

// counts: coverage counters kept per Parallel worker (no lock) and flushed into the Run at the end.
type counts map[string]int64

var locals [1024]counts

func local(worker int) counts {
	if locals[worker] == nil {
		locals[worker] = counts{}
	}
	return locals[worker]
}

func flushCounts() {
	for _, c := range locals {
		for k, v := range c {
			run.Count(k, v)
		}
	}
}

type witness struct {
	Kind   string `json:"kind"` // "desc" (regenerated from seed+index) | "text"
	Seed   int64  `json:"seed,omitempty"`
	Index  int    `json:"index,omitempty"`
	Src    string `json:"src,omitempty"`
	SDP    string `json:"sdp"`               // Go-quoted, for reading
	SDPB64 string `json:"sdp_b64,omitempty"` // exact bytes
	Detail string `json:"detail,omitempty"`
	Desc   string `json:"description,omitempty"`
	Got    string `json:"reparsed,omitempty"`
	Class  string `json:"class,omitempty"`
	Stack  string `json:"stack,omitempty"`
}

func textWitness(kind, src string, t []byte) witness {
	return witness{Kind: kind, Src: src, SDP: fmt.Sprintf("%q", t), SDPB64: base64.StdEncoding.EncodeToString(t)}
}

// parse is the library's own way from SDP text to a description.
func parse(t []byte) (*description.Session, error) {
	ssd, err := sdpunmarshaler.Unmarshal(t)
	if err != nil {
		return nil, err
	}
	var d description.Session
	if err = d.Unmarshal2(ssd); err != nil {
		return nil, err
	}
	return &d, nil
}

func safeParse(t []byte) (d *description.Session, err error, site, stack string) {
	defer func() {
		if p := recover(); p != nil {
			stack, site = panicInfo(p)
		}
	}()
	d, err = parse(t)
	return
}

func safeMarshal(d *description.Session) (t []byte, err error, site, stack string) {
	defer func() {
		if p := recover(); p != nil {
			stack, site = panicInfo(p)
		}
	}()
	t, err = d.Marshal()
	return
}

func safeCompare(a, b *description.Session) (ds []diff, site, stack string) {
	defer func() {
		if p := recover(); p != nil {
			stack, site = panicInfo(p)
		}
	}()
	return dedupe(compareSession(a, b)), "", ""
}

// panicInfo renders a recovered panic and names the innermost gortsplib function. The frames of
// the deferred function itself (above "panic(") are cut off before classification.
func panicInfo(p any) (stack, site string) {
	st := vlib.Stack()
	if i := strings.Index(st, "\npanic("); i >= 0 {
		st = st[i+1:]
	}
	return fmt.Sprintf("panic: %v\n%s", p, st), vlib.PanicSite(st)
}

// culprit finds the format type whose single-format description is not re-parseable (to name a
// rejected marshalled text after the format that causes it).
func culprit(d *description.Session) string {
	for _, m := range d.Medias {
		for _, f := range m.Formats {
			one := &description.Session{Medias: []*description.Media{{Type: m.Type, Formats: []format.Format{f}}}}
			t, err, site, _ := safeMarshal(one)
			if err != nil || site != "" {
				return "format." + typeName(f)
			}
			if _, err, site, _ = safeParse(t); err != nil || site != "" {
				return "format." + typeName(f)
			}
		}
	}
	return "session"
}

func countShape(c counts, prefix string, d *description.Session) {
	c[fmt.Sprintf("%smedias:%d", prefix, len(d.Medias))]++
	for _, m := range d.Medias {
		c[fmt.Sprintf("%sformats-per-media:%d", prefix, len(m.Formats))]++
		for _, f := range m.Formats {
			c[prefix+"formats:"+typeName(f)]++
		}
	}
}

// checkDesc: oracle 1 on one generated description.
func checkDesc(c counts, d *description.Session, info *genInfo, w witness) {
	evals.Add(1)
	c["descriptions"]++
	countShape(c, "gen-", d)
	for _, f := range info.Features {
		c["gen-feature:"+f]++
	}
	for _, cs := range info.Classes {
		for _, cl := range cs {
			if !strings.HasSuffix(cl, ":") {
				c["gen-class:"+cl]++
			}
		}
	}
	violation := func(key, what string, w witness) { // witness details are rendered only when needed
		w.Class = fmt.Sprint(info.Classes, info.Features)
		w.Desc = vlib.Trunc(vlib.Dump(d), 6000)
		run.Violation(key, what, w)
	}

	t, err, site, stack := safeMarshal(d)
	if site != "" {
		w.Stack = stack
		violation("marshal/panic/"+site, "Session.Marshal panics on a valid description", w)
		return
	}
	if err != nil {
		violation(culprit(d)+"/roundtrip/marshal-error", fmt.Sprintf("Session.Marshal fails on a valid description: %v", err), w)
		return
	}
	w.SDP, w.SDPB64 = fmt.Sprintf("%q", t), base64.StdEncoding.EncodeToString(t)
	got, err, site, stack := safeParse(t)
	if site != "" {
		w.Stack = stack
		violation("parse/panic/"+site, "parsing the marshalled form of a valid description panics", w)
		return
	}
	if err != nil {
		violation(culprit(d)+"/roundtrip/parse-error", fmt.Sprintf("the marshalled form of a valid description is rejected: %v", err), w)
		return
	}
	ds, site, stack := safeCompare(d, got)
	if site != "" {
		w.Stack = stack
		violation("format-method/panic/"+site, "a Format method panics on a re-parsed description", w)
		return
	}
	for _, df := range ds {
		ww := w
		ww.Detail = df.Detail
		ww.Got = vlib.Trunc(vlib.Dump(got), 6000)
		violation(df.Scope+"/roundtrip/"+df.Field,
			fmt.Sprintf("parse(Marshal(d)) != d: %s.%s differs (%s)", df.Scope, df.Field, vlib.Trunc(df.Detail, 300)), ww)
	}
	if len(ds) == 0 {
		c["roundtrip-ok"]++
		run.Distinct("D|" + string(t))
		if run.WantSample() {
			run.Sample(map[string]any{"kind": "roundtrip", "sdp": string(t), "classes": info.Classes, "features": info.Features})
		}
	}
	if w.Index%4 == 0 {
		checkText(c, t, "marshalled")
	}
}

// checkText: oracle 2 on one parser input.
func checkText(c counts, t []byte, src string) {
	evals.Add(1)
	c["inputs:"+src]++
	d1, err, site, stack := safeParse(t)
	if site != "" {
		w := textWitness("text", src, t)
		w.Stack = stack
		run.Violation("parse/panic/"+site, "the SDP parser panics", w)
		return
	}
	if err != nil {
		c["rejected:"+src]++
		return
	}
	c["accepted:"+src]++
	countShape(c, "accepted-", d1)
	t2, err, site, stack := safeMarshal(d1)
	if site != "" {
		w := textWitness("text", src, t)
		w.Stack, w.Desc = stack, vlib.Trunc(vlib.Dump(d1), 6000)
		run.Violation("marshal/panic/"+site, "Session.Marshal panics on a description the parser accepted", w)
		return
	}
	if err != nil {
		w := textWitness("text", src, t)
		w.Desc = vlib.Trunc(vlib.Dump(d1), 6000)
		run.Violation("idempotence/session/marshal-error", fmt.Sprintf("an accepted description cannot be marshalled again: %v", err), w)
		return
	}
	d2, err, site, stack := safeParse(t2)
	if site != "" {
		w := textWitness("text", src, t)
		w.Stack, w.Detail = stack, fmt.Sprintf("re-marshalled: %q", t2)
		run.Violation("parse/panic/"+site, "the SDP parser panics on the re-marshalled form of an accepted description", w)
		return
	}
	if err != nil {
		w := textWitness("text", src, t)
		w.Desc, w.Detail = vlib.Trunc(vlib.Dump(d1), 6000), fmt.Sprintf("re-marshalled: %q", t2)
		run.Violation("idempotence/"+strings.TrimPrefix(culprit(d1), "format.")+"/reparse-error",
			fmt.Sprintf("an accepted description is marshalled to a text the parser rejects: %v", err), w)
		return
	}
	ds, site, stack := safeCompare(d1, d2)
	if site != "" {
		w := textWitness("text", src, t)
		w.Stack = stack
		run.Violation("format-method/panic/"+site, "a Format method panics on an accepted description", w)
		return
	}
	c["idempotence-checks"]++
	run.Distinct("T|" + string(t))
	for _, df := range ds {
		w := textWitness("text", src, t)
		w.Detail = df.Detail + fmt.Sprintf(" | re-marshalled: %q", t2)
		w.Desc, w.Got = vlib.Trunc(vlib.Dump(d1), 6000), vlib.Trunc(vlib.Dump(d2), 6000)
		run.Violation("idempotence/"+strings.TrimPrefix(df.Scope, "format.")+"/"+df.Field,
			fmt.Sprintf("parse(Marshal(parse(t))) != parse(t): %s.%s differs (%s)", df.Scope, df.Field, vlib.Trunc(df.Detail, 300)), w)
	}
	if len(ds) == 0 && src != "marshalled" && run.WantSample() && len(t) < 600 {
		run.Sample(map[string]any{"kind": "accepted-input", "src": src, "text": fmt.Sprintf("%q", t)})
	}
}

func genByIndex(i int) (*description.Session, *genInfo) {
	return genSession(run.Rand("desc", i))
}

func mikeyGen(r *rand.Rand) func() string {
	return func() string {
		b, err := genMikey(r).Marshal()
		if err != nil {
			return "AQAFAP1td+4BAAA="
		}
		return base64.StdEncoding.EncodeToString(b)
	}
}

func replay() {
	var w witness
	if err := run.LoadReplay(&w); err != nil {
		run.Fatal("cannot load replay: %v", err)
	}
	switch w.Kind {
	case "desc":
		run.Seed = w.Seed
		d, info := genByIndex(w.Index)
		checkDesc(local(0), d, info, witness{Kind: "desc", Seed: w.Seed, Index: w.Index})
	}
	if w.SDPB64 != "" {
		if t, err := base64.StdEncoding.DecodeString(w.SDPB64); err == nil {
			checkText(local(0), t, "replay")
		}
	}
	flushCounts()
	run.Finish(evals.Load(), "replay")
}

func main() {
	run = vlib.Start("C05", "exploration")
	if run.Replay != "" {
		replay()
		return
	}
	onPanic := func(what string) func(i int, v any, stack string) {
		return func(i int, v any, stack string) {
			// library panics are caught by the safe* wrappers; whatever arrives here went through harness code
			run.Violation("panic/"+vlib.PanicSite(stack), fmt.Sprintf("%s job %d: panic: %v", what, i, v), witness{Kind: "job", Index: i, Stack: stack})
		}
	}

	// ---- oracle 1: generated valid descriptions -------------------------------------------------
	nDesc := run.Pick(200_000, 8_000_000)
	const chunk = 500
	run.Parallel((nDesc+chunk-1)/chunk, func(wk, j int) {
		for i := j * chunk; i < (j+1)*chunk && i < nDesc; i++ {
			d, info := genByIndex(i)
			checkDesc(local(wk), d, info, witness{Kind: "desc", Seed: run.Seed, Index: i})
		}
	}, onPanic("descriptions"))

	// ---- oracle 2: parser inputs ----------------------------------------------------------------
	docs, counts := loadCorpus()
	total := 0
	for k, v := range counts {
		run.Count("corpus-docs:"+k, int64(v))
		total += v
	}
	if total < 60 {
		run.Fatal("only %d SDP documents found under %s", total, repoRoot())
	}
	// (b) every repository document as it is
	run.Parallel(len(docs), func(wk, i int) { checkText(local(wk), []byte(docs[i]), "corpus") }, onPanic("corpus"))

	// (c1) truncation at every offset of short documents (repository documents + generated ones)
	var short []string
	for _, d := range docs {
		if len(d) <= 700 {
			short = append(short, d)
		}
	}
	nGenTrunc := run.Pick(40, 2000)
	for k, tries := 0, 0; k < nGenTrunc && tries < 20*nGenTrunc; tries++ {
		d, _ := genSession(run.Rand("trunc", tries))
		if t, err, site, _ := safeMarshal(d); err == nil && site == "" && len(t) <= 700 {
			short = append(short, string(t))
			k++
		}
	}
	run.Count("truncated-documents", int64(len(short)))
	run.Parallel(len(short), func(wk, i int) {
		for n := 0; n < len(short[i]); n++ {
			checkText(local(wk), []byte(short[i][:n]), "truncated")
		}
	}, onPanic("truncations"))

	// (c2) mutations, (c3) synthesized rtpmap/fmtp combinations, (d) noise
	nMut := run.Pick(120_000, 5_000_000)
	nSynth := run.Pick(100_000, 4_000_000)
	nNoise := run.Pick(20_000, 400_000)
	const shards = 256
	run.Parallel(shards, func(wk, j int) {
		c := local(wk)
		r := run.Rand("inputs", j)
		mk := mikeyGen(r)
		for n := 0; n < nMut/shards; n++ {
			var base string
			if n%2 == 0 {
				base = docs[r.Intn(len(docs))]
			} else {
				d, _ := genSession(r)
				t, err, site, _ := safeMarshal(d)
				if err != nil || site != "" {
					continue
				}
				base = string(t)
			}
			checkText(c, []byte(mutateDoc(r, base, mk)), "mutated")
		}
		for n := 0; n < nSynth/shards; n++ {
			checkText(c, []byte(synthDoc(r, mk)), "synth")
		}
		for n := 0; n < nNoise/shards; n++ {
			checkText(c, []byte(noise(r)), "noise")
		}
	}, onPanic("inputs"))

	// ---- evidence -------------------------------------------------------------------------------
	flushCounts()
	var missing []string
	for _, tn := range typeNames {
		if run.Get("gen-formats:"+tn) == 0 {
			missing = append(missing, tn)
		}
	}
	if len(missing) > 0 {
		run.Fatal("format types never generated: %v", missing)
	}
	var accepted, inputs int64
	for _, s := range []string{"marshalled", "corpus", "truncated", "mutated", "synth", "noise"} {
		accepted += run.Get("accepted:" + s)
		inputs += run.Get("inputs:" + s)
	}
	if accepted == 0 || run.Get("descriptions") == 0 {
		run.Fatal("nothing observed (descriptions=%d accepted inputs=%d)", run.Get("descriptions"), accepted)
	}
	run.Extra("parser_inputs", inputs)
	run.Extra("parser_inputs_accepted", accepted)
	run.Extra("parser_inputs_rejected", inputs-accepted)
	var acceptedTypes []string
	for _, tn := range typeNames {
		if run.Get("accepted-formats:"+tn) > 0 {
			acceptedTypes = append(acceptedTypes, tn)
		}
	}
	sort.Strings(acceptedTypes)
	run.Extra("format_types_generated", len(typeNames))
	run.Extra("format_types_in_accepted_inputs", acceptedTypes)

	run.Assume("valid description = inside each format's own unmarshal grammar: H264 SPS/PPS both or neither with an SPS mediacommon parses; H265 SPS/PPS parseable; " +
		"MPEG-4 audio configs in the image of mediacommon's Marshal/Unmarshal (deprecated ChannelCount consistent with ChannelConfig); MPEG4Audio SizeLength 1..100, " +
		"Index(Delta)Length 0..100; MPEG4Audio.ProfileLevelID 0 and 1 are one value (documented legacy spelling, FMTP() reports 1 for both); integers 0..2^31-1; static payload types only with their fixed parameters; " +
		"dynamic formats on payload types 96..127 (H264 also 35); unique payload types per media")
	run.Assume("Generic: fmtp keys lower-case (the parser folds keys, MPEG4AudioLATM relies on it), values without ';' and without leading/trailing blanks; rtpmap names that do not select another format type; " +
		"no rtpmap only with a static-clock payload type or in an application media (Generic.unmarshal refuses it elsewhere)")
	run.Assume("titles are not the single blank (RFC 4566 spelling of 'no title'); media ids all-or-none, unique, unicode letters/digits; back channels form a non-empty proper subset of the medias; FEC groups name existing ids")
	run.Assume("BaseURL and Multicast are not compared (not in the statement); FEC groups and session-level key-mgmt are (they are in the quantifier)")
	run.Finish(evals.Load(),
		"oracle 1: PRNG-generated valid descriptions (1..6 medias x 1..4 formats over all 22 format types, ids/back channels/FEC/SAVP+MIKEY), round trip compared field by field; "+
			"oracle 2: marshalled texts, every SDP document of the repository's tests and fuzz corpora, every prefix of the short ones, line/field/byte mutations, synthesized rtpmap+fmtp combinations, PRNG noise. "+
			"distinct_nontrivial = distinct marshalled texts that round-tripped + distinct parser inputs that were ACCEPTED and went through the idempotence comparison")
}
