package main

// The equality the property statement asks for, computed field by field so that a mismatch can be
// named: title; per media type, id, back-channel flag, profile, control, key-mgmt (marshalled
// bytes); per format Go type, exported fields, payload type, clock rate, RTPMap(), FMTP().
// FEC groups and the session-level key-mgmt message are part of the quantifier ("with/without ...
// FEC groups, MIKEY data") and are compared too. BaseURL and Multicast are not compared.

import (
	"fmt"
	"reflect"

	"github.com/bluenviron/gortsplib/v5/pkg/description"
	"github.com/bluenviron/gortsplib/v5/pkg/format"
	"github.com/bluenviron/gortsplib/v5/pkg/mikey"

	"verif/lib/vlib"
)

type diff struct {
	Scope  string // "session" | "media" | "format.<Type>"
	Field  string
	Detail string
}

func typeName(f format.Format) string {
	if f == nil {
		return "nil"
	}
	t := reflect.TypeOf(f)
	for t.Kind() == reflect.Ptr {
		t = t.Elem()
	}
	return t.Name()
}

func mikeyBytes(m *mikey.Message) string {
	if m == nil {
		return "<nil>"
	}
	b, err := m.Marshal()
	if err != nil {
		return "<marshal error: " + err.Error() + ">"
	}
	return fmt.Sprintf("%x", b)
}

// compareFormat returns the first difference between two formats (nil if none).
func compareFormat(a, b format.Format) *diff {
	scope := "format." + typeName(a)
	if reflect.TypeOf(a) != reflect.TypeOf(b) {
		return &diff{scope, "GoType", fmt.Sprintf("%s != %s", typeName(a), typeName(b))}
	}
	va, vb := reflect.ValueOf(a).Elem(), reflect.ValueOf(b).Elem()
	t := va.Type()
	for i := 0; i < t.NumField(); i++ {
		if t.Field(i).PkgPath != "" { // unexported (mutex, "unused")
			continue
		}
		x, y := va.Field(i).Interface(), vb.Field(i).Interface()
		if _, ok := a.(*format.MPEG4Audio); ok && t.Field(i).Name == "ProfileLevelID" {
			// MPEG4Audio documents 0 as the legacy spelling of 1 (FMTP() reports "1" for both and
			// the repository's own test table pins parse -> 0, marshal -> "1"): one parameter value.
			x, y = max(x.(int), 1), max(y.(int), 1)
		}
		if !vlib.DeepEqualNorm(x, y) {
			return &diff{scope, t.Field(i).Name, vlib.Trunc(vlib.Dump(va.Field(i).Interface()), 300) + " != " + vlib.Trunc(vlib.Dump(vb.Field(i).Interface()), 300)}
		}
	}
	if a.PayloadType() != b.PayloadType() {
		return &diff{scope, "PayloadType", fmt.Sprintf("%d != %d", a.PayloadType(), b.PayloadType())}
	}
	if a.ClockRate() != b.ClockRate() {
		return &diff{scope, "ClockRate", fmt.Sprintf("%d != %d", a.ClockRate(), b.ClockRate())}
	}
	if a.RTPMap() != b.RTPMap() {
		return &diff{scope, "RTPMap", fmt.Sprintf("%q != %q", a.RTPMap(), b.RTPMap())}
	}
	if fa, fb := a.FMTP(), b.FMTP(); !vlib.DeepEqualNorm(fa, fb) {
		return &diff{scope, "FMTP", fmt.Sprintf("%v != %v", fa, fb)}
	}
	return nil
}

func compareSession(a, b *description.Session) []diff {
	var out []diff
	add := func(scope, field, detail string) { out = append(out, diff{scope, field, detail}) }
	if a.Title != b.Title {
		add("session", "Title", fmt.Sprintf("%q != %q", a.Title, b.Title))
	}
	if x, y := mikeyBytes(a.KeyMgmtMikey), mikeyBytes(b.KeyMgmtMikey); x != y {
		add("session", "KeyMgmtMikey", x+" != "+y)
	}
	if !vlib.DeepEqualNorm(a.FECGroups, b.FECGroups) {
		add("session", "FECGroups", fmt.Sprintf("%q != %q", a.FECGroups, b.FECGroups))
	}
	if len(a.Medias) != len(b.Medias) {
		add("session", "Medias.len", fmt.Sprintf("%d != %d", len(a.Medias), len(b.Medias)))
		return out
	}
	for i, ma := range a.Medias {
		mb := b.Medias[i]
		at := fmt.Sprintf("media %d: ", i)
		if ma.Type != mb.Type {
			add("media", "Type", at+fmt.Sprintf("%q != %q", ma.Type, mb.Type))
		}
		if ma.ID != mb.ID {
			add("media", "ID", at+fmt.Sprintf("%q != %q", ma.ID, mb.ID))
		}
		if ma.IsBackChannel != mb.IsBackChannel {
			add("media", "IsBackChannel", at+fmt.Sprintf("%v != %v", ma.IsBackChannel, mb.IsBackChannel))
		}
		if ma.Profile != mb.Profile {
			add("media", "Profile", at+fmt.Sprintf("%v != %v", ma.Profile, mb.Profile))
		}
		if ma.Control != mb.Control {
			add("media", "Control", at+fmt.Sprintf("%q != %q", ma.Control, mb.Control))
		}
		if x, y := mikeyBytes(ma.KeyMgmtMikey), mikeyBytes(mb.KeyMgmtMikey); x != y {
			add("media", "KeyMgmtMikey", at+x+" != "+y)
		}
		if len(ma.Formats) != len(mb.Formats) {
			add("media", "Formats.len", at+fmt.Sprintf("%d != %d", len(ma.Formats), len(mb.Formats)))
			continue
		}
		for j, fa := range ma.Formats {
			if d := compareFormat(fa, mb.Formats[j]); d != nil {
				d.Detail = at + fmt.Sprintf("format %d: ", j) + d.Detail
				out = append(out, *d)
			}
		}
	}
	return out
}

// dedupe keeps the first diff per (scope, field).
func dedupe(ds []diff) []diff {
	seen := map[string]bool{}
	var out []diff
	for _, d := range ds {
		k := d.Scope + "/" + d.Field
		if !seen[k] {
			seen[k] = true
			out = append(out, d)
		}
	}
	return out
}
