package main

// Parser inputs for the totality / idempotence oracle: the repository's own SDP documents (fuzz
// corpora + string constants of the test files, read at run time), synthesized rtpmap/fmtp
// combinations, line-, field- and byte-level mutations, truncations, PRNG bytes.

import (
	"encoding/base64"
	"encoding/hex"
	"fmt"
	"go/ast"
	"go/parser"
	"go/token"
	"math/rand"
	"os"
	"path/filepath"
	"regexp"
	"sort"
	"strconv"
	"strings"

	"verif/lib/vlib"
)

func repoRoot() string {
	if p := os.Getenv("VERIF_REPO"); p != "" {
		return p
	}
	return "/repo"
}

// evalString evaluates a constant string expression made of literals and '+'.
func evalString(e ast.Expr) (string, bool) {
	switch x := e.(type) {
	case *ast.BasicLit:
		if x.Kind != token.STRING {
			return "", false
		}
		s, err := strconv.Unquote(x.Value)
		return s, err == nil
	case *ast.BinaryExpr:
		if x.Op != token.ADD {
			return "", false
		}
		a, ok1 := evalString(x.X)
		b, ok2 := evalString(x.Y)
		return a + b, ok1 && ok2
	case *ast.ParenExpr:
		return evalString(x.X)
	}
	return "", false
}

func looksLikeSDP(s string) bool {
	return strings.HasPrefix(s, "v=0") || strings.Contains(s, "m=video") || strings.Contains(s, "m=audio") || strings.Contains(s, "m=application")
}

// loadCorpus returns the distinct SDP-like documents of the repository's tests and fuzz corpora,
// and counts per source.
func loadCorpus() (docs []string, counts map[string]int) {
	counts = map[string]int{}
	seen := map[string]bool{}
	add := func(s, src string) {
		if len(s) > 1<<16 || seen[s] {
			return
		}
		seen[s] = true
		docs = append(docs, s)
		counts[src]++
	}
	root := repoRoot()
	// go fuzz corpora: lines of the form string("...") / []byte("...")
	for _, dir := range []string{"pkg/description/testdata/fuzz", "pkg/sdpunmarshaler/testdata/fuzz", "pkg/format/testdata/fuzz/FuzzUnmarshal"} {
		_ = filepath.Walk(filepath.Join(root, dir), func(p string, info os.FileInfo, err error) error {
			if err != nil || info.IsDir() {
				return nil
			}
			b, err := os.ReadFile(p)
			if err != nil {
				return nil
			}
			for _, ln := range strings.Split(string(b), "\n") {
				ln = strings.TrimSpace(ln)
				for _, pre := range []string{"string(", "[]byte("} {
					if strings.HasPrefix(ln, pre) && strings.HasSuffix(ln, ")") {
						if s, err := strconv.Unquote(ln[len(pre) : len(ln)-1]); err == nil {
							add(s, "fuzz:"+strings.Split(dir, "/")[1])
						}
					}
				}
			}
			return nil
		})
	}
	// string constants of the test files
	var files []string
	for _, g := range []string{"pkg/description/*_test.go", "pkg/format/*_test.go", "pkg/sdpunmarshaler/*_test.go", "*_test.go"} {
		m, _ := filepath.Glob(filepath.Join(root, g))
		files = append(files, m...)
	}
	sort.Strings(files)
	fset := token.NewFileSet()
	for _, fn := range files {
		f, err := parser.ParseFile(fset, fn, nil, parser.SkipObjectResolution)
		if err != nil {
			continue
		}
		src := "tests:" + filepath.Base(filepath.Dir(fn))
		if filepath.Dir(fn) == filepath.Clean(root) {
			src = "tests:root"
		}
		var walk func(n ast.Node) bool
		walk = func(n ast.Node) bool {
			e, ok := n.(ast.Expr)
			if !ok {
				return true
			}
			if s, ok := evalString(e); ok {
				if looksLikeSDP(s) {
					add(s, src)
				}
				return false // do not descend into the parts of a concatenation
			}
			return true
		}
		ast.Inspect(f, walk)
	}
	return docs, counts
}

var numRe = regexp.MustCompile(`[0-9]+`)

var extremes = []string{
	"0", "1", "255", "256", "65535", "65536", "2147483647", "2147483648", "4294967295", "4294967296",
	"18446744073709551615", "18446744073709551616", "99999999999999999999", "-1", "00", "007", "+1", "1e9", "0x10", "",
}

// fmtp value pools per key (valid and invalid spellings)
var (
	numPool   = []string{"0", "1", "2", "3", "13", "30", "100", "101", "2147483647", "2147483648", "-1", "", "x", "007", "+1", "1.5", "99999999999999999999"}
	flagPool  = []string{"0", "1", "", "2", "true"}
	hexConfig = []string{
		"1210", "1190", "1388", "11900810", "118856E500", "eb098800", "2b8a08", "13900", "", "zz", "121", "0000", "ffff", "f8e85000",
		"40002310", "400026103fc0", "400026203fc0", "40005623101fe0", "4001d613101fe0", "4000", "40", "47ff2310", "4100231023103fc0",
		"400223109fc0", "40022310c7f8", "4002231180",
	}
)

func mutHex(r *rand.Rand, s string) string {
	b, err := hex.DecodeString(s)
	if err != nil || len(b) == 0 {
		return vlib.RandString(r, 2*r.Intn(10), "0123456789abcdef")
	}
	return hex.EncodeToString(mutBytes(r, b))
}

func mutBytes(r *rand.Rand, in []byte) []byte {
	b := append([]byte{}, in...)
	for k := 1 + r.Intn(3); k > 0; k-- {
		switch r.Intn(5) {
		case 0:
			if len(b) > 0 {
				b = b[:r.Intn(len(b))]
			}
		case 1:
			b = append(b, vlib.RandBytes(r, 1+r.Intn(6))...)
		case 2:
			if len(b) > 0 {
				b[r.Intn(len(b))] = byte(r.Intn(256))
			}
		default:
			if len(b) > 0 {
				b[r.Intn(len(b))] ^= byte(1 << r.Intn(8))
			}
		}
	}
	return b
}

func mutB64(r *rand.Rand, s string) string {
	b, err := base64.StdEncoding.DecodeString(s)
	if err != nil {
		return s
	}
	return base64.StdEncoding.EncodeToString(mutBytes(r, b))
}

func pick(r *rand.Rand, xs []string) string { return xs[r.Intn(len(xs))] }

func fmtpValue(r *rand.Rand, key string, mikeyB64 func() string) string {
	switch key {
	case "config":
		v := pick(r, hexConfig)
		if r.Intn(3) == 0 {
			v = pick(r, mp4vConf)
		}
		switch r.Intn(4) {
		case 0:
			v = mutHex(r, v)
		case 1:
			// random StreamMuxConfig / AudioSpecificConfig bit patterns behind a plausible head
			v = pick(r, []string{"40", "41", "42", "4002", "12", "13", "2b", "eb", "f8"}) + vlib.RandString(r, 2*(1+r.Intn(8)), "0123456789abcdef")
		}
		return v
	case "sprop-parameter-sets":
		set := h264Sets[r.Intn(len(h264Sets))]
		a, b := set[0], set[1]
		switch r.Intn(8) {
		case 0:
			a = mutB64(r, a)
		case 1:
			b = mutB64(r, b)
		case 2:
			return a
		case 3:
			return a + ","
		case 4:
			return "," + b
		case 5:
			return a + "," + b + "," + b
		case 6:
			return "AAAAAQ==,AAAAAQ=="
		}
		return a + "," + b
	case "sprop-vps":
		return mutMaybe(r, pick(r, h265VPS))
	case "sprop-sps":
		return mutMaybe(r, pick(r, h265SPS))
	case "sprop-pps":
		return mutMaybe(r, pick(r, h265PPS))
	case "configuration":
		return mutMaybe(r, "AQIDBA==")
	case "cpresent", "sbr-enabled", "sprop-stereo", "SBR-enabled":
		return pick(r, flagPool)
	case "vbr":
		return pick(r, []string{"on", "off", "vad", "", "ON"})
	case "streamtype":
		return pick(r, []string{"5", "5", "4", ""})
	case "mode":
		return pick(r, []string{"AAC-hbr", "aac_hbr", "AAC-lbr", "AAC-HBR", ""})
	case "object":
		return pick(r, []string{"2", "5", "x"})
	}
	return pick(r, numPool)
}

func mutMaybe(r *rand.Rand, b64 string) string {
	switch r.Intn(4) {
	case 0:
		return mutB64(r, b64)
	case 1:
		return pick(r, []string{"", "AAAAAQ==", "AAAAAUIB", "!!!", "QgE="})
	}
	return b64
}

var fmtpKeys = []string{
	"config", "config", "sprop-parameter-sets", "sprop-vps", "sprop-sps", "sprop-pps", "configuration", "cpresent", "sbr-enabled", "SBR-enabled",
	"sprop-stereo", "vbr", "streamtype", "mode", "object", "profile-level-id", "sizelength", "indexlength", "indexdeltalength", "bitrate",
	"packetization-mode", "sprop-max-don-diff", "max-fr", "max-fs", "profile-id", "level-idx", "profile", "tier", "apt", "Config", "",
}

// keys each codec's unmarshal() looks at (so that synthesized documents reach the deep branches)
var codecKeys = map[string][]string{
	"H264": {"sprop-parameter-sets", "packetization-mode", "profile-level-id"}, "H265": {"sprop-vps", "sprop-sps", "sprop-pps", "sprop-max-don-diff"},
	"AV1": {"level-idx", "profile", "tier"}, "VP8": {"max-fr", "max-fs"}, "VP9": {"max-fr", "max-fs", "profile-id"},
	"MP4V-ES":       {"profile-level-id", "config"},
	"mpeg4-generic": {"streamtype", "mode", "profile-level-id", "config", "sizelength", "indexlength", "indexdeltalength"},
	"MP4A-LATM":     {"profile-level-id", "bitrate", "cpresent", "config", "sbr-enabled", "object"},
	"opus":          {"sprop-stereo"}, "VORBIS": {"configuration"}, "speex": {"vbr"},
}

var codecNames = []string{
	"H264", "H265", "AV1", "VP8", "VP9", "MP4V-ES", "opus", "multiopus", "VORBIS", "mpeg4-generic", "MP4A-LATM", "AC3", "speex",
	"G726-16", "G726-24", "G726-32", "G726-40", "AAL2-G726-16", "AAL2-G726-40", "PCMA", "PCMU", "L8", "L16", "L24", "SMPTE336M",
	"JPEG", "MP2T", "G722", "MPA", "MPV", "rtx", "h264", "Opus", "mp4a-latm", "MPEG4-GENERIC", "",
}

var ptPool = []string{"96", "97", "98", "127", "0", "8", "9", "10", "11", "14", "26", "32", "33", "35", "3", "95", "128", "255", "256", "-1", "096", "smart/1/90000", "x"}

func synthClock(r *rand.Rand, codec string) string {
	switch r.Intn(8) {
	case 0:
		return ""
	case 1:
		return "/" + pick(r, extremes)
	case 2:
		return "/" + pick(r, []string{"90000", "48000", "8000"}) + "/" + pick(r, extremes)
	case 3:
		return "/" + pick(r, []string{"48000/2", "90000/1", "44100/2", "8000/1", "48000/6", "16000", "8000", "48000/0", "48000/", "/2"})
	}
	switch strings.ToLower(codec) {
	case "h264", "h265", "av1", "vp8", "vp9", "mp4v-es", "smpte336m", "jpeg", "mp2t":
		return "/90000"
	case "opus":
		return "/48000/2"
	case "multiopus":
		return "/48000/" + fmt.Sprint(1+r.Intn(8))
	case "mp4a-latm":
		return pick(r, []string{"/90000/1", "/90000", "/48000/2", "/44100/1"})
	case "speex", "g722":
		return pick(r, []string{"/8000", "/16000", "/32000"})
	}
	if strings.Contains(strings.ToLower(codec), "g726") {
		return "/8000"
	}
	return "/" + pick(r, []string{"8000", "16000", "44100", "48000"}) + pick(r, []string{"", "/1", "/2", "/6"})
}

// synthMediaLines: one media section with 1..3 payload types, rtpmap / fmtp lines built from the
// known codec names and fmtp keys.
func synthMediaLines(r *rand.Rand, mikeyB64 func() string) []string {
	n := 1 + r.Intn(3)
	if r.Intn(3) != 0 {
		n = 1
	}
	var pts []string
	for i := 0; i < n; i++ {
		if r.Intn(3) == 0 {
			pts = append(pts, pick(r, ptPool))
		} else {
			pts = append(pts, fmt.Sprint(96+r.Intn(32)))
		}
	}
	proto := pick(r, []string{"RTP/AVP", "RTP/AVP", "RTP/AVP", "RTP/SAVP", "RTP/AVP/TCP", "UDP/TLS/RTP/SAVPF", "AVP", "TCP/RTP/AVP"})
	lines := []string{"m=" + pick(r, []string{"video", "audio", "application", "video", "audio", "metadata", "text", "application/x"}) + " " +
		pick(r, []string{"0", "0", "0", "5000", "65536", "0/2"}) + " " + proto + " " + strings.Join(pts, " ")}
	for _, pt := range pts {
		apt := pt
		if strings.HasPrefix(pt, "smart") {
			apt = "96"
		}
		codec := pick(r, codecNames)
		if r.Intn(8) != 0 {
			lines = append(lines, "a=rtpmap:"+apt+pick(r, []string{" ", " ", " ", "  ", ""})+codec+synthClock(r, codec))
		}
		if r.Intn(4) != 0 {
			keys := codecKeys[codec]
			if keys == nil {
				keys = codecKeys[map[string]string{"h264": "H264", "Opus": "opus", "mp4a-latm": "MP4A-LATM", "MPEG4-GENERIC": "mpeg4-generic", "multiopus": "opus"}[codec]]
			}
			var kvs []string
			for _, k := range keys {
				if r.Intn(5) != 0 {
					kvs = append(kvs, k+"="+fmtpValue(r, k, mikeyB64))
				}
			}
			for k := r.Intn(3); k > 0 && (keys == nil || r.Intn(3) == 0); k-- {
				key := pick(r, fmtpKeys)
				kvs = append(kvs, key+"="+fmtpValue(r, key, mikeyB64))
			}
			if r.Intn(6) == 0 && len(kvs) > 0 { // a known spec-conforming shape for LATM / AAC
				kvs = append(kvs, pick(r, []string{"cpresent=0", "sizelength=13", "config=1210", "config=40002310"}))
			}
			if r.Intn(8) == 0 && len(kvs) > 0 { // white space other than ' ' around one parameter
				i := r.Intn(len(kvs))
				ws := pick(r, []string{"\t", "\v", "\f", "\u00a0", "\u0085", " \t"})
				if r.Intn(3) == 0 {
					kvs[i] = ws + kvs[i]
				} else {
					kvs[i] += ws
				}
			}
			r.Shuffle(len(kvs), func(i, j int) { kvs[i], kvs[j] = kvs[j], kvs[i] })
			if r.Intn(10) == 0 {
				kvs = append(kvs, pick(r, []string{"novalue", "", " ", "a=b=c", "K=V", "x= y", "t=1\t"}))
			}
			lines = append(lines, "a=fmtp:"+apt+" "+strings.Join(kvs, pick(r, []string{"; ", ";", "; ", " ;", ";;", ";\t"})))
		}
	}
	for k := r.Intn(4); k > 0; k-- {
		lines = append(lines, attrLine(r, mikeyB64))
	}
	return lines
}

func attrLine(r *rand.Rand, mikeyB64 func() string) string {
	switch r.Intn(14) {
	case 0:
		return "a=sendonly"
	case 1:
		return "a=recvonly"
	case 2:
		return "a=mid:" + pick(r, []string{"0", "1", "2", "a", "video", "a b", "é", "", "-", "1"})
	case 3:
		return "a=control:" + pick(r, []string{"trackID=0", "", "rtsp://h/p/trackID=1", "*", "%zz", " x "})
	case 4:
		return "a=key-mgmt:mikey " + mikeyB64()
	case 5:
		return "a=key-mgmt:" + pick(r, []string{"mikey ", "mikey", "mikey !!!", "foo bar", "mikey AQAFAP1td+4BAAA=", "mikey AQ==", ""})
	case 6:
		return "a=key-mgmt:mikey " + mutB64(r, mikeyB64())
	case 7:
		return "a=group:FEC" + pick(r, []string{" 0 1", " 1", " ", "", " a b", "  1", " 0", ":x"})
	case 8:
		return pick(r, []string{"i=title", "c=IN IP4 0.0.0.0", "c=IN", "c=IN IP6", "c=SM x", "b=AS:500", "b=X-YZ:1", "b=AS", "k=clear:x", "c=IN 1.2.3.4"})
	case 9:
		return "a=" + pick(r, []string{"", ":", ":x", "x:", "range:npt=0-", "framerate:25", "type:broadcast", "tool:x", "x-dimensions:1,2"})
	case 10:
		return "a=rtpmap:" + pick(r, ptPool) + " " + pick(r, codecNames) + synthClock(r, "")
	case 11:
		return "a=fmtp:" + pick(r, ptPool) + " " + pick(r, fmtpKeys) + "=" + pick(r, numPool)
	}
	return "a=control:trackID=" + fmt.Sprint(r.Intn(4))
}

func sessionLine(r *rand.Rand, mikeyB64 func() string) string {
	switch r.Intn(12) {
	case 0:
		return "s=" + pick(r, []string{"", " ", "  ", "x", "Stream", "-"})
	case 1:
		return "o=" + pick(r, []string{"- 0 0 IN IP4 127.0.0.1", "-0 0 IN IP4 1.1.1.1", "- 1 1 IN", "- 0x1f 1.5 IN IP6 ::1", "x", "- -1 -1 IN IP4", " IN IP4 ", "a b IN IP4 c",
			"- abc 0 IN IPV4 h", "- 18446744073709551616 0 IN IP4 h", "  IN IP4 "})
	case 2:
		return "t=" + pick(r, []string{"0 0", "now-", "0", "x y", "1 2 3", "18446744073709551616 0"})
	case 3:
		return "r=" + pick(r, []string{"1 2", "1d 2h 3m", "1", "x 1", "1 2 3s", "d h", "7d 1h 0 25h"})
	case 4:
		return "z=" + pick(r, []string{"1 1h", "1", "x 1", "1 -1h 2 0", "1 h"})
	case 5:
		return pick(r, []string{"u=http://x", "u=%", "e=a@b", "p=+1", "i=info", "k=prompt", "b=CT:1", "b=AS:x", "c=IN IP4 224.1.0.0/127", "v=0", "v=1", "x=1", "=", "vv"})
	case 6:
		return "a=group:FEC" + pick(r, []string{" 0 1", " 1", " ", "", " a b", "  1", " 0"})
	case 7:
		return "a=key-mgmt:mikey " + mikeyB64()
	case 8:
		return "a=key-mgmt:" + pick(r, []string{"mikey ", "mikey !!!", "foo", "mikey AQ=="})
	}
	return "a=" + pick(r, []string{"control:*", "range:npt=0-", "sendonly", "mid:1", "tool:x"})
}

// synthDoc builds a whole document from session lines and 1..3 synthesized media sections.
func synthDoc(r *rand.Rand, mikeyB64 func() string) string {
	var lines []string
	if r.Intn(8) != 0 {
		lines = append(lines, "v=0")
	}
	if r.Intn(4) != 0 {
		lines = append(lines, "o=- 0 0 IN IP4 127.0.0.1", "s="+pick(r, []string{"x", " ", "", "Stream"}), "t=0 0")
	}
	for k := r.Intn(3); k > 0; k-- {
		lines = append(lines, sessionLine(r, mikeyB64))
	}
	nm := 1
	if r.Intn(3) == 0 {
		nm = 1 + r.Intn(3)
	}
	for i := 0; i < nm; i++ {
		lines = append(lines, synthMediaLines(r, mikeyB64)...)
	}
	return strings.Join(lines, pick(r, []string{"\r\n", "\r\n", "\n"})) + pick(r, []string{"\r\n", "\n", ""})
}

func splitLines(s string) (lines []string, sep string) {
	sep = "\n"
	if strings.Contains(s, "\r\n") {
		sep = "\r\n"
	}
	return strings.Split(s, sep), sep
}

// mutateDoc applies 1..3 line-, field- or byte-level mutations.
func mutateDoc(r *rand.Rand, s string, mikeyB64 func() string) string {
	for k := 1 + r.Intn(3); k > 0; k-- {
		lines, sep := splitLines(s)
		switch r.Intn(16) {
		case 0: // delete a line
			if len(lines) > 1 {
				i := r.Intn(len(lines))
				lines = append(lines[:i:i], lines[i+1:]...)
			}
		case 1: // duplicate a line (possibly elsewhere)
			i := r.Intn(len(lines))
			j := r.Intn(len(lines) + 1)
			ln := lines[i]
			lines = append(lines[:j:j], append([]string{ln}, lines[j:]...)...)
		case 2: // swap two lines
			i, j := r.Intn(len(lines)), r.Intn(len(lines))
			lines[i], lines[j] = lines[j], lines[i]
		case 3: // insert a media-level line
			j := r.Intn(len(lines) + 1)
			lines = append(lines[:j:j], append([]string{attrLine(r, mikeyB64)}, lines[j:]...)...)
		case 4: // insert a session-level line
			j := r.Intn(len(lines) + 1)
			lines = append(lines[:j:j], append([]string{sessionLine(r, mikeyB64)}, lines[j:]...)...)
		case 5: // append a synthesized media section
			lines = append(lines, synthMediaLines(r, mikeyB64)...)
		case 6, 7: // numeric extreme in place of a number
			i := r.Intn(len(lines))
			locs := numRe.FindAllStringIndex(lines[i], -1)
			if len(locs) > 0 {
				l := locs[r.Intn(len(locs))]
				lines[i] = lines[i][:l[0]] + pick(r, extremes) + lines[i][l[1]:]
			}
		case 8, 9: // rewrite one fmtp parameter of a line
			var idx []int
			for i, ln := range lines {
				if strings.HasPrefix(ln, "a=fmtp:") {
					idx = append(idx, i)
				}
			}
			if len(idx) > 0 {
				i := idx[r.Intn(len(idx))]
				head, rest, ok := strings.Cut(lines[i], " ")
				if ok {
					kvs := strings.Split(rest, ";")
					j := r.Intn(len(kvs))
					key, val, _ := strings.Cut(strings.TrimSpace(kvs[j]), "=")
					switch r.Intn(7) {
					case 0:
						kvs = append(kvs[:j:j], kvs[j+1:]...)
					case 1:
						kvs[j] = key + "="
					case 2:
						kvs[j] = key + "=" + fmtpValue(r, strings.ToLower(key), mikeyB64)
					case 3:
						kvs[j] = strings.ToUpper(key) + "=" + val
					case 4:
						kvs = append(kvs, kvs[j])
					case 5:
						if _, err := hex.DecodeString(val); err == nil && val != "" {
							kvs[j] = key + "=" + mutHex(r, val)
						} else {
							kvs[j] = key + "=" + mutB64(r, val)
						}
					default:
						nk := pick(r, fmtpKeys)
						kvs = append(kvs, nk+"="+fmtpValue(r, nk, mikeyB64))
					}
					lines[i] = head + " " + strings.Join(kvs, ";")
				}
			}
		case 10: // rewrite an rtpmap
			for _, i := range r.Perm(len(lines)) {
				if strings.HasPrefix(lines[i], "a=rtpmap:") {
					head, _, _ := strings.Cut(lines[i], " ")
					codec := pick(r, codecNames)
					lines[i] = head + " " + codec + synthClock(r, codec)
					break
				}
			}
		case 11: // rewrite the m= line's payload types / proto
			for _, i := range r.Perm(len(lines)) {
				if strings.HasPrefix(lines[i], "m=") {
					f := strings.Fields(lines[i])
					if len(f) >= 4 {
						switch r.Intn(4) {
						case 0:
							f[3+r.Intn(len(f)-3)] = pick(r, ptPool)
						case 1:
							f = append(f, pick(r, ptPool))
						case 2:
							f[2] = pick(r, []string{"RTP/SAVP", "RTP/AVP", "SAVP", "RTP/FOO", "RTP/AVP/TCP"})
						default:
							f = f[:3+r.Intn(len(f)-3)]
						}
						lines[i] = strings.Join(f, " ")
					}
					break
				}
			}
		default: // byte level
			b := []byte(strings.Join(lines, sep))
			if len(b) > 0 {
				p := r.Intn(len(b))
				switch r.Intn(4) {
				case 0:
					b[p] = byte(r.Intn(256))
				case 1:
					b = append(b[:p:p], b[p+1:]...)
				case 2:
					const ins = "=:;/ \r\n\t,0-"
					b = append(b[:p:p], append([]byte{ins[r.Intn(len(ins))]}, b[p:]...)...)
				default:
					b = b[:p]
				}
			}
			s = string(b)
			continue
		}
		s = strings.Join(lines, sep)
	}
	return s
}

// noise: PRNG bytes, or PRNG lines with plausible keys.
func noise(r *rand.Rand) string {
	if r.Intn(2) == 0 {
		return string(vlib.RandBytes(r, r.Intn(200)))
	}
	var sb strings.Builder
	for k := r.Intn(12); k > 0; k-- {
		sb.WriteByte("vosiuepcbtrzkamx"[r.Intn(16)])
		sb.WriteByte('=')
		sb.WriteString(vlib.RandString(r, r.Intn(30), "abcIN IP4 0123456789/:;=- .RTPAVmikey"))
		sb.WriteString(pick(r, []string{"\n", "\r\n"}))
	}
	return sb.String()
}
