package main

// Generator of valid stream descriptions. "Valid" = inside the grammar that each format's own
// unmarshal() accepts and that the format can express (see the Assume() lines in main.go for the
// restrictions that were read out of the code).

import (
	"bytes"
	"encoding/base64"
	"encoding/hex"
	"fmt"
	"math/rand"
	"strings"

	"github.com/bluenviron/mediacommon/v2/pkg/codecs/h264"
	"github.com/bluenviron/mediacommon/v2/pkg/codecs/h265"
	"github.com/bluenviron/mediacommon/v2/pkg/codecs/mpeg4audio"
	"github.com/bluenviron/mediacommon/v2/pkg/codecs/mpeg4video"

	"github.com/bluenviron/gortsplib/v5/pkg/description"
	"github.com/bluenviron/gortsplib/v5/pkg/format"
	"github.com/bluenviron/gortsplib/v5/pkg/headers"
	"github.com/bluenviron/gortsplib/v5/pkg/mikey"

	"verif/lib/vlib"
)

// the 22 format types
var typeNames = []string{
	"H264", "H265", "AV1", "VP8", "VP9", "MPEG4Video", "MJPEG", "MPEG1Video",
	"Opus", "Vorbis", "MPEG4Audio", "MPEG4AudioLATM", "AC3", "Speex", "G726", "G711", "G722", "LPCM", "MPEG1Audio",
	"KLV", "MPEGTS", "Generic",
}

var families = map[description.MediaType][]string{
	description.MediaTypeVideo: {"H264", "H265", "AV1", "VP8", "VP9", "MPEG4Video", "MJPEG", "MPEG1Video", "Generic"},
	description.MediaTypeAudio: {
		"Opus", "Vorbis", "MPEG4Audio", "MPEG4AudioLATM", "AC3", "Speex", "G726", "G711", "G722", "LPCM", "MPEG1Audio", "Generic",
	},
	description.MediaTypeApplication: {"KLV", "MPEGTS", "Generic"},
}

// real parameter sets taken from the repository's tests (base64 as they appear there, without
// Annex-B prefix)
var h264Sets = [][2]string{
	{"Z00AHpWoKAv+VA==", "aO48gA=="}, {"Z00AKp2oHgCJ+WbgICAgQA==", "aO48gA=="}, {"Z00AM4qKUDwBE/L/4AAgAC2AgA==", "aO48gA=="},
	{"Z00AMpY1QFEBf03AQEBAgA==", "aO4xsg=="}, {"Z01AHppmBYHv81BgYGQAAA+gAAF3ABA=", "aO48gA=="}, {"Z01AKY2NYDwBE/LgLcBDQECA", "aO44gA=="},
	{"Z0IAHp2oKAv+WbgICAgQ", "aM48gA=="}, {"Z0IAHqtAUB7I", "aM4xEg=="}, {"Z0IAHqtAoPyA", "aM4xEg=="},
	{"Z2QADKw7ULBLQgAAAwACAAADAD0I", "aO48gA=="}, {"Z2QAH6zZQFAFuwFsgAAAAwCAAAAeB4wYyw==", "aOvjyyLA"}, {"Z2QAHqwsaoMg5puAgICB", "aO4xshs="},
	{"Z2QAKKw7UDwBE/LCAAAH0AAA6mEI", "aOqPLA=="}, {"Z2QAKKy0A8ARPyo=", "aO4Bniw="}, {"Z2TAKKwa0A8ARPywDwiEag==", "aO48sA=="},
	{"J2QAH6xWwYBp+kA=", "KO48sA=="}, {"J2QAKKwrQCgDzQDxImo=", "KO4CXLA="}, {"Z01AFo2NQFAX/L/4BDgEQ3AQEBQAAA+gAACcQ6GB9ACMq7y40MD6AEZV3lwo", "aO44gA=="},
	{"Z2QAKKwbGoB4AiflwFuAgICgAAB9AAATiB0MAEr4AAL68F3lxoYAJXwAAX14LvLhQA==", "aO48MA=="},
}

var (
	h265VPS = []string{"QAEMAf//AWAAAAMAAAMAAAMAAAMAlqwJ", "QAEMAf//AWAAAAMAkAAAAwAAAwB4mZgJ", "QAEMAf//AWAAAAMAsAAAAwAAAwB4FwJA"}
	h265SPS = []string{
		"QgEBAWAAAAMAAAMAAAMAAAMAlqABICAFEWNrkk5TNwEBAQQAAEZQAAV+QoQ=", "QgEBAWAAAAMAAAMAAAMAAAMAlqABICAFEWNrkkya5ZwCAAADAAIAAAMAHhA=",
		"QgEBAWAAAAMAkAAAAwAAAwB4oAPAgBDllmZpJMrgEAAAAwAQAAADAeCA", "QgEBAWAAAAMAsAAAAwAAAwB4oAKggC8c1YgXuRZFL/y5/E/qbgQEBAE=",
		"QgEBAWAAAAMAAAMAAAMAAAMAlqAFogHhY2uSTJrlmQ==",
	}
	h265PPS  = []string{"RAHA8vAiQA==", "RAHAcvBTJA==", "RAHBcrRiQA==", "RAHgdrAmQA=="}
	mp4vConf = []string{
		"000001B001000001B58913000001000000012000C48D8AEE053C04641443000001B24C61766335382E3133342E313030",
		"000001B002000001B59113000001000000012000C888800F50A041E14103", "000001B002000001B59113000001000000012000C888800F514043C14103",
		"000001B0F5000001B509000001000000012000845D4C28582120A31F", "000001B0F5000001B509000001000000012008D48D88032514043C14440F",
	}
	commonRates = []int{8000, 11025, 12000, 16000, 22050, 24000, 32000, 44100, 48000, 88200, 96000, 7350, 64000, 90000}
)

func unb64(s string) []byte {
	b, err := base64.StdEncoding.DecodeString(s)
	if err != nil {
		panic(err)
	}
	return b
}

func unhex(s string) []byte {
	b, err := hex.DecodeString(s)
	if err != nil {
		panic(err)
	}
	return b
}

func ptr[T any](v T) *T { return &v }

// genUint31: an integer in the range every numeric fmtp/rtpmap parser of the package accepts (ParseUint(.., 10, 31)).
func genUint31(r *rand.Rand, min int) int {
	switch r.Intn(8) {
	case 0:
		return min
	case 1:
		return 1<<31 - 1
	case 2:
		return min + r.Intn(1<<31-1-min)
	case 3:
		return min + r.Intn(1<<16)
	default:
		return min + r.Intn(64)
	}
}

func genRate(r *rand.Rand) int {
	if r.Intn(5) == 0 {
		return genUint31(r, 1)
	}
	return commonRates[r.Intn(len(commonRates))]
}

func optInt(r *rand.Rand) *int {
	if r.Intn(2) == 0 {
		return nil
	}
	return ptr(genUint31(r, 0))
}

// mutateValid flips bytes after the first one and appends / removes trailing bytes, keeping the
// result only if ok() still accepts it (validity = the codec parser the format itself calls).
func mutateValid(r *rand.Rand, in []byte, ok func([]byte) bool) []byte {
	if r.Intn(3) == 0 {
		return in
	}
	for try := 0; try < 6; try++ {
		b := append([]byte{}, in...)
		switch r.Intn(4) {
		case 0:
			b = append(b, vlib.RandBytes(r, 1+r.Intn(4))...)
		case 1:
			if len(b) > 6 {
				b = b[:len(b)-1-r.Intn(2)]
			}
		default:
			for k := 1 + r.Intn(3); k > 0 && len(b) > 1; k-- {
				b[1+r.Intn(len(b)-1)] ^= byte(1 << r.Intn(8))
			}
		}
		if !bytes.HasPrefix(b, []byte{0, 0, 0, 1}) && ok(b) {
			return b
		}
	}
	return in
}

func okH264SPS(b []byte) bool { var s h264.SPS; return s.Unmarshal(b) == nil }
func okH265SPS(b []byte) bool { var s h265.SPS; return s.Unmarshal(b) == nil }
func okH265PPS(b []byte) bool { var s h265.PPS; return s.Unmarshal(b) == nil }

// genASC: an AudioSpecificConfig in the image of mediacommon's own Marshal/Unmarshal pair.
func genASC(r *rand.Rand) *mpeg4audio.AudioSpecificConfig {
	tableRate := func() int {
		if r.Intn(6) == 0 {
			return 1 + r.Intn(1<<24-1) // explicit 24-bit frequency
		}
		return commonRates[r.Intn(13)]
	}
	for {
		c := &mpeg4audio.AudioSpecificConfig{
			Type:            mpeg4audio.ObjectTypeAACLC,
			SampleRate:      tableRate(),
			ChannelConfig:   uint8(r.Intn(8)),
			FrameLengthFlag: r.Intn(4) == 0,
		}
		switch r.Intn(4) {
		case 0:
			c.ExtensionType = mpeg4audio.ObjectTypeSBR
			c.ExtensionSampleRate = tableRate()
		case 1:
			c.ExtensionType = mpeg4audio.ObjectTypePS
			c.ExtensionSampleRate = tableRate()
		}
		if r.Intn(5) == 0 {
			c.DependsOnCoreCoder = true
			c.CoreCoderDelay = uint16(r.Intn(1 << 14))
		}
		enc, err := c.Marshal()
		if err != nil {
			continue
		}
		out := &mpeg4audio.AudioSpecificConfig{}
		if out.Unmarshal(enc) != nil {
			continue
		}
		return out
	}
}

// genSMC: a StreamMuxConfig in the image of mediacommon's Marshal/Unmarshal pair whose layers all
// have the same type / rate / channel configuration / extension type (the rule of
// MPEG4AudioLATM.unmarshal). sameCfg reports whether some layer re-uses the previous layer's
// configuration (useSameConfig=1, AudioSpecificConfig == nil).
func genSMC(r *rand.Rand) (cfg *mpeg4audio.StreamMuxConfig, sameCfg bool) {
	for {
		base := genASC(r)
		c := &mpeg4audio.StreamMuxConfig{NumSubFrames: uint(r.Intn(64))}
		if r.Intn(3) != 0 {
			c.NumSubFrames = 0
		}
		np := 1
		if r.Intn(4) == 0 {
			np = 1 + r.Intn(3)
		}
		sameCfg = false
		for p := 0; p < np; p++ {
			prog := &mpeg4audio.StreamMuxConfigProgram{}
			nl := 1
			if r.Intn(4) == 0 {
				nl = 1 + r.Intn(3)
			}
			for l := 0; l < nl; l++ {
				lay := &mpeg4audio.StreamMuxConfigLayer{}
				if (p != 0 || l != 0) && r.Intn(2) == 0 {
					sameCfg = true // useSameConfig
				} else {
					a := *base
					if p != 0 || l != 0 {
						a.FrameLengthFlag = r.Intn(2) == 0
					}
					lay.AudioSpecificConfig = &a
				}
				lay.FrameLengthType = uint([]int{0, 0, 0, 1, 2, 3, 4, 5, 6, 7}[r.Intn(10)])
				switch lay.FrameLengthType {
				case 0:
					lay.LatmBufferFullness = uint(r.Intn(256))
				case 1:
					lay.FrameLength = uint(r.Intn(512))
				case 3, 4, 5:
					lay.CELPframeLengthTableIndex = uint(r.Intn(64))
				case 6, 7:
					lay.HVXCframeLengthTableIndex = r.Intn(2) == 0
				}
				prog.Layers = append(prog.Layers, lay)
			}
			c.Programs = append(c.Programs, prog)
		}
		if r.Intn(5) == 0 {
			c.OtherDataPresent = true
			c.OtherDataLenBits = uint32([]int{0, 1, 255, 256, 65535, 1 << 20}[r.Intn(6)])
		}
		if r.Intn(5) == 0 {
			c.CRCCheckPresent = true
			c.CRCCheckSum = uint8(r.Intn(256))
		}
		enc, err := c.Marshal()
		if err != nil {
			continue
		}
		out := &mpeg4audio.StreamMuxConfig{}
		if out.Unmarshal(enc) != nil {
			continue
		}
		return out, sameCfg
	}
}

var knownCodecs = map[string]bool{
	"av1": true, "vp9": true, "vp8": true, "h265": true, "h264": true, "mp4v-es": true, "opus": true, "multiopus": true,
	"vorbis": true, "mpeg4-generic": true, "mp4a-latm": true, "ac3": true, "speex": true, "pcma": true, "pcmu": true,
	"l8": true, "l16": true, "l24": true, "smpte336m": true,
	"g726-16": true, "g726-24": true, "g726-32": true, "g726-40": true,
	"aal2-g726-16": true, "aal2-g726-24": true, "aal2-g726-32": true, "aal2-g726-40": true,
}

// payload types with a clock rate fixed by findClockRate that do not select another format type
var genericStaticPT = []uint8{1, 2, 3, 4, 5, 6, 7, 12, 13, 15, 16, 17, 18, 25, 28, 31, 34}

const fmtpValChars = "abcdefghijklmnopqrstuvwxyzABCDEFGHIJKLMNOPQRSTUVWXYZ0123456789 !#$%&'()*+,-./:<=>?@[]^_{|}~"

func genGeneric(r *rand.Rand, mt description.MediaType, pickPT func(static []uint8) (uint8, bool)) *format.Generic {
	f := &format.Generic{}
	var ok bool
	static := false
	switch r.Intn(6) {
	case 0:
		f.PayloadTyp, ok = pickPT(genericStaticPT)
		static = ok
	case 1:
		var un []uint8
		for p := 35; p < 96; p++ {
			un = append(un, uint8(p))
		}
		f.PayloadTyp, ok = pickPT(un)
	}
	if !ok {
		f.PayloadTyp, _ = pickPT(nil)
	}
	dynamic := f.PayloadTyp >= 96 && f.PayloadTyp <= 127

	name := []string{"rtx", "red", "ulpfec", "telephone-event", "GSM", "X-custom", "H263-1998", "vnd.onvif.metadata", "T140", "private", "G723", "iLBC"}[r.Intn(12)]
	if r.Intn(4) == 0 {
		name = vlib.RandString(r, 1+r.Intn(12), "abcdefghijklmnopqrstuvwxyzABCDEFGHIJKLMNOPQRSTUVWXYZ0123456789.-_")
		if knownCodecs[strings.ToLower(name)] {
			name = "x" + name
		}
	}
	clock := genRate(r)
	switch r.Intn(10) {
	case 0:
		// a supported codec name with a clock rate the selector does not accept -> stays Generic
		name = []string{"AV1", "VP9", "VP8", "H265", "H264", "MP4V-ES", "G726-16", "AAL2-G726-40"}[r.Intn(8)]
		for clock == 90000 || clock == 8000 {
			clock = genRate(r)
		}
	case 1:
		// a supported codec name with a payload type outside the dynamic range -> stays Generic
		if !dynamic && f.PayloadTyp != 35 {
			name = []string{"AV1", "VP9", "VP8", "H265", "MP4V-ES", "multiopus", "VORBIS", "mpeg4-generic", "MP4A-LATM", "AC3", "speex", "G726-32", "PCMU", "L24", "SMPTE336M"}[r.Intn(15)]
			if strings.HasPrefix(name, "G726") {
				clock = 8000
			}
		}
	}
	f.RTPMa = name + "/" + fmt.Sprint(clock)
	switch r.Intn(8) {
	case 0:
		f.RTPMa += "/" + fmt.Sprint(1+r.Intn(8))
	case 1:
		f.RTPMa = name // no clock rate at all: ClockRate() is 0
	case 2:
		if static || mt == description.MediaTypeApplication {
			f.RTPMa = "" // clock from the static payload type / none needed for application medias
		}
	}
	if n := r.Intn(5); n > 0 && r.Intn(3) != 0 {
		f.FMT = map[string]string{}
		for i := 0; i < n; i++ {
			k := vlib.RandString(r, 1+r.Intn(10), "abcdefghijklmnopqrstuvwxyz0123456789-_")
			v := strings.TrimSpace(vlib.RandString(r, r.Intn(16), fmtpValChars))
			if r.Intn(4) == 0 {
				v = fmt.Sprint(r.Intn(1000))
			}
			f.FMT[k] = v
		}
	}
	if err := f.Init(); err != nil {
		panic(fmt.Sprintf("generator: Generic.Init on %q: %v", f.RTPMa, err))
	}
	return f
}

// genFormat builds one format of type typ. pickPT(static) returns a payload type not yet used in
// the media: one of static when given (ok=false if all are taken), otherwise a dynamic one.
// class labels the parameter combination (used in samples / witnesses only).
func genFormat(r *rand.Rand, typ string, mt description.MediaType, pickPT func(static []uint8) (uint8, bool)) (f format.Format, class string) {
	dyn := func() uint8 { p, _ := pickPT(nil); return p }
	switch typ {
	case "H264":
		h := &format.H264{PayloadTyp: dyn(), PacketizationMode: []int{0, 1, 1, 1, 2}[r.Intn(5)]}
		if r.Intn(12) == 0 {
			if p, ok := pickPT([]uint8{35}); ok {
				h.PayloadTyp = p // the one static-range payload type the selector accepts for H264
			}
		}
		class = "no-params"
		if r.Intn(4) != 0 {
			set := h264Sets[r.Intn(len(h264Sets))]
			h.SPS = mutateValid(r, unb64(set[0]), okH264SPS)
			h.PPS = unb64(set[1])
			if r.Intn(4) == 0 {
				h.PPS = append([]byte{h.PPS[0]}, vlib.RandBytes(r, r.Intn(12))...)
			}
			class = "sps+pps"
		}
		return h, class
	case "H265":
		h := &format.H265{PayloadTyp: dyn()}
		if r.Intn(3) != 0 {
			h.VPS = unb64(h265VPS[r.Intn(len(h265VPS))])
			if r.Intn(4) == 0 {
				h.VPS = append(h.VPS[:2:2], vlib.RandBytes(r, r.Intn(24))...)
			}
			class += "v"
		}
		if r.Intn(3) != 0 {
			h.SPS = mutateValid(r, unb64(h265SPS[r.Intn(len(h265SPS))]), okH265SPS)
			class += "s"
		}
		if r.Intn(3) != 0 {
			h.PPS = mutateValid(r, unb64(h265PPS[r.Intn(len(h265PPS))]), okH265PPS)
			class += "p"
		}
		if r.Intn(3) == 0 {
			h.MaxDONDiff = genUint31(r, 1)
			class += "d"
		}
		return h, class
	case "AV1":
		return &format.AV1{PayloadTyp: dyn(), LevelIdx: optInt(r), Profile: optInt(r), Tier: optInt(r)}, ""
	case "VP8":
		return &format.VP8{PayloadTyp: dyn(), MaxFR: optInt(r), MaxFS: optInt(r)}, ""
	case "VP9":
		return &format.VP9{PayloadTyp: dyn(), MaxFR: optInt(r), MaxFS: optInt(r), ProfileID: optInt(r)}, ""
	case "MPEG4Video":
		m := &format.MPEG4Video{PayloadTyp: dyn(), ProfileLevelID: genUint31(r, 0)}
		if r.Intn(3) != 0 {
			m.Config = unhex(mp4vConf[r.Intn(len(mp4vConf))])
			if r.Intn(3) == 0 { // trailing bytes that cannot form a start code
				m.Config = append(m.Config, []byte(vlib.RandString(r, 1+r.Intn(8), "abcxyz0189"))...)
			}
			if mpeg4video.IsValidConfig(m.Config) != nil {
				panic("generator: invalid MPEG-4 video config")
			}
			class = "config"
		}
		return m, class
	case "MJPEG":
		return &format.MJPEG{}, ""
	case "MPEG1Video":
		return &format.MPEG1Video{}, ""
	case "MPEG1Audio":
		return &format.MPEG1Audio{}, ""
	case "MPEGTS":
		return &format.MPEGTS{}, ""
	case "G722":
		return &format.G722{}, ""
	case "Opus":
		o := &format.Opus{PayloadTyp: dyn(), ChannelCount: 1 + r.Intn(8)}
		if r.Intn(3) == 0 {
			o.ChannelCount = 1 + r.Intn(2)
		}
		if r.Intn(16) == 0 {
			o.ChannelCount = 9 + r.Intn(247)
		}
		return o, fmt.Sprintf("ch%d", min(o.ChannelCount, 9))
	case "Vorbis":
		return &format.Vorbis{PayloadTyp: dyn(), SampleRate: genRate(r), ChannelCount: 1 + r.Intn(8), Configuration: vlib.RandBytes(r, r.Intn(48))}, ""
	case "MPEG4Audio":
		m := &format.MPEG4Audio{
			PayloadTyp: dyn(), ProfileLevelID: genUint31(r, 0), Config: genASC(r),
			SizeLength: []int{13, 13, 13, 6, 1, 100, 1 + r.Intn(100)}[r.Intn(7)],
		}
		if r.Intn(4) != 0 {
			m.IndexLength = []int{3, 3, 2, 100, r.Intn(101)}[r.Intn(5)]
			m.IndexDeltaLength = []int{3, 3, 2, 100, r.Intn(101)}[r.Intn(5)]
		}
		return m, fmt.Sprintf("ext%d/ch%d", m.Config.ExtensionType, m.Config.ChannelConfig)
	case "MPEG4AudioLATM":
		m := &format.MPEG4AudioLATM{PayloadTyp: dyn(), ProfileLevelID: genUint31(r, 0)}
		if r.Intn(2) == 0 {
			m.ProfileLevelID = []int{1, 15, 30, 44}[r.Intn(4)]
		}
		if r.Intn(3) == 0 {
			m.Bitrate = ptr(genUint31(r, 0))
		}
		if r.Intn(3) == 0 {
			m.SBREnabled = ptr(r.Intn(2) == 0)
		}
		if r.Intn(3) == 0 {
			m.CPresent = true
			return m, "cpresent"
		}
		var same bool
		m.StreamMuxConfig, same = genSMC(r)
		class = "config"
		if same {
			class = "config/use-same-config-layer"
		}
		return m, class
	case "AC3":
		return &format.AC3{PayloadTyp: dyn(), SampleRate: genRate(r), ChannelCount: 1 + r.Intn(8)}, ""
	case "Speex":
		s := &format.Speex{PayloadTyp: dyn(), SampleRate: genRate(r)}
		if r.Intn(2) == 0 {
			s.VBR = ptr(r.Intn(2) == 0)
		}
		return s, ""
	case "G726":
		return &format.G726{PayloadTyp: dyn(), BitRate: []int{16, 24, 32, 40}[r.Intn(4)], BigEndian: r.Intn(2) == 0}, ""
	case "G711":
		if r.Intn(2) == 0 {
			if p, ok := pickPT([]uint8{0, 8}); ok {
				return &format.G711{PayloadTyp: p, MULaw: p == 0, SampleRate: 8000, ChannelCount: 1}, "static"
			}
		}
		g := &format.G711{PayloadTyp: dyn(), MULaw: r.Intn(2) == 0, SampleRate: genRate(r), ChannelCount: 1 + r.Intn(4)}
		if r.Intn(3) == 0 {
			g.SampleRate, g.ChannelCount = 8000, 1
		}
		return g, "dynamic"
	case "LPCM":
		if r.Intn(3) == 0 {
			if p, ok := pickPT([]uint8{10, 11}); ok {
				return &format.LPCM{PayloadTyp: p, BitDepth: 16, SampleRate: 44100, ChannelCount: 12 - int(p)}, "static"
			}
		}
		return &format.LPCM{PayloadTyp: dyn(), BitDepth: []int{8, 16, 24}[r.Intn(3)], SampleRate: genRate(r), ChannelCount: 1 + r.Intn(8)}, "dynamic"
	case "KLV":
		return &format.KLV{PayloadTyp: dyn()}, ""
	case "Generic":
		g := genGeneric(r, mt, pickPT)
		return g, ""
	}
	panic("unknown type " + typ)
}

// fixed payload types of the static format types (at most one of each per media)
var staticPT = map[string]uint8{"MJPEG": 26, "MPEG1Video": 32, "MPEG1Audio": 14, "MPEGTS": 33, "G722": 9}

func genMedia(r *rand.Rand, nFormats int) (*description.Media, []string) {
	mt := []description.MediaType{description.MediaTypeVideo, description.MediaTypeAudio, description.MediaTypeAudio, description.MediaTypeApplication}[r.Intn(4)]
	m := &description.Media{Type: mt}
	used := map[uint8]bool{}
	pickPT := func(static []uint8) (uint8, bool) {
		if static != nil {
			var free []uint8
			for _, p := range static {
				if !used[p] {
					free = append(free, p)
				}
			}
			if len(free) == 0 {
				return 0, false
			}
			p := free[r.Intn(len(free))]
			used[p] = true
			return p, true
		}
		for {
			p := uint8(96 + r.Intn(32))
			if !used[p] {
				used[p] = true
				return p, true
			}
		}
	}
	var classes []string
	for len(m.Formats) < nFormats {
		fam := families[mt]
		typ := fam[r.Intn(len(fam))]
		if r.Intn(7) == 0 {
			typ = typeNames[r.Intn(len(typeNames))] // any format in any media
		}
		if p, isStatic := staticPT[typ]; isStatic {
			if used[p] {
				continue
			}
			used[p] = true
		}
		f, class := genFormat(r, typ, mt, pickPT)
		m.Formats = append(m.Formats, f)
		classes = append(classes, typ+":"+class)
	}
	switch r.Intn(6) {
	case 0:
		m.Control = ""
	case 1:
		m.Control = fmt.Sprintf("trackID=%d", r.Intn(10))
	case 2:
		m.Control = fmt.Sprintf("rtsp://10.0.0.%d:8554/stream/trackID=%d", r.Intn(256), r.Intn(10))
	case 3:
		m.Control = fmt.Sprintf("streamid=%d", r.Intn(10))
	case 4:
		m.Control = "?ctype=video&x=" + vlib.RandString(r, r.Intn(6), "abc019")
	default:
		m.Control = vlib.RandString(r, 1+r.Intn(24), "abcdefghijklmnopqrstuvwxyzABCXYZ0123456789 :/?=&%._-~*")
	}
	return m, classes
}

const titleChars = "abcdefghijklmnopqrstuvwxyzABCDEFGHIJKLMNOPQRSTUVWXYZ0123456789 !#$%&'()*+,-./:;<=>?@[]^_`{|}~\"\\\t"

type genInfo struct {
	Classes  [][]string
	Features []string
}

func genSession(r *rand.Rand) (*description.Session, *genInfo) {
	d := &description.Session{Multicast: r.Intn(4) == 0}
	info := &genInfo{}
	switch r.Intn(5) {
	case 0:
		d.Title = ""
	case 1:
		d.Title = []string{"Stream", "-", "Session streamed with GStreamer", "Média présentation ✓", "a  b", " lead", "trail "}[r.Intn(7)]
	default:
		d.Title = vlib.RandString(r, 1+r.Intn(30), titleChars)
	}
	if d.Title == " " { // RFC 4566's spelling of "no title"; not a title of its own
		d.Title = ""
	}
	nm := []int{1, 1, 2, 2, 2, 3, 3, 4, 5, 6}[r.Intn(10)]
	for i := 0; i < nm; i++ {
		m, classes := genMedia(r, []int{1, 1, 1, 2, 2, 3, 4}[r.Intn(7)])
		d.Medias = append(d.Medias, m)
		info.Classes = append(info.Classes, classes)
	}
	// media ids: all or none; alphanumeric in the sense of unicode.IsLetter / IsNumber
	if r.Intn(2) == 0 {
		info.Features = append(info.Features, "mid")
		seen := map[string]bool{}
		for i, m := range d.Medias {
			for {
				switch r.Intn(4) {
				case 0:
					m.ID = fmt.Sprint(i + r.Intn(3)*10)
				case 1:
					m.ID = vlib.RandString(r, 1+r.Intn(6), "abcdefghijklmnopqrstuvwxyzABCXYZ0123456789")
				case 2:
					m.ID = []string{"vidéo", "ñ1", "音声", "٣", "Ⅷ", "a²"}[r.Intn(6)] + fmt.Sprint(i)
				default:
					m.ID = fmt.Sprint(i)
				}
				if !seen[m.ID] {
					seen[m.ID] = true
					break
				}
			}
		}
		if r.Intn(3) == 0 {
			info.Features = append(info.Features, "fec")
			for g := 1 + r.Intn(2); g > 0; g-- {
				var grp description.SessionFECGroup
				for k := 1 + r.Intn(len(d.Medias)); k > 0; k-- {
					grp = append(grp, d.Medias[r.Intn(len(d.Medias))].ID)
				}
				d.FECGroups = append(d.FECGroups, grp)
			}
		}
	}
	// back channels: a non-empty proper subset (the parser documents that it un-marks them otherwise)
	if nm >= 2 && r.Intn(5) < 2 {
		info.Features = append(info.Features, "backchannel")
		k := 1 + r.Intn(nm-1)
		for _, i := range r.Perm(nm)[:k] {
			d.Medias[i].IsBackChannel = true
		}
	}
	// secure profile + MIKEY
	if r.Intn(10) < 3 {
		info.Features = append(info.Features, "savp")
		all := r.Intn(2) == 0
		for _, m := range d.Medias {
			if all || r.Intn(2) == 0 {
				m.Profile = headers.TransportProfileSAVP
				if r.Intn(4) != 0 {
					m.KeyMgmtMikey = genMikey(r)
				}
			}
		}
		if r.Intn(3) == 0 {
			info.Features = append(info.Features, "session-mikey")
			d.KeyMgmtMikey = genMikey(r)
		}
	} else if r.Intn(40) == 0 {
		d.Medias[r.Intn(nm)].KeyMgmtMikey = genMikey(r) // MIKEY without SAVP is expressible too
	}
	return d, info
}

// genMikey: a well-formed MIKEY message (same grammar as the C09 generator, smaller sizes).
func genMikey(r *rand.Rand) *mikey.Message {
	m := &mikey.Message{}
	m.Header.Version = 1
	m.Header.CSBID = r.Uint32()
	for i := r.Intn(4); i > 0; i-- {
		m.Header.CSIDMapInfo = append(m.Header.CSIDMapInfo, mikey.SRTPIDEntry{PolicyNo: uint8(r.Intn(256)), SSRC: r.Uint32(), ROC: uint32(r.Intn(4))})
	}
	for i := r.Intn(5); i > 0; i-- {
		switch r.Intn(4) {
		case 0:
			m.Payloads = append(m.Payloads, &mikey.PayloadT{TSType: 0, TSValue: r.Uint64()})
		case 1:
			m.Payloads = append(m.Payloads, &mikey.PayloadRAND{Data: vlib.RandBytes(r, 16+r.Intn(17))})
		case 2:
			sp := &mikey.PayloadSP{PolicyNo: uint8(r.Intn(256))}
			for j := r.Intn(6); j > 0; j-- {
				sp.PolicyParams = append(sp.PolicyParams, mikey.PayloadSPPolicyParam{
					Type: mikey.PayloadSPPolicyParamType(r.Intn(13)), Value: vlib.RandBytes(r, []int{0, 1, 1, 2, 4}[r.Intn(5)]),
				})
			}
			m.Payloads = append(m.Payloads, sp)
		default:
			ke := &mikey.PayloadKEMAC{}
			for j := 1 + r.Intn(2); j > 0; j-- {
				sub := &mikey.SubPayloadKeyData{Type: mikey.SubPayloadKeyDataTypeTEK, KeyData: vlib.RandBytes(r, []int{16, 30, 46}[r.Intn(3)])}
				if r.Intn(2) == 0 {
					sub.KV = mikey.SubPayloadKeyDataKVSPI
					sub.SPI = vlib.RandBytes(r, []int{1, 4}[r.Intn(2)])
				}
				ke.SubPayloads = append(ke.SubPayloads, sub)
			}
			m.Payloads = append(m.Payloads, ke)
		}
	}
	return m
}
