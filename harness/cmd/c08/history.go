package main

import (
	"encoding/hex"
	"fmt"
	"math/rand"

	"github.com/pion/rtp"

	"verif/lib/codecs"
)

// wirePkt is an explicit packet of a witness.
type wirePkt struct {
	Seq     uint16 `json:"seq"`
	TS      uint32 `json:"ts"`
	Marker  bool   `json:"marker"`
	Payload string `json:"payload_hex"`
}

// histSpec is the replayable description of a history: either a generated shape (format,
// parameters, shape, seed, size hint, length) or an explicit packet list.
type histSpec struct {
	Format  string        `json:"format"`
	Params  codecs.Params `json:"params"`
	Shape   string        `json:"shape"`
	Seed    uint64        `json:"seed"`
	Size    int           `json:"payload_size_hint"`
	N       int           `json:"packets"`
	Corpus  string        `json:"corpus_file,omitempty"`
	Packets []wirePkt     `json:"explicit_packets,omitempty"`
}

// shapes. The first group are the named adversarial shapes of the property.
const (
	shPRNG          = "prng-bytes"
	shMix           = "grammar-mix"
	shEndlessStart  = "endless-start-fragments"
	shEndlessMiddle = "endless-middle-fragments" // consecutive sequence numbers, constant timestamp, no start
	shStartMiddles  = "start-then-middles-never-ended"
	shStartZeroMid  = "start-then-middles-declaring-zero-size"
	shFillThenFrag  = "complete-units-without-marker-then-unended-fragments"
	shUnitsNoMarker = "complete-units-never-marked"
	shFragThenFill  = "unended-fragments-then-complete-units-never-marked" // a pending fragmented unit of about half the maximum, then single-packet units for ever
	shAggExtremes   = "aggregation-extremes" // maximum-size aggregation headers, zero-length units
	shValidUnits    = "well-formed-fragmented-units"
	shMutated       = "mutated-valid-stream"
	shTruncSweep    = "truncation-sweep-of-valid-packets" // every cut point of the header region and of the tail of a valid packet
	shCorpus        = "repository-fuzz-corpus"
)

var accumulationShapes = []string{shStartMiddles, shStartZeroMid, shFillThenFrag, shFragThenFill, shUnitsNoMarker, shEndlessStart}

// source produces the packets of a history in order.
type source struct {
	spec histSpec
	t    target
	r    *rand.Rand
	g    gstate
	gr   grammar
	i    int
	seq  uint16
	ts   uint32
	// per-shape state
	seqMode, tsMode, mkMode int
	phase, left, unit       int
	queue                   []*rtp.Packet
	enc                     codecs.EncodeFunc
	encM                    int
	explicit                []*rtp.Packet
}

const (
	seqConsecutive = iota
	seqGaps
	seqJumping
	seqConstant
)

const (
	tsEqual = iota
	tsPerUnit
	tsChanging
)

const (
	mkNatural = iota
	mkNever
	mkAlways
	mkRandom
)

func newSource(spec histSpec, t target, corpus map[string][]*rtp.Packet) (*source, error) {
	s := &source{spec: spec, t: t, r: codecs.NewRand(spec.Seed*0x9e3779b97f4a7c15 + 0xc08), gr: grammars[t.name]}
	s.g.p = t.p
	if s.gr == nil {
		return nil, fmt.Errorf("no grammar for %s", t.name)
	}
	r := s.r
	s.seq = uint16(r.Intn(65536))
	if r.Intn(3) == 0 {
		s.seq = uint16(65536 - 1 - r.Intn(40)) // wrap early in the history
	}
	s.ts = r.Uint32()
	if len(spec.Packets) > 0 {
		for _, w := range spec.Packets {
			b, err := hex.DecodeString(w.Payload)
			if err != nil {
				return nil, err
			}
			s.explicit = append(s.explicit, &rtp.Packet{Header: rtp.Header{Version: 2, PayloadType: 96, SequenceNumber: w.Seq, Timestamp: w.TS, Marker: w.Marker}, Payload: b})
		}
		s.spec.N = len(s.explicit)
		return s, nil
	}
	switch spec.Shape {
	case shPRNG, shMix, shAggExtremes, shValidUnits:
		s.seqMode = [...]int{seqConsecutive, seqConsecutive, seqGaps, seqJumping, seqConstant}[r.Intn(5)]
		s.tsMode = [...]int{tsEqual, tsPerUnit, tsPerUnit, tsChanging}[r.Intn(4)]
		s.mkMode = [...]int{mkNatural, mkNatural, mkRandom, mkNever, mkAlways}[r.Intn(5)]
		if spec.Shape == shValidUnits {
			s.seqMode, s.mkMode = seqConsecutive, mkNatural
			if r.Intn(4) == 0 {
				s.seqMode = seqGaps
			}
		}
	case shEndlessStart, shEndlessMiddle, shStartMiddles, shStartZeroMid, shFillThenFrag, shFragThenFill, shUnitsNoMarker:
		// the named shapes: consecutive sequence numbers, constant timestamp, never a marker
		s.seqMode, s.tsMode, s.mkMode = seqConsecutive, tsEqual, mkNever
	case shMutated, shTruncSweep:
		if t.f == nil {
			return nil, fmt.Errorf("no codec adapter for %s", t.name)
		}
	case shCorpus:
		s.queue = corpus[spec.Corpus]
		if s.queue == nil {
			return nil, fmt.Errorf("corpus file %q not found", spec.Corpus)
		}
	default:
		return nil, fmt.Errorf("unknown shape %q", spec.Shape)
	}
	return s, nil
}

// size draws the body size of the next packet around the hint.
func (s *source) size() int {
	h := s.spec.Size
	switch s.r.Intn(8) {
	case 0:
		return s.r.Intn(4)
	case 1:
		return 1 + s.r.Intn(max(h, 1))
	}
	return h
}

func (s *source) stamp(p *rtp.Packet, unitBoundary bool) {
	switch s.seqMode {
	case seqConsecutive:
		s.seq++
	case seqGaps:
		s.seq++
		if s.r.Intn(24) == 0 {
			s.seq += uint16(s.r.Intn(4)) - 1 // duplicate, or a gap of 1..2
		}
	case seqJumping:
		s.seq = uint16(s.r.Intn(65536))
	}
	switch s.tsMode {
	case tsPerUnit:
		if unitBoundary {
			s.ts += 3000
		}
	case tsChanging:
		s.ts += uint32(s.r.Intn(6000))
	}
	p.Version, p.PayloadType, p.SSRC = 2, 96, 0xc08
	p.SequenceNumber, p.Timestamp = s.seq, s.ts
}

func (s *source) marker(natural, endOfUnit bool) bool {
	switch s.mkMode {
	case mkNever:
		return false
	case mkAlways:
		return endOfUnit
	case mkRandom:
		return s.r.Intn(4) == 0
	}
	return natural || (endOfUnit && s.r.Intn(3) == 0)
}

// next returns packet i of the history (nil at the end).
func (s *source) next() *rtp.Packet {
	if s.i >= s.spec.N {
		return nil
	}
	i := s.i
	s.i++
	r := s.r
	if s.explicit != nil {
		if i >= len(s.explicit) {
			return nil
		}
		return s.explicit[i]
	}
	p := &rtp.Packet{}
	mk := func(ro role, n int) bool {
		var nat bool
		p.Payload, nat = s.gr(r, ro, n, &s.g)
		return nat
	}
	switch s.spec.Shape {
	case shPRNG:
		n := s.size()
		if r.Intn(50) == 0 {
			n = r.Intn(65536)
		}
		p.Payload = freshDense(r, n)
		if len(p.Payload) > 0 && r.Intn(2) == 0 { // bias the first bytes towards header-field boundaries
			p.Payload[0] = [...]byte{0, 0x1c, 0x7c, 0x18, 0x62, 0x60, 0x80, 0x40, 0xc0, 0x10, 0x06, 0x0b, 0xff, 1, 2, 3}[r.Intn(16)]
		}
		s.stamp(p, r.Intn(4) == 0)
		p.Marker = r.Intn(4) == 0
	case shMix:
		ro := role(r.Intn(int(nRoles)))
		if r.Intn(2) == 0 { // keep fragment runs plausible: start, middles, end
			switch s.phase {
			case 0:
				ro, s.phase, s.left = rStart, 1, r.Intn(6)
			case 1:
				ro = rMiddle
				if s.left--; s.left <= 0 {
					s.phase = 2
				}
			default:
				ro, s.phase = rEnd, 0
			}
		}
		nat := mk(ro, s.size())
		end := ro == rEnd || ro == rSingle || ro == rAgg
		s.stamp(p, end)
		p.Marker = s.marker(nat, end)
	case shAggExtremes:
		ro := [...]role{rAgg, rZero, rMaxAgg, rMaxAgg, rSingle}[r.Intn(5)]
		n := s.size()
		if ro == rMaxAgg && r.Intn(4) == 0 {
			n = 60000
		}
		nat := mk(ro, n)
		s.stamp(p, true)
		p.Marker = s.marker(nat, true)
	case shEndlessStart:
		mk(rStart, s.spec.Size)
		s.stamp(p, false)
	case shEndlessMiddle:
		mk(rMiddle, s.spec.Size)
		s.stamp(p, false)
	case shStartMiddles, shStartZeroMid:
		s.g.zeroMiddles = s.spec.Shape == shStartZeroMid
		if i == 0 {
			mk(rStart, s.spec.Size)
		} else {
			mk(rMiddle, s.spec.Size)
		}
		s.stamp(p, false)
	case shUnitsNoMarker:
		mk(rSingle, s.spec.Size)
		s.stamp(p, false)
	case shFragThenFill:
		// a start fragment and middles up to about half of the maximum frame size, never ended;
		// then complete single-packet units without marker for ever
		half := s.t.lim.maxFrame / 2 / max(s.spec.Size, 1)
		switch {
		case i == 0:
			mk(rStart, s.spec.Size)
		case i <= half:
			mk(rMiddle, s.spec.Size)
		default:
			mk(rSingle, s.spec.Size)
		}
		s.stamp(p, false)
	case shFillThenFrag:
		// phase 0: unitCap-1 complete fragmented units that nearly fill the frame buffer (no marker);
		// phase 1: one start fragment, then middles for ever
		if i == 0 {
			ucap := s.t.lim.unitCap
			if ucap == 0 || ucap > 1000 {
				ucap = 9
			}
			per := (s.t.lim.maxFrame - s.t.lim.maxFrame/50) / (ucap - 1) // bytes per unit
			s.unit = max(2, per/max(s.spec.Size, 1))                     // fragments per unit
			s.left = (ucap - 1) * s.unit
		}
		switch {
		case s.left > 0:
			k := (s.left - 1) % s.unit // counts down within the unit
			switch {
			case k == s.unit-1:
				mk(rStart, s.spec.Size)
			case k == 0:
				mk(rEnd, s.spec.Size)
			default:
				mk(rMiddle, s.spec.Size)
			}
			s.left--
			if s.left == 0 {
				s.phase = 1
			}
		case s.phase == 1:
			mk(rStart, s.spec.Size)
			s.phase = 2
		default:
			mk(rMiddle, s.spec.Size)
		}
		s.stamp(p, false)
	case shValidUnits:
		// start, k middles, end; unit sizes small, or around the format's maximum frame size
		if s.left == 0 && s.phase == 0 {
			frags := 1 + r.Intn(6)
			if mf := s.t.lim.maxFrame; mf > 0 && r.Intn(4) == 0 && s.spec.Size >= 1000 {
				frags = mf/s.spec.Size + r.Intn(5) - 2 // just below / at / just above the maximum
			}
			s.left = max(frags, 1)
			s.unit = s.left
		}
		var nat bool
		end := s.left == 1
		switch {
		case s.unit == 1:
			nat = mk(rSingle, s.spec.Size)
		case s.left == s.unit:
			nat = mk(rStart, s.spec.Size)
		case end:
			nat = mk(rEnd, s.spec.Size)
		default:
			nat = mk(rMiddle, s.spec.Size)
		}
		s.left--
		s.stamp(p, end)
		p.Marker = s.marker(nat, end)
		if end && s.mkMode == mkNatural && r.Intn(8) != 0 {
			p.Marker = true
		}
	case shMutated:
		for len(s.queue) == 0 {
			s.refill()
		}
		p, s.queue = s.queue[0], s.queue[1:]
	case shTruncSweep:
		for len(s.queue) == 0 {
			s.refillTrunc()
		}
		p, s.queue = s.queue[0], s.queue[1:]
	case shCorpus:
		// the stored packets as they are, then (longer histories) mutated copies of them
		base := s.queue[i%len(s.queue)]
		if i < len(s.queue) {
			return base
		}
		c := *base
		c.Payload = append([]byte(nil), base.Payload...)
		if len(c.Payload) > 0 {
			switch r.Intn(5) {
			case 0, 1:
				c.Payload[r.Intn(min(len(c.Payload), 8))] ^= 1 << uint(r.Intn(8))
			case 2:
				c.Payload[r.Intn(len(c.Payload))] = byte(r.Intn(256))
			case 3:
				c.Payload = c.Payload[:r.Intn(len(c.Payload)+1)]
			}
		}
		switch r.Intn(6) {
		case 0:
			c.Marker = !c.Marker
		case 1:
			c.Timestamp += uint32(r.Intn(3))
		}
		s.seq++
		if r.Intn(3) != 0 {
			c.SequenceNumber = base.SequenceNumber + uint16(i/len(s.queue))*uint16(len(s.queue))
		}
		return &c
	}
	if len(p.Payload) > 65535 { // (what fits into a UDP datagram / an interleaved frame)
		p.Payload = p.Payload[:65535]
	}
	return p
}

// refill encodes one more valid frame with the real encoder and mutates its packets.
func (s *source) refill() {
	r, f := s.r, s.t.f
	p := f.Params[r.Intn(len(f.Params))]
	if s.t.name == "rtpmpeg4audio" {
		p = s.t.p
	}
	if s.enc == nil || r.Intn(40) == 0 {
		lo := f.MinLimit(p)
		s.encM = lo + r.Intn(60)
		if r.Intn(3) == 0 {
			s.encM = max(lo, []int{100, 256, 1000, 1450}[r.Intn(4)])
		}
		enc, err := f.NewEncoder(p, codecs.EncConf{PayloadMaxSize: s.encM, SSRC: 0xc08, InitialSequenceNumber: s.seq + 1, PayloadType: 96})
		if err != nil {
			panic("harness: NewEncoder: " + err.Error())
		}
		s.enc = enc
		s.g.p = p
	}
	p = s.g.p
	sizes := f.SampleSizes(r, p, s.encM)
	tot := 0
	for _, v := range sizes {
		tot += v
	}
	if tot > 40*s.encM+4096 {
		sizes = []int{f.Fit(p, s.encM)}
	}
	pkts, err := s.enc(f.Gen(r, p, sizes, uint64(s.i+1)))
	if err != nil {
		pkts = nil
	}
	s.ts += 3000
	for _, q := range pkts {
		q.Timestamp += s.ts
		s.seq = q.SequenceNumber
	}
	// stream-level mutations: drop / duplicate / swap
	for k := 0; k < len(pkts); k++ {
		switch r.Intn(40) {
		case 0:
			pkts = append(pkts[:k:k], pkts[k+1:]...)
			k--
		case 1:
			c := *pkts[k]
			pkts = append(pkts[:k+1:k+1], append([]*rtp.Packet{&c}, pkts[k+1:]...)...)
			k++
		case 2:
			if k+1 < len(pkts) {
				pkts[k], pkts[k+1] = pkts[k+1], pkts[k]
			}
		}
	}
	// packet-level mutations (payloads are copied first: the encoder's buffers may be shared)
	for _, q := range pkts {
		if r.Intn(3) != 0 {
			continue
		}
		b := append([]byte(nil), q.Payload...)
		switch r.Intn(10) {
		case 0, 1, 2: // flip a header byte (the first bytes carry the format's header fields)
			if len(b) > 0 {
				b[r.Intn(min(len(b), 12))] ^= 1 << uint(r.Intn(8))
			}
		case 3:
			if len(b) > 0 {
				b[r.Intn(len(b))] = byte(r.Intn(256))
			}
		case 4:
			b = b[:r.Intn(len(b)+1)]
		case 5:
			b = append(b, fresh(r, 0, 1+r.Intn(64))...)
		case 6:
			q.Marker = !q.Marker
		case 7:
			q.Timestamp += uint32(r.Intn(3)) - 1
		case 8:
			q.SequenceNumber += uint16(r.Intn(5)) - 2
		default:
			if len(b) > 4 { // overwrite a 16-bit field with an extreme
				o := r.Intn(min(len(b)-1, 16))
				v := [...]uint16{0, 1, 0xFFFF, 0x8000, 0x7FFF}[r.Intn(5)]
				b[o], b[o+1] = byte(v>>8), byte(v)
			}
		}
		q.Payload = b
	}
	if len(pkts) == 0 { // never starve the queue
		q := &rtp.Packet{Payload: fresh(r, 0, 1+r.Intn(16))}
		s.stamp(q, false)
		pkts = []*rtp.Packet{q}
	}
	s.queue = append(s.queue, pkts...)
}

// refillTrunc encodes one valid unit and queues, for one of its packets (they take turns), every
// truncation of that packet inside its first 420 bytes and its last 16 bytes, each preceded by the
// untouched packets that come before it in the unit: the decoder reaches the state in which it
// parses that packet and then meets a packet that ends anywhere inside its header structures.
func (s *source) refillTrunc() {
	r, f := s.r, s.t.f
	p := f.Params[r.Intn(len(f.Params))]
	if s.t.name == "rtpmpeg4audio" {
		p = s.t.p
	}
	lo := f.MinLimit(p)
	m := max(lo, []int{64, 200, 600, 1450}[s.unit%4])
	s.unit++
	enc, err := f.NewEncoder(p, codecs.EncConf{PayloadMaxSize: m, SSRC: 0xc08, InitialSequenceNumber: s.seq + 1, PayloadType: 96})
	if err != nil {
		panic("harness: NewEncoder: " + err.Error())
	}
	sizes := f.SampleSizes(r, p, m)
	tot := 0
	for _, v := range sizes {
		tot += v
	}
	if tot > 6*m+512 {
		sizes = []int{f.Fit(p, min(2*m, tot))}
	}
	pkts, err := enc(f.Gen(r, p, sizes, uint64(s.i+1)))
	if err != nil || len(pkts) == 0 {
		q := &rtp.Packet{Payload: fresh(r, 0, 1+r.Intn(16))}
		s.stamp(q, false)
		s.queue = append(s.queue, q)
		return
	}
	k := (s.unit / 4) % min(len(pkts), 3) // first, second or third packet of the unit
	target := pkts[k]
	n := len(target.Payload)
	seq := s.seq
	for c := 0; c <= n; c++ {
		if c > 420 && c < n-16 {
			c = n - 16
		}
		s.ts += 3000
		for j := 0; j <= k; j++ {
			q := *pkts[j]
			q.Payload = append([]byte(nil), pkts[j].Payload...)
			if j == k {
				q.Payload = q.Payload[:c]
			}
			seq++
			q.SequenceNumber = seq
			q.Timestamp = s.ts
			s.queue = append(s.queue, &q)
		}
	}
	s.seq = seq
}

func toWire(p *rtp.Packet) wirePkt {
	return wirePkt{Seq: p.SequenceNumber, TS: p.Timestamp, Marker: p.Marker, Payload: hex.EncodeToString(p.Payload)}
}
