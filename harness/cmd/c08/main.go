// C08: depacketizers on hostile packets - no panic, no non-returning call, bounded retained
// memory, bounded returned frames, returned frames never altered afterwards.
//
// Every history (a packet sequence) is fed to a fresh real decoder while five monitors watch:
//
//	(a) panics, recovered in-process with the packet index;
//	(b) a Decode that does not return: every history runs in its own goroutine under a generous
//	    watchdog; a firing must reproduce in a fresh attempt to count;
//	(c) retained payload bytes: a reflect+unsafe walker (walker.go) sums len() of every byte slice
//	    reachable from the decoder value after each of the first 64 calls and then whenever the bound
//	    could have been reached since the last sample (at least every 256 calls); bound =
//	    the format's documented maximum frame size + the largest packet of the history; a coarse
//	    second monitor (sequential phase) compares HeapAlloc after runtime.GC() at the end of the
//	    long accumulation histories;
//	(d) size of every returned frame <= the format's maximum;
//	(e) stability: every returned frame is deep-copied at return time, the original kept, and all
//	    kept originals are compared with their copies every 64 calls and at the end.
//
// Histories: PRNG bytes; grammar-aware packets built from each format's header fields
// (grammar.go) incl. the named adversarial shapes (history.go); mutations of valid streams encoded
// by the real encoders (lib/codecs); the repository's fuzz corpora, as they are and mutated.
package main

import (
	"bytes"
	"fmt"
	"os"
	"runtime"
	"runtime/debug"
	"runtime/pprof"
	"sort"
	"strconv"
	"strings"
	"sync"
	"sync/atomic"
	"time"

	"github.com/pion/rtp"

	"verif/lib/vlib"
)

var (
	run     *vlib.Run
	evals   atomic.Int64
	corpus  map[string][]*rtp.Packet
	seenKey sync.Map // violation keys already minimised
)

const (
	historyWatchdog = 120 * time.Second
	keepFrames      = 256
	keepBytes       = 8 << 20
)

type witness struct {
	histSpec
	Monitor string `json:"monitor"`
	Call    int    `json:"failing_call"` // index of the Decode call at which the monitor fired
	Detail  string `json:"detail,omitempty"`
	Heap    bool   `json:"heap_monitor,omitempty"`
	Stack   string `json:"stack,omitempty"`
}

// finding is a monitor firing inside one history.
type finding struct {
	key, what, monitor, detail, stack string
	call                              int
}

// outcome of one history.
type outcome struct {
	calls, frames, errs int
	maxRetained         int64
	bound               int64
	reinspected         int64
	walks               int
	finding             *finding
	nontrivial          bool
}

type kept struct {
	orig, cp [][]byte
	call     int
}

func deepCopy(u [][]byte) [][]byte {
	out := make([][]byte, len(u))
	for i, b := range u {
		out[i] = append([]byte(nil), b...)
	}
	return out
}

func sameUnits(a, b [][]byte) bool {
	if len(a) != len(b) {
		return false
	}
	for i := range a {
		if !bytes.Equal(a[i], b[i]) {
			return false
		}
	}
	return true
}

// runHistory feeds one history to a fresh decoder under monitors (a), (c), (d), (e). It stops at the
// first firing. With heap set, (e) keeps nothing and the walker does not stop the history early.
func runHistory(spec histSpec, t target, heap bool) outcome {
	return runHistoryP(spec, t, heap, nil)
}

func runHistoryP(spec histSpec, t target, heap bool, progress *atomic.Int64) (out outcome) {
	src, err := newSource(spec, t, corpus)
	if err != nil {
		run.Fatal("history %+v: %v", spec, err)
	}
	dec, err := newDecoder(t.name, t.p)
	if err != nil {
		run.Fatal("decoder %s: %v", t.name, err)
	}
	lim := t.lim
	capBytes := int64(lim.maxFrame)
	if lim.maxFrame == 0 && !lim.stateless {
		capBytes = nominalCap
	}
	var keep []kept
	keptBytes := 0
	maxPayload := 0
	firstOver := -1
	call := -1
	nextWalk := 0
	fire := func(monitor, key, what, detail string) {
		out.finding = &finding{key: t.name + "/" + key, what: t.name + ": " + what, monitor: monitor, detail: detail, call: call}
	}
	compare := func() bool {
		for _, k := range keep {
			out.reinspected++
			if !sameUnits(k.orig, k.cp) {
				fire("stability", "returned-frame-altered", "a frame already returned to the caller was modified by a later Decode call",
					fmt.Sprintf("frame returned by call %d differs from its copy after call %d", k.call, call))
				return false
			}
		}
		return true
	}
	walk := func() bool {
		ret := retainedBytes(dec.state)
		out.walks++
		if ret > out.maxRetained {
			out.maxRetained = ret
		}
		bound := capBytes + int64(maxPayload)
		out.bound = bound
		if ret > 0 {
			out.nontrivial = true
		}
		// A call cannot make the decoder retain more new bytes than it was handed (a factor 4 is
		// allowed for), so the next sample is only needed when the bound could have been reached.
		room := bound - ret
		if ret > bound {
			room = 4*bound + (1 << 20) - ret
		}
		nextWalk = call + int(max(1, min(256, room/int64(4*max(maxPayload, 1)))))
		if ret <= bound {
			return true
		}
		if firstOver < 0 {
			firstOver = call
		}
		// keep feeding until it is clear whether the growth is bounded (a second cap somewhere) or not;
		// a decoder without any documented or wire maximum has no second cap to wait for
		if (ret > 4*bound+(1<<20) || lim.maxFrame == 0) && !heap {
			fire("retained-memory", "unbounded-growth", "retained payload bytes grow without bound",
				fmt.Sprintf("%d bytes retained after call %d (bound %d = %d (%s) + largest packet %d; first exceeded at call %d)",
					ret, call, bound, capBytes, lim.source, maxPayload, firstOver))
			return false
		}
		return true
	}
	defer func() {
		if v := recover(); v != nil {
			st := vlib.Stack()
			site := vlib.PanicSite(st)
			out.finding = &finding{key: t.name + "/panic/" + site, what: fmt.Sprintf("%s: Decode panics: %v", t.name, v), monitor: "panic",
				detail: fmt.Sprintf("packet index %d: %v", call, v), stack: st, call: call}
		}
	}()
	for pkt := src.next(); pkt != nil; pkt = src.next() {
		call++
		out.calls++
		if progress != nil {
			progress.Store(int64(call))
		}
		if n := len(pkt.Payload); n > maxPayload {
			maxPayload = n
			nextWalk = call // (the sampling distance depends on the largest packet)
		}
		units, err := dec.decode(pkt)
		if debugCalls > 0 && call < debugCalls {
			fmt.Printf("debug: call %d seq %d ts %d marker %v payload %d bytes [% x...] -> %d units, err %v, retained %d\n", call, pkt.SequenceNumber, pkt.Timestamp,
				pkt.Marker, len(pkt.Payload), pkt.Payload[:min(len(pkt.Payload), 6)], len(units), err, retainedBytes(dec.state))
		}
		if err != nil {
			out.errs++
		} else if units != nil {
			out.frames++
			out.nontrivial = true
			// (d) size of the returned frame
			tot, big := 0, 0
			for _, u := range units {
				tot += len(u)
				big = max(big, len(u))
			}
			var over bool
			var allowed int
			switch {
			case lim.stateless:
				allowed = len(pkt.Payload)
				over = tot > allowed
			case lim.maxFrame == 0:
			case lim.perUnit:
				allowed = lim.maxFrame
				over = big > allowed
				tot = big
			default:
				allowed = lim.maxFrame
				if lim.frameSlack {
					allowed += maxPayload
				}
				over = tot > allowed
			}
			if over {
				fire("frame-size", "returned-frame-above-maximum", "a returned frame is larger than the format's maximum",
					fmt.Sprintf("call %d returned %d bytes; maximum %d (%s)", call, tot, allowed, lim.source))
				return
			}
			// (e) keep the original next to a deep copy
			if !heap {
				keep = append(keep, kept{orig: append([][]byte(nil), units...), cp: deepCopy(units), call: call})
				keptBytes += tot
				for len(keep) > keepFrames || (keptBytes > keepBytes && len(keep) > 2) {
					k := keep[0]
					out.reinspected++
					if !sameUnits(k.orig, k.cp) {
						compare()
						return
					}
					for _, u := range k.cp {
						keptBytes -= len(u)
					}
					keep = keep[1:]
				}
			}
		}
		if call%64 == 63 && !compare() {
			return
		}
		if (call < 64 || call >= nextWalk) && !walk() {
			return
		}
	}
	if call >= 0 {
		if !compare() || !walk() {
			return
		}
	}
	if firstOver >= 0 && out.finding == nil && (out.maxRetained > 4*out.bound+(1<<20) || lim.maxFrame == 0) {
		fire("retained-memory", "unbounded-growth", "retained payload bytes grow without bound",
			fmt.Sprintf("up to %d bytes retained (bound %d = %d (%s) + largest packet %d; first exceeded at call %d)",
				out.maxRetained, out.bound, capBytes, lim.source, maxPayload, firstOver))
	}
	if firstOver >= 0 && out.finding == nil {
		call = firstOver
		fire("retained-memory", "retained-above-bound", "the decoder retains more than the documented maximum frame size plus a packet",
			fmt.Sprintf("up to %d bytes retained (bound %d = %d (%s) + largest packet %d; first exceeded at call %d); growth stopped below 4x the bound",
				out.maxRetained, out.bound, capBytes, lim.source, maxPayload, firstOver))
		out.finding.call = out.calls - 1
	}
	if heap && out.finding == nil {
		// coarse monitor: what the process still holds for this decoder after a GC
		keep, src = nil, nil
		runtime.GC()
		runtime.GC()
		var ms runtime.MemStats
		runtime.ReadMemStats(&ms)
		held := int64(ms.HeapAlloc) - heapBase
		allowed := 4*(capBytes+int64(maxPayload)) + (8 << 20)
		run.Max("heap-after-gc-bytes/"+t.name, held)
		if held > allowed {
			fire("heap", "heap-growth", "the heap held on behalf of the decoder after a GC exceeds 4x the bound although the walker saw nothing",
				fmt.Sprintf("HeapAlloc after GC grew by %d bytes over the history; allowed %d; walker maximum %d", held, allowed, out.maxRetained))
		}
		runtime.KeepAlive(dec)
	}
	return out
}

var heapBase int64

// debugCalls: C08_DEBUG=n prints the first n calls of a replayed history.
var debugCalls, _ = strconv.Atoi(os.Getenv("C08_DEBUG"))

// guarded runs one history in its own goroutine under the watchdog (monitor (b)). The watchdog is
// progress based: it fires when no Decode call has returned for historyWatchdog (a history that is
// merely slow on a loaded machine keeps making progress); a firing must reproduce in a fresh attempt.
func guarded(spec histSpec, t target, heap bool) (outcome, bool) {
	attempt := func() (outcome, bool) {
		ch := make(chan outcome, 1)
		var progress atomic.Int64
		go func() { ch <- runHistoryP(spec, t, heap, &progress) }()
		last := int64(-1)
		for {
			select {
			case o := <-ch:
				return o, true
			case <-time.After(historyWatchdog):
				if cur := progress.Load(); cur != last {
					last = cur
					continue
				}
				return outcome{}, false
			}
		}
	}
	o, ok := attempt()
	if ok {
		return o, true
	}
	if _, ok2 := attempt(); !ok2 {
		run.Violation(t.name+"/hang", fmt.Sprintf("%s: no Decode call returned for %v in two independent attempts at the same history", t.name, historyWatchdog),
			witness{histSpec: spec, Monitor: "watchdog", Heap: heap})
		return outcome{}, false
	}
	run.Inconclusive("watchdog-fired-but-not-reproduced")
	return outcome{}, false
}

// minimise looks for a short explicit suffix of the history that reproduces the same finding.
func minimise(spec histSpec, t target, f *finding) histSpec {
	spec.N = f.call + 1
	if f.monitor == "retained-memory" || f.monitor == "heap" || spec.N > 400000 {
		return spec
	}
	src, err := newSource(spec, t, corpus)
	if err != nil {
		return spec
	}
	var all []*rtp.Packet
	for p := src.next(); p != nil; p = src.next() {
		all = append(all, p)
		if len(all) > 128 {
			all = all[1:]
		}
	}
	for _, k := range []int{1, 2, 3, 4, 6, 8, 12, 16, 32, 64, 128} {
		if k > len(all) {
			break
		}
		ex := histSpec{Format: spec.Format, Params: spec.Params, Shape: "explicit (minimised from " + spec.Shape + ")"}
		for _, p := range all[len(all)-k:] {
			ex.Packets = append(ex.Packets, toWire(p))
		}
		ex.N = k
		if o := runHistory(ex, t, false); o.finding != nil && o.finding.key == f.key {
			f.call, f.detail = o.finding.call, o.finding.detail
			return ex
		}
	}
	return spec
}

var reportMu sync.Mutex

func report(spec histSpec, t target, f *finding, heap bool) {
	// (serialised: the first witness per key is the one that is stored, and it should be the minimised one)
	reportMu.Lock()
	defer reportMu.Unlock()
	w := witness{histSpec: spec, Monitor: f.monitor, Call: f.call, Detail: f.detail, Heap: heap, Stack: f.stack}
	w.N = f.call + 1
	if _, dup := seenKey.LoadOrStore(f.key, true); !dup {
		w.histSpec = minimise(spec, t, f)
		w.Call, w.Detail = f.call, f.detail
	}
	run.Violation(f.key, f.what+" ("+f.detail+"; "+spec.Shape+")", w)
}

// ---------------------------------------------------------------------------------------------

type stats struct {
	c  map[string]int64
	mx map[string]int64
}

func (s *stats) add(spec histSpec, t target, o outcome) {
	n := t.name
	s.c["histories/"+n]++
	s.c["histories-shape/"+spec.Shape]++
	s.c["packets/"+n] += int64(o.calls)
	s.c["packets"] += int64(o.calls)
	s.c["frames-returned/"+n] += int64(o.frames)
	s.c["errors-returned/"+n] += int64(o.errs)
	s.c["frames-reinspected/"+n] += o.reinspected
	s.c["retained-memory-samples/"+n] += int64(o.walks)
	s.mx["max-retained-bytes/"+n] = max(s.mx["max-retained-bytes/"+n], o.maxRetained)
	s.mx["retained-bound-bytes/"+n] = max(s.mx["retained-bound-bytes/"+n], o.bound)
	s.mx["longest-history-packets/"+n] = max(s.mx["longest-history-packets/"+n], int64(o.calls))
}

func (s *stats) flush() {
	for k, v := range s.c {
		run.Count(k, v)
	}
	for k, v := range s.mx {
		run.Max(k, v)
	}
}

func doHistory(s *stats, spec histSpec, t target, heap bool) {
	evals.Add(1)
	o, ok := guarded(spec, t, heap)
	if !ok {
		return
	}
	s.add(spec, t, o)
	if o.nontrivial {
		run.Distinct(fmt.Sprintf("%s|%s|%s|%d|%d|%d|%s", spec.Format, spec.Params.Label, spec.Shape, spec.Seed, spec.Size, spec.N, spec.Corpus))
	}
	if o.finding != nil {
		s.c["monitor-firings/"+o.finding.monitor+"/"+t.name]++
		report(spec, t, o.finding, heap)
	} else if run.WantSample() && o.frames > 0 && spec.Shape != shCorpus {
		run.Sample(map[string]any{"history": spec, "calls": o.calls, "frames_returned": o.frames, "errors_returned": o.errs,
			"max_retained_bytes": o.maxRetained, "bound": o.bound, "frames_reinspected": o.reinspected})
	}
}

// plan lists the histories of a tier (a function of seed and tier only).
func plan(ts []target, thorough bool) []histSpec {
	var out []histSpec
	seedBase := uint64(run.Seed) * 1000003
	n := 0
	add := func(t target, shape string, size, length int) {
		n++
		out = append(out, histSpec{Format: t.name, Params: t.p, Shape: shape, Seed: seedBase + uint64(n), Size: size, N: length})
	}
	rep := func(q, th int) int {
		if thorough {
			return th
		}
		return q
	}
	long := rep(50000, 200000)
	for _, t := range ts {
		for _, l := range []int{1, 2, 3, 5, 10, 100, 1000, 5000} {
			for k := 0; k < rep(2, 12); k++ {
				add(t, shPRNG, []int{12, 40, 200, 1400}[k%4], l)
			}
		}
		for k := 0; k < rep(32, 400); k++ {
			add(t, shMix, []int{8, 30, 100, 1400, 4000}[k%5], []int{50, 500, 5000, 20000}[k%4])
		}
		for k := 0; k < rep(8, 80); k++ {
			add(t, shAggExtremes, []int{16, 64, 300, 1400}[k%4], 2000)
		}
		for k := 0; k < rep(12, 160); k++ {
			add(t, shValidUnits, []int{20, 300, 1400, 1400}[k%4], []int{2000, 10000}[k%2])
		}
		for k := 0; k < rep(2, 24); k++ {
			add(t, shValidUnits, 60000, rep(500, 1500))
		}
		for k := 0; k < rep(20, 300); k++ {
			add(t, shMutated, 0, []int{500, 5000}[k%2])
		}
		for k := 0; k < rep(6, 60); k++ {
			add(t, shTruncSweep, 0, 6000)
		}
		for _, sh := range []string{shEndlessStart, shEndlessMiddle} {
			add(t, sh, 16, long)
			add(t, sh, 1400, rep(20000, long))
			add(t, sh, 60000, rep(300, 4000))
		}
		// accumulation shapes: enough payload to tell "bounded above the documented maximum" from
		// "unbounded" (4.6x the bound; thorough: also at least 80 MiB / up to 200000 packets)
		for _, sz := range []int{1400, 60000} {
			add(t, shStartMiddles, sz, accLen(t, sz, thorough))
			if t.name == "rtpmpeg4audio" {
				add(t, shStartZeroMid, sz, accLen(t, sz, thorough))
			}
			if sz == 1400 && !thorough {
				continue // (quick: the other accumulation shapes with large packets only)
			}
			add(t, shUnitsNoMarker, sz, accLen(t, sz, thorough))
			add(t, shFragThenFill, sz, accLen(t, sz, thorough))
			if t.lim.unitCap > 0 {
				add(t, shFillThenFrag, sz, accLen(t, sz, thorough))
			}
		}
	}
	// the repository's fuzz corpora: as they are, and mutated
	files := make([]string, 0, len(corpus))
	for f := range corpus {
		files = append(files, f)
	}
	sort.Strings(files)
	for _, f := range files {
		name := strings.Split(f, "/")[0]
		for _, t := range ts {
			if t.name != name {
				continue
			}
			for k := 0; k < rep(4, 40); k++ {
				n++
				out = append(out, histSpec{Format: t.name, Params: t.p, Shape: shCorpus, Corpus: f, Seed: seedBase + uint64(n)*uint64(min(k, 1)), N: len(corpus[f]) * (1 + 20*min(k, 1))})
			}
		}
	}
	return out
}

// accLen: length of an accumulation history with packets of about sz bytes.
func accLen(t target, sz int, thorough bool) int {
	capBytes := t.lim.maxFrame
	if capBytes == 0 {
		capBytes = nominalCap
		if t.lim.stateless {
			capBytes = 1 << 20
		}
	}
	n := 23*capBytes/(5*sz) + 300 // 4.6 x the cap: beyond the 4x that separates "bounded" from "unbounded"
	if thorough {
		n = max(n, min((80<<20)/sz, 200000))
	}
	return n
}

func targetOf(ts []target, name, label string) (target, bool) {
	for _, t := range ts {
		if t.name == name && (t.p.Label == label || label == "") {
			return t, true
		}
	}
	for _, t := range ts {
		if t.name == name {
			return t, true
		}
	}
	return target{}, false
}

func replay(ts []target) {
	var w witness
	if err := run.LoadReplay(&w); err != nil {
		run.Fatal("cannot load replay: %v", err)
	}
	t, ok := targetOf(ts, w.Format, w.Params.Label)
	if !ok {
		run.Fatal("unknown decoder %q", w.Format)
	}
	t.p = w.Params
	baseline()
	o, ok := guarded(w.histSpec, t, w.Heap)
	if ok {
		fmt.Printf("replay: %s shape %q: %d calls, %d frames returned, %d errors, max retained %d (bound %d), %d frames re-inspected\n",
			t.label(), w.Shape, o.calls, o.frames, o.errs, o.maxRetained, o.bound, o.reinspected)
		if o.finding != nil {
			seenKey.Store(o.finding.key, true) // keep the witness as it is
			report(w.histSpec, t, o.finding, w.Heap)
		}
	}
	run.Finish(1, "replay")
}

func baseline() {
	runtime.GC()
	runtime.GC()
	var ms runtime.MemStats
	runtime.ReadMemStats(&ms)
	heapBase = int64(ms.HeapAlloc)
}

func main() {
	run = vlib.Start("C08", "exploration")
	debug.SetGCPercent(200)
	corpus = loadCorpus()
	ts := targets()
	if run.Replay != "" {
		replay(ts)
		return
	}
	if pf := os.Getenv("C08_PROF"); pf != "" {
		f, _ := os.Create(pf)
		_ = pprof.StartCPUProfile(f)
		defer pprof.StopCPUProfile()
	}
	t0 := time.Now()
	thorough := !run.Quick()
	specs := plan(ts, thorough)
	// longest first (better packing)
	order := make([]int, len(specs))
	for i := range order {
		order[i] = i
	}
	sort.SliceStable(order, func(a, b int) bool {
		return specs[order[a]].N*max(specs[order[a]].Size, 64) > specs[order[b]].N*max(specs[order[b]].Size, 64)
	})
	var mu sync.Mutex
	all := &stats{c: map[string]int64{}, mx: map[string]int64{}}
	run.Parallel(len(order), func(_, i int) {
		spec := specs[order[i]]
		t, _ := targetOf(ts, spec.Format, spec.Params.Label)
		s := &stats{c: map[string]int64{}, mx: map[string]int64{}}
		doHistory(s, spec, t, false)
		mu.Lock()
		for k, v := range s.c {
			all.c[k] += v
		}
		for k, v := range s.mx {
			all.mx[k] = max(all.mx[k], v)
		}
		mu.Unlock()
	}, func(i int, v any, stack string) {
		fmt.Printf("HARNESS-PANIC history %d: %v\n%s\n", i, v, stack)
		os.Exit(vlib.ExitHarness)
	})

	fmt.Fprintf(os.Stderr, "parallel phase done after %.1fs\n", time.Since(t0).Seconds())
	// sequential phase: coarse heap monitor on the long accumulation histories (one job at a time, so
	// that nothing else allocates)
	hs := &stats{c: map[string]int64{}, mx: map[string]int64{}}
	n := 0
	for _, t := range ts {
		for _, sh := range accumulationShapes {
			if sh == shFillThenFrag && t.lim.unitCap == 0 {
				continue
			}
			if !thorough && sh != shStartMiddles && sh != shUnitsNoMarker {
				continue
			}
			for _, sz := range []int{1400, 60000} {
				if sz == 1400 && !thorough {
					continue
				}
				n++
				spec := histSpec{Format: t.name, Params: t.p, Shape: sh, Seed: uint64(run.Seed)*7919 + uint64(n), Size: sz, N: accLen(t, sz, thorough)}
				baseline()
				doHistory(hs, spec, t, true)
				hs.c["heap-monitored-histories/"+t.name]++
			}
		}
	}
	for k, v := range hs.c {
		all.c[k] += v
	}
	for k, v := range hs.mx {
		all.mx[k] = max(all.mx[k], v)
	}
	all.flush()
	fmt.Fprintf(os.Stderr, "sequential phase done after %.1fs\n", time.Since(t0).Seconds())

	labels := []string{}
	bounds := map[string]string{}
	for _, t := range ts {
		labels = append(labels, t.label())
		b := fmt.Sprintf("%d (%s) + largest packet", t.lim.maxFrame, t.lim.source)
		if t.lim.maxFrame == 0 && !t.lim.stateless {
			b = fmt.Sprintf("none documented; growth beyond 4 x (%d + largest packet) is reported as unbounded", nominalCap)
		}
		bounds[t.name] = b
	}
	pprof.StopCPUProfile()
	run.Extra("decoders", labels)
	run.Extra("retained_bound", bounds)
	run.Extra("corpus_files", len(corpus))
	run.Assume("retained bytes = sum of len() of the distinct byte slices reachable from the decoder value (capacity beyond len and slice headers beyond len are not counted; the coarse heap monitor covers those)")
	run.Assume("packets carry at most 65535 payload bytes; the harness never modifies a payload after passing it to Decode")
	run.Finish(evals.Load(),
		"one evaluation = one packet history fed to a fresh decoder under the five monitors. Histories: PRNG bytes; grammar-aware packets per format "+
			"(start/middle/end fragments, single, aggregation, zero-length, maximum aggregation headers, unusual flag combinations) with consecutive / jumping / "+
			"constant sequence numbers, equal / changing timestamps, natural / random / no markers; the named shapes (endless starts, endless middles, start + "+
			"unended middles, complete units never marked, filled frame buffer + unended fragments); mutated valid streams from the real encoders; the repository's "+
			"fuzz corpora as they are and mutated. distinct_nontrivial = distinct histories in which the decoder returned a frame or retained payload bytes")
}
