package main

import (
	"encoding/binary"
	"math/rand"

	"verif/lib/codecs"
)

// role of a grammar-aware packet inside a (possibly never completed) unit.
type role int

const (
	rStart  role = iota // first fragment of a unit
	rMiddle             // middle fragment
	rEnd                // last fragment
	rSingle             // a complete unit in one packet
	rAgg                // several complete units in one packet
	rZero               // aggregation containing a zero-length unit / zero-length fields
	rMaxAgg             // maximum-size aggregation headers: as many / as large unit headers as possible
	rWeird              // unusual header-field combinations
	nRoles
)

// gstate is the generator-side state of a history.
type gstate struct {
	p   codecs.Params
	off int // running fragment offset (M-JPEG, MPEG-1 audio)
	// zeroMiddles: continuation fragments declare a zero size in their own headers (formats whose
	// fragments carry a size field) while still carrying payload bytes
	zeroMiddles bool
}

// grammar builds the payload of a packet with the given role and about n body bytes from the
// format's header fields. marker is the format's own end-of-unit marker (formats that end a unit
// with the RTP marker); shapes may override it.
type grammar func(r *rand.Rand, ro role, n int, g *gstate) (payload []byte, marker bool)

// fresh allocates a payload with hdr header bytes (zero) followed by n body bytes. Every packet
// gets its own backing array: returned frames alias packet payloads, and the memory walker
// de-duplicates by address. Bodies up to 256 bytes are PRNG bytes; longer ones have PRNG bytes at
// both ends and a per-packet tag every 128 bytes in between (enough for the stability monitor to
// see foreign bytes anywhere, at a fraction of the memory traffic).
func fresh(r *rand.Rand, hdr, n int) []byte {
	b := make([]byte, hdr+max(n, 0))
	body := b[hdr:]
	if len(body) <= 256 {
		codecs.Fill(r, body)
		return b
	}
	codecs.Fill(r, body[:128])
	codecs.Fill(r, body[len(body)-64:])
	tag := r.Uint64() | 1
	for i := 128; i+8 <= len(body)-64; i += 128 {
		binary.LittleEndian.PutUint64(body[i:], tag+uint64(i)<<32)
	}
	return b
}

// freshDense: all PRNG bytes.
func freshDense(r *rand.Rand, n int) []byte {
	b := make([]byte, max(n, 0))
	codecs.Fill(r, b)
	return b
}

func leb128(v int) []byte {
	var out []byte
	for {
		b := byte(v & 0x7f)
		v >>= 7
		if v != 0 {
			out = append(out, b|0x80)
		} else {
			return append(out, b)
		}
	}
}

// splitSizes cuts n into k positive parts.
func splitSizes(r *rand.Rand, n, k int) []int {
	k = max(1, min(k, n))
	out := make([]int, k)
	for i := range out {
		out[i] = 1
	}
	for rest := n - k; rest > 0; {
		d := 1 + r.Intn(rest)
		out[r.Intn(k)] += d
		rest -= d
	}
	return out
}

func gH264(r *rand.Rand, ro role, n int, _ *gstate) ([]byte, bool) {
	typ, nri := byte(1+r.Intn(23)), byte(r.Intn(4))<<5
	switch ro {
	case rStart, rMiddle, rEnd:
		p := fresh(r, 2, n)
		p[0] = nri | 28
		p[1] = typ | [...]byte{0x80, 0, 0x40}[ro]
		return p, false
	case rSingle:
		p := fresh(r, 1, n)
		p[0] = nri | typ
		return p, false
	case rAgg, rZero, rMaxAgg:
		p := []byte{nri | 24}
		sizes := splitSizes(r, max(n, 2), 2+r.Intn(5))
		if ro == rMaxAgg {
			sizes = splitSizes(r, max(n, 2), max(n, 2)) // as many 1-byte NAL units as fit
			if r.Intn(3) == 0 {
				sizes = []int{0xFFFF, 0xFFFF}
			}
		}
		for i, s := range sizes {
			if ro == rZero && (i == len(sizes)/2 || r.Intn(4) == 0) {
				p = append(p, 0, 0)
				if r.Intn(2) == 0 { // zero padding up to the end
					return append(p, make([]byte, r.Intn(8))...), false
				}
				continue
			}
			p = append(p, byte(s>>8), byte(s))
			if s == 0xFFFF {
				s = r.Intn(8)
			}
			u := fresh(r, 1, s-1)
			u[0] = nri | typ
			p = append(p, u...)
		}
		return p, false
	}
	switch r.Intn(6) {
	case 0: // unsupported / reserved packet types
		p := fresh(r, 1, n)
		p[0] = nri | [...]byte{0, 25, 26, 27, 29, 30, 31}[r.Intn(7)]
		return p, false
	case 1: // FU-A with start and end
		p := fresh(r, 2, n)
		p[0], p[1] = nri|28, 0xC0|typ
		return p, false
	case 2: // truncated headers
		return [][]byte{{}, {nri | 28}, {nri | 24}, {nri | 24, 0}, {nri | 24, 0, 5, 1}}[r.Intn(5)], false
	case 3: // Annex-B wrapped NAL units (switches the decoder into its Annex-B mode)
		p := []byte{nri | typ}
		for i := 1 + r.Intn(3); i > 0; i-- {
			p = append(p, 0, 0, 0, 1, nri|typ)
			p = append(p, fresh(r, 0, r.Intn(n+1))...)
		}
		return p, false
	case 4: // start codes inside a fragment
		p := fresh(r, 2, n+8)
		p[0], p[1] = nri|28, typ|[...]byte{0x80, 0, 0x40}[r.Intn(3)]
		copy(p[2+r.Intn(n+1):], []byte{0, 0, 1})
		return p, false
	}
	p := fresh(r, 0, max(n, 1))
	return p, false
}

func gH265(r *rand.Rand, ro role, n int, _ *gstate) ([]byte, bool) {
	typ := byte(r.Intn(48))
	switch ro {
	case rStart, rMiddle, rEnd:
		p := fresh(r, 3, n)
		p[0], p[1] = 49<<1, 1
		p[2] = typ | [...]byte{0x80, 0, 0x40}[ro]
		return p, false
	case rSingle:
		p := fresh(r, 2, n)
		p[0], p[1] = typ<<1, 1
		return p, false
	case rAgg, rZero, rMaxAgg:
		p := []byte{48 << 1, 1}
		sizes := splitSizes(r, max(n, 4), 2+r.Intn(5))
		if ro == rMaxAgg {
			sizes = splitSizes(r, max(n, 4), max(n, 4)/2)
			if r.Intn(3) == 0 {
				sizes = []int{0xFFFF}
			}
		}
		for i, s := range sizes {
			if ro == rZero && (i == len(sizes)/2 || r.Intn(4) == 0) {
				p = append(p, 0, 0)
				continue
			}
			p = append(p, byte(s>>8), byte(s))
			if s == 0xFFFF {
				s = r.Intn(8)
			}
			u := fresh(r, 0, s)
			if len(u) > 1 {
				u[0], u[1] = typ<<1, 1
			}
			p = append(p, u...)
		}
		return p, false
	}
	switch r.Intn(4) {
	case 0: // PACI and reserved types
		p := fresh(r, 2, n)
		p[0], p[1] = byte(50+r.Intn(14))<<1, 1
		return p, false
	case 1: // FU with start and end
		p := fresh(r, 3, n)
		p[0], p[1], p[2] = 49<<1, 1, 0xC0|typ
		return p, false
	case 2:
		return [][]byte{{}, {49 << 1}, {49 << 1, 1}, {48 << 1, 1}, {48 << 1, 1, 0}, {48 << 1, 1, 0, 9, 1}}[r.Intn(6)], false
	}
	return fresh(r, 0, max(n, 1)), false
}

func gAV1(r *rand.Rand, ro role, n int, _ *gstate) ([]byte, bool) {
	obuHdr := [...]byte{1, 3, 4, 5, 6, 7, 8, 15}[r.Intn(8)] << 3
	switch ro {
	case rStart, rMiddle, rEnd, rSingle:
		flags := [...]byte{0x40, 0xC0, 0x80, 0}[ro]
		if r.Intn(2) == 0 { // W = 1: no length field
			p := fresh(r, 1, max(n, 1))
			p[0] = flags | 0x10
			if ro == rStart || ro == rSingle {
				p[1] = obuHdr
			}
			return p, false
		}
		l := leb128(max(n, 1)) // W = 0: every element has a length field
		p := fresh(r, 1+len(l), max(n, 1))
		p[0] = flags
		copy(p[1:], l)
		return p, false
	case rAgg, rZero, rMaxAgg:
		sizes := splitSizes(r, max(n, 2), 2+r.Intn(4))
		if ro == rMaxAgg {
			sizes = splitSizes(r, max(n, 2), max(n, 2)/2) // many 1..2-byte OBUs
		}
		w := 0
		if len(sizes) <= 3 && r.Intn(2) == 0 {
			w = len(sizes)
		}
		p := []byte{byte(w)<<4 | byte(r.Intn(4))<<6&0xC0}
		if r.Intn(3) != 0 {
			p[0] &^= 0xC0
		}
		for i, s := range sizes {
			if ro == rZero && (i == len(sizes)/2 || r.Intn(4) == 0) {
				p = append(p, 0)
				continue
			}
			if w == 0 || i < w-1 {
				if ro == rMaxAgg && r.Intn(8) == 0 {
					p = append(p, 0xff, 0xff, 0xff, 0xff, 0x7f) // huge length
				} else {
					p = append(p, leb128(s)...)
				}
			}
			u := fresh(r, 0, s)
			u[0] = obuHdr
			p = append(p, u...)
		}
		return p, false
	}
	switch r.Intn(4) {
	case 0: // over-long / unterminated LEB128
		return append([]byte{byte(r.Intn(256)) &^ 0x30}, 0x80, 0x80, 0x80, 0x80, 0x80, 0x80, 0x80, 0x80, 0x80, 0x01, 1), false
	case 1: // W says more elements than present
		p := fresh(r, 1, max(n, 1))
		p[0] = byte(2+r.Intn(2))<<4 | byte(r.Intn(4))<<6
		return p, false
	case 2:
		return [][]byte{{}, {0x10}, {0x50}, {0x90}, {0xD0}, {0, 0}, {0x80, 1}}[r.Intn(7)], false
	}
	return fresh(r, 0, max(n, 1)), false
}

func gVP8(r *rand.Rand, ro role, n int, _ *gstate) ([]byte, bool) {
	first := byte(0)
	if ro == rStart || ro == rSingle || ro == rAgg {
		first = 0x10 // S = 1, PID = 0
	}
	marker := ro == rEnd || ro == rSingle || ro == rAgg
	if ro == rWeird || ro == rZero || ro == rMaxAgg {
		switch r.Intn(5) {
		case 0: // S = 1 with a non-zero partition index
			first = 0x10 | byte(1+r.Intn(15))
		case 1: // empty payload after the descriptor
			return []byte{byte(r.Intn(2)) << 4}, r.Intn(2) == 0
		case 2: // extension flags promising more bytes than present
			return []byte{0x80 | byte(r.Intn(2))<<4, 0xF0, 0x80}, false
		case 3:
			return fresh(r, 0, n), r.Intn(2) == 0
		default:
			first = byte(r.Intn(2))<<4 | 0x20
		}
		marker = r.Intn(4) == 0
	}
	if r.Intn(3) == 0 { // extended descriptor: I (7 or 15 bit picture id), L, T/K
		ext := []byte{first | 0x80, 0}
		if r.Intn(2) == 0 {
			ext[1] |= 0x80
			if r.Intn(2) == 0 {
				ext = append(ext, 0x80|byte(r.Intn(128)), byte(r.Intn(256)))
			} else {
				ext = append(ext, byte(r.Intn(128)))
			}
		}
		if r.Intn(2) == 0 {
			ext[1] |= 0x40
			ext = append(ext, byte(r.Intn(256)))
		}
		if r.Intn(2) == 0 {
			ext[1] |= 0x20 | byte(r.Intn(2))<<4
			ext = append(ext, byte(r.Intn(256)))
		}
		p := fresh(r, len(ext), n)
		copy(p, ext)
		return p, marker
	}
	p := fresh(r, 1, n)
	p[0] = first
	return p, marker
}

func gVP9(r *rand.Rand, ro role, n int, _ *gstate) ([]byte, bool) {
	var flags byte
	switch ro {
	case rStart:
		flags = 0x08
	case rEnd:
		flags = 0x04
	case rSingle, rAgg:
		flags = 0x0C
	case rWeird, rZero, rMaxAgg:
		switch r.Intn(4) {
		case 0: // any flag byte (incl. V: scalability structure, F: flexible mode) over PRNG bytes
			p := fresh(r, 1, n)
			p[0] = byte(r.Intn(256))
			return p, r.Intn(2) == 0
		case 1: // descriptor only
			return [][]byte{{}, {0x08}, {0x0C}, {0x8C, 0x80}, {0x2C, 0}, {0x0A, 0xFF}}[r.Intn(6)], false
		case 2: // scalability structure claiming the maximum of everything
			p := fresh(r, 2, n)
			p[0], p[1] = 0x0A|byte(r.Intn(2))<<2, 0xF8|byte(r.Intn(8))
			return p, false
		}
		flags = byte(r.Intn(4)) << 2
	}
	marker := flags&0x04 != 0
	switch r.Intn(4) {
	case 0: // I: 7-bit picture id
		p := fresh(r, 2, n)
		p[0], p[1] = flags|0x80, byte(r.Intn(128))
		return p, marker
	case 1: // I: 15-bit picture id, L: layer indices + TL0PICIDX
		p := fresh(r, 5, n)
		// layer byte: TID(3) U(1) SID(3) D(1) with a spatial layer index the parser accepts
		p[0], p[1], p[2], p[3], p[4] = flags|0xA0, 0x80|byte(r.Intn(128)), byte(r.Intn(256)), byte(r.Intn(8))<<5|byte(r.Intn(2))<<4|byte(r.Intn(3))<<1, byte(r.Intn(256))
		return p, marker
	}
	p := fresh(r, 1, n)
	p[0] = flags
	return p, marker
}

func gFragmented(r *rand.Rand, ro role, n int, _ *gstate) ([]byte, bool) {
	if ro == rZero || (ro == rWeird && r.Intn(2) == 0) {
		return []byte{}, r.Intn(2) == 0
	}
	return fresh(r, 0, max(n, 1)), ro == rEnd || ro == rSingle || ro == rAgg
}

func gMPEG1Video(r *rand.Rand, ro role, n int, _ *gstate) ([]byte, bool) {
	p := fresh(r, 4, n)
	p[0], p[1] = byte(r.Intn(4)), byte(r.Intn(256)) // temporal reference
	p[3] = byte(r.Intn(256))
	switch ro {
	case rStart:
		p[2] = 0x10
	case rMiddle:
		p[2] = 0
	case rEnd:
		p[2] = 0x08
	case rSingle, rAgg, rMaxAgg:
		p[2] = 0x18
		if len(p) >= 8 { // a slice start code
			copy(p[4:], []byte{0, 0, 1, byte(1 + r.Intn(0xAF))})
		}
		if ro == rMaxAgg { // many start codes in one packet
			for i := 4; i+4 <= len(p); i += 4 {
				copy(p[i:], []byte{0, 0, 1, byte(r.Intn(256))})
			}
		}
	case rZero:
		return []byte{0, 0, byte(r.Intn(4)) << 3, 0}, r.Intn(2) == 0 // header only
	default:
		switch r.Intn(5) {
		case 0:
			p[0] |= byte(1+r.Intn(31)) << 3 // MBZ
		case 1:
			p[0] |= 0x04 // T: MPEG-2 extension present
		case 2:
			p[2] = 0x80 | byte(r.Intn(128)) // AN
		case 3:
			p[2] = 0x40 | byte(r.Intn(64)) // N
		default:
			return p[:r.Intn(4)], false
		}
	}
	p[2] |= byte(r.Intn(2))<<5 | byte(r.Intn(8)) // S, picture type
	return p, false
}

func gMJPEG(r *rand.Rand, ro role, n int, g *gstate) ([]byte, bool) {
	hdr := func(p []byte, off int, typ, q byte) {
		p[0] = byte(r.Intn(4))
		p[1], p[2], p[3] = byte(off>>16), byte(off>>8), byte(off)
		p[4], p[5] = typ, q
		p[6], p[7] = byte(1+r.Intn(255)), byte(1+r.Intn(255))
	}
	switch ro {
	case rStart, rSingle, rAgg, rMaxAgg:
		q := byte(1 + r.Intn(99))
		tab := 0
		if r.Intn(2) == 0 || ro == rMaxAgg {
			q = 128 + byte(r.Intn(128))
			tab = 4 + 64*(1+r.Intn(2))
			if ro == rMaxAgg {
				tab = 4 + 128
			}
		}
		p := fresh(r, 8+tab, n)
		hdr(p, 0, byte(r.Intn(2)), q)
		if tab > 0 {
			codecs.Fill(r, p[8:8+tab])
			p[8], p[9], p[10], p[11] = 0, 0, byte((tab-4)>>8), byte(tab-4)
		}
		g.off = n
		return p, ro != rStart
	case rMiddle, rEnd:
		p := fresh(r, 8, n)
		hdr(p, g.off, byte(r.Intn(2)), byte(1+r.Intn(99)))
		g.off += n
		return p, ro == rEnd
	case rZero: // no data after the headers
		p := fresh(r, 8, 0)
		hdr(p, g.off*r.Intn(2), 0, byte(1+r.Intn(99)))
		return p, r.Intn(2) == 0
	}
	p := fresh(r, 8, n)
	switch r.Intn(6) {
	case 0: // restart-marker types and beyond
		hdr(p, 0, byte(64+r.Intn(192)), byte(1+r.Intn(99)))
	case 1: // invalid quantisation values
		hdr(p, 0, 0, [...]byte{0, 100, 110, 126}[r.Intn(4)])
	case 2: // Q = 127 (computed tables with a negative scale factor), Q >= 128 with a bad table header
		hdr(p, 0, 0, [...]byte{127, 128, 200, 255}[r.Intn(4)])
		if len(p) > 12 && r.Intn(2) == 0 {
			p[9] = byte(r.Intn(2))
			p[10], p[11] = byte(r.Intn(2)), byte(r.Intn(256))
		}
	case 3: // far fragment offsets
		hdr(p, []int{1, 0xFFFFFF, 0x800000, g.off + 1, max(g.off-1, 0)}[r.Intn(5)], 0, 50)
	case 4:
		return p[:r.Intn(8)], r.Intn(2) == 0
	default: // a 1-byte image
		p = fresh(r, 8, 1)
		hdr(p, 0, 0, 50)
		return p, true
	}
	return p, r.Intn(2) == 0
}

// bitWriter packs AU headers.
type bitWriter struct {
	b   []byte
	pos int
}

func (w *bitWriter) put(v uint64, n int) {
	for i := n - 1; i >= 0; i-- {
		if w.pos/8 < len(w.b) && v>>uint(i)&1 == 1 {
			w.b[w.pos/8] |= 0x80 >> uint(w.pos%8)
		}
		w.pos++
	}
}

func gMPEG4Audio(r *rand.Rand, ro role, n int, g *gstate) ([]byte, bool) {
	sl, il, dl := g.p.SizeLength, g.p.IndexLength, g.p.IndexDeltaLength
	maxAU := 1<<uint(min(sl, 20)) - 1
	build := func(sizes []int, idx uint64, lie int) []byte {
		bits, total := 0, 0
		for i, s := range sizes {
			bits += sl
			if i == 0 {
				bits += il
			} else {
				bits += dl
			}
			total += s
		}
		hb := (bits + 7) / 8
		p := fresh(r, 2+hb, total)
		if lie != 0 {
			bits = lie
		}
		p[0], p[1] = byte(bits>>8), byte(bits)
		w := bitWriter{b: p[2 : 2+hb]}
		for i, s := range sizes {
			w.put(uint64(s), sl)
			if i == 0 {
				w.put(idx, il)
			} else {
				w.put(idx, dl)
			}
		}
		return p
	}
	one := max(1, min(n, maxAU))
	switch ro {
	case rStart, rMiddle:
		if ro == rMiddle && g.zeroMiddles {
			// a continuation fragment whose AU-header declares size 0, followed by payload bytes
			return append(build([]int{0}, 0, 0), freshDense(r, one)...), false
		}
		return build([]int{one}, 0, 0), false
	case rEnd, rSingle:
		return build([]int{one}, 0, 0), true
	case rAgg:
		sizes := splitSizes(r, max(n, 2), 2+r.Intn(6))
		for i := range sizes {
			sizes[i] = min(sizes[i], maxAU)
		}
		return build(sizes, 0, 0), true
	case rZero:
		sizes := splitSizes(r, max(n, 3), 3)
		sizes[r.Intn(3)] = 0
		return build(sizes, 0, 0), r.Intn(2) == 0
	case rMaxAgg:
		if r.Intn(2) == 0 { // as many 1-byte AUs as fit
			k := max(n, 2)
			sizes := make([]int, k)
			for i := range sizes {
				sizes[i] = 1
			}
			return build(sizes, 0, 0), true
		}
		// AU-headers-length claims the maximum
		return build([]int{one}, 0, 0xFFFF-r.Intn(16)), r.Intn(2) == 0
	}
	switch r.Intn(5) {
	case 0: // non-zero AU-index / AU-index-delta
		return build([]int{one, one}, 1, 0), true
	case 1: // AU larger than the payload
		p := build([]int{one}, 0, 0)
		return p[:len(p)-r.Intn(one+1)], r.Intn(2) == 0
	case 2: // an ADTS-wrapped AU (switches the decoder into its ADTS mode when it is the first one)
		body := max(1, min(n, maxAU-7))
		p := build([]int{7 + body}, 0, 0)
		fl := 7 + body
		a := p[len(p)-fl:]
		a[0], a[1], a[2] = 0xFF, 0xF1, 0x50
		a[3] = 0x80 | byte(fl>>11)&3
		a[4] = byte(fl >> 3)
		a[5] = byte(fl&7)<<5 | 0x1F
		a[6] = 0xFC
		return p, true
	case 3:
		return [][]byte{{}, {0}, {0, 0}, {0, 16}, {0, 16, 0}, {0xFF, 0xFF}}[r.Intn(6)], r.Intn(2) == 0
	}
	return fresh(r, 0, max(n, 1)), r.Intn(2) == 0
}

// MPEG audio frame headers: the longest frame a header can announce (MPEG-1 layer II, 384 kbit/s,
// 32 kHz, padding: 1729 bytes) and the shortest (MPEG-2 layer III, 8 kbit/s, 24 kHz: 48 bytes).
var (
	mpaLong  = []byte{0xFF, 0xFD, 0xEA, 0x00}
	mpaShort = []byte{0xFF, 0xF3, 0x14, 0x00}
)

func gMPEG1Audio(r *rand.Rand, ro role, n int, g *gstate) ([]byte, bool) {
	switch ro {
	case rStart:
		n = max(5, min(n, 1728))
		p := fresh(r, 4, n)
		copy(p[4:], mpaLong)
		g.off = n
		return p, false
	case rMiddle, rEnd:
		p := fresh(r, 4, max(n, 1))
		p[2], p[3] = byte(g.off>>8), byte(g.off)
		g.off += max(n, 1)
		return p, ro == rEnd
	case rSingle, rAgg, rMaxAgg:
		k := 1
		if ro == rAgg {
			k = 2 + r.Intn(5)
		} else if ro == rMaxAgg {
			k = max(2, n/48)
		}
		p := fresh(r, 4, 48*k)
		for i := 0; i < k; i++ {
			copy(p[4+48*i:], mpaShort)
		}
		return p, true
	case rZero:
		return []byte{0, 0, 0, 0}, true
	}
	p := fresh(r, 4, max(n, 5))
	switch r.Intn(5) {
	case 0: // MBZ not zero
		p[0], p[1] = byte(r.Intn(256)), byte(1+r.Intn(255))
	case 1: // any offset over PRNG bytes
		p[2], p[3] = byte(r.Intn(256)), byte(r.Intn(256))
	case 2: // complete frame followed by the start of a longer one
		p = fresh(r, 4, 48+20)
		copy(p[4:], mpaShort)
		copy(p[52:], mpaLong)
	case 3: // offset 0, valid sync, invalid bitrate / sample rate / layer
		copy(p[4:], []byte{0xFF, [...]byte{0xFF, 0xF9, 0xE3}[r.Intn(3)], [...]byte{0x00, 0xF0, 0x1C}[r.Intn(3)], 0})
	default:
		return p[:r.Intn(6)], true
	}
	return p, r.Intn(2) == 0
}

func gAC3(r *rand.Rand, ro role, n int, _ *gstate) ([]byte, bool) {
	long := []byte{0x0B, 0x77, 0, 0, 2<<6 | 37} // 3840 bytes
	short := []byte{0x0B, 0x77, 0, 0, 0}        // 128 bytes
	switch ro {
	case rStart:
		n = max(5, n)
		p := fresh(r, 2, n)
		p[0], p[1] = byte(1+r.Intn(2)), 1
		copy(p[2:], long)
		return p, false
	case rMiddle, rEnd:
		p := fresh(r, 2, max(n, 1))
		p[0], p[1] = 3, 1
		return p, ro == rEnd
	case rSingle, rAgg, rMaxAgg:
		k := 1
		if ro == rAgg {
			k = 2 + r.Intn(5)
		} else if ro == rMaxAgg {
			k = max(2, n/128)
		}
		p := fresh(r, 2, 128*k)
		p[0], p[1] = 0, byte(k)
		for i := 0; i < k; i++ {
			copy(p[2+128*i:], short)
		}
		return p, true
	case rZero:
		return []byte{byte(r.Intn(4)), 0}, true
	}
	p := fresh(r, 2, max(n, 5))
	switch r.Intn(5) {
	case 0:
		p[0] = byte(1+r.Intn(63)) << 2 // MBZ
	case 1: // frame type 0 with a frame longer than the packet
		p[0] = 0
		copy(p[2:], long)
	case 2: // invalid fscod / frmsizecod
		p[0] = byte(r.Intn(3))
		copy(p[2:], []byte{0x0B, 0x77, 0, 0, [...]byte{0xC0, 38, 63, 0xFF}[r.Intn(4)]})
	case 3: // initial fragment that is already longer than the announced frame
		p = fresh(r, 2, 200)
		p[0] = 1
		copy(p[2:], short)
	default:
		return p[:r.Intn(7)], true
	}
	return p, r.Intn(2) == 0
}

func gKLV(r *rand.Rand, ro role, n int, _ *gstate) ([]byte, bool) {
	label := func(p []byte) { copy(p, []byte{0x06, 0x0e, 0x2b, 0x34}) }
	switch ro {
	case rStart: // announces a value far longer than the packet
		p := fresh(r, 0, max(n, 21))
		label(p)
		switch r.Intn(3) {
		case 0:
			p[16], p[17], p[18], p[19], p[20] = 0x84, 0x7F, 0xFF, 0xFF, 0xFF
		case 1:
			p[16], p[17], p[18] = 0x82, 0xFF, 0xFF
		default: // 8-byte length
			if len(p) < 25 {
				p = append(p, make([]byte, 25-len(p))...)
			}
			copy(p[16:], []byte{0x88, 0x7F, 0xFF, 0xFF, 0xFF, 0xFF, 0xFF, 0xFF, 0xFF})
		}
		return p, false
	case rMiddle:
		return fresh(r, 0, max(n, 1)), false
	case rEnd:
		return fresh(r, 0, max(n, 1)), true
	case rSingle, rAgg, rMaxAgg:
		k := 1
		if ro != rSingle {
			k = 2 + r.Intn(4)
		}
		var p []byte
		for i := 0; i < k; i++ {
			v := min(max(n/k, 0), 127)
			u := fresh(r, 0, 17+v)
			label(u)
			u[16] = byte(v)
			p = append(p, u...)
		}
		return p, r.Intn(4) != 0 // (a unit whose length is reached is returned without the marker, too)
	case rZero: // zero-length value
		p := fresh(r, 0, 17)
		label(p)
		p[16] = 0
		return p, r.Intn(2) == 0
	}
	switch r.Intn(5) {
	case 0: // start shorter than key + length
		p := fresh(r, 0, 4+r.Intn(13))
		label(p)
		return p, r.Intn(2) == 0
	case 1: // invalid BER length-of-length
		p := fresh(r, 0, 30)
		label(p)
		p[16] = [...]byte{0x80, 0x89, 0xFF}[r.Intn(3)]
		return p, r.Intn(2) == 0
	case 2: // long form whose length bytes are cut off
		p := fresh(r, 0, 18)
		label(p)
		p[16] = 0x84
		return p, r.Intn(2) == 0
	case 3:
		return []byte{}, r.Intn(2) == 0
	}
	return fresh(r, 0, max(n, 1)), r.Intn(2) == 0
}

func gRaw(r *rand.Rand, ro role, n int, _ *gstate) ([]byte, bool) {
	if ro == rZero {
		return []byte{}, r.Intn(2) == 0
	}
	return fresh(r, 0, max(n, 1)), r.Intn(2) == 0
}

func gMPEGTS(r *rand.Rand, ro role, n int, _ *gstate) ([]byte, bool) {
	k := max(1, n/188)
	if ro == rMaxAgg {
		k = 348 // 65424 bytes
	}
	p := fresh(r, 0, 188*k)
	for i := 0; i < k; i++ {
		p[188*i] = 0x47
	}
	switch ro {
	case rZero:
		return []byte{}, false
	case rWeird:
		switch r.Intn(3) {
		case 0:
			p[188*r.Intn(k)] = byte(r.Intn(256)) // a missing sync byte
		case 1:
			p = p[:len(p)-1-r.Intn(187)] // not a multiple of 188
		default:
			p = append(p, 0x47)
		}
	}
	return p, r.Intn(2) == 0
}

var grammars = map[string]grammar{
	"rtph264": gH264, "rtph265": gH265, "rtpav1": gAV1, "rtpvp8": gVP8, "rtpvp9": gVP9, "rtpfragmented": gFragmented,
	"rtpmpeg1video": gMPEG1Video, "rtpmjpeg": gMJPEG, "rtpmpeg4audio": gMPEG4Audio, "rtpmpeg1audio": gMPEG1Audio,
	"rtpac3": gAC3, "rtpklv": gKLV, "rtplpcm": gRaw, "rtpsimpleaudio": gRaw, "rtpmpegts": gMPEGTS,
}
