package main

import (
	"reflect"
	"unsafe"
)

// retainedBytes sums len() (capacity for empty slices) of every byte slice reachable from v (normally a pointer to a decoder
// struct): through pointers, struct fields (exported or not), slices, arrays, maps and interfaces.
// Deterministic, no GC involved. Byte slices are de-duplicated by the address of their first
// element (two slices starting at the same address count once, with the larger length); pointers
// are followed once. Strings are not counted (decoders keep none).
func retainedBytes(v any) int64 {
	w := walker{ptrs: map[unsafe.Pointer]struct{}{}, bytes: map[unsafe.Pointer]int{}}
	w.walk(reflect.ValueOf(v), 0)
	return w.total
}

type walker struct {
	ptrs  map[unsafe.Pointer]struct{}
	bytes map[unsafe.Pointer]int
	total int64
}

func (w *walker) walk(v reflect.Value, depth int) {
	if !v.IsValid() || depth > 64 {
		return
	}
	switch v.Kind() {
	case reflect.Ptr:
		if v.IsNil() {
			return
		}
		p := v.UnsafePointer()
		if _, seen := w.ptrs[p]; seen {
			return
		}
		w.ptrs[p] = struct{}{}
		w.walk(v.Elem(), depth+1)
	case reflect.Interface:
		if !v.IsNil() {
			w.walk(v.Elem(), depth+1)
		}
	case reflect.Struct:
		for i := 0; i < v.NumField(); i++ {
			w.walk(v.Field(i), depth+1)
		}
	case reflect.Slice:
		if v.IsNil() {
			return
		}
		if v.Type().Elem().Kind() == reflect.Uint8 {
			p := v.UnsafePointer()
			n := v.Len()
			if n == 0 {
				// an empty slice still pins the rest of its backing array (e.g. payload[:0] kept in
				// a fragment list): what it keeps alive is its capacity
				n = v.Cap()
			}
			if n == 0 {
				return
			}
			if old, seen := w.bytes[p]; seen {
				if n > old {
					w.total += int64(n - old)
					w.bytes[p] = n
				}
				return
			}
			w.bytes[p] = n
			w.total += int64(n)
			return
		}
		if v.Len() == 0 || !hasIndirection(v.Type().Elem()) {
			return
		}
		for i := 0; i < v.Len(); i++ {
			w.walk(v.Index(i), depth+1)
		}
	case reflect.Array:
		if !hasIndirection(v.Type().Elem()) {
			return
		}
		for i := 0; i < v.Len(); i++ {
			w.walk(v.Index(i), depth+1)
		}
	case reflect.Map:
		if v.IsNil() {
			return
		}
		it := v.MapRange()
		for it.Next() {
			w.walk(it.Key(), depth+1)
			w.walk(it.Value(), depth+1)
		}
	}
}

// hasIndirection reports whether values of type t can reference other memory.
func hasIndirection(t reflect.Type) bool {
	switch t.Kind() {
	case reflect.Ptr, reflect.Interface, reflect.Slice, reflect.Map:
		return true
	case reflect.Array:
		return hasIndirection(t.Elem())
	case reflect.Struct:
		for i := 0; i < t.NumField(); i++ {
			if hasIndirection(t.Field(i).Type) {
				return true
			}
		}
	}
	return false
}
