package main

import (
	"encoding/binary"
	"os"
	"path/filepath"
	"strconv"
	"strings"

	"github.com/pion/rtp"
)

// loadCorpus reads the repository's decoder fuzz corpora (go fuzz corpus files holding one []byte:
// a list of length-prefixed marshalled RTP packets, see unserializePackets in the decoder tests).
// Keys are "<package>/<file>".
func loadCorpus() map[string][]*rtp.Packet {
	root := os.Getenv("VERIF_REPO")
	if root == "" {
		root = "/repo"
	}
	out := map[string][]*rtp.Packet{}
	files, _ := filepath.Glob(filepath.Join(root, "pkg/format/rtp*/testdata/fuzz/*/*"))
	for _, fn := range files {
		b, err := os.ReadFile(fn)
		if err != nil {
			continue
		}
		rel, _ := filepath.Rel(filepath.Join(root, "pkg/format"), fn)
		pkg := strings.Split(rel, string(filepath.Separator))[0]
		for _, ln := range strings.Split(string(b), "\n") {
			ln = strings.TrimSpace(ln)
			if !strings.HasPrefix(ln, "[]byte(") || !strings.HasSuffix(ln, ")") {
				continue
			}
			s, err := strconv.Unquote(ln[len("[]byte(") : len(ln)-1])
			if err != nil {
				continue
			}
			if pkts := unserialize([]byte(s)); len(pkts) > 0 {
				out[pkg+"/"+filepath.Base(fn)] = pkts
			}
		}
	}
	return out
}

func unserialize(buf []byte) []*rtp.Packet {
	var out []*rtp.Packet
	for len(buf) >= 4 {
		size := binary.LittleEndian.Uint32(buf[:4])
		buf = buf[4:]
		if uint32(len(buf)) < size {
			break
		}
		var p rtp.Packet
		if p.Unmarshal(append([]byte(nil), buf[:size]...)) == nil {
			out = append(out, &p)
		}
		buf = buf[size:]
	}
	return out
}
