package main

import (
	"fmt"

	"github.com/bluenviron/gortsplib/v5/pkg/format/rtpac3"
	"github.com/bluenviron/gortsplib/v5/pkg/format/rtpav1"
	"github.com/bluenviron/gortsplib/v5/pkg/format/rtpfragmented"
	"github.com/bluenviron/gortsplib/v5/pkg/format/rtph264"
	"github.com/bluenviron/gortsplib/v5/pkg/format/rtph265"
	"github.com/bluenviron/gortsplib/v5/pkg/format/rtpklv"
	"github.com/bluenviron/gortsplib/v5/pkg/format/rtplpcm"
	"github.com/bluenviron/gortsplib/v5/pkg/format/rtpmjpeg"
	"github.com/bluenviron/gortsplib/v5/pkg/format/rtpmpeg1audio"
	"github.com/bluenviron/gortsplib/v5/pkg/format/rtpmpeg1video"
	"github.com/bluenviron/gortsplib/v5/pkg/format/rtpmpeg4audio"
	"github.com/bluenviron/gortsplib/v5/pkg/format/rtpmpegts"
	"github.com/bluenviron/gortsplib/v5/pkg/format/rtpsimpleaudio"
	"github.com/bluenviron/gortsplib/v5/pkg/format/rtpvp8"
	"github.com/bluenviron/gortsplib/v5/pkg/format/rtpvp9"
	"github.com/bluenviron/mediacommon/v2/pkg/codecs/av1"
	"github.com/bluenviron/mediacommon/v2/pkg/codecs/h264"
	"github.com/bluenviron/mediacommon/v2/pkg/codecs/h265"
	"github.com/bluenviron/mediacommon/v2/pkg/codecs/mpeg4audio"
	"github.com/bluenviron/mediacommon/v2/pkg/codecs/mpeg4video"
	"github.com/bluenviron/mediacommon/v2/pkg/codecs/vp8"
	"github.com/bluenviron/mediacommon/v2/pkg/codecs/vp9"
	"github.com/pion/rtp"

	"verif/lib/codecs"
)

// limits of one decoder (C08 O (c), (d)).
type limits struct {
	// maxFrame: documented maximum size of a returned frame (for audio-group decoders: of one
	// returned unit). 0 = the package documents none and the wire format describes none.
	maxFrame int
	source   string // where the number comes from
	// perUnit: the maximum applies to every returned unit (audio-group formats), not to their sum
	perUnit bool
	// stateless: the decoder keeps nothing; a returned frame is (part of) the packet just passed in
	stateless bool
	// frameSlack: the wire bound is on the data preceding the last packet (M-JPEG fragment offset):
	// a returned frame may exceed maxFrame by one packet
	frameSlack bool
	// unitCap / hasFrameBuffer: the decoder collects complete units in a second buffer until the
	// marker (used by the "fill the frame buffer, then fragment" shape)
	unitCap int
}

// nominalCap is used for decoders without any documented or wire maximum (none at present; the KLV
// decoder had none before its maxUnitSize was introduced): retained memory above it is reported as
// unbounded growth. It is the largest bound of any other decoder (M-JPEG, 2^24).
const nominalCap = 1 << 24

var limitTable = map[string]limits{
	"rtph264":        {maxFrame: h264.MaxAccessUnitSize, source: "mediacommon h264.MaxAccessUnitSize", unitCap: h264.MaxNALUsPerAccessUnit},
	"rtph265":        {maxFrame: h265.MaxAccessUnitSize, source: "mediacommon h265.MaxAccessUnitSize", unitCap: h265.MaxNALUsPerAccessUnit},
	"rtpav1":         {maxFrame: av1.MaxTemporalUnitSize, source: "mediacommon av1.MaxTemporalUnitSize", unitCap: av1.MaxOBUsPerTemporalUnit},
	"rtpvp8":         {maxFrame: vp8.MaxFrameSize, source: "mediacommon vp8.MaxFrameSize"},
	"rtpvp9":         {maxFrame: vp9.MaxFrameSize, source: "mediacommon vp9.MaxFrameSize"},
	"rtpfragmented":  {maxFrame: mpeg4video.MaxFrameSize, source: "mediacommon mpeg4video.MaxFrameSize"},
	"rtpmpeg1video":  {maxFrame: 1 << 20, source: "rtpmpeg1video maxFrameSize", unitCap: 1 << 30},
	"rtpmpeg4audio":  {maxFrame: mpeg4audio.MaxAccessUnitSize, source: "mediacommon mpeg4audio.MaxAccessUnitSize", perUnit: true},
	"rtpmjpeg":       {maxFrame: 1<<24 + 1024, source: "24-bit fragment offset + JPEG headers written by the decoder", frameSlack: true},
	"rtpmpeg1audio":  {maxFrame: 1729, source: "largest frame length a MPEG-1/2 layer II/III header can encode", perUnit: true},
	"rtpac3":         {maxFrame: 3840, source: "largest frame size an AC-3 syncinfo can encode", perUnit: true},
	"rtpklv":         {maxFrame: 1 << 20, source: "rtpklv maxUnitSize"},
	"rtplpcm":        {stateless: true, source: "the packet itself"},
	"rtpsimpleaudio": {stateless: true, source: "the packet itself"},
	"rtpmpegts":      {stateless: true, source: "the packet itself", perUnit: true},
}

// decoder is a fresh library decoder plus the pointer to its state for the memory walker.
type decoder struct {
	name   string
	decode func(*rtp.Packet) ([][]byte, error)
	state  any
}

func blob(dec func(*rtp.Packet) ([]byte, error)) func(*rtp.Packet) ([][]byte, error) {
	return func(pkt *rtp.Packet) ([][]byte, error) {
		b, err := dec(pkt)
		if err != nil || b == nil {
			return nil, err
		}
		return [][]byte{b}, nil
	}
}

func newDecoder(name string, p codecs.Params) (*decoder, error) {
	d := &decoder{name: name}
	var err error
	switch name {
	case "rtph264":
		x := &rtph264.Decoder{PacketizationMode: 1}
		d.decode, d.state, err = x.Decode, x, x.Init()
	case "rtph265":
		x := &rtph265.Decoder{}
		d.decode, d.state, err = x.Decode, x, x.Init()
	case "rtpav1":
		x := &rtpav1.Decoder{}
		d.decode, d.state, err = x.Decode, x, x.Init()
	case "rtpvp8":
		x := &rtpvp8.Decoder{}
		d.decode, d.state, err = blob(x.Decode), x, x.Init()
	case "rtpvp9":
		x := &rtpvp9.Decoder{}
		d.decode, d.state, err = blob(x.Decode), x, x.Init()
	case "rtpfragmented":
		x := &rtpfragmented.Decoder{}
		d.decode, d.state, err = blob(x.Decode), x, x.Init()
	case "rtpmpeg1video":
		x := &rtpmpeg1video.Decoder{}
		d.decode, d.state, err = blob(x.Decode), x, x.Init()
	case "rtpmjpeg":
		x := &rtpmjpeg.Decoder{}
		d.decode, d.state, err = blob(x.Decode), x, x.Init()
	case "rtpmpeg4audio":
		x := &rtpmpeg4audio.Decoder{SizeLength: p.SizeLength, IndexLength: p.IndexLength, IndexDeltaLength: p.IndexDeltaLength}
		d.decode, d.state, err = x.Decode, x, x.Init()
	case "rtpmpeg1audio":
		x := &rtpmpeg1audio.Decoder{}
		d.decode, d.state, err = x.Decode, x, x.Init()
	case "rtpac3":
		x := &rtpac3.Decoder{}
		d.decode, d.state, err = x.Decode, x, x.Init()
	case "rtpklv":
		x := &rtpklv.Decoder{}
		d.decode, d.state, err = blob(x.Decode), x, x.Init()
	case "rtplpcm":
		x := &rtplpcm.Decoder{BitDepth: p.BitDepth, ChannelCount: p.Channels}
		d.decode, d.state, err = blob(x.Decode), x, x.Init()
	case "rtpsimpleaudio":
		x := &rtpsimpleaudio.Decoder{}
		d.decode, d.state, err = blob(x.Decode), x, x.Init()
	case "rtpmpegts":
		x := &rtpmpegts.Decoder{}
		d.decode, d.state, err = x.Decode, x, x.Init()
	default:
		return nil, fmt.Errorf("unknown decoder %q", name)
	}
	return d, err
}

// target is one (decoder, parameter set) under test.
type target struct {
	name string
	p    codecs.Params
	lim  limits
	f    *codecs.Format
}

func (t target) label() string { return t.name + "[" + t.p.Label + "]" }

// targets: all 15 decoders; the decoders with parameters (MPEG-4 audio) once per parameter set of
// the codec adapter, the others once (the parameter sets of the adapter only select frame grammars).
func targets() []target {
	var out []target
	for _, f := range codecs.All() {
		lim, ok := limitTable[f.Name]
		if !ok {
			panic("harness: no limits for " + f.Name)
		}
		ps := f.Params[:1]
		if f.Name == "rtpmpeg4audio" {
			ps = f.Params
		}
		for _, p := range ps {
			out = append(out, target{f.Name, p, lim, f})
		}
	}
	return out
}
