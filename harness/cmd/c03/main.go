// C03: RTP payload codecs - decoding the encoder's packets returns the original frame.
//
// Monitor: every generated valid frame is passed through the real encoder; the packets are fed,
// in order, to the real decoder of the same format; the oracle (per format family, DESIGN C03 O)
// observes every Decode return value:
//   - whole-frame formats (all video formats, KLV): "more packets needed" and nothing else before
//     the last packet of the frame, the whole frame (same units, same bytes) at it;
//   - audio-group formats (MPEG-4 audio, MPEG-1 audio, AC-3): the flattened outputs of one Encode
//     call are the input units one by one; a packet returns units or "more packets needed";
//   - stateless formats (MPEG-TS, LPCM/G711, simple audio): every packet decodes on its own, the
//     outputs of one Encode call concatenate to the input (188-byte / sample boundaries kept).
//
// 1..5 consecutive frames share an encoder/decoder pair; sequence numbers start near 65535.
package main

import (
	"bytes"
	"fmt"
	"hash/fnv"
	"runtime/debug"
	"sort"
	"strings"
	"sync/atomic"

	"verif/lib/codecs"
	"verif/lib/vlib"
)

// witness = everything needed to re-run one sequence of frames.
type witness struct {
	Format      string        `json:"format"`
	Params      codecs.Params `json:"params"`
	Max         int           `json:"max_payload"`
	Frames      [][]int       `json:"frames"` // requested unit sizes of each frame
	SeqStart    uint16        `json:"seq_start"`
	ContentSeed uint64        `json:"content_seed"`
	// diagnostics (ignored by replay)
	Frame   int    `json:"failing_frame,omitempty"`
	Packet  int    `json:"failing_packet,omitempty"`
	Actual  []int  `json:"actual_unit_sizes,omitempty"`
	Payload []int  `json:"packet_payload_sizes,omitempty"`
	Got     []int  `json:"returned_unit_sizes,omitempty"`
	Detail  string `json:"detail,omitempty"`
	Stack   string `json:"stack,omitempty"`
	Marks   []bool `json:"packet_markers,omitempty"`
}

var (
	run   *vlib.Run
	evals atomic.Int64
)

// stats are per-job counters flushed to the run at the end of the job.
type stats struct {
	c        map[string]int64
	maxPk    int64
	tuples   map[uint64]struct{} // distinct (params, limit, sizes) tuples of this job
	shapes   map[uint64]struct{} // distinct (params, limit, units, packets, class) shapes
	fmtLabel string
}

func newStats(label string) *stats {
	return &stats{c: map[string]int64{}, tuples: map[uint64]struct{}{}, shapes: map[uint64]struct{}{}, fmtLabel: label}
}

func (s *stats) flush() {
	for k, v := range s.c {
		run.Count(k, v)
	}
	for h := range s.shapes {
		run.DistinctHash(h)
	}
	run.Count("distinct-tuples:"+s.fmtLabel, int64(len(s.tuples)))
	run.Count("distinct-tuples", int64(len(s.tuples)))
	run.Max("packets-per-frame:"+s.fmtLabel, s.maxPk)
}

func clone(fr [][]byte) [][]byte {
	out := make([][]byte, len(fr))
	for i, u := range fr {
		out[i] = append([]byte(nil), u...)
	}
	return out
}

func concat(fr [][]byte) []byte {
	var out []byte
	for _, u := range fr {
		out = append(out, u...)
	}
	return out
}

// diffUnits names how got differs from want (both lists of units).
func diffUnits(f *codecs.Format, want, got [][]byte) string {
	if len(want) == len(got) {
		for i := range want {
			if f.Same != nil {
				if ok, class := f.Same(want[i], got[i]); !ok {
					return class
				}
			} else if !bytes.Equal(want[i], got[i]) {
				if len(want[i]) != len(got[i]) {
					// same count, different boundaries?
					if bytes.Equal(concat(want), concat(got)) {
						return "unit-boundaries-moved"
					}
					return "unit-length-differs"
				}
				return "bytes-differ"
			}
		}
		return ""
	}
	if bytes.Equal(concat(want), concat(got)) {
		if len(got) < len(want) {
			return "merged-units"
		}
		return "split-units"
	}
	if len(got) < len(want) {
		return "lost-units"
	}
	return "extra-units"
}

func hashStr(s string) uint64 {
	h := fnv.New64a()
	h.Write([]byte(s))
	return h.Sum64()
}

func hashInts(h uint64, vs ...int) uint64 {
	for _, v := range vs {
		h = (h ^ uint64(v)) * 0x100000001b3
		h ^= h >> 29
	}
	return h
}

type failure struct {
	key, what string
	w         witness
}

// runCase runs one sequence; a failing sequence of several frames is reduced to the failing frame
// alone when that fails in the same way (smaller witness), then reported.
func runCase(f *codecs.Format, w *witness, st *stats) {
	fl := tryCase(f, w, st)
	if fl == nil {
		return
	}
	if len(w.Frames) > 1 {
		w1 := *w
		w1.Frames = [][]int{w.Frames[fl.w.Frame]}
		if f1 := tryCase(f, &w1, newStats(f.Name)); f1 != nil && f1.key == fl.key {
			fl = f1
		}
	}
	run.Violation(fl.key, fl.what, fl.w)
}

// tryCase pushes the frames of w through one encoder/decoder pair and applies the oracle.
func tryCase(f *codecs.Format, w *witness, st *stats) (res *failure) {
	p := w.Params
	fail := func(class, what string, fi, pi int, extra func(*witness)) {
		ww := *w
		ww.Frame, ww.Packet, ww.Detail = fi, pi, what
		switch {
		case p.Variant == "lsf3" && (strings.HasPrefix(class, "roundtrip/") || class == "decode-error"):
			// one root cause (the frame length the decoder derives from an MPEG-2 layer III header is
			// twice the ISO 13818-3 one) shows as lost, merged, differing units or a parse error
			// depending on the grouping: one key for all of them
			what = "[" + class + "] " + what
			class = "roundtrip/mpeg2-layer3-frame-length"
		case p.Variant == "dri" && class == "decode-error" && strings.Contains(what, "is not supported"):
			// the M-JPEG encoder sends RFC 2435 types 64..127 for images with a DRI segment, the decoder rejects them
			class = "roundtrip/restart-interval-unsupported"
		}
		if extra != nil {
			extra(&ww)
		}
		res = &failure{f.Name + "/" + class, fmt.Sprintf("%s (limit %d, params %s): %s", f.Name, w.Max, p.Label, what), ww}
	}
	enc, err := f.NewEncoder(p, codecs.EncConf{PayloadMaxSize: w.Max, SSRC: 0x9dbb7812, InitialSequenceNumber: w.SeqStart, PayloadType: 96})
	if err != nil {
		fail("encoder-init-error", err.Error(), 0, 0, nil)
		return
	}
	dec, err := f.NewDecoder(p)
	if err != nil {
		fail("decoder-init-error", err.Error(), 0, 0, nil)
		return
	}
	r := codecs.NewRand(w.ContentSeed)
	fi, pi := 0, -1
	defer func() {
		if v := recover(); v != nil {
			stk := vlib.Stack()
			fail("panic/"+vlib.PanicSite(stk), fmt.Sprintf("panic: %v", v), fi, pi, func(x *witness) { x.Stack = stk })
		}
	}()
	seq := w.SeqStart
	for fi = 0; fi < len(w.Frames); fi++ {
		pi = -1
		frame := f.Gen(r, p, w.Frames[fi], uint64(fi+1))
		want := clone(frame)
		nUnits := len(frame)
		if f.Blob {
			nUnits = len(w.Frames[fi])
			if !f.Multi(p) {
				nUnits = 1
			}
		}
		pkts, err := enc(frame)
		evals.Add(1)
		st.c["frames:"+f.Name]++
		info := func(x *witness) {
			x.Actual = codecs.Sizes(want)
			for _, pk := range pkts {
				x.Payload = append(x.Payload, len(pk.Payload))
				x.Marks = append(x.Marks, pk.Marker)
			}
		}
		if err != nil {
			fail("encode-error", "Encode of a valid frame fails: "+err.Error(), fi, -1, info)
			return
		}
		if len(pkts) == 0 {
			fail("roundtrip/no-packets", "Encode of a valid frame returns no packets", fi, -1, info)
			return
		}
		// coverage: packetisation class and the distinct tuple
		class := "single"
		switch {
		case len(pkts) > 1 && nUnits > 1:
			class = "mixed"
		case len(pkts) > 1:
			class = "fragmented"
		case nUnits > 1:
			class = "aggregated"
		}
		st.c["class:"+class+":"+f.Name]++
		if int64(len(pkts)) > st.maxPk {
			st.maxPk = int64(len(pkts))
		}
		if uint16(seq+uint16(len(pkts)-1)) < seq && len(pkts) > 1 {
			st.c["seq-wrap-inside-frame:"+f.Name]++
		}
		seq += uint16(len(pkts))
		if class != "single" {
			h := hashInts(hashStr(f.Name+"|"+p.Label), w.Max)
			st.shapes[hashInts(hashStr(class)^h, nUnits, len(pkts))] = struct{}{}
			if f.Blob && f.Multi(p) {
				h = hashInts(h, w.Frames[fi]...) // sub-unit sizes of the blob
			} else {
				for _, u := range want {
					h = hashInts(h, len(u))
				}
			}
			st.tuples[h] = struct{}{}
		}

		ts := uint32(90000 + fi*3000)
		var flat [][]byte // outputs of this Encode call, flattened
		last := len(pkts) - 1
		for pi = 0; pi <= last; pi++ {
			pk := pkts[pi]
			pk.Timestamp += ts
			out, err := dec(pk)
			more := err != nil && f.IsMore(err)
			if err != nil && !more {
				fail("decode-error", fmt.Sprintf("Decode of packet %d/%d of frame %d fails: %v", pi+1, len(pkts), fi+1, err), fi, pi, info)
				return
			}
			if err == nil && len(out) == 0 {
				fail("roundtrip/empty-result", fmt.Sprintf("Decode of packet %d/%d returns no error and no data", pi+1, len(pkts)), fi, pi, info)
				return
			}
			switch f.Family {
			case codecs.WholeFrame:
				if pi < last {
					if !more {
						cls := "early-frame"
						if diffUnits(f, want, out) == "" {
							cls = "early-frame-complete" // (the whole frame before the encoder's last packet)
						}
						fail("roundtrip/"+cls, fmt.Sprintf("a frame (%d units, %d bytes) is returned at packet %d of %d, before the completing packet",
							len(out), len(concat(out)), pi+1, len(pkts)), fi, pi, func(x *witness) { info(x); x.Got = codecs.Sizes(out) })
						return
					}
					continue
				}
				if more {
					fail("roundtrip/no-frame", fmt.Sprintf("the last packet (%d of %d) yields 'more packets needed'", pi+1, len(pkts)), fi, pi, info)
					return
				}
				if d := diffUnits(f, want, out); d != "" {
					fail("roundtrip/"+d, fmt.Sprintf("frame %d comes back different (%s): sent unit sizes %v, got %v", fi+1, d,
						codecs.Sizes(want), codecs.Sizes(out)), fi, pi, func(x *witness) { info(x); x.Got = codecs.Sizes(out) })
					return
				}
			case codecs.AudioGroup:
				if !more {
					// every returned unit must be the next input unit(s), whole
					for _, u := range out {
						k := len(flat)
						if k >= len(want) || !bytes.Equal(u, want[k]) {
							flat = append(flat, u)
							d := diffUnits(f, want[:min(len(flat), len(want))], flat)
							if d == "" {
								d = "extra-units"
							}
							fail("roundtrip/"+d, fmt.Sprintf("packet %d/%d returns a unit (%d bytes) that is not input unit %d (sent sizes %v)",
								pi+1, len(pkts), len(u), k+1, codecs.Sizes(want)), fi, pi, func(x *witness) { info(x); x.Got = codecs.Sizes(flat) })
							return
						}
						flat = append(flat, u)
					}
				}
				if pi == last {
					if more {
						fail("roundtrip/no-frame", fmt.Sprintf("the last packet (%d of %d) yields 'more packets needed'", pi+1, len(pkts)), fi, pi, info)
						return
					}
					if len(flat) != len(want) {
						fail("roundtrip/lost-units", fmt.Sprintf("%d of %d units returned after all packets", len(flat), len(want)), fi, pi,
							func(x *witness) { info(x); x.Got = codecs.Sizes(flat) })
						return
					}
				}
			case codecs.Stateless:
				flat = append(flat, out...)
				if pi == last {
					ok := bytes.Equal(concat(flat), concat(want))
					if ok && f.FixedUnit != 0 {
						ok = diffUnits(f, want, flat) == ""
					}
					if ok && p.BitDepth > 0 {
						for _, u := range flat {
							if len(u)%(p.BitDepth*p.Channels/8) != 0 {
								fail("roundtrip/sample-split", fmt.Sprintf("a packet carries %d bytes: not whole samples", len(u)), fi, pi, info)
								return
							}
						}
					}
					if !ok {
						d := diffUnits(f, want, flat)
						if d == "" || d == "merged-units" || d == "split-units" {
							d = "bytes-differ"
						}
						fail("roundtrip/"+d, fmt.Sprintf("outputs of the %d packets do not concatenate to the input (%d vs %d bytes)",
							len(pkts), len(concat(flat)), len(concat(want))), fi, pi, func(x *witness) { info(x); x.Got = codecs.Sizes(flat) })
						return
					}
				}
			}
		}
		st.c["roundtrips-ok:"+f.Name]++
	}
	st.c["sequences:"+f.Name]++
	if len(w.Frames) > 2 && w.Max >= 16 && w.ContentSeed%97 == 0 && run.WantSample() {
		ws := *w
		ws.Frames = append([][]int(nil), w.Frames...)
		run.Sample(ws)
	}
	return nil
}

// seqStarts rotate so that runs wrap at different places.
var seqStarts = [...]uint16{65535, 65534, 65530, 65500, 0, 65533, 1, 65280}

type job struct {
	f *codecs.Format
	p codecs.Params
	m int
}

func main() {
	run = vlib.Start("C03", "exploration")
	debug.SetGCPercent(400) // allocation-heavy, tiny live heap
	if run.Replay != "" {
		var w witness
		if err := run.LoadReplay(&w); err != nil {
			run.Fatal("cannot load replay: %v", err)
		}
		f := codecs.ByName(w.Format)
		if f == nil {
			run.Fatal("unknown format %q", w.Format)
		}
		st := newStats(f.Name)
		runCase(f, &w, st)
		run.Finish(evals.Load(), "replay")
	}

	depth := codecs.QuickDepth
	if !run.Quick() {
		depth = codecs.ThoroughDepth
	}
	var jobs []job
	grammar := map[string]string{}
	limits := map[string][]int{}
	for _, f := range codecs.All() {
		grammar[f.Name] = f.Grammar + " [oracle: " + f.Family.String() + "]"
		for _, p := range f.Params {
			ls := f.Limits(p)
			limits[f.Name+"/"+p.Label] = ls
			for _, m := range ls {
				jobs = append(jobs, job{f, p, m})
			}
		}
	}
	// small limits first: the first witness stored per key is then a small one
	sort.SliceStable(jobs, func(i, j int) bool { return jobs[i].m < jobs[j].m })

	// 1. systematic part: consecutive size vectors of the sweep are chained into sequences of 1..5
	// frames through one encoder/decoder pair
	run.Parallel(len(jobs), func(_, i int) {
		j := jobs[i]
		st := newStats(j.f.Name)
		defer st.flush()
		n := 0
		w := witness{Format: j.f.Name, Params: j.p, Max: j.m}
		want := 1
		flushSeq := func() {
			if len(w.Frames) == 0 {
				return
			}
			w.SeqStart = seqStarts[n%len(seqStarts)]
			w.ContentSeed = uint64(i)<<32 | uint64(n)
			runCase(j.f, &w, st)
			n++
			w.Frames = w.Frames[:0]
			want = 1 + n%5
		}
		j.f.Sweep(j.p, j.m, depth, func(sizes []int) {
			w.Frames = append(w.Frames, append([]int(nil), sizes...))
			if len(w.Frames) >= want {
				flushSeq()
			}
		})
		flushSeq()
	}, func(i int, v any, stack string) {
		run.Violation(jobs[i].f.Name+"/panic/"+vlib.PanicSite(stack), fmt.Sprintf("panic: %v", v),
			witness{Format: jobs[i].f.Name, Params: jobs[i].p, Max: jobs[i].m, Stack: stack})
	})

	run.Extra("systematic_frames", evals.Load())

	// 2. sampled part: PRNG params, limits, 1..5 frames of PRNG size vectors, PRNG start sequence numbers
	fs := codecs.All()
	nSeq := run.Pick(6000, 400000) // per format and shard
	const shards = 16
	run.Parallel(len(fs)*shards, func(_, i int) {
		f := fs[i/shards]
		st := newStats(f.Name)
		defer st.flush()
		r := run.Rand("sample/"+f.Name, i%shards)
		for n := 0; n < nSeq/shards; n++ {
			p := f.Params[r.Intn(len(f.Params))]
			ls := f.Limits(p)
			m := ls[r.Intn(len(ls))]
			if r.Intn(3) == 0 {
				m = f.MinLimit(p) + r.Intn(2001-min(f.MinLimit(p), 2000))
			}
			w := witness{Format: f.Name, Params: p, Max: m, ContentSeed: r.Uint64()}
			for k := 1 + r.Intn(5); k > 0; k-- {
				w.Frames = append(w.Frames, f.SampleSizes(r, p, m))
			}
			switch r.Intn(3) {
			case 0:
				w.SeqStart = uint16(65536 - 1 - r.Intn(40))
			case 1:
				w.SeqStart = uint16(r.Intn(65536))
			default:
				w.SeqStart = seqStarts[r.Intn(len(seqStarts))]
			}
			st.c["sampled-sequences:"+f.Name]++
			runCase(f, &w, st)
		}
	}, func(i int, v any, stack string) {
		run.Violation(fs[i/shards].Name+"/panic/"+vlib.PanicSite(stack), fmt.Sprintf("panic: %v", v), witness{Format: fs[i/shards].Name, Stack: stack})
	})

	run.Extra("grammars", grammar)
	run.Extra("payload_limits", limits)
	run.Extra("jobs", len(jobs))
	run.Assume("'valid frame' = the grammar listed per format under coverage.grammars (each encoder's documented preconditions, kept narrow)")
	run.Assume("packets are given the frame's RTP timestamp by the caller (encoders leave it 0 or relative), strictly increasing per frame")
	run.Assume("stateless decoders (MPEG-TS, LPCM/G711, simple audio) and audio-group formats (MPEG-4 audio, MPEG-1 audio, AC-3) are compared " +
		"by concatenation / unit by unit, because their wire formats cannot carry the grouping of one Encode call")
	run.Finish(evals.Load(),
		"systematic: per format x parameter set x payload limit (every limit from the smallest workable to 64, then MTU-derived values), unit sizes "+
			"exhaustive for small limits (1..3 units) and within a window of every strategy threshold alone and in 2..4-unit combinations with the "+
			"exact thresholds, chained into sequences of 1..5 frames per encoder/decoder pair, start sequence numbers near 65535; sampled: PRNG "+
			"limits / size vectors / start sequence numbers. evaluations = frames round-tripped. distinct_nontrivial = distinct (format, params, "+
			"limit, units per frame, packets per frame, class) shapes with at least one aggregated or fragmented packet; the number of distinct "+
			"(format, params, limit, unit-size vector) tuples is in counters[distinct-tuples]")
}
