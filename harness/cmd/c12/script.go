package main

import (
	"bufio"
	"crypto/tls"
	"fmt"
	"math/rand"
	"net"
	"strconv"
	"strings"
	"sync"
	"sync/atomic"
	"time"

	"github.com/bluenviron/gortsplib/v5/pkg/base"
	"github.com/bluenviron/gortsplib/v5/pkg/conn"

	"verif/lib/rig"
)

// A scripted RTSP server: answers correctly except where a mutation says otherwise.

type mutation struct {
	Method string `json:"method"` // request method the mutation applies to ("*" = any)
	Nth    int    `json:"nth"`    // which occurrence of that method (0 = first; -1 = every one)
	Kind   string `json:"kind"`
	Arg    string `json:"arg,omitempty"`
}

type scriptServer struct {
	ln       net.Listener
	tls      bool
	muts     []mutation
	seed     int64
	wg       sync.WaitGroup
	closed   atomic.Bool
	mu       sync.Mutex
	counts   map[string]int
	conns    []net.Conn
	Repeats  atomic.Int64 // how often an endless behaviour (redirect / 401) was served
	Requests atomic.Int64
	udpRTP   *net.UDPConn
	udpRTCP  *net.UDPConn
	backCh   bool
}

const sdpPlay = "v=0\r\no=- 0 0 IN IP4 127.0.0.1\r\ns=x\r\nc=IN IP4 0.0.0.0\r\nt=0 0\r\n" +
	"m=video 0 RTP/AVP 96\r\na=rtpmap:96 private/90000\r\na=control:trackID=0\r\n" +
	"m=audio 0 RTP/AVP 97\r\na=rtpmap:97 private/48000\r\na=control:trackID=1\r\n"

func startScript(useTLS bool, muts []mutation, seed int64) (*scriptServer, error) {
	ln, err := net.Listen("tcp", "127.0.0.1:0")
	if err != nil {
		return nil, err
	}
	if useTLS {
		ln = tls.NewListener(ln, &tls.Config{Certificates: []tls.Certificate{rig.ServerCert()}})
	}
	s := &scriptServer{ln: ln, tls: useTLS, muts: muts, seed: seed, counts: map[string]int{}}
	// a UDP port pair the SETUP responses can announce
	for i := 0; i < 50; i++ {
		p := rig.FreePortPair()
		a, err1 := net.ListenUDP("udp", &net.UDPAddr{IP: net.ParseIP("127.0.0.1"), Port: p})
		if err1 != nil {
			continue
		}
		b, err2 := net.ListenUDP("udp", &net.UDPAddr{IP: net.ParseIP("127.0.0.1"), Port: p + 1})
		if err2 != nil {
			a.Close()
			continue
		}
		s.udpRTP, s.udpRTCP = a, b
		break
	}
	s.wg.Add(1)
	go func() {
		defer s.wg.Done()
		for {
			nc, err := ln.Accept()
			if err != nil {
				return
			}
			s.mu.Lock()
			s.conns = append(s.conns, nc)
			s.mu.Unlock()
			s.wg.Add(1)
			go func() {
				defer s.wg.Done()
				s.serve(nc)
			}()
		}
	}()
	return s, nil
}

func (s *scriptServer) addr() string { return s.ln.Addr().String() }

func (s *scriptServer) url(path string) string {
	if s.tls {
		return "rtsps://" + s.addr() + path
	}
	return "rtsp://" + s.addr() + path
}

func (s *scriptServer) close() {
	s.closed.Store(true)
	s.ln.Close()
	s.mu.Lock()
	for _, c := range s.conns {
		c.Close()
	}
	s.mu.Unlock()
	if s.udpRTP != nil {
		s.udpRTP.Close()
		s.udpRTCP.Close()
	}
	s.wg.Wait()
}

type resp struct {
	Status int
	Msg    string
	Hdr    [][2]string
	Body   string
}

func (r *resp) set(k, v string) {
	for i := range r.Hdr {
		if strings.EqualFold(r.Hdr[i][0], k) {
			r.Hdr[i][1] = v
			return
		}
	}
	r.Hdr = append(r.Hdr, [2]string{k, v})
}

func (r *resp) del(k string) {
	for i := range r.Hdr {
		if strings.EqualFold(r.Hdr[i][0], k) {
			r.Hdr = append(r.Hdr[:i], r.Hdr[i+1:]...)
			return
		}
	}
}

func (r *resp) bytes() []byte {
	var b strings.Builder
	msg := r.Msg
	if msg == "" {
		msg = map[int]string{200: "OK", 301: "Moved Permanently", 302: "Found", 400: "Bad Request", 401: "Unauthorized", 404: "Not Found", 454: "Session Not Found", 461: "Unsupported Transport", 463: "Key Management Failure", 500: "Internal Server Error", 503: "Service Unavailable"}[r.Status]
		if msg == "" {
			msg = "Status"
		}
	}
	fmt.Fprintf(&b, "RTSP/1.0 %d %s\r\n", r.Status, msg)
	hasCL := false
	for _, h := range r.Hdr {
		if strings.EqualFold(h[0], "Content-Length") {
			hasCL = true
		}
		fmt.Fprintf(&b, "%s: %s\r\n", h[0], h[1])
	}
	if r.Body != "" && !hasCL {
		fmt.Fprintf(&b, "Content-Length: %d\r\n", len(r.Body))
	}
	b.WriteString("\r\n")
	b.WriteString(r.Body)
	return []byte(b.String())
}

func (s *scriptServer) mutsFor(method string) []mutation {
	s.mu.Lock()
	n := s.counts[method]
	s.counts[method] = n + 1
	s.mu.Unlock()
	var out []mutation
	for _, m := range s.muts {
		if (m.Method == method || m.Method == "*") && (m.Nth == n || m.Nth == -1) {
			out = append(out, m)
		}
	}
	return out
}

func frameBytes(ch int, pl []byte) []byte {
	return append([]byte{'$', byte(ch), byte(len(pl) >> 8), byte(len(pl))}, pl...)
}

func rtpPacket(pt byte, seq int, r *rand.Rand, size int) []byte {
	pl := rig.BuildPayload(rig.PacketID{Run: 7, Media: 0, PT: pt, Ctr: uint64(seq)}, size, r)
	return append([]byte{0x80, pt, byte(seq >> 8), byte(seq), 0, 0, byte(seq >> 8), byte(seq), 0, 0, 0, 9}, pl...)
}

func (s *scriptServer) serve(nc net.Conn) {
	defer nc.Close()
	br := bufio.NewReader(nc)
	c := conn.NewConn(br, nc)
	r := rand.New(rand.NewSource(s.seed))
	write := func(b []byte) {
		_ = nc.SetWriteDeadline(time.Now().Add(2 * time.Second))
		_, _ = nc.Write(b)
	}
	session := "12345678"
	playing := false
	seq := 0
	for {
		_ = nc.SetReadDeadline(time.Now().Add(20 * time.Second))
		what, err := c.Read()
		if err != nil {
			return
		}
		req, ok := what.(*base.Request)
		if !ok {
			continue // frames / responses from the client are ignored
		}
		s.Requests.Add(1)
		cseq := ""
		if v, ok := req.Header["CSeq"]; ok && len(v) == 1 {
			cseq = v[0]
		}
		rs := &resp{Status: 200, Hdr: [][2]string{{"CSeq", cseq}, {"Server", "scripted"}}}
		u := ""
		if req.URL != nil {
			u = req.URL.String()
		}
		switch req.Method {
		case base.Options:
			rs.set("Public", "DESCRIBE, ANNOUNCE, SETUP, PLAY, RECORD, PAUSE, GET_PARAMETER, TEARDOWN")
		case base.Describe:
			rs.set("Content-Base", u+"/")
			rs.set("Content-Type", "application/sdp")
			rs.Body = sdpPlay
			if s.backCh {
				rs.Body += "m=audio 0 RTP/AVP 0\r\na=sendonly\r\na=control:trackID=2\r\n"
			}
		case base.Announce:
		case base.Setup:
			th := ""
			if v, ok := req.Header["Transport"]; ok && len(v) == 1 {
				th = v[0]
			}
			switch {
			case strings.Contains(th, "TCP"):
				rs.set("Transport", th)
			case strings.Contains(th, "multicast"):
				rs.set("Transport", th+";destination=224.1.0.1;port=15000-15001;ttl=127")
			default:
				p := 0
				if s.udpRTP != nil {
					p = s.udpRTP.LocalAddr().(*net.UDPAddr).Port
				}
				rs.set("Transport", th+";server_port="+strconv.Itoa(p)+"-"+strconv.Itoa(p+1))
			}
			rs.set("Session", session+";timeout=60")
		case base.Play:
			rs.set("Session", session)
			rs.set("RTP-Info", "url="+u+"/trackID=0;seq=1;rtptime=1")
			playing = true
		case base.Record:
			rs.set("Session", session)
		case base.Pause:
			rs.set("Session", session)
			playing = false
		case base.Teardown:
		case base.GetParameter, base.SetParameter:
			rs.set("Session", session)
		}

		out := [][]byte{}
		skip, closeAfter, closeBefore := false, false, false
		stallMs := 0
		var pre, post [][]byte
		for _, m := range s.mutsFor(string(req.Method)) {
			switch m.Kind {
			case "status":
				n, _ := strconv.Atoi(m.Arg)
				rs.Status = n
				if n >= 300 {
					rs.Body = ""
					rs.del("Content-Type")
				}
			case "status-msg":
				rs.Status = 463
				rs.Msg = m.Arg
			case "no-cseq":
				rs.del("CSeq")
			case "wrong-cseq":
				rs.set("CSeq", m.Arg)
			case "dup-response":
				post = append(post, nil) // marker: duplicate
			case "silence":
				skip = true
			case "close":
				closeBefore = true
			case "close-after":
				closeAfter = true
			case "stall-after":
				stallMs, _ = strconv.Atoi(m.Arg)
			case "delay":
				n, _ := strconv.Atoi(m.Arg)
				time.Sleep(time.Duration(n) * time.Millisecond)
			case "inject-frames":
				n, _ := strconv.Atoi(m.Arg)
				for i := 0; i < n; i++ {
					pre = append(pre, frameBytes([]int{0, 1, 2, 3, 9, 255}[r.Intn(6)], rtpPacket(96, i, r, 40+r.Intn(100))))
				}
			case "inject-big-frame":
				pre = append(pre, frameBytes(r.Intn(4), make([]byte, 65535)))
			case "inject-request":
				pre = append(pre, []byte(strings.ReplaceAll(m.Arg, "{u}", u)))
			case "garbage":
				out = append(out, []byte(m.Arg))
				skip = true
			case "truncate":
				b := rs.bytes()
				n, _ := strconv.Atoi(m.Arg)
				if n < len(b) {
					b = b[:n]
				}
				out = append(out, b)
				skip = true
			case "header":
				kv := strings.SplitN(m.Arg, "=", 2)
				rs.set(kv[0], strings.ReplaceAll(kv[1], "{u}", u))
			case "add-header":
				kv := strings.SplitN(m.Arg, "=", 2)
				rs.Hdr = append(rs.Hdr, [2]string{kv[0], strings.ReplaceAll(kv[1], "{u}", u)})
			case "del-header":
				rs.del(m.Arg)
			case "body":
				rs.Body = m.Arg
			case "sdp-control":
				rs.Body = strings.Replace(rs.Body, "a=control:trackID=0", "a=control:"+strings.ReplaceAll(m.Arg, "{u}", u), 1)
			case "sdp-replace":
				kv := strings.SplitN(m.Arg, "=>", 2)
				rs.Body = strings.ReplaceAll(rs.Body, kv[0], kv[1])
			case "redirect-loop":
				n := s.Repeats.Add(1)
				rs = &resp{Status: 302, Hdr: [][2]string{{"CSeq", cseq}, {"Location", s.url(fmt.Sprintf("/r%d", n))}}}
				if n >= 60 {
					closeBefore = true // let the client go: the step bound was exceeded long ago
				}
			case "redirect-to":
				rs = &resp{Status: 301, Hdr: [][2]string{{"CSeq", cseq}, {"Location", strings.ReplaceAll(m.Arg, "{addr}", s.addr())}}}
			case "chatter":
				// never answer this request, but keep the connection busy: stale responses or
				// unsolicited requests every 100 ms (each one counted as a repetition)
				skip = true
				go func(kind string) {
					for i := 0; i < 80 && !s.closed.Load(); i++ {
						time.Sleep(100 * time.Millisecond)
						var b []byte
						switch kind {
						case "stale-response":
							b = (&resp{Status: 200, Hdr: [][2]string{{"CSeq", "99999"}}}).bytes()
						case "server-request":
							b = []byte(fmt.Sprintf("OPTIONS %s RTSP/1.0\r\nCSeq: %d\r\n\r\n", u, 1000+i))
						default:
							b = frameBytes(0, rtpPacket(96, i, rand.New(rand.NewSource(int64(i))), 40))
						}
						_ = nc.SetWriteDeadline(time.Now().Add(time.Second))
						if _, err := nc.Write(b); err != nil {
							return
						}
						s.Repeats.Add(1)
					}
				}(m.Arg)
			case "auth-loop":
				s.Repeats.Add(1)
				rs = &resp{Status: 401, Hdr: [][2]string{{"CSeq", cseq}, {"WWW-Authenticate", m.Arg}}}
			}
		}
		if closeBefore {
			return
		}
		for _, p := range pre {
			write(p)
		}
		if !skip {
			b := rs.bytes()
			write(b)
			for range post {
				write(b)
			}
		}
		for _, o := range out {
			write(o)
		}
		if closeAfter {
			return
		}
		if stallMs > 0 {
			// keep the connection open but stop reading for a while (small receive buffer, so that
			// the client's writer blocks after some kilobytes)
			var raw net.Conn = nc
			if tc, ok := nc.(*tls.Conn); ok {
				raw = tc.NetConn()
			}
			if tc, ok := raw.(*net.TCPConn); ok {
				_ = tc.SetReadBuffer(2048)
			}
			for k := 0; k < stallMs/10 && !s.closed.Load(); k++ {
				time.Sleep(10 * time.Millisecond)
			}
		}
		// while playing over an interleaved connection, send a little media after each request
		if playing && req.Method == base.Play {
			for i := 0; i < 10; i++ {
				seq++
				write(frameBytes(0, rtpPacket(96, seq, r, 60)))
			}
		}
	}
}
