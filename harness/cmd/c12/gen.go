package main

import (
	"fmt"
	"strings"
)

// catalogue of response mutations: kind + arguments
func catalogue(method string) []mutation {
	var out []mutation
	add := func(kind string, args ...string) {
		if len(args) == 0 {
			args = []string{""}
		}
		for _, a := range args {
			out = append(out, mutation{Method: method, Kind: kind, Arg: a})
		}
	}
	add("status", "100", "201", "301", "302", "400", "401", "404", "454", "461", "500", "503", "999")
	add("no-cseq")
	add("wrong-cseq", "0", "999999", "-1", "abc", "")
	add("dup-response")
	add("silence")
	add("close")
	add("close-after")
	add("delay", "350", "700")
	add("inject-frames", "1", "30")
	add("inject-big-frame")
	add("inject-request", "OPTIONS {u} RTSP/1.0\r\nCSeq: 77\r\n\r\n", "GET_PARAMETER {u} RTSP/1.0\r\nCSeq: 78\r\n\r\n", "FOO * RTSP/1.0\r\nCSeq: 79\r\n\r\n", "SET_PARAMETER {u} RTSP/1.0\r\nCSeq: 1\r\nContent-Length: 5\r\n\r\nhello")
	add("garbage", "\x00\x01\x02\x03", "RTSP/1.0 200\r\n\r\n", "RTSP/9.9 200 OK\r\nCSeq: 1\r\n\r\n", "HTTP/1.1 200 OK\r\n\r\n", strings.Repeat("A", 5000))
	add("truncate", "5", "20", "40")
	add("add-header", "X-Big="+strings.Repeat("v", 3000), "CSeq=5", "Content-Length=999999", "Content-Length=-1", "Content-Length=abc")
	add("header", "Session=", "Session=;timeout=5", "Session=abc;timeout=0", "Session=abc;timeout=1", "Session=abc;timeout=99999999999999999999", "Session=other", "Session="+strings.Repeat("s", 3000))
	add("chatter", "stale-response", "server-request", "frames")
	add("redirect-loop")
	add("redirect-to", "rtsp://{addr}/other", "rtsp://127.0.0.1:1/x", "not a url", "rtsp://", "rtsps://{addr}/x", "rtsp://[::1/x", "http://{addr}/x", "")
	add("auth-loop", `Basic realm="x"`, `Digest realm="x", nonce="1"`, `Digest realm="x"`, "garbage", "")
	switch method {
	case "DESCRIBE":
		add("del-header", "Content-Type", "Content-Base")
		add("header", "Content-Type=text/plain", "Content-Type=application/sdp; charset=utf-8", "Content-Base=", "Content-Base=not a url", "Content-Base=rtsp://[::1/x", "Content-Base=rtsp://other:554/x/", "Content-Base={u}", "Content-Location={u}/")
		add("sdp-control", "%zz", "", "*", "rtsp://otherhost:554/x/trackID=0", "?ctl=1", "/abs/trackID=0", "trackID=0?x=1", "rtsp://[::1", "http://x/y", strings.Repeat("c", 3000), "trackID=0\x00")
		add("body", "", "garbage", "v=0\r\n", "v=0\r\no=- 0 0 IN IP4 127.0.0.1\r\ns=x\r\nt=0 0\r\n", sdpPlay[:60], sdpPlay+strings.Repeat("m=video 0 RTP/AVP 96\r\na=control:trackID=5\r\n", 300))
		add("sdp-replace", "RTP/AVP=>RTP/SAVP", "private/90000=>H264/90000", "rtpmap:96 private/90000=>rtpmap:96", "a=control:trackID=1=>a=control:trackID=0", "m=audio=>a=mid:x\r\nm=audio", "96=>300",
			"m=video 0 RTP/AVP 96=>m=video 0 RTP/SAVP 96\r\na=key-mgmt:mikey AQAFAP////8=", "a=control:trackID=0=>a=control:trackID=0\r\na=sendonly", "c=IN IP4 0.0.0.0=>c=IN IP4 224.1.0.1/127")
	case "SETUP":
		add("del-header", "Transport", "Session")
		add("header", "Transport=RTP/AVP/TCP;unicast;interleaved=0-1", "Transport=RTP/AVP;unicast;client_port=1-2", "Transport=RTP/AVP;unicast;client_port=1-2;server_port=0-0", "Transport=RTP/AVP;multicast;destination=224.1.0.9;port=5000-5001",
			"Transport=RTP/AVP;multicast", "Transport=RTP/AVP/TCP;unicast;interleaved=0-0", "Transport=RTP/AVP/TCP;unicast;interleaved=254-255", "Transport=RTP/AVP/TCP;unicast;interleaved=70000-70001", "Transport=RTP/SAVP/TCP;unicast;interleaved=0-1",
			"Transport=garbage", "Transport=", "Transport=RTP/AVP;unicast;client_port=1-2;server_port=5-6;source=256.1.1.1", "Transport=RTP/AVP;unicast;client_port=1-2;server_port=5-6;source=nohost.invalid", "Transport=RTP/AVP/TCP;unicast;interleaved=0-1;ssrc=zz",
			"Transport=RTP/AVP;unicast;server_port=99999-100000;client_port=3-4", "Transport=RTP/AVP/TCP;unicast;interleaved=0-1,RTP/AVP;unicast")
		add("status-msg", "Key Management Failure", "key management failure", "other")
		add("add-header", "KeyMgmt=garbage", "KeyMgmt=prot=mikey;uri=\"x\";data=\"AAAA\"")
	case "PLAY", "RECORD":
		add("header", "RTP-Info=garbage", "RTP-Info=url=x;seq=99999999", "RTP-Info=", "Range=garbage")
	case "OPTIONS":
		add("del-header", "Public")
		add("header", "Public=", "Public=DESCRIBE")
	}
	return out
}

func generate() []session {
	r := run.Rand("sessions", 0)
	var out []session
	methods := map[string][]string{
		"play":    {"OPTIONS", "DESCRIBE", "SETUP", "PLAY", "PAUSE"},
		"record":  {"OPTIONS", "ANNOUNCE", "SETUP", "RECORD"},
		"options": {"OPTIONS"},
	}
	protos := []string{"tcp", "udp", "auto", "tcp", "udp", "auto", "mcast"}
	add := func(prog string, muts []mutation) {
		se := session{ID: len(out), Program: prog, Proto: protos[r.Intn(len(protos))], TLS: r.Intn(5) == 0, Creds: r.Intn(3) == 0,
			BackCh: prog == "play" && r.Intn(6) == 0, AnyPort: r.Intn(6) == 0, Muts: muts, Seed: r.Int63()}
		out = append(out, se)
	}
	// 1. every single mutation of the catalogue on every request of every program (systematic)
	stride := run.Pick(3, 1) // quick: every third entry, rotated by the seed
	k := int(run.Seed) % stride
	for _, prog := range []string{"play", "record", "options"} {
		add(prog, nil) // the unmodified transcript
		for _, m := range methods[prog] {
			for _, mu := range catalogue(m) {
				k++
				if k%stride != 0 {
					continue
				}
				nths := []int{0}
				if m == "SETUP" || m == "PLAY" || m == "OPTIONS" {
					nths = []int{0, 1}
				}
				for _, n := range nths {
					mu.Nth = n
					add(prog, []mutation{mu})
				}
			}
		}
	}
	// 2. the combinations the property names explicitly: invalid control attribute x 401 / secure
	for _, ctl := range []string{"%zz", "rtsp://[::1", "trackID=0\x00"} {
		for _, second := range []mutation{{Method: "SETUP", Nth: 0, Kind: "status", Arg: "401"}, {Method: "SETUP", Nth: 0, Kind: "auth-loop", Arg: `Basic realm="x"`}, {Method: "DESCRIBE", Nth: 0, Kind: "sdp-replace", Arg: "RTP/AVP=>RTP/SAVP"}} {
			for _, creds := range []bool{false, true} {
				add("play", []mutation{{Method: "DESCRIBE", Nth: 0, Kind: "sdp-control", Arg: ctl}, second})
				out[len(out)-1].Creds = creds
			}
		}
	}
	// 2b. multicast: the client's listeners are created from the server's answer, so every way a
	// complete multicast answer can still be refused afterwards is tried with a multicast client
	for _, arg := range []string{
		"Transport=RTP/SAVP;multicast;destination=224.1.0.1;port=15000-15001;ttl=127",
		"Transport=RTP/AVP;multicast;destination=224.1.0.1;port=15000-15001;ttl=127",
		"Transport=RTP/AVP;multicast;destination=224.1.0.1;port=15000-15001;ttl=127;ssrc=zz",
		"Transport=RTP/AVP;multicast;destination=224.1.0.1;port=15000-15001;ttl=127;mode=record",
		"Transport=RTP/AVP;multicast;destination=224.1.0.1",
		"Transport=RTP/AVP;multicast;destination=127.0.0.1;port=15000-15001",
		"Transport=RTP/AVP;multicast;destination=224.1.0.1;port=0-0",
	} {
		for _, nth := range []int{0, 1} {
			for _, tlsOn := range []bool{false, true} {
				add("play", []mutation{{Method: "SETUP", Nth: nth, Kind: "header", Arg: arg}})
				out[len(out)-1].Proto = "mcast"
				out[len(out)-1].TLS = tlsOn
			}
		}
	}
	add("play", nil)
	out[len(out)-1].Proto = "mcast"
	for _, k := range []string{"status", "close", "silence", "del-header"} {
		arg := map[string]string{"status": "461", "del-header": "Transport"}[k]
		add("play", []mutation{{Method: "SETUP", Nth: 1, Kind: k, Arg: arg}})
		out[len(out)-1].Proto = "mcast"
	}

	// 2c. a server that answers RECORD and then stops reading: the client's writer blocks in a
	// write while PAUSE / Close are called
	for k := 0; k < 8; k++ {
		for _, tlsOn := range []bool{false, true} {
			add("record-stall", []mutation{{Method: "RECORD", Nth: 0, Kind: "stall-after", Arg: "4000"}})
			out[len(out)-1].Proto = "tcp"
			out[len(out)-1].TLS = tlsOn
		}
	}

	// 2d. a real server behind a forwarder that resets one connection of a tunnelled client
	for k := 0; k < 8; k++ {
		for _, pr := range []string{"http", "ws"} {
			for _, tlsOn := range []bool{false, true} {
				add("tunnel-reset", nil)
				o := &out[len(out)-1]
				o.Proto, o.TLS, o.Seed = pr, tlsOn, int64(k)
			}
		}
	}

	for k := 0; k < 2; k++ {
		for _, tlsOn := range []bool{false, true} {
			add("tunnel-reset", nil)
			o := &out[len(out)-1]
			o.Proto, o.TLS, o.Seed = "http", tlsOn, int64(100+k)
		}
	}

	// 3. sampled pairs of mutations
	n := run.Pick(150, 30000)
	for i := 0; i < n; i++ {
		prog := []string{"play", "play", "record"}[r.Intn(3)]
		ms := methods[prog]
		var muts []mutation
		for j := 0; j < 2; j++ {
			c := catalogue(ms[r.Intn(len(ms))])
			mu := c[r.Intn(len(c))]
			mu.Nth = []int{0, 0, 1, -1}[r.Intn(4)]
			muts = append(muts, mu)
		}
		add(prog, muts)
	}
	_ = fmt.Sprint
	return out
}
