package main

import (
	"fmt"
	"strings"
	"sync"
	"time"

	"github.com/bluenviron/gortsplib/v5"
	"github.com/pion/rtp"

	"verif/lib/rig"
)

// Program "tunnel-reset": the peer is a real gortsplib server behind a TCP forwarder; the client
// plays through the HTTP (GET = connection 0, POST = connection 1) or WebSocket tunnel, plain or
// TLS, and the network resets one of its connections (se.Seed decides which one and in which
// direction) while the other stays up. Every API call must return, and after Close the client must
// have closed every connection it dialed - also the one that was not reset.
func runTunnelResetSession(se session) {
	emit("B", se.ID)
	defer emit("E", se.ID)
	ts, err := rig.StartServer(rig.ServerOpts{UDP: true, TLS: se.TLS, HandlerSet: "full", NoLog: true, IdleTimeout: 2 * time.Second})
	if err != nil {
		return
	}
	defer ts.Close()
	px, err := rig.StartProxy(ts.Addr())
	if err != nil {
		return
	}
	defer px.Close()
	scheme := "rtsp"
	if se.TLS {
		scheme = "rtsps"
	}
	tun := gortsplib.TunnelHTTP
	if se.Proto == "ws" {
		tun = gortsplib.TunnelWebSocket
	}
	dials := &rig.DialTracker{}
	pc, err := rig.NewPlayClient(ts, rig.ClientOpts{Name: fmt.Sprintf("c12-%d", se.ID), Proto: "tcp", Tunnel: tun, URLOverride: fmt.Sprintf("%s://%s/stream", scheme, px.Addr()),
		ReadTimeout: 2 * time.Second, WriteTimeout: 2 * time.Second, HeldEvery: 1000,
		Mutate: func(c *gortsplib.Client) { c.DialContext = dials.DialContext }})
	if err != nil {
		return
	}
	stop := make(chan struct{})
	var wg sync.WaitGroup
	wg.Add(1)
	go func() {
		defer wg.Done()
		m := ts.Stream.Desc.Medias[0]
		for k := 0; ; k++ {
			select {
			case <-stop:
				return
			case <-time.After(3 * time.Millisecond):
			}
			_ = ts.Stream.WritePacketRTP(m, &rtp.Packet{Header: rtp.Header{Version: 2, PayloadType: m.Formats[0].PayloadType(), SequenceNumber: uint16(k), Timestamp: uint32(k) * 3000, SSRC: 9}, Payload: []byte("tunnel-reset")})
		}
	}()
	defer func() { close(stop); wg.Wait() }()
	if se.Seed >= 100 {
		// variant "silent second connection": the forwarder accepts the POST connection of the HTTP
		// tunnel and then says nothing (over TLS: the handshake never completes); every call must
		// still return within its timeouts and Close must leave nothing behind
		px.SetHoldFrom(1)
		_, okS := call(se, "Start+Describe(silent-post)", pc.Start)
		_, okC := call(se, "Close", func() error { pc.Close(); return nil })
		if okS && okC {
			if left := dials.Unclosed(); len(left) > 0 {
				emit("V", vio{Key: "leak/socket/client-connection-never-closed", What: fmt.Sprintf("%s tunnel (tls=%v) whose second connection stays silent: Client.Close returned but the client never closed %d of the %d connection(s) it dialed", se.Proto, se.TLS, len(left), dials.Dialed()), Session: se})
			}
		}
		emit("D", fmt.Sprintf("tunnel-silent-post|%s|%v", se.Proto, se.TLS))
		emit("C", map[string]any{"n": "sessions:tunnel-silent-post/" + se.Proto, "v": 1})
		return
	}
	if err, ok := call(se, "Start+Describe+Setup+Play", pc.Start); !ok || err != nil {
		return
	}
	for k := 0; k < 300 && pc.Rd.Delivered() < 5; k++ {
		time.Sleep(5 * time.Millisecond)
	}
	idx := int(se.Seed % 2)
	if px.Count() < 2 {
		idx = 0
	}
	dir := "to-client"
	if (se.Seed/2)%2 == 0 {
		px.ResetDown(idx)
	} else {
		dir = "to-server"
		px.ResetUp(idx)
	}
	emit("C", map[string]any{"n": fmt.Sprintf("tunnel-reset:%s:%s:conn%d:tls=%v", se.Proto, dir, idx, se.TLS), "v": 1})
	// the client notices (read error / EOF) and ends by itself, or is closed by the application
	if se.Seed%3 != 0 {
		call(se, "Wait", func() error { _ = pc.C.Wait(); return nil })
	}
	_, okC := call(se, "Close", func() error { pc.Close(); return nil })
	if okC {
		emit("C", map[string]any{"n": "client-connections-dialed", "v": dials.Dialed()})
		if left := dials.Unclosed(); len(left) > 0 {
			emit("V", vio{Key: "leak/socket/client-connection-never-closed", What: fmt.Sprintf("%s tunnel (tls=%v), connection %d reset %s: Client.Close returned but the client never closed %d of the %d connection(s) it dialed (%s)",
				se.Proto, se.TLS, idx, dir, len(left), dials.Dialed(), strings.Join(left, ",")), Session: se})
		}
	}
	emit("D", fmt.Sprintf("tunnel-reset|%s|%v|%s|%d", se.Proto, se.TLS, dir, idx))
	emit("C", map[string]any{"n": "sessions:tunnel-reset/" + se.Proto, "v": 1})
}
