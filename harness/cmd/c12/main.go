// C12: the client survives hostile servers.
//
// A scripted server (script.go) plays a correct transcript with deviations against a real
// gortsplib.Client. Monitors: the client never panics (sessions run in a child process, each
// one logged before it starts); every API call returns within a generous watchdog and, for
// endless server behaviours, before the server has served its 20th repetition (a step bound);
// after Close no library goroutine and no socket remains; after a failure every further call
// returns promptly.
package main

import (
	"bufio"
	"encoding/json"
	"fmt"
	"math/rand"
	"os"
	"os/exec"
	"path/filepath"
	"runtime"
	"runtime/debug"
	"strings"
	"sync"
	"sync/atomic"
	"time"

	"github.com/bluenviron/gortsplib/v5"
	"github.com/bluenviron/gortsplib/v5/pkg/base"
	"github.com/bluenviron/gortsplib/v5/pkg/description"
	"github.com/bluenviron/gortsplib/v5/pkg/format"
	"github.com/pion/rtp"

	"verif/lib/rig"
	"verif/lib/vlib"
)

type session struct {
	ID      int        `json:"id"`
	Program string     `json:"program"` // play | record | options
	Proto   string     `json:"proto"`   // tcp | udp | auto | mcast
	TLS     bool       `json:"tls"`
	Creds   bool       `json:"credentials_in_url"`
	BackCh  bool       `json:"back_channels"`
	AnyPort bool       `json:"any_port"`
	Muts    []mutation `json:"mutations"`
	Seed    int64      `json:"seed"`
}

const (
	cliTimeout = 300 * time.Millisecond
	callBound  = 20 * time.Second // watchdog for one API call (script is finite, timeouts 0.3 s)
	stepBound  = 20               // endless behaviours: the call must return before this repetition
)

// ---- child side: run sessions, report through stdout -------------------------------------------

var outMu sync.Mutex

func emit(kind string, v any) {
	b, _ := json.Marshal(v)
	outMu.Lock()
	fmt.Printf("%s %s\n", kind, b)
	outMu.Unlock()
}

type vio struct {
	Key     string `json:"key"`
	What    string `json:"what"`
	Session any    `json:"session"`
	Extra   string `json:"extra,omitempty"`
}

var childCanary *rig.Canary

// call runs one API call under the watchdog.
func call(se session, name string, fn func() error) (error, bool) {
	done := make(chan error, 1)
	t0 := time.Now()
	go func() { done <- fn() }()
	select {
	case err := <-done:
		emit("C", map[string]any{"n": "api-calls:" + name, "v": 1})
		if err != nil {
			emit("C", map[string]any{"n": "api-errors:" + name, "v": 1})
		}
		return err, true
	case <-time.After(callBound):
		if childCanary.WorstSince(t0) > 250*time.Millisecond {
			emit("I", "call-watchdog-late-canary")
			select {
			case err := <-done:
				return err, true
			case <-time.After(callBound):
			}
		}
		buf := make([]byte, 1<<19)
		buf = buf[:runtime.Stack(buf, true)]
		emit("V", vio{Key: "call-does-not-return/" + name + "/" + mutKinds(se), What: fmt.Sprintf("Client.%s did not return within %v (session %d)", name, callBound, se.ID), Session: se, Extra: string(buf)})
		return fmt.Errorf("hung"), false
	}
}

func mutKinds(se session) string {
	var k []string
	for _, m := range se.Muts {
		k = append(k, m.Method+":"+m.Kind)
	}
	return strings.Join(k, "+")
}

func runSession(se session) {
	if se.Program == "tunnel-reset" {
		runTunnelResetSession(se)
		return
	}
	emit("B", se.ID)
	defer emit("E", se.ID)
	srv, err := startScript(se.TLS, se.Muts, se.Seed)
	if err != nil {
		return
	}
	srv.backCh = se.BackCh
	defer srv.close()
	path := "/stream"
	us := srv.url(path)
	if se.Creds {
		us = strings.Replace(us, "://", "://user:pa%3Ass@", 1)
	}
	u, err := base.ParseURL(us)
	if err != nil {
		return
	}
	ts := &rig.TestServer{Opts: rig.ServerOpts{ListenIP: "127.0.0.1", TLS: se.TLS}}
	fmt.Sscanf(srv.addr()[strings.LastIndex(srv.addr(), ":")+1:], "%d", &ts.Port)
	dials := &rig.DialTracker{}
	if se.Program == "record-stall" {
		dials.SendBuf = 8192
	}
	pc, err := rig.NewPlayClient(ts, rig.ClientOpts{Name: fmt.Sprintf("c12-%d", se.ID), Proto: se.Proto, ReadTimeout: cliTimeout, WriteTimeout: cliTimeout, URLOverride: us,
		Mutate: func(c *gortsplib.Client) {
			c.RequestBackChannels = se.BackCh
			c.AnyPortEnable = se.AnyPort
			c.InitialUDPReadTimeout = 400 * time.Millisecond
			c.DialContext = dials.DialContext
		}})
	if err != nil {
		return
	}
	c := pc.C
	c.OnResponse = nil
	var started, failed bool
	step := func(name string, fn func() error) bool {
		err, ok := call(se, name, fn)
		if !ok {
			failed = true
			return false
		}
		if err != nil {
			failed = true
			return false
		}
		return true
	}
	if step("Start", c.Start) {
		started = true
	}
	var desc *description.Session
	switch {
	case !started:
	case se.Program == "options":
		step("Options", func() error { _, e := c.Options(u); return e })
	case se.Program == "play":
		if !step("Describe", func() error { var e error; desc, _, e = c.Describe(u); return e }) {
			break
		}
		okSetup := true
		for _, m := range desc.Medias {
			m := m
			if !step("Setup", func() error { _, e := c.Setup(desc.BaseURL, m, 0, 0); return e }) {
				okSetup = false
				break
			}
		}
		if !okSetup {
			break
		}
		c.OnPacketRTPAny(func(*description.Media, format.Format, *rtp.Packet) {})
		if !step("Play", func() error { _, e := c.Play(nil); return e }) {
			break
		}
		time.Sleep(30 * time.Millisecond)
		if !step("Pause", func() error { _, e := c.Pause(); return e }) {
			break
		}
		step("Play", func() error { _, e := c.Play(nil); return e })
		time.Sleep(20 * time.Millisecond)
	case se.Program == "record" || se.Program == "record-stall":
		d := rig.MakeDesc([]int{1, 1})
		if !step("Announce", func() error { _, e := c.Announce(u, d); return e }) {
			break
		}
		okSetup := true
		for _, m := range d.Medias {
			m := m
			if !step("Setup", func() error { _, e := c.Setup(u, m, 0, 0); return e }) {
				okSetup = false
				break
			}
		}
		if !okSetup {
			break
		}
		if !step("Record", func() error { _, e := c.Record(); return e }) {
			break
		}
		r := rand.New(rand.NewSource(se.Seed))
		if se.Program == "record-stall" {
			// the server has stopped reading: write until the socket and the queue are full, then
			// PAUSE while the writer is blocked in a write (every call must still return)
			refused, streak := 0, 0
			payload := vlib.RandBytes(r, 1400)
			for i := 0; i < 20000 && streak < 30; i++ {
				pk := &rtp.Packet{Header: rtp.Header{Version: 2, PayloadType: 96, SequenceNumber: uint16(i), Timestamp: uint32(i) * 3000}, Payload: payload}
				if c.WritePacketRTP(d.Medias[0], pk) != nil {
					refused++
					streak++ // the queue stays full: the writer is blocked in a write
				} else {
					streak = 0
				}
			}
			emit("C", map[string]any{"n": "record-stall:writes-refused-queue-full", "v": refused})
			step("Pause", func() error {
				_, e := c.Pause()
				res := "ok"
				if e != nil {
					res = "error"
					for _, w := range []string{"i/o timeout", "timed out", "queue is full", "EOF", "reset", "closed"} {
						if strings.Contains(e.Error(), w) {
							res = w
							break
						}
					}
				}
				emit("C", map[string]any{"n": "record-stall:pause-result:" + res, "v": 1})
				return e
			})
			break
		}
		for i := 0; i < 5; i++ {
			pk := &rtp.Packet{Header: rtp.Header{Version: 2, PayloadType: 96, SequenceNumber: uint16(i), Timestamp: uint32(i) * 3000}, Payload: vlib.RandBytes(r, 100)}
			if !step("WritePacketRTP", func() error { return c.WritePacketRTP(d.Medias[0], pk) }) {
				break
			}
		}
		time.Sleep(20 * time.Millisecond)
	}
	// endless behaviours: the call must have returned before the step bound
	if n := srv.Repeats.Load(); n >= stepBound {
		kind := "other"
		for _, m := range se.Muts {
			if m.Kind == "redirect-loop" || m.Kind == "auth-loop" || m.Kind == "chatter" {
				kind = m.Method + ":" + m.Kind
			}
		}
		emit("V", vio{Key: "endless-server-behaviour-followed/" + kind, What: fmt.Sprintf("the client followed %d repetitions of an endless server behaviour before its call returned (bound %d)", n, stepBound), Session: se})
	}
	if started {
		if failed {
			// after a failure: every further call must return promptly (with an error or not)
			for _, nm := range []string{"Options", "Describe", "Play", "Pause", "Record"} {
				nm := nm
				_, ok := call(se, "after-failure:"+nm, func() error {
					switch nm {
					case "Options":
						_, e := c.Options(u)
						return e
					case "Describe":
						_, _, e := c.Describe(u)
						return e
					case "Play":
						_, e := c.Play(nil)
						return e
					case "Pause":
						_, e := c.Pause()
						return e
					default:
						_, e := c.Record()
						return e
					}
				})
				if !ok {
					break
				}
			}
		}
		_, okC := call(se, "Close", func() error { c.Close(); return nil })
		_, okW := call(se, "Wait", func() error { _ = c.Wait(); return nil })
		// Close has returned: the client must have closed every connection it dialed (observed
		// on the connection itself, so the verdict does not depend on finalizers)
		if okC && okW {
			emit("C", map[string]any{"n": "client-connections-dialed", "v": dials.Dialed()})
			if left := dials.Unclosed(); len(left) > 0 {
				emit("V", vio{Key: "leak/socket/client-connection-never-closed", What: fmt.Sprintf("Client.Close and Wait returned but the client never closed %d of the %d connection(s) it dialed (%v)", len(left), dials.Dialed(), left), Session: se})
			}
		}
	}
	emit("D", fmt.Sprintf("%s|%s|%v|%v|%v|%s", se.Program, se.Proto, se.TLS, se.Creds, se.BackCh, mutKinds(se)))
	if se.ID%97 == 3 && len(se.Muts) > 0 {
		emit("S", map[string]any{"session": se, "api_call_failed": failed, "server_requests": srv.Requests.Load()})
	}
	emit("C", map[string]any{"n": "sessions:" + se.Program + "/" + se.Proto, "v": 1})
	emit("C", map[string]any{"n": "server-requests-served", "v": srv.Requests.Load()})
	for _, m := range se.Muts {
		emit("C", map[string]any{"n": "mutation:" + m.Kind, "v": 1})
	}
}

func runChild(path string) {
	childCanary = rig.StartCanary()
	b, err := os.ReadFile(path)
	if err != nil {
		os.Exit(3)
	}
	var ses []session
	if err := json.Unmarshal(b, &ses); err != nil {
		os.Exit(3)
	}
	rig.ServerCert()
	base0 := rig.Sockets()
	const batch = 16
	for i := 0; i < len(ses); i += batch {
		j := i + batch
		if j > len(ses) {
			j = len(ses)
		}
		// no garbage collection during a batch and its census: an unreachable socket would be closed
		// by its finalizer, which hides exactly the leak the census looks for
		gcOld := debug.SetGCPercent(-1)
		var wg sync.WaitGroup
		for _, se := range ses[i:j] {
			wg.Add(1)
			go func(se session) {
				defer wg.Done()
				runSession(se)
			}(se)
		}
		wg.Wait()
		// quiescent point: nothing of the closed clients may remain
		g := rig.WaitLibGoroutines(0, 8*time.Second)
		if len(g) > 0 {
			fn := g[0]
			if k := strings.Index(fn, " <- "); k > 0 {
				fn = fn[:k]
			}
			emit("V", vio{Key: "leak/goroutine/" + fn, What: fmt.Sprintf("%d library goroutine(s) alive 8 s after all clients of a batch were closed: %v", len(g), g), Session: ses[i:j]})
			emit("X", "abort")
			os.Exit(0)
		}
		if n := rig.WaitSockets(base0, 5*time.Second); n > base0 {
			emit("V", vio{Key: "leak/socket", What: fmt.Sprintf("%d socket(s) still open after all clients and scripted servers of a batch were closed", n-base0), Session: ses[i:j]})
			emit("X", "abort")
			os.Exit(0)
		}
		emit("C", map[string]any{"n": "censuses-clean", "v": 1})
		debug.SetGCPercent(gcOld)
		runtime.GC()
	}
	os.Exit(0)
}

// ---- parent side ---------------------------------------------------------------------------------

var (
	run   *vlib.Run
	evals atomic.Int64
)

func runBatchInChild(ses []session, depth int) {
	if len(ses) == 0 {
		return
	}
	dir := filepath.Join(run.Root, ".logs")
	_ = os.MkdirAll(dir, 0o755)
	in := filepath.Join(dir, fmt.Sprintf("C12.sessions.%d.%d.json", os.Getpid(), time.Now().UnixNano()))
	b, _ := json.Marshal(ses)
	_ = os.WriteFile(in, b, 0o644)
	defer os.Remove(in)
	cmd := exec.Command(os.Args[0])
	cmd.Env = append(os.Environ(), "VERIF_C12_CHILD="+in)
	out, _ := cmd.StdoutPipe()
	errPath := in + ".stderr"
	ef, _ := os.Create(errPath)
	cmd.Stderr = ef
	if err := cmd.Start(); err != nil {
		run.Fatal("cannot start child: %v", err)
	}
	inflight := map[int]bool{}
	done := map[int]bool{}
	aborted := false
	sc := bufio.NewScanner(out)
	sc.Buffer(make([]byte, 1<<20), 1<<25)
	for sc.Scan() {
		ln := sc.Text()
		if len(ln) < 3 {
			continue
		}
		kind, payload := ln[:1], ln[2:]
		switch kind {
		case "B":
			var id int
			json.Unmarshal([]byte(payload), &id)
			inflight[id] = true
		case "E":
			var id int
			json.Unmarshal([]byte(payload), &id)
			delete(inflight, id)
			done[id] = true
			evals.Add(1)
		case "V":
			var v vio
			json.Unmarshal([]byte(payload), &v)
			run.Violation(v.Key, v.What, map[string]any{"sessions": v.Session, "extra": v.Extra})
		case "C":
			var c struct {
				N string `json:"n"`
				V int64  `json:"v"`
			}
			json.Unmarshal([]byte(payload), &c)
			run.Count(c.N, c.V)
		case "D":
			var s string
			json.Unmarshal([]byte(payload), &s)
			run.Distinct(s)
		case "S":
			var v any
			json.Unmarshal([]byte(payload), &v)
			run.Sample(v)
		case "I":
			run.Inconclusive("child")
		case "X":
			aborted = true
		}
	}
	err := cmd.Wait()
	ef.Close()
	if err != nil && !aborted {
		// the child died: the in-flight sessions are the suspects
		eb, _ := os.ReadFile(errPath)
		site, first := deathSite(string(eb))
		var suspects []session
		for _, se := range ses {
			if inflight[se.ID] {
				suspects = append(suspects, se)
			}
		}
		if len(suspects) > 1 && depth < 6 {
			// narrow down: re-run the suspects one by one
			for _, se := range suspects {
				runBatchInChild([]session{se}, depth+10)
			}
		} else {
			kinds := "unknown"
			if len(suspects) > 0 {
				kinds = mutKinds(suspects[0])
			}
			run.Violation("client-death/"+site, fmt.Sprintf("the client process died (mutations %s): %s", kinds, first), map[string]any{"sessions": suspects, "stderr": tail(string(eb), 5000)})
		}
		// continue with the sessions that had not started
		var rest []session
		for _, se := range ses {
			if !done[se.ID] && !inflight[se.ID] {
				rest = append(rest, se)
			}
		}
		if depth < 6 {
			runBatchInChild(rest, depth+1)
		}
	}
	os.Remove(errPath)
}

func tail(s string, n int) string {
	if len(s) > n {
		return s[:n]
	}
	return s
}

func deathSite(stderr string) (string, string) {
	lines := strings.Split(stderr, "\n")
	start := -1
	for i, l := range lines {
		if strings.HasPrefix(l, "panic:") || strings.HasPrefix(l, "fatal error:") {
			start = i
			break
		}
	}
	if start < 0 {
		return "unknown", "no panic line in the child's stderr"
	}
	for _, l := range lines[start:] {
		if strings.HasPrefix(l, "github.com/bluenviron/gortsplib") {
			s := l
			if i := strings.LastIndex(s, "("); i > 0 {
				s = s[:i]
			}
			return strings.TrimPrefix(strings.TrimPrefix(s, "github.com/bluenviron/gortsplib/v5/"), "github.com/bluenviron/gortsplib/v5."), lines[start]
		}
	}
	return "unknown", lines[start]
}

func main() {
	if p := os.Getenv("VERIF_C12_CHILD"); p != "" {
		runChild(p)
		return
	}
	run = vlib.Start("C12", "exploration")
	var ses []session
	if run.Replay != "" {
		var w struct {
			Sessions json.RawMessage `json:"sessions"`
		}
		if err := run.LoadReplay(&w); err != nil {
			run.Fatal("replay: %v", err)
		}
		var many []session
		var one session
		if json.Unmarshal(w.Sessions, &many) != nil {
			if json.Unmarshal(w.Sessions, &one) != nil {
				run.Fatal("replay: no sessions in witness")
			}
			many = []session{one}
		}
		for k := 0; k < 3; k++ {
			for _, se := range many {
				se.ID = len(ses)
				ses = append(ses, se)
			}
		}
	} else {
		ses = generate()
	}
	// several children in parallel, each running batches of 16 sessions
	const perChild = 160
	var wg sync.WaitGroup
	sem := make(chan struct{}, 4)
	for i := 0; i < len(ses); i += perChild {
		j := i + perChild
		if j > len(ses) {
			j = len(ses)
		}
		wg.Add(1)
		sem <- struct{}{}
		go func(part []session) {
			defer wg.Done()
			defer func() { <-sem }()
			runBatchInChild(part, 0)
		}(ses[i:j])
	}
	wg.Wait()
	run.ReportRaces()
	run.Assume("API calls are bounded by a 20 s watchdog (client timeouts 0.3 s, finite scripts); endless server behaviours (redirect / 401 chains) by a step bound of 20 repetitions")
	run.Finish(evals.Load(), "scripted sessions = client program {play, record, options} x transport option {tcp, udp, auto} x {plain, TLS} x {credentials in URL, back channels, any-port} x 0..2 response mutations (status, CSeq, headers, SDP / control attributes, Transport, Session, redirects, 401, injected frames / requests, delay, silence, close, truncation, garbage) applied to a chosen request; distinct_nontrivial = distinct (program, options, mutation kinds) combinations completed")
}
