package main

import (
	"bufio"
	"bytes"
	"fmt"
	"io"
	"math/rand"
	"net"
	"strings"
	"sync"
	"time"

	"github.com/bluenviron/gortsplib/v5"
	"github.com/bluenviron/gortsplib/v5/pkg/base"
	"github.com/bluenviron/gortsplib/v5/pkg/conn"
	"github.com/bluenviron/gortsplib/v5/pkg/description"
	"github.com/bluenviron/gortsplib/v5/pkg/headers"
	"github.com/bluenviron/gortsplib/v5/pkg/sdpunmarshaler"
	"github.com/pion/rtp"

	"verif/lib/rig"
)

// ---- part 2a: control-attribute styles, real Client against a scripted server ---------------------

type styleCase struct {
	Kind     string `json:"kind"` // "style"
	UserInfo string `json:"userinfo"`
	Path     string `json:"path"` // request URL
	Query    string `json:"query"`
	HasQ     bool   `json:"has_q"`
	// where the base URL comes from:
	// cb-slash | cb-noslash (Content-Base header, with / without trailing slash) | none (request
	// URL) | sdp-control-slash | sdp-control-noslash (session-level a=control, no Content-Base) |
	// sdp-star+cb (session-level a=control:* and Content-Base with slash)
	Base      string   `json:"base_kind"`
	BasePath  string   `json:"base_path"`
	BaseQuery string   `json:"base_query"`
	BaseHasQ  bool     `json:"base_has_q"`
	Ctl       string   `json:"control_style"` // relative | absolute | absolute-otherhost | leading-qmark | leading-slash | missing
	Controls  []string `json:"controls"`      // per media; {HP} stands for host:port of the scripted server
	URL       string   `json:"url,omitempty"`
	Step      string   `json:"step,omitempty"`
}

func genStyleCase(r *rand.Rand) styleCase {
	sc := styleCase{Kind: "style", UserInfo: genUserInfo(r), Path: genPath(r)}
	sc.Query, sc.HasQ = genQuery(r)
	sc.Base = []string{"cb-slash", "cb-slash", "cb-noslash", "none", "sdp-control-slash", "sdp-control-noslash", "sdp-star+cb"}[r.Intn(7)]
	sc.Ctl = []string{"relative", "relative", "absolute", "absolute-otherhost", "leading-qmark", "leading-slash", "missing"}[r.Intn(7)]
	sc.BasePath, sc.BaseQuery, sc.BaseHasQ = sc.Path, sc.Query, sc.HasQ
	if sc.Base != "none" && r.Intn(3) == 0 {
		// cameras often announce a base that is not the request URL
		sc.BasePath = genPath(r)
		sc.BaseQuery, sc.BaseHasQ = genQuery(r)
	}
	if sc.Ctl == "leading-qmark" || sc.Ctl == "leading-slash" {
		// with a query in the base there is no agreed meaning for these styles: not generated
		sc.BaseQuery, sc.BaseHasQ = "", false
		if sc.Base == "none" {
			sc.Query, sc.HasQ = "", false
		}
	}
	n := 1 + r.Intn(4)
	if sc.Ctl == "missing" {
		n = 1
	}
	for i := 0; i < n; i++ {
		var ctl string
		switch sc.Ctl {
		case "relative":
			ctl = []string{"trackID=%d", "track%d", "stream=%d", "streamid=%d", "trackID=%d"}[r.Intn(5)]
			ctl = fmt.Sprintf(ctl, i)
			if r.Intn(6) == 0 {
				ctl = genSegment(r, false) + fmt.Sprint(i) // any relative segment, with escapes
			}
		case "absolute", "absolute-otherhost":
			hp := "{HP}"
			if sc.Ctl == "absolute-otherhost" {
				hp = "192.168.1.77:554"
			}
			ctl = "rtsp://" + hp + genPath(r) + fmt.Sprintf("/trackID=%d", i)
			if r.Intn(3) == 0 {
				q, has := genQuery(r)
				if has {
					ctl += "?" + q
				}
			}
		case "leading-qmark":
			ctl = fmt.Sprintf("?ctype=%s&n=%d", []string{"video", "audio", "meta"}[r.Intn(3)], i)
		case "leading-slash":
			ctl = fmt.Sprintf("/%s/trackID=%d", genSegment(r, false), i)
			if r.Intn(2) == 0 {
				ctl = fmt.Sprintf("/trackID=%d", i)
			}
		case "missing":
			ctl = ""
		}
		sc.Controls = append(sc.Controls, ctl)
	}
	return sc
}

// baseString is the base URL the statement names for the case (RFC 2326 C.1.1: Content-Base,
// else the request URL; a session-level absolute a=control is the aggregate URL all clients use
// as base - generated only without a competing Content-Base).
func (sc styleCase) baseString(hp string) string {
	b := "rtsp://" + hp + withQ(sc.BasePath, sc.BaseQuery, sc.BaseHasQ)
	switch sc.Base {
	case "cb-slash", "sdp-control-slash", "sdp-star+cb":
		b += "/"
	}
	return b
}

// rfc1808 resolves rel against base strictly (no dot segments occur in generated controls).
func rfc1808(baseS, rel string) string {
	sch, auth, path, _, _ := splitURL(baseS)
	switch {
	case strings.HasPrefix(rel, "?"):
		return sch + "://" + auth + path + rel
	case strings.HasPrefix(rel, "/"):
		return sch + "://" + auth + rel
	}
	i := strings.LastIndex(path, "/")
	return sch + "://" + auth + path[:i+1] + rel
}

// accepted returns the SETUP URLs the statement allows for media i. Relative controls: the
// de-facto rule shared by the library's documentation/tests, FFmpeg and live555 - append to the
// base, inserting '/' unless the base ends with one or the control starts with '/' or '?' - and,
// where it differs, the strict RFC 1808 result as well (never asked for more than one of them).
func (sc styleCase) accepted(hp string, i int) (primary string, also []string) {
	baseS := sc.baseString(hp)
	ctl := strings.ReplaceAll(sc.Controls[i], "{HP}", hp)
	switch sc.Ctl {
	case "missing":
		return baseS, nil
	case "absolute":
		return ctl, nil
	case "absolute-otherhost":
		// the library documents that it keeps talking to the host of the base URL
		_, _, p, q, has := splitURL(ctl)
		return ctl, []string{"rtsp://" + hp + withQ(p, q, has)}
	}
	sep := "/"
	if strings.HasSuffix(baseS, "/") || ctl[0] == '/' || ctl[0] == '?' {
		sep = ""
	}
	primary = baseS + sep + ctl
	if s := rfc1808(baseS, ctl); s != primary {
		also = append(also, s)
	}
	return primary, also
}

// normURL is the level at which request URLs are compared: the library's own API identifies a
// path by its decoded form (a client that re-spells an escape without changing the decoded path
// is not a finding); queries are compared after RFC 3986 section 6.2.2 normalisation.
func normURL(s string) string {
	sch, auth, p, q, has := splitURL(s)
	out := sch + "://" + auth + pctDecode(p)
	if has {
		out += "?" + normURLPart(q)
	}
	return out
}

// spelling is RFC 3986 normalisation of path and query (escaped reserved characters stay escaped).
func spelling(s string) string {
	sch, auth, p, q, has := splitURL(s)
	return sch + "://" + auth + withQ(normURLPart(p), normURLPart(q), has)
}

func (sc styleCase) sdp(hp string) []byte {
	var b bytes.Buffer
	b.WriteString("v=0\r\no=- 0 0 IN IP4 127.0.0.1\r\ns=Stream\r\nc=IN IP4 0.0.0.0\r\nt=0 0\r\n")
	switch sc.Base {
	case "sdp-control-slash", "sdp-control-noslash":
		b.WriteString("a=control:" + sc.baseString(hp) + "\r\n")
	case "sdp-star+cb":
		b.WriteString("a=control:*\r\n")
	}
	for i, ctl := range sc.Controls {
		typ := []string{"video", "audio", "application", "application"}[i]
		fmt.Fprintf(&b, "m=%s 0 RTP/AVP %d\r\n", typ, 96+i)
		if sc.Ctl != "missing" {
			b.WriteString("a=control:" + strings.ReplaceAll(ctl, "{HP}", hp) + "\r\n")
		}
		fmt.Fprintf(&b, "a=rtpmap:%d private/90000\r\n", 96+i)
	}
	return b.Bytes()
}

// scripted serves one connection the way a camera would and keeps the raw bytes it received.
func scripted(nc net.Conn, sc styleCase, hp string, raw *bytes.Buffer, mu *sync.Mutex) {
	defer nc.Close()
	tee := io.TeeReader(nc, writerFunc(func(p []byte) (int, error) {
		mu.Lock()
		raw.Write(p)
		mu.Unlock()
		return len(p), nil
	}))
	c := conn.NewConn(bufio.NewReader(tee), nc)
	for {
		_ = nc.SetReadDeadline(time.Now().Add(10 * time.Second))
		req, err := c.ReadRequest()
		if err != nil {
			return
		}
		res := &base.Response{StatusCode: base.StatusOK, Header: base.Header{"CSeq": req.Header["CSeq"]}}
		switch req.Method {
		case base.Options:
			res.Header["Public"] = base.HeaderValue{"DESCRIBE, SETUP, PLAY, TEARDOWN"}
		case base.Describe:
			res.Header["Content-Type"] = base.HeaderValue{"application/sdp"}
			switch sc.Base {
			case "cb-slash", "cb-noslash", "sdp-star+cb":
				res.Header["Content-Base"] = base.HeaderValue{sc.baseString(hp)}
			}
			res.Body = sc.sdp(hp)
		case base.Setup:
			var ths headers.Transports
			if ths.Unmarshal(req.Header["Transport"]) != nil || len(ths) == 0 {
				res.StatusCode = base.StatusBadRequest
				break
			}
			d := headers.TransportDeliveryUnicast
			res.Header["Transport"] = headers.Transport{Protocol: headers.TransportProtocolTCP, Delivery: &d, InterleavedIDs: ths[0].InterleavedIDs}.Marshal()
			res.Header["Session"] = base.HeaderValue{"8675309"}
		case base.Teardown:
			_ = c.WriteResponse(res)
			return
		}
		if c.WriteResponse(res) != nil {
			return
		}
	}
}

type writerFunc func([]byte) (int, error)

func (f writerFunc) Write(p []byte) (int, error) { return f(p) }

func runStyle(sc styleCase, r *rand.Rand) ([]finding, caseStats) {
	var fs []finding
	var st caseStats
	style := sc.Ctl + "+" + sc.Base
	add := func(key, what, step string) { fs = append(fs, finding{Key: key, What: what, Step: step}) }

	ln, err := net.Listen("tcp", "127.0.0.1:0")
	if err != nil {
		run.Fatal("style listener: %v", err)
	}
	defer ln.Close()
	hp := ln.Addr().String()
	var raw bytes.Buffer
	var mu sync.Mutex
	done := make(chan struct{})
	go func() {
		defer close(done)
		nc, err := ln.Accept()
		if err != nil {
			return
		}
		scripted(nc, sc, hp, &raw, &mu)
	}()

	us := "rtsp://"
	if sc.UserInfo != "" {
		us += sc.UserInfo + "@"
	}
	us += hp + withQ(sc.Path, sc.Query, sc.HasQ)
	inClass := atSignClass(us, sc.baseString(hp))
	for i := range sc.Controls {
		p, also := sc.accepted(hp, i)
		inClass = inClass || atSignClass(append(also, p)...)
	}
	u, err := base.ParseURL(us)
	if err != nil {
		add("url-rejected-by-ParseURL", err.Error(), "parse")
		return fs, st
	}
	cl := &gortsplib.Client{Scheme: u.Scheme, Host: u.Host, Protocol: protoOf("tcp"), ReadTimeout: 8 * time.Second, WriteTimeout: 8 * time.Second}
	if err := cl.Start(); err != nil {
		run.Fatal("style client: %v", err)
	}
	order := r.Perm(len(sc.Controls))
	desc, _, err := cl.Describe(u)
	if err != nil {
		add("control-style/"+style+"/describe-failed", fmt.Sprintf("DESCRIBE failed: %v", err), "describe")
	} else if len(desc.Medias) != len(sc.Controls) {
		add("control-style/"+style+"/media-count-differs", fmt.Sprintf("%d medias parsed, %d described", len(desc.Medias), len(sc.Controls)), "describe")
	} else {
		for _, i := range order {
			if _, err := cl.Setup(desc.BaseURL, desc.Medias[i], 0, 0); err != nil {
				add("control-style/"+style+"/setup-failed", fmt.Sprintf("SETUP of media %d (a=control:%s) failed: %v", i, sc.Controls[i], err), "setup")
				order = order[:0]
				break
			}
		}
	}
	cl.Close()
	ln.Close()
	<-done

	mu.Lock()
	lines, _ := requestLines(raw.Bytes())
	mu.Unlock()
	k := 0
	for _, l := range lines {
		st.requestLines++
		if why := leakIn(l); why != "" {
			add("request-line/credentials-leaked", fmt.Sprintf("%s: request line %q", why, l), "request")
		}
		p := strings.SplitN(l, " ", 3)
		if len(p) != 3 || p[0] != "SETUP" || k >= len(order) {
			continue
		}
		i := order[k]
		k++
		primary, also := sc.accepted(hp, i)
		got := normURL(p[1])
		st.attributions++
		switch {
		case got == normURL(primary):
			run.Count("control-style-resolution:append-to-base", 1)
			if spelling(p[1]) != spelling(primary) {
				run.Count("control-style:escapes-respelled-same-decoded-path", 1)
			}
		case len(also) > 0 && got == normURL(also[0]):
			run.Count("control-style-resolution:alternative("+sc.Ctl+")", 1)
		default:
			add("control-style/"+style+"/setup-url-differs",
				fmt.Sprintf("base %q (%s), a=control:%s : SETUP request URL is %q, expected %q%s", sc.baseString(hp), sc.Base, strings.ReplaceAll(sc.Controls[i], "{HP}", hp), p[1], primary,
					map[bool]string{true: " or " + strings.Join(also, " or "), false: ""}[len(also) > 0]), "setup")
		}
		if len(also) > 0 && sc.Ctl != "absolute-otherhost" {
			run.Count("control-style:rfc1808-strict-differs-from-append("+sc.Ctl+"+"+sc.Base+")", 1)
		}
	}
	return renameAtSign(fs, "control-style", inClass), st
}

// ---- part 2b: Media.URL(base) fed into a real ServerSession resolves back (server's own style) ----

type inverseCase struct {
	Kind  string  `json:"kind"` // "inverse"
	U     urlCase `json:"url_case"`
	Media int     `json:"media"`
}

func rawRequest(p *rig.Peer, method, url string, hdr map[string]string) error {
	var b strings.Builder
	fmt.Fprintf(&b, "%s %s RTSP/1.0\r\nCSeq: %d\r\nX-Verif: %s\r\n", method, url, p.NextCSeq(), p.Tag)
	for k, v := range hdr {
		fmt.Fprintf(&b, "%s: %s\r\n", k, v)
	}
	b.WriteString("\r\n")
	return p.WriteRaw([]byte(b.String()))
}

func (w *worker) runInverse(ic inverseCase, r *rand.Rand) ([]finding, caseStats) {
	var fs []finding
	var st caseStats
	c := ic.U
	c.Mode = "inverse"
	c.Order = []int{ic.Media}
	add := func(key, what, step string) { fs = append(fs, finding{Key: key, What: what, Step: step}) }
	co := w.register(c.Medias)
	defer w.unregister(co)
	cls := "other"

	p, err := rig.Dial(hostPort(c.Auth, w.ts.Port), nil, "")
	if err != nil {
		run.Fatal("inverse dial: %v", err)
	}
	defer p.Close()
	p.Tag = co.tag
	do := func(method, url string, hdr map[string]string) (*base.Response, bool) {
		if err := rawRequest(p, method, url, hdr); err != nil {
			add("inverse/"+strings.ToLower(method)+"-refused/"+cls, err.Error(), strings.ToLower(method))
			return nil, false
		}
		res, err := p.ReadResponse(8 * time.Second)
		if err != nil {
			add("inverse/"+strings.ToLower(method)+"-refused/"+cls, fmt.Sprintf("%s %s: %v", method, url, err), strings.ToLower(method))
			return nil, false
		}
		if res.StatusCode != base.StatusOK {
			add("inverse/"+strings.ToLower(method)+"-refused/"+cls, fmt.Sprintf("%s %s: status %d", method, url, res.StatusCode), strings.ToLower(method))
			return nil, false
		}
		return res, true
	}
	finish := func() ([]finding, caseStats) {
		hs, _ := co.snapshot()
		c.compare(hs, &st, add)
		return renameAtSign(fs, "inverse", atSignClass(c.build(1))), st
	}

	// the URL without credentials, spelled as given
	c.UserInfo = ""
	us := c.build(w.ts.Port)
	c.URL = us
	res, ok := do("DESCRIBE", us, nil)
	if !ok {
		return finish()
	}
	cb := res.Header["Content-Base"]
	if len(cb) != 1 {
		add("inverse/describe/no-content-base", "DESCRIBE response without Content-Base", "describe")
		return finish()
	}
	baseURL, err := base.ParseURL(cb[0])
	if err != nil {
		add("inverse/describe/content-base-unparsable/"+cls, fmt.Sprintf("Content-Base %q: %v", cb[0], err), "describe")
		return finish()
	}
	ssd, err := sdpunmarshaler.Unmarshal(res.Body)
	var d description.Session
	if err == nil {
		err = d.Unmarshal2(ssd)
	}
	if err != nil || len(d.Medias) != c.Medias {
		add("inverse/describe/sdp", fmt.Sprintf("SDP: %v (%d medias)", err, len(d.Medias)), "describe")
		return finish()
	}
	// client side of the pair: description.Media.URL
	mu, err := d.Medias[ic.Media].URL(baseURL)
	if err != nil || mu == nil {
		add("inverse/media-url-failed/"+cls, fmt.Sprintf("Media.URL(%q) with control %q: %v", cb[0], d.Medias[ic.Media].Control, err), "setup")
		return finish()
	}
	// the server's own style must mean the same URL to a client that resolves the control
	// attribute strictly by RFC 2326 C.1.1 / RFC 1808 (decidable for URLs without a query: with
	// one, the FFmpeg layout "query/trackID=n" has no RFC reading)
	if !c.HasQ {
		st.attributions++
		if strict := rfc1808(cb[0], d.Medias[ic.Media].Control); normURL(strict) != normURL(mu.String()) {
			add("inverse/content-base/rfc1808-resolution-differs", fmt.Sprintf("Content-Base %q + a=control:%s is %q by RFC 1808, the library client requests %q",
				cb[0], d.Medias[ic.Media].Control, strict, mu.String()), "describe")
		}
	}
	// server side of the pair: a real ServerSession SETUP
	res, ok = do("SETUP", mu.String(), map[string]string{"Transport": "RTP/AVP/TCP;unicast;interleaved=0-1"})
	if !ok {
		return finish()
	}
	sess := ""
	if v := res.Header["Session"]; len(v) == 1 {
		sess = strings.SplitN(v[0], ";", 2)[0]
	}
	if _, ok = do("PLAY", cb[0], map[string]string{"Session": sess}); !ok {
		return finish()
	}
	// one packet to every media, the chosen one last: only that one may arrive on channel 0
	runID := uint32(r.Int31())
	stream, sdesc := co.stream, co.desc
	order := []int{}
	for i := 0; i < c.Medias; i++ {
		if i != ic.Media {
			order = append(order, i)
		}
	}
	order = append(order, ic.Media)
	for k, i := range order {
		pl := rig.BuildPayload(rig.PacketID{Run: runID, Dir: 2, Media: uint8(i), PT: 96, Ctr: uint64(k)}, rig.MinPayload+r.Intn(30), r)
		_ = stream.WritePacketRTP(sdesc.Medias[i], &rtp.Packet{Header: rtp.Header{Version: 2, PayloadType: 96, SequenceNumber: uint16(100 + k), Timestamp: uint32(k) * 90, SSRC: 1}, Payload: pl})
	}
	deadline := time.Now().Add(6 * time.Second)
	got := false
	for !got && time.Now().Before(deadline) {
		v, err := p.ReadAny(time.Until(deadline))
		if err != nil {
			break
		}
		fr, ok := v.(*base.InterleavedFrame)
		if !ok || fr.Channel != 0 {
			continue
		}
		var pkt rtp.Packet
		if pkt.Unmarshal(fr.Payload) != nil {
			continue
		}
		id, ok := rig.ParsePayload(pkt.Payload)
		if !ok || id.Run != runID {
			continue
		}
		st.attributions++
		if int(id.Media) != ic.Media {
			add("inverse/setup/wrong-media", fmt.Sprintf("SETUP %s (Media.URL of media %d) configured media %d", mu.String(), ic.Media, id.Media), "setup")
			return finish()
		}
		got = true
	}
	if !got {
		fs = append(fs, finding{Key: "inverse/setup/media-unreached", Step: "setup", Timing: true,
			What: fmt.Sprintf("SETUP %s (Media.URL of media %d): the packet written to that media never arrived on the interleaved channel", mu.String(), ic.Media)})
	}
	_ = rawRequest(p, "TEARDOWN", cb[0], map[string]string{"Session": sess})
	return finish()
}
