package main

import (
	"fmt"
	"math/rand"
	"net"
	"strings"
	"sync"
	"sync/atomic"
	"time"

	"github.com/bluenviron/gortsplib/v5"
	"github.com/bluenviron/gortsplib/v5/pkg/base"
	"github.com/bluenviron/gortsplib/v5/pkg/description"
	"github.com/bluenviron/gortsplib/v5/pkg/format"
	"github.com/bluenviron/gortsplib/v5/pkg/headers"
	"github.com/pion/rtp"

	"verif/lib/rig"
)

// ---- part 1: real Client against real Server ----------------------------------------------------

// obs is what one handler call observed.
type obs struct {
	Kind, Path, Query   string
	SessPath, SessQuery string // ServerSession.Path()/Query() at PLAY / RECORD time
	Medias              []int  // ServerSession.Medias() as indexes into the description (PLAY / RECORD)
	HasMedias           bool
}

type recPkt struct {
	LibMedia int // media the server session attributed the packet to
	ID       rig.PacketID
	Parsed   bool
}

// caseObs collects everything observed for one case (one client); filled from library
// callbacks, so every access goes through mu.
type caseObs struct {
	tag     string
	nMedias int
	off     int // medias of the stream that precede the described ones (a back channel in front)
	tap     wireTap
	stream  *gortsplib.ServerStream // the stream "published at" the case's URL (own one per case)
	desc    *description.Session

	mu      sync.Mutex
	handler []obs
	recPkts []recPkt
}

func (co *caseObs) snapshot() ([]obs, []recPkt) {
	co.mu.Lock()
	defer co.mu.Unlock()
	return append([]obs(nil), co.handler...), append([]recPkt(nil), co.recPkts...)
}

func (co *caseObs) sawKind(kind string) bool {
	co.mu.Lock()
	defer co.mu.Unlock()
	for _, o := range co.handler {
		if o.Kind == kind {
			return true
		}
	}
	return false
}

// worker owns one TestServer; cases run on it one after the other (keep-alive cases: a few at a
// time). Observations are routed to the case by the client's User-Agent tag.
type worker struct {
	ts *rig.TestServer

	mu     sync.Mutex
	byTag  map[string]*caseObs
	byConn map[*gortsplib.ServerConn]*caseObs
	bySess map[*gortsplib.ServerSession]*caseObs
}

// sameDesc builds n medias that all use payload type 96: a packet that reaches the wrong media
// is then still delivered and shows up as a wrong attribution instead of vanishing as
// "unknown payload type".
func sameDesc(n int) *description.Session {
	d := &description.Session{}
	types := []description.MediaType{description.MediaTypeVideo, description.MediaTypeAudio, description.MediaTypeApplication, description.MediaTypeApplication}
	for i := 0; i < n; i++ {
		f := &format.Generic{PayloadTyp: 96, RTPMa: "private/90000"}
		_ = f.Init()
		d.Medias = append(d.Medias, &description.Media{Type: types[i], Formats: []format.Format{f}})
	}
	return d
}

func indexOf(ms []*description.Media, m *description.Media) int {
	for i, x := range ms {
		if x == m {
			return i
		}
	}
	return -1
}

func (w *worker) onEvent(e rig.Event) {
	switch e.Kind {
	case "request":
		if e.Tag == "" || e.Conn == nil {
			return
		}
		w.mu.Lock()
		if co := w.byTag[e.Tag]; co != nil {
			w.byConn[e.Conn] = co
		}
		w.mu.Unlock()
	case "conn-close":
		w.mu.Lock()
		delete(w.byConn, e.Conn)
		w.mu.Unlock()
	case "session-close":
		w.mu.Lock()
		delete(w.bySess, e.Sess)
		w.mu.Unlock()
	case "describe", "announce", "setup", "play", "record", "pause", "getparam":
		w.mu.Lock()
		co := w.byConn[e.Conn]
		if co != nil && e.Sess != nil {
			w.bySess[e.Sess] = co
		}
		w.mu.Unlock()
		if co == nil {
			return
		}
		o := obs{Kind: e.Kind, Path: e.Path, Query: e.Query}
		if e.Kind == "play" || e.Kind == "record" {
			o.SessPath, o.SessQuery = e.Sess.Path(), e.Sess.Query()
			ref := co.desc.Medias[co.off:]
			if e.Kind == "record" {
				ref = nil
				if ad := e.Sess.AnnouncedDescription(); ad != nil {
					ref = ad.Medias
				}
			}
			o.HasMedias = true
			for _, m := range e.Sess.Medias() {
				o.Medias = append(o.Medias, indexOf(ref, m))
			}
		}
		co.mu.Lock()
		co.handler = append(co.handler, o)
		co.mu.Unlock()
	}
}

func (w *worker) caseOfConn(c *gortsplib.ServerConn) *caseObs {
	w.mu.Lock()
	defer w.mu.Unlock()
	return w.byConn[c]
}

// newWorker starts a server on a free port, or on the default RTSP port 554 (for URLs without a
// port) when defaultPort is set.
func newWorker(listenIP string, idle time.Duration, defaultPort bool) (*worker, error) {
	w := &worker{byTag: map[string]*caseObs{}, byConn: map[*gortsplib.ServerConn]*caseObs{}, bySess: map[*gortsplib.ServerSession]*caseObs{}}
	o := rig.ServerOpts{UDP: true, HandlerSet: "full", NoLog: true, NoStream: true, OnEvent: w.onEvent, ListenIP: listenIP, IdleTimeout: idle}
	if defaultPort {
		o.Mutate = func(s *gortsplib.Server) {
			s.RTSPAddress = s.RTSPAddress[:strings.LastIndex(s.RTSPAddress, ":")] + ":554"
		}
	}
	ts, err := rig.StartServer(o)
	if err != nil {
		return nil, err
	}
	w.ts = ts
	// the server publishes "the stream" at whatever path is asked for: the property is about
	// what the handlers observe (logged by the rig before these functions run)
	ts.Core.Describe = func(ctx *gortsplib.ServerHandlerOnDescribeCtx) (*base.Response, *gortsplib.ServerStream, error) {
		co := w.caseOfConn(ctx.Conn)
		if co == nil {
			return &base.Response{StatusCode: base.StatusNotFound}, nil, nil
		}
		return &base.Response{StatusCode: base.StatusOK}, co.stream, nil
	}
	ts.Core.Setup = func(ctx *gortsplib.ServerHandlerOnSetupCtx) (*base.Response, *gortsplib.ServerStream, error) {
		if ctx.Session.State() == gortsplib.ServerSessionStatePreRecord {
			return &base.Response{StatusCode: base.StatusOK}, nil, nil
		}
		co := w.caseOfConn(ctx.Conn)
		if co == nil {
			return &base.Response{StatusCode: base.StatusNotFound}, nil, nil
		}
		return &base.Response{StatusCode: base.StatusOK}, co.stream, nil
	}
	ts.Core.OnRecordPacket = func(ss *gortsplib.ServerSession, m *description.Media, _ format.Format, pkt *rtp.Packet) {
		w.mu.Lock()
		co := w.bySess[ss]
		w.mu.Unlock()
		if co == nil {
			return
		}
		lib := -1
		if ad := ss.AnnouncedDescription(); ad != nil {
			lib = indexOf(ad.Medias, m)
		}
		id, ok := rig.ParsePayload(pkt.Payload)
		co.mu.Lock()
		co.recPkts = append(co.recPkts, recPkt{LibMedia: lib, ID: id, Parsed: ok})
		co.mu.Unlock()
	}
	// publication point for the race detector: connection goroutines tick the same atomic clock
	// (conn-open event) before they read the functions installed above
	rig.Tick()
	return w, nil
}

func (w *worker) close() { w.ts.Close() }

var tagCtr atomic.Int64

func (w *worker) register(n int, backFirst ...bool) *caseObs {
	co := &caseObs{tag: fmt.Sprintf("verif:c%d", tagCtr.Add(1)), nMedias: n, desc: sameDesc(n)}
	if len(backFirst) == 1 && backFirst[0] {
		f := &format.Generic{PayloadTyp: 96, RTPMa: "private/8000"}
		_ = f.Init()
		bc := &description.Media{Type: description.MediaTypeAudio, IsBackChannel: true, Formats: []format.Format{f}}
		co.desc.Medias = append([]*description.Media{bc}, co.desc.Medias...)
		co.off = 1
	}
	co.stream = &gortsplib.ServerStream{Server: w.ts.S, Desc: co.desc}
	if err := co.stream.Initialize(); err != nil {
		run.Fatal("stream: %v", err)
	}
	w.mu.Lock()
	w.byTag[co.tag] = co
	w.mu.Unlock()
	return co
}

func (w *worker) unregister(co *caseObs) {
	w.mu.Lock()
	delete(w.byTag, co.tag)
	w.mu.Unlock()
	co.stream.Close()
}

type finding struct {
	Key, What, Step string
	Timing          bool // depends on packets arriving in time: confirmed by a fresh attempt before it counts
}

// urlShaped: a refused step or a path / query / request-URL difference (named by key).
func urlShaped(key string) bool {
	for _, m := range []string{"-refused/", "-differs", "-failed", "unparsable"} {
		if strings.Contains(key, m) {
			return true
		}
	}
	return false
}

// base.ParseURL mistakes the first '@' of a URL without user-info for the user-info delimiter
// and escapes every '%' up to the next '/' once more. One defect, met at whatever step first
// parses an affected spelling: URL-shaped failures of inputs in that class are reported under one
// key per mode instead of one per step.
func renameAtSign(fs []finding, mode string, inClass bool) []finding {
	if !inClass {
		return fs
	}
	var out []finding
	done := false
	for _, f := range fs {
		if !urlShaped(f.Key) {
			out = append(out, f)
			continue
		}
		if !done {
			f.What = "[" + f.Key + "] " + f.What
			f.Key = "url-parse/at-sign-before-escape/" + mode
			out = append(out, f)
			done = true
		}
	}
	return out
}

type caseStats struct {
	handlerObs, attributions, requestLines, sessionChecks int
	steps                                                 []string
}

func protoOf(p string) *gortsplib.Protocol {
	v := gortsplib.ProtocolTCP
	if p == "udp" {
		v = gortsplib.ProtocolUDP
	}
	return &v
}

func errClass(err error) string {
	s := err.Error()
	if i := strings.Index(s, "bad status code: "); i >= 0 {
		f := strings.Fields(s[i+len("bad status code: "):])
		if len(f) > 0 {
			return "status-" + f[0]
		}
	}
	return "error"
}

// refusalClass names the input class of a URL whose step was refused.
func (c urlCase) refusalClass(mode, step string, lines []string) string {
	if mode == "record" && step == "setup" {
		wire := ""
		for _, l := range lines {
			if p := strings.SplitN(l, " ", 3); len(p) == 3 && p[0] == "SETUP" {
				_, _, wire, _, _ = splitURL(p[1])
			}
		}
		nonCanon, rawReenc := goWouldReencode(wire)
		switch {
		case nonCanon:
			return "noncanonical-escape"
		case rawReenc:
			return "raw-subdelim"
		case c.HasQ && c.Query == "":
			return "empty-query"
		}
	}
	return "other"
}

// compare checks the handler observations of one case against the original URL.
func (c urlCase) compare(hs []obs, st *caseStats, add func(key, what, step string)) {
	expPath, expQuery := pctDecode(c.Path), c.Query
	reported := false
	for _, o := range hs {
		st.handlerObs++
		if reported {
			continue // later steps follow from the first difference
		}
		switch {
		case o.Path != expPath:
			add(fmt.Sprintf("%s/%s/path-differs", c.Mode, o.Kind),
				fmt.Sprintf("%s handler of %s observed Path %q, the URL's path is %q", o.Kind, c.Mode, o.Path, expPath), o.Kind)
			reported = true
		case o.Query != expQuery:
			add(fmt.Sprintf("%s/%s/query-differs", c.Mode, o.Kind),
				fmt.Sprintf("%s handler of %s observed Query %q, the URL's query is %q", o.Kind, c.Mode, o.Query, expQuery), o.Kind)
			reported = true
		}
		if o.HasMedias && !reported {
			st.sessionChecks++
			if o.SessPath != expPath || o.SessQuery != expQuery {
				add(fmt.Sprintf("%s/%s/session-path-query-differs", c.Mode, o.Kind),
					fmt.Sprintf("ServerSession.Path()/Query() = %q / %q at %s, URL has %q / %q", o.SessPath, o.SessQuery, o.Kind, expPath, expQuery), o.Kind)
				reported = true
			}
			if fmt.Sprint(o.Medias) != fmt.Sprint(c.Order) {
				add(c.Mode+"/setup/wrong-media",
					fmt.Sprintf("SETUP requests were issued for medias %v (in this order), the server session set up medias %v", c.Order, o.Medias), "setup")
				reported = true
			}
		}
	}
}

// scanWire checks every raw request line the client wrote.
func (c urlCase) scanWire(tap *wireTap, st *caseStats, add func(key, what, step string)) []string {
	lines, ok := requestLines(tap.bytes())
	if !ok {
		run.Count("tap-stream-not-followed-to-end", 1)
	}
	for _, l := range lines {
		st.requestLines++
		if why := leakIn(l); why != "" {
			m := strings.SplitN(l, " ", 2)[0]
			add("request-line/credentials-leaked", fmt.Sprintf("%s: request line %q", why, l), strings.ToLower(m))
			break
		}
	}
	return lines
}

func newClient(c urlCase, u *base.URL, co *caseObs) *gortsplib.Client {
	cl := &gortsplib.Client{
		Scheme: u.Scheme, Host: u.Host, Protocol: protoOf(c.Proto), UserAgent: co.tag,
		DialContext: co.tap.dial, ReadTimeout: 8 * time.Second, WriteTimeout: 8 * time.Second,
	}
	cl.OnPacketsLost = func(uint64) {}
	cl.OnDecodeError = func(error) {}
	return cl
}

// runPlay: DESCRIBE, SETUP of the chosen medias (chosen order), PLAY, packets, PAUSE.
func (w *worker) runPlay(c urlCase, r *rand.Rand, keepalive bool) ([]finding, caseStats) {
	var fs []finding
	var st caseStats
	c.Mode = "play"
	add := func(key, what, step string) { fs = append(fs, finding{Key: key, What: what, Step: step}) }
	co := w.register(c.Medias, c.BackFirst)
	if c.BackFirst {
		run.Count("play-cases-with-a-back-channel-in-front", 1)
	}
	defer w.unregister(co)
	finish := func() ([]finding, caseStats) {
		hs, _ := co.snapshot()
		lines := c.scanWire(&co.tap, &st, add)
		// a refused step is named after the input class, which needs the request lines
		for i := range fs {
			if strings.HasSuffix(fs[i].Key, "-refused/") {
				fs[i].Key += c.refusalClass(c.Mode, fs[i].Step, lines)
			}
		}
		c.compare(hs, &st, add)
		return renameAtSign(fs, c.Mode, atSignClass(c.URL)), st
	}
	refused := func(step string, err error) {
		add(fmt.Sprintf("%s/%s-refused/", c.Mode, step), fmt.Sprintf("%s failed: %v", strings.ToUpper(step), err), step)
	}

	u, err := base.ParseURL(c.URL)
	if err != nil {
		add("url-rejected-by-ParseURL", err.Error(), "parse")
		return fs, st
	}
	cl := newClient(c, u, co)
	if err := cl.Start(); err != nil {
		add("harness/client-start", err.Error(), "start")
		return fs, st
	}
	defer cl.Close()
	desc, _, err := cl.Describe(u)
	if err != nil {
		refused("describe", err)
		return finish()
	}
	st.steps = append(st.steps, "describe")
	if len(desc.Medias) != c.Medias {
		add("play/describe/media-count-differs", fmt.Sprintf("%d medias described, stream has %d", len(desc.Medias), c.Medias), "describe")
		return finish()
	}
	rd := rig.NewReader(co.tag, false, 1)
	for _, i := range c.Order {
		res, err := cl.Setup(desc.BaseURL, desc.Medias[i], 0, 0)
		if err != nil {
			refused("setup", err)
			return finish()
		}
		var th headers.Transport
		if th.Unmarshal(res.Header["Transport"]) == nil && th.SSRC != nil {
			rd.AnnSSRC[i] = *th.SSRC
		}
		st.steps = append(st.steps, "setup")
	}
	cl.OnPacketRTPAny(func(m *description.Media, f format.Format, pkt *rtp.Packet) {
		rd.OnPacket(indexOf(desc.Medias, m), f.PayloadType(), pkt)
	})
	rd.WindowPreOpen()
	if _, err := cl.Play(nil); err != nil {
		refused("play", err)
		return finish()
	}
	rd.WindowOpen()
	st.steps = append(st.steps, "play")

	// packets: every media of the stream gets packets that name the media they were written to;
	// each set-up media must receive its own, nothing else may arrive
	pairs := make([][2]int, c.Medias)
	for i := range pairs {
		pairs[i] = [2]int{i, 96}
	}
	all := rig.NewTraffic(2, pairs, r, false)
	sub := &rig.Traffic{Run: all.Run}
	isSetup := map[int]bool{}
	for _, i := range c.Order {
		isSetup[i] = true
	}
	stream, sdesc := co.stream, co.desc
	write := func(f *rig.Flow) func(*rtp.Packet) error {
		m := sdesc.Medias[f.Media+co.off]
		return func(p *rtp.Packet) error { return stream.WritePacketRTP(m, p) }
	}
	for _, f := range all.Flows {
		if !isSetup[f.Media] {
			rig.WriteLoop(f, r, 2, 120, 0, write(f), nil)
		}
	}
	for _, f := range all.Flows {
		if !isSetup[f.Media] {
			continue
		}
		sub.Flows = append(sub.Flows, f)
		stuck := rig.Drain(f, r, 120, write(f), []*rig.Reader{rd}, 400, time.Millisecond)
		st.attributions++
		if len(stuck) > 0 {
			fs = append(fs, finding{Key: "play/setup/media-unreached", Step: "setup", Timing: true,
				What: fmt.Sprintf("media %d was set up but none of 400 packets written to it after PLAY was delivered as media %d", f.Media, f.Media)})
		}
	}
	if keepalive {
		// the client sends GET_PARAMETER keep-alives (period 1 s with this server's IdleTimeout)
		for t0 := time.Now(); time.Since(t0) < 4*time.Second && !co.sawKind("getparam"); {
			time.Sleep(20 * time.Millisecond)
		}
		if co.sawKind("getparam") {
			st.steps = append(st.steps, "getparam")
		} else {
			run.Inconclusive("keepalive-not-observed-in-4s")
		}
	}
	rd.WindowClose("pause")
	if _, err := cl.Pause(); err != nil {
		refused("pause", err)
		return finish()
	}
	st.steps = append(st.steps, "pause")
	cl.Close()
	cfs, _ := rig.Check(sub, rd)
	for _, f := range cfs {
		key := "play/delivery/" + f.Key
		switch f.Key {
		case "wrong-attribution":
			key = "play/setup/wrong-media"
		case "ssrc-differs-from-setup":
			key = "play/setup/ssrc-of-other-media"
		case "delivered-packet-not-written":
			key = "play/setup/packet-of-media-not-set-up"
		}
		add(key, f.What, "setup")
	}
	return finish()
}

// runRecord: ANNOUNCE, SETUP of every media (chosen order), RECORD, packets, PAUSE.
func (w *worker) runRecord(c urlCase, r *rand.Rand) ([]finding, caseStats) {
	var fs []finding
	var st caseStats
	c.Mode = "record"
	add := func(key, what, step string) { fs = append(fs, finding{Key: key, What: what, Step: step}) }
	co := w.register(c.Medias)
	defer w.unregister(co)
	finish := func() ([]finding, caseStats) {
		hs, pk := co.snapshot()
		lines := c.scanWire(&co.tap, &st, add)
		for i := range fs {
			if strings.HasSuffix(fs[i].Key, "-refused/") {
				fs[i].Key += c.refusalClass(c.Mode, fs[i].Step, lines)
			}
		}
		c.compare(hs, &st, add)
		for _, p := range pk {
			if p.Parsed && int(p.ID.Media) != p.LibMedia {
				add("record/setup/wrong-media", fmt.Sprintf("a packet written to media %d was reported by the server session as media %d", p.ID.Media, p.LibMedia), "setup")
				break
			}
		}
		return renameAtSign(fs, c.Mode, atSignClass(c.URL)), st
	}
	refused := func(step string, err error) {
		add(fmt.Sprintf("%s/%s-refused/", c.Mode, step), fmt.Sprintf("%s failed: %v", strings.ToUpper(step), err), step)
	}

	// same steps as Client.StartRecording(address, desc), one by one
	u, err := base.ParseURL(c.URL)
	if err != nil {
		add("url-rejected-by-ParseURL", err.Error(), "parse")
		return fs, st
	}
	desc := sameDesc(c.Medias)
	cl := newClient(c, u, co)
	if err := cl.Start(); err != nil {
		add("harness/client-start", err.Error(), "start")
		return fs, st
	}
	defer cl.Close()
	if _, err := cl.Announce(u, desc); err != nil {
		refused("announce", err)
		return finish()
	}
	st.steps = append(st.steps, "announce")
	for _, i := range c.Order {
		if _, err := cl.Setup(u, desc.Medias[i], 0, 0); err != nil {
			refused("setup", err)
			return finish()
		}
		st.steps = append(st.steps, "setup")
	}
	if _, err := cl.Record(); err != nil {
		refused("record", err)
		return finish()
	}
	st.steps = append(st.steps, "record")

	runID := uint32(r.Int31())
	seen := func() map[int]bool {
		_, pk := co.snapshot()
		m := map[int]bool{}
		for _, p := range pk {
			if p.Parsed && p.ID.Run == runID {
				m[int(p.ID.Media)] = true
			}
		}
		return m
	}
	ctr := uint64(0)
	deadline := time.Now().Add(5 * time.Second)
	for round := 0; ; round++ {
		have := seen()
		if len(have) == c.Medias {
			break
		}
		if time.Now().After(deadline) {
			for i := 0; i < c.Medias; i++ {
				if !have[i] {
					fs = append(fs, finding{Key: "record/setup/media-unreached", Step: "setup", Timing: true,
						What: fmt.Sprintf("none of %d packets written to media %d after RECORD reached the server session's packet callback", round, i)})
				}
			}
			break
		}
		for i := 0; i < c.Medias; i++ {
			if have[i] {
				continue
			}
			pl := rig.BuildPayload(rig.PacketID{Run: runID, Dir: 1, Media: uint8(i), PT: 96, Ctr: ctr}, rig.MinPayload+r.Intn(40), r)
			ctr++
			_ = cl.WritePacketRTP(desc.Medias[i], &rtp.Packet{
				Header:  rtp.Header{Version: 2, PayloadType: 96, SequenceNumber: uint16(1000*i + round), Timestamp: uint32(round * 90), SSRC: 0x1234},
				Payload: pl,
			})
		}
		time.Sleep(2 * time.Millisecond)
	}
	st.attributions += c.Medias
	if _, err := cl.Pause(); err != nil {
		refused("pause", err)
		return finish()
	}
	st.steps = append(st.steps, "pause")
	cl.Close()
	return finish()
}

// ipv6Loopback reports whether [::1] can be used.
func ipv6Loopback() bool {
	l, err := net.Listen("tcp", "[::1]:0")
	if err != nil {
		return false
	}
	l.Close()
	return true
}
