package main

import (
	"bytes"
	"context"
	"net"
	"strconv"
	"strings"
	"sync"
)

// wireTap records every byte a client writes to its control connection(s).
type wireTap struct {
	mu  sync.Mutex
	buf []byte
}

type tapConn struct {
	net.Conn
	t *wireTap
}

func (c *tapConn) Write(b []byte) (int, error) {
	c.t.mu.Lock()
	c.t.buf = append(c.t.buf, b...)
	c.t.mu.Unlock()
	return c.Conn.Write(b)
}

func (t *wireTap) dial(ctx context.Context, network, address string) (net.Conn, error) {
	nc, err := (&net.Dialer{}).DialContext(ctx, network, address)
	if err != nil {
		return nil, err
	}
	return &tapConn{Conn: nc, t: t}, nil
}

func (t *wireTap) bytes() []byte {
	t.mu.Lock()
	defer t.mu.Unlock()
	return append([]byte(nil), t.buf...)
}

// requestLines extracts the raw request lines of a client-to-server byte stream (requests with
// optional bodies, interleaved frames in between). ok is false when the stream could not be
// followed to its end (everything found until then is still returned).
func requestLines(b []byte) (lines []string, ok bool) {
	for len(b) > 0 {
		if b[0] == '$' {
			if len(b) < 4 {
				return lines, false
			}
			n := int(b[2])<<8 | int(b[3])
			if len(b) < 4+n {
				return lines, false
			}
			b = b[4+n:]
			continue
		}
		end := bytes.Index(b, []byte("\r\n\r\n"))
		if end < 0 {
			return lines, false
		}
		head := string(b[:end])
		b = b[end+4:]
		hl := strings.Split(head, "\r\n")
		lines = append(lines, hl[0])
		for _, h := range hl[1:] {
			if k, v, found := strings.Cut(h, ":"); found && strings.EqualFold(strings.TrimSpace(k), "Content-Length") {
				n, err := strconv.Atoi(strings.TrimSpace(v))
				if err != nil || n < 0 || n > len(b) {
					return lines, false
				}
				b = b[n:]
			}
		}
	}
	return lines, true
}

// leakIn reports why a request line exposes credentials ("" = it does not): user-info syntax in
// the authority of the request URL, or the marker letter that only generated credentials carry.
func leakIn(line string) string {
	parts := strings.SplitN(line, " ", 3)
	if len(parts) != 3 {
		return ""
	}
	u := parts[1]
	if _, authority, _, _, _ := splitURL(u); strings.Contains(authority, "@") {
		return "user-info in the authority of the request URL"
	}
	if strings.Contains(u, credMark) || strings.Contains(u, "%51") {
		return "credential text inside the request URL"
	}
	return ""
}
