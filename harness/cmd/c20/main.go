// C20: URL fidelity - path, query and track resolution agree between client and server.
//
// Part 1 (end to end): generated stream URLs (escapes in canonical and non-canonical spelling,
// sub-delimiters, UTF-8, segments and query values that look like track selectors, three
// authority kinds, optional user-info) are played and published by a real gortsplib.Client against
// a real gortsplib.Server over UDP and TCP. Monitors: Path/Query of every handler call against
// the harness' own decoding of the ORIGINAL URL string; which media every SETUP configured
// (ServerSession.Medias() and self-describing packets); every raw request line on the wire
// (no credentials).
// Part 2a: a scripted server answers DESCRIBE with the control-attribute styles of cameras; the
// SETUP request URLs of the real Client are compared with the resolution rule.
// Part 2b: description.Media.URL(Content-Base) of the server's own SDP, sent by a raw peer to a
// real ServerSession, must resolve back to the same media, path and query.
package main

import (
	"fmt"
	"math/rand"
	"os"
	"runtime"
	"sort"
	"strings"
	"sync"
	"sync/atomic"
	"time"

	"verif/lib/rig"
	"verif/lib/vlib"
)

var (
	run    *vlib.Run
	evals  atomic.Int64
	canary *rig.Canary
)

// pool runs fn(i) for i in [0,n) on k goroutines; worker index is passed along.
func pool(k, n int, fn func(worker, i int)) {
	var next atomic.Int64
	var wg sync.WaitGroup
	for g := 0; g < k; g++ {
		wg.Add(1)
		go func(g int) {
			defer wg.Done()
			for {
				i := int(next.Add(1)) - 1
				if i >= n {
					return
				}
				fn(g, i)
			}
		}(g)
	}
	wg.Wait()
}

func hasTiming(fs []finding) bool {
	for _, f := range fs {
		if f.Timing {
			return true
		}
	}
	return false
}

// report turns findings into violations. attempt runs the case; findings that depend on
// packets arriving in time count only if a fresh attempt shows them again.
func report(witness func(f finding) any, attempt func() ([]finding, caseStats)) caseStats {
	fs, st := attempt()
	if hasTiming(fs) {
		t0 := time.Now()
		fs2, st2 := attempt()
		if !hasTiming(fs2) {
			run.Inconclusive("packets-not-seen-in-time-not-reproduced")
		} else if canary.WorstSince(t0) > 250*time.Millisecond {
			// the machine was stalled while the packets were awaited: no verdict
			run.Inconclusive("packets-not-seen-in-time-while-scheduler-late")
			kept := fs2[:0]
			for _, f := range fs2 {
				if !f.Timing {
					kept = append(kept, f)
				}
			}
			fs2 = kept
		}
		fs, st = fs2, st2
	}
	seen := map[string]bool{}
	for _, f := range fs {
		if seen[f.Key] {
			continue // one report per key and case
		}
		seen[f.Key] = true
		if strings.HasPrefix(f.Key, "harness/") {
			run.Fatal("%s: %s", f.Key, f.What)
		}
		run.Violation(f.Key, f.What, witness(f))
	}
	return st
}

func account(st caseStats) {
	run.Count("handler-observations-compared", int64(st.handlerObs))
	run.Count("setup-to-media-attributions-checked", int64(st.attributions))
	run.Count("request-lines-scanned", int64(st.requestLines))
	run.Count("session-path-query-and-media-order-checks", int64(st.sessionChecks))
}

// e2eCase runs one URL in one mode on a worker.
func e2eCase(w *worker, c urlCase, r *rand.Rand, keepalive bool) {
	c.URL = c.build(w.ts.Port)
	if c.Mode != "record" && !c.BackFirst && run.Replay == "" {
		// decided by the case itself, so that a replay sees the same stream
		c.BackFirst = (len(c.Path)+len(c.Query)+c.Medias+len(c.Order))%4 == 0
	}
	evals.Add(1)
	st := report(func(f finding) any {
		wc := c
		wc.Step = f.Step
		return map[string]any{"kind": "e2e", "case": wc, "keepalive": keepalive}
	}, func() ([]finding, caseStats) {
		if c.Mode == "record" {
			return w.runRecord(c, r)
		}
		return w.runPlay(c, r, keepalive)
	})
	account(st)
	run.Count("cases:"+c.Mode+"/"+c.Proto, 1)
	for _, s := range st.steps {
		run.Count("steps-ok:"+c.Mode+"/"+s, 1)
	}
	run.Count(fmt.Sprintf("medias:%d", c.Medias), 1)
}

func setOrders(c *urlCase, r *rand.Rand) {
	p := r.Perm(c.Medias)
	if c.Mode == "play" && r.Intn(2) == 0 {
		p = p[:1+r.Intn(c.Medias)] // a subset, in any order
	}
	c.Order = p
}

func main() {
	run = vlib.Start("C20", "exploration")
	canary = rig.StartCanary()
	defer canary.Stop()
	auths := []string{"ipv4", "localhost"}
	listenIP := "127.0.0.1"
	if ipv6Loopback() {
		auths = append(auths, "ipv6")
		listenIP = "::"
	} else {
		run.Assume("no IPv6 loopback in this environment: [::1] authorities not exercised")
	}

	if run.Replay != "" {
		replay(listenIP)
		return
	}

	nW := runtime.GOMAXPROCS(0) * 3 / 4
	if nW < 2 {
		nW = 2
	}
	workers := make([]*worker, nW)
	for i := range workers {
		w, err := newWorker(listenIP, 0, false)
		if err != nil {
			run.Fatal("server: %v", err)
		}
		workers[i] = w
	}

	// ---- part 1 -----------------------------------------------------------------------------
	nURL := run.Pick(3000, 40000)
	var kwg sync.WaitGroup
	kwg.Add(1)
	go func() { // keep-alive cases mostly sleep: they run beside the main batch
		defer kwg.Done()
		kw, err := newWorker(listenIP, 6*time.Second, false)
		if err != nil {
			run.Fatal("server: %v", err)
		}
		defer kw.close()
		pool(8, run.Pick(24, 240), func(_, i int) {
			r := run.Rand("keepalive", i)
			c := genCase(r, auths)
			c.Mode = "play"
			setOrders(&c, r)
			e2eCase(kw, c, r, true)
		})
	}()
	kwg.Add(1)
	go func() { // URLs without a port need the one server that owns port 554
		defer kwg.Done()
		pw, err := newWorker(listenIP, 0, true)
		if err != nil {
			run.Count("authority-without-port:skipped(port 554 not available)", 1)
			run.Assume("port 554 could not be bound in this run: authorities without a port not exercised (" + vlib.Trunc(err.Error(), 80) + ")")
			return
		}
		defer pw.close()
		var np []string
		for _, a := range auths {
			np = append(np, a+"-noport")
		}
		pool(1, run.Pick(120, 1500), func(_, i int) {
			r := run.Rand("noport", i)
			c := genCase(r, np)
			for _, m := range []string{"play", "record"} {
				cc := c
				cc.Mode = m
				cc.Proto = []string{"udp", "tcp"}[r.Intn(2)]
				setOrders(&cc, r)
				e2eCase(pw, cc, r, false)
			}
			run.Count("urls-with:authority-without-port", 1)
			run.Distinct(strings.Join(c.features(), "|") + "|noport")
		})
	}()
	featureCount := map[string]int64{}
	var fmu sync.Mutex
	pool(nW, nURL, func(g, i int) {
		r := run.Rand("url", i)
		c := genCase(r, auths)
		feats := c.features()
		fmu.Lock()
		for _, f := range feats {
			featureCount[f]++
		}
		fmu.Unlock()
		modes := []string{"play", "record"}
		if r.Intn(2) == 0 {
			modes[0], modes[1] = modes[1], modes[0]
		}
		for _, m := range modes {
			cc := c
			cc.Mode = m
			cc.Proto = []string{"udp", "tcp"}[r.Intn(2)]
			setOrders(&cc, r)
			e2eCase(workers[g], cc, r, false)
			run.Distinct(strings.Join(feats, "|") + "|" + m + "|" + cc.Proto + fmt.Sprint(cc.Medias))
		}
		if run.WantSample() && i%97 == 0 {
			run.Sample(map[string]any{"url": c.build(workers[g].ts.Port), "expected_path": pctDecode(c.Path), "expected_query": c.Query, "medias": c.Medias, "features": feats})
		}
	})
	phase("part 1 main batch")
	kwg.Wait()
	phase("keep-alive batch")
	keys := make([]string, 0, len(featureCount))
	for k := range featureCount {
		keys = append(keys, k)
	}
	sort.Strings(keys)
	for _, k := range keys {
		run.Count("urls-with:"+k, featureCount[k])
	}
	run.Count("urls", int64(nURL))

	// ---- part 2b: inverse (raw peer, real server) -------------------------------------------------
	pool(nW, run.Pick(1500, 15000), func(g, i int) {
		r := run.Rand("inverse", i)
		c := genCase(r, auths)
		ic := inverseCase{Kind: "inverse", U: c, Media: r.Intn(c.Medias)}
		evals.Add(1)
		st := report(func(f finding) any { w := ic; w.U.Step = f.Step; w.U.URL = c.build(workers[g].ts.Port); return w },
			func() ([]finding, caseStats) { return workers[g].runInverse(ic, r) })
		account(st)
		run.Count("cases:inverse(Media.URL->ServerSession)", 1)
		run.Distinct("inv|" + strings.Join(c.features(), "|") + fmt.Sprint(c.Medias, ic.Media))
	})
	for _, w := range workers {
		w.close()
	}
	phase("part 2b inverse")

	// ---- part 2a: control styles (scripted server, real client) -------------------------------------
	pool(nW, run.Pick(1500, 15000), func(_, i int) {
		r := run.Rand("style", i)
		sc := genStyleCase(r)
		evals.Add(1)
		st := report(func(f finding) any { w := sc; w.Step = f.Step; return w },
			func() ([]finding, caseStats) { return runStyle(sc, r) })
		account(st)
		run.Count("control-styles-exercised:"+sc.Ctl+"+"+sc.Base, 1)
		run.Distinct("style|" + sc.Ctl + "|" + sc.Base + fmt.Sprint(len(sc.Controls), sc.HasQ, sc.BaseHasQ, sc.UserInfo != "", sc.BasePath != sc.Path))
		if run.WantSample() && i%211 == 0 {
			run.Sample(sc)
		}
	})

	phase("part 2a styles")

	// ---- part 3: redirect followed by a session rebuild --------------------------------------------
	pool(4, run.Pick(8, 60), func(_, i int) { runRedirectSwitch(i) })
	pool(4, run.Pick(12, 90), func(_, i int) { runRefusedThenOther(i) })
	pool(4, run.Pick(8, 60), func(_, i int) { runTwoDescribesThenSwitch(i) })
	phase("part 3 redirect + switch")
	finish()
}

var phaseT = time.Now()

func phase(name string) {
	fmt.Fprintf(os.Stderr, "phase %s: %.1fs\n", name, time.Since(phaseT).Seconds())
	phaseT = time.Now()
}

func finish() {
	run.ReportRaces()
	run.Assume("handler Path = percent-decoded URL path with its leading slash (the convention of the repository's own server tests: \"/teststream\"), Query = raw query string")
	run.Assume("paths whose decoded form ends in '/' (e.g. a trailing %2F) and queries ending in '/' are outside the property and not generated; path segments are non-empty")
	run.Assume("relative control attributes: the append-to-base rule (library documentation and tests, FFmpeg, live555) is the expectation; where strict RFC 1808 resolution gives another URL, that URL is accepted too; leading '?' / leading '/' controls are generated only for bases without a query; a session-level absolute a=control is generated only without a competing Content-Base")
	run.Assume("for URLs without a query the server's Content-Base + 'trackID=n' must denote the same URL under strict RFC 1808 resolution as under the library client's append rule")
	run.Assume("UDP: a set-up media counts as unreached only if none of up to 400 packets arrives, in two independent attempts")
	if run.Get("handler-observations-compared") == 0 || run.Get("setup-to-media-attributions-checked") == 0 || run.Get("request-lines-scanned") == 0 {
		run.Fatal("a monitor observed nothing")
	}
	run.Finish(evals.Load(), "part 1: PRNG stream URLs (1..4 path segments from unreserved characters, sub-delimiters, canonical / non-canonical / lower-case / UTF-8 escapes, raw UTF-8, trackID look-alikes; 0..3 query pairs with '/', 'trackID=', '?', escapes; 127.0.0.1 / [::1] / localhost; optional user-info with escaped password; 1..4 medias, SETUP in a random order, for play also a random subset) each played and published over a random transport (UDP / TCP) by a real Client against a real Server; part 2a: control-attribute style x base-URL source against a scripted server; part 2b: Media.URL(Content-Base) sent by a raw peer to a real ServerSession; distinct_nontrivial = distinct (URL feature set, mode, transport, media count) combinations + distinct (control style, base source, shape) + distinct inverse feature sets")
}

func replay(listenIP string) {
	var head struct {
		Kind string `json:"kind"`
	}
	if err := run.LoadReplay(&head); err != nil {
		run.Fatal("replay: %v", err)
	}
	r := rand.New(rand.NewSource(run.Seed))
	switch head.Kind {
	case "e2e":
		var w struct {
			Case      urlCase `json:"case"`
			Keepalive bool    `json:"keepalive"`
		}
		if err := run.LoadReplay(&w); err != nil {
			run.Fatal("replay: %v", err)
		}
		idle := time.Duration(0)
		if w.Keepalive {
			idle = 6 * time.Second
		}
		wk, err := newWorker(listenIP, idle, strings.HasSuffix(w.Case.Auth, "-noport"))
		if err != nil {
			run.Fatal("server: %v", err)
		}
		for k := 0; k < 3; k++ {
			e2eCase(wk, w.Case, r, w.Keepalive)
		}
		wk.close()
	case "inverse":
		var ic inverseCase
		if err := run.LoadReplay(&ic); err != nil {
			run.Fatal("replay: %v", err)
		}
		wk, err := newWorker(listenIP, 0, false)
		if err != nil {
			run.Fatal("server: %v", err)
		}
		for k := 0; k < 3; k++ {
			evals.Add(1)
			report(func(f finding) any { return ic }, func() ([]finding, caseStats) { return wk.runInverse(ic, r) })
		}
		wk.close()
	case "style":
		var sc styleCase
		if err := run.LoadReplay(&sc); err != nil {
			run.Fatal("replay: %v", err)
		}
		for k := 0; k < 3; k++ {
			evals.Add(1)
			report(func(f finding) any { return sc }, func() ([]finding, caseStats) { return runStyle(sc, r) })
		}
	default:
		run.Fatal("replay: unknown witness kind %q", head.Kind)
	}
	run.ReportRaces()
	run.Finish(evals.Load(), "replay")
}
