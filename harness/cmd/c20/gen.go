package main

import (
	"fmt"
	"math/rand"
	"net/url"
	"regexp"
	"sort"
	"strings"
)

// ---- URL generator ------------------------------------------------------------------------------
//
// A urlCase is kept in parts (authority kind, user-info, raw path, raw query) so that a witness
// can be replayed on another port. The expectation is derived from these ORIGINAL raw strings by
// the harness' own code (pctDecode), never by the library's parser.

type urlCase struct {
	Auth     string `json:"authority"` // ipv4 | ipv6 | localhost
	UserInfo string `json:"userinfo"`  // "" or "user" or "user:pass" exactly as spelled in the URL
	Path     string `json:"path"`      // raw, with leading '/', not ending in '/'
	Query    string `json:"query"`     // raw, without the '?'
	HasQ     bool   `json:"has_q"`     // a '?' is present (Query may still be empty)
	Medias   int    `json:"medias"`
	Order    []int  `json:"setup_order"` // medias that are set up, in this order
	Proto    string `json:"transport"`   // udp | tcp
	Mode     string `json:"mode"`        // play | record
	URL      string `json:"url"`         // as used in the failing run (informational, the port differs on replay)
	Step     string `json:"step,omitempty"`
	// BackFirst: the server's stream has a back-channel media in front of the others; a client
	// that does not ask for back channels is not shown it, and every SETUP must still reach the
	// media it was issued for
	BackFirst bool `json:"back_first,omitempty"`
}

// the marker letter 'Q' occurs in every generated user name and password and nowhere else in a
// generated URL, so "credentials on the wire" can be decided by looking for it.
const (
	alnum    = "abcdefghijklmnopqrstuvwxyzABCDEFGHIJKLMNOPRSTUVWXYZ0123456789" // no 'Q'
	credMark = "Q"
)

// hostPort spells the authority; the "-noport" kinds omit the port (default 554).
func hostPort(auth string, port int) string {
	h := "127.0.0.1"
	switch strings.TrimSuffix(auth, "-noport") {
	case "ipv6":
		h = "[::1]"
	case "localhost":
		h = "localhost"
	}
	if strings.HasSuffix(auth, "-noport") {
		return h
	}
	return fmt.Sprintf("%s:%d", h, port)
}

func (c urlCase) build(port int) string {
	s := "rtsp://"
	if c.UserInfo != "" {
		s += c.UserInfo + "@"
	}
	s += hostPort(c.Auth, port) + c.Path
	if c.HasQ {
		s += "?" + c.Query
	}
	return s
}

type pieceClass struct {
	cls  string
	w    int
	opts []string
}

var pathPieces = []pieceClass{
	{"alnum", 30, nil},
	{"mark", 6, []string{"-", "_", ".", "~"}},
	{"subdelim-listed", 12, []string{"=", "&", ";", "+", ":", "=", "&", ";", "+", ":", "@"}},
	{"subdelim-other", 5, []string{"!", "*", "'", "(", ")", "$", ","}},
	{"esc-canonical", 6, []string{"%20", "%25", "%3F", "%23", "%22", "%5B", "%21", "%7C"}},
	{"esc-unreserved", 6, []string{"%41", "%7A", "%30", "%2D", "%7E", "%5F"}},
	{"esc-reserved", 7, []string{"%2F", "%3D", "%26", "%3B", "%2B", "%40", "%3A", "%2C"}},
	{"esc-lowerhex", 5, []string{"%2f", "%3f", "%c3%a9", "%e6%97%a5", "%7e", "%5b"}},
	{"esc-utf8", 3, []string{"%C3%A9", "%E6%97%A5"}},
	{"utf8-raw", 4, []string{"é", "日本", "ü", "ñ"}},
	{"lookalike-piece", 5, []string{"trackID=", "trackID=3", "trackID"}},
}

var lookalikeSegments = []string{"trackID=7", "trackID=0", "trackID=", "trackID=12", "mediaUUID=1", "stream=0", "trackID=1"}

var queryValuePieces = []pieceClass{
	{"alnum", 30, nil},
	{"q-slash", 10, []string{"/"}},
	{"q-trackid", 8, []string{"trackID=", "/trackID=2", "trackID=0", "/trackID="}},
	{"q-qmark", 5, []string{"?"}},
	{"q-punct", 10, []string{"=", ":", "+", ",", ";", "!", "*", ".", "-", "~", "=", ":", "+", ",", ";", "@"}},
	{"q-escape", 10, []string{"%2F", "%41", "%20", "%3d", "%26", "%2f", "%3F"}},
	{"q-utf8", 3, []string{"é", "%C3%A9"}},
}

func pick(r *rand.Rand, cs []pieceClass) (string, string) {
	tot := 0
	for _, c := range cs {
		tot += c.w
	}
	k := r.Intn(tot)
	for _, c := range cs {
		if k < c.w {
			if c.opts == nil {
				n := 1 + r.Intn(5)
				b := make([]byte, n)
				for i := range b {
					b[i] = alnum[r.Intn(len(alnum))]
				}
				return string(b), c.cls
			}
			return c.opts[r.Intn(len(c.opts))], c.cls
		}
		k -= c.w
	}
	panic("unreachable")
}

// canonicalPieces is the subset of pathPieces whose spelling net/url reproduces when it rebuilds a
// URL from the decoded path (used for a share of the URLs so that the flows behind the known
// record-SETUP defect stay covered on the unchanged tree).
var canonicalPieces = func() []pieceClass {
	var out []pieceClass
	for _, p := range pathPieces {
		switch p.cls {
		case "alnum", "mark", "subdelim-listed", "esc-canonical", "esc-utf8", "utf8-raw", "lookalike-piece":
			out = append(out, p)
		}
	}
	return out
}()

func genSegment(r *rand.Rand, canonical bool) string {
	if r.Intn(9) == 0 {
		return lookalikeSegments[r.Intn(len(lookalikeSegments))]
	}
	pieces := pathPieces
	if canonical {
		pieces = canonicalPieces
	}
	var sb strings.Builder
	for i, n := 0, 1+r.Intn(4); i < n; i++ {
		p, _ := pick(r, pieces)
		sb.WriteString(p)
	}
	// make the interesting combination '@' ... '%xx' inside one segment common enough
	if !canonical && r.Intn(60) == 0 {
		e, _ := pick(r, pathPieces[4:8])
		sb.WriteString("@" + string(alnum[r.Intn(len(alnum))]) + e)
	}
	// and the combination ':' '/' '/' ... '@' ... '%xx' (a "://" inside the decoded path, spelt with
	// an escaped slash, followed by an '@' and an escape in a later segment)
	if !canonical && r.Intn(80) == 0 {
		e, _ := pick(r, pathPieces[4:8])
		at := []string{"@", "%40"}[r.Intn(2)]
		sb.WriteString(":%2f/" + at + string(alnum[r.Intn(len(alnum))]) + e)
	}
	return sb.String()
}

func genPath(r *rand.Rand) string {
	canonical := r.Intn(5) < 2
	for {
		n := 1 + r.Intn(4)
		segs := make([]string, n)
		for i := range segs {
			segs[i] = genSegment(r, canonical)
			if segs[i] == "." || segs[i] == ".." {
				segs[i] = "dot" + segs[i]
			}
		}
		p := "/" + strings.Join(segs, "/")
		// the property excludes paths ending in '/': an escaped slash at the very end is the
		// same path after decoding, so it is excluded as well
		if d := pctDecode(p); strings.HasSuffix(d, "/") {
			continue
		}
		return p
	}
}

func genQuery(r *rand.Rand) (string, bool) {
	switch k := r.Intn(20); {
	case k < 8:
		return "", false
	case k == 8:
		return "", true // "rtsp://host/path?" : empty query with the question mark
	}
	n := 1 + r.Intn(3)
	pairs := make([]string, n)
	for i := range pairs {
		key := []string{"a", "user", "ch", "trackID", "id", "x"}[r.Intn(6)]
		if r.Intn(8) == 0 {
			pairs[i] = key // bare key
			continue
		}
		var sb strings.Builder
		for j, m := 0, 1+r.Intn(3); j < m; j++ {
			p, _ := pick(r, queryValuePieces)
			sb.WriteString(p)
		}
		pairs[i] = key + "=" + sb.String()
	}
	q := strings.Join(pairs, "&")
	for strings.HasSuffix(q, "/") { // queries ending in '/' are outside the property
		q += string(alnum[r.Intn(len(alnum))])
	}
	return q, true
}

func genUserInfo(r *rand.Rand) string {
	if r.Intn(5) < 3 {
		return ""
	}
	user := "u" + credMark + string(alnum[r.Intn(len(alnum))])
	if r.Intn(5) == 0 {
		return user
	}
	pw := "p" + credMark
	for i, n := 0, r.Intn(4); i < n; i++ {
		pw += []string{"%40", "%3A", "%2F", "%25", "%21", "!", "%41", "x", "7", ":", "%3f", "$", "~"}[r.Intn(13)]
	}
	return user + ":" + pw
}

func genCase(r *rand.Rand, auths []string) urlCase {
	c := urlCase{Auth: auths[r.Intn(len(auths))], UserInfo: genUserInfo(r), Path: genPath(r)}
	c.Query, c.HasQ = genQuery(r)
	c.Medias = 1 + r.Intn(4)
	c.Proto = []string{"udp", "tcp"}[r.Intn(2)]
	return c
}

// ---- expectation (harness' own code) --------------------------------------------------------------

func isHex(b byte) bool {
	return b >= '0' && b <= '9' || b >= 'a' && b <= 'f' || b >= 'A' && b <= 'F'
}

func unhex(b byte) byte {
	switch {
	case b >= '0' && b <= '9':
		return b - '0'
	case b >= 'a' && b <= 'f':
		return b - 'a' + 10
	}
	return b - 'A' + 10
}

// pctDecode decodes every %xx triplet (the handler API hands out the decoded path, like
// net/url's URL.Path, with its leading slash: see the "/teststream" expectations of the
// repository's server tests).
func pctDecode(s string) string {
	var sb strings.Builder
	for i := 0; i < len(s); i++ {
		if s[i] == '%' && i+2 < len(s) && isHex(s[i+1]) && isHex(s[i+2]) {
			sb.WriteByte(unhex(s[i+1])<<4 | unhex(s[i+2]))
			i += 2
			continue
		}
		sb.WriteByte(s[i])
	}
	return sb.String()
}

func isUnreserved(b byte) bool {
	return b >= 'a' && b <= 'z' || b >= 'A' && b <= 'Z' || b >= '0' && b <= '9' || b == '-' || b == '_' || b == '.' || b == '~'
}

// normURLPart is RFC 3986 section 6.2.2 normalisation of a path or query: escapes of unreserved
// characters are decoded, hex digits upper-cased, raw non-ASCII bytes escaped. Reserved
// characters keep their spelling (an escaped '/' is not a '/').
func normURLPart(s string) string {
	var sb strings.Builder
	for i := 0; i < len(s); i++ {
		switch {
		case s[i] == '%' && i+2 < len(s) && isHex(s[i+1]) && isHex(s[i+2]):
			b := unhex(s[i+1])<<4 | unhex(s[i+2])
			if isUnreserved(b) {
				sb.WriteByte(b)
			} else {
				fmt.Fprintf(&sb, "%%%02X", b)
			}
			i += 2
		case s[i] >= 0x80:
			fmt.Fprintf(&sb, "%%%02X", s[i])
		default:
			sb.WriteByte(s[i])
		}
	}
	return sb.String()
}

// splitURL splits an absolute rtsp URL string into authority (with user-info), path and query.
func splitURL(s string) (scheme, authority, path, query string, hasQ bool) {
	i := strings.Index(s, "://")
	if i < 0 {
		return "", "", s, "", false
	}
	scheme, rest := s[:i], s[i+3:]
	j := strings.IndexAny(rest, "/?")
	if j < 0 {
		return scheme, rest, "", "", false
	}
	authority, rest = rest[:j], rest[j:]
	if k := strings.IndexByte(rest, '?'); k >= 0 {
		return scheme, authority, rest[:k], rest[k+1:], true
	}
	return scheme, authority, rest, "", false
}

// ---- feature classes (for evidence counters and for naming the failing input class) -----------------

// goWouldReencode reports how a URL rebuilt from the decoded path alone would be spelled
// differently from the spelling on the wire: nonCanon = a percent-escape that net/url would not
// produce for that byte in a path (escaped unreserved or reserved character, lower-case hex);
// rawReenc = a raw character that net/url escapes when it builds a path from scratch.
func goWouldReencode(wirePath string) (nonCanon, rawReenc bool) {
	for i := 0; i < len(wirePath); i++ {
		c := wirePath[i]
		if c == '%' && i+2 < len(wirePath) && isHex(wirePath[i+1]) && isHex(wirePath[i+2]) {
			b := unhex(wirePath[i+1])<<4 | unhex(wirePath[i+2])
			if b < 0x80 {
				if (&url.URL{Path: "/" + string(rune(b))}).EscapedPath() != "/"+strings.ToUpper(wirePath[i:i+3]) || wirePath[i:i+3] != strings.ToUpper(wirePath[i:i+3]) {
					nonCanon = true
				}
			} else if wirePath[i:i+3] != strings.ToUpper(wirePath[i:i+3]) {
				nonCanon = true
			}
			i += 2
			continue
		}
		if c != '/' && c < 0x80 && (&url.URL{Path: "/" + string(rune(c))}).EscapedPath() != "/"+string(rune(c)) {
			rawReenc = true
		}
	}
	return
}

// the work-around regular expression of base.ParseURL, copied ONLY to name the input class of a
// finding (never used by an oracle): without user-info, the first '@' of the URL is taken for
// the end of the user-info and the text up to the next '/' for the host
var atHackRe = regexp.MustCompile(`^(.+?)://(.*?)@(.*?)/(.*?)$`)

func atBeforeEscape(u string) bool {
	m := atHackRe.FindStringSubmatch(u)
	if m == nil {
		return false
	}
	h := strings.ReplaceAll(strings.ReplaceAll(m[3], "%25", "%"), "%", "%25")
	return h != m[3]
}

// atSignClass reports whether one of the spellings of the URL that are parsed on the way (as
// given; without credentials, as on the wire; with a track selector appended) belongs to the
// input class "first '@' is not a user-info delimiter and a '%' follows before the next '/'".
func atSignClass(urls ...string) bool {
	for _, u := range urls {
		sch, auth, p, q, has := splitURL(u)
		if i := strings.LastIndex(auth, "@"); i >= 0 {
			auth = auth[i+1:]
		}
		bare := sch + "://" + auth + withQ(p, q, has)
		vs := []string{u, u + "/trackID=0", bare, bare + "/", bare + "/trackID=0"}
		// the spelling net/url gives the URL when the client writes it (classification only)
		if pu, err := url.Parse(bare); err == nil {
			vs = append(vs, pu.String(), pu.String()+"/", pu.String()+"/trackID=0")
		}
		for _, v := range vs {
			if atBeforeEscape(v) {
				return true
			}
		}
	}
	return false
}

func withQ(path, query string, has bool) string {
	if has {
		return path + "?" + query
	}
	return path
}

func (c urlCase) features() []string {
	var f []string
	add := func(s string) { f = append(f, s) }
	add("authority:" + c.Auth)
	if c.UserInfo != "" {
		add("userinfo:present")
		if strings.Contains(c.UserInfo, "%") {
			add("userinfo:escaped-password")
		}
	} else {
		add("userinfo:absent")
	}
	segs := strings.Split(strings.TrimPrefix(c.Path, "/"), "/")
	add(fmt.Sprintf("path-segments:%d", len(segs)))
	for _, s := range segs {
		for _, l := range lookalikeSegments {
			if s == l {
				add("lookalike:segment")
			}
		}
	}
	if strings.Contains(pctDecode(c.Path), "trackID") {
		add("lookalike:trackID-in-path")
	}
	for i := 0; i+2 < len(c.Path); i++ {
		if c.Path[i] != '%' {
			continue
		}
		t := c.Path[i : i+3]
		b := unhex(t[1])<<4 | unhex(t[2])
		switch {
		case t != strings.ToUpper(t):
			add("escape:lower-hex")
		case b == '/':
			add("escape:slash(%2F)")
		case b >= 0x80:
			add("escape:utf8")
		case isUnreserved(b):
			add("escape:unreserved(%41)")
		case strings.ContainsRune("=&;+@:,", rune(b)):
			add("escape:reserved")
		default:
			add("escape:canonical")
		}
	}
	for i := 0; i < len(c.Path); i++ {
		switch b := c.Path[i]; {
		case b >= 0x80:
			add("utf8:raw")
		case strings.ContainsRune("=&;+@:", rune(b)):
			add("subdelim:listed(=&;+@:)")
		case strings.ContainsRune("!*'()$,", rune(b)):
			add("subdelim:other(!*'()$,)")
		}
	}
	if c.HasQ {
		add("query:present")
		if c.Query == "" {
			add("query:empty-with-mark")
		}
		add(fmt.Sprintf("query-pairs:%d", len(strings.Split(c.Query, "&"))))
		if strings.Contains(c.Query, "/") {
			add("query:slash")
		}
		if strings.Contains(c.Query, "trackID=") {
			add("query:trackID=")
		}
		if strings.Contains(c.Query, "/trackID=") {
			add("query:/trackID=")
		}
		if strings.Contains(c.Query, "?") {
			add("query:question-mark")
		}
		if strings.Contains(c.Query, "%") {
			add("query:escape")
		}
	} else {
		add("query:absent")
	}
	if atSignClass(c.build(1)) {
		add("at-sign-before-escape")
	}
	sort.Strings(f)
	out := f[:0]
	for i, s := range f {
		if i == 0 || s != f[i-1] {
			out = append(out, s)
		}
	}
	return out
}
