package main

import (
	"fmt"
	"net/http"
	"sync"
	"sync/atomic"
	"time"

	"github.com/bluenviron/gortsplib/v5"
	"github.com/bluenviron/gortsplib/v5/pkg/base"
	"github.com/bluenviron/gortsplib/v5/pkg/description"
	"github.com/bluenviron/gortsplib/v5/pkg/format"
	"github.com/pion/rtp"

	"verif/lib/rig"
)

// Part 3: URL fidelity across a redirect followed by a session rebuild. The DESCRIBE of the first
// URL is answered with a redirect to a second URL (other path, other query); the client then sets
// up over UDP, never receives a datagram (its sockets discard everything) and rebuilds the session
// over TCP by itself. From the redirect on, every handler must observe the path and query of the
// URL the client was redirected to - also during the rebuild.

type redirectCase struct {
	Kind     string `json:"kind"`
	OldPath  string `json:"old_path"`
	OldQuery string `json:"old_query"`
	NewPath  string `json:"new_path"`
	NewQuery string `json:"new_query"`
	Status   int    `json:"redirect_status"`
	Step     string `json:"step,omitempty"`
}

type rdObs struct {
	Kind, Path, Query string
}

func runRedirectSwitch(i int) {
	evals.Add(1)
	r := run.Rand("redirect-switch", i)
	olds := [][2]string{{"/old/cam", "tok=a"}, {"/live", ""}, {"/a/b/c", "x=1&y=2"}, {"/cam/trackID=7", "k=v"}}
	news := [][2]string{{"/new/cam", "tok=b%2Fc&trackID=9"}, {"/moved/live", ""}, {"/n", "user=u&ch=2"}, {"/new/trackID=1/x", "q"}}
	o, n := olds[r.Intn(len(olds))], news[r.Intn(len(news))]
	c := redirectCase{Kind: "redirect-switch", OldPath: o[0], OldQuery: o[1], NewPath: n[0], NewQuery: n[1],
		Status: []int{http.StatusMovedPermanently, http.StatusFound}[r.Intn(2)]}
	var mu sync.Mutex
	var seen []rdObs
	var ts *rig.TestServer
	note := func(kind, path, query string) {
		mu.Lock()
		seen = append(seen, rdObs{kind, path, query})
		mu.Unlock()
	}
	target := func() string {
		u := ts.URL(c.NewPath)
		if c.NewQuery != "" {
			u += "?" + c.NewQuery
		}
		return u
	}
	var err error
	ts, err = rig.StartServer(rig.ServerOpts{UDP: true, HandlerSet: "full", NoLog: true,
		PreStart: func(t *rig.TestServer) {
			t.Core.Describe = func(ctx *gortsplib.ServerHandlerOnDescribeCtx) (*base.Response, *gortsplib.ServerStream, error) {
				note("describe", ctx.Path, ctx.Query)
				if ctx.Path == c.OldPath || ctx.Path == c.OldPath[1:] {
					return &base.Response{StatusCode: base.StatusCode(c.Status), Header: base.Header{"Location": base.HeaderValue{target()}}}, nil, nil
				}
				return &base.Response{StatusCode: base.StatusOK}, t.Stream, nil
			}
			t.Core.Setup = func(ctx *gortsplib.ServerHandlerOnSetupCtx) (*base.Response, *gortsplib.ServerStream, error) {
				note("setup", ctx.Path, ctx.Query)
				return &base.Response{StatusCode: base.StatusOK}, t.Stream, nil
			}
			t.Core.Play = func(ctx *gortsplib.ServerHandlerOnPlayCtx) (*base.Response, error) {
				note("play", ctx.Path, ctx.Query)
				return &base.Response{StatusCode: base.StatusOK}, nil
			}
		}})
	if err != nil {
		run.Fatal("redirect-switch: server: %v", err)
	}
	defer ts.Close()
	start := ts.URL(c.OldPath)
	if c.OldQuery != "" {
		start += "?" + c.OldQuery
	}
	pc, err := rig.NewPlayClient(ts, rig.ClientOpts{Name: "rd", Proto: "auto", URLOverride: start, ReadTimeout: 10 * time.Second, WriteTimeout: 10 * time.Second,
		Mutate: func(cl *gortsplib.Client) {
			cl.InitialUDPReadTimeout = 400 * time.Millisecond
			cl.ListenPacket = rig.BlackholeListenPacket
		}})
	if err != nil {
		run.Fatal("redirect-switch: client: %v", err)
	}
	if err := pc.Start(); err != nil {
		run.Inconclusive("redirect-switch: session could not be started: " + err.Error())
		return
	}
	defer pc.Close()
	stop := make(chan struct{})
	var wg sync.WaitGroup
	wg.Add(1)
	go func() {
		defer wg.Done()
		m := ts.Stream.Desc.Medias[0]
		for k := 0; ; k++ {
			select {
			case <-stop:
				return
			case <-time.After(5 * time.Millisecond):
			}
			_ = ts.Stream.WritePacketRTP(m, &rtp.Packet{Header: rtp.Header{Version: 2, PayloadType: m.Formats[0].PayloadType(), SequenceNumber: uint16(k), Timestamp: uint32(k) * 3000, SSRC: 1}, Payload: []byte("redirect-switch")})
		}
	}()
	deadline := time.Now().Add(12 * time.Second)
	for pc.Rd.Delivered() == 0 && time.Now().Before(deadline) && pc.Died() == nil {
		time.Sleep(20 * time.Millisecond)
	}
	close(stop)
	wg.Wait()
	mu.Lock()
	obs := append([]rdObs(nil), seen...)
	mu.Unlock()
	run.Count("cases:redirect-then-transport-switch", 1)
	run.Distinct(fmt.Sprintf("redirect-switch|%s|%s|%d", c.OldPath, c.NewPath, c.Status))
	wantPath := []string{c.NewPath, c.NewPath[1:]}
	first := true
	for k, ob := range obs {
		if first && ob.Kind == "describe" {
			first = false
			continue // the redirected DESCRIBE itself carries the first URL
		}
		if (ob.Path != wantPath[0] && ob.Path != wantPath[1]) || ob.Query != c.NewQuery {
			w := c
			w.Step = ob.Kind
			run.Violation("redirect/"+ob.Kind+"/url-of-before-the-redirect",
				fmt.Sprintf("after a %d redirect from %s?%s to %s?%s the %s handler (observation %d of %d) saw path %q query %q", c.Status, c.OldPath, c.OldQuery, c.NewPath, c.NewQuery, ob.Kind, k+1, len(obs), ob.Path, ob.Query),
				map[string]any{"case": w, "observations": obs})
			return
		}
	}
	if !pc.Switched.Load() {
		run.Inconclusive("redirect-switch: the client never switched transport")
		return
	}
	if pc.Rd.Delivered() == 0 {
		run.Violation("redirect/no-media-after-switch", fmt.Sprintf("after a redirect and the switch to TCP the client received nothing within 12 s (client error: %v)", pc.Died()),
			map[string]any{"case": c, "observations": obs})
		return
	}
	run.Count("redirect-switch:observations-checked", int64(len(obs)))
}

// runRefusedThenOther: the same client first tries stream A, whose first SETUP the application
// refuses with a status that is not retried, and then describes, sets up and plays stream B
// (another path and query). The refusal of A must leave nothing behind that keeps B's requests
// from reaching the server with B's path and query.
func runRefusedThenOther(i int) {
	evals.Add(1)
	r := run.Rand("refused-then-other", i)
	as := [][2]string{{"/cam/main", "res=hi"}, {"/a", ""}, {"/x/trackID=3", "t=1"}}
	bs := [][2]string{{"/cam/sub", "res=lo&tok=a%2Fb"}, {"/b/c", ""}, {"/y", "trackID=2"}}
	a, b := as[r.Intn(len(as))], bs[r.Intn(len(bs))]
	status := []base.StatusCode{base.StatusServiceUnavailable, base.StatusNotFound, base.StatusForbidden}[r.Intn(3)]
	c := redirectCase{Kind: "refused-setup-then-other-url", OldPath: a[0], OldQuery: a[1], NewPath: b[0], NewQuery: b[1], Status: int(status)}
	var mu sync.Mutex
	var seen []rdObs
	note := func(kind, path, query string) {
		mu.Lock()
		seen = append(seen, rdObs{kind, path, query})
		mu.Unlock()
	}
	isA := func(p string) bool { return p == a[0] || p == a[0][1:] }
	ts, err := rig.StartServer(rig.ServerOpts{UDP: true, HandlerSet: "full", NoLog: true,
		PreStart: func(t *rig.TestServer) {
			t.Core.Describe = func(ctx *gortsplib.ServerHandlerOnDescribeCtx) (*base.Response, *gortsplib.ServerStream, error) {
				note("describe", ctx.Path, ctx.Query)
				return &base.Response{StatusCode: base.StatusOK}, t.Stream, nil
			}
			t.Core.Setup = func(ctx *gortsplib.ServerHandlerOnSetupCtx) (*base.Response, *gortsplib.ServerStream, error) {
				note("setup", ctx.Path, ctx.Query)
				if isA(ctx.Path) {
					return &base.Response{StatusCode: status}, nil, nil
				}
				return &base.Response{StatusCode: base.StatusOK}, t.Stream, nil
			}
			t.Core.Play = func(ctx *gortsplib.ServerHandlerOnPlayCtx) (*base.Response, error) {
				note("play", ctx.Path, ctx.Query)
				return &base.Response{StatusCode: base.StatusOK}, nil
			}
		}})
	if err != nil {
		run.Fatal("refused-then-other: server: %v", err)
	}
	defer ts.Close()
	mkURL := func(pq [2]string) *base.URL {
		s := ts.URL(pq[0])
		if pq[1] != "" {
			s += "?" + pq[1]
		}
		u, _ := base.ParseURL(s)
		return u
	}
	ua, ub := mkURL(a), mkURL(b)
	proto := gortsplib.ProtocolTCP
	cl := &gortsplib.Client{Scheme: ua.Scheme, Host: ua.Host, Protocol: &proto, ReadTimeout: 10 * time.Second, WriteTimeout: 10 * time.Second}
	if err := cl.Start(); err != nil {
		run.Fatal("refused-then-other: client: %v", err)
	}
	defer cl.Close()
	wit := func() map[string]any {
		mu.Lock()
		defer mu.Unlock()
		return map[string]any{"case": c, "observations": append([]rdObs(nil), seen...)}
	}
	da, _, err := cl.Describe(ua)
	if err != nil {
		run.Inconclusive("refused-then-other: DESCRIBE of the first stream failed: " + err.Error())
		return
	}
	if _, err := cl.Setup(da.BaseURL, da.Medias[0], 0, 0); err == nil {
		run.Inconclusive("refused-then-other: the refused SETUP returned no error")
		return
	}
	run.Count("cases:refused-setup-then-other-url", 1)
	run.Distinct(fmt.Sprintf("refused-then-other|%s|%s|%d", a[0], b[0], status))
	db, _, err := cl.Describe(ub)
	if err != nil {
		run.Violation("refused-setup/describe-of-other-url-failed", fmt.Sprintf("after a SETUP of %s refused with %d, DESCRIBE of %s fails: %v", ua, status, ub, err), wit())
		return
	}
	for k, m := range db.Medias {
		if _, err := cl.Setup(db.BaseURL, m, 0, 0); err != nil {
			run.Violation("refused-setup/setup-of-other-url-failed", fmt.Sprintf("after a SETUP of %s refused with %d, SETUP of media %d of %s fails: %v", ua, status, k, ub, err), wit())
			return
		}
	}
	if _, err := cl.Play(nil); err != nil {
		run.Violation("refused-setup/play-of-other-url-failed", fmt.Sprintf("after a SETUP of %s refused with %d, PLAY of %s fails: %v", ua, status, ub, err), wit())
		return
	}
	mu.Lock()
	obs := append([]rdObs(nil), seen...)
	mu.Unlock()
	// everything after the refused SETUP belongs to stream B
	past := false
	for k, ob := range obs {
		if !past {
			if ob.Kind == "setup" && isA(ob.Path) {
				past = true
			}
			continue
		}
		if (ob.Path != b[0] && ob.Path != b[0][1:]) || ob.Query != b[1] {
			run.Violation("refused-setup/"+ob.Kind+"/url-of-the-refused-stream", fmt.Sprintf("observation %d (%s) after the refused SETUP carries path %q query %q, expected %q %q", k+1, ob.Kind, ob.Path, ob.Query, b[0], b[1]), wit())
			return
		}
	}
	run.Count("refused-then-other:observations-checked", int64(len(obs)))
}

// runTwoDescribesThenSwitch: the client describes stream A, then stream B (probing), then sets up
// and plays A's medias; UDP is discarded, so it rebuilds the session over TCP by itself. Every
// SETUP and PLAY - before and after the rebuild - belongs to A: the handlers must see A's path and
// query, never B's.
func runTwoDescribesThenSwitch(i int) {
	evals.Add(1)
	r := run.Rand("two-describes-switch", i)
	as := [][2]string{{"/cam/streamA", "res=hd&key=a%2Fb"}, {"/a", ""}, {"/x/trackID=3", "t=1"}}
	bs := [][2]string{{"/cam/streamB", "res=sd"}, {"/b/c", ""}, {"/y", "trackID=2"}}
	a, b := as[r.Intn(len(as))], bs[r.Intn(len(bs))]
	c := redirectCase{Kind: "two-describes-then-transport-switch", OldPath: a[0], OldQuery: a[1], NewPath: b[0], NewQuery: b[1]}
	var mu sync.Mutex
	var seen []rdObs
	note := func(kind, path, query string) {
		mu.Lock()
		seen = append(seen, rdObs{kind, path, query})
		mu.Unlock()
	}
	ts, err := rig.StartServer(rig.ServerOpts{UDP: true, HandlerSet: "full", NoLog: true,
		PreStart: func(t *rig.TestServer) {
			t.Core.Describe = func(ctx *gortsplib.ServerHandlerOnDescribeCtx) (*base.Response, *gortsplib.ServerStream, error) {
				note("describe", ctx.Path, ctx.Query)
				return &base.Response{StatusCode: base.StatusOK}, t.Stream, nil
			}
			t.Core.Setup = func(ctx *gortsplib.ServerHandlerOnSetupCtx) (*base.Response, *gortsplib.ServerStream, error) {
				note("setup", ctx.Path, ctx.Query)
				return &base.Response{StatusCode: base.StatusOK}, t.Stream, nil
			}
			t.Core.Play = func(ctx *gortsplib.ServerHandlerOnPlayCtx) (*base.Response, error) {
				note("play", ctx.Path, ctx.Query)
				return &base.Response{StatusCode: base.StatusOK}, nil
			}
		}})
	if err != nil {
		run.Fatal("two-describes: server: %v", err)
	}
	defer ts.Close()
	mkURL := func(pq [2]string) *base.URL {
		s := ts.URL(pq[0])
		if pq[1] != "" {
			s += "?" + pq[1]
		}
		u, _ := base.ParseURL(s)
		return u
	}
	ua, ub := mkURL(a), mkURL(b)
	var switched atomic.Bool
	cl := &gortsplib.Client{Scheme: ua.Scheme, Host: ua.Host, ReadTimeout: 10 * time.Second, WriteTimeout: 10 * time.Second,
		InitialUDPReadTimeout: 400 * time.Millisecond, ListenPacket: rig.BlackholeListenPacket,
		OnTransportSwitch: func(error) { switched.Store(true) }}
	got := make(chan struct{}, 1)
	if err := cl.Start(); err != nil {
		run.Fatal("two-describes: client: %v", err)
	}
	defer cl.Close()
	da, _, err := cl.Describe(ua)
	if err != nil {
		run.Inconclusive("two-describes: DESCRIBE A failed: " + err.Error())
		return
	}
	if _, _, err := cl.Describe(ub); err != nil {
		run.Inconclusive("two-describes: DESCRIBE B failed: " + err.Error())
		return
	}
	if err := cl.SetupAll(da.BaseURL, da.Medias); err != nil {
		run.Inconclusive("two-describes: SETUP failed: " + err.Error())
		return
	}
	cl.OnPacketRTPAny(func(*description.Media, format.Format, *rtp.Packet) {
		select {
		case got <- struct{}{}:
		default:
		}
	})
	if _, err := cl.Play(nil); err != nil {
		run.Inconclusive("two-describes: PLAY failed: " + err.Error())
		return
	}
	stop := make(chan struct{})
	var wg sync.WaitGroup
	wg.Add(1)
	go func() {
		defer wg.Done()
		m := ts.Stream.Desc.Medias[0]
		for k := 0; ; k++ {
			select {
			case <-stop:
				return
			case <-time.After(5 * time.Millisecond):
			}
			_ = ts.Stream.WritePacketRTP(m, &rtp.Packet{Header: rtp.Header{Version: 2, PayloadType: m.Formats[0].PayloadType(), SequenceNumber: uint16(k), Timestamp: uint32(k) * 3000, SSRC: 1}, Payload: []byte("two-describes")})
		}
	}()
	select {
	case <-got:
	case <-time.After(12 * time.Second):
	}
	close(stop)
	wg.Wait()
	mu.Lock()
	obs := append([]rdObs(nil), seen...)
	mu.Unlock()
	run.Count("cases:two-describes-then-transport-switch", 1)
	run.Distinct(fmt.Sprintf("two-describes|%s|%s", a[0], b[0]))
	if !switched.Load() {
		run.Inconclusive("two-describes: the client never switched transport")
		return
	}
	for k, ob := range obs {
		if ob.Kind == "describe" {
			continue
		}
		if (ob.Path != a[0] && ob.Path != a[0][1:]) || ob.Query != a[1] {
			w := c
			w.Step = ob.Kind
			run.Violation("switch/"+ob.Kind+"/url-of-another-described-stream",
				fmt.Sprintf("the client described %s?%s, then %s?%s, and played the first: the %s handler (observation %d of %d) saw path %q query %q", a[0], a[1], b[0], b[1], ob.Kind, k+1, len(obs), ob.Path, ob.Query),
				map[string]any{"case": w, "observations": obs})
			return
		}
	}
	run.Count("two-describes:observations-checked", int64(len(obs)))
}
