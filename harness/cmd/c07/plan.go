package main

import (
	"math/rand"
)

// op is one fault. Ops are applied one after the other to the arrival list; a packet is addressed
// by (frame, packet index) and found at its first occurrence in the current list.
type op struct {
	Kind  string `json:"kind"`
	Frame int    `json:"frame"`
	Pkt   int    `json:"pkt"`
	N     int    `json:"n,omitempty"` // burst length / displacement
}

const (
	opDrop      = "drop"
	opDup       = "dup"
	opSwapNext  = "swap-next"
	opSwapPrev  = "swap-prev"
	opDropFrame = "drop-frame"
	opDupFrame  = "dup-frame"
	opBurstDrop = "burst-drop" // N consecutive packets from (frame, pkt) on
	opDelay     = "delay"      // the packet arrives N positions later
	opDupLate   = "dup-late"   // a second copy arrives N positions later
)

var packetOps = []string{opDrop, opDup, opSwapNext, opSwapPrev}

func find(arr [][2]int, f, k int) int {
	for i, a := range arr {
		if a[0] == f && a[1] == k {
			return i
		}
	}
	return -1
}

// apply returns the arrival list after the fault (always a fresh slice).
func apply(arr [][2]int, o op, npk []int) [][2]int {
	out := make([][2]int, 0, len(arr)+8)
	switch o.Kind {
	case opDropFrame:
		for _, a := range arr {
			if a[0] != o.Frame {
				out = append(out, a)
			}
		}
		return out
	case opDupFrame:
		lastIdx := -1
		for i, a := range arr {
			if a[0] == o.Frame {
				lastIdx = i
			}
		}
		if lastIdx < 0 {
			return append(out, arr...)
		}
		out = append(out, arr[:lastIdx+1]...)
		for k := 0; k < npk[o.Frame]; k++ {
			out = append(out, [2]int{o.Frame, k})
		}
		return append(out, arr[lastIdx+1:]...)
	}
	i := find(arr, o.Frame, o.Pkt)
	if i < 0 {
		return append(out, arr...)
	}
	switch o.Kind {
	case opDrop:
		out = append(out, arr[:i]...)
		out = append(out, arr[i+1:]...)
	case opBurstDrop:
		out = append(out, arr[:i]...)
		out = append(out, arr[min(i+max(o.N, 1), len(arr)):]...)
	case opDup:
		out = append(out, arr[:i+1]...)
		out = append(out, arr[i])
		out = append(out, arr[i+1:]...)
	case opSwapNext:
		out = append(out, arr...)
		if i+1 < len(out) {
			out[i], out[i+1] = out[i+1], out[i]
		}
	case opSwapPrev:
		out = append(out, arr...)
		if i > 0 {
			out[i], out[i-1] = out[i-1], out[i]
		}
	case opDelay:
		j := min(i+max(o.N, 1), len(arr)-1)
		out = append(out, arr[:i]...)
		out = append(out, arr[i+1:j+1]...)
		out = append(out, arr[i])
		out = append(out, arr[j+1:]...)
	case opDupLate:
		j := min(i+1+max(o.N, 1), len(arr))
		out = append(out, arr[:j]...)
		out = append(out, arr[i])
		out = append(out, arr[j:]...)
	default:
		out = append(out, arr...)
	}
	return out
}

func applyAll(base [][2]int, ops []op, npk []int) [][2]int {
	arr := base
	for _, o := range ops {
		arr = apply(arr, o, npk)
	}
	if len(ops) == 0 {
		arr = append([][2]int(nil), base...)
	}
	return arr
}

// posClass names the position of packet k in a frame of n packets.
func posClass(k, n int) string {
	switch {
	case n == 1:
		return "only"
	case k == 0:
		return "first"
	case k == n-1:
		return "last"
	}
	return "middle"
}

func (o op) class(npk []int) string {
	switch o.Kind {
	case opDropFrame, opDupFrame:
		return "frame"
	}
	return posClass(o.Pkt, npk[o.Frame])
}

// frameFaults lists the systematic single faults on frame f: every packet position x {drop,
// duplicate, swap with next, swap with previous} plus the two whole-frame faults. With coarse set,
// only the first, one middle and the last packet are used.
func frameFaults(f, n int, coarse bool) []op {
	var out []op
	for k := 0; k < n; k++ {
		if coarse && k != 0 && k != n-1 && k != n/2 {
			continue
		}
		for _, kind := range packetOps {
			out = append(out, op{Kind: kind, Frame: f, Pkt: k})
		}
	}
	return append(out, op{Kind: opDropFrame, Frame: f}, op{Kind: opDupFrame, Frame: f})
}

// randomOps draws a PRNG fault mix over a PRNG subset of frames.
func randomOps(r *rand.Rand, npk []int) []op {
	n := len(npk)
	nops := 1 + r.Intn(6)
	if r.Intn(8) == 0 {
		nops += r.Intn(8)
	}
	all := []string{opDrop, opDrop, opDup, opSwapNext, opSwapPrev, opDropFrame, opDupFrame, opBurstDrop, opDelay, opDupLate}
	ops := make([]op, 0, nops)
	// faults concentrate on a subset of frames so that clean frames remain
	sub := make([]int, 1+r.Intn(max(n/2, 1)))
	for i := range sub {
		sub[i] = r.Intn(n)
	}
	for i := 0; i < nops; i++ {
		f := sub[r.Intn(len(sub))]
		o := op{Kind: all[r.Intn(len(all))], Frame: f, Pkt: r.Intn(npk[f])}
		switch r.Intn(4) { // bias towards the edges of a frame
		case 0:
			o.Pkt = 0
		case 1:
			o.Pkt = npk[f] - 1
		}
		switch o.Kind {
		case opBurstDrop:
			o.N = 2 + r.Intn(5)
		case opDelay, opDupLate:
			o.N = 1 + r.Intn(12)
		}
		ops = append(ops, o)
	}
	return ops
}
