// C07: depacketizers resynchronise after loss, duplication and reordering.
//
// Monitor: a stream of frames with unique content and strictly increasing timestamps is encoded by
// the real encoder; a fault plan (drop / duplicate / swap / displace packets and whole frames)
// rewrites the packet sequence; the arrival sequence is fed to a fresh real decoder and every
// Decode return value is logged (copied at return time). The oracle (judge.go) derives from the
// arrival order alone which frames are claimable and checks that each of them is returned intact,
// exactly once, no later than the call that processes the first packet of the following frame.
// Panics are recovered per plan; a plan that does not return is detected by a progress watchdog and
// must reproduce in a fresh attempt to count.
//
// Systematic part (independent of the seed): per decoder, parameter set and payload limit, every
// frame kind (single packet / aggregated / 2 / 3 / many fragments / mixed) with every kind of
// neighbour, every packet position x {drop, duplicate, swap with next, swap with previous} + whole
// frame dropped / duplicated on one frame, and all pairs of such faults on two adjacent frames;
// half of the streams have the 16-bit sequence number wrap inside the faulted frame.
// Sampled part: PRNG streams, PRNG subsets of frames with PRNG fault mixes including bursts, late
// duplicates and displacements, sequence-number wrap at a PRNG place.
package main

import (
	"fmt"
	"hash/fnv"
	"os"
	"runtime"
	"runtime/debug"
	"runtime/pprof"
	"sort"
	"sync"
	"sync/atomic"
	"time"

	"verif/lib/codecs"
	"verif/lib/vlib"
)

var (
	run         *vlib.Run
	evals       atomic.Int64
	samplesFull atomic.Bool
)

type witness struct {
	streamSpec
	Arrival [][2]int `json:"arrival"`    // arrival order as (frame index, packet index) pairs
	Ops     []op     `json:"fault_plan"` // the (minimised) faults that produce Arrival from the encoder's order
	// diagnostics (ignored by replay)
	Class   string   `json:"class,omitempty"`
	Frame   int      `json:"failing_frame"`
	Detail  string   `json:"detail,omitempty"`
	Kinds   []string `json:"frame_kinds,omitempty"`
	Packets []int    `json:"packets_per_frame,omitempty"`
	Actual  [][]int  `json:"actual_unit_sizes,omitempty"`
	Stack   string   `json:"stack,omitempty"`
}

// ---------------------------------------------------------------------------------------------
// progress watchdog (no wall clock in the oracle: it only detects a Decode that does not return)

type planRef struct {
	st  *stream
	arr [][2]int
	ops []op
}

type slot struct {
	beat atomic.Int64
	cur  atomic.Pointer[planRef]
}

var slots []slot

const hangAfter = 90 * time.Second

func watchdog(done <-chan struct{}) {
	lastBeat := make([]int64, len(slots))
	since := make([]time.Time, len(slots))
	now := time.Now()
	for i := range since {
		since[i] = now
	}
	tick := time.NewTicker(3 * time.Second)
	defer tick.Stop()
	for {
		select {
		case <-done:
			return
		case now = <-tick.C:
		}
		for i := range slots {
			b := slots[i].beat.Load()
			ref := slots[i].cur.Load()
			if b != lastBeat[i] || ref == nil {
				lastBeat[i], since[i] = b, now
				continue
			}
			if now.Sub(since[i]) < hangAfter {
				continue
			}
			// the worker has been inside one plan for a very long time: fresh attempt
			if !returnsWithin(ref, hangAfter) {
				run.Violation(ref.st.f.Name+"/hang", "Decode does not return (reproduced in a fresh attempt)", makeWitness(ref.st, ref.arr, ref.ops, verdict{class: "hang"}))
				finish()
			}
			run.Inconclusive("watchdog-fired-but-not-reproduced")
			since[i] = now
		}
	}
}

func returnsWithin(ref *planRef, d time.Duration) bool {
	ch := make(chan struct{})
	go func() {
		defer func() { _ = recover(); close(ch) }()
		ref.st.execute(ref.arr)
	}()
	select {
	case <-ch:
		return true
	case <-time.After(d):
		return false
	}
}

// ---------------------------------------------------------------------------------------------
// per-job statistics, flushed once

type stats struct {
	c        map[string]int64
	mx       map[string]int64
	distinct map[uint64]struct{}
}

func newStats() *stats {
	return &stats{c: map[string]int64{}, mx: map[string]int64{}, distinct: map[uint64]struct{}{}}
}

func (s *stats) flush() {
	for k, v := range s.c {
		run.Count(k, v)
	}
	for k, v := range s.mx {
		run.Max(k, v)
	}
	for h := range s.distinct {
		run.DistinctHash(h)
	}
}

func specHash(sp streamSpec) uint64 {
	h := fnv.New64a()
	fmt.Fprintf(h, "%s|%s|%d|%d|%d|%v", sp.Format, sp.Params.Label, sp.Max, sp.InitSeq, sp.Seed, sp.Frames)
	return h.Sum64()
}

func arrHash(h uint64, arr [][2]int) uint64 {
	for _, a := range arr {
		h = (h ^ uint64(a[0]*131+a[1]+1)) * 0x100000001b3
		h ^= h >> 29
	}
	return h
}

// ---------------------------------------------------------------------------------------------
// violations

// family maps a fault kind to its coarse family (used in keys: the same defect reached by a plain
// drop or by a burst must not get different keys).
func family(kind string) string {
	switch kind {
	case opDrop, opBurstDrop, opDropFrame:
		return "loss"
	case opDup, opDupFrame, opDupLate:
		return "duplication"
	}
	return "reordering"
}

func faultKey(ops []op) string {
	if len(ops) == 0 {
		return "no-fault"
	}
	set := map[string]bool{}
	for _, o := range ops {
		set[family(o.Kind)] = true
	}
	if len(set) > 1 {
		return "combined" // a minimised plan that needs faults of more than one family
	}
	for k := range set {
		return k
	}
	return ""
}

func makeWitness(st *stream, arr [][2]int, ops []op, v verdict) witness {
	w := witness{streamSpec: st.spec, Arrival: arr, Ops: ops, Class: v.class, Frame: v.frame, Detail: v.detail,
		Kinds: st.kinds, Packets: st.npk}
	for i := range st.frames {
		w.Actual = append(w.Actual, st.actualSizes(i))
	}
	return w
}

func reportPanic(st *stream, arr [][2]int, ops []op, pi *panicInfo) {
	w := makeWitness(st, arr, ops, verdict{class: "panic", frame: -1, detail: fmt.Sprintf("call %d: %s", pi.call, pi.val)})
	w.Stack = pi.stack
	run.Violation(st.f.Name+"/panic/"+vlib.PanicSite(pi.stack),
		fmt.Sprintf("%s Decode panics on a faulted valid stream at call %d: %s", st.f.Name, pi.call, pi.val), w)
}

// baselineKey names a frame that is not even returned intact from the unfaulted stream (an encoder /
// round-trip defect, C03's subject). AV1's D1 is recognised from the size arithmetic; everything
// else is keyed by the parameter set (grammar variant) of the codec adapter that exposes it.
func baselineKey(st *stream, v verdict) (string, string) {
	if st.f.Name == "rtpav1" && av1EmptyFragment(st.spec.Max, st.actualSizes(v.frame)) {
		return "rtpav1/claimable-frame-" + v.class + "/encoder-empty-fragment",
			"AV1: the encoder closes a packet with the continuation flag although no fragment was written (D1); the decoder merges two OBUs"
	}
	what := st.f.Name + " [" + st.p.Label + "]: frame not returned intact from the unfaulted stream"
	switch {
	case st.f.Name == "rtpmpeg1audio" && st.p.Variant == "lsf3":
		what = "MPEG-2 layer III audio: the decoder derives the frame length as 144*bitrate/rate, twice the real 72*bitrate/rate"
	case st.f.Name == "rtpklv" && st.p.Variant == "multi":
		what = "KLV: a KLVunit of several items spanning several packets is returned as soon as the first item's length is reached"
	case st.f.Name == "rtpmjpeg" && st.p.Variant == "dri":
		what = "M-JPEG with a restart interval: the encoder sends RFC 2435 types 64..127, which the decoder rejects"
	}
	return st.f.Name + "/claimable-frame-" + v.class + "/no-fault/" + st.p.Label, what
}

func reportBaseline(st *stream) func(v verdict, pi *panicInfo) {
	return func(v verdict, pi *panicInfo) {
		if pi != nil {
			reportPanic(st, st.identity(), nil, pi)
			return
		}
		key, what := baselineKey(st, v)
		run.Violation(key, fmt.Sprintf("%s (frame %d, unit sizes %v, limit %d): %s", what, v.frame, st.actualSizes(v.frame), st.spec.Max, v.detail),
			makeWitness(st, st.identity(), nil, v))
	}
}

// shrink removes faults from a failing plan while a verdict of the same class remains.
func shrink(st *stream, ops []op, class string) ([]op, [][2]int, verdict) {
	fails := func(o []op) ([][2]int, verdict, bool) {
		arr := st.arrival(o)
		outs, _, pi := st.execute(arr)
		if pi != nil {
			return arr, verdict{}, false
		}
		for _, v := range st.judge(arr, outs, false).verdicts {
			if v.class == class {
				return arr, v, true
			}
		}
		return arr, verdict{}, false
	}
	arr, v, _ := fails(ops)
	for again := true; again && len(ops) > 1; {
		again = false
		for i := range ops {
			red := append(append([]op(nil), ops[:i]...), ops[i+1:]...)
			if a2, v2, ok := fails(red); ok {
				ops, arr, v, again = red, a2, v2, true
				break
			}
		}
	}
	return ops, arr, v
}

func reportVerdict(st *stream, ops []op, v verdict) {
	ops, arr, v2 := shrink(st, ops, v.class)
	if v2.class == "" { // (cannot happen: the unreduced plan fails)
		v2, arr = v, st.arrival(ops)
	}
	key := st.f.Name + "/claimable-frame-" + v2.class + "/" + faultKey(ops)
	what := fmt.Sprintf("%s: claimable frame %d (%s, %d packets; previous frame intact) %s after faults %v; limit %d, frame kinds %v",
		st.f.Name, v2.frame, st.kinds[v2.frame], st.npk[v2.frame], v2.detail, ops, st.spec.Max, st.kinds)
	run.Violation(key, what, makeWitness(st, arr, ops, v2))
}

// ---------------------------------------------------------------------------------------------
// running one plan

type worker struct {
	s  *stats
	sl *slot
}

// counter names per format (built once: no string concatenation per plan)
type names struct {
	plans, claimable, checked, noDeadline, nonUnique, errs, returned, lag string
	faults                                                                map[string]string
}

var (
	namesMu  sync.Mutex
	namesFor = map[string]*names{}
)

func getNames(f string) *names {
	namesMu.Lock()
	defer namesMu.Unlock()
	if n, ok := namesFor[f]; ok {
		return n
	}
	n := &names{plans: "plans/" + f, claimable: "claimable-frames/" + f, checked: "claimable-frames-checked/" + f,
		noDeadline: "claimable-without-deadline/" + f, nonUnique: "claimable-nonunique-content-skipped/" + f,
		errs: "decode-errors-returned/" + f, returned: "frames-returned/" + f, lag: "latest-return-calls-after-last-packet/" + f,
		faults: map[string]string{}}
	for _, k := range []string{opDrop, opDup, opSwapNext, opSwapPrev, opDropFrame, opDupFrame, opBurstDrop, opDelay, opDupLate} {
		for _, c := range []string{"only", "first", "middle", "last", "frame"} {
			n.faults[k+"/"+c] = "faults/" + f + "/" + k + "/" + c
		}
	}
	namesFor[f] = n
	return n
}

func (w *worker) runPlan(st *stream, ops []op, part string) {
	arr := st.arrival(ops)
	w.sl.cur.Store(&planRef{st, arr, ops})
	w.sl.beat.Add(1)
	evals.Add(1)
	name := st.f.Name
	if st.nm == nil {
		st.nm = getNames(name)
	}
	nm := st.nm
	outs, errs, pi := st.execute(arr)
	c := w.s.c
	c[nm.plans]++
	c[part]++
	for _, o := range ops {
		c[nm.faults[o.Kind+"/"+o.class(st.npk)]]++
	}
	if pi != nil {
		reportPanic(st, arr, ops, pi)
		return
	}
	j := st.judge(arr, outs, false)
	c[nm.claimable] += int64(j.claimable)
	c[nm.checked] += int64(j.judged)
	c["claimable-frames-checked"] += int64(j.judged)
	c[nm.noDeadline] += int64(j.noDeadline)
	c[nm.nonUnique] += int64(j.nonUnique)
	c[nm.errs] += int64(errs)
	c[nm.returned] += int64(len(outs))
	w.s.mx[nm.lag] = max(w.s.mx[nm.lag], int64(j.maxLag))
	if j.judged > 0 && len(ops) > 0 {
		w.s.distinct[arrHash(specHash(st.spec), arr)] = struct{}{}
	}
	for _, v := range j.verdicts {
		c["claimable-frames-"+v.class+"/"+name]++
		reportVerdict(st, ops, v)
	}
	if len(ops) > 0 && j.judged > 0 && !samplesFull.Load() {
		if !run.WantSample() {
			samplesFull.Store(true)
		}
		run.Sample(map[string]any{"format": name, "params": st.p.Label, "max_payload": st.spec.Max, "frame_kinds": st.kinds,
			"packets_per_frame": st.npk, "fault_plan": ops, "arrival": arr, "claimable_frames_checked": j.judged, "frames_returned": len(outs)})
	}
}

// ---------------------------------------------------------------------------------------------
// streams

type fp struct {
	f *codecs.Format
	p codecs.Params
}

func inScope() []fp {
	var out []fp
	for _, f := range codecs.All() {
		if !f.Stateful {
			continue
		}
		for _, p := range f.Params {
			if f.Name == "rtpvp9" && p.Variant == "show" {
				continue // 1-byte show-existing-frame headers: content cannot be made unique
			}
			out = append(out, fp{f, p})
		}
	}
	return out
}

// limitsFor: the payload limits of the systematic part.
func limitsFor(x fp, thorough bool) []int {
	lo := x.f.MinLimit(x.p)
	ms := []int{lo + 5, lo + 11, max(64, lo+30), 1450}
	if thorough {
		ms = append(ms, lo, lo+1, lo+2, lo+3, lo+8, lo+17, max(257, lo+100), 1200)
	}
	sort.Ints(ms)
	out := ms[:0]
	for i, m := range ms {
		if i == 0 || m != ms[i-1] {
			out = append(out, m)
		}
	}
	return out
}

// reseq renumbers the packets so that the stream starts at init (encoders number gaplessly from the
// configured initial value - C06 checks that; the stream stays what buildStream would produce).
func (st *stream) reseq(init uint16) {
	seq := init
	for _, pk := range st.pkts {
		for _, p := range pk {
			p.SequenceNumber = seq
			seq++
		}
	}
	st.spec.InitSeq = init
}

func (st *stream) wrapsInside() bool {
	return int(st.spec.InitSeq)+st.total > 65536 && st.spec.InitSeq != 0
}

func (w *worker) prepare(st *stream) {
	st.checkBaseline(reportBaseline(st))
	c := w.s.c
	c["streams/"+st.f.Name]++
	for _, k := range st.kinds {
		c["stream-frames/"+st.f.Name+"/"+k]++
	}
	if st.wrapsInside() {
		c["streams-with-sequence-wrap/"+st.f.Name]++
	}
}

// systematic job: (format, params, limit, kind of the faulted frame).
type sysJob struct {
	x    fp
	m    int
	kind string
}

func (w *worker) systematic(jb sysJob, thorough bool) {
	x := jb.x
	ex := kindExemplars(x.f, x.p, jb.m)
	var kinds []string
	for _, k := range kindOrder {
		if len(ex[k]) > 0 {
			kinds = append(kinds, k)
		}
	}
	if len(ex[jb.kind]) == 0 {
		return
	}
	rot := 0
	pick := func(k string) []int { rot++; return ex[k][rot%len(ex[k])] }
	anyKind := func() []int { rot++; return pick(kinds[rot%len(kinds)]) }
	lead := ex[kinds[0]][0]
	build := func(frames [][]int, wrapAt int) *stream {
		// epilogue: a multi-packet frame (ends the H264 decoder's delayed mode) and a last frame
		frames = append(frames, ex[kinds[len(kinds)-1]][0], lead)
		st, err := buildStream(streamSpec{Format: x.f.Name, Params: x.p, Max: jb.m, InitSeq: 1000, Seed: uint64(jb.m)*131 + uint64(rot), Frames: frames, Epilogue: 2})
		if err != nil {
			run.Fatal("cannot build stream %s %v: %v", x.f.Name, frames, err)
		}
		if wrapAt >= 0 { // the 16-bit wrap falls between the first and the second packet of frame wrapAt
			before := 0
			for i := 0; i < wrapAt; i++ {
				before += st.npk[i]
			}
			st.reseq(uint16(65536 - before - 1))
		}
		w.prepare(st)
		return st
	}
	nstream := 0
	for _, target := range ex[jb.kind] {
		// one faulted frame (index 2) between every kind of predecessor and successor
		for _, k1 := range kinds {
			for _, k3 := range kinds {
				wrapAt := -1
				if nstream%2 == 1 {
					wrapAt = 2
				}
				nstream++
				st := build([][]int{lead, pick(k1), target, pick(k3), anyKind(), anyKind()}, wrapAt)
				w.runPlan(st, nil, "plans-systematic-no-fault")
				for _, o := range frameFaults(2, st.npk[2], false) {
					w.runPlan(st, []op{o}, "plans-systematic-one-frame")
				}
			}
		}
		// two adjacent faulted frames (2 and 3)
		for _, k3 := range kinds {
			for v := 0; v < len(ex[k3]); v++ {
				wrapAt := -1
				if nstream%2 == 1 {
					wrapAt = 2 + nstream%4/2
				}
				nstream++
				st := build([][]int{lead, anyKind(), target, ex[k3][v], anyKind(), anyKind(), anyKind()}, wrapAt)
				for _, a := range frameFaults(2, st.npk[2], !thorough) {
					for _, b := range frameFaults(3, st.npk[3], !thorough) {
						w.runPlan(st, []op{a, b}, "plans-systematic-two-adjacent-frames")
					}
				}
			}
		}
	}
}

// sampled job
func (w *worker) sampled(shard int, xs []fp, nStreams, nPlans int) {
	r := run.Rand("sampled", shard)
	for s := 0; s < nStreams; s++ {
		x := xs[(shard+s)%len(xs)]
		lo := x.f.MinLimit(x.p)
		m := lo + 1 + r.Intn(40)
		switch r.Intn(6) {
		case 0:
			m = lo + r.Intn(4)
		case 1:
			m = max(lo, []int{100, 255, 256, 500, 1200, 1450, 1460}[r.Intn(7)])
		}
		nf := 6 + r.Intn(5)
		frames := make([][]int, nf+2) // + epilogue
		for i := range frames {
			for try := 0; ; try++ {
				frames[i] = x.f.SampleSizes(r, x.p, m)
				tot := 0
				for _, v := range frames[i] {
					tot += v
				}
				if tot <= 24*m+64 || try > 8 {
					if try > 8 {
						frames[i] = []int{x.f.Fit(x.p, m)}
					}
					break
				}
			}
		}
		frames[nf] = []int{x.f.Fit(x.p, 2*m+3)} // epilogue: normally a multi-packet frame, then any frame
		st, err := buildStream(streamSpec{Format: x.f.Name, Params: x.p, Max: m, InitSeq: uint16(r.Intn(65536)), Seed: r.Uint64() >> 1, Frames: frames, Epilogue: 2})
		if err != nil {
			run.Fatal("cannot build sampled stream %s %v limit %d: %v", x.f.Name, frames, m, err)
		}
		if r.Intn(3) == 0 { // sequence-number wrap at a PRNG place inside the stream
			st.reseq(uint16(65536 - 1 - r.Intn(st.total)))
		}
		w.prepare(st)
		nOK := 0
		for _, ok := range st.baseOK {
			if ok {
				nOK++
			}
		}
		if nOK < 3 { // (a parameter set whose frames do not survive the unfaulted stream: nothing to judge)
			continue
		}
		for i := 0; i < nPlans; i++ {
			w.runPlan(st, randomOps(r, st.npk[:nf]), "plans-sampled")
		}
	}
}

// ---------------------------------------------------------------------------------------------

var finishOnce sync.Once

var stopProf = func() {}

func finish() {
	finishOnce.Do(func() {
		stopProf()
		xs := inScope()
		names := []string{}
		for _, x := range xs {
			names = append(names, x.f.Name+"["+x.p.Label+"]")
		}
		run.Extra("decoders", names)
		run.Extra("fault_kinds", []string{opDrop, opDup, opSwapNext, opSwapPrev, opDropFrame, opDupFrame, opBurstDrop, opDelay, opDupLate})
		run.Assume("clean = every packet of the frame arrives exactly once, contiguously, in order; claimable = clean, the previous frame clean, " +
			"and the previous frame's packets immediately followed by this frame's (a stray or duplicate packet in between makes the frame non-claimable)")
		run.Assume("deadline of a claimable frame = the first arriving 'first packet' of a later frame; without one (end of the finite stream) only duplication is judged")
		run.Assume("frames that are not returned intact from the unfaulted stream (encoder / round-trip defects, C03) are reported once under their own key and treated as not clean")
		run.Finish(evals.Load(),
			"one evaluation = one fault plan applied to one encoded stream and decoded by a fresh decoder. Systematic: per decoder x parameter set x payload limit, "+
				"6-7 frame streams (+ 2 untouched epilogue frames), faulted frame of every packetisation kind between every kind of neighbour, every packet position x {drop, dup, swap-next, swap-prev} + "+
				"drop-frame / dup-frame on one frame and all pairs on two adjacent frames, half of the streams with the sequence-number wrap inside the faulted frame; "+
				"sampled: PRNG streams of 6-10 frames with 1-13 PRNG faults incl. bursts, displacements and late duplicates. "+
				"distinct_nontrivial = distinct (stream, arrival order) pairs with at least one fault in which at least one claimable frame was fully checked")
	})
}

func replay() {
	var w witness
	if err := run.LoadReplay(&w); err != nil {
		run.Fatal("cannot load replay: %v", err)
	}
	st, err := buildStream(w.streamSpec)
	if err != nil {
		run.Fatal("cannot rebuild the stream: %v", err)
	}
	for _, a := range w.Arrival {
		if a[0] < 0 || a[0] >= len(st.npk) || a[1] < 0 || a[1] >= st.npk[a[0]] {
			run.Fatal("arrival element %v does not exist in the rebuilt stream (packets per frame %v)", a, st.npk)
		}
	}
	st.checkBaseline(reportBaseline(st))
	ref := &planRef{st, w.Arrival, w.Ops}
	if !returnsWithin(ref, hangAfter) {
		if !returnsWithin(ref, hangAfter) {
			run.Violation(st.f.Name+"/hang", "Decode does not return (reproduced in a fresh attempt)", w)
		} else {
			run.Inconclusive("watchdog-fired-but-not-reproduced")
		}
		run.Finish(1, "replay")
	}
	outs, errs, pi := st.execute(w.Arrival)
	if os.Getenv("C07_DEBUG") != "" {
		for _, o := range outs {
			it, ok := st.byKey[o.key]
			fmt.Printf("debug: call %d (frame %d pkt %d) returns content %016x = item %d (known %v)\n", o.call, w.Arrival[o.call][0], w.Arrival[o.call][1], o.key, it, ok)
		}
	}
	if pi != nil {
		reportPanic(st, w.Arrival, w.Ops, pi)
	} else {
		j := st.judge(w.Arrival, outs, false)
		fmt.Printf("replay: %s limit %d kinds %v packets %v arrival %v -> %d outputs, %d errors, %d claimable, %d fully checked, verdicts %v\n",
			st.f.Name, st.spec.Max, st.kinds, st.npk, w.Arrival, len(outs), errs, j.claimable, j.judged, j.verdicts)
		for _, v := range j.verdicts {
			key := st.f.Name + "/claimable-frame-" + v.class + "/" + faultKey(w.Ops)
			run.Violation(key, fmt.Sprintf("%s: claimable frame %d %s", st.f.Name, v.frame, v.detail), makeWitness(st, w.Arrival, w.Ops, v))
		}
	}
	run.Finish(1, "replay")
}

func main() {
	run = vlib.Start("C07", "fault_enumeration")
	debug.SetGCPercent(400)
	if run.Replay != "" {
		replay()
		return
	}
	if pf := os.Getenv("C07_PROF"); pf != "" {
		f, _ := os.Create(pf)
		_ = pprof.StartCPUProfile(f)
		stopProf = pprof.StopCPUProfile
	}
	thorough := !run.Quick()
	xs := inScope()
	slots = make([]slot, runtime.GOMAXPROCS(0)+1)
	done := make(chan struct{})
	go watchdog(done)

	onPanic := func(i int, v any, stack string) {
		// panics of Decode are recovered per plan; anything arriving here is the harness' own
		fmt.Printf("HARNESS-PANIC job %d: %v\n%s\n", i, v, stack)
		os.Exit(vlib.ExitHarness)
	}

	var jobs []sysJob
	for _, x := range xs {
		for _, m := range limitsFor(x, thorough) {
			for _, k := range kindOrder {
				jobs = append(jobs, sysJob{x, m, k})
			}
		}
	}
	run.Parallel(len(jobs), func(wk, i int) {
		w := &worker{s: newStats(), sl: &slots[wk]}
		w.systematic(jobs[i], thorough)
		w.sl.cur.Store(nil)
		w.s.flush()
	}, onPanic)

	shards := run.Pick(256, 8192)
	nStreams := run.Pick(24, 160)
	nPlans := run.Pick(40, 60)
	run.Parallel(shards, func(wk, i int) {
		w := &worker{s: newStats(), sl: &slots[wk]}
		w.sampled(i, xs, nStreams, nPlans)
		w.sl.cur.Store(nil)
		w.s.flush()
	}, onPanic)
	close(done)
	finish()
}
