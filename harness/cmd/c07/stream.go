package main

import (
	"fmt"
	"hash/maphash"

	"github.com/pion/rtp"

	"verif/lib/codecs"
)

// tsStep separates the timestamps of consecutive frames. Audio encoders add per-packet offsets
// (sample counts) to the frame timestamp; they stay far below this step, so timestamps of a later
// frame are always strictly greater than every timestamp of an earlier one.
const tsStep = 1 << 22

// streamSpec is the replayable description of an encoded stream.
type streamSpec struct {
	Format  string        `json:"format"`
	Params  codecs.Params `json:"params"`
	Max     int           `json:"max_payload"`
	InitSeq uint16        `json:"initial_sequence_number"`
	Seed    uint64        `json:"content_seed"`
	Frames  [][]int       `json:"frames"` // requested unit sizes of every frame
	// Epilogue: the last Epilogue frames are never touched by a fault plan: their packets are
	// appended, in order, after the faulted arrival sequence. They flush decoders that hand a frame
	// out only when the next one begins (H264), so that "late" is not mistaken for "lost".
	Epilogue int `json:"epilogue_frames"`
}

// item is what the oracle looks for in the output log: a whole frame (whole-frame family) or one
// unit of a group (audio-group family).
type item struct {
	frame  int
	unit   int
	key    uint64
	unique bool // no other item of the stream has the same content, and it is long enough (see minJudged)
}

// minJudged: frames / units shorter than this are never judged. Outputs for damaged frames are
// made of pieces of other frames' (PRNG) bytes; a 1..4-byte frame can be equal to such a piece by
// chance, which would look like a duplicate. From 5 bytes on (counter byte + PRNG bytes) the chance
// is below 2^-32 per comparison.
const minJudged = 5

type stream struct {
	spec             streamSpec
	f                *codecs.Format
	p                codecs.Params
	frames           [][][]byte      // generated content
	pkts             [][]*rtp.Packet // packets of every frame
	npk              []int
	total            int
	kinds            []string
	items            []item
	byKey            map[uint64]int // content key -> item index (first one)
	baseArr, tailArr [][2]int
	nm               *names
	ofFr             [][]int // item indexes of each frame
	baseOK           []bool  // the frame comes back intact from the unfaulted stream
}

// contentKey canonicalises a list of units into a 64-bit hash (unit lengths + bytes). M-JPEG
// frames are compared by what the RTP format preserves (dimensions, sampling, quantisation tables,
// entropy-coded data). The hash is computed at return time, before the next Decode call, so it is a
// faithful copy of what was returned.
var keySeed = maphash.MakeSeed()

func contentKey(f *codecs.Format, units [][]byte) uint64 {
	var h maphash.Hash
	h.SetSeed(keySeed)
	var hdr [8]byte
	for _, u := range units {
		if f.Name == "rtpmjpeg" {
			j, err := codecs.ParseJPEG(u)
			if err != nil {
				h.WriteString("unparseable")
				h.Write(u)
				continue
			}
			hdr = [8]byte{byte(j.Width >> 8), byte(j.Width), byte(j.Height >> 8), byte(j.Height), j.Sampling[0], j.Sampling[1], j.Sampling[2], 0xda}
			h.Write(hdr[:])
			for id := byte(0); id < 4; id++ {
				if t, ok := j.QTables[id]; ok {
					h.WriteByte(id)
					h.Write(t)
				}
			}
			h.Write(j.Data)
			continue
		}
		n := len(u)
		hdr = [8]byte{byte(n >> 24), byte(n >> 16), byte(n >> 8), byte(n), 0x55}
		h.Write(hdr[:5])
		h.Write(u)
	}
	return h.Sum64()
}

// genFrame builds the content of frame i. Formats whose frames are lists of independent units get
// every unit from its own Gen call so that each unit carries its own counter (the audio-group
// oracle matches unit by unit); blob formats get one call with the whole size vector.
func genFrame(f *codecs.Format, p codecs.Params, seed uint64, i int, sizes []int, unitBase int) [][]byte {
	r := codecs.NewRand(seed*0x9e3779b97f4a7c15 + uint64(i)*0x100000001b3 + 7)
	if f.Blob || f.Family != codecs.AudioGroup {
		return f.Gen(r, p, sizes, uint64(unitBase+1))
	}
	out := make([][]byte, 0, len(sizes))
	for k, n := range sizes {
		u := f.Gen(r, p, []int{n}, uint64(unitBase+k+1))
		out = append(out, u...)
	}
	return out
}

// buildStream generates and encodes the frames of a spec. The result is deterministic in the spec.
func buildStream(spec streamSpec) (*stream, error) {
	f := codecs.ByName(spec.Format)
	if f == nil {
		return nil, fmt.Errorf("unknown format %q", spec.Format)
	}
	st := &stream{spec: spec, f: f, p: spec.Params, byKey: map[uint64]int{}}
	enc, err := f.NewEncoder(spec.Params, codecs.EncConf{
		PayloadMaxSize: spec.Max, SSRC: 0x0c07c07c, InitialSequenceNumber: spec.InitSeq, PayloadType: 96,
	})
	if err != nil {
		return nil, err
	}
	unitBase := 0
	for i, sizes := range spec.Frames {
		fr := genFrame(f, spec.Params, spec.Seed, i, sizes, unitBase)
		unitBase += len(sizes)
		pk, err := enc(fr)
		if err != nil {
			return nil, fmt.Errorf("encode frame %d: %w", i, err)
		}
		if len(pk) == 0 {
			return nil, fmt.Errorf("encode frame %d: no packets", i)
		}
		for _, p := range pk {
			p.Timestamp += uint32(i+1) * tsStep
		}
		st.frames = append(st.frames, fr)
		st.pkts = append(st.pkts, pk)
		st.npk = append(st.npk, len(pk))
		st.total += len(pk)
		st.kinds = append(st.kinds, kindOf(len(pk), unitCount(f, fr, sizes)))
		var idx []int
		add := func(unit int, key uint64, size int) {
			it := item{frame: i, unit: unit, key: key, unique: size >= minJudged}
			if j, dup := st.byKey[key]; dup {
				it.unique = false
				st.items[j].unique = false
			} else {
				st.byKey[key] = len(st.items)
			}
			idx = append(idx, len(st.items))
			st.items = append(st.items, it)
		}
		if f.Family == codecs.AudioGroup {
			for k, u := range fr {
				add(k, contentKey(f, [][]byte{u}), len(u))
			}
		} else {
			tot := 0
			for _, u := range fr {
				tot += len(u)
			}
			add(-1, contentKey(f, fr), tot)
		}
		st.ofFr = append(st.ofFr, idx)
	}
	st.baseOK = make([]bool, len(st.frames))
	for i := range st.baseOK {
		st.baseOK[i] = true
	}
	return st, nil
}

// unitCount: number of (sub-)units of a frame (blob formats with sub-units: the size vector).
func unitCount(f *codecs.Format, fr [][]byte, sizes []int) int {
	if f.Blob {
		return len(sizes)
	}
	return len(fr)
}

// kindOf classifies a frame by its packetisation.
func kindOf(packets, units int) string {
	switch {
	case packets == 1 && units == 1:
		return "single"
	case packets == 1:
		return "aggregated"
	case units > 1:
		return "multi" // several units over several packets (aggregation + fragmentation mixed)
	case packets == 2:
		return "frag2"
	case packets == 3:
		return "frag3"
	}
	return "fragN"
}

var kindOrder = []string{"single", "aggregated", "frag2", "frag3", "fragN", "multi"}

// identity returns the unfaulted arrival order.
func (st *stream) identity() [][2]int { return st.span(0, len(st.npk)) }

// base is the part of the arrival order fault plans work on, tail the untouched epilogue.
// (cached: apply never modifies its input)
func (st *stream) base() [][2]int {
	if st.baseArr == nil {
		st.baseArr = st.span(0, len(st.npk)-st.spec.Epilogue)
		st.tailArr = st.span(len(st.npk)-st.spec.Epilogue, len(st.npk))
	}
	return st.baseArr
}

func (st *stream) tail() [][2]int {
	st.base()
	return st.tailArr
}

func (st *stream) span(from, to int) [][2]int {
	arr := make([][2]int, 0, st.total)
	for f := from; f < to; f++ {
		for k := 0; k < st.npk[f]; k++ {
			arr = append(arr, [2]int{f, k})
		}
	}
	return arr
}

// arrival applies a fault plan to the base order and appends the epilogue.
func (st *stream) arrival(ops []op) [][2]int {
	return append(applyAll(st.base(), ops, st.npk), st.tail()...)
}

// av1EmptyFragment re-plays the size arithmetic of rtpav1.Encoder.Encode and reports whether some
// packet is closed with the "continues in next packet" flag although no fragment was written into
// it (finding D1: the decoder then glues the previous complete OBU to the next one).
func av1EmptyFragment(m int, sizes []int) bool {
	leb := func(v int) int {
		n := 1
		for v >= 128 {
			v >>= 7
			n++
		}
		return n
	}
	maxFragLEB := leb(m)
	cur, inPkt := 1, 0
	for i, l := range sizes {
		for {
			avail := m - cur
			omit := i == len(sizes)-1 && inPkt < 3
			needed := l
			if !omit {
				needed += leb(l)
			}
			if needed <= avail {
				cur += needed
				if !omit {
					inPkt++
				}
				break
			}
			if omit {
				if avail <= 0 {
					return true
				}
				l -= avail
			} else {
				if avail <= maxFragLEB {
					return true
				}
				l -= avail - maxFragLEB
			}
			cur, inPkt = 1, 0
		}
	}
	return false
}

// actualSizes returns the real unit sizes of frame i (what the encoder saw).
func (st *stream) actualSizes(i int) []int {
	return codecs.Sizes(st.frames[i])
}

// kindExemplars searches, for (f, p, m), size vectors producing every packetisation kind. Up to
// two exemplars per kind; exemplars that do not survive the unfaulted round trip (C03 territory:
// D1, KLV multi-item) are not used for the systematic part.
func kindExemplars(f *codecs.Format, p codecs.Params, m int) map[string][][]int {
	s := f.Strategy(p, m)
	mn := f.MinUnit(p)
	fit := func(n int) int { return f.Fit(p, max(n, 1)) }
	small := fit(max(mn, min(s.Single, 8))) // (>= minJudged wherever the limit allows)
	var cand [][]int
	one := func(n int) { cand = append(cand, []int{fit(n)}) }
	one(small)
	one(s.Single)
	one(mn)
	if s.FragFirst > 0 {
		one(s.Single + 1)
		one(s.FragFirst + s.FragNext)
		one(s.FragFirst + s.FragNext + 1)
		one(s.FragFirst + 2*s.FragNext)
		one(s.FragFirst + 2*s.FragNext + 1)
		one(s.FragFirst + 4*s.FragNext + 1)
		one(s.FragFirst + 6*s.FragNext)
	}
	if f.LegalSizes != nil { // discrete sizes: walk up the table until enough packets are needed
		ls := f.LegalSizes(p)
		for i := 0; i < len(ls); i += max(1, len(ls)/24) {
			one(ls[i])
		}
	}
	if f.Multi(p) {
		big := fit(s.Single + 1)
		if s.FragFirst > 0 {
			big = fit(s.FragFirst + s.FragNext + 1)
		}
		cand = append(cand, []int{small, small}, []int{mn, mn, mn}, []int{small, mn, small},
			[]int{small, big}, []int{big, small}, []int{small, big, small}, []int{fit(s.Single), small},
			[]int{small, fit(s.Single)}, []int{fit(s.Single + 1), fit(s.Single + 1)})
	}
	out := map[string][][]int{}
	seen := map[string]bool{}
	for _, sz := range cand {
		sig := fmt.Sprint(sz)
		if seen[sig] {
			continue
		}
		seen[sig] = true
		st, err := buildStream(streamSpec{Format: f.Name, Params: p, Max: m, InitSeq: 100, Seed: 1, Frames: [][]int{sz, {small}}})
		if err != nil || st.npk[0] > 12 {
			continue
		}
		st.checkBaseline(nil)
		if !st.baseOK[0] || !st.items[st.ofFr[0][0]].unique {
			continue
		}
		k := st.kinds[0]
		if len(out[k]) < 2 {
			out[k] = append(out[k], sz)
		}
	}
	return out
}
