package main

import (
	"fmt"
	"runtime"

	"verif/lib/codecs"
)

// outRec is one returned item: a whole frame (whole-frame family) or one unit (audio-group).
type outRec struct {
	call int // index of the Decode call that returned it
	key  uint64
}

// panicInfo describes a recovered panic of Decode.
type panicInfo struct {
	call  int
	val   string
	stack string
}

// execute feeds the arrival sequence to a fresh decoder and logs what comes back. Results are
// copied (hashed, see contentKey) at return time, before the next call, because the KLV decoder
// re-uses the returned buffer (that is C08's subject, not C07's).
func (st *stream) execute(arr [][2]int) (outs []outRec, errs int, pi *panicInfo) {
	dec, err := st.f.NewDecoder(st.p)
	if err != nil {
		panic(fmt.Sprintf("harness: NewDecoder(%s): %v", st.f.Name, err))
	}
	call := 0
	defer func() {
		if v := recover(); v != nil {
			buf := make([]byte, 16384)
			buf = buf[:runtime.Stack(buf, false)]
			pi = &panicInfo{call: call, val: fmt.Sprint(v), stack: string(buf)}
		}
	}()
	audio := st.f.Family == codecs.AudioGroup
	for ; call < len(arr); call++ {
		a := arr[call]
		units, err := dec(st.pkts[a[0]][a[1]])
		if err != nil {
			if !st.f.IsMore(err) {
				errs++
			}
			continue
		}
		if units == nil {
			continue
		}
		if audio {
			for _, u := range units {
				outs = append(outs, outRec{call, contentKey(st.f, [][]byte{u})})
			}
		} else {
			outs = append(outs, outRec{call, contentKey(st.f, units)})
		}
	}
	return outs, errs, nil
}

// verdict is one failed claim.
type verdict struct {
	class  string // lost | late | duplicated | units-out-of-order
	frame  int
	detail string
}

type judgement struct {
	verdicts   []verdict
	claimable  int // claimable frames
	judged     int // claimable frames with a deadline and unique content: fully checked
	noDeadline int // claimable, but no first packet of a later frame arrives afterwards
	nonUnique  int
	maxLag     int // max (return call - index of the frame's last packet) over judged frames
}

// judge is the oracle (DESIGN C07 O).
//
// Frame i is CLEAN iff each of its packets arrives exactly once and they arrive contiguously and
// in order (nothing in between). It is CLAIMABLE iff it is clean, frame i-1 is clean, and the
// packets of frame i-1 are immediately followed by those of frame i (frame 0: nothing arrives
// before it). The adjacency requirement is the reading of "preceding frame's packets also all
// arrived in order" that does not ask for more than the statement: if a duplicate or a stray packet
// of some other frame lands between the two, then what precedes frame i from the decoder's point of
// view is a damaged frame. Frames that do not even survive the unfaulted stream (baseOK false; an
// encoder / round-trip defect, reported once under its own key) count as not clean.
//
// Every claimable frame must appear in the output log exactly once (content is unique per frame /
// unit) at a call index <= the arrival index of the first "first packet of a later frame" that
// follows it. If no such packet arrives (end of the finite stream) the statement gives no deadline:
// only duplication is judged (the H264 decoder legitimately hands a frame out when the next frame
// begins, see rtph264/decoder.go Decode).
func (st *stream) judge(arr [][2]int, outs []outRec, all bool) judgement {
	n := len(st.npk)
	var j judgement
	occ := make([]int, n)
	next := make([]int, n)
	start := make([]int, n)
	last := make([]int, n)
	bad := make([]bool, n)
	for t, a := range arr {
		f, k := a[0], a[1]
		occ[f]++
		if k != next[f] || (k > 0 && t != last[f]+1) {
			bad[f] = true
			continue
		}
		if k == 0 {
			start[f] = t
		}
		next[f]++
		last[f] = t
	}
	clean := func(i int) bool {
		return !bad[i] && occ[i] == st.npk[i] && next[i] == st.npk[i] && (all || st.baseOK[i])
	}
	// output positions per item
	var hits map[int][]int
	for oi, o := range outs {
		if it, ok := st.byKey[o.key]; ok {
			if hits == nil {
				hits = map[int][]int{}
			}
			hits[it] = append(hits[it], oi)
		}
	}
	for i := 0; i < n; i++ {
		if !clean(i) {
			continue
		}
		if i == 0 {
			if start[0] != 0 {
				continue
			}
		} else if !clean(i-1) || last[i-1]+1 != start[i] {
			continue
		}
		j.claimable++
		uniq := true
		for _, it := range st.ofFr[i] {
			uniq = uniq && st.items[it].unique
		}
		if !uniq {
			j.nonUnique++
			continue
		}
		deadline := -1
		for t := last[i] + 1; t < len(arr); t++ {
			if arr[t][1] == 0 && arr[t][0] > i {
				deadline = t
				break
			}
		}
		if deadline < 0 {
			j.noDeadline++
		} else {
			j.judged++
		}
		class, detail := "", ""
		prevOut := -1
		for _, it := range st.ofFr[i] {
			h := hits[it]
			switch {
			case len(h) > 1:
				class, detail = "duplicated", fmt.Sprintf("returned %d times (calls %d and %d)", len(h), outs[h[0]].call, outs[h[1]].call)
			case len(h) == 0:
				if deadline >= 0 && class == "" {
					class, detail = "lost", "never returned intact"
				}
			default:
				c := outs[h[0]].call
				if deadline >= 0 {
					if lag := c - last[i]; lag > j.maxLag {
						j.maxLag = lag
					}
					if c > deadline && class == "" {
						class = "late"
						detail = fmt.Sprintf("returned by call %d; its last packet was call %d, the first packet of the following frame call %d", c, last[i], deadline)
					}
				}
				if h[0] < prevOut && class == "" {
					class, detail = "units-out-of-order", "units of the group returned in a different order"
				}
				prevOut = h[0]
			}
			if class == "duplicated" {
				break
			}
		}
		if class != "" {
			j.verdicts = append(j.verdicts, verdict{class, i, detail})
		}
	}
	return j
}

// checkBaseline decodes the unfaulted stream; frames that do not come back intact are marked
// (baseOK false) and passed to report. Such failures are C03's subject (encoder / round trip); they
// are also C07 violations (empty fault sequence) but get their own keys.
func (st *stream) checkBaseline(report func(v verdict, pi *panicInfo)) {
	arr := st.identity()
	outs, _, pi := st.execute(arr)
	if pi != nil {
		if report != nil {
			report(verdict{}, pi)
		}
		for i := range st.baseOK {
			st.baseOK[i] = false
		}
		return
	}
	// the last frame has no successor: judge it against the end of the stream (an unfaulted stream
	// cannot be in the H264 decoder's delayed mode)
	j := st.judge(arr, outs, true)
	lastIdx := len(st.npk) - 1
	found := true
	for _, it := range st.ofFr[lastIdx] {
		c := 0
		for _, o := range outs {
			if o.key == st.items[it].key {
				c++
			}
		}
		found = found && (c == 1 || !st.items[it].unique)
	}
	if !found {
		j.verdicts = append(j.verdicts, verdict{"lost", lastIdx, "never returned intact"})
	}
	for _, v := range j.verdicts {
		st.baseOK[v.frame] = false
		if report != nil {
			report(v, nil)
		}
	}
}
