package main

import (
	"bufio"
	"errors"
	"fmt"
	"io"
	"math/rand"
	"net"
	"net/url"
	"os"
	"strings"
	"sync/atomic"
	"time"

	"github.com/bluenviron/gortsplib/v5"
	"github.com/bluenviron/gortsplib/v5/pkg/auth"
	"github.com/bluenviron/gortsplib/v5/pkg/base"
	"github.com/bluenviron/gortsplib/v5/pkg/conn"
	"github.com/bluenviron/gortsplib/v5/pkg/description"
	"github.com/bluenviron/gortsplib/v5/pkg/format"
	"github.com/bluenviron/gortsplib/v5/pkg/headers"
	"github.com/bluenviron/gortsplib/v5/pkg/liberrors"
	"github.com/pion/rtp"

	"verif/lib/rig"
)

// account is what the application behind the server expects for one path. The table is built
// before the server starts and never written afterwards (handlers only read it).
type account struct {
	User, Pass, Class string
}

type wireHandler struct {
	accounts []account
	stream   *gortsplib.ServerStream
	addr     string // set before the first request is served
}

func (h *wireHandler) check(c *gortsplib.ServerConn, req *base.Request, path string) bool {
	var idx int
	p := strings.TrimPrefix(path, "/")
	if i := strings.Index(p, "/"); i >= 0 {
		p = p[:i]
	}
	if strings.HasPrefix(p, "r") {
		p = "c" + p[1:] // "/r<n>": same account, DESCRIBE answers with a redirect to "/c<n>"
	}
	if _, err := fmt.Sscanf(p, "c%d", &idx); err != nil || idx < 0 || idx >= len(h.accounts) {
		return false
	}
	a := h.accounts[idx]
	return c.VerifyCredentials(req, a.User, a.Pass)
}

func unauthorized() *base.Response { return &base.Response{StatusCode: base.StatusUnauthorized} }

func (h *wireHandler) OnDescribe(ctx *gortsplib.ServerHandlerOnDescribeCtx) (*base.Response, *gortsplib.ServerStream, error) {
	if !h.check(ctx.Conn, ctx.Request, ctx.Path) {
		return unauthorized(), nil, liberrors.ErrServerAuth{}
	}
	if strings.HasPrefix(ctx.Path, "/r") {
		// the authenticated DESCRIBE is redirected: the client has to open a new connection
		// and authenticate there against that connection's challenge
		return &base.Response{StatusCode: base.StatusFound, Header: base.Header{
			"Location": base.HeaderValue{"rtsp://" + h.addr + "/c" + strings.TrimPrefix(ctx.Path, "/r")}}}, nil, nil
	}
	return &base.Response{StatusCode: base.StatusOK}, h.stream, nil
}

func (h *wireHandler) OnPlay(ctx *gortsplib.ServerHandlerOnPlayCtx) (*base.Response, error) {
	if !h.check(ctx.Conn, ctx.Request, ctx.Path) {
		return unauthorized(), liberrors.ErrServerAuth{}
	}
	return &base.Response{StatusCode: base.StatusOK}, nil
}

func (h *wireHandler) OnAnnounce(ctx *gortsplib.ServerHandlerOnAnnounceCtx) (*base.Response, error) {
	if !h.check(ctx.Conn, ctx.Request, ctx.Path) {
		return unauthorized(), liberrors.ErrServerAuth{}
	}
	return &base.Response{StatusCode: base.StatusOK}, nil
}

func (h *wireHandler) OnSetup(ctx *gortsplib.ServerHandlerOnSetupCtx) (*base.Response, *gortsplib.ServerStream, error) {
	if !h.check(ctx.Conn, ctx.Request, ctx.Path) {
		return unauthorized(), nil, liberrors.ErrServerAuth{}
	}
	return &base.Response{StatusCode: base.StatusOK}, h.stream, nil
}

func (h *wireHandler) OnGetParameter(ctx *gortsplib.ServerHandlerOnGetParameterCtx) (*base.Response, error) {
	if !h.check(ctx.Conn, ctx.Request, ctx.Path) {
		return unauthorized(), liberrors.ErrServerAuth{}
	}
	return &base.Response{StatusCode: base.StatusOK}, nil
}

func (h *wireHandler) OnSetParameter(ctx *gortsplib.ServerHandlerOnSetParameterCtx) (*base.Response, error) {
	if !h.check(ctx.Conn, ctx.Request, ctx.Path) {
		return unauthorized(), liberrors.ErrServerAuth{}
	}
	return &base.Response{StatusCode: base.StatusOK}, nil
}

func testMedia() *description.Media {
	return &description.Media{
		Type: description.MediaTypeVideo,
		Formats: []format.Format{&format.H264{
			PayloadTyp:        96,
			SPS:               []byte{0x67, 0x42, 0xc0, 0x28, 0xd9, 0x00, 0x78, 0x02, 0x27, 0xe5, 0x84, 0x00, 0x00, 0x03, 0x00, 0x04, 0x00, 0x00, 0x03, 0x00, 0xf0, 0x3c, 0x60, 0xc9, 0x20},
			PPS:               []byte{0x44, 0x01, 0xc0, 0x25, 0x2f, 0x05, 0x32, 0x40},
			PacketizationMode: 1,
		}},
	}
}

type wireServer struct {
	methods []auth.VerifyMethod
	addr    string
	srv     *gortsplib.Server
	h       *wireHandler
}

// servers started with a slot >= udpSlotBase also listen on UDP (reconnect cases)
const udpSlotBase = 100

// startServer starts a server for one enabled-method list on a free loopback address.
func startServer(methods []auth.VerifyMethod, accounts []account, slot int) (*wireServer, error) {
	var lastErr error
	for attempt := 0; attempt < 40; attempt++ {
		ip := fmt.Sprintf("127.0.%d.%d", 10+(os.Getpid()+attempt)%200, 1+slot)
		addr := fmt.Sprintf("%s:%d", ip, 8600+attempt)
		h := &wireHandler{accounts: accounts, addr: addr}
		s := &gortsplib.Server{Handler: h, RTSPAddress: addr, AuthMethods: methods,
			ReadTimeout: 10 * time.Second, WriteTimeout: 10 * time.Second}
		if slot >= udpSlotBase {
			s.UDPRTPAddress = fmt.Sprintf("%s:%d", ip, 18000+2*attempt)
			s.UDPRTCPAddress = fmt.Sprintf("%s:%d", ip, 18001+2*attempt)
		}
		if err := s.Start(); err != nil {
			lastErr = err
			continue
		}
		st := &gortsplib.ServerStream{Server: s, Desc: &description.Session{Medias: []*description.Media{testMedia()}}}
		if err := st.Initialize(); err != nil {
			s.Close()
			return nil, err
		}
		h.stream = st
		return &wireServer{methods: methods, addr: addr, srv: s, h: h}, nil
	}
	return nil, lastErr
}

func (w *wireServer) close() {
	w.h.stream.Close()
	w.srv.Close()
}

type wireWitness struct {
	Kind     string   `json:"kind"` // "wire"
	Methods  []int    `json:"methods"`
	NilList  bool     `json:"nil_list"`
	Scheme   int      `json:"scheme"`
	Request  string   `json:"request_method"`
	Conv     string   `json:"conversation"`
	User     string   `json:"user"`
	Pass     string   `json:"pass"`
	Acct     int      `json:"acct"`
	Right    bool     `json:"right,omitempty"`
	Wrong    string   `json:"wrong,omitempty"`
	Trace    []string `json:"trace,omitempty"`
	ClientUR string   `json:"client_url,omitempty"`
}

// peer is a raw RTSP peer on one TCP connection.
type peer struct {
	nc    net.Conn
	c     *conn.Conn
	cseq  int
	trace []string
}

func dial(addr string) (*peer, error) {
	nc, err := net.DialTimeout("tcp", addr, 5*time.Second)
	if err != nil {
		return nil, err
	}
	return &peer{nc: nc, c: conn.NewConn(bufio.NewReader(nc), nc)}, nil
}

// do sends one request and reads the response (5 s deadline).
func (p *peer) do(req *base.Request) (*base.Response, error) {
	p.cseq++
	req.Header["CSeq"] = base.HeaderValue{fmt.Sprint(p.cseq)}
	p.nc.SetDeadline(time.Now().Add(5 * time.Second))
	if err := p.c.WriteRequest(req); err != nil {
		p.trace = append(p.trace, fmt.Sprintf("> %s: write error %v", req.Method, err))
		return nil, err
	}
	res, err := p.c.ReadResponse()
	if err != nil {
		p.trace = append(p.trace, fmt.Sprintf("> %s [auth=%v] < error %v", req.Method, req.Header["Authorization"], err))
		return nil, err
	}
	p.trace = append(p.trace, fmt.Sprintf("> %s [auth=%v] < %d %v", req.Method, req.Header["Authorization"], res.StatusCode, res.Header["WWW-Authenticate"]))
	return res, nil
}

// ended reports whether the server has ended the connection: a read returns EOF / reset within
// 3 s. "kept" = the read times out (or even yields data).
func (p *peer) ended() (bool, string) {
	p.nc.SetReadDeadline(time.Now().Add(3 * time.Second))
	var b [1]byte
	_, err := p.nc.Read(b[:])
	if err == nil {
		return false, "data received"
	}
	var ne net.Error
	if errors.As(err, &ne) && ne.Timeout() {
		return false, "still open after 3s"
	}
	if errors.Is(err, io.EOF) || strings.Contains(err.Error(), "reset") || strings.Contains(err.Error(), "closed") {
		return true, err.Error()
	}
	return true, err.Error()
}

func buildRequest(method base.Method, addr string, acct int) *base.Request {
	us := fmt.Sprintf("rtsp://%s/c%d", addr, acct)
	h := base.Header{}
	var body []byte
	switch method {
	case base.Setup:
		us += "/trackID=0"
		h["Transport"] = headers.Transport{Protocol: headers.TransportProtocolTCP, InterleavedIDs: &[2]int{0, 1},
			Delivery: deliveryPtr(headers.TransportDeliveryUnicast), Mode: modePtr(headers.TransportModePlay)}.Marshal()
	case base.Announce:
		h["Content-Type"] = base.HeaderValue{"application/sdp"}
		d := &description.Session{Medias: []*description.Media{testMedia()}}
		body, _ = d.Marshal()
	case base.SetParameter, base.GetParameter:
		h["Content-Type"] = base.HeaderValue{"text/parameters"}
		body = []byte("param: 1\r\n")
	}
	u, _ := base.ParseURL(us)
	return &base.Request{Method: method, URL: u, Header: h, Body: body}
}

func deliveryPtr(v headers.TransportDelivery) *headers.TransportDelivery { return &v }
func modePtr(v headers.TransportMode) *headers.TransportMode             { return &v }

func withoutAuth(req *base.Request) *base.Request {
	q := cloneReq(req)
	q.Body = req.Body
	delete(q.Header, "Authorization")
	return q
}

// challengeFor picks the challenge of one scheme out of the WWW-Authenticate values.
func challengeFor(www base.HeaderValue, sch auth.VerifyMethod) base.HeaderValue {
	for _, v := range www {
		var a headers.Authenticate
		if a.Unmarshal(base.HeaderValue{v}) != nil {
			continue
		}
		switch {
		case a.Method == headers.AuthMethodBasic && sch == auth.VerifyMethodBasic,
			a.Method == headers.AuthMethodDigest && sch == auth.VerifyMethodDigestSHA256 && a.Algorithm != nil && *a.Algorithm == headers.AuthAlgorithmSHA256,
			a.Method == headers.AuthMethodDigest && sch == auth.VerifyMethodDigestMD5 && (a.Algorithm == nil || *a.Algorithm == headers.AuthAlgorithmMD5):
			return base.HeaderValue{v}
		}
	}
	return nil
}

func effective(l []auth.VerifyMethod) []auth.VerifyMethod {
	if l == nil {
		return []auth.VerifyMethod{auth.VerifyMethodBasic, auth.VerifyMethodDigestMD5}
	}
	return l
}

// checkChallenge: 401 + one WWW-Authenticate challenge per enabled method, in the configured order.
func checkChallenge(w *wireServer, res *base.Response, fail func(what, msg string)) bool {
	if res.StatusCode != base.StatusUnauthorized {
		fail("status", fmt.Sprintf("a request without credentials is answered with %d, want 401", res.StatusCode))
		return false
	}
	www := res.Header["WWW-Authenticate"]
	want := effective(w.methods)
	if len(www) != len(want) {
		fail("challenge-count", fmt.Sprintf("401 carries %d WWW-Authenticate values %q, %d methods are enabled (%s)", len(www), www, len(want), listName(want)))
		return false
	}
	nonce := ""
	for i, v := range www {
		var a headers.Authenticate
		if err := a.Unmarshal(base.HeaderValue{v}); err != nil {
			fail("challenge-unparsable", fmt.Sprintf("WWW-Authenticate value %q is not parsable: %v", v, err))
			return false
		}
		var got auth.VerifyMethod
		switch {
		case a.Method == headers.AuthMethodBasic:
			got = auth.VerifyMethodBasic
		case a.Algorithm != nil && *a.Algorithm == headers.AuthAlgorithmSHA256:
			got = auth.VerifyMethodDigestSHA256
		default:
			got = auth.VerifyMethodDigestMD5
		}
		if got != want[i] {
			fail("challenge-order", fmt.Sprintf("challenge %d is %s, configured order is %s (%q)", i, schemeName(got), listName(want), www))
			return false
		}
		if a.Realm == "" {
			fail("challenge-without-realm", fmt.Sprintf("challenge %q has no realm", v))
			return false
		}
		if got != auth.VerifyMethodBasic {
			if a.Nonce == "" {
				fail("challenge-without-nonce", fmt.Sprintf("digest challenge %q has no nonce", v))
				return false
			}
			if nonce != "" && a.Nonce != nonce {
				fail("challenge-nonce-differs", fmt.Sprintf("the digest challenges of one response carry different nonces: %q", www))
				return false
			}
			nonce = a.Nonce
		}
	}
	return true
}

// conversation runs one scripted exchange on a fresh connection.
//
//	conv "full":        no credentials -> 401+challenges (kept) -> no credentials again -> 401 (kept)
//	                    -> right credentials -> 200 [-> wrong credentials -> 401 -> ended, not after SETUP/ANNOUNCE]
//	conv "wrong-after": no credentials -> 401 -> wrong credentials -> 401 -> ended
//	conv "wrong-first": wrong credentials as the first request -> 401 -> ended
func conversation(r *rand.Rand, w *wireServer, sch auth.VerifyMethod, method base.Method, acct int, conv string) {
	a := w.h.accounts[acct]
	wit := wireWitness{Kind: "wire", Methods: toInts(w.methods), NilList: w.methods == nil, Scheme: int(sch), Request: string(method), Conv: conv, User: a.User, Pass: a.Pass, Acct: acct}
	p, err := dial(w.addr)
	if err != nil {
		run.Inconclusive("wire-dial-failed")
		return
	}
	defer p.nc.Close()
	evals.Add(1)
	run.Count("wire:conversations:"+conv, 1)
	run.Count("wire:request-method:"+string(method), 1)
	run.Count("wire:scheme:"+schemeName(sch), 1)
	fail := func(key, msg string) {
		wit.Trace = p.trace
		run.Violation(key, fmt.Sprintf("%s (server methods %s, %s, client scheme %s, %s)", msg, listName(w.methods), method, schemeName(sch), conv), wit)
	}
	req := buildRequest(method, w.addr, acct)

	// VLC / HappyTime behaviour: SETUP credentials computed for the stream base URL
	relaxed := method == base.Setup && r.Intn(2) == 0
	sign := func(www base.HeaderValue, user, pass string) *base.Request {
		q := withoutAuth(req)
		se := &auth.Sender{WWWAuth: challengeFor(www, sch), User: user, Pass: pass}
		if err := se.Initialize(); err != nil {
			return nil
		}
		if relaxed {
			bs := strings.TrimSuffix(q.URL.String(), "trackID=0")
			if r.Intn(2) == 0 {
				bs = strings.TrimSuffix(bs, "/")
			}
			bu, _ := base.ParseURL(bs)
			tmp := &base.Request{Method: q.Method, URL: bu, Header: base.Header{}}
			se.AddAuthorization(tmp)
			q.Header["Authorization"] = tmp.Header["Authorization"]
			run.Count("wire:setup-with-base-url-credentials", 1)
			return q
		}
		se.AddAuthorization(q)
		return q
	}
	wrongCreds := func(www base.HeaderValue) *base.Request {
		user, pass := a.User, a.Pass
		if r.Intn(3) == 0 {
			user = mutateStr(r, user, asciiUser)
			if user == "" {
				user = "x"
			}
			wit.Wrong = "user " + user
		} else {
			pass = mutateStr(r, pass, asciiPass)
			wit.Wrong = "password " + pass
		}
		return sign(www, user, pass)
	}
	expectEnded := func(res *base.Response, err error) {
		if err != nil {
			// the server may end the connection right away; a 401 is the documented answer
			fail("wire/wrong-credentials/no-401", fmt.Sprintf("wrong credentials: no response (%v), want 401 then end of connection", err))
			return
		}
		if res.StatusCode != base.StatusUnauthorized {
			fail("wire/wrong-credentials/status", fmt.Sprintf("wrong credentials are answered with %d, want 401", res.StatusCode))
			return
		}
		if ok, why := p.ended(); !ok {
			fail("wire/wrong-credentials/connection-kept", "after 401 for wrong credentials the server keeps the connection: "+why)
			return
		}
		run.Count("wire:outcome:wrong-credentials->401+ended", 1)
	}

	if conv == "wrong-first" {
		// a client that guesses the challenge: Basic needs none; for Digest use a made-up nonce
		www := auth.GenerateWWWAuthenticate(effective(w.methods), "ipcam", "00000000000000000000000000000000")
		q := wrongCreds(www)
		if q == nil {
			return
		}
		res, err := p.do(q)
		expectEnded(res, err)
		return
	}

	res, err := p.do(withoutAuth(req))
	if err != nil {
		fail("wire/no-credentials/no-response", fmt.Sprintf("request without credentials: %v", err))
		return
	}
	if !checkChallenge(w, res, func(what, msg string) { fail("wire/no-credentials/"+what, msg) }) {
		return
	}
	if cs := res.Header["CSeq"]; len(cs) != 1 || cs[0] != fmt.Sprint(p.cseq) {
		fail("wire/no-credentials/cseq", fmt.Sprintf("401 carries CSeq %v, request had %d", cs, p.cseq))
		return
	}
	www := res.Header["WWW-Authenticate"]
	run.Count("wire:outcome:no-credentials->401+challenges", 1)

	if conv == "wrong-after" {
		q := wrongCreds(www)
		if q == nil {
			fail("wire/no-credentials/challenge-unusable", "auth.Sender cannot use the challenge")
			return
		}
		res, err := p.do(q)
		expectEnded(res, err)
		return
	}

	// the connection is kept: the next request (again without credentials) is answered
	res2, err := p.do(withoutAuth(req))
	if err != nil {
		fail("wire/no-credentials/connection-not-kept", fmt.Sprintf("the request following a 401 challenge gets no answer: %v", err))
		return
	}
	if !checkChallenge(w, res2, func(what, msg string) { fail("wire/no-credentials/"+what, "second challenge: "+msg) }) {
		return
	}
	if fmt.Sprint(res2.Header["WWW-Authenticate"]) != fmt.Sprint(www) {
		fail("wire/no-credentials/challenge-changes", fmt.Sprintf("the challenge changes between two 401 responses on one connection: %q then %q", www, res2.Header["WWW-Authenticate"]))
		return
	}
	run.Count("wire:outcome:connection-kept-after-challenge", 1)

	q := sign(www, a.User, a.Pass)
	if q == nil {
		fail("wire/no-credentials/challenge-unusable", "auth.Sender cannot use the challenge")
		return
	}
	res3, err := p.do(q)
	if err != nil {
		fail("wire/right-credentials/"+schemeName(sch)+"/no-response", fmt.Sprintf("right credentials: %v", err))
		return
	}
	if res3.StatusCode != base.StatusOK {
		fail("wire/right-credentials/"+schemeName(sch)+"/rejected", fmt.Sprintf("right credentials (password class %s) are answered with %d, want 200", a.Class, res3.StatusCode))
		return
	}
	run.Count("wire:outcome:right-credentials->200", 1)
	run.Distinct(fmt.Sprintf("wire|%s|%s|%s|%d", listName(w.methods), schemeName(sch), method, acct))

	if method == base.Setup || method == base.Announce {
		return // a session exists now; a further SETUP/ANNOUNCE would be a state error, not an auth matter
	}
	q = wrongCreds(www)
	if q == nil {
		return
	}
	res4, err := p.do(q)
	expectEnded(res4, err)
}

// clientRun: a real gortsplib.Client with the credentials in the URL.
func clientRun(w *wireServer, acct int, right bool, r *rand.Rand) {
	a := w.h.accounts[acct]
	pass := a.Pass
	if !right {
		pass = mutateStr(r, pass, asciiPass)
	}
	u := &url.URL{Scheme: "rtsp", User: url.UserPassword(a.User, pass), Host: w.addr, Path: fmt.Sprintf("/c%d", acct)}
	wit := wireWitness{Kind: "wire", Methods: toInts(w.methods), NilList: w.methods == nil, Conv: "client", User: a.User, Pass: a.Pass, Acct: acct, Right: right, ClientUR: u.String()}
	if !right {
		wit.Conv = "client-wrong-password"
	}
	bu, err := base.ParseURL(u.String())
	if err != nil {
		run.Count("wire:client:url-not-representable", 1)
		return
	}
	evals.Add(1)
	c := gortsplib.Client{Scheme: bu.Scheme, Host: bu.Host, ReadTimeout: 5 * time.Second, WriteTimeout: 5 * time.Second}
	if err := c.Start(); err != nil {
		run.Inconclusive("wire-client-start-failed")
		return
	}
	defer c.Close()
	done := make(chan error, 1)
	go func() {
		_, _, err := c.Describe(bu)
		done <- err
	}()
	select {
	case err = <-done:
	case <-time.After(20 * time.Second):
		run.Violation("wire/client/describe-hangs", fmt.Sprintf("Client.Describe with credentials in the URL does not return within 20s (server methods %s)", listName(w.methods)), wit)
		return
	}
	if right {
		run.Count("wire:client:describe", 1)
		if err != nil {
			run.Violation("wire/client/right-credentials/rejected",
				fmt.Sprintf("a gortsplib.Client with the right credentials in the URL (password class %s) does not get through DESCRIBE (server methods %s): %v", a.Class, listName(w.methods), err), wit)
			return
		}
		run.Count("wire:outcome:client-describe-ok", 1)
		run.Distinct(fmt.Sprintf("client|%s|%d", listName(w.methods), acct))
	} else {
		run.Count("wire:client:describe-wrong-password", 1)
		if err == nil {
			run.Violation("wire/client/wrong-credentials/accepted",
				fmt.Sprintf("a gortsplib.Client with a wrong password gets through DESCRIBE (server methods %s)", listName(w.methods)), wit)
			return
		}
		run.Count("wire:outcome:client-wrong-password-refused", 1)
	}
}

// clientReconnectRun: a library client holding the right credentials authenticates on a first
// connection and then has to open a second one - after a redirect answered to its authenticated
// DESCRIBE ("redirect"), or because no UDP packet reaches it and it falls back to TCP
// ("udp-fallback"). The second connection has its own challenge (fresh nonce); the credentials
// the client side produces for it must be accepted like on the first one.
func clientReconnectRun(w *wireServer, acct int, mode string, r *rand.Rand) {
	a := w.h.accounts[acct]
	path := fmt.Sprintf("/c%d", acct)
	if mode == "redirect" {
		path = fmt.Sprintf("/r%d", acct)
	}
	u := &url.URL{Scheme: "rtsp", User: url.UserPassword(a.User, a.Pass), Host: w.addr, Path: path}
	wit := wireWitness{Kind: "wire", Methods: toInts(w.methods), NilList: w.methods == nil, Conv: "client-reconnect-" + mode, User: a.User, Pass: a.Pass, Acct: acct, Right: true, ClientUR: u.String()}
	bu, err := base.ParseURL(u.String())
	if err != nil {
		run.Count("wire:client:url-not-representable", 1)
		return
	}
	evals.Add(1)
	got := make(chan struct{}, 1)
	c := gortsplib.Client{Scheme: bu.Scheme, Host: bu.Host, ReadTimeout: 5 * time.Second, WriteTimeout: 5 * time.Second,
		InitialUDPReadTimeout: time.Second}
	var switched atomic.Int32
	c.OnTransportSwitch = func(error) { switched.Add(1) }
	if mode == "udp-fallback" {
		c.ListenPacket = rig.BlackholeListenPacket
	}
	if err := c.Start(); err != nil {
		run.Inconclusive("wire-client-start-failed")
		return
	}
	defer c.Close()
	type dres struct {
		desc *description.Session
		err  error
	}
	done := make(chan dres, 1)
	go func() {
		d, _, err := c.Describe(bu)
		done <- dres{d, err}
	}()
	var d dres
	select {
	case d = <-done:
	case <-time.After(20 * time.Second):
		run.Violation("wire/client/describe-hangs", fmt.Sprintf("Client.Describe with credentials in the URL does not return within 20s (%s, server methods %s)", mode, listName(w.methods)), wit)
		return
	}
	run.Count("wire:client-reconnect:"+mode, 1)
	if d.err != nil {
		if mode == "redirect" {
			run.Violation("wire/client/right-credentials/rejected-after-redirect",
				fmt.Sprintf("a gortsplib.Client with the right credentials in the URL (password class %s) is refused on the connection it opens after a redirect of its authenticated DESCRIBE (server methods %s): %v", a.Class, listName(w.methods), d.err), wit)
		} else {
			run.Violation("wire/client/right-credentials/rejected",
				fmt.Sprintf("a gortsplib.Client with the right credentials in the URL (password class %s) does not get through DESCRIBE (server methods %s): %v", a.Class, listName(w.methods), d.err), wit)
		}
		return
	}
	if mode == "redirect" {
		run.Count("wire:outcome:client-reconnect-redirect-ok", 1)
		run.Distinct(fmt.Sprintf("client-redirect|%s|%d", listName(w.methods), acct))
		return
	}
	if err := c.SetupAll(d.desc.BaseURL, d.desc.Medias); err != nil {
		run.Violation("wire/client/right-credentials/rejected", fmt.Sprintf("SETUP with the right credentials fails (server methods %s): %v", listName(w.methods), err), wit)
		return
	}
	c.OnPacketRTPAny(func(*description.Media, format.Format, *rtp.Packet) {
		select {
		case got <- struct{}{}:
		default:
		}
	})
	if _, err := c.Play(nil); err != nil {
		run.Violation("wire/client/right-credentials/rejected", fmt.Sprintf("PLAY with the right credentials fails (server methods %s): %v", listName(w.methods), err), wit)
		return
	}
	stop := make(chan struct{})
	defer close(stop)
	go func() { // something for the reader to receive once it has switched to TCP
		m := w.h.stream.Desc.Medias[0]
		for k := 0; ; k++ {
			select {
			case <-stop:
				return
			case <-time.After(20 * time.Millisecond):
			}
			_ = w.h.stream.WritePacketRTP(m, &rtp.Packet{Header: rtp.Header{Version: 2, PayloadType: 96, SequenceNumber: uint16(k), Timestamp: uint32(k) * 3000, SSRC: 7},
				Payload: []byte{5, 1, 2, 3}})
		}
	}()
	ended := make(chan error, 1)
	go func() { ended <- c.Wait() }()
	select {
	case <-got:
		if switched.Load() == 0 {
			run.Inconclusive("wire-udp-fallback-packet-without-switch")
			return
		}
		run.Count("wire:outcome:client-reconnect-udp-fallback-ok", 1)
		run.Distinct(fmt.Sprintf("client-fallback|%s|%d", listName(w.methods), acct))
	case err := <-ended:
		run.Violation("wire/client/right-credentials/rejected-after-udp-fallback",
			fmt.Sprintf("a gortsplib.Client with the right credentials (password class %s) that falls back from UDP to TCP is refused on the new connection (server methods %s, %d switches): %v", a.Class, listName(w.methods), switched.Load(), err), wit)
	case <-time.After(25 * time.Second):
		run.Inconclusive("wire-udp-fallback-no-outcome-in-25s")
	}
}
