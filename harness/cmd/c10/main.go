// C10: Authentication is complete for right credentials and sound against wrong ones.
//
// Pure part (pkg/auth, pkg/headers): for generated (user, password, realm, nonce, request method,
// URL, enabled-method list) the request authorised by auth.Sender for a challenge produced by
// auth.GenerateWWWAuthenticate - after a trip through Request.Marshal / Unmarshal, as on the wire -
// must be accepted by auth.Verify (completeness); every single-field perturbation must be
// rejected (soundness); the SETUP base-URL relaxation must be accepted in exactly its documented
// shape and in no other.
//
// Wire part: live gortsplib.Server instances (one per enabled-method list) whose handlers call
// ServerConn.VerifyCredentials and answer 401 + liberrors.ErrServerAuth on failure. A raw TCP peer
// checks: no credentials -> 401 with one challenge per enabled method, in order, connection kept;
// right credentials -> 200; wrong credentials -> 401 and the connection is ended. A real
// gortsplib.Client with credentials in the URL must get through DESCRIBE.
package main

import (
	"bufio"
	"bytes"
	"fmt"
	"math/rand"
	"strings"
	"sync/atomic"

	"github.com/bluenviron/gortsplib/v5/pkg/auth"
	"github.com/bluenviron/gortsplib/v5/pkg/base"
	"github.com/bluenviron/gortsplib/v5/pkg/headers"

	"verif/lib/vlib"
)

var (
	run   *vlib.Run
	evals atomic.Int64
)

// ---------------------------------------------------------------------------------------------
// generators

const (
	asciiUser  = " !#$%&'()*+,-./0123456789;<=>?@ABCDEFGHIJKLMNOPQRSTUVWXYZ[\\]^_`abcdefghijklmnopqrstuvwxyz{|}~" // printable, no ':' no '"'
	asciiPass  = asciiUser + ":\""
	asciiQuote = asciiUser + ":" // inside a quoted string: no '"'
	alnum      = "abcdefghijklmnopqrstuvwxyzABCDEFGHIJKLMNOPQRSTUVWXYZ0123456789"
	hexDigits  = "0123456789abcdef"
)

var utf8Runes = []rune("éüßñçøåœÆ日本語中文한글кириллицаΩλπ€£¥✓→😀🎥")

// genText: n characters from the ASCII set, each replaced by a non-ASCII rune with probability u.
func genText(r *rand.Rand, n int, set string, u float64) string {
	var sb strings.Builder
	for i := 0; i < n; i++ {
		if r.Float64() < u {
			sb.WriteRune(utf8Runes[r.Intn(len(utf8Runes))])
		} else {
			sb.WriteByte(set[r.Intn(len(set))])
		}
	}
	return sb.String()
}

func genUser(r *rand.Rand) string {
	switch r.Intn(6) {
	case 0:
		return vlib.RandString(r, 1+r.Intn(12), alnum)
	case 1:
		return genText(r, 1+r.Intn(10), asciiUser, 0.5)
	case 2:
		return " " + genText(r, 1+r.Intn(6), asciiUser, 0) + " "
	default:
		return genText(r, 1+r.Intn(16), asciiUser, 0.1)
	}
}

// genPass returns a password and its class (for the evidence and for finding keys).
func genPass(r *rand.Rand) (string, string) {
	switch r.Intn(10) {
	case 0:
		return "", "empty"
	case 1:
		return vlib.RandString(r, 1+r.Intn(8), alnum) + ":" + vlib.RandString(r, r.Intn(8), alnum), "colon"
	case 2:
		return strings.Repeat(":", 1+r.Intn(3)) + genText(r, r.Intn(5), asciiPass, 0.1), "colon"
	case 3:
		return genText(r, r.Intn(5), asciiPass, 0) + "\"" + genText(r, r.Intn(5), asciiPass, 0), "quote"
	case 4:
		return " " + genText(r, r.Intn(8), asciiPass, 0.1) + " ", "spaces"
	case 5:
		return genText(r, 1+r.Intn(12), asciiPass, 0.6), "utf8"
	case 6:
		return vlib.RandString(r, 1+r.Intn(16), alnum), "plain"
	default:
		p := genText(r, 1+r.Intn(24), asciiPass, 0.08)
		c := "printable"
		if strings.Contains(p, ":") {
			c = "colon"
		}
		return p, c
	}
}

func genRealm(r *rand.Rand) string {
	switch r.Intn(6) {
	case 0:
		return "ipcam"
	case 1:
		return ""
	case 2:
		return genText(r, 1+r.Intn(10), asciiQuote, 0.5)
	default:
		return genText(r, 1+r.Intn(20), asciiQuote, 0.05)
	}
}

func genNonce(r *rand.Rand) string {
	switch r.Intn(4) {
	case 0:
		return vlib.RandString(r, 32, hexDigits)
	case 1:
		return genText(r, 1+r.Intn(12), asciiQuote, 0.3)
	default:
		return genText(r, 1+r.Intn(40), asciiQuote, 0.02)
	}
}

var reqMethods = []base.Method{
	base.Announce, base.Describe, base.GetParameter, base.Options, base.Pause,
	base.Play, base.Record, base.Setup, base.SetParameter, base.Teardown,
}

const pathChars = "abcdefghijklmnopqrstuvwxyzABCDEFGHIJKLMNOPQRSTUVWXYZ0123456789-_.~=+,;@!$&'()*"

func genHost(r *rand.Rand) string {
	var h string
	switch r.Intn(4) {
	case 0:
		h = fmt.Sprintf("%d.%d.%d.%d", 1+r.Intn(223), r.Intn(256), r.Intn(256), 1+r.Intn(254))
	case 1:
		h = fmt.Sprintf("[%x:%x::%x]", 0x2000+r.Intn(0x1000), r.Intn(65536), 1+r.Intn(65535))
	case 2:
		h = "[::1]"
	default:
		h = vlib.RandString(r, 1+r.Intn(10), "abcdefghijklmnopqrstuvwxyz0123456789") + ".example.com"
	}
	if r.Intn(2) == 0 {
		h += fmt.Sprintf(":%d", 1+r.Intn(65535))
	}
	return h
}

// genBaseURL: a stream URL without trailing slash and without track suffix.
func genBaseURL(r *rand.Rand) string {
	s := "rtsp://" + genHost(r)
	n := 1 + r.Intn(3)
	for i := 0; i < n; i++ {
		seg := vlib.RandString(r, 1+r.Intn(8), pathChars)
		if r.Intn(8) == 0 {
			seg += []string{"%20", "%41", "%2F", "%C3%A9"}[r.Intn(4)]
		}
		s += "/" + seg
	}
	if r.Intn(3) == 0 {
		s += "?" + vlib.RandString(r, 1+r.Intn(6), alnum) + "=" + vlib.RandString(r, r.Intn(8), alnum+"-_.")
		if r.Intn(3) == 0 {
			s += "&" + vlib.RandString(r, 1+r.Intn(4), alnum) + "=" + vlib.RandString(r, 1+r.Intn(4), alnum)
		}
	}
	return s
}

func genURL(r *rand.Rand) string {
	s := genBaseURL(r)
	switch r.Intn(4) {
	case 0:
		s += fmt.Sprintf("/trackID=%d", r.Intn(12))
	case 1:
		s += "/"
	}
	return s
}

// all 15 non-empty ordered subsets of the three verification methods
func methodLists() [][]auth.VerifyMethod {
	ms := []auth.VerifyMethod{auth.VerifyMethodBasic, auth.VerifyMethodDigestMD5, auth.VerifyMethodDigestSHA256}
	var out [][]auth.VerifyMethod
	for _, a := range ms {
		out = append(out, []auth.VerifyMethod{a})
		for _, b := range ms {
			if b == a {
				continue
			}
			out = append(out, []auth.VerifyMethod{a, b})
			for _, c := range ms {
				if c != a && c != b {
					out = append(out, []auth.VerifyMethod{a, b, c})
				}
			}
		}
	}
	return out
}

func schemeName(m auth.VerifyMethod) string {
	switch m {
	case auth.VerifyMethodBasic:
		return "basic"
	case auth.VerifyMethodDigestMD5:
		return "digest-md5"
	default:
		return "digest-sha256"
	}
}

func listName(l []auth.VerifyMethod) string {
	if l == nil {
		return "default"
	}
	var p []string
	for _, m := range l {
		p = append(p, schemeName(m))
	}
	return strings.Join(p, ",")
}

func contains(l []auth.VerifyMethod, m auth.VerifyMethod) bool {
	if l == nil {
		return m != auth.VerifyMethodDigestSHA256
	}
	for _, x := range l {
		if x == m {
			return true
		}
	}
	return false
}

// mutateStr returns a string different from s, within the given character set.
func mutateStr(r *rand.Rand, s string, set string) string {
	rs := []rune(s)
	for {
		var t string
		switch k := r.Intn(7); {
		case k == 0 || len(rs) == 0:
			t = s + string(set[r.Intn(len(set))])
		case k == 1:
			t = string(rs[:len(rs)-1])
		case k == 2:
			t = string(rs[1:])
		case k == 3:
			c := append([]rune{}, rs...)
			c[r.Intn(len(c))] = rune(set[r.Intn(len(set))])
			t = string(c)
		case k == 4:
			t = strings.ToUpper(s)
			if t == s {
				t = strings.ToLower(s)
			}
		case k == 5:
			t = " " + s
		default:
			t = s + s
		}
		if t != s {
			return t
		}
	}
}

// ---------------------------------------------------------------------------------------------
// the checked calls

type pureWitness struct {
	Kind     string `json:"kind"` // "pure"
	Clause   string `json:"clause"`
	Request  string `json:"request"` // marshalled request handed to Verify
	User     string `json:"user"`
	Pass     string `json:"pass"`
	Realm    string `json:"realm"`
	Nonce    string `json:"nonce"`
	Methods  []int  `json:"methods"` // nil = library default
	NilList  bool   `json:"nil_list"`
	Want     string `json:"want"` // "accept" | "reject"
	Scheme   string `json:"scheme"`
	Detail   string `json:"detail,omitempty"`
	GotError string `json:"got_error,omitempty"`
}

func toInts(l []auth.VerifyMethod) []int {
	var o []int
	for _, m := range l {
		o = append(o, int(m))
	}
	return o
}

// verify calls auth.Verify, turning a panic into a violation.
func verify(req *base.Request, user, pass string, methods []auth.VerifyMethod, realm, nonce string) (err error, panicked bool) {
	defer func() {
		if p := recover(); p != nil {
			st := vlib.Stack()
			if i := strings.Index(st, "\npanic("); i >= 0 {
				st = st[i+1:]
			}
			b, _ := req.Marshal()
			run.Violation("verify/panic/"+vlib.PanicSite(st), fmt.Sprintf("auth.Verify panics: %v", p),
				pureWitness{Kind: "pure", Clause: "panic", Request: string(b), User: user, Pass: pass, Realm: realm, Nonce: nonce, Methods: toInts(methods), NilList: methods == nil})
			panicked = true
		}
	}()
	evals.Add(1)
	return auth.Verify(req, user, pass, methods, realm, nonce), false
}

// sign builds the request a client sends: Sender initialised with the challenge, Authorization
// added, then Marshal -> Unmarshal as on the wire.
func sign(challenge base.HeaderValue, user, pass string, method base.Method, urlStr string) (*base.Request, error) {
	se := &auth.Sender{WWWAuth: challenge, User: user, Pass: pass}
	if err := se.Initialize(); err != nil {
		return nil, fmt.Errorf("Sender.Initialize: %w", err)
	}
	u, err := base.ParseURL(urlStr)
	if err != nil {
		return nil, fmt.Errorf("ParseURL(%q): %w", urlStr, err)
	}
	req := &base.Request{Method: method, URL: u, Header: base.Header{"CSeq": base.HeaderValue{"1"}}}
	se.AddAuthorization(req)
	return rewire(req)
}

func rewire(req *base.Request) (*base.Request, error) {
	b, err := req.Marshal()
	if err != nil {
		return nil, fmt.Errorf("Request.Marshal: %w", err)
	}
	var got base.Request
	if err := got.Unmarshal(bufio.NewReader(bytes.NewReader(b))); err != nil {
		return nil, fmt.Errorf("Request.Unmarshal: %w", err)
	}
	return &got, nil
}

func cloneReq(req *base.Request) *base.Request {
	c := &base.Request{Method: req.Method, URL: req.URL.Clone(), Header: base.Header{}}
	for k, v := range req.Header {
		c.Header[k] = append(base.HeaderValue{}, v...)
	}
	return c
}

// rawScheme names the scheme of an Authorization header without parsing its fields.
func rawScheme(v base.HeaderValue) auth.VerifyMethod {
	h := strings.Join(v, " ")
	switch {
	case strings.HasPrefix(h, "Basic "):
		return auth.VerifyMethodBasic
	case strings.Contains(h, "SHA-256"):
		return auth.VerifyMethodDigestSHA256
	default:
		return auth.VerifyMethodDigestMD5
	}
}

func usedScheme(req *base.Request) (auth.VerifyMethod, *headers.Authorization, error) {
	var a headers.Authorization
	if err := a.Unmarshal(req.Header["Authorization"]); err != nil {
		return 0, nil, err
	}
	switch {
	case a.Method == headers.AuthMethodBasic:
		return auth.VerifyMethodBasic, &a, nil
	case a.Algorithm != nil && *a.Algorithm == headers.AuthAlgorithmSHA256:
		return auth.VerifyMethodDigestSHA256, &a, nil
	default:
		return auth.VerifyMethodDigestMD5, &a, nil
	}
}

type credSet struct {
	user, pass, passClass, realm, nonce string
	method                              base.Method
	url                                 string
	st                                  map[string]int64 // shard-local counters, flushed at the end of the shard
	allLists                            bool
	relax                               bool // run the SETUP relaxation shapes for this set
}

func (c *credSet) count(k string) { c.st[k]++ }

func (c *credSet) witness(clause string, req *base.Request, user, pass, realm, nonce string, methods []auth.VerifyMethod, want, scheme, detail string, got error) pureWitness {
	b, _ := req.Marshal()
	w := pureWitness{Kind: "pure", Clause: clause, Request: string(b), User: user, Pass: pass, Realm: realm, Nonce: nonce,
		Methods: toInts(methods), NilList: methods == nil, Want: want, Scheme: scheme, Detail: detail}
	if got != nil {
		w.GotError = got.Error()
	}
	return w
}

// mustReject is one soundness evaluation.
func (c *credSet) mustReject(field, scheme string, req *base.Request, user, pass, realm, nonce string, methods []auth.VerifyMethod, detail string) {
	c.count("perturbation:" + field)
	err, pan := verify(req, user, pass, methods, realm, nonce)
	if pan {
		return
	}
	if err == nil {
		run.Violation("verify/sound/"+field+"/accepted",
			fmt.Sprintf("auth.Verify accepts a %s authorization with a deviation in: %s (%s)", scheme, strings.ReplaceAll(field, "-", " "), detail),
			c.witness("sound/"+field, req, user, pass, realm, nonce, methods, "reject", scheme, detail, nil))
	}
}

// culprit names the field whose value makes a correct authorization fail: the first field that,
// replaced by a plain value, lets the same flow succeed.
func (c *credSet) culprit(challengeFor func(realm, nonce string) base.HeaderValue, methods []auth.VerifyMethod) string {
	try := func(d credSet) bool {
		req, err := sign(challengeFor(d.realm, d.nonce), d.user, d.pass, d.method, d.url)
		if err != nil {
			return false
		}
		return auth.Verify(req, d.user, d.pass, methods, d.realm, d.nonce) == nil
	}
	for _, f := range []string{"pass", "user", "realm", "nonce", "url", "method"} {
		d := *c
		switch f {
		case "pass":
			d.pass = "pass"
		case "user":
			d.user = "user"
		case "realm":
			d.realm = "realm"
		case "nonce":
			d.nonce = "abcdef0123456789"
		case "url":
			d.url = "rtsp://example.com/stream"
		case "method":
			d.method = base.Describe
		}
		if try(d) {
			return f
		}
	}
	return "unknown"
}

// checkSet runs completeness for every enabled-method list and every scheme a client may choose,
// and the perturbations for nPert (list, scheme) pairs.
func checkSet(r *rand.Rand, c *credSet, lists [][]auth.VerifyMethod) {
	c.count("credential-sets")
	c.count("password-class:" + c.passClass)
	if strings.Contains(c.pass, ":") {
		c.count("passwords-containing-colon")
	}
	c.count("request-method:" + string(c.method))
	run.Distinct(c.user + "\x00" + c.pass + "\x00" + c.realm + "\x00" + c.nonce + "\x00" + c.url + "\x00" + string(c.method))
	if run.WantSample() {
		run.Sample(map[string]any{"user": c.user, "password": c.pass, "realm": c.realm, "nonce": c.nonce, "method": string(c.method), "url": c.url})
	}

	type signedCase struct {
		req     *base.Request
		methods []auth.VerifyMethod
		scheme  auth.VerifyMethod
	}
	var ok []signedCase

	// the library default + a sample of the 15 ordered subsets (every subset is taken equally often
	// over the run; the thorough tier takes all of them for every set)
	all := [][]auth.VerifyMethod{nil}
	if c.allLists {
		all = append(all, lists...)
	} else {
		o := r.Intn(len(lists))
		for k := 0; k < 4; k++ {
			all = append(all, lists[(o+k*4)%len(lists)])
		}
	}
	for _, methods := range all {
		c.count("method-list:" + listName(methods))
		full := auth.GenerateWWWAuthenticate(methods, c.realm, c.nonce)
		// the client either sees all challenges (and picks its preferred one) or supports one scheme only
		offers := []base.HeaderValue{full}
		if len(full) > 1 {
			for _, v := range full {
				offers = append(offers, base.HeaderValue{v})
			}
		}
		for oi, offer := range offers {
			req, err := sign(offer, c.user, c.pass, c.method, c.url)
			if err != nil {
				run.Violation("verify/complete/sign-error", "the client side cannot authorise a request for a challenge of the server side: "+err.Error(),
					c.witness("complete", &base.Request{Method: c.method, Header: base.Header{}}, c.user, c.pass, c.realm, c.nonce, methods, "accept", "", strings.Join(offer, " | "), err))
				continue
			}
			sch, _, perr := usedScheme(req)
			if perr != nil {
				// the parser refuses what Sender wrote: still a completeness failure of Verify below;
				// name the scheme from the raw header
				sch = rawScheme(req.Header["Authorization"])
			}
			c.count("completeness:" + schemeName(sch))
			verr, pan := verify(req, c.user, c.pass, methods, c.realm, c.nonce)
			if pan {
				continue
			}
			if verr != nil {
				cul := c.culprit(func(realm, nonce string) base.HeaderValue {
					f := auth.GenerateWWWAuthenticate(methods, realm, nonce)
					if oi > 0 && oi-1 < len(f) {
						return base.HeaderValue{f[oi-1]}
					}
					return f
				}, methods)
				run.Violation("verify/complete/"+schemeName(sch)+"/rejected/"+cul,
					fmt.Sprintf("auth.Verify rejects a %s authorization produced by auth.Sender with the right user and password (enabled: %s; culprit field: %s; password class %s): %v",
						schemeName(sch), listName(methods), cul, c.passClass, verr),
					c.witness("complete", req, c.user, c.pass, c.realm, c.nonce, methods, "accept", schemeName(sch), "", verr))
				continue
			}
			if perr == nil {
				ok = append(ok, signedCase{req, methods, sch})
			}
		}
	}
	if len(ok) == 0 {
		return
	}

	// soundness: every single-field perturbation, for one accepted case per scheme (thorough) or
	// for one accepted case (quick; the scheme rotates with the sample)
	done := map[auth.VerifyMethod]bool{}
	for _, k := range r.Perm(len(ok)) {
		sc := ok[k]
		if done[sc.scheme] {
			continue
		}
		done[sc.scheme] = true
		perturb(r, c, sc.req, sc.methods, sc.scheme, lists)
		if !c.allLists {
			break
		}
	}
}

func perturb(r *rand.Rand, c *credSet, req *base.Request, methods []auth.VerifyMethod, sch auth.VerifyMethod, lists [][]auth.VerifyMethod) {
	scheme := schemeName(sch)
	digest := sch != auth.VerifyMethodBasic
	_, hdr, _ := usedScheme(req)

	// verifier-side expectations changed
	u2 := mutateStr(r, c.user, asciiUser)
	c.mustReject("expected-user", scheme, req, u2, c.pass, c.realm, c.nonce, methods, fmt.Sprintf("verifier expects user %q, request was made for %q", u2, c.user))
	p2 := mutateStr(r, c.pass, asciiPass)
	c.mustReject("expected-password", scheme, req, c.user, p2, c.realm, c.nonce, methods, fmt.Sprintf("verifier expects password %q, request was made with %q", p2, c.pass))

	// credentials computed by the client from a wrong user / password
	challenge := auth.GenerateWWWAuthenticate([]auth.VerifyMethod{sch}, c.realm, c.nonce)
	if bad, err := sign(challenge, c.user, p2, c.method, c.url); err == nil {
		c.mustReject("signed-with-wrong-password", scheme, bad, c.user, c.pass, c.realm, c.nonce, methods, fmt.Sprintf("client used password %q, right one is %q", p2, c.pass))
	}
	if bad, err := sign(challenge, u2, c.pass, c.method, c.url); err == nil {
		c.mustReject("signed-with-wrong-user", scheme, bad, c.user, c.pass, c.realm, c.nonce, methods, fmt.Sprintf("client used user %q, right one is %q", u2, c.user))
	}

	// the scheme used is not enabled
	var without [][]auth.VerifyMethod
	for _, l := range lists {
		if !contains(l, sch) {
			without = append(without, l)
		}
	}
	if sch == auth.VerifyMethodDigestSHA256 {
		without = append(without, nil) // the library default does not enable SHA-256
	}
	if len(without) > 0 {
		l := without[r.Intn(len(without))]
		c.mustReject("scheme-not-enabled", scheme, req, c.user, c.pass, c.realm, c.nonce, l, "enabled methods: "+listName(l))
	}

	setHdr := func(h headers.Authorization) *base.Request {
		q := cloneReq(req)
		q.Header["Authorization"] = h.Marshal()
		return q
	}

	// header user name altered
	{
		h := *hdr
		h.Username = mutateStr(r, h.Username, asciiUser)
		c.mustReject("header-username", scheme, setHdr(h), c.user, c.pass, c.realm, c.nonce, methods, fmt.Sprintf("username field %q", h.Username))
	}

	if !digest {
		h := *hdr
		h.BasicPass = mutateStr(r, h.BasicPass, asciiPass)
		c.mustReject("header-basic-password", scheme, setHdr(h), c.user, c.pass, c.realm, c.nonce, methods, fmt.Sprintf("password field %q", h.BasicPass))

		// the same user/password presented under the Digest scheme
		for _, alg := range []headers.AuthAlgorithm{headers.AuthAlgorithmMD5, headers.AuthAlgorithmSHA256} {
			a := alg
			h2 := headers.Authorization{Method: headers.AuthMethodDigest, Username: c.user, Realm: c.realm, Nonce: c.nonce,
				URI: req.URL.String(), Response: strings.Repeat("0", 32), Algorithm: &a}
			c.mustReject("header-scheme", scheme, setHdr(h2), c.user, c.pass, c.realm, c.nonce, lists[len(lists)-1], "Basic credentials re-labelled as Digest with a constant response")
		}
		return
	}

	// ---- Digest only: the credentials are bound to realm, nonce, method, URL, algorithm
	if sch == auth.VerifyMethodDigestMD5 {
		// the same MD5 credentials without the algorithm parameter (RFC 2617: absent = MD5; this is
		// what the library's Sender writes for a challenge that names no algorithm): still the
		// Digest-MD5 scheme, so refused by every list that does not enable Digest-MD5
		h := *hdr
		h.Algorithm = nil
		q := setHdr(h)
		for _, l := range without {
			c.mustReject("scheme-not-enabled-implicit-md5", scheme, q, c.user, c.pass, c.realm, c.nonce, l, "algorithm parameter absent; enabled methods: "+listName(l))
		}
	}
	rl2 := mutateStr(r, c.realm, asciiQuote)
	c.mustReject("expected-realm", scheme, req, c.user, c.pass, rl2, c.nonce, methods, fmt.Sprintf("verifier's realm %q, request made for %q", rl2, c.realm))
	n2 := mutateStr(r, c.nonce, asciiQuote)
	c.mustReject("expected-nonce", scheme, req, c.user, c.pass, c.realm, n2, methods, fmt.Sprintf("verifier's nonce %q, request made for %q", n2, c.nonce))

	// request method changed after signing
	{
		q := cloneReq(req)
		for q.Method == req.Method {
			q.Method = reqMethods[r.Intn(len(reqMethods))]
		}
		c.mustReject("request-method", scheme, q, c.user, c.pass, c.realm, c.nonce, methods, fmt.Sprintf("signed for %s, presented as %s", req.Method, q.Method))
	}
	// request URL changed after signing (not into the documented SETUP relaxation)
	for tries := 0; tries < 8; tries++ {
		nu := otherURL(r, c.url)
		pu, err := base.ParseURL(nu)
		if err != nil || pu.String() == req.URL.String() {
			continue
		}
		if relaxApplies(req.Method, pu.String(), hdr.URI) || (strings.HasPrefix(hdr.URI, "/") && hdr.URI == pu.RequestURI()) {
			continue
		}
		q := cloneReq(req)
		q.URL = pu
		c.mustReject("request-url", scheme, q, c.user, c.pass, c.realm, c.nonce, methods, fmt.Sprintf("signed for %s, presented on %s", hdr.URI, nu))
		break
	}

	// Authorization fields altered one at a time
	{
		h := *hdr
		b := []byte(h.Response)
		i := r.Intn(len(b))
		old := b[i]
		for b[i] == old {
			b[i] = hexDigits[r.Intn(16)]
		}
		h.Response = string(b)
		c.count(fmt.Sprintf("response-digit-flipped-in-quarter:%d", 1+4*i/len(b)))
		c.mustReject("header-response", scheme, setHdr(h), c.user, c.pass, c.realm, c.nonce, methods, fmt.Sprintf("hex digit %d of the response changed", i))
	}
	{
		h := *hdr
		if r.Intn(2) == 0 {
			h.Response = h.Response[:8+r.Intn(len(h.Response)-8)]
		} else {
			h.Response += string(hexDigits[r.Intn(16)])
		}
		c.mustReject("header-response", scheme, setHdr(h), c.user, c.pass, c.realm, c.nonce, methods, "response truncated / extended")
	}
	{
		h := *hdr
		h.URI = otherURL(r, h.URI)
		if h.URI != hdr.URI {
			c.mustReject("header-uri", scheme, setHdr(h), c.user, c.pass, c.realm, c.nonce, methods, fmt.Sprintf("uri field %q, signed %q", h.URI, hdr.URI))
		}
	}
	{
		h := *hdr
		a := headers.AuthAlgorithmSHA256
		if sch == auth.VerifyMethodDigestSHA256 {
			a = headers.AuthAlgorithmMD5
		}
		h.Algorithm = &a
		// with every scheme enabled: only the response check stands between the swap and acceptance
		c.mustReject("header-algorithm", scheme, setHdr(h), c.user, c.pass, c.realm, c.nonce, lists[len(lists)-1], "algorithm field swapped MD5<->SHA-256, response kept")
	}
	{
		h := *hdr
		h.Realm = mutateStr(r, h.Realm, asciiQuote)
		c.mustReject("header-realm", scheme, setHdr(h), c.user, c.pass, c.realm, c.nonce, methods, fmt.Sprintf("realm field %q", h.Realm))
	}
	{
		h := *hdr
		h.Nonce = mutateStr(r, h.Nonce, asciiQuote)
		c.mustReject("header-nonce", scheme, setHdr(h), c.user, c.pass, c.realm, c.nonce, methods, fmt.Sprintf("nonce field %q", h.Nonce))
	}
	{
		// Digest credentials re-labelled as Basic (password := the digest response)
		h := headers.Authorization{Method: headers.AuthMethodBasic, Username: c.user, BasicPass: hdr.Response}
		if hdr.Response != c.pass {
			c.mustReject("header-scheme", scheme, setHdr(h), c.user, c.pass, c.realm, c.nonce, lists[len(lists)-1], "Digest response re-labelled as a Basic password")
		}
	}

	if c.relax {
		setupRelax(r, c, methods, sch)
	}
}

// otherURL returns a URL string different from s.
func otherURL(r *rand.Rand, s string) string {
	switch r.Intn(8) {
	case 0:
		return s + "/"
	case 1:
		return strings.TrimSuffix(s, "/") + "x"
	case 2:
		return s + "/trackID=0"
	case 3:
		if i := strings.LastIndex(s, "/"); i > len("rtsp://") {
			return s[:i]
		}
		return s + "/y"
	case 4:
		return strings.Replace(s, "rtsp://", "rtsp://x", 1)
	case 5:
		if strings.Contains(s, "?") {
			return s + "&z=1"
		}
		return s + "?z=1"
	case 6:
		if i := strings.LastIndex(s, "trackID="); i >= 0 {
			return s[:i] + "trackID=99"
		}
		return s + "/trackID=1"
	default:
		return genURL(r)
	}
}

// relaxApplies is the documented rule: in a SETUP request whose URL is <base>/trackID=<digits>,
// credentials computed for <base>/ (VLC) or <base> (HappyTime NVR) are accepted.
func relaxApplies(method base.Method, requestURL, signedURI string) bool {
	if method != base.Setup {
		return false
	}
	i := strings.LastIndex(requestURL, "/trackID=")
	if i < 1 {
		return false
	}
	digits := requestURL[i+len("/trackID="):]
	if digits == "" || strings.Trim(digits, "0123456789") != "" {
		return false
	}
	b := requestURL[:i+1] // with trailing slash
	return signedURI == b || signedURI+"/" == b
}

// setupRelax: the relaxation is accepted in its documented shape and nowhere else.
func setupRelax(r *rand.Rand, c *credSet, methods []auth.VerifyMethod, sch auth.VerifyMethod) {
	scheme := schemeName(sch)
	challenge := auth.GenerateWWWAuthenticate([]auth.VerifyMethod{sch}, c.realm, c.nonce)
	b := genBaseURL(r)
	n := fmt.Sprint(r.Intn(20))
	present := func(method base.Method, signedURL, requestURL string) (*base.Request, string, bool) {
		req, err := sign(challenge, c.user, c.pass, method, signedURL)
		if err != nil {
			return nil, "", false
		}
		_, h, err := usedScheme(req)
		if err != nil {
			return nil, "", false
		}
		pu, err := base.ParseURL(requestURL)
		if err != nil {
			return nil, "", false
		}
		q := cloneReq(req)
		q.URL = pu
		q, err = rewire(q)
		if err != nil {
			return nil, "", false
		}
		return q, h.URI, true
	}

	// documented shapes
	for _, signed := range []string{b + "/", b} {
		q, uri, ok := present(base.Setup, signed, b+"/trackID="+n)
		if !ok {
			continue
		}
		if !relaxApplies(base.Setup, q.URL.String(), uri) {
			c.count("setup-relax:url-not-canonical-skipped")
			continue
		}
		err, pan := verify(q, c.user, c.pass, methods, c.realm, c.nonce)
		if pan {
			continue
		}
		shape := "base-with-slash"
		if signed == b {
			shape = "base-without-slash"
		}
		if err != nil {
			run.Violation("verify/setup-relax/"+shape+"/rejected",
				fmt.Sprintf("SETUP %s with %s credentials computed for %s is rejected although that is the documented base-URL compatibility rule: %v", q.URL, scheme, uri, err),
				c.witness("setup-relax", q, c.user, c.pass, c.realm, c.nonce, methods, "accept", scheme, shape, err))
		} else {
			c.count("relaxed-SETUP-acceptances:" + shape)
		}
	}

	// everything near that shape must be rejected
	other := reqMethods[r.Intn(len(reqMethods))]
	for other == base.Setup {
		other = reqMethods[r.Intn(len(reqMethods))]
	}
	type shapeT struct {
		name       string
		method     base.Method
		signed     string
		requestURL string
	}
	shapes := []shapeT{
		{"method-not-setup", other, b + "/", b + "/trackID=" + n},
		{"method-not-setup", other, b, b + "/trackID=" + n},
		{"track-suffix-without-digits", base.Setup, b + "/", b + "/trackID="},
		{"track-suffix-not-numeric", base.Setup, b + "/", b + "/trackID=" + n + "a"},
		{"track-suffix-lowercase", base.Setup, b + "/", b + "/trackid=" + n},
		{"other-control-attribute", base.Setup, b + "/", b + "/mediaUUID=" + n},
		{"track-suffix-followed-by-slash", base.Setup, b + "/", b + "/trackID=" + n + "/"},
		{"track-suffix-followed-by-query", base.Setup, b + "/", b + "/trackID=" + n + "?k=v"},
		{"signed-for-parent-of-base", base.Setup, parentOf(b), b + "/trackID=" + n},
		{"signed-for-sibling", base.Setup, b + "x/", b + "/trackID=" + n},
		{"signed-for-base-truncated", base.Setup, b[:len(b)-1], b + "/trackID=" + n},
		{"signed-for-other-track", base.Setup, b + "/trackID=" + n + "1", b + "/trackID=" + n},
		{"signed-for-child-of-base", base.Setup, b + "/sub/", b + "/trackID=" + n},
	}
	for _, s := range shapes {
		q, uri, ok := present(s.method, s.signed, s.requestURL)
		if !ok {
			continue
		}
		if q.URL.String() == uri || relaxApplies(q.Method, q.URL.String(), uri) {
			continue // not a deviation after canonicalisation
		}
		c.mustReject("setup-relax/"+s.name, scheme, q, c.user, c.pass, c.realm, c.nonce, methods,
			fmt.Sprintf("%s %s with credentials computed for %s", q.Method, q.URL, uri))
	}
}

func parentOf(b string) string {
	i := strings.LastIndex(b, "/")
	if i <= len("rtsp://") {
		return b + "/.."
	}
	return b[:i+1]
}

// ---------------------------------------------------------------------------------------------

func fixedAccounts(r *rand.Rand, n int) []account {
	acc := []account{
		{"myuser", "mypass", "plain"},
		{"admin", "pa:ss", "colon"},
		{"admin", ":", "colon"},
		{"op", "a:b:c::", "colon"},
		{"user name", " spaced pass ", "spaces"},
		{"u", "", "empty"},
		{"quote", "say \"hi\"", "quote"},
		{"ünï", "pässwörd→日本", "utf8"},
		{"x@y/z?", "p@ss/w?rd#&=%", "url-special"},
	}
	for len(acc) < n {
		p, c := genPass(r)
		acc = append(acc, account{genUser(r), p, c})
	}
	return acc
}

func pureReplay(w *pureWitness) {
	var req base.Request
	if err := req.Unmarshal(bufio.NewReader(strings.NewReader(w.Request))); err != nil {
		run.Fatal("witness request does not parse: %v", err)
	}
	var methods []auth.VerifyMethod
	if !w.NilList {
		methods = []auth.VerifyMethod{}
		for _, m := range w.Methods {
			methods = append(methods, auth.VerifyMethod(m))
		}
	}
	err, pan := verify(&req, w.User, w.Pass, methods, w.Realm, w.Nonce)
	if pan {
		return
	}
	key := run.ReplayKey()
	switch {
	case w.Want == "accept" && err != nil:
		run.Violation(key, fmt.Sprintf("replay: Verify rejects (%v), want accept", err), w)
	case w.Want == "reject" && err == nil:
		run.Violation(key, "replay: Verify accepts, want reject", w)
	default:
		fmt.Printf("replay: Verify -> %v, as wanted (%s)\n", err, w.Want)
	}
}

func wireReplay(w *wireWitness) {
	var methods []auth.VerifyMethod
	if !w.NilList {
		for _, m := range w.Methods {
			methods = append(methods, auth.VerifyMethod(m))
		}
	}
	acc := make([]account, w.Acct+1)
	for i := range acc {
		acc[i] = account{w.User, w.Pass, "replay"}
	}
	slot := 0
	if strings.HasPrefix(w.Conv, "client-reconnect-") {
		slot = udpSlotBase
	}
	srv, err := startServer(methods, acc, slot)
	if err != nil {
		run.Fatal("cannot start server: %v", err)
	}
	defer srv.close()
	r := run.Rand("replay", 0)
	for i := 0; i < 8; i++ {
		switch {
		case strings.HasPrefix(w.Conv, "client-reconnect-"):
			clientReconnectRun(srv, w.Acct, strings.TrimPrefix(w.Conv, "client-reconnect-"), r)
		case strings.HasPrefix(w.Conv, "client"):
			clientRun(srv, w.Acct, w.Right, r)
		default:
			conversation(r, srv, auth.VerifyMethod(w.Scheme), base.Method(w.Request), w.Acct, w.Conv)
		}
	}
}

func main() {
	run = vlib.Start("C10", "exploration")
	lists := methodLists()

	if run.Replay != "" {
		var probe struct {
			Kind string `json:"kind"`
		}
		if err := run.LoadReplay(&probe); err != nil {
			run.Fatal("cannot load replay: %v", err)
		}
		if probe.Kind == "wire" {
			var w wireWitness
			_ = run.LoadReplay(&w)
			wireReplay(&w)
		} else {
			var w pureWitness
			_ = run.LoadReplay(&w)
			pureReplay(&w)
		}
		run.Finish(evals.Load(), "replay")
	}

	// ---- pure part
	nSets := run.Pick(100000, 3000000)
	const shards = 128
	run.Parallel(shards, func(_, i int) {
		r := run.Rand("pure", i)
		st := map[string]int64{}
		defer func() {
			for k, v := range st {
				run.Count(k, v)
			}
		}()
		for n := 0; n < nSets/shards; n++ {
			c := &credSet{st: st, allLists: !run.Quick() && n%8 == 0, relax: n%3 == 0, user: genUser(r), realm: genRealm(r), nonce: genNonce(r), method: reqMethods[r.Intn(len(reqMethods))], url: genURL(r)}
			c.pass, c.passClass = genPass(r)
			checkSet(r, c, lists)
		}
	}, func(i int, v any, stack string) {
		run.Violation("verify/panic/"+vlib.PanicSite(stack), fmt.Sprintf("panic: %v", v), pureWitness{Kind: "pure", Clause: "panic", Detail: stack})
	})

	// ---- wire part
	rounds := run.Pick(1, 36)
	accounts := fixedAccounts(run.Rand("accounts", 0), 24)
	all := append([][]auth.VerifyMethod{nil}, lists...)
	var servers []*wireServer
	for i, l := range all {
		s, err := startServer(l, accounts, i)
		if err != nil {
			run.Fatal("cannot start a server on loopback: %v", err)
		}
		servers = append(servers, s)
	}
	// the same method lists once more, with UDP: clients that reconnect (redirect, UDP fallback)
	var udpServers []*wireServer
	for i, l := range all {
		s, err := startServer(l, accounts, udpSlotBase+i)
		if err != nil {
			run.Fatal("cannot start a UDP server on loopback: %v", err)
		}
		udpServers = append(udpServers, s)
	}
	type job struct {
		srv    *wireServer
		sch    auth.VerifyMethod
		method base.Method
		conv   string
		client int // 0 = raw conversation, 1 = client right, 2 = client wrong
		n      int
	}
	var jobs []job
	wireMethods := []base.Method{base.Describe, base.Announce, base.Setup, base.GetParameter, base.SetParameter}
	for round := 0; round < rounds; round++ {
		for _, s := range servers {
			for _, sch := range effective(s.methods) {
				for _, m := range wireMethods {
					jobs = append(jobs, job{srv: s, sch: sch, method: m, conv: "full"})
					jobs = append(jobs, job{srv: s, sch: sch, method: m, conv: []string{"wrong-after", "wrong-first"}[(len(jobs)/2)%2]})
				}
			}
			for k := 0; k < 4; k++ {
				jobs = append(jobs, job{srv: s, client: 1})
			}
			jobs = append(jobs, job{srv: s, client: 2})
		}
		for _, s := range udpServers {
			jobs = append(jobs, job{srv: s, client: 3}, job{srv: s, client: 3}, job{srv: s, client: 4})
		}
	}
	for i := range jobs {
		jobs[i].n = i
	}
	run.Parallel(len(jobs), func(_, i int) {
		j := jobs[i]
		r := run.Rand("wire", i)
		acct := r.Intn(len(accounts))
		if i < len(accounts)*4 {
			acct = i % len(accounts) // every account at least a few times
		}
		switch j.client {
		case 0:
			conversation(r, j.srv, j.sch, j.method, acct, j.conv)
		case 1:
			clientRun(j.srv, acct, true, r)
		case 3:
			clientReconnectRun(j.srv, acct, "redirect", r)
		case 4:
			clientReconnectRun(j.srv, acct, "udp-fallback", r)
		default:
			clientRun(j.srv, acct, false, r)
		}
	}, func(i int, v any, stack string) {
		run.Violation("wire/panic/"+vlib.PanicSite(stack), fmt.Sprintf("panic: %v", v), wireWitness{Kind: "wire", Trace: []string{stack}})
	})
	for _, s := range append(servers, udpServers...) {
		s.close()
	}

	if run.Get("wire:outcome:right-credentials->200") == 0 && run.Violations() == 0 {
		run.Fatal("wire part observed nothing")
	}
	run.Extra("method_lists", len(all))
	run.Assume("user names contain neither ':' nor '\"' and are not empty; realms and nonces contain no '\"'; header values contain no control characters")
	run.Assume("Basic credentials are not bound to realm, nonce, request method or URL: those perturbations apply to the Digest schemes only")
	run.Assume("a digest uri given as the request's own path?query (RFC 2617 relative form) is the same URL, not a deviation; it is not generated as a perturbation")
	run.Finish(evals.Load(),
		"pure: PRNG-generated (user, password, realm, nonce, request method, URL) sets; each is signed by auth.Sender for the challenge of every enabled-method list "+
			"(15 ordered subsets + library default) and every single scheme a client may pick, passed through Request.Marshal/Unmarshal and verified; per accepted scheme every single-field perturbation + the SETUP relaxation shapes. "+
			"wire: scripted conversations (server list x scheme x request method x kind) and gortsplib.Client DESCRIBE runs against live servers. "+
			"distinct_nontrivial = distinct credential sets + distinct (server list, scheme, request method, account) conversations that reached 200")
}
